/-
`modeld`: the line-protocol driver.  One scenario per input line, one result
line per scenario.  Imports executable models only (no proofs, no Mathlib), so
that it links as a native executable.
-/
import Compress.Drv.XFlateReader
import Compress.Drv.Meta
import Compress.Drv.XFlateOpen
import Compress.Drv.Brotli
import Compress.Drv.XFlateWriter
import Compress.Drv.Prefix
import Compress.Drv.Flate
import Compress.Drv.Window
import Compress.Drv.BitIO
import Compress.Drv.Wrap
import Compress.Drv.Bzip2
import Compress.Drv.WriterApi
import Compress.Drv.ReaderApi
import Compress.Drv.MetaReaderApi

open Compress.Util Compress.Drv

def processLine (brotliDict : ByteArray) (line : String) : String :=
  let toks := (line.trimAscii.toString.splitOn " ").filter (· ≠ "")
  match toks with
  | [] => ""
  | kind :: rest =>
    let kv := kvs rest
    let id := lookupD kv "id" "?"
    let out :=
      match kind with
      | "xr" => handleXr kv
      | "xc" => handleXc kv
      | "xa" => handleXa kv
      | "brd" => handleBrd brotliDict kv
      | "btr" => handleBtr kv
      | "brr" => handleBrr brotliDict kv
      | "xo" => handleXo kv
      | "xw" => handleXw kv
      | "fl" => handleFl kv
      | "flr" => handleFlr kv
      | "flrr" => handleFlrr kv
      | "win" => handleWin kv
      | "bz" => handleBz kv
      | "bzw" => handleBzw kv
      | "bzr" => handleBzr kv
      | "rle1e" => handleRle1e kv
      | "rle1d" => handleRle1d kv
      | "mtfe" => handleMtfe kv
      | "mtfd" => handleMtfd kv
      | "bwtd" => handleBwtd kv
      | "bwte" => handleBwte kv
      | "bzcrc" => handleBzcrc kv
      | "br" => handleBr kv
      | "bw" => handleBw kv
      | "brw" => handleBrw kv
      | "gp" => handleGp kv
      | "gl" => handleGl kv
      | "dec" => handleDec kv
      | "enc" => handleEnc kv
      | "rng" => handleRng kv
      | "menc" => handleMenc kv
      | "mdec" => handleMdec kv
      | "mrs" => handleMrs kv
      | "lwm" => handleLwm kv
      | "lrm" => handleLrm brotliDict kv
      | "mrm" => handleMrm kv
      | _ => "bad-kind"
    s!"{id} {out}"

partial def loop (brotliDict : ByteArray) (hin : IO.FS.Stream) (hout : IO.FS.Stream) : IO Unit := do
  let line ← hin.getLine
  if line.isEmpty then return ()
  let r := processLine brotliDict line
  if r ≠ "" then hout.putStrLn r
  loop brotliDict hin hout

/-- the Brotli static dictionary (RFC 7932 appendix A), from the file named by
    `BROTLI_DICT` (dumped from /repo by the harness on every run); empty if unset. -/
def loadBrotliDict : IO ByteArray := do
  match ← IO.getEnv "BROTLI_DICT" with
  | none => pure ByteArray.empty
  | some path =>
    try IO.FS.readBinFile path catch _ => pure ByteArray.empty

def main : IO Unit := do
  let hin ← IO.getStdin
  let hout ← IO.getStdout
  let brotliDict ← loadBrotliDict
  loop brotliDict hin hout
  hout.flush
