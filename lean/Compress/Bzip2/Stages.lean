/-
Models of the bzip2 pipeline stages of /repo/bzip2: RLE1 (rle1.go), move-to-
front with RUNA/RUNB run lengths (mtf_rle2.go, internal/common.go), the inverse
Burrows-Wheeler transform (bwt.go `Decode`) and the forward transform as its
specification (sort the rotations; the Go code uses SA-IS, which is not
modelled), the checksum (common.go).  Core-only.
-/
import Compress.Bits

namespace Compress.Bzip2
open Compress

/-! ### RLE1 -/

/-- state of `runLengthEncoding` when writing. -/
structure RleW where
  out     : Array UInt8 := #[]     -- rle.buf[:rle.idx]
  cap     : Nat                    -- len(rle.buf)
  lastVal : UInt8 := 0
  lastCnt : Nat := 0
deriving Repr, Inhabited

/-- `runLengthEncoding.Write` for one byte; `none` = `rleDone` (block full, byte not consumed). -/
def RleW.put (r : RleW) (b : UInt8) : Option RleW :=
  let cnt := (if r.lastVal ≠ b then 0 else r.lastCnt) + 1
  if cnt < 4 then
    if r.out.size ≥ r.cap then none else some { r with out := r.out.push b, lastVal := b, lastCnt := cnt }
  else if cnt = 4 then
    if r.out.size + 1 ≥ r.cap then none
    else some { r with out := (r.out.push b).push 0, lastVal := b, lastCnt := cnt }
  else if cnt < 256 then
    let i := r.out.size - 1
    some { r with out := r.out.setIfInBounds i (r.out.getD i 0 + 1), lastVal := b, lastCnt := cnt }
  else
    if r.out.size ≥ r.cap then none else some { r with out := r.out.push b, lastVal := b, lastCnt := 1 }

/-- `Write(buf)`: bytes consumed and new state. -/
def RleW.write : RleW → List UInt8 → Nat → RleW × Nat
  | r, [], n => (r, n)
  | r, b :: bs, n =>
    match r.put b with
    | none => (r, n)
    | some r' => RleW.write r' bs (n + 1)

/-- RLE1 encoding of a whole (short enough) input. -/
def rle1Encode (cap : Nat) (xs : List UInt8) : List UInt8 × Nat :=
  let (r, n) := RleW.write { cap := cap } xs 0
  (r.out.toList, n)

/-- state of `runLengthEncoding` when reading. -/
structure RleR where
  buf     : Array UInt8
  idx     : Nat := 0
  lastVal : UInt8 := 0
  lastCnt : Int := 0
deriving Repr, Inhabited

inductive RleStatus where | ok | done | corrupted
deriving Repr, DecidableEq, Inhabited

/-- `runLengthEncoding.Read` producing up to `n` bytes. -/
def RleR.read : Nat → RleR → List UInt8 → RleR × List UInt8 × RleStatus
  | 0, r, acc => (r, acc.reverse, .ok)
  | n+1, r, acc =>
    -- the switch
    let step : Except RleStatus RleR :=
      if r.lastCnt = -4 then
        if r.idx ≥ r.buf.size then .error .corrupted
        else
          let c : Int := (r.buf.getD r.idx 0).toNat
          let r := { r with lastCnt := c, idx := r.idx + 1 }
          if c > 0 then .ok r
          else
            -- fallthrough into `lastCnt <= 0`
            if r.idx ≥ r.buf.size then .error .done
            else
              let b := r.buf.getD r.idx 0
              let r := { r with idx := r.idx + 1 }
              .ok (if b ≠ r.lastVal then { r with lastCnt := 0, lastVal := b } else r)
      else if r.lastCnt ≤ 0 then
        if r.idx ≥ r.buf.size then .error .done
        else
          let b := r.buf.getD r.idx 0
          let r := { r with idx := r.idx + 1 }
          .ok (if b ≠ r.lastVal then { r with lastCnt := 0, lastVal := b } else r)
      else .ok r
    match step with
    | .error st => (r, acc.reverse, st)
    | .ok r => RleR.read n { r with lastCnt := r.lastCnt - 1 } (r.lastVal :: acc)

/-- specification of RLE1 decoding on lists: after four equal bytes comes a
    count byte.  `none` = the data ends where a count byte is due. -/
def rle1Decode : Nat → List UInt8 → Option UInt8 → Nat → List UInt8 → Option (List UInt8)
  | 0, _, _, _, acc => some acc.reverse
  | _, [], _, run, acc => if run = 4 then none else some acc.reverse
  | fuel+1, b :: bs, last, run, acc =>
    if run = 4 then
      -- b is a count
      rle1Decode fuel bs last 0 ((List.replicate b.toNat (last.getD 0)) ++ acc)
    else if last = some b ∧ run > 0 then rle1Decode fuel bs last (run + 1) (b :: acc)
    else rle1Decode fuel bs (some b) 1 (b :: acc)

/-! ### move-to-front + RLE2 -/

/-- move element at index `i` to the front. -/
def moveFront (dict : List UInt8) (i : Nat) : List UInt8 :=
  match dict[i]? with
  | some v => v :: (dict.take i ++ dict.drop (i + 1))
  | none => dict

/-- bits of `num + 1` below the leading one, least significant first
    (`for rc := lastNum + 1; rc != 1; rc >>= 1 { emit rc & 1 }`). -/
def runSyms : Nat → Nat → List Nat
  | 0, _ => []
  | fuel+1, rc => if rc ≤ 1 then [] else (rc % 2) :: runSyms fuel (rc / 2)

/-- `moveToFront.Encode`. -/
def mtfEncode : List UInt8 → List UInt8 → Nat → List Nat → List Nat
  | _, [], lastNum, acc =>
    (acc.reverse ++ (if lastNum > 0 then runSyms 64 (lastNum + 1) else []))
  | dict, v :: vs, lastNum, acc =>
    let idx := (dict.findIdx? (· == v)).getD 0
    let dict' := moveFront dict idx
    if idx = 0 then mtfEncode dict' vs (lastNum + 1) acc
    else
      let acc := if lastNum > 0 then (runSyms 64 (lastNum + 1)).reverse ++ acc else acc
      mtfEncode dict' vs 0 ((idx + 1) :: acc)

/-- `moveToFront.Decode`; `none` = corrupted (run or output exceeds the block size). -/
def mtfDecode (blkSize : Nat) : List UInt8 → List Nat → Nat → Nat → Array UInt8 → Option (Array UInt8)
  | dict, [], lastCnt, lastRun, vals =>
    if lastCnt > 0 then
      let cnt := (2 ^ lastCnt % 2 ^ 32 ||| lastRun) - 1
      if lastCnt > 24 ∨ vals.size + cnt > blkSize then none
      else some (vals ++ Array.replicate cnt (dict.headD 0))
    else some vals
  | dict, sym :: syms, lastCnt, lastRun, vals =>
    if sym < 2 then
      mtfDecode blkSize dict syms (lastCnt + 1) ((lastRun ||| (sym * 2 ^ lastCnt)) % 2 ^ 32) vals
    else
      let flushed : Option (Array UInt8) :=
        if lastCnt > 0 then
          let cnt := (2 ^ lastCnt % 2 ^ 32 ||| lastRun) - 1
          if lastCnt > 24 ∨ vals.size + cnt > blkSize then none
          else some (vals ++ Array.replicate cnt (dict.headD 0))
        else some vals
      match flushed with
      | none => none
      | some vals =>
        match dict[sym - 1]? with
        | none => none                      -- Go: index out of range (cannot happen: sym ≤ len dict)
        | some val =>
          if vals.size ≥ blkSize then none
          else mtfDecode blkSize (moveFront dict (sym - 1)) syms 0 0 (vals.push val)

/-! ### Burrows-Wheeler -/

/-- `burrowsWheelerTransform.Decode(buf, ptr)`: counting sort to build the
    successor permutation, then follow it from the origin pointer. -/
def bwtDecode (buf : Array UInt8) (ptr : Nat) : Array UInt8 :=
  if buf.size = 0 then buf
  else
    -- cumm[ch] = number of bytes smaller than ch
    let counts : Array Nat := buf.foldl (fun c v => c.modify v.toNat (· + 1)) (Array.replicate 256 0)
    let cumm : Array Nat := (counts.foldl (fun (st : Array Nat × Nat) v => (st.1.push st.2, st.2 + v)) (#[], 0)).1
    let (perm, _) := (List.range buf.size).foldl (fun (st : Array Nat × Array Nat) i =>
        let b := (buf.getD i 0).toNat
        let pos := st.2.getD b 0
        (st.1.setIfInBounds pos i, st.2.setIfInBounds b (pos + 1))) (Array.replicate buf.size 0, cumm)
    let rec chase (k : Nat) (i : Nat) (acc : Array UInt8) : Array UInt8 :=
      match k with
      | 0 => acc
      | k+1 => chase k (perm.getD i 0) (acc.push (buf.getD i 0))
    chase buf.size (perm.getD ptr 0) #[]

/-- rotation `k` of a list. -/
def rotate (xs : List UInt8) (k : Nat) : List UInt8 := xs.drop k ++ xs.take k

/-- compare rotations `i` and `j` of `a` byte by byte (at most `fuel` bytes):
    `lt`, `gt`, or `eq` when the rotations are equal. -/
def cmpRot (a : Array UInt8) (n : Nat) : Nat → Nat → Nat → Ordering
  | 0, _, _ => .eq
  | fuel+1, i, j =>
    let x := a.getD (i % n) 0
    let y := a.getD (j % n) 0
    if x < y then .lt else if y < x then .gt else cmpRot a n fuel (i + 1) (j + 1)

/-- order of rotation indices: by rotation; equal rotations (periodic input)
    by descending index, which is what a suffix sort of the doubled string gives
    (the shorter of two equal-prefixed suffixes is smaller). -/
def rotLe (a : Array UInt8) (i j : Nat) : Bool :=
  match cmpRot a a.size a.size i j with
  | .lt => true
  | .gt => false
  | .eq => decide (i ≥ j)

/-- specification of the forward transform: last column of the sorted
    rotations and the row of the original string. -/
def bwtSpec (xs : List UInt8) : List UInt8 × Nat :=
  let a := xs.toArray
  let n := xs.length
  let order := (List.range n).mergeSort (fun i j => rotLe a i j)
  let last := order.map (fun k => a.getD ((k + n - 1) % n) 0)
  (last, (order.findIdx? (· == 0)).getD 0)

/-! ### CRC -/

/-- one byte of bzip2's CRC-32 (polynomial 0x04c11db7, MSB first, no reflection). -/
def crcByte (crc : Nat) (b : UInt8) : Nat :=
  let rec go (k : Nat) (c : Nat) : Nat :=
    match k with
    | 0 => c
    | k+1 => go k (if c / 2 ^ 31 % 2 = 1 then ((c * 2) % 2 ^ 32) ^^^ 0x04c11db7 else (c * 2) % 2 ^ 32)
  go 8 (crc ^^^ (b.toNat * 2 ^ 24))

/-- bzip2 block checksum of a byte string. -/
def blockCRC (bs : List UInt8) : Nat := (bs.foldl crcByte 0xffffffff) ^^^ 0xffffffff

/-- reverse the 32 bits of `v`. -/
def rev32 (v : Nat) : Nat := Bits.toNat (Bits.ofNat v 32).reverse

def revByte8 (b : UInt8) : UInt8 := UInt8.ofNat (Bits.toNat (Bits.ofNat b.toNat 8).reverse)

/-- one byte of the reflected IEEE CRC-32 update (`hash/crc32`), on the raw register. -/
def crc32RawByte (crc : Nat) (b : UInt8) : Nat :=
  let rec go (k : Nat) (c : Nat) : Nat :=
    match k with
    | 0 => c
    | k+1 => go k (if c % 2 = 1 then (c / 2) ^^^ 0xEDB88320 else c / 2)
  go 8 (crc ^^^ b.toNat)

/-- `crc.update` as the Go code computes it: bit-reverse the value, run the
    standard reflected CRC-32 (`crc32.Update` complements on entry and exit) over
    the bit-reversed bytes, reverse back. -/
def crcUpdateGo (val : Nat) (bs : List UInt8) : Nat :=
  let c0 := rev32 val ^^^ 0xffffffff
  let c1 := (bs.map revByte8).foldl crc32RawByte c0
  rev32 (c1 ^^^ 0xffffffff)

/-- `endCRC = (endCRC<<1 | endCRC>>31) ^ blkCRC`. -/
def combineCRC (endCRC blk : Nat) : Nat := ((endCRC * 2) % 2 ^ 32 + endCRC / 2 ^ 31) ^^^ blk

end Compress.Bzip2
