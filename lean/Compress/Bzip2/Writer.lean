/-
Model of /repo/bzip2/writer.go: `Write` (RLE1 into a block buffer of
`level*100000` bytes, flushing a block whenever it is full), `flush`,
`encodeBlock`, `encodePrefix` (tree count by symbol count, round-robin
selectors, `GenerateLengths` limited to 20 bits, delta-coded lengths),
`Close` (end magic and combined CRC).  The forward BWT is the rotation-sort
specification `bwtSpec`; the Go code's SA-IS suffix sort is not modelled and is
tied to it by the stage correspondence (family bzst).  Sink failures are not
modelled here (family life covers them).
Core-only.
-/
import Compress.Bzip2.Spec
import Compress.Prefix.Codes

namespace Compress.Bzip2
open Compress Compress.Prefix

/-- `n` bits of `v`, most significant first (`WriteBitsBE64`). -/
def bitsBE (v n : Nat) : Bits := (Bits.ofNat v n).reverse

/-- selector code: `i` ones and a zero. -/
def selCode (i : Nat) : Bits := List.replicate i true ++ (if i < 6 then [false] else [])

/-- move-to-front of the selector list over the identity dictionary. -/
def mtfSelsEncode : List Nat → List Nat → List Nat → List Nat
  | [], _, acc => acc.reverse
  | v :: vs, dict, acc =>
    let idx := (dict.findIdx? (· == v)).getD 0
    mtfSelsEncode vs (v :: (dict.take idx ++ dict.drop (idx + 1))) (idx :: acc)

/-- number of trees for a symbol count (`for i, lim := range {200,600,1200,2400}`). -/
def numTreesFor (n : Nat) : Nat :=
  if n < 200 then 2 else if n < 600 then 3 else if n < 1200 then 4 else if n < 2400 then 5 else 6

/-- symbol counts of tree `t`: groups of 50 symbols go round-robin to the trees. -/
def treeCounts (syms : List Nat) (numSyms numTrees t : Nat) : List Nat :=
  let rec go (l : List Nat) (i : Nat) (acc : Array Nat) : Array Nat :=
    match l with
    | [] => acc
    | s :: rest =>
      go rest (i + 1) (if (i / numBlockSyms) % numTrees = t then acc.modify s (· + 1) else acc)
  (go syms 0 (Array.replicate numSyms 0)).toList

/-- lengths of one tree: sort by (count, symbol), `GenerateLengths(·, 20)`, back to symbol order. -/
def treeLens (cnts : List Nat) : Option (List Nat) :=
  let order := (List.range cnts.length).mergeSort fun a b =>
    decide (cnts.getD a 0 < cnts.getD b 0) || (cnts.getD a 0 == cnts.getD b 0 && decide (a ≤ b))
  match generateLengths (order.map fun i => cnts.getD i 0) maxPrefixBits with
  | none => none
  | some ls =>
    some ((List.range cnts.length).map fun s => ls.getD ((order.findIdx? (· == s)).getD 0) 0)

/-- `WritePrefixCodes` for one tree: 5-bit start length, then per symbol "11"
    to go down, "10" to go up, "0" to accept. -/
def lensBits (lens : List Nat) : Bits :=
  let rec go : List Nat → Nat → Bits
    | [], _ => []
    | l :: rest, cur =>
      (List.replicate (cur - l) [true, true]).flatten ++ (List.replicate (l - cur) [true, false]).flatten ++
        [false] ++ go rest l
  bitsBE (lens.headD 0) 5 ++ go lens (lens.headD 0)

/-- canonical code words (MSB first) for a complete length vector. -/
def codeWords (lens : List Nat) : List Bits :=
  match generatePrefixes ((List.range lens.length).map fun s => { sym := s, len := lens.getD s 0 }) with
  | .ok cs => cs.map Code.word
  | .error _ => lens.map fun _ => []

/-- `encodePrefix`. `none` = the Go code would panic (cannot happen, see C04). -/
def encodePrefix (syms0 : List Nat) (numSymsDict : Nat) : Option Bits :=
  let numSyms := numSymsDict + 2
  let syms := syms0 ++ [numSyms - 1]
  let numTrees := numTreesFor syms.length
  let numSels := (syms.length + numBlockSyms - 1) / numBlockSyms
  let sels := (List.range numSels).map (· % numTrees)
  let lensOpt := (List.range numTrees).mapM fun t => treeLens (treeCounts syms numSyms numTrees t)
  match lensOpt with
  | none => none
  | some allLens =>
    let words := allLens.map codeWords
    let selBits := ((mtfSelsEncode sels (List.range 6) []).map selCode).flatten
    let body := ((List.range syms.length).map fun i =>
        ((words.getD ((i / numBlockSyms) % numTrees) []).getD (syms.getD i 0) [])).flatten
    some (bitsBE numTrees 3 ++ bitsBE numSels 15 ++ selBits ++ (allLens.map lensBits).flatten ++ body)

/-- the 16+16×k bit symbol map. -/
def symMapBits (used : List UInt8) : Bits :=
  let has (c : Nat) : Bool := used.any (·.toNat == c)
  let hi := (List.range 16).map fun i => (List.range 16).any fun j => has (16 * i + j)
  hi ++ ((List.range 16).filter (fun i => hi.getD i false)).flatMap fun i => (List.range 16).map fun j => has (16 * i + j)

/-- `encodeBlock` for the RLE1-encoded block `vals` whose raw bytes have checksum `crc`. -/
def encodeBlock (vals : List UInt8) (crc : Nat) : Option Bits :=
  let (last, ptr) := bwtSpec vals
  let dict := (List.range 256).filterMap fun c => if vals.any (·.toNat == c) then some (UInt8.ofNat c) else none
  let syms := mtfEncode dict last 0 []
  match encodePrefix syms dict.length with
  | none => none
  | some pb =>
    some (bitsBE blkMagic 48 ++ bitsBE crc 32 ++ [false] ++ bitsBE ptr 24 ++ symMapBits dict ++ pb)

/-- split the input into blocks the way `Write`/`flush` do: RLE1 fills the block
    buffer until it refuses a byte. Returns (rle bytes, raw bytes) per block. -/
def splitBlocks (cap : Nat) : Nat → List UInt8 → List (List UInt8 × List UInt8)
  | 0, _ => []
  | fuel+1, data =>
    if data.isEmpty then []
    else
      let (out, n) := rle1Encode cap data
      if n = 0 then [] else (out, data.take n) :: splitBlocks cap fuel (data.drop n)

/-- the whole stream for `level` and the concatenation of everything written. -/
def encodeStream (level : Nat) (data : List UInt8) : Option (List UInt8) :=
  let blocks := splitBlocks (level * blockSize) (data.length + 1) data
  let hdr := bitsBE hdrMagic 16 ++ bitsBE 0x68 8 ++ bitsBE (0x30 + level) 8
  let step := fun (st : Option (Bits × Nat)) (blk : List UInt8 × List UInt8) =>
    match st with
    | none => none
    | some (bits, endCRC) =>
      let crc := blockCRC blk.2
      match encodeBlock blk.1 crc with
      | none => none
      | some bb => some (bits ++ bb, combineCRC endCRC crc)
  match blocks.foldl step (some (hdr, 0)) with
  | none => none
  | some (bits, endCRC) =>
    some (Bits.toBytesMSB (bits ++ bitsBE endMagic 48 ++ bitsBE endCRC 32))

/-- `NewWriter` accepts level 0 (= default 6) and 1..9. -/
def validLevel (lvl : Int) : Bool := decide (lvl = 0 ∨ (1 ≤ lvl ∧ lvl ≤ 9))

end Compress.Bzip2
