/-
API-level model of /repo/bzip2/writer.go `Writer`: `NewWriter`, `Reset`,
`Write`, `flush`, `Close` with the `err` latch, the `done` flag, the
`InputOffset`/`OutputOffset` bookkeeping, over

* the stateful RLE1 encoder of `Bzip2/Stages.lean` (`RleW`, the model of
  rle1.go), so that block boundaries fall exactly where the Go code puts them
  for every split of the input into `Write` calls;
* the block encoder of `Bzip2/Writer.lean`, restated as a list of *fields* (one
  per `WriteBits`/`WriteSymbol`/`TryWriteSymbol` call) whose concatenation is
  `encodeBlock` (`flat_encodeBlockF`, proved in Proofs/BzWApiFields.lean);
* an exact model of when internal/prefix.Writer hands bytes to the sink: a bit
  buffer (here a bit list in stream order instead of a reversed 64-bit word),
  the 512-byte staging buffer written out by `PushBits` once it holds >= 504
  bytes and by `Flush`, the staged bytes *not* shifted down after a short
  write, the `errors.Panic` of `WriteBits` recovered by the caller, and the
  `wr.Flush()` that bzip2.Writer issues after every block and in `Close`
  (also after a recovered panic);
* the adversarial `Sink` of `XFlate/Writer.lean`.
Core-only.
-/
import Compress.Bzip2.Writer
import Compress.XFlate.Writer

namespace Compress.Bzip2
open Compress Compress.Prefix
open Compress.XFlate (Sink Err)

/-! ### fields -/

/-- how a group of bits is handed to prefix.Writer. -/
inductive FKind where
  | push   -- `WriteBits` / `WriteSymbol`: `PushBits` first, panic on its error
  | try    -- `TryWriteSymbol`, falling back to `WriteSymbol` when the 64-bit buffer is too full
  | pad    -- `WritePads(0)`: zero bits up to the byte boundary, no `PushBits`
deriving Repr, DecidableEq, Inhabited

abbrev Field := Bits × FKind

/-- the bits of a field list (pads excluded). -/
def flat (fs : List Field) : Bits := (fs.map Prod.fst).flatten

def pushF (b : Bits) : List Field := [(b, .push)]

/-- `WriteBitsBE64(v, nb)` with `nb > 32`: two `WriteBits` calls, 32 bits and the rest. -/
def pushF64 (b : Bits) : List Field := [(b.take 32, .push), (b.drop 32, .push)]

/-- `WritePrefixCodes` for one tree, one field per `WriteBits` call. -/
def lensFields (lens : List Nat) : List Field :=
  let rec go : List Nat → Nat → List Field
    | [], _ => []
    | l :: rest, cur =>
      List.replicate (cur - l) ([true, true], FKind.push) ++ List.replicate (l - cur) ([true, false], FKind.push) ++
        [([false], FKind.push)] ++ go rest l
  (bitsBE (lens.headD 0) 5, FKind.push) :: go lens (lens.headD 0)

/-- `encodePrefix`, field by field. -/
def encodePrefixF (syms0 : List Nat) (numSymsDict : Nat) : Option (List Field) :=
  let numSyms := numSymsDict + 2
  let syms := syms0 ++ [numSyms - 1]
  let numTrees := numTreesFor syms.length
  let numSels := (syms.length + numBlockSyms - 1) / numBlockSyms
  let sels := (List.range numSels).map (· % numTrees)
  let lensOpt := (List.range numTrees).mapM fun t => treeLens (treeCounts syms numSyms numTrees t)
  match lensOpt with
  | none => none
  | some allLens =>
    let words := allLens.map codeWords
    let selF := (mtfSelsEncode sels (List.range 6) []).map fun i => (selCode i, FKind.push)
    let body := (List.range syms.length).map fun i =>
        (((words.getD ((i / numBlockSyms) % numTrees) []).getD (syms.getD i 0) []), FKind.try)
    some (pushF (bitsBE numTrees 3) ++ pushF (bitsBE numSels 15) ++ selF ++ (allLens.map lensFields).flatten ++ body)

/-- the symbol map: one 16-bit `WriteBits` for the ranges in use, one per range in use. -/
def symMapF (used : List UInt8) : List Field :=
  let has (c : Nat) : Bool := used.any (·.toNat == c)
  let hi := (List.range 16).map fun i => (List.range 16).any fun j => has (16 * i + j)
  (hi, FKind.push) :: ((List.range 16).filter (fun i => hi.getD i false)).map fun i =>
    ((List.range 16).map fun j => has (16 * i + j), FKind.push)

/-- `encodeBlock`, field by field. -/
def encodeBlockF (vals : List UInt8) (crc : Nat) : Option (List Field) :=
  let (last, ptr) := bwtSpec vals
  let dict := (List.range 256).filterMap fun c => if vals.any (·.toNat == c) then some (UInt8.ofNat c) else none
  let syms := mtfEncode dict last 0 []
  match encodePrefixF syms dict.length with
  | none => none
  | some pb =>
    some (pushF64 (bitsBE blkMagic 48) ++ pushF (bitsBE crc 32) ++ pushF [false] ++ pushF (bitsBE ptr 24) ++
          symMapF dict ++ pb)

def hdrFields (level : Nat) : List Field :=
  pushF (bitsBE hdrMagic 16) ++ pushF (bitsBE 0x68 8) ++ pushF (bitsBE (0x30 + level) 8)

def footFields (endCRC : Nat) : List Field :=
  pushF64 (bitsBE endMagic 48) ++ pushF (bitsBE endCRC 32) ++ [([], FKind.pad)]

/-! ### prefix.Writer in big-endian mode: when do bytes reach the sink -/

structure BitW where
  bits  : Bits := []            -- the bit buffer in stream order (`numBits = bits.length`)
  stage : List UInt8 := []      -- pw.buf[:pw.cntBuf]
  sink  : Sink := {}
  off   : Int := 0              -- pw.Offset
deriving Repr, Inhabited

def stageLimit : Nat := 504     -- len(pw.buf) - 8

/-- `cnt, err := pw.wr.Write(pw.buf[:pw.cntBuf]); pw.cntBuf -= cnt; pw.Offset += cnt`. -/
def BitW.emitStage (w : BitW) : BitW × Option Err :=
  let r := w.sink.write w.stage
  ({ w with sink := r.1, stage := w.stage.take (w.stage.length - r.2.1), off := w.off + r.2.1 }, r.2.2)

/-- `PushBits`. -/
def BitW.pushBits (w : BitW) : BitW × Option Err :=
  let r := if w.stage.length ≥ stageLimit then w.emitStage else (w, none)
  match r.2 with
  | some err => (r.1, some err)
  | none =>
    let nb := r.1.bits.length / 8
    ({ r.1 with stage := r.1.stage ++ Bits.toBytesMSB (r.1.bits.take (8 * nb)), bits := r.1.bits.drop (8 * nb) }, none)

/-- `WriteBits` / `WriteSymbol`; an error stands for the recovered panic. -/
def BitW.pushField (w : BitW) (f : Bits) : BitW × Option Err :=
  let r := w.pushBits
  match r.2 with
  | some err => (r.1, some err)
  | none => ({ r.1 with bits := r.1.bits ++ f }, none)

def BitW.writeField (w : BitW) (f : Field) : BitW × Option Err :=
  match f.2 with
  | .push => w.pushField f.1
  | .try => if 64 - w.bits.length < f.1.length then w.pushField f.1 else ({ w with bits := w.bits ++ f.1 }, none)
  | .pad => ({ w with bits := w.bits ++ List.replicate ((8 - w.bits.length % 8) % 8) false }, none)

/-- a run of writes inside `func() { defer errors.Recover(&zw.err) ... }()`. -/
def BitW.writeFields : BitW → List Field → BitW × Option Err
  | w, [] => (w, none)
  | w, f :: fs =>
    match w.writeField f with
    | (w', some err) => (w', some err)
    | (w', none) => BitW.writeFields w' fs

/-- `Flush`. -/
def BitW.flush (w : BitW) : BitW × Option Err :=
  if w.bits.length < 8 ∧ w.stage.isEmpty then (w, none)
  else
    let r := w.pushBits
    match r.2 with
    | some err => (r.1, some err)
    | none => r.1.emitStage

/-! ### the Writer -/

structure BzW where
  level  : Nat
  err    : Option Err := none
  done   : Bool := false
  wrHdr  : Bool := false
  endCRC : Nat := 0
  rle    : RleW
  raw    : List UInt8 := []     -- bytes the RLE1 stage took for the current block (Go keeps their CRC)
  bw     : BitW := {}
  inOff  : Int := 0
  outOff : Int := 0
  acc    : List UInt8 := []     -- ghost: data accepted by Write since the last Reset
  base   : List UInt8 := []     -- ghost: what the sink held when it was attached
deriving Repr, Inhabited

/-- the pattern shared by `flush` and `Close`: writes under `errors.Recover`, then
    `zw.OutputOffset, err = zw.wr.Flush()`, keeping the first error (`errWrap` leaves
    the sink's error as it is). -/
def BzW.script (s : BzW) (fs : List Field) : BzW :=
  let r1 := ({ s.bw with off := s.outOff } : BitW).writeFields fs
  let r2 := r1.1.flush
  { s with bw := r2.1, outOff := r2.1.off, wrHdr := true,
           err := match r1.2 with | some e => some e | none => r2.2 }

/-- `zw.err = zw.flush()`. -/
def BzW.flushBlk (s : BzW) : BzW :=
  if s.rle.out.size = 0 then { s with err := none }
  else
    match encodeBlockF s.rle.out.toList (blockCRC s.raw) with
    | none => { s with err := some .internal }    -- a panic of encodePrefix (unreachable: C04_writer_total)
    | some bf =>
      let s1 := s.script ((if s.wrHdr then [] else hdrFields s.level) ++ bf)
      if s1.err ≠ none then s1
      else { s1 with endCRC := combineCRC s.endCRC (blockCRC s.raw), rle := { cap := s.rle.cap }, raw := [] }

/-- the loop of `Write`; the flag says whether every byte was taken. -/
def BzW.writeLoop : Nat → BzW → List UInt8 → BzW × Bool
  | 0, s, _ => ({ s with err := some .internal }, false)    -- out of fuel (unreachable)
  | fuel+1, s, data =>
    let r := RleW.write s.rle data 0
    let s1 := { s with rle := r.1, raw := s.raw ++ data.take r.2 }
    if (data.drop r.2).isEmpty then (s1, true)
    else
      let s2 := s1.flushBlk
      if s2.err ≠ none then (s2, false) else BzW.writeLoop fuel s2 (data.drop r.2)

/-- `Writer.Write(buf)`: new state, count, error. -/
def BzW.write (s : BzW) (data : List UInt8) : BzW × Nat × Option Err :=
  if s.err ≠ none then (s, 0, s.err)
  else
    let r := BzW.writeLoop (data.length + 2) s data
    if r.2 then ({ r.1 with inOff := r.1.inOff + data.length, acc := r.1.acc ++ data }, data.length, none)
    else (r.1, 0, r.1.err)

/-- `Writer.Close`. -/
def BzW.close (s : BzW) : BzW × Option Err :=
  if s.done then (s, none)
  else if s.err ≠ none then (s, s.err)
  else
    let s1 := s.flushBlk
    if s1.err ≠ none then (s1, s1.err)
    else
      let s2 := s1.script ((if s1.wrHdr then [] else hdrFields s1.level) ++ footFields s1.endCRC)
      if s2.err ≠ none then (s2, s2.err)
      else ({ s2 with err := some .closed, done := true }, none)

/-- `Writer.Reset(w)`. -/
def BzW.reset (s : BzW) (sink : Sink) : BzW :=
  { level := s.level, rle := { cap := s.level * blockSize }, bw := { sink := sink }, base := sink.got }

/-- `NewWriter(w, conf)`; `none` = refused. -/
def newBzW (lvl : Int) (sink : Sink) : Option BzW :=
  if validLevel lvl then
    some (BzW.reset { level := if lvl = 0 then 6 else lvl.toNat, rle := { cap := 0 } } sink)
  else none

inductive BzOp where
  | write (data : List UInt8)
  | close
  | reset (sink : Sink)
deriving Repr, Inhabited

inductive BzRes where
  | write (n : Nat) (err : Option Err)
  | close (err : Option Err)
  | reset
deriving Repr, DecidableEq, Inhabited

def BzW.step (s : BzW) : BzOp → BzW × BzRes
  | .write d => let r := s.write d; (r.1, .write r.2.1 r.2.2)
  | .close => let r := s.close; (r.1, .close r.2)
  | .reset sk => (s.reset sk, .reset)

def BzW.run : BzW → List BzOp → BzW × List BzRes
  | s, [] => (s, [])
  | s, op :: ops =>
    let r := s.step op
    let r2 := BzW.run r.1 ops
    (r2.1, r.2 :: r2.2)

/-- sinks attached by Reset have not failed before. -/
def BzOp.fresh : BzOp → Prop
  | .reset sk => sk.failed = false
  | _ => True

def BzOp.noReset : BzOp → Prop
  | .reset _ => False
  | _ => True

def BzRes.isErr : BzRes → Prop
  | .write _ e => e ≠ none
  | .close e => e ≠ none
  | .reset => False

end Compress.Bzip2
