/-
The bzip2 format as libbzip2 decodes it, written as a function on the bit
list of the input (MSB-first within bytes): stream header `BZh1`-`9`, blocks
(magic, CRC, randomisation bit, origin pointer, symbol map, 2-6 Huffman tables
with delta-coded lengths 1..20, MTF-coded selectors, symbols decoded with the C
library's limit/base/perm tables — so that incomplete and over-subscribed
length vectors mean what they mean in C —, RUNA/RUNB, MTF, inverse BWT, RLE1),
block and stream CRCs, end magic, and restart on the next stream while input
remains.  Specification side of C03 and C04.  Core-only.
-/
import Compress.Bzip2.Stages

namespace Compress.Bzip2
open Compress

inductive Verdict where
  | ok | corrupt | deprecated | unexpectedEOF
deriving Repr, DecidableEq, Inhabited

structure Result where
  out     : Array UInt8
  verdict : Verdict
deriving Repr, Inhabited

def hdrMagic : Nat := 0x425a
def blkMagic : Nat := 0x314159265359
def endMagic : Nat := 0x177245385090
def blockSize : Nat := 100000
def maxPrefixBits : Nat := 20
def numBlockSyms : Nat := 50

/-- `n` bits as a number, first bit most significant. -/
def readBE (n : Nat) (bits : Bits) : Option (Nat × Bits) :=
  let hd := bits.take n
  if hd.length < n then none else some (Bits.toNatMSB hd, bits.drop n)

/-- decode tables of `BZ2_hbCreateDecodeTables` for one length vector. -/
structure CTab where
  minLen : Nat
  maxLen : Nat
  limit  : Array Int      -- indexed by length
  base   : Array Int
  perm   : Array Nat
deriving Repr, Inhabited

def mkCTab (lens : List Nat) : CTab :=
  let minLen := lens.foldl min maxPrefixBits
  let maxLen := lens.foldl max 0
  let idx := List.range lens.length
  let perm := ((List.range (maxLen + 1 - minLen)).map (fun d =>
      idx.filter (fun j => lens.getD j 0 == minLen + d))).flatten
  -- base[i] (before the final adjustment) = number of codes shorter than i
  let cntBelow (i : Nat) : Int := ((lens.filter (· + 1 ≤ i)).length : Int)
  let sz := maxPrefixBits + 3
  let base0 : Array Int := ((List.range sz).map cntBelow).toArray
  let (limit, _) := (List.range (maxLen + 1 - minLen)).foldl (fun (st : Array Int × Int) d =>
      let i := minLen + d
      let vec := st.2 + (base0.getD (i + 1) 0 - base0.getD i 0)
      (st.1.setIfInBounds i (vec - 1), vec * 2)) (Array.replicate sz 0, 0)
  let base := (List.range (maxLen - minLen)).foldl (fun (b : Array Int) d =>
      let i := minLen + 1 + d
      b.setIfInBounds i (((limit.getD (i - 1) 0 + 1) * 2) - b.getD i 0)) base0
  { minLen := minLen, maxLen := maxLen, limit := limit, base := base, perm := perm.toArray }

inductive SymRes where
  | sym (s : Nat) (rest : Bits)
  | eof
  | bad
deriving Repr

/-- `GET_MTF_VAL`: read `minLen` bits, extend one bit at a time while the value
    exceeds the limit for the current length. -/
def CTab.decode (t : CTab) (numSyms : Nat) (bits : Bits) : SymRes :=
  match readBE t.minLen bits with
  | none => .eof
  | some (v, rest) =>
    let rec go (fuel zn : Nat) (zvec : Int) (rest : Bits) : SymRes :=
      match fuel with
      | 0 => .bad
      | fuel+1 =>
        if zn > maxPrefixBits then .bad
        else if zvec ≤ t.limit.getD zn 0 ∧ zn ≤ t.maxLen then
          let k := zvec - t.base.getD zn 0
          if k < 0 ∨ k ≥ 258 then .bad
          else
            match t.perm[k.toNat]? with
            | some s => if s < numSyms then .sym s rest else .bad
            | none => .bad
        else if zn ≥ t.maxLen then .bad
        else
          match rest with
          | [] => .eof
          | b :: rest' => go fuel (zn + 1) (zvec * 2 + (if b then 1 else 0)) rest'
    go (maxPrefixBits + 2) t.minLen (v : Int) rest

/-- delta-coded code lengths of one table. -/
def readLens : Nat → Nat → Nat → List Nat → Bits → Except Verdict (List Nat × Bits)
  | 0, _, _, _, _ => .error .corrupt
  | _, 0, _, acc, bits => .ok (acc.reverse, bits)
  | fuel+1, n+1, clen, acc, bits =>
    if clen < 1 ∨ clen > maxPrefixBits then .error .corrupt
    else
      match bits with
      | [] => .error .unexpectedEOF
      | false :: rest => readLens fuel n clen (clen :: acc) rest
      | true :: rest =>
        match rest with
        | [] => .error .unexpectedEOF
        | false :: rest' => readLens fuel (n + 1) (clen + 1) acc rest'
        | true :: rest' => readLens fuel (n + 1) (clen - 1) acc rest'

def readTables : Nat → Nat → List CTab → Bits → Except Verdict (List CTab × Bits)
  | 0, _, acc, bits => .ok (acc.reverse, bits)
  | k+1, numSyms, acc, bits =>
    match readBE 5 bits with
    | none => .error .unexpectedEOF
    | some (clen, rest) =>
      match readLens (numSyms * 64 + 64) numSyms clen [] rest with
      | .error e => .error e
      | .ok (lens, rest') => readTables k numSyms (mkCTab lens :: acc) rest'

/-- selectors: unary MTF indices. -/
def readSels (numTrees : Nat) : Nat → List Nat → Bits → Except Verdict (List Nat × Bits)
  | 0, acc, bits => .ok (acc.reverse, bits)
  | k+1, acc, bits =>
    let rec unary (fuel : Nat) (n : Nat) (bits : Bits) : Except Verdict (Nat × Bits) :=
      match fuel with
      | 0 => .ok (n, bits)
      | fuel+1 =>
        match bits with
        | [] => .error .unexpectedEOF
        | false :: rest => .ok (n, rest)
        | true :: rest => unary fuel (n + 1) rest
    match unary 6 0 bits with
    | .error e => .error e
    | .ok (v, rest) => if v ≥ numTrees then .error .corrupt else readSels numTrees k (v :: acc) rest

/-- undo the move-to-front coding of the selectors. -/
def mtfSels : List Nat → List Nat → List Nat → List Nat
  | [], _, acc => acc.reverse
  | i :: is, dict, acc =>
    match dict[i]? with
    | some v => mtfSels is (v :: (dict.take i ++ dict.drop (i + 1))) (v :: acc)
    | none => mtfSels is dict (0 :: acc)

/-- the symbols of a block up to the EOB symbol. -/
def readSyms (tabs : Array CTab) (sels : Array Nat) (numSyms limit : Nat) :
    Nat → Nat → Nat → Nat → List Nat → Bits → Except Verdict (List Nat × Bits)
  | 0, _, _, _, _, _ => .error .corrupt
  | fuel+1, blkLen, selIdx, cnt, acc, bits =>
    let sw : Except Verdict (Nat × Nat) :=
      if blkLen = 0 then
        if selIdx ≥ sels.size then .error .corrupt else .ok (numBlockSyms, selIdx + 1)
      else .ok (blkLen, selIdx)
    match sw with
    | .error e => .error e
    | .ok (blkLen, selIdx) =>
      let tab := tabs.getD (sels.getD (selIdx - 1) 0) default
      match tab.decode numSyms bits with
      | .eof => .error .unexpectedEOF
      | .bad => .error .corrupt
      | .sym s rest =>
        if s = numSyms - 1 then .ok (acc.reverse, rest)
        else if cnt ≥ limit then .error .corrupt
        else readSyms tabs sels numSyms limit fuel (blkLen - 1) selIdx (cnt + 1) (s :: acc) rest

/-- the 16×16 symbol map. -/
def readSymMap (bits : Bits) : Option (List UInt8 × Bits) :=
  match readBE 16 bits with
  | none => none
  | some (hi, rest) =>
    (List.range 16).foldl (fun (st : Option (List UInt8 × Bits)) i =>
      match st with
      | none => none
      | some (dict, bits) =>
        if (hi / 2 ^ (15 - i)) % 2 = 1 then
          match readBE 16 bits with
          | none => none
          | some (lo, rest') =>
            some (dict ++ ((List.range 16).filter (fun j => (lo / 2 ^ (15 - j)) % 2 = 1)).map (fun j => UInt8.ofNat (16 * i + j)), rest')
        else some (dict, bits)) (some ([], rest))

/-- one block after its magic: returns the block's bytes (before RLE1
    expansion), the stored CRC and the rest. -/
def readBlock (level : Nat) (bits : Bits) : Except Verdict (Array UInt8 × Nat × Bits) := do
  let (crc, b1) ← (readBE 32 bits).elim (.error .unexpectedEOF) .ok
  let (rnd, b2) ← (readBE 1 b1).elim (.error .unexpectedEOF) .ok
  if rnd ≠ 0 then throw .deprecated
  let (ptr, b3) ← (readBE 24 b2).elim (.error .unexpectedEOF) .ok
  let (dict, b4) ← (readSymMap b3).elim (.error .unexpectedEOF) .ok
  let numSyms := dict.length + 2
  if numSyms < 3 then throw .corrupt
  let (numTrees, b5) ← (readBE 3 b4).elim (.error .unexpectedEOF) .ok
  if numTrees < 2 ∨ numTrees > 6 then throw .corrupt
  let (numSels, b6) ← (readBE 15 b5).elim (.error .unexpectedEOF) .ok
  let (selsM, b7) ← readSels numTrees numSels [] b6
  let sels := mtfSels selsM (List.range 6) []
  let (tabs, b8) ← readTables numTrees numSyms [] b7
  let (syms, b9) ← readSyms tabs.toArray sels.toArray numSyms (level * blockSize) (b8.length + 2) 0 0 0 [] b8
  match mtfDecode (level * blockSize) dict syms 0 0 #[] with
  | none => throw .corrupt
  | some tt =>
    if ptr ≥ tt.size then throw .corrupt
    return (bwtDecode tt ptr, crc, b9)

/-- RLE1 expansion of a whole block; `none` = missing count byte at the end. -/
def unrle1 (blk : Array UInt8) : Option (List UInt8) :=
  rle1Decode (blk.size + 1) blk.toList none 0 []

/-- blocks of one stream. -/
def readBlocks (level : Nat) : Nat → Nat → Array UInt8 → Bits → Result × Option Bits
  | 0, _, out, _ => ({ out := out, verdict := .corrupt }, none)
  | fuel+1, endCRC, out, bits =>
    match readBE 48 bits with
    | none => ({ out := out, verdict := .unexpectedEOF }, none)
    | some (magic, b1) =>
      if magic = endMagic then
        match readBE 32 b1 with
        | none => ({ out := out, verdict := .unexpectedEOF }, none)
        | some (crc, b2) =>
          if crc ≠ endCRC then ({ out := out, verdict := .corrupt }, none)
          else ({ out := out, verdict := .ok }, some (b2.drop (b2.length % 8)))
      else if magic ≠ blkMagic then ({ out := out, verdict := .corrupt }, none)
      else
        match readBlock level b1 with
        | .error v => ({ out := out, verdict := v }, none)
        | .ok (blk, crc, rest) =>
          match unrle1 blk with
          | none =>
            -- everything before the missing count is delivered, then the error
            let part := (rle1Decode (blk.size + 1) (blk.toList.take (blk.size)) none 0 []).getD []
            ({ out := out ++ (rle1Partial blk).toArray, verdict := .corrupt }, none)
          | some data =>
            let out' := out ++ data.toArray
            if blockCRC data ≠ crc then ({ out := out', verdict := .corrupt }, none)
            else readBlocks level fuel (combineCRC endCRC crc) out' rest
where
  /-- bytes a resumable RLE1 reader hands out before it finds the count byte missing. -/
  rle1Partial (blk : Array UInt8) : List UInt8 :=
    let r : RleR := { buf := blk }
    (RleR.read (256 * blk.size + 8) r []).2.1

/-- the sequence of streams. -/
def decodeStreams : Nat → Nat → Array UInt8 → Bits → Result
  | 0, _, out, _ => { out := out, verdict := .corrupt }
  | fuel+1, nStreams, out, bits =>
    if bits.isEmpty then
      { out := out, verdict := if nStreams > 0 then .ok else .unexpectedEOF }
    else
      match readBE 16 bits with
      | none => { out := out, verdict := .unexpectedEOF }
      | some (m, b1) =>
        if m ≠ hdrMagic then { out := out, verdict := .corrupt }
        else
          match readBE 8 b1 with
          | none => { out := out, verdict := .unexpectedEOF }
          | some (ver, b2) =>
            if ver ≠ 0x68 then { out := out, verdict := if ver = 0x30 then .deprecated else .corrupt }
            else
              match readBE 8 b2 with
              | none => { out := out, verdict := .unexpectedEOF }
              | some (lv, b3) =>
                if lv < 0x31 ∨ lv > 0x39 then { out := out, verdict := .corrupt }
                else
                  match readBlocks (lv - 0x30) (b3.length + 2) 0 out b3 with
                  | (r, none) => r
                  | (r, some rest) => decodeStreams fuel (nStreams + 1) r.out rest

def decode (bytes : List UInt8) : Result :=
  decodeStreams (bytes.length + 2) 0 #[] (Bits.ofBytesMSB bytes)

end Compress.Bzip2
