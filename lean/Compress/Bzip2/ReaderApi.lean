/-
API-level model of bzip2.Reader (/repo/bzip2/reader.go): the exported methods
`Read`, `Close`, `Reset` and the counters `InputOffset` / `OutputOffset`, as a
state machine around the Go-shaped decoder model `Compress.Bzip2.Impl` (used
unchanged: `Impl.read` is `Reader.Read`, `Impl.init` the state `Reset` leaves).

What this file adds to `Impl`:

* the `done` flag and the closed marker.  `Close` is
      if zr.err == io.EOF || zr.done {
          zr.rle.Init(nil); zr.err, zr.done = errClosed, true; return nil }
      return zr.err
  `zr.done` is set only there, together with `zr.err = errClosed` and an empty
  RLE stage, and cleared only by `Reset`; `Read` on such a reader gets nothing from
  `rle.Read`, finds `zr.err != nil` and returns `(0, errClosed)`.
* a source that fails: `data` plus an optional fault `(failAt, tag)`; the source
  delivers `data.take failAt` and answers every request for a byte at or beyond
  `failAt` with the error `tag`.  At the bit level of `Impl`: the bit list ends
  there and running out of it yields the injected error.  In `Impl` the input
  runs out at the `unexpectedEOF` sites of the bit reader and at the probe for a
  following stream (`PullBits(1)`, which turns `io.ErrUnexpectedEOF` - and only
  that - into `io.EOF` after a complete stream): `eof` and `unexpectedEOF` are
  raised nowhere else, hence `liftErr`.  `errWrap` re-packages only
  `errors.Error` values, so the source's error reaches `zr.err` as it is.

`Reset` copies allocation-bearing fields only (`Compress.Facts.reset_carried`):
the model state after `Reset` is `Impl.init`.
Core-only.
-/
import Compress.Bzip2.Impl

namespace Compress.Bzip2.ReaderApi
open Compress Compress.Bzip2 Compress.Bzip2.Impl

inductive AErr where
  | eof | unexpectedEOF | corrupted | deprecated | closed
  | other (tag : Nat)
deriving Repr, DecidableEq, Inhabited

/-- the underlying `io.Reader`: its bytes and, optionally, the position from which it fails and
    the error it fails with. -/
structure Src where
  data  : List UInt8
  fault : Option (Nat × Nat) := none
deriving Repr, Inhabited

def Src.avail (src : Src) : List UInt8 :=
  match src.fault with
  | some (k, _) => src.data.take k
  | none => src.data

def Src.tag (src : Src) : Option Nat := src.fault.map (·.2)

def Src.bits (src : Src) : Bits := Bits.ofBytesMSB src.avail

/-- `zr.err` as the caller sees it: running out of input is the source's error, if it has one. -/
def liftErr (tag : Option Nat) : Err → AErr
  | .corrupted => .corrupted
  | .deprecated => .deprecated
  | .eof => match tag with | some t => .other t | none => .eof
  | .unexpectedEOF => match tag with | some t => .other t | none => .unexpectedEOF

structure Reader where
  core : State
  tag  : Option Nat := none
  done : Bool := false
deriving Repr, Inhabited

/-- `zr.err`. -/
def Reader.err (r : Reader) : Option AErr :=
  if r.done then some .closed else r.core.err.map (liftErr r.tag)

def Reader.inputOffset (r : Reader) : Nat := r.core.inOff
def Reader.outputOffset (r : Reader) : Nat := r.core.outOff

/-- `NewReader`. -/
def newReader (src : Src) : Reader := { core := init src.bits, tag := src.tag }

/-- `Reset`. -/
def Reader.reset (_ : Reader) (src : Src) : Reader := newReader src

/-- `Read(buf)`, `len(buf) = n`. -/
def Reader.read (r : Reader) (n : Nat) : Reader × List UInt8 × Option AErr :=
  if r.done then (r, [], some .closed)
  else
    let (c, out, e) := Impl.read (readFuel r.core) n r.core
    ({ r with core := c }, out, e.map (liftErr r.tag))

/-- `Close`. -/
def Reader.close (r : Reader) : Reader × Option AErr :=
  if r.err = some .eof ∨ r.done then
    ({ r with core := { r.core with rle := { buf := #[] } }, done := true }, none)
  else (r, r.err)

inductive Op where
  | read (n : Nat) | close | reset (src : Src)
deriving Repr, Inhabited

inductive Res where
  | read (out : List UInt8) (err : Option AErr) | close (err : Option AErr) | reset
deriving Repr, DecidableEq, Inhabited

def Reader.step (r : Reader) : Op → Reader × Res
  | .read n => let (r', out, e) := r.read n; (r', .read out e)
  | .close => let (r', e) := r.close; (r', .close e)
  | .reset src => (r.reset src, .reset)

def Reader.run : Reader → List Op → Reader × List Res
  | r, [] => (r, [])
  | r, op :: ops =>
    let (r', x) := r.step op
    let (r'', xs) := Reader.run r' ops
    (r'', x :: xs)

/-- Read and Close, no Reset. -/
def Op.noReset : Op → Bool
  | .reset _ => false
  | _ => true

/-- the bytes a call handed to the caller. -/
def Res.bytes : Res → List UInt8
  | .read out _ => out
  | _ => []

/-- drive `Read` with a schedule of buffer lengths (the last entry repeats) until it returns an
    error: the delivered bytes, that error, the final state (`Impl.runA` / `Impl.runFrom` at the API). -/
def Reader.drive : Nat → Reader → List Nat → Array UInt8 → Array UInt8 × Option AErr × Reader
  | 0, r, _, acc => (acc, none, r)
  | fuel+1, r, sched, acc =>
    let n := sched.headD 4096
    let sched' := if sched.length > 1 then sched.tail else sched
    let (r', out, e) := r.read n
    match e with
    | some err => (acc ++ out.toArray, some err, r')
    | none => Reader.drive fuel r' sched' (acc ++ out.toArray)

end Compress.Bzip2.ReaderApi
