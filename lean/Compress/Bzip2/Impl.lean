/-
Model of /repo/bzip2/reader.go (+ the reading half of bzip2/prefix.go) shaped
like the Go code: `Reader.Read` with its `for` loop around `rle.Read`, the
persistent error `zr.err`, the closure run under `errors.Recover` (stream
header when `rdHdrFtr` is even, the probe for a following stream, block CRC
check and `endCRC` rotation when it is odd), `decodeBlock` (block / footer
magic, stored CRC, randomisation bit, origin pointer, symbol map read with
`ReadBits(16)`), `decodePrefix` (number of trees, selectors through the
`decSel` table and `internal.MoveToFront`, `ReadPrefixCodes` with the Kraft
`sum` fast path through `GeneratePrefixes` and the slow path through
`handleDegenerateCodes`, `Decoder.Init` two-level tables, a new tree every 50
symbols, the two guards on a symbol), `moveToFront.Decode`, the origin-pointer
check, `bwt.Decode`, and `rle.Init`.

The input is the bit list of the stream, most significant bit of a byte first
(`prefix.Reader` in big-endian mode reverses every byte it loads, so the first
bit it hands out is bit 7 of the byte): the 64-bit buffer and the source
adaptation of `prefix.Reader` are abstracted by theorem S4
(`Compress.Proofs.BitIO.reader_refines`), exactly as in `Flate/Impl.lean`; the
source makes every remaining byte available (bytes.Reader and friends).
`TryReadBits`/`TryReadSymbol` are the buffer-only fast paths of
`ReadBits`/`ReadSymbol` and return what those return.

Errors raised inside the closure carry the position of the bit reader, because
`Read` calls `zr.rd.Flush()` afterwards and publishes it as `InputOffset`.
After an error the closure's partial updates of `level`, `rdHdrFtr`, the CRC
fields are not represented: once `zr.err` is set no code path reads them again.

`createTables` inside `handleDegenerateCodes` is the port of libbzip2's
`BZ2_hbCreateDecodeTables`, loop for loop the function `mkCTab` of
`Bzip2/Spec.lean`; the model uses `mkCTab` for it.  `getSymbol` and
`exploreCode` are modelled as written.
Core-only.
-/
import Compress.Prefix.Tables
import Compress.Bzip2.Spec

namespace Compress.Bzip2.Impl
open Compress Compress.Prefix Compress.Bzip2

inductive Err where
  | eof | unexpectedEOF | corrupted | deprecated
deriving Repr, DecidableEq, Inhabited

/-- a panic inside the closure: error class and the bits not yet consumed. -/
abbrev M := Except (Err × Bits)

/-! ### bit reader -/

/-- `ReadBits(n)` (also `TryReadBits`): first bit read is the least significant. -/
def readBits (n : Nat) (bits : Bits) : M (Nat × Bits) :=
  let hd := bits.take n
  if hd.length < n then .error (.unexpectedEOF, bits) else .ok (Bits.toNat hd, bits.drop n)

/-- `ReverseUint32N(ReadBits(n), n)`, n ≤ 32: first bit read is the most significant. -/
def readBitsBE (n : Nat) (bits : Bits) : M (Nat × Bits) :=
  let hd := bits.take n
  if hd.length < n then .error (.unexpectedEOF, bits) else .ok (Bits.toNatMSB hd, bits.drop n)

/-- `prefixReader.ReadBitsBE64`: two reads when more than 32 bits are wanted. -/
def readBitsBE64 (n : Nat) (bits : Bits) : M (Nat × Bits) :=
  if n ≤ 32 then readBitsBE n bits
  else do
    let (v0, b1) ← readBitsBE 32 bits
    let (v1, b2) ← readBitsBE (n - 32) b1
    pure (v0 * 2 ^ (n - 32) + v1, b2)

/-- `ReadSymbol` (and `TryReadSymbol`): an empty table is `Invalid` (re-classed to
    Corrupted by errWrap), running out of bits is unexpected EOF. -/
def readSymbol (d : Decoder) (bits : Bits) : M (Nat × Bits) :=
  if d.chunks.size = 0 then .error (.corrupted, bits)
  else
    match d.readSymbol bits with
    | some r => .ok r
    | none => .error (.unexpectedEOF, bits)

/-! ### bzip2/prefix.go -/

def maxNumTrees : Nat := 6
def maxNumSyms : Nat := 258

/-- `selCodes` of prefix.go: 0, 10, 110, 1110, 11110, 111110 and the invalid 111111. -/
def selCodes : List Code :=
  (List.range maxNumTrees).map (fun i => { sym := i, len := i + 1 }) ++ [{ sym := maxNumTrees, len := maxNumTrees }]

/-- `decSel`. -/
def decSel : Decoder :=
  match generatePrefixes selCodes with
  | .ok cs => Decoder.init cs
  | .error _ => {}

inductive GStatus where
  | okay (sym : Nat) | invalid | needBits | maxBits
deriving Repr, DecidableEq, Inhabited

/-- the low `n` bits of `v` in reverse order (`ReverseUint32(c.Val) >> (32 - n)`): the first `n`
    bits of the code word as a number, first bit most significant. -/
def revLow : Nat → Nat → Nat → Nat
  | 0, _, acc => acc
  | n+1, v, acc => revLow n (v / 2) (2 * acc + v % 2)

/-- the `for` loop of `getSymbol` (GET_MTF_VAL on the code `val`/`n` instead of the stream);
    bit `zn` of `val` is the next bit of the code word. -/
def getSymbolLoop (t : CTab) (val n : Nat) : Nat → Nat → Int → GStatus
  | 0, _, _ => .maxBits
  | fuel+1, zn, zvec =>
    if zn > t.maxLen then .maxBits
    else if zvec ≤ t.limit.getD zn 0 then
      let k := zvec - t.base.getD zn 0
      if k < 0 ∨ k ≥ (maxNumSyms : Int) then .invalid else .okay (t.perm.getD k.toNat 0)
    else if zn + 1 > n then .needBits
    else getSymbolLoop t val n fuel (zn + 1) (zvec * 2 + (((val >>> zn) % 2 : Nat) : Int))

/-- `getSymbol(c)`. -/
def getSymbol (t : CTab) (c : Code) : GStatus :=
  if t.minLen > c.len then .needBits
  else getSymbolLoop t c.val c.len (maxPrefixBits + 2) t.minLen (revLow t.minLen c.val 0 : Nat)

/-- `pcodes`: the first 258 entries are indexed by symbol, invalid codes are appended. -/
structure Explored where
  valid : Array Code
  extra : Array Code := #[]
deriving Repr, Inhabited

def Explored.addInvalid (ex : Explored) (c : Code) : Explored :=
  { ex with extra := ex.extra.push { c with sym := maxNumSyms + ex.extra.size } }

/-- `exploreCode`; the fuel bounds the depth (a code longer than `maxLen` never needs bits).
    `Val` keeps the first bit of the code word lowest, so the second child sets bit `Len - 1`. -/
def exploreCode (t : CTab) : Nat → Code → Explored → Bool × Explored
  | 0, _, ex => (false, ex)
  | fuel+1, c, ex =>
    match getSymbol t c with
    | .okay s => (true, { ex with valid := ex.valid.set! s { c with sym := s } })
    | .invalid => (true, ex.addInvalid c)
    | .needBits =>
      let c0 : Code := { c with len := c.len + 1 }
      let c1 : Code := { c0 with val := c.val ||| (1 <<< c.len) }
      let (b0, ex) := exploreCode t fuel c0 ex
      let (b1, ex) := exploreCode t fuel c1 ex
      let ex :=
        if !b0 && b1 then ex.addInvalid c0
        else if !b1 && b0 then ex.addInvalid c1
        else ex
      (b0 || b1, ex)
    | .maxBits => (false, ex)

/-- `handleDegenerateCodes` on the lengths of symbols 0..n-1. -/
def handleDegenerateCodes (lens : List Nat) : List Code :=
  let t := mkCTab lens
  let ex := (exploreCode t (maxPrefixBits + 3) { sym := 0 } { valid := Array.replicate maxNumSyms { sym := 0 } }).2
  (ex.valid.toList ++ ex.extra.toList).filter (fun c => c.len > 0)

/-- the delta-coded lengths of one tree (`for sym := range pc { for { ... } }`). -/
def readLens : Nat → Nat → Nat → List Nat → Bits → M (List Nat × Bits)
  | 0, _, _, _, bits => .error (.corrupted, bits)
  | _, 0, _, acc, bits => .ok (acc.reverse, bits)
  | fuel+1, n+1, clen, acc, bits =>
    if clen < 1 ∨ clen > maxPrefixBits then .error (.corrupted, bits)
    else
      match readBits 1 bits with
      | .error e => .error e
      | .ok (b, b1) =>
        if b = 0 then readLens fuel n clen (clen :: acc) b1
        else
          match readBits 1 b1 with
          | .error e => .error e
          | .ok (b', b2) => readLens fuel (n + 1) (if b' = 1 then clen - 1 else clen + 1) acc b2

/-- `sum` of `ReadPrefixCodes`, counted upwards: Σ 2^(20 - len). -/
def kraftSum (lens : List Nat) : Nat := lens.foldl (fun a l => a + 2 ^ (maxPrefixBits - l)) 0

def codesOfLens (lens : List Nat) : List Code :=
  (List.range lens.length).map (fun i => { sym := i, len := lens.getD i 0 })

/-- the end of an iteration of `ReadPrefixCodes`: `sum == 0` selects `GeneratePrefixes` (an error
    from it is raised as a panic), anything else `handleDegenerateCodes`; then `Decoder.Init`. -/
def treeOfLens (lens : List Nat) : Option Decoder :=
  if kraftSum lens = 2 ^ maxPrefixBits then
    match generatePrefixes (codesOfLens lens) with
    | .error _ => none
    | .ok cs => some (Decoder.init cs)
  else some (Decoder.init (handleDegenerateCodes lens))

/-- one iteration of `ReadPrefixCodes`. -/
def readTree (numSyms : Nat) (bits : Bits) : M (Decoder × Bits) :=
  match readBitsBE64 5 bits with
  | .error e => .error e
  | .ok (clen, b1) =>
    match readLens (numSyms * 64 + 64) numSyms clen [] b1 with
    | .error e => .error e
    | .ok (lens, b2) =>
      match treeOfLens lens with
      | none => .error (.corrupted, b2)
      | some d => .ok (d, b2)

/-- `ReadPrefixCodes`. -/
def readTrees : Nat → Nat → List Decoder → Bits → M (List Decoder × Bits)
  | 0, _, acc, bits => .ok (acc.reverse, bits)
  | k+1, numSyms, acc, bits =>
    match readTree numSyms bits with
    | .error e => .error e
    | .ok (d, rest) => readTrees k numSyms (d :: acc) rest

/-! ### reader.go -/

/-- the selector loop of `decodePrefix`. -/
def readSels (numTrees : Nat) : Nat → List Nat → Bits → M (List Nat × Bits)
  | 0, acc, bits => .ok (acc.reverse, bits)
  | k+1, acc, bits =>
    match readSymbol decSel bits with
    | .error e => .error e
    | .ok (sym, rest) =>
      if sym ≥ numTrees then .error (.corrupted, rest) else readSels numTrees k (sym :: acc) rest

/-- the symbol loop of `decodePrefix`. -/
def readSyms (trees : Array Decoder) (sels : Array Nat) (numSyms limit : Nat) :
    Nat → Nat → Nat → Nat → List Nat → Bits → M (List Nat × Bits)
  | 0, _, _, _, _, bits => .error (.corrupted, bits)
  | fuel+1, blkLen, selIdx, cnt, acc, bits =>
    let sw : M (Nat × Nat) :=
      if blkLen = 0 then
        if selIdx ≥ sels.size then .error (.corrupted, bits) else .ok (numBlockSyms, selIdx + 1)
      else .ok (blkLen, selIdx)
    match sw with
    | .error e => .error e
    | .ok (blkLen, selIdx) =>
      let tree := trees.getD (sels.getD (selIdx - 1) 0) {}
      match readSymbol tree bits with
      | .error e => .error e
      | .ok (s, rest) =>
        if s = numSyms - 1 then .ok (acc.reverse, rest)
        else if s ≥ numSyms then .error (.corrupted, rest)
        else if cnt ≥ limit then .error (.corrupted, rest)
        else readSyms trees sels numSyms limit fuel (blkLen - 1) selIdx (cnt + 1) (s :: acc) rest

/-- `decodePrefix(len(dict))`. -/
def decodePrefix (level dictLen : Nat) (bits : Bits) : M (List Nat × Bits) := do
  let numSyms := dictLen + 2
  if numSyms < 3 then throw (.corrupted, bits)
  let (numTrees, b1) ← readBitsBE64 3 bits
  if numTrees < 2 ∨ numTrees > maxNumTrees then throw (.corrupted, b1)
  let (numSels, b2) ← readBitsBE64 15 b1
  let (selsM, b3) ← readSels numTrees numSels [] b2
  let sels := mtfSels selsM (List.range 256) []       -- internal.MoveToFront.Decode
  let (trees, b4) ← readTrees numTrees numSyms [] b3
  readSyms trees.toArray sels.toArray numSyms (level * blockSize) (b4.length + 2) 0 0 0 [] b4

/-- inner loop over `bmapLo`. -/
def symMapLo (i lo : Nat) : List UInt8 :=
  ((List.range 16).filter (fun j => (lo / 2 ^ j) % 2 = 1)).map (fun j => UInt8.ofNat (16 * i + j))

/-- outer loop over `bmapHi` (both maps are read with `ReadBits(16)`: bit `i` of the value is
    the `i`-th bit of the stream). -/
def symMapLoop (hi : Nat) : List Nat → List UInt8 → Bits → M (List UInt8 × Bits)
  | [], dict, bits => .ok (dict, bits)
  | i :: is, dict, bits =>
    if (hi / 2 ^ i) % 2 = 1 then
      match readBits 16 bits with
      | .error e => .error e
      | .ok (lo, rest) => symMapLoop hi is (dict ++ symMapLo i lo) rest
    else symMapLoop hi is dict bits

def readSymMap (bits : Bits) : M (List UInt8 × Bits) :=
  match readBits 16 bits with
  | .error e => .error e
  | .ok (hi, rest) => symMapLoop hi (List.range 16) [] rest

structure State where
  bits     : Bits                    -- input not yet consumed
  total    : Nat                     -- length of the whole input in bits
  err      : Option Err := none      -- zr.err
  level    : Nat := 0
  rdHdrFtr : Nat := 0
  blkCRC   : Nat := 0
  endCRC   : Nat := 0
  crc      : Nat := 0                -- zr.crc.val
  rle      : RleR := { buf := #[] }
  inOff    : Nat := 0                -- InputOffset
  outOff   : Nat := 0                -- OutputOffset
deriving Repr, Inhabited

/-- `NewReader` / `Reset`. -/
def init (bits : Bits) : State := { bits := bits, total := bits.length }

/-- `decodeBlock` after the block magic: stored CRC, randomisation bit, origin pointer, symbol
    map, `decodePrefix`, `mtf.Decode`, the origin-pointer check, `bwt.Decode`. -/
def blockBody (level : Nat) (b1 : Bits) : M (Array UInt8 × Nat × Bits) := do
  let (crc, b2) ← readBitsBE64 32 b1
  let (rnd, b3) ← readBitsBE64 1 b2
  if rnd ≠ 0 then throw (.deprecated, b3)
  let (ptr, b4) ← readBitsBE64 24 b3
  let (dict, b5) ← readSymMap b4
  let (syms, b6) ← decodePrefix level dict.length b5
  match mtfDecode (level * blockSize) dict syms 0 0 #[] with
  | none => throw (.corrupted, b6)
  | some buf =>
    if ptr ≥ buf.size then throw (.corrupted, b6)
    return (bwtDecode buf ptr, crc, b6)

/-- `decodeBlock` followed by `zr.rle.Init(buf)`. -/
def decodeBlock (s : State) (bits : Bits) : M State :=
  match readBitsBE64 48 bits with
  | .error e => .error e
  | .ok (magic, b1) =>
    if magic ≠ blkMagic then
      if magic = endMagic then
        match readBitsBE64 32 b1 with
        | .error e => .error e
        | .ok (crc, b2) =>
          if s.endCRC ≠ crc then .error (.corrupted, b2)
          else
            -- ReadPads: the bit buffer holds whole bytes, so `numBits % 8` is what is left of this byte
            .ok { s with endCRC := 0, rdHdrFtr := s.rdHdrFtr + 1, bits := b2.drop (b2.length % 8), rle := { buf := #[] } }
      else .error (.corrupted, b1)
    else
      match blockBody s.level b1 with
      | .error e => .error e
      | .ok (buf, crc, b6) => .ok { s with crc := 0, blkCRC := crc, bits := b6, rle := { buf := buf } }

/-- the stream header (`rdHdrFtr` even, after the probe). -/
def streamHeader (bits : Bits) : M (Nat × Bits) := do
  let (m, b1) ← readBitsBE64 16 bits
  if m ≠ hdrMagic then throw (.corrupted, b1)
  let (ver, b2) ← readBitsBE64 8 b1
  if ver ≠ 0x68 then throw (if ver = 0x30 then .deprecated else .corrupted, b2)
  let (lv, b3) ← readBitsBE64 8 b2
  if lv < 0x31 ∨ lv > 0x39 then throw (.corrupted, b3)
  return (lv - 0x30, b3)

/-- the closure `func() { defer errors.Recover(&zr.err); ... }()` of `Read`. -/
def chunk (s : State) : M State :=
  if s.rdHdrFtr % 2 = 0 then
    -- PullBits(1): are we already at EOF?
    if s.bits.isEmpty then .error (if s.rdHdrFtr > 0 then .eof else .unexpectedEOF, s.bits)
    else
      match streamHeader s.bits with
      | .error e => .error e
      | .ok (lvl, b3) => decodeBlock { s with level := lvl, rdHdrFtr := s.rdHdrFtr + 1 } b3
  else
    if s.blkCRC ≠ s.crc then .error (.corrupted, s.bits)
    else decodeBlock { s with endCRC := combineCRC s.endCRC s.blkCRC } s.bits

/-- `InputOffset` after `zr.rd.Flush()`: whole bytes holding the bits consumed. -/
def offsetOf (total : Nat) (rest : Bits) : Nat := (total - rest.length + 7) / 8

/-- `Reader.Read(buf)` with `len(buf) = n`: (state, bytes, error).  The fuel bounds the
    iterations of the `for` loop (every iteration that continues consumed input). -/
def read : Nat → Nat → State → State × List UInt8 × Option Err
  | 0, _, s => (s, [], some .corrupted)
  | fuel+1, n, s =>
    let (rle', out, st) := RleR.read n s.rle []
    -- if err != rleDone && zr.err == nil { zr.err = err }
    let s := { s with rle := rle', err := if st = .corrupted ∧ s.err = none then some .corrupted else s.err }
    if out.length > 0 then
      ({ s with crc := crcUpdateGo s.crc out, outOff := s.outOff + out.length }, out, none)
    else if s.err ≠ none ∨ n = 0 then (s, [], s.err)
    else
      match chunk s with
      | .ok s' => read fuel n { s' with inOff := offsetOf s'.total s'.bits }
      | .error (e, rest) =>
        -- errWrap keeps the class (Invalid was already re-classed)
        ({ s with err := some e, bits := rest, inOff := offsetOf s.total rest }, [], some e)

def readFuel (s : State) : Nat := s.bits.length + 2

/-- what one `Read` call returned and the public counters after it. -/
structure ReadRes where
  out    : List UInt8
  err    : Option Err
  inOff  : Nat
  outOff : Nat
deriving Repr, Inhabited

/-- drive `Read` with the buffer lengths of `sched`, stopping at the first error. -/
def runFrom : State → List Nat → List ReadRes → List ReadRes × State
  | s, [], acc => (acc.reverse, s)
  | s, n :: rest, acc =>
    let (s', out, e) := read (readFuel s) n s
    let acc := { out := out, err := e, inOff := s'.inOff, outOff := s'.outOff : ReadRes } :: acc
    match e with
    | some _ => (acc.reverse, s')
    | none => runFrom s' rest acc

structure Run where
  reads : List ReadRes
  final : State
deriving Repr, Inhabited

/-- everything the caller received. -/
def Run.delivered (r : Run) : List UInt8 := r.reads.flatMap (·.out)

/-- the error that ended the run, if one did. -/
def Run.err (r : Run) : Option Err := r.reads.getLast?.bind (·.err)

def run (bytes : List UInt8) (sched : List Nat) : Run :=
  let (rs, s) := runFrom (init (Bits.ofBytesMSB bytes)) sched []
  { reads := rs, final := s }

end Compress.Bzip2.Impl
