/-
Bit lists and their packing into bytes.  DEFLATE/brotli/XFLATE pack bits
LSB-first within a byte, bzip2 MSB-first.  Core-only.
-/
namespace Compress

abbrev Bits := List Bool

namespace Bits

/-- the low `n` bits of `v`, least significant first. -/
def ofNat (v : Nat) : Nat → Bits
  | 0 => []
  | n+1 => (v % 2 == 1) :: ofNat (v / 2) n

/-- value of a bit list read least-significant-bit first. -/
def toNat : Bits → Nat
  | [] => 0
  | b :: bs => (if b then 1 else 0) + 2 * toNat bs

/-- value of a bit list read most-significant-bit first. -/
def toNatMSB (bs : Bits) : Nat := bs.foldl (fun acc b => 2 * acc + (if b then 1 else 0)) 0

/-- 8 bits of a byte, LSB first. -/
def ofByte (b : UInt8) : Bits := ofNat b.toNat 8

/-- bit list of a byte string, LSB-first within each byte. -/
def ofBytes : List UInt8 → Bits
  | [] => []
  | b :: bs => ofByte b ++ ofBytes bs

/-- 8 bits of a byte, MSB first (bzip2). -/
def ofByteMSB (b : UInt8) : Bits := (ofNat b.toNat 8).reverse

def ofBytesMSB : List UInt8 → Bits
  | [] => []
  | b :: bs => ofByteMSB b ++ ofBytesMSB bs

/-- pack bits into bytes, zero-padding the last byte; `w k` is the weight of
    bit position `k` (0 = first bit of the byte). Structural on the list. -/
def toBytesAux (w : Nat → Nat) : Bits → Nat → Nat → List UInt8
  | [], acc, k => if k = 0 then [] else [UInt8.ofNat acc]
  | b :: bs, acc, k =>
    let acc' := acc + (if b then w k else 0)
    if k = 7 then UInt8.ofNat acc' :: toBytesAux w bs 0 0 else toBytesAux w bs acc' (k + 1)

/-- pack bits into bytes LSB-first, zero-padding the last byte. -/
def toBytes (bs : Bits) : List UInt8 := toBytesAux (fun k => 2 ^ k) bs 0 0

/-- pack bits into bytes MSB-first, zero-padding the last byte. -/
def toBytesMSB (bs : Bits) : List UInt8 := toBytesAux (fun k => 2 ^ (7 - k)) bs 0 0

def countOnes (bs : Bits) : Nat := bs.countP (· == true)
def countZeros (bs : Bits) : Nat := bs.countP (· == false)

end Bits
end Compress
