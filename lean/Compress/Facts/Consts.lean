/-
The constants and literal tables the models use are the ones in /repo's
source: `Compress.Generated.Consts` is regenerated from the working tree on
every check run, and these theorems are re-checked against it.
-/
import Compress.Generated.Consts
import Compress.Flate.Spec
import Compress.Meta.Codec
import Compress.XFlate.WriterSpec
import Compress.Prefix.Tables
import Compress.Bzip2.Spec
import Compress.Window

namespace Compress.Facts
open Compress

/-- cumulative bases of stacked ranges (`MakeRangeCodes`). -/
def stackBases : Int → List Int → List Int
  | _, [] => []
  | b, nb :: rest => b :: stackBases (b + 2 ^ nb.toNat) rest

theorem flate_lenRanges :
    Generated.flate_lenRanges_bits ++ [0] = Flate.lenExtra.map Int.ofNat ∧
    stackBases Generated.flate_lenRanges_base Generated.flate_lenRanges_bits ++ [258] = Flate.lenBase.map Int.ofNat := by
  decide

theorem flate_distRanges :
    Generated.flate_distRanges_bits = Flate.distExtra.map Int.ofNat ∧
    stackBases Generated.flate_distRanges_base Generated.flate_distRanges_bits = Flate.distBase.map Int.ofNat := by
  decide

theorem flate_misc :
    Generated.flate_clenLens = Flate.clenOrder.map Int.ofNat ∧
    Generated.flate_maxNumLitSyms = 286 ∧ Generated.flate_maxNumDistSyms = 30 ∧
    Generated.flate_maxNumCLenSyms = 19 ∧ Generated.flate_endBlockSym = 256 ∧
    Generated.flate_maxHistSize = Flate.maxHist ∧ Generated.flate_maxPrefixBits = Flate.maxCodeLen := by
  decide

theorem window_consts :
    Generated.flate_initSize = Window.initSize ∧ Generated.flate_growFactor = Window.growFactor ∧
    Generated.brotli_initSize = Window.initSize ∧ Generated.brotli_growFactor = Window.growFactor := by
  decide

theorem meta_consts :
    Generated.meta_magicVals = Meta.magicVals ∧ Generated.meta_magicMask = Meta.magicMask ∧
    Generated.meta_maxSyms = Meta.maxSyms ∧ Generated.meta_minHuffLen = Meta.minHuffLen ∧
    Generated.meta_maxHuffLen = Meta.maxHuffLen ∧ Generated.meta_minRepLast = Meta.minRepLast ∧
    Generated.meta_maxRepLast = Meta.maxRepLast ∧ Generated.meta_minRepZero = Meta.minRepZero ∧
    Generated.meta_maxRepZero = Meta.maxRepZero ∧ Generated.meta_MaxRawBytes = Meta.maxRawBytes ∧
    Generated.meta_MinEncBytes = Meta.minEncBytes ∧ Generated.meta_MaxEncBytes = Meta.maxEncBytes ∧
    Generated.meta_EnsureRawBytes = Meta.ensureRawBytes ∧
    Generated.meta_FinalNil = 0 ∧ Generated.meta_FinalMeta = 1 ∧ Generated.meta_FinalStream = 2 ∧
    Generated.meta_symZero = 0 ∧ Generated.meta_symOne = 1 ∧ Generated.meta_symRepLast = 2 ∧ Generated.meta_symRepZero = 3 := by
  decide

theorem xflate_consts :
    Generated.xflate_unknownType = XFlate.unknownType ∧ Generated.xflate_deflateType = XFlate.deflateType ∧
    Generated.xflate_indexType = XFlate.indexType ∧ Generated.xflate_footerType = XFlate.footerType ∧
    Generated.xflate_DefaultChunkSize = XFlate.defaultChunkSize ∧ Generated.xflate_DefaultIndexSize = XFlate.defaultIndexSize ∧
    Generated.xflate_FlushSync = 0 ∧ Generated.xflate_FlushFull = 1 ∧ Generated.xflate_FlushIndex = 2 ∧
    Generated.xflate_NoCompression = -1 ∧ Generated.xflate_DefaultCompression = 6 ∧
    Generated.xflate_magic = XFlate.xfMagic.map (fun b => (b.toNat : Int)) ∧
    Generated.xflate_endBlock = XFlate.endBlockBytes.map (fun b => (b.toNat : Int)) ∧
    Generated.meta_MaxEncBytes = XFlate.maxEncBytes := by
  decide

theorem prefix_consts :
    Generated.prefix_countBits = Prefix.countBits ∧ Generated.prefix_valueBits = Prefix.valueBits ∧
    Generated.prefix_countMask = Prefix.countMask := by
  decide

theorem bzip2_consts :
    Generated.bzip2_hdrMagic = Bzip2.hdrMagic ∧ Generated.bzip2_blkMagic = Bzip2.blkMagic ∧
    Generated.bzip2_endMagic = Bzip2.endMagic ∧ Generated.bzip2_blockSize = Bzip2.blockSize ∧
    Generated.bzip2_maxPrefixBits = Bzip2.maxPrefixBits ∧ Generated.bzip2_numBlockSyms = Bzip2.numBlockSyms ∧
    Generated.bzip2_minNumTrees = 2 ∧ Generated.bzip2_maxNumTrees = 6 ∧ Generated.bzip2_maxNumSyms = 258 ∧
    Generated.bzip2_BestSpeed = 1 ∧ Generated.bzip2_BestCompression = 9 ∧ Generated.bzip2_DefaultCompression = 6 := by
  decide

end Compress.Facts
