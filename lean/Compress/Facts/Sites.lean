/-
Structural facts about /repo's source that the API-level properties rest on,
stated over `Compress.Generated.Sites` (regenerated from the working tree on
every run): which error classes can be raised on decoding paths (C09), which
fields every Reset carries over (C14), which methods are guarded by the error
latch and which sentinels they compare (C18), and that package-level state is
only written during initialisation (C19).
-/
import Compress.Generated.Sites

namespace Compress.Facts
open Compress.Generated

/-! ### C09: classes of error sites -/

/-- functions that belong to encoders / constructors / argument checking, not to decoding. -/
def writerSide : List String :=
  ["NewWriter", "*Writer.encodePrefix", "*Writer.encodeFooter", "*Writer.Flush", "*Writer.encodeBlock",
   "*Writer.Write", "*moveToFront.Init", "*moveToFront.Encode", "GenerateLengths"]

/-- helper sites whose class is a parameter (they forward what their callers pass). -/
def forwarding : List String := ["errorf", "panicf", "errWrap"]

/-- decoding-side sites whose class is not Corrupted/Deprecated, each with the
    reason it cannot reach a caller as such. -/
def allowed : List ErrSite :=
  [ -- argument errors of Seek: reported for an invalid whence / negative position, not a decoding failure
    ⟨"xflate", "reader.go", "*Reader.Seek", "errors.Invalid", "errorf"⟩,
    ⟨"xflate", "reader.go", "*Reader.Seek", "errors.Invalid", "errorf"⟩,
    -- brotli's byte read is only called byte-aligned (readRawData after ReadPads)
    ⟨"brotli", "bit_reader.go", "*bitReader.Read", "errors.Invalid", "errorf"⟩,
    -- GeneratePrefixes reports a bad length vector as Invalid; flate/bzip2 re-class it to Corrupted in errWrap
    ⟨"prefix", "prefix.go", "GeneratePrefixes", "errors.Invalid", "errorf"⟩,
    ⟨"prefix", "prefix.go", "GeneratePrefixes", "errors.Invalid", "errorf"⟩,
    ⟨"prefix", "prefix.go", "GeneratePrefixes", "errors.Invalid", "errorf"⟩,
    ⟨"prefix", "prefix.go", "GeneratePrefixes", "errors.Invalid", "errorf"⟩,
    -- prefix.Reader.Read on an unaligned buffer / ReadSymbol on an empty table: re-classed by errWrap in flate,
    -- unreachable in bzip2 and meta (aligned reads only; tables are never empty)
    ⟨"prefix", "reader.go", "*Reader.Read", "errors.Invalid", "errorf"⟩,
    ⟨"prefix", "reader.go", "*Reader.ReadSymbol", "errors.Invalid", "panicf"⟩ ]

def decodingOK (s : ErrSite) : Bool :=
  s.func ∈ forwarding || s.func ∈ writerSide ||
  s.code == "errors.Corrupted" || s.code == "errors.Deprecated" || s ∈ allowed

/-- every error site on a decoding path raises Corrupted or Deprecated, or is
    one of the listed, individually justified exceptions. -/
theorem errSites_classified : errSites.all decodingOK = true := by decide

/-- the three packages whose Readers promise "Invalid from below becomes
    Corrupted" all define `errWrap`. -/
theorem errWrap_present :
    (["flate", "bzip2", "xflate"].all fun p => errSites.any fun s => s.pkg == p && s.func == "errWrap") = true := by
  decide

/-! ### C14: what Reset carries over -/

def resetOf (pkg recv : String) : Option ResetFact := resetFacts.find? fun r => r.pkg == pkg && r.recv == recv

/-- the carried fields of every Reader/Writer Reset are exactly the
    allocation-bearing (or configuration) fields classified below; in particular
    no `err`, no pending output, no counters, no decoder position (bzip2.Reader
    used to carry `rle`, the half-read block: defect D4, repaired). -/
theorem reset_carried :
    (resetOf "flate" "*Reader.Reset").map (·.carried) =
      some ["rd=zr.rd", "step=(*Reader).readBlockHeader", "dict=zr.dict", "pd1=zr.pd1", "pd2=zr.pd2"] ∧
    (resetOf "flate" "*Reader.Reset").map (·.calls) = some ["zr.rd.Init", "zr.dict.Init"] ∧
    (resetOf "brotli" "*Reader.Reset").map (·.carried) =
      some ["rd=br.rd", "step=(*Reader).readStreamHeader", "dict=br.dict", "iacBlk=br.iacBlk", "litBlk=br.litBlk",
            "distBlk=br.distBlk", "word=br.word[:0]", "cmodes=br.cmodes[:0]", "litMap=br.litMap[:0]",
            "distMap=br.distMap[:0]", "dists=[]int{…}", "metaWr=ioutil.Discard", "metaBuf=br.metaBuf"] ∧
    (resetOf "bzip2" "*Reader.Reset").map (·.carried) =
      some ["rd=zr.rd", "mtf=zr.mtf", "bwt=zr.bwt", "treeSels=zr.treeSels", "trees1D=zr.trees1D", "syms=zr.syms"] ∧
    (resetOf "bzip2" "*Reader.Reset").map (·.calls) = some ["zr.rd.Init"] ∧
    (resetOf "bzip2" "*Writer.Reset").map (·.carried) =
      some ["wr=zw.wr", "level=zw.level", "rle=zw.rle", "bwt=zw.bwt", "mtf=zw.mtf", "buf=zw.buf",
            "treeSels=zw.treeSels", "treeSelsMTF=zw.treeSelsMTF", "trees1D=zw.trees1D"] ∧
    (resetOf "bzip2" "*Writer.Reset").map (·.calls) = some ["zw.wr.Init", "zw.rle.Init"] ∧
    (resetOf "xflate" "*Reader.Reset").map (·.carried) =
      some ["rd=rs", "mr=xr.mr", "zr=xr.zr", "idx=xr.idx", "br=xr.br", "bw=xr.bw", "idxs=xr.idxs", "chunks=xr.chunks"] ∧
    (resetOf "xflate" "*Reader.Reset").map (·.calls) = some ["xr.idx.Reset"] ∧
    (resetOf "xflate" "*Writer.Reset").map (·.carried) =
      some ["wr=wr", "mw=xw.mw", "zw=xw.zw", "nchk=xw.nchk", "nidx=xw.nidx", "idx=xw.idx"] ∧
    (resetOf "xflate" "*Writer.Reset").map (·.calls) = some ["xw.idx.Reset"] ∧
    (resetOf "meta" "*Reader.Reset").map (·.carried) = some ["br=mr.br", "bw=mr.bw", "bb=mr.bb"] ∧
    (resetOf "meta" "*Writer.Reset").map (·.carried) = some ["wr=wr", "bw=mw.bw", "bb=mw.bb", "cnts=mw.cnts"] ∧
    (resetOf "prefix" "*Reader.Init").map (·.carried) =
      some ["rd=r", "bigEndian=bigEndian", "bb=pr.bb", "br=pr.br", "sr=pr.sr", "bu=pr.bu"] ∧
    (resetOf "prefix" "*Writer.Init").map (·.carried) = some ["wr=w", "bigEndian=bigEndian"] := by
  decide

/-! ### C18: entry guards -/

def guardOf (pkg recv m : String) : Option (Bool × List String) :=
  (guardFacts.find? fun g => g.pkg == pkg && g.recv == recv && g.method == m).map fun g => (g.guarded, g.sentinels)

/-- which exported methods start with the error-latch test and which sentinels
    they compare — the shape the lifecycle models assume. Since the repairs D12/D13 a completed
    Close is recorded in the flag `done`; no method compares the error field with the closed
    marker any more (an underlying reader or writer can return an equal error). -/
theorem guards_expected :
    [ guardOf "xflate" "*Writer" "Write", guardOf "xflate" "*Writer" "Flush", guardOf "xflate" "*Writer" "Close",
      guardOf "xflate" "*Reader" "Read", guardOf "xflate" "*Reader" "Seek", guardOf "xflate" "*Reader" "Close",
      guardOf "meta" "*Writer" "Write", guardOf "meta" "*Writer" "Close",
      guardOf "meta" "*Reader" "Read", guardOf "meta" "*Reader" "Close",
      guardOf "bzip2" "*Writer" "Write", guardOf "bzip2" "*Writer" "Close", guardOf "bzip2" "*Reader" "Close",
      guardOf "flate" "*Reader" "Close", guardOf "brotli" "*Reader" "Close" ] =
    [ some (true, []), some (true, []), some (true, ["done"]),
      some (true, ["==io.EOF"]), some (true, ["!=io.EOF"]), some (true, ["!=io.EOF", "done"]),
      some (true, []), some (true, ["done"]),
      some (true, []), some (true, ["!=io.EOF", "done"]),
      some (true, []), some (true, ["done"]), some (true, ["==io.EOF", "done"]),
      some (false, ["==io.EOF", "done"]), some (true, ["==io.EOF", "done"]) ] := by
  decide

/-! ### C19: package-level state -/

/-- functions that run once, from package initialisers. -/
def initFuncs : List String :=
  ["initPrefixRangeLUTs", "initPrefixCodeLUTs", "initContextLUTs", "initDictLUTs", "initLengthLUTs", "initCommonLUTs"]

/-- no package-level variable is assigned outside the initialisation functions. -/
theorem no_shared_write : (globalFacts.all fun g => g.writtenIn.all (· ∈ initFuncs)) = true := by decide

/-- the only package-level variables whose address is taken are the fixed
    decode/encode tables, and only at the sites where they are handed to
    read-only operations (`ReadSymbol`/`WriteSymbol`/`TryRead…` take the table by
    pointer; flate stores `&decLit`/`&decDist` in the instance but writes
    `MinBits` only to its own `pd1`).  Entries ending in `[:]` are slice expressions over a
    package-level array or slice: each of them is the source of a `copy`/`range`/comparison
    (reviewed: `clenLens`, `complexLens`, `simpleLens*`, `dictLUT`, `endBlock`, `magic`,
    `IdentityLUT`), never the destination of a write.  Entries ending in `()` are method calls on a
    package-level variable (a pointer-receiver method may mutate it): only the `Init` calls of
    brotli's `initPrefixCodeLUTs`, which runs once from the package initialiser.  Entries ending in `=` are uses of a
    package-level variable as a value (assigned, passed, returned): reviewed - error sentinels
    (`errClosed`, `errCorrupted`, ...), fixed tables passed to read-only consumers and scalar
    constants; none hands a mutable package-level slice or map to an instance. -/
theorem address_taken_expected :
    (globalFacts.filter fun g => !g.addrTakenIn.isEmpty).map (fun g => (g.pkg, g.name, g.addrTakenIn)) =
      [
       ("flate", "clenLens", ["*prefixReader.ReadPrefixCodes[:]"]),
       ("flate", "decDist", ["*Reader.readBlockHeader"]),
       ("flate", "decLit", ["*Reader.readBlockHeader"]),
       ("flate", "errClosed", ["*Reader.Close="]),
       ("brotli", "blkLenRanges", ["*Reader.readBlockSwitch=", "*Reader.readPrefixCodes="]),
       ("brotli", "codeCLens", ["*bitReader.readComplexPrefixCode=", "initPrefixCodeLUTs="]),
       ("brotli", "codeCounts", ["initPrefixCodeLUTs="]),
       ("brotli", "codeMaxRLE", ["initPrefixCodeLUTs="]),
       ("brotli", "codeWinBits", ["initPrefixCodeLUTs="]),
       ("brotli", "complexLens", ["*bitReader.readComplexPrefixCode[:]"]),
       ("brotli", "decCLens", ["*bitReader.readComplexPrefixCode", "initPrefixCodeLUTs.Init()"]),
       ("brotli", "decCounts", ["*Reader.readPrefixCodes", "initPrefixCodeLUTs.Init()"]),
       ("brotli", "decMaxRLE", ["*Reader.readContextMap", "initPrefixCodeLUTs.Init()"]),
       ("brotli", "decWinBits", ["*Reader.readStreamHeader", "initPrefixCodeLUTs.Init()"]),
       ("brotli", "dictLUT", ["*Reader.readCommands[:]"]),
       ("brotli", "encCLens", ["initPrefixCodeLUTs.Init()"]),
       ("brotli", "encCounts", ["initPrefixCodeLUTs.Init()"]),
       ("brotli", "encMaxRLE", ["initPrefixCodeLUTs.Init()"]),
       ("brotli", "encWinBits", ["initPrefixCodeLUTs.Init()"]),
       ("brotli", "errCorrupted", ["*Reader.readBlockHeader=", "*Reader.readBlockSwitch=", "*Reader.readCommands=", "*Reader.readContextMap=", "*Reader.readStreamHeader=", "*bitReader.readComplexPrefixCode=", "*bitReader.readSimplePrefixCode=", "*prefixDecoder.Init="]),
       ("brotli", "errInvalid", ["*bitReader.ReadSymbol="]),
       ("brotli", "maxRLERanges", ["*Reader.readContextMap="]),
       ("brotli", "simpleLens1", ["*bitReader.readSimplePrefixCode[:]"]),
       ("brotli", "simpleLens2", ["*bitReader.readSimplePrefixCode[:]"]),
       ("brotli", "simpleLens3", ["*bitReader.readSimplePrefixCode[:]"]),
       ("brotli", "simpleLens4a", ["*bitReader.readSimplePrefixCode[:]"]),
       ("brotli", "simpleLens4b", ["*bitReader.readSimplePrefixCode[:]"]),
       ("bzip2", "decSel", ["*Reader.decodePrefix"]),
       ("bzip2", "encSel", ["*Writer.encodePrefix"]),
       ("bzip2", "errClosed", ["*Reader.Close=", "*Writer.Close="]),
       ("bzip2", "rleDone", ["*Reader.Read=", "*Writer.Write=", "*runLengthEncoding.Read=", "*runLengthEncoding.Write="]),
       ("xflate", "endBlock", ["*chunkReader.Read[:]"]),
       ("xflate", "errClosed", ["*Reader.Close=", "*Writer.Close="]),
       ("xflate", "errCorrupted", ["*Reader.Read=", "*Reader.Reset=", "*Reader.decodeFooter=", "*Reader.decodeIndex=", "*Reader.decodeIndexes=", "errWrap="]),
       ("xflate", "magic", ["*Reader.decodeFooter[:]", "*Writer.encodeFooter[:]"]),
       ("meta", "decHuff", ["*Reader.decodeBlock"]),
       ("meta", "encHuff", ["*Writer.encodeBlock"]),
       ("meta", "errClosed", ["*Reader.Close=", "*Writer.Close="]),
       ("internal", "IdentityLUT", ["*MoveToFront.Decode[:]", "*MoveToFront.Encode[:]"])] := by
  decide

end Compress.Facts
