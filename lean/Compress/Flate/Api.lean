/-
API-level model of flate.Reader (/repo/flate/reader.go): the exported methods
`Read`, `Close`, `Reset` and the counters `InputOffset` / `OutputOffset`, as a
state machine around the Go-shaped decoder model `Compress.Flate.Impl` (which
is used unchanged: `Impl.read` is the `for` loop of `Read`, `Impl.reset` the
struct literal of `Reset`).

What this file adds to `Impl`:

* the `done` flag and the closed marker.  `Close` is
      zr.toRead = nil
      if zr.err == io.EOF || zr.done { zr.err, zr.done = errClosed, true; return nil }
      return zr.err
  `zr.done` is set only there and only together with `zr.err = errClosed`, and
  cleared only by `Reset`, so `done = true` *is* "zr.err holds errClosed and
  zr.toRead is nil"; `Read` then takes the `zr.err != nil` exit and returns
  `(0, errClosed)`.  `Reader.err` is the value of `zr.err`.
* a source that fails.  The input is `data` plus an optional fault `(failAt, tag)`:
  the source delivers `data.take failAt` and answers every request for a byte at or
  beyond `failAt` with the error `tag` (for ever).  At the bit level of `Impl`
  (whose input is the bit list of the stream) this is: the bit list ends there and
  running out of it yields the injected error instead of `io.ErrUnexpectedEOF`.
  `prefix.Reader.PullBits` / `Read` replace only `io.EOF` by `io.ErrUnexpectedEOF`
  and `errWrap` only re-packages `errors.Error` values, so every other error
  reaches `zr.err` as it is: `AErr.other tag`.  In `Impl`, `unexpectedEOF` is
  raised exactly where the bit list runs out, hence `liftErr`.
* `InputOffset` after `zr.rd.Flush()`: whole bytes holding the bits consumed.

The abstraction of `Impl` is kept (input as a bit list; a raw read takes all the
bytes that are available where the Go reader may take them in several steps with
a flush in between - see DESIGN C09 for what this means for the correspondence).
Core-only.
-/
import Compress.Flate.Impl

namespace Compress.Flate.Api
open Compress Compress.Flate.Impl

/-- the errors the API hands out: the classes of `Impl`, the closed marker, and an error
    of the underlying reader, identified by a tag. -/
inductive AErr where
  | eof | unexpectedEOF | corrupted | closed
  | other (tag : Nat)
deriving Repr, DecidableEq, Inhabited

/-- the underlying `io.Reader`: its bytes and, optionally, the position from which it fails and
    the error it fails with. -/
structure Src where
  data  : List UInt8
  fault : Option (Nat × Nat) := none
deriving Repr, Inhabited

/-- the bytes the source delivers before it fails (all of them without a fault). -/
def Src.avail (src : Src) : List UInt8 :=
  match src.fault with
  | some (k, _) => src.data.take k
  | none => src.data

/-- the error that takes the place of "end of input", if the source fails. -/
def Src.tag (src : Src) : Option Nat := src.fault.map (·.2)

def Src.bits (src : Src) : Bits := Bits.ofBytes src.avail

/-- `zr.err` as the caller sees it: running out of input is the source's error, if it has one. -/
def liftErr (tag : Option Nat) : FErr → AErr
  | .eof => .eof
  | .corrupted => .corrupted
  | .unexpectedEOF => match tag with | some t => .other t | none => .unexpectedEOF

structure Reader where
  core : FState
  tag  : Option Nat := none       -- the error of the current source (none: it ends with io.EOF)
  done : Bool := false            -- zr.done
deriving Repr, Inhabited

/-- `zr.err`. -/
def Reader.err (r : Reader) : Option AErr :=
  if r.done then some .closed else r.core.err.map (liftErr r.tag)

/-- `zr.InputOffset`. -/
def Reader.inputOffset (r : Reader) : Nat := (r.core.total - r.core.bits.length + 7) / 8

/-- `zr.OutputOffset`. -/
def Reader.outputOffset (r : Reader) : Nat := r.core.outOff

/-- `NewReader`. -/
def newReader (src : Src) : Reader := { core := init src.bits, tag := src.tag }

/-- `Reset`: everything is re-initialised (the window keeps its backing array, see `Impl.reset`). -/
def Reader.reset (r : Reader) (src : Src) : Reader :=
  { core := Impl.reset r.core src.bits, tag := src.tag, done := false }

def readFuel (c : FState) : Nat := c.total + 8

/-- In Go, an error `Read` returns is `zr.err`, and it is returned only when `zr.toRead` is empty.
    `Impl.read` has one more exit: it bounds the `for` loop by a fuel and answers `corrupted`,
    without latching it, when the bound is hit (it is not hit from the states `Impl.init` /
    `Impl.reset` lead to: `impl_refines_spec`, `reset_refines_spec`; the Go loop has no bound).  The
    API model latches whatever error was returned, so that "a returned error is latched" holds of
    every state; on the exits that exist in Go this changes nothing (`latchBound_id`). -/
def latchBound (c : FState) (e : Option FErr) : FState :=
  match e with
  | some x => { c with err := some x, toRead := [] }
  | none => c

/-- `Read(buf)`, `len(buf) = n`. -/
def Reader.read (r : Reader) (n : Nat) : Reader × List UInt8 × Option AErr :=
  if r.done then (r, [], some .closed)     -- toRead == nil, zr.err == errClosed
  else
    let (c, out, e) := Impl.read (readFuel r.core) r.core n
    ({ r with core := latchBound c e }, out, e.map (liftErr r.tag))

/-- `Close`. -/
def Reader.close (r : Reader) : Reader × Option AErr :=
  let r := { r with core := { r.core with toRead := [] } }
  if r.err = some .eof ∨ r.done then ({ r with done := true }, none)
  else (r, r.err)

inductive Op where
  | read (n : Nat) | close | reset (src : Src)
deriving Repr, Inhabited

inductive Res where
  | read (out : List UInt8) (err : Option AErr) | close (err : Option AErr) | reset
deriving Repr, DecidableEq, Inhabited

def Reader.step (r : Reader) : Op → Reader × Res
  | .read n => let (r', out, e) := r.read n; (r', .read out e)
  | .close => let (r', e) := r.close; (r', .close e)
  | .reset src => (r.reset src, .reset)

/-- a call sequence: the final state and what every call returned. -/
def Reader.run : Reader → List Op → Reader × List Res
  | r, [] => (r, [])
  | r, op :: ops =>
    let (r', x) := r.step op
    let (r'', xs) := Reader.run r' ops
    (r'', x :: xs)

/-- Read and Close, no Reset. -/
def Op.noReset : Op → Bool
  | .reset _ => false
  | _ => true

/-- the bytes a call handed to the caller. -/
def Res.bytes : Res → List UInt8
  | .read out _ => out
  | _ => []

/-- drive `Read` with a schedule of buffer lengths (the last entry repeats) until it returns an
    error: the delivered bytes, that error, the final state (`Impl.runA` / `Impl.runFrom` at the API). -/
def Reader.drive : Nat → Reader → List Nat → Array UInt8 → Array UInt8 × Option AErr × Reader
  | 0, r, _, acc => (acc, none, r)
  | fuel+1, r, sched, acc =>
    let n := sched.headD 4096
    let sched' := if sched.length > 1 then sched.tail else sched
    let (r', out, e) := r.read n
    match e with
    | some err => (acc ++ out.toArray, some err, r')
    | none => Reader.drive fuel r' sched' (acc ++ out.toArray)

end Compress.Flate.Api
