/-
RFC 1951 as a function on bit lists: the specification side of C01 (and the
reference decoder of C06, C12, C15, C16-M2).

Design: the shortest readable definition — block header, stored / fixed /
dynamic blocks, code lengths with the 16/17/18 repeat codes (which may run
across the HLIT/HDIST boundary), canonical Huffman decoding by counting codes
per length (no tables), LZ77 on an append-only output.  `decode` returns the
output produced up to the first point where the bits stop being a valid
stream, and a verdict.
Core-only.
-/
import Compress.Bits

namespace Compress.Flate
open Compress

inductive Verdict where
  | ok (bitsUsed : Nat)      -- a final block ended; bits consumed incl. the final padding to a byte
  | corrupt
  | unexpectedEOF
deriving Repr, DecidableEq, Inhabited

structure Result where
  out     : Array UInt8
  verdict : Verdict
deriving Repr, Inhabited

/-- canonical Huffman code given as code lengths per symbol (0 = unused). -/
structure Huff where
  lens : Array Nat
deriving Repr, Inhabited

def maxCodeLen : Nat := 15

/-- number of codes of length `l`. -/
def Huff.count (h : Huff) (l : Nat) : Nat := (h.lens.toList.filter (· == l)).length

/-- symbols of length `l` in increasing order. -/
def Huff.symsOfLen (h : Huff) (l : Nat) : List Nat :=
  (List.range h.lens.size).filter (fun s => h.lens.getD s 0 == l)

/-- Kraft bookkeeping as in zlib/Go: `left` code space after assigning lengths
    1..15; negative = over-subscribed. -/
def Huff.left (h : Huff) : Int :=
  (List.range maxCodeLen).foldl (fun (left : Int) i => 2 * left - (h.count (i + 1) : Int)) 1

def Huff.numCodes (h : Huff) : Nat := (h.lens.toList.filter (· != 0)).length

/-- a code set a decoder may be built from: not over-subscribed, and complete
    unless it is empty or a single code of one bit (RFC 1951 §3.2.7 allows one
    distance code of one bit; reference decoders accept the same for literals). -/
def Huff.valid (h : Huff) : Bool :=
  let left := h.left
  decide (left ≥ 0) && (decide (left = 0) || decide (h.numCodes = 0) ||
    (decide (h.numCodes = 1) && decide (h.count 1 = 1)))

inductive Sym where
  | sym (s : Nat) (rest : Bits)
  | eof
  | invalid
deriving Repr

/-- per-length counts and the symbols ordered by (length, symbol): computed once
    per code so that decoding a symbol costs one step per bit. -/
structure HuffTab where
  count  : Array Nat
  sorted : Array Nat
deriving Repr, Inhabited

def Huff.tab (h : Huff) : HuffTab :=
  { count := ((List.range (maxCodeLen + 1)).map h.count).toArray,
    sorted := (((List.range maxCodeLen).map (fun i => h.symsOfLen (i + 1))).flatten).toArray }

/-- decode one symbol: walk lengths 1..15 keeping the code read so far
    (MSB-first), the first code of the current length and the number of codes
    of shorter lengths (the classical counting decoder). -/
def HuffTab.decodeAux (t : HuffTab) : Nat → Nat → Nat → Nat → Nat → Bits → Sym
  | 0, _, _, _, _, _ => .invalid
  | fuel+1, len, code, first, index, bits =>
    match bits with
    | [] => if t.sorted.size = 0 then .invalid else .eof   -- a code without code words fails even at the end of input
    | b :: rest =>
      let code := code + (if b then 1 else 0)
      let cnt := t.count.getD len 0
      if code < first + cnt then
        match t.sorted[index + (code - first)]? with
        | some s => .sym s rest
        | none => .invalid
      else if index + cnt ≥ t.sorted.size then .invalid     -- no longer code exists: these bits start no code word
      else
        decodeAux t fuel (len + 1) (2 * code) (2 * (first + cnt)) (index + cnt) rest

def HuffTab.decode (t : HuffTab) (bits : Bits) : Sym := t.decodeAux maxCodeLen 1 0 0 0 bits

def Huff.decode (h : Huff) (bits : Bits) : Sym := h.tab.decode bits

/-! ### tables of RFC 1951 §3.2.5 / §3.2.6 / §3.2.7 -/

def lenBase : List Nat := [3,4,5,6,7,8,9,10,11,13,15,17,19,23,27,31,35,43,51,59,67,83,99,115,131,163,195,227,258]
def lenExtra : List Nat := [0,0,0,0,0,0,0,0,1,1,1,1,2,2,2,2,3,3,3,3,4,4,4,4,5,5,5,5,0]
def distBase : List Nat := [1,2,3,4,5,7,9,13,17,25,33,49,65,97,129,193,257,385,513,769,1025,1537,2049,3073,4097,6145,8193,12289,16385,24577]
def distExtra : List Nat := [0,0,0,0,1,1,2,2,3,3,4,4,5,5,6,6,7,7,8,8,9,9,10,10,11,11,12,12,13,13]
def clenOrder : List Nat := [16,17,18,0,8,7,9,6,10,5,11,4,12,3,13,2,14,1,15]

def fixedLit : Huff :=
  ⟨((List.replicate 144 8) ++ (List.replicate 112 9) ++ (List.replicate 24 7) ++ (List.replicate 8 8)).toArray⟩
def fixedDist : Huff := ⟨(List.replicate 32 5).toArray⟩

/-! ### bit reading -/

def takeBits (n : Nat) (bits : Bits) : Option (Nat × Bits) :=
  let hd := bits.take n
  if hd.length < n then none else some (Bits.toNat hd, bits.drop n)

/-! ### dynamic block header -/

/-- read `n` code lengths with the code-length code `cl`. -/
def readLengths (cl : HuffTab) : Nat → Nat → List Nat → Bits → Except Verdict (List Nat × Bits)
  | 0, _, acc, bits => .ok (acc.reverse, bits)
  | fuel+1, n, acc, bits =>
    if acc.length ≥ n then
      if acc.length = n then .ok (acc.reverse, bits) else .error .corrupt
    else
      match cl.decode bits with
      | .eof => .error .unexpectedEOF
      | .invalid => .error .corrupt
      | .sym s rest =>
        if s < 16 then readLengths cl fuel n (s :: acc) rest
        else if s = 16 then
          match acc with
          | [] => .error .corrupt
          | prev :: _ =>
            match takeBits 2 rest with
            | none => .error .unexpectedEOF
            | some (v, rest') =>
              if acc.length + (3 + v) > n then .error .corrupt
              else readLengths cl fuel n (List.replicate (3 + v) prev ++ acc) rest'
        else if s = 17 then
          match takeBits 3 rest with
          | none => .error .unexpectedEOF
          | some (v, rest') =>
            if acc.length + (3 + v) > n then .error .corrupt
            else readLengths cl fuel n (List.replicate (3 + v) 0 ++ acc) rest'
        else
          match takeBits 7 rest with
          | none => .error .unexpectedEOF
          | some (v, rest') =>
            if acc.length + (11 + v) > n then .error .corrupt
            else readLengths cl fuel n (List.replicate (11 + v) 0 ++ acc) rest'

/-- read the HCLEN 3-bit code lengths in the permuted order. -/
def readCLens : List Nat → Array Nat → Bits → Option (Array Nat × Bits)
  | [], acc, bits => some (acc, bits)
  | pos :: ps, acc, bits =>
    match takeBits 3 bits with
    | none => none
    | some (v, rest) => readCLens ps (acc.setIfInBounds pos v) rest

/-- dynamic block header: (literal/length code, distance code, rest). -/
def readDynamic (bits : Bits) : Except Verdict (Huff × Huff × Bits) :=
  match takeBits 5 bits with
  | none => .error .unexpectedEOF
  | some (hlit, b1) =>
    match takeBits 5 b1 with
    | none => .error .unexpectedEOF
    | some (hdist, b2) =>
      match takeBits 4 b2 with
      | none => .error .unexpectedEOF
      | some (hclen, b3) =>
        let nlit := hlit + 257
        let ndist := hdist + 1
        if nlit > 286 ∨ ndist > 30 then .error .corrupt
        else
          match readCLens (clenOrder.take (hclen + 4)) (Array.replicate 19 0) b3 with
          | none => .error .unexpectedEOF
          | some (cl, b4) =>
            let clh : Huff := ⟨cl⟩
            if !clh.valid then .error .corrupt
            else
              match readLengths clh.tab (nlit + ndist + 1) (nlit + ndist) [] b4 with
              | .error e => .error e
              | .ok (lens, b5) =>
                let lit : Huff := ⟨(lens.take nlit).toArray⟩
                let dist : Huff := ⟨(lens.drop nlit).toArray⟩
                if !lit.valid ∨ !dist.valid then .error .corrupt
                else .ok (lit, dist, b5)

/-! ### block bodies -/

/-- append `len` bytes copied from `dist` back (byte at a time, so overlapping
    copies replicate). -/
def copyBack (out : Array UInt8) (dist : Nat) : Nat → Array UInt8
  | 0 => out
  | len+1 => copyBack (out.push (out.getD (out.size - dist) 0)) dist len

def maxHist : Nat := 32768

/-- the compressed data of a fixed or dynamic block, up to and including the
    end-of-block code. -/
def inflateBlock (lit dist : HuffTab) : Nat → Array UInt8 → Bits → Array UInt8 × Except Verdict Bits
  | 0, out, _ => (out, .error .corrupt)
  | fuel+1, out, bits =>
    match lit.decode bits with
    | .eof => (out, .error .unexpectedEOF)
    | .invalid => (out, .error .corrupt)
    | .sym s rest =>
      if s < 256 then inflateBlock lit dist fuel (out.push (UInt8.ofNat s)) rest
      else if s = 256 then (out, .ok rest)
      else if s ≥ 286 then (out, .error .corrupt)
      else
        match takeBits (lenExtra.getD (s - 257) 0) rest with
        | none => (out, .error .unexpectedEOF)
        | some (le, r1) =>
          let len := lenBase.getD (s - 257) 0 + le
          match dist.decode r1 with
          | .eof => (out, .error .unexpectedEOF)
          | .invalid => (out, .error .corrupt)
          | .sym ds r2 =>
            if ds ≥ 30 then (out, .error .corrupt)
            else
              match takeBits (distExtra.getD ds 0) r2 with
              | none => (out, .error .unexpectedEOF)
              | some (de, r3) =>
                let d := distBase.getD ds 0 + de
                if d > min out.size maxHist then (out, .error .corrupt)
                else inflateBlock lit dist fuel (copyBack out d len) r3

/-- bits to skip to reach a byte boundary when `used` bits have been consumed. -/
def padTo8 (used : Nat) : Nat := (8 - used % 8) % 8

/-- copy `n` whole bytes from the (byte-aligned) bits. -/
def takeBytes : Nat → Array UInt8 → Bits → Array UInt8 × Option Bits
  | 0, out, bits => (out, some bits)
  | n+1, out, bits =>
    match takeBits 8 bits with
    | none => (out, none)
    | some (v, rest) => takeBytes n (out.push (UInt8.ofNat v)) rest

/-- the sequence of blocks. `total` = length of the whole input in bits. -/
def decodeBlocks (total : Nat) : Nat → Array UInt8 → Bits → Result
  | 0, out, _ => { out := out, verdict := .corrupt }
  | fuel+1, out, bits =>
    match takeBits 1 bits with
    | none => { out := out, verdict := .unexpectedEOF }
    | some (bfinal, b1) =>
      match takeBits 2 b1 with
      | none => { out := out, verdict := .unexpectedEOF }
      | some (btype, b2) =>
        let finish (out : Array UInt8) (rest : Bits) : Result :=
          if bfinal = 1 then
            { out := out, verdict := .ok (total - rest.length + padTo8 (total - rest.length)) }
          else decodeBlocks total fuel out rest
        match btype with
        | 0 =>
          let b3 := b2.drop (padTo8 (total - b2.length))
          match takeBits 16 b3 with
          | none => { out := out, verdict := .unexpectedEOF }
          | some (len, b4) =>
            match takeBits 16 b4 with
            | none => { out := out, verdict := .unexpectedEOF }
            | some (nlen, b5) =>
              if len + nlen ≠ 65535 then { out := out, verdict := .corrupt }
              else
                match takeBytes len out b5 with
                | (out', none) => { out := out', verdict := .unexpectedEOF }
                | (out', some b6) => finish out' b6
        | 1 =>
          match inflateBlock fixedLit.tab fixedDist.tab (b2.length + 1) out b2 with
          | (out', .error v) => { out := out', verdict := v }
          | (out', .ok rest) => finish out' rest
        | 2 =>
          match readDynamic b2 with
          | .error v => { out := out, verdict := v }
          | .ok (lit, dist, b3) =>
            match inflateBlock lit.tab dist.tab (b3.length + 1) out b3 with
            | (out', .error v) => { out := out', verdict := v }
            | (out', .ok rest) => finish out' rest
        | _ => { out := out, verdict := .corrupt }

/-- decode a DEFLATE stream given as bits (LSB-first packing of the bytes). -/
def decodeBits (bits : Bits) : Result := decodeBlocks bits.length (bits.length + 1) #[] bits

def decode (bytes : List UInt8) : Result := decodeBits (Bits.ofBytes bytes)

end Compress.Flate
