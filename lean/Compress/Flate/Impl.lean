/-
Model of /repo/flate/reader.go + flate/prefix.go shaped like the Go code:
the `Read` loop with the pending `toRead` slice and the persistent error, the
resumable steps `readBlockHeader` / `readRawData` / `readBlock` (with its
`stateInit`/`stateDict` re-entry), `ReadPrefixCodes` built on the models of
`GeneratePrefixes` and `Decoder.Init` (two-level tables, poison symbol for
one-code trees), and the ring-buffer window `dictDecoder`.

The input is the bit list of the stream: the 64-bit buffer and the source
adaptation of `prefix.Reader` are abstracted by theorem S4
(`Compress.Proofs.BitIO.reader_refines`).  A raw read takes every byte that is
available (the Go reader may take fewer per step and flush in between; this
only changes how output is chunked across steps).
Core-only.
-/
import Compress.Prefix.Tables
import Compress.Window
import Compress.Flate.Spec

namespace Compress.Flate.Impl
open Compress Compress.Prefix Compress.Window

inductive FErr where
  | eof | unexpectedEOF | corrupted
deriving Repr, DecidableEq, Inhabited

inductive Step where
  | header | raw | block
deriving Repr, DecidableEq, Inhabited

structure FState where
  bits    : Bits                 -- input not yet consumed
  total   : Nat                  -- length of the whole input in bits (for byte alignment)
  toRead  : List UInt8 := []
  dict    : Dict
  dist    : Nat := 0
  blkLen  : Nat := 0
  cpyLen  : Nat := 0
  last    : Bool := false
  err     : Option FErr := none
  step    : Step := .header
  inCopy  : Bool := false        -- stepState == stateDict
  litTree : Decoder := {}
  distTree : Decoder := {}
  outOff  : Nat := 0             -- OutputOffset
deriving Repr, Inhabited

def maxHistSize : Nat := 32768

/-- `NewReader` / `Reset`. -/
def init (bits : Bits) (prevCap : Nat := 0) : FState :=
  { bits := bits, total := bits.length, dict := Dict.init maxHistSize prevCap }

/-- `Reset` on a reader in an arbitrary state: everything is re-initialised except the window's
    backing array, which is re-sliced with its stale contents (`dict: zr.dict` + `dict.Init`). -/
def reset (s : FState) (bits : Bits) : FState :=
  { bits := bits, total := bits.length, dict := Dict.initOver maxHistSize s.dict.cap s.dict.hist }

abbrev M := Except FErr

def readBits (n : Nat) (bits : Bits) : M (Nat × Bits) :=
  let hd := bits.take n
  if hd.length < n then .error .unexpectedEOF else .ok (Bits.toNat hd, bits.drop n)

/-- `ReadSymbol` with the failure modes of the Go code: an empty table is
    `Invalid` (re-classed to Corrupted by errWrap), running out of bits is
    unexpected EOF. -/
def readSymbol (d : Decoder) (bits : Bits) : M (Nat × Bits) :=
  if d.chunks.size = 0 then .error .corrupted
  else
    match d.readSymbol bits with
    | some r => .ok r
    | none => .error .unexpectedEOF

/-- flate's `handleDegenerateCodes`: a single code gets a poison sibling. -/
def handleDegenerate (codes : List Code) (maxSyms : Nat) : List Code :=
  match codes with
  | [c] => [c, { sym := maxSyms, len := 1 }]
  | _ => codes

/-- build a decoder from (symbol, length) pairs as `ReadPrefixCodes` does. -/
def mkTree (codes : List Code) (maxSyms : Nat) : M Decoder :=
  match generatePrefixes (handleDegenerate codes maxSyms) with
  | .error _ => .error .corrupted
  | .ok cs => .ok (Decoder.init cs)

/-- the loop reading HLIT+HDIST code lengths with the code-length tree. -/
def readCodeLens (clTree : Decoder) (numLit maxSyms : Nat) :
    Nat → Nat → Nat → List Code → List Code → Bits → M (List Code × List Code × Bits)
  | 0, _, _, _, _, _ => .error .corrupted
  | fuel+1, sym, clenLast, lits, dists, bits =>
    if sym ≥ maxSyms then .ok (lits.reverse, dists.reverse, bits)
    else do
      let (clen, b1) ← readSymbol clTree bits
      let append (s l : Nat) (lits dists : List Code) : List Code × List Code :=
        if s < numLit then ({ sym := s, len := l } :: lits, dists)
        else (lits, { sym := s - numLit, len := l } :: dists)
      if clen < 16 then
        let (lits, dists) := if clen > 0 then append sym clen lits dists else (lits, dists)
        readCodeLens clTree numLit maxSyms fuel (sym + 1) clen lits dists b1
      else
        let rep : M (Nat × Nat × Bits) :=
          if clen = 16 then
            if sym = 0 then .error .corrupted
            else do let (v, b2) ← readBits 2 b1; pure (clenLast, 3 + v, b2)
          else if clen = 17 then do let (v, b2) ← readBits 3 b1; pure (0, 3 + v, b2)
          else if clen = 18 then do let (v, b2) ← readBits 7 b1; pure (0, 11 + v, b2)
          else .error .corrupted
        let (l, cnt, b2) ← rep
        let (lits, dists) :=
          if l > 0 then
            (List.range cnt).foldl (fun (st : List Code × List Code) k => append (sym + k) l st.1 st.2) (lits, dists)
          else (lits, dists)
        if sym + cnt > maxSyms then .error .corrupted
        else readCodeLens clTree numLit maxSyms fuel (sym + cnt) l lits dists b2

def clenOrder : List Nat := [16, 17, 18, 0, 8, 7, 9, 6, 10, 5, 11, 4, 12, 3, 13, 2, 14, 1, 15]

/-- `ReadPrefixCodes`. -/
def readPrefixCodes (bits : Bits) : M (Decoder × Decoder × Bits) := do
  let (hl, b1) ← readBits 5 bits
  let (hd, b2) ← readBits 5 b1
  let (hc, b3) ← readBits 4 b2
  let numLit := hl + 257
  let numDist := hd + 1
  let numCLen := hc + 4
  if numLit > 286 ∨ numDist > 30 then throw .corrupted
  -- code-length code
  let rec rdCl (order : List Nat) (acc : List Code) (bits : Bits) : M (List Code × Bits) :=
    match order with
    | [] => .ok (acc, bits)
    | s :: rest => do
      let (v, b) ← readBits 3 bits
      rdCl rest (if v > 0 then { sym := s, len := v } :: acc else acc) b
  let (cl, b4) ← rdCl (clenOrder.take numCLen) [] b3
  let clSorted := (List.range 19).filterMap (fun s => cl.find? (·.sym == s))
  let clTree ← mkTree clSorted 19
  let (lits, dists, b5) ← readCodeLens clTree numLit (numLit + numDist) (numLit + numDist + 1) 0 0 [] [] b4
  let lt ← mkTree lits 286
  let dt ← mkTree dists 30
  return (lt, dt, b5)

/-- the fixed trees of RFC 1951 §3.2.6 (`decLit`, `decDist`). -/
def fixedLit : Decoder :=
  match generatePrefixes ((List.range 288).map fun i =>
      { sym := i, len := if i < 144 then 8 else if i < 256 then 9 else if i < 280 then 7 else 8 }) with
  | .ok cs => Decoder.init cs
  | .error _ => {}
def fixedDist : Decoder :=
  match generatePrefixes ((List.range 32).map fun i => { sym := i, len := 5 }) with
  | .ok cs => Decoder.init cs
  | .error _ => {}

def lenBase := Flate.lenBase
def lenExtra := Flate.lenExtra
def distBase := Flate.distBase
def distExtra := Flate.distExtra

/-- `finishBlock`. -/
def finishBlock (s : FState) : FState :=
  if s.last then
    let used := s.total - s.bits.length
    { s with bits := s.bits.drop ((8 - used % 8) % 8), err := some .eof, step := .header }
  else { s with step := .header }

/-- `readBlockHeader`. -/
def readBlockHeader (s : FState) : M FState := do
  let (f, b1) ← readBits 1 s.bits
  let (t, b2) ← readBits 2 b1
  let s := { s with last := f == 1 }
  match t with
  | 0 =>
    let used := s.total - b2.length
    let b3 := b2.drop ((8 - used % 8) % 8)
    let (n, b4) ← readBits 16 b3
    let (nn, b5) ← readBits 16 b4
    if n + nn ≠ 65535 then throw .corrupted
    let s := { s with bits := b5, blkLen := n }
    if n = 0 then
      let (d, fl) := s.dict.readFlush
      return finishBlock { s with dict := d, toRead := fl }
    else return { s with step := .raw }
  | 1 => return { s with bits := b2, litTree := fixedLit, distTree := fixedDist, step := .block }
  | 2 =>
    let (lt, dt, b3) ← readPrefixCodes b2
    return { s with bits := b3, litTree := lt, distTree := dt, step := .block }
  | _ => throw .corrupted

/-- `readRawData`: take what fits in the window and is available. -/
def readRawData (s : FState) : M FState := do
  let want := min s.dict.availSize s.blkLen
  let availBytes := s.bits.length / 8
  let k := min want availBytes
  let bytes := (Bits.toBytes (s.bits.take (8 * k)))
  let (d, _) := s.dict.writeBytes bytes
  let s := { s with dict := d, bits := s.bits.drop (8 * k), blkLen := s.blkLen - k }
  if k < want then throw .unexpectedEOF     -- (state is abandoned: the error path flushes the window)
  if s.blkLen > 0 then
    let (d, fl) := s.dict.readFlush
    return { s with dict := d, toRead := fl, step := .raw }
  else return finishBlock s

/-- `readBlock`: decode until the window is full, the block ends, or an error. -/
def readBlock : Nat → FState → FState × Option FErr
  | 0, s => (s, some .corrupted)
  | fuel+1, s =>
    if s.inCopy then
      -- copyDistance
      let (d1, n) :=
        let (dt, nt) := s.dict.tryWriteCopy s.dist s.cpyLen
        if nt = 0 then s.dict.writeCopy s.dist s.cpyLen else (dt, nt)
      let s := { s with dict := d1, cpyLen := s.cpyLen - n }
      if s.cpyLen > 0 then
        let (d, fl) := s.dict.readFlush
        ({ s with dict := d, toRead := fl, step := .block, inCopy := true }, none)
      else readBlock fuel { s with inCopy := false }
    else
      -- readLiteral
      if s.dict.availSize = 0 then
        let (d, fl) := s.dict.readFlush
        ({ s with dict := d, toRead := fl, step := .block, inCopy := false }, none)
      else
        match readSymbol s.litTree s.bits with
        | .error e => (s, some e)
        | .ok (sym, b1) =>
          if sym < 256 then readBlock fuel { s with bits := b1, dict := s.dict.writeByte (UInt8.ofNat sym) }
          else if sym = 256 then (finishBlock { s with bits := b1, inCopy := false }, none)
          else if sym < 286 then
            match readBits (lenExtra.getD (sym - 257) 0) b1 with
            | .error e => ({ s with bits := b1 }, some e)
            | .ok (le, b2) =>
              let cpy := lenBase.getD (sym - 257) 0 + le
              match readSymbol s.distTree b2 with
              | .error e => ({ s with bits := b2 }, some e)
              | .ok (ds, b3) =>
                if ds ≥ 30 then ({ s with bits := b3 }, some .corrupted)
                else
                  match readBits (distExtra.getD ds 0) b3 with
                  | .error e => ({ s with bits := b3 }, some e)
                  | .ok (de, b4) =>
                    let dist := distBase.getD ds 0 + de
                    if dist > s.dict.histSize then ({ s with bits := b4 }, some .corrupted)
                    else readBlock fuel { s with bits := b4, cpyLen := cpy, dist := dist, inCopy := true }
          else ({ s with bits := b1 }, some .corrupted)

/-- one `zr.step(zr)` under `errors.Recover`, followed by the error bookkeeping of `Read`. -/
def stepOnce (s : FState) : FState :=
  let (s', e) : FState × Option FErr :=
    match s.step with
    | .header => match readBlockHeader s with | .ok s' => (s', none) | .error e => (s, some e)
    | .raw => match readRawData s with
      | .ok s' => (s', none)
      | .error e =>
        -- the bytes that were available have been written to the window before the error
        let want := min s.dict.availSize s.blkLen
        let k := min want (s.bits.length / 8)
        let (d, _) := s.dict.writeBytes (Bits.toBytes (s.bits.take (8 * k)))
        ({ s with dict := d, bits := s.bits.drop (8 * k) }, some e)
    | .block => readBlock (s.bits.length + s.cpyLen + 40000) s
  let s' := match e with | some err => { s' with err := some err } | none => s'
  if s'.err ≠ none ∧ s'.toRead.isEmpty then
    let (d, fl) := s'.dict.readFlush
    { s' with dict := d, toRead := fl }
  else s'

/-- `Reader.Read(buf)` with `len(buf) = n`: (state, bytes, error). `fuel` bounds the steps. -/
def read : Nat → FState → Nat → FState × List UInt8 × Option FErr
  | 0, s, _ => (s, [], some .corrupted)
  | fuel+1, s, n =>
    if !s.toRead.isEmpty then
      let out := s.toRead.take n
      let s := { s with toRead := s.toRead.drop n, outOff := s.outOff + out.length }
      if s.toRead.isEmpty then (s, out, s.err) else (s, out, none)
    else if s.err ≠ none then (s, [], s.err)
    else read fuel (stepOnce s) n

/-- drive `Read` with a schedule of buffer lengths (the last entry repeats)
    until an error is returned; delivered bytes and the final error. -/
def runA : Nat → FState → List Nat → Array UInt8 → Array UInt8 × Option FErr × FState
  | 0, s, _, acc => (acc, some .corrupted, s)
  | fuel+1, s, sched, acc =>
    let n := sched.headD 4096
    let sched' := if sched.length > 1 then sched.tail else sched
    let (s', out, e) := read (s.total + 8) s n
    match e with
    | some err => (acc ++ out.toArray, some err, s')
    | none => runA fuel s' sched' (acc ++ out.toArray)

def run (fuel : Nat) (s : FState) (sched : List Nat) : List UInt8 × Option FErr × FState :=
  let (a, e, s') := runA fuel s sched #[]
  (a.toList, e, s')

end Compress.Flate.Impl
