/-
API-level model of /repo/xflate/internal/meta/writer.go `Writer`: `Reset`,
`Write`, `Close`, `encodeBlock`'s hand-over of each finished block to the
underlying writer (one `Write` per block; the bit writer inside works on a
bytes.Buffer and cannot fail), the `err` latch, the `done` flag,
`InputOffset`/`OutputOffset`/`NumBlocks`, `FinalMode`, over the adversarial
`Sink` of `XFlate/Writer.lean`.  The bits of a block and the buffering rule are
those of `Meta/Codec.lean`.
Core-only.
-/
import Compress.Meta.Codec
import Compress.XFlate.Writer

namespace Compress.Meta
open Compress
open Compress.XFlate (Sink Err)

structure MW where
  buf    : List UInt8 := []     -- mw.buf[:mw.bufCnt]
  buf0s  : Nat := 0
  buf1s  : Nat := 0
  final  : FinalMode := .fnil
  err    : Option Err := none
  done   : Bool := false
  sink   : Sink := {}
  inOff  : Int := 0
  outOff : Int := 0
  nblk   : Int := 0
  acc    : List UInt8 := []     -- ghost: bytes accepted by Write since the last Reset
  base   : List UInt8 := []     -- ghost: what the sink held when it was attached
deriving Repr, Inhabited

/-- `encodeBlock(final)`: new state and returned error. -/
def MW.encodeBlock (s : MW) (final : FinalMode) : MW × Option Err :=
  match encodeBlockBytes s.buf final with
  | none => (s, some .invalid)                     -- "block too large to encode"
  | some blk =>
    let r := s.sink.write blk
    let s1 := { s with sink := r.1, outOff := s.outOff + r.2.1 }
    match r.2.2 with
    | some e => (s1, some e)
    | none => ({ s1 with buf := [], buf0s := 0, buf1s := 0, nblk := s1.nblk + 1 }, none)

/-- the loop of `Write`: state and number of bytes taken. -/
def MW.writeLoop : MW → List UInt8 → Nat → MW × Nat
  | s, [], n => (s, n)
  | s, b :: bs, n =>
    let bits := Bits.ofByte b
    let zeros := Bits.countZeros bits
    let ones := Bits.countOnes bits
    let keep := decide (s.buf.length < ensureRawBytes) || decide ((computeHuffLen (s.buf0s + zeros) (s.buf1s + ones)).1 > 0)
    let r := if keep then (s, none) else s.encodeBlock .fnil
    match r.2 with
    | some e => ({ r.1 with err := some e }, n)
    | none =>
      MW.writeLoop { r.1 with buf := r.1.buf ++ [b], buf0s := r.1.buf0s + zeros, buf1s := r.1.buf1s + ones } bs (n + 1)

/-- `Writer.Write(buf)`. -/
def MW.write (s : MW) (data : List UInt8) : MW × Nat × Option Err :=
  if s.err ≠ none then (s, 0, s.err)
  else
    let r := MW.writeLoop s data 0
    ({ r.1 with inOff := r.1.inOff + r.2, acc := r.1.acc ++ data.take r.2 }, r.2, r.1.err)

/-- `Writer.Close`. -/
def MW.close (s : MW) : MW × Option Err :=
  if s.done then (s, none)
  else if s.err ≠ none then (s, s.err)
  else
    let r := s.encodeBlock s.final
    match r.2 with
    | some e => ({ r.1 with err := some e }, some e)
    | none => ({ r.1 with err := some .closed, done := true }, none)

/-- `Writer.Reset(wr)` (FinalMode goes back to FinalNil; the caller sets it again). -/
def MW.reset (_s : MW) (sink : Sink) : MW := { sink := sink, base := sink.got }

def MW.setFinal (s : MW) (f : FinalMode) : MW := { s with final := f }

inductive MOp where
  | write (data : List UInt8)
  | close
  | reset (sink : Sink) (final : FinalMode)     -- Reset followed by setting FinalMode
deriving Repr, Inhabited

inductive MRes where
  | write (n : Nat) (err : Option Err)
  | close (err : Option Err)
  | reset
deriving Repr, DecidableEq, Inhabited

def MW.step (s : MW) : MOp → MW × MRes
  | .write d => let r := s.write d; (r.1, .write r.2.1 r.2.2)
  | .close => let r := s.close; (r.1, .close r.2)
  | .reset sk f => ((s.reset sk).setFinal f, .reset)

def MW.run : MW → List MOp → MW × List MRes
  | s, [] => (s, [])
  | s, op :: ops =>
    let r := s.step op
    let r2 := MW.run r.1 ops
    (r2.1, r.2 :: r2.2)

end Compress.Meta
