/-
API-level model of /repo/xflate/internal/meta/reader.go `Reader`: `Reset`,
`Read` (the loop over `mr.buf` / `mr.final` / `decodeBlock`), `Close`, the
`err` latch, the `done` flag, `InputOffset` / `OutputOffset` / `NumBlocks`,
`FinalMode`, the end-of-input probe `PullBits(1)`, over a source that is a
byte list plus an optional fault (position, tag): the source hands out the
bytes before the fault position and then answers every further request with
the error `tag` (instead of io.EOF).

The bits of a block are those of `Codec.decodeBlock` (nothing of the bit-level
decoding is modelled again here).  `decodeBlock` reads no bit beyond the block
it accepts and the Go bit reader pulls bytes on demand (ReadByte) or peeks
without consuming (Peek/Discard + Flush per block), so the decoder sees the
fault exactly when it needs a byte at or beyond the fault position: the model
runs `decodeBlock` on the bytes before the fault and turns "input ends" into
the fault's error.

`mr.rd` is set to nil by Close; a `decodeBlock` call with `mr.rd == nil` would
be a nil dereference: the model has an explicit outcome for it (`RErr.nilDeref`)
so that "no call order panics" is a statement about reachable results.

InputOffset after a FAILED decodeBlock: for `corrupted` it is the number of
bytes holding the bits read up to the failing check (the least byte prefix on
which `Codec.decodeBlock` no longer reports "input ends inside a block"); for
an input that ends (or faults) inside a block it is every byte the source had,
which is what a ReadByte source gives (a Peek source leaves the bytes of the
unfinished bit read undiscarded; the driver prints `~` for that case).
Core-only.
-/
import Compress.Meta.Codec

namespace Compress.Meta
open Compress

/-- the errors `Reader.Read` / `Reader.Close` return. -/
inductive RErr where
  | eof                 -- io.EOF
  | ueof                -- io.ErrUnexpectedEOF
  | corrupt             -- errors.Corrupted (any message)
  | closed              -- errClosed
  | fault (tag : Nat)   -- the source's own error, unchanged
  | nilDeref            -- panic: mr.rd is nil (never reachable: C18_meta_reader_closed)
deriving Repr, DecidableEq, Inhabited

/-- a source: the bytes it holds, and optionally a position from which on it
    fails with the error `tag` (position ≥ length: it fails instead of
    reporting io.EOF). -/
structure Src where
  data  : List UInt8 := []
  fault : Option (Nat × Nat) := none
deriving Repr, DecidableEq, Inhabited

/-- the bytes the source hands out. -/
def Src.avail (s : Src) : List UInt8 :=
  match s.fault with
  | none => s.data
  | some (p, _) => s.data.take p

def Src.tag (s : Src) : Option Nat := s.fault.map (·.2)

structure MR where
  rest      : Bits := []               -- input not yet consumed (what the source still hands out)
  ftag      : Option Nat := none       -- the error that follows `rest` (none: io.EOF)
  rdNil     : Bool := false            -- mr.rd == nil
  buf       : List UInt8 := []         -- mr.buf: decoded, not yet delivered
  final     : FinalMode := .fnil       -- mr.final
  err       : Option RErr := none      -- mr.err
  done      : Bool := false            -- mr.done
  finalMode : FinalMode := .fnil       -- mr.FinalMode
  inOff     : Nat := 0
  outOff    : Nat := 0
  nblk      : Nat := 0
deriving Repr, DecidableEq, Inhabited

/-- `NewReader(src)` / `Reset(src)`. -/
def MR.reset (_s : MR) (src : Src) : MR :=
  { rest := Bits.ofBytes src.avail, ftag := src.tag }

def newMR (src : Src) : MR := ({} : MR).reset src

/-- what "the input ends here" turns into: io.ErrUnexpectedEOF, or the fault. -/
def MR.endErr (s : MR) : RErr :=
  match s.ftag with
  | none => .ueof
  | some t => .fault t

/-- bytes read when `decodeBlock` fails with `corrupted`: least `k ≥ 1` such that
    the first `k` bytes already decide the failure. -/
def errBytes (bits : Bits) : Nat → Nat → Nat
  | 0, k => k
  | fuel+1, k =>
    if bits.length ≤ 8 * k then (bits.length + 7) / 8
    else
      match decodeBlock (bits.take (8 * k)) with
      | .error .unexpectedEOF => errBytes bits fuel (k + 1)
      | _ => k

/-- `mr.decodeBlock()`: new state and returned error. -/
def MR.decodeStep (s : MR) : MR × Option RErr :=
  if s.rdNil then (s, some .nilDeref)
  else
    match decodeBlock s.rest with
    | .ok blk =>
      ({ s with rest := s.rest.drop blk.consumed, buf := blk.payload, final := blk.final,
                inOff := s.inOff + blk.consumed / 8, nblk := s.nblk + 1 }, none)
    | .error .eof =>
      -- PullBits(1) failed: io.ErrUnexpectedEOF becomes io.EOF, anything else is returned as it is
      (s, some (match s.ftag with | none => .eof | some t => .fault t))
    | .error .unexpectedEOF =>
      ({ s with inOff := s.inOff + s.rest.length / 8 }, some s.endErr)
    | .error (.corrupted _) =>
      ({ s with inOff := s.inOff + errBytes s.rest (s.rest.length / 8 + 1) 1 }, some .corrupt)

/-- the `for len(buf) > 0` loop of `Read` for a buffer of `n > 0` bytes: state
    and the bytes copied.  (One block's payload at most is delivered per call;
    blocks with an empty payload are passed over.) -/
def MR.readLoop : Nat → MR → Nat → MR × List UInt8
  | 0, s, _ => (s, [])
  | fuel+1, s, n =>
    if s.buf ≠ [] then ({ s with buf := s.buf.drop n }, s.buf.take n)
    else if s.final ≠ .fnil then ({ s with finalMode := s.final, err := some .eof }, [])
    else
      let r := s.decodeStep
      match r.2 with
      | some e => ({ r.1 with err := some e }, [])
      | none => MR.readLoop fuel r.1 n

/-- `Reader.Read(buf)` with `len(buf) = n`: state, bytes delivered, error. -/
def MR.read (s : MR) (n : Nat) : MR × List UInt8 × Option RErr :=
  if s.err ≠ none then (s, [], s.err)
  else if n = 0 then (s, [], none)
  else
    let r := MR.readLoop (s.rest.length + 2) s n
    ({ r.1 with outOff := r.1.outOff + r.2.length }, r.2, r.1.err)

/-- `Reader.Close`. -/
def MR.close (s : MR) : MR × Option RErr :=
  if s.done then (s, none)
  else if s.err ≠ none ∧ s.err ≠ some .eof then (s, s.err)
  else ({ s with finalMode := s.final, err := some .closed, done := true, rdNil := true }, none)

inductive ROp where
  | read (n : Nat)
  | close
  | reset (src : Src)
deriving Repr, DecidableEq, Inhabited

inductive RRes where
  | read (data : List UInt8) (err : Option RErr)
  | close (err : Option RErr)
  | reset
deriving Repr, DecidableEq, Inhabited

def MR.step (s : MR) : ROp → MR × RRes
  | .read n => let r := s.read n; (r.1, .read r.2.1 r.2.2)
  | .close => let r := s.close; (r.1, .close r.2)
  | .reset src => (s.reset src, .reset)

def MR.run : MR → List ROp → MR × List RRes
  | s, [] => (s, [])
  | s, op :: ops =>
    let r := s.step op
    let r2 := MR.run r.1 ops
    (r2.1, r.2 :: r2.2)

/-- `io.ReadAll`-style driving: Read with non-empty buffers until an error. -/
def MR.readAll : Nat → MR → Nat → List UInt8 → MR × List UInt8 × Option RErr
  | 0, s, _, acc => (s, acc, none)
  | fuel+1, s, n, acc =>
    let r := s.read (n + 1)
    match r.2.2 with
    | some e => (r.1, acc ++ r.2.1, some e)
    | none => MR.readAll fuel r.1 n (acc ++ r.2.1)

end Compress.Meta
