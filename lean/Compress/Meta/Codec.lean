/-
Model of /repo/xflate/internal/meta: `computeHuffLen`, `computeCounts`,
`encodeBlock` (writer.go:119-275), `decodeBlock` (reader.go:118-257),
`ReverseSearch` (meta.go:35-44), and the buffering rule of `Writer.Write`.

Bits are a `List Bool` in stream order (DEFLATE packs LSB-first).  The 64-bit
buffer, staging bytes and Try*/slow-path split of `prefix.Reader/Writer` are
not represented here (they are the subject of `Compress.BitIO`); what is kept
is every value written or read, every check and the order of the checks.
Core-only.
-/
import Compress.Bits

namespace Compress.Meta
open Compress

-- constants of meta.go (kept in sync with /repo by Generated/MetaFacts.lean)
def magicVals : Nat := 0x05860004
def magicMask : Nat := 0xfffe3fc6
def maxSyms : Nat := 257
def minHuffLen : Nat := 1
def maxHuffLen : Nat := 7
def minRepLast : Nat := 3
def maxRepLast : Nat := 6
def minRepZero : Nat := 11
def maxRepZero : Nat := 138
def maxRawBytes : Nat := 31
def minEncBytes : Nat := 12
def maxEncBytes : Nat := 64
def ensureRawBytes : Nat := 22

inductive FinalMode where
  | fnil | fmeta | fstream
deriving Repr, DecidableEq, Inhabited

def FinalMode.toNat : FinalMode → Nat
  | .fnil => 0 | .fmeta => 1 | .fstream => 2

inductive DErr where
  | eof            -- io.EOF: no block starts here (empty input)
  | unexpectedEOF  -- input ends inside a block
  | corrupted (why : String)
deriving Repr, DecidableEq, Inhabited

/-- `computeHuffLen`: shortest code length able to hold the data, and whether
    to invert. `0` = too large. -/
def computeHuffLen (zeros ones : Nat) : Nat × Bool :=
  let inv := decide (ones > zeros)
  let z := if inv then ones else zeros
  let o := if inv then zeros else ones
  let rec go (h : Nat) (fuel : Nat) : Nat :=
    match fuel with
    | 0 => 0
    | fuel+1 =>
      if h > maxHuffLen then 0
      else
        let maxOnes := 2 ^ h
        if decide (maxOnes + (z + 8) ≤ maxSyms) && decide (o + 8 ≤ maxOnes) then h
        else go (h + 1) fuel
  let h := go minHuffLen 8
  if h = 0 then (0, false) else (h, inv)

/-- the 257 symbol bits of a block: flags byte, payload (inverted if asked),
    then the zeros and ones that complete the Huffman code. -/
def symbolBits (buf : List UInt8) (huffLen : Nat) (final invert : Bool) : Bits :=
  let flags : Nat := (if final then 2 else 0) + (if invert then 4 else 0) + (buf.length % 32) * 8
  let body := if invert then buf.map (fun b => ~~~ b) else buf
  let dataBits := Bits.ofNat flags 8 ++ Bits.ofBytes body
  let zeros := Bits.countZeros dataBits
  let ones := Bits.countOnes dataBits
  let maxOnes := 2 ^ huffLen
  dataBits ++ List.replicate (maxSyms - maxOnes - zeros) false ++ List.replicate (maxOnes - ones) true

/-- run-length encoding of a bit list: (bit, run length) pairs. -/
def runs : Bits → List (Bool × Nat)
  | [] => []
  | b :: bs =>
    match runs bs with
    | (b', n) :: rs => if b = b' then (b, n + 1) :: rs else (b, 1) :: (b', n) :: rs
    | [] => [(b, 1)]

-- the fixed code of meta.go: symZero 0, symOne 10, symRepLast 110, symRepZero 111
def codeZero : Bits := [false]
def codeOne : Bits := [true, false]
def codeRepLast : Bits := [true, true, false]
def codeRepZero : Bits := [true, true, true]

/-- the `for len(cnts) > 0` loop of `encodeBlock` for one run of `cnt` equal
    bits; `pre` is the previous bit written (the loop's `pre` sign). -/
def encodeRun (bit : Bool) : Nat → Bool → Nat → Bits
  | 0, _, _ => []
  | _, _, 0 => []
  | fuel+1, pre, cnt =>
    if bit = false ∧ cnt ≥ minRepZero then
      let val := min maxRepZero cnt
      codeRepZero ++ Bits.ofNat (val - minRepZero) 7 ++ encodeRun bit fuel bit (cnt - val)
    else if pre = bit ∧ cnt ≥ minRepLast then
      let val := min maxRepLast cnt
      codeRepLast ++ Bits.ofNat (val - minRepLast) 2 ++ encodeRun bit fuel bit (cnt - val)
    else
      (if bit then codeOne else codeZero) ++ encodeRun bit fuel bit (cnt - 1)

def encodeRuns : List (Bool × Nat) → Bool → Bits
  | [], _ => []
  | (bit, cnt) :: rs, pre =>
    encodeRun bit cnt pre cnt ++ encodeRuns rs (if cnt = 0 then pre else bit)

/-- `encodeBlock`: the bits of one meta block for payload `buf` (≤ 31 bytes).
    `none` = "block too large to encode". -/
def encodeBlock (buf : List UInt8) (final : FinalMode) : Option Bits :=
  let dataBits := Bits.ofBytes buf
  let (huffLen, inv) := computeHuffLen (Bits.countZeros dataBits) (Bits.countOnes dataBits)
  if huffLen = 0 then none
  else
    let numHCLen := 4 + (8 - huffLen) * 2
    let syms := symbolBits buf huffLen (final ≠ .fnil) inv
    -- the first symbol bit (always zero) is part of the header
    let body := encodeRuns (runs syms.tail) false
    let hclens := (List.replicate (numHCLen - 1 - 5) (Bits.ofNat 0 3)).flatten ++ Bits.ofNat 2 3 ++ [false]
    let written := 32 + hclens.length + body.length
    let pads := (8 - (written + 1 + huffLen) % 8) % 8
    let magic := magicVals + (if final = .fstream then 1 else 0) + (numHCLen - 4) * 2 ^ 13 + pads * 8
    some (Bits.ofNat magic 32 ++ hclens ++ body ++ List.replicate pads false ++ [false] ++
          Bits.ofNat (2 ^ huffLen - 1) huffLen)

/-- bytes of one encoded block. -/
def encodeBlockBytes (buf : List UInt8) (final : FinalMode) : Option (List UInt8) :=
  (encodeBlock buf final).map Bits.toBytes

/-! ### Writer: which payload bytes go into which block -/

structure WState where
  buf   : List UInt8 := []   -- mw.buf[:mw.bufCnt]
  buf0s : Nat := 0
  buf1s : Nat := 0
  out   : List (List UInt8) := []   -- blocks emitted so far (most recent last)
deriving Repr, Inhabited

/-- `Writer.Write` for one byte: flush the buffered block first unless the byte
    still fits. `none` = encodeBlock failed (cannot happen; see M_write_total). -/
def writeByte (s : WState) (b : UInt8) : Option WState :=
  let bits := Bits.ofByte b
  let zeros := Bits.countZeros bits
  let ones := Bits.countOnes bits
  let keep := decide (s.buf.length < ensureRawBytes) || decide ((computeHuffLen (s.buf0s + zeros) (s.buf1s + ones)).1 > 0)
  if keep then
    some { s with buf := s.buf ++ [b], buf0s := s.buf0s + zeros, buf1s := s.buf1s + ones }
  else
    match encodeBlockBytes s.buf .fnil with
    | none => none
    | some blk => some { buf := [b], buf0s := zeros, buf1s := ones, out := s.out ++ [blk] }

def writeBytes : WState → List UInt8 → Option WState
  | s, [] => some s
  | s, b :: bs => match writeByte s b with
    | none => none
    | some s' => writeBytes s' bs

/-- `Writer.Close`. -/
def closeW (s : WState) (final : FinalMode) : Option (List (List UInt8)) :=
  (encodeBlockBytes s.buf final).map (fun blk => s.out ++ [blk])

/-- the whole encoder: payload written in any number of `Write` calls, then `Close`. -/
def encode (payload : List UInt8) (final : FinalMode) : Option (List (List UInt8)) :=
  match writeBytes {} payload with
  | none => none
  | some s => closeW s final

/-! ### Decoder -/

abbrev Parser (α : Type) := Bits → Except DErr (α × Bits)

def readBits (n : Nat) : Parser Nat := fun bs =>
  let hd := bs.take n
  if hd.length < n then .error .unexpectedEOF
  else .ok (Bits.toNat hd, bs.drop n)

/-- decode one symbol of the fixed code. 0 zero, 1 one, 2 repLast, 3 repZero. -/
def readSym : Parser Nat := fun bs =>
  match bs with
  | false :: r => .ok (0, r)
  | true :: false :: r => .ok (1, r)
  | true :: true :: false :: r => .ok (2, r)
  | true :: true :: true :: r => .ok (3, r)
  | _ => .error .unexpectedEOF

structure SymState where
  idx  : Nat := 0
  bit  : Bool := false
  ones : Nat := 0
  fifo : Nat := 0xff
  out  : Bits := [false]      -- bits written to mr.bw (first symbol is symZero)
deriving Repr

/-- shift `k` bits `v` (LSB = oldest) into the top of the 8-bit fifo. -/
def fifoPush (fifo : Nat) (k : Nat) (v : Nat) : Nat :=
  (fifo / 2 ^ k + (v % 2 ^ k) * 2 ^ (8 - k)) % 256

/-- the symbol loop of `decodeBlock` (`for idx := 0; idx < maxSyms-1;`). -/
def symLoop : Nat → SymState → Parser SymState
  | 0, st => fun bs => .ok (st, bs)
  | fuel+1, st => fun bs =>
    if st.idx ≥ maxSyms - 1 then .ok (st, bs)
    else
      match readSym bs with
      | .error e => .error e
      | .ok (sym, bs1) =>
        let step : Except DErr (Nat × Bool × Nat × Bits) :=   -- (cnt, bit, fifo, rest)
          match sym with
          | 0 => .ok (1, false, fifoPush st.fifo 1 0, bs1)
          | 1 => .ok (1, true, fifoPush st.fifo 2 1, bs1)
          | 2 =>
            match readBits 2 bs1 with
            | .error e => .error e
            | .ok (v, bs2) => .ok (v + minRepLast, st.bit, fifoPush (fifoPush st.fifo 3 3) 2 v, bs2)
          | _ =>
            match readBits 7 bs1 with
            | .error e => .error e
            | .ok (v, bs2) => .ok (v + minRepZero, false, fifoPush (fifoPush st.fifo 3 7) 7 v, bs2)
        match step with
        | .error e => .error e
        | .ok (cnt, bit, fifo, rest) =>
          if fifo = 0 then .error (.corrupted "invalid sequence of meta symbols")
          else
            symLoop fuel { idx := st.idx + cnt, bit := bit, fifo := fifo,
                           ones := st.ones + (if bit then cnt else 0),
                           out := st.out ++ List.replicate cnt bit } rest

structure Block where
  payload  : List UInt8
  final    : FinalMode
  consumed : Nat            -- bits consumed (a multiple of 8 on success)
deriving Repr, DecidableEq

/-- read `k` three-bit HCLEN fields, stopping at the first non-zero one (Go's
    `fail = fail || ReadBits(3) != 0` does not read once `fail` is set); the
    flag is whether one was non-zero. -/
def readEmptyHCLens : Nat → Parser Bool
  | 0 => fun bs => .ok (false, bs)
  | k+1 => fun bs =>
    match readBits 3 bs with
    | .error e => .error e
    | .ok (v, r) => if v ≠ 0 then .ok (true, r) else readEmptyHCLens k r

/-- header of a block after the 32 magic bits: HCLEN fields and the first HLIT
    code.  Returns the accumulated `fail` flag; nothing more is read once it is
    set (short-circuit `||`). -/
def readHeaderRest (numHCLen : Nat) : Parser Bool := fun bs =>
  if numHCLen < 6 then .ok (true, bs)
  else
    match readEmptyHCLens (numHCLen - 1 - 5) bs with
    | .error e => .error e
    | .ok (true, r1) => .ok (true, r1)
    | .ok (false, r1) =>
      match readBits 3 r1 with
      | .error e => .error e
      | .ok (v2, r2) =>
        if v2 ≠ 2 then .ok (true, r2)
        else
          match readBits 1 r2 with
          | .error e => .error e
          | .ok (v3, r3) => .ok (decide (v3 ≠ 0), r3)

/-- the checks of `decodeBlock` between the symbol loop and the footer, and the
    extraction of the payload from the 257 symbol bits. -/
def interpretSyms (st : SymState) (huffLen : Nat) (finalStream : Bool) :
    Except DErr (List UInt8 × FinalMode) :=
  if st.out.length ≠ maxSyms then .error (.corrupted "excessive number of meta symbols")
  else if st.ones ≠ 2 ^ huffLen then .error (.corrupted "degenerate meta prefix tree")
  else if st.out.getD (maxSyms - 1) false = false then .error (.corrupted "missing meta terminator symbol")
  else
    let flags := Bits.toNat (st.out.take 8)
    let finalMeta := (flags / 2) % 2 == 1
    let invert := (flags / 4) % 2 == 1
    let size := (flags / 8) % 32
    let raw := ((Bits.toBytes st.out).drop 1).take size
    let buf := if invert then raw.map (fun b => ~~~ b) else raw
    if finalStream && !finalMeta then .error (.corrupted "invalid combination of final bits")
    else .ok (buf, if finalStream then .fstream else if finalMeta then .fmeta else .fnil)

/-- footer: pads, empty HDIST tree, EOB code, byte alignment (again with Go's
    short-circuit: the first failing test stops the reading). -/
def readFooter (pads huffLen total : Nat) : Parser Unit := fun bs =>
  match readBits pads bs with
  | .error e => .error e
  | .ok (p, r1) =>
    if p > 0 then .error (.corrupted "invalid meta footer")
    else
      match readBits 1 r1 with
      | .error e => .error e
      | .ok (d, r2) =>
        if d > 0 then .error (.corrupted "invalid meta footer")
        else
          match readBits huffLen r2 with
          | .error e => .error e
          | .ok (e, r3) =>
            if e ≠ 2 ^ huffLen - 1 || (total - r3.length) % 8 ≠ 0 then
              .error (.corrupted "invalid meta footer")
            else .ok ((), r3)

/-- `decodeBlock` on the bits of the remaining input. -/
def decodeBlock (bs0 : Bits) : Except DErr Block :=
  if bs0 = [] then .error .eof
  else
    match readBits 32 bs0 with
    | .error e => .error e
    | .ok (magic, bs1) =>
      if magic &&& magicMask ≠ magicVals then .error (.corrupted "invalid meta magic value")
      else
        let finalStream := magic % 2 == 1
        let pads := (magic / 8) % 8
        let numHCLen := 4 + (magic / 2 ^ 13) % 16
        match readHeaderRest numHCLen bs1 with
        | .error e => .error e
        | .ok (fail, bs2) =>
          if fail then .error (.corrupted "invalid meta header")
          else
            let huffLen := 8 - (numHCLen - 4) / 2
            match symLoop maxSyms {} bs2 with
            | .error e => .error e
            | .ok (st, bs3) =>
              match interpretSyms st huffLen finalStream with
              | .error e => .error e
              | .ok (buf, final) =>
                match readFooter pads huffLen bs0.length bs3 with
                | .error e => .error e
                | .ok (_, bs4) =>
                  .ok { payload := buf, final := final, consumed := bs0.length - bs4.length }

structure Decoded where
  payload  : List UInt8
  final    : FinalMode
  blocks   : Nat
  consumed : Nat     -- bytes
deriving Repr, DecidableEq

/-- `Reader.Read` to the end (as `io.Copy(&bw, &mr)` drives it): blocks are
    decoded until one carries a final bit or the input is exhausted.  Works on
    the bit list of the whole input; every accepted block is byte-aligned. -/
def decodeAll : Nat → Bits → Decoded → Except DErr Decoded
  | 0, _, acc => .ok acc
  | fuel+1, bits, acc =>
    match decodeBlock bits with
    | .error .eof => .ok acc                      -- io.EOF from the source ends the stream (FinalMode stays FinalNil)
    | .error e => .error e
    | .ok blk =>
      let acc' : Decoded := { payload := acc.payload ++ blk.payload, final := blk.final,
                              blocks := acc.blocks + 1, consumed := acc.consumed + blk.consumed / 8 }
      if blk.final ≠ .fnil then .ok acc'
      else decodeAll fuel (bits.drop blk.consumed) acc'

def decode (bytes : List UInt8) : Except DErr Decoded :=
  decodeAll (bytes.length + 1) (Bits.ofBytes bytes) { payload := [], final := .fnil, blocks := 0, consumed := 0 }

/-- `ReverseSearch`: last index at which the 4-byte little-endian window
    matches the magic under the mask (the tail uses shorter, zero-extended
    windows exactly as the Go loop does). -/
def reverseSearch (data : List UInt8) : Int :=
  let rec go : List UInt8 → Nat → Nat → Int          -- reversed data, index of head, magic accumulator
    | [], _, _ => -1
    | b :: rest, i, magic =>
      let magic := (magic * 256 + b.toNat) % 2 ^ 32
      if magic &&& magicMask = magicVals then (i : Int) else go rest (i - 1) magic
  go data.reverse (data.length - 1) 0

end Compress.Meta
