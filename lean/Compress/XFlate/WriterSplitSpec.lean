/-
Specification side of C05 "split independence": for a fixed configuration and
fixed flush positions the bytes xflate.Writer emits do not depend on how the
data was split over Write calls.

The DEFLATE compressor is outside the writer model (its behaviour is replayed from
an oracle, one event per call).  To state split independence the compressor has to
be DETERMINISTIC in the right sense, so it is modelled as a function `ZFun`:

* `Z.emit level chunkData flushPoints` = all the bytes the compressor has handed to
  its sink since its last `Reset`, at the moment a `Flush` returns, as a function of
  the level, of all the data written since the `Reset` and of the positions (offsets
  into that data) of the flushes since the `Reset` (the current one, at
  `chunkData.length`, included) — and of NOTHING else: in particular not of the
  boundaries of the `Write` calls.

`oracleOf Z level chunk hasConf ops` is the list of oracle events the writer model
consumes when the compressor behaves as `Z` during the operation sequence `ops`.
ATTRIBUTION.  A `Write` event accepts everything it is offered and emits nothing;
a `Flush` event emits what `Z.emit` says the cumulative output is now, minus what
was emitted since the `Reset` (`List.drop`); a `Reset` emits nothing.  (A real
compressor may push bytes during `Write`; since the writer only ever inspects the
sink after a flush that ends a chunk, moving those bytes to the next `Flush` event
does not change any stream the writer completes.)  With a streaming `Z`
(`ZFun.Streaming`: the output at a flush extends the output at the previous flush)
the total emitted per chunk is exactly `Z.emit` — theorem
`Compress.Props.C05.C05_oracleOf_behaves`.
-/
import Compress.XFlate.WriterSpec

namespace Compress.XFlate
open Compress

/-- a deterministic DEFLATE compressor, seen from xflate.Writer. -/
structure ZFun where
  emit : (level : Int) → (chunkData : List UInt8) → (flushPoints : List Nat) → List UInt8

/-- a compressor never takes bytes back: what it has emitted at one flush is a
    prefix of what it has emitted at the next one. -/
def ZFun.Streaming (Z : ZFun) : Prop :=
  ∀ (level : Int) (d d' : List UInt8) (fps : List Nat), (∀ p ∈ fps, p ≤ d.length) →
    Z.emit level d fps <+: Z.emit level (d ++ d') (fps ++ [(d ++ d').length])

/-- what the compressor remembers since its last Reset. -/
structure ZSt where
  data : List UInt8 := []      -- bytes written
  fps  : List Nat := []        -- positions of the flushes
  out  : Nat := 0              -- number of bytes emitted
deriving Repr, DecidableEq, Inhabited

/-- the event answering `zw.Flush()` in compressor state `z`. -/
def ZFun.flushEv (Z : ZFun) (lvl : Int) (z : ZSt) : ZEv :=
  { kind := .zflush, emitted := (Z.emit lvl z.data (z.fps ++ [z.data.length])).drop z.out }

def ZSt.afterFlush (z : ZSt) (ev : ZEv) : ZSt :=
  { z with fps := z.fps ++ [z.data.length], out := z.out + ev.emitted.length }

/-- the calls of `Flush(FlushFull)`: `zw.Flush()`, `zw.Reset()`. -/
def endChunkEvs (Z : ZFun) (lvl : Int) (z : ZSt) : List ZEv := [Z.flushEv lvl z, { kind := .zreset }]

/-- the compressor calls of one `Writer.Write(data)` (same loop and fuel as
    `writeLoop`): events and the compressor state afterwards. -/
def evsLoop (Z : ZFun) (lvl nchk : Int) : Nat → ZSt → List UInt8 → List ZEv × ZSt
  | 0, z, _ => ([], z)
  | fuel+1, z, data =>
    if data.isEmpty then ([], z)
    else
      let remain := nchk - z.data.length
      if remain ≤ 0 then
        let r := evsLoop Z lvl nchk fuel {} data
        (endChunkEvs Z lvl z ++ r.1, r.2)
      else
        let take := min remain.toNat data.length
        let r := evsLoop Z lvl nchk fuel { z with data := z.data ++ data.take take } (data.drop take)
        ({ kind := .zwrite, n := take } :: r.1, r.2)

/-- the compressor calls of one operation of the writer. -/
def evsOp (Z : ZFun) (lvl nchk : Int) (z : ZSt) : WOp → List ZEv × ZSt
  | .write d => evsLoop Z lvl nchk (2 * d.length + 2) z d
  | .flush m =>
    match m with
    | 0 => ([Z.flushEv lvl z], z.afterFlush (Z.flushEv lvl z))
    | 1 => (endChunkEvs Z lvl z, {})
    | 2 => if z.data.length + z.out > 0 then (endChunkEvs Z lvl z, {}) else ([], z)
    | _ => ([], z)
  | .close => if z.data.length + z.out > 0 then (endChunkEvs Z lvl z, {}) else ([], z)

def evsOps (Z : ZFun) (lvl nchk : Int) : ZSt → List WOp → List ZEv
  | _, [] => []
  | z, op :: ops => (evsOp Z lvl nchk z op).1 ++ evsOps Z lvl nchk (evsOp Z lvl nchk z op).2 ops

/-- the level `NewWriter` hands to the compressor, the chunk size it uses. -/
def effLevel (level : Int) (hasConf : Bool) : Int := if hasConf then level else 0
def effChunk (chunk : Int) (hasConf : Bool) : Int :=
  if hasConf ∧ chunk > 0 then chunk else defaultChunkSize

/-- **the oracle of a compressor behaving as `Z`** for `NewWriter(conf)` followed by
    `ops` (the first event answers the `Reset` inside `NewWriter`). -/
def oracleOf (Z : ZFun) (level chunk : Int) (hasConf : Bool) (ops : List WOp) : List ZEv :=
  { kind := .zreset } :: evsOps Z (effLevel level hasConf) (effChunk chunk hasConf) {} ops

/-! ### what "behaves as `Z`" means on the log of compressor calls -/

/-- the log of compressor calls (`XWState.zlog`) read from a state with `data`
    written, flushes at `fps` and `cum` emitted since the last Reset: every Write
    accepted what the log says, emitted nothing and succeeded; after every Flush the
    bytes emitted since the last Reset are EXACTLY `Z.emit level data flushPoints`. -/
def ZLogOK (Z : ZFun) (lvl : Int) : List (ZEv × List UInt8) → List UInt8 → List Nat → List UInt8 → Prop
  | [], _, _, _ => True
  | (ev, d) :: rest, data, fps, cum =>
    ev.err = none ∧ ev.sinkFailed = false ∧
    match ev.kind with
    | .zreset => d = [] ∧ ev.emitted = [] ∧ ZLogOK Z lvl rest [] [] []
    | .zwrite => ev.n = d.length ∧ ev.emitted = [] ∧ ZLogOK Z lvl rest (data ++ d) fps cum
    | .zflush => d = [] ∧ cum ++ ev.emitted = Z.emit lvl data (fps ++ [data.length]) ∧
        ZLogOK Z lvl rest data (fps ++ [data.length]) (cum ++ ev.emitted)

def ZBehaves (Z : ZFun) (lvl : Int) (zlog : List (ZEv × List UInt8)) : Prop := ZLogOK Z lvl zlog [] [] []

/-! ### normal form of an operation sequence -/

/-- `(data, flushes, closed)` of `ops` up to its first `Close`, the write position
    at the start being `off`: the concatenated data of the Writes, the (absolute
    position in the data, mode) of every explicit Flush, and whether there is a Close.
    Operations after the first Close are not part of the normal form: they do
    nothing (the writer answers them with its sticky error). -/
def normFrom : Nat → List WOp → List UInt8 × List (Nat × Nat) × Bool
  | _, [] => ([], [], false)
  | off, .write d :: ops =>
    let r := normFrom (off + d.length) ops
    (d ++ r.1, r.2.1, r.2.2)
  | off, .flush m :: ops =>
    let r := normFrom off ops
    (r.1, (off, m) :: r.2.1, r.2.2)
  | _, .close :: _ => ([], [], true)

def norm (ops : List WOp) : List UInt8 × List (Nat × Nat) × Bool := normFrom 0 ops

/-! ### a concrete compressor: stored blocks -/

/-- one stored block (non-final) holding `seg` (the length fields are those of
    RFC 1951 when `seg.length < 65536`). -/
def storedBlock (seg : List UInt8) : List UInt8 :=
  let n := seg.length % 65536
  [0x00, UInt8.ofNat (n % 256), UInt8.ofNat (n / 256), UInt8.ofNat ((65535 - n) % 256), UInt8.ofNat ((65535 - n) / 256)] ++ seg

/-- the pieces of `data` between consecutive flush points. -/
def segsOf (data : List UInt8) : Nat → List Nat → List (List UInt8)
  | _, [] => []
  | prev, p :: ps => (data.take p).drop prev :: segsOf data p ps

/-- the compressor that never compresses: every flush emits the pending data as
    one stored block (nothing if there is none) followed by the sync marker
    `00 00 00 ff ff`. -/
def storedZ : ZFun where
  emit := fun _ data fps =>
    ((segsOf data 0 fps).map (fun seg => (if seg.isEmpty then [] else storedBlock seg) ++ [0x00, 0x00, 0x00, 0xff, 0xff])).flatten

end Compress.XFlate
