/-
Model of /repo/xflate/index.go (records, AppendRecord, AppendIndex, Search,
GetRecords, LastRecord).  Offsets are `Int` (Go: int64); int64 overflow is
modelled by the explicit bound `maxI64` exactly where index.go tests for it.
Core-only: this file is linked into the native driver.
-/
namespace Compress.XFlate

/-- record types of index.go (`unknownType = iota …`). -/
def unknownType : Nat := 0
def deflateType : Nat := 1
def indexType   : Nat := 2
def footerType  : Nat := 3

structure Record where
  comp : Int
  raw  : Int
  typ  : Nat
deriving Repr, DecidableEq, Inhabited, BEq

def Record.zero : Record := ⟨0, 0, 0⟩

def maxI64 : Int := 9223372036854775807

/-- `index.LastRecord`. -/
def lastRecord (recs : List Record) : Record :=
  match recs.getLast? with
  | some r => r
  | none => Record.zero

/-- Go int64 addition as index.go sees it: the sum wraps, and AppendRecord
    detects the wrap by `sum < old`.  For non-negative operands the wrapped sum
    is negative exactly when the true sum exceeds maxI64. -/
def addWraps (a b : Int) : Bool := a + b > maxI64

/-- `index.AppendRecord`: `none` is Go's `false`. -/
def appendRecord (recs : List Record) (compSize rawSize : Int) (typ : Nat) :
    Option (List Record) :=
  if rawSize < 0 || compSize < 0 then none
  else
    let last := lastRecord recs
    if addWraps last.comp compSize || addWraps last.raw rawSize then none
    else some (recs ++ [⟨last.comp + compSize, last.raw + rawSize, typ⟩])

/-- `index.AppendIndex` (atomic: on failure the receiver is unchanged). -/
def appendIndex (recs other : List Record) : Option (List Record) :=
  let rec go (acc : List Record) (pre : Record) : List Record → Option (List Record)
    | [] => some acc
    | r :: rs =>
      match appendRecord acc (r.comp - pre.comp) (r.raw - pre.raw) r.typ with
      | none => none
      | some acc' => go acc' r rs
  go recs Record.zero other

/-- `index.GetRecords`. -/
def getRecords (recs : List Record) (i : Nat) : Record × Record :=
  let i := if i > recs.length then recs.length else i
  let prev : Record := if i ≥ 1 then (recs[i-1]?).getD Record.zero else Record.zero
  match recs[i]? with
  | some c => (prev, c)
  | none => (prev, { prev with typ := unknownType })

/-- The loop of `index.Search` with the Go variables `imin`, `imax` (as Int,
    because `imax` starts at `len-1` and may become `-1`).  `fuel` bounds the
    iterations; `search` supplies `recs.length + 1`, which is enough because the
    interval shrinks on every iteration that does not find the record. -/
def searchLoop (recs : Array Record) (offset : Int) : Nat → Int → Int → Int
  | 0, _, _ => -1
  | fuel+1, imin, imax =>
    if imax < imin then -1
    else
      let imid := (imin + imax) / 2
      let m := imid.toNat
      let gteCurr := offset ≥ (recs[m]?.getD Record.zero).raw
      let ltNext := decide (m + 1 ≥ recs.size) || decide (offset < (recs[m+1]?.getD Record.zero).raw)
      if gteCurr && ltNext then imid
      else if gteCurr then searchLoop recs offset fuel (imid + 1) imax
      else searchLoop recs offset fuel imin (imid - 1)

/-- `index.Search`. -/
def search (recs : List Record) (offset : Int) : Nat :=
  (searchLoop recs.toArray offset (recs.length + 1) 0 (recs.length - 1 : Int) + 1).toNat

/-- Specification of `Search` on sorted records: the number of records whose
    raw offset is `≤ offset` (so the result indexes the first record that lies
    strictly beyond `offset`). -/
def searchSpec (recs : List Record) (offset : Int) : Nat :=
  (recs.filter (fun r => r.raw ≤ offset)).length

def rawSorted : List Record → Bool
  | [] => true
  | [_] => true
  | a :: b :: rs => a.raw ≤ b.raw && rawSorted (b :: rs)

end Compress.XFlate
