/-
Specification side of C07: what it means for a layout to stand for a
plaintext, the abstract ReadSeeker (`bytes.Reader` over the plaintext, with
reads allowed to be short, as io.Reader permits), and the simulation invariant
between the two.  Definitions only; proofs are in `Compress.Proofs.XFlateReader`.
-/
import Compress.XFlate.Reader

namespace Compress.XFlate

/-- bytes `[a, b)` of `plain` (empty when the range is empty or outside). -/
def slice (plain : List UInt8) (a b : Int) : List UInt8 :=
  (plain.drop a.toNat).take (b - a).toNat

/-- A layout that an `xflate.Writer` could have produced for `plain`: records
    are sorted, start at non-negative offsets, end at `plain.length`, carry real
    types, and the inflater on every segment delivers exactly that segment's
    plaintext, stops with a clean EOF having consumed the chunk plus the
    five-byte end block (the footer is a final block, so the end block is not
    consumed there), and deflate chunks end in the sync marker. -/
structure WellFormed (L : Layout) (plain : List UInt8) : Prop where
  nonempty : L.recs ≠ []
  sorted   : rawSorted L.recs = true
  rawNonneg : ∀ r ∈ L.recs, 0 ≤ r.raw
  typed    : ∀ r ∈ L.recs, r.typ ≠ unknownType
  endEq    : L.endRaw = (plain.length : Int)
  segOut   : ∀ j, j ≤ L.recs.length →
      (L.seg j).out = slice plain (getRecords L.recs j).1.raw (getRecords L.recs j).2.raw
  segFin   : ∀ j, j ≤ L.recs.length → (L.seg j).fin = none
  segIn    : ∀ j, j ≤ L.recs.length →
      (L.seg j).inOff = ((getRecords L.recs j).2.comp - (getRecords L.recs j).1.comp)
        + (if (getRecords L.recs j).2.typ = footerType then 0 else 5)
  segSync  : ∀ j, j ≤ L.recs.length → (getRecords L.recs j).2.typ = deflateType → (L.seg j).sync = 0x0000ffff

/-- `bytes.Reader.Seek` on a plaintext of length `len`, from position `pos`:
    `none` = rejected (invalid whence or negative target), position unchanged. -/
def specSeek (len pos off : Int) (whence : Nat) : Option Int :=
  let t : Option Int :=
    match whence with
    | 0 => some off
    | 1 => some (pos + off)
    | 2 => some (len + off)
    | _ => none
  match t with
  | some p => if p < 0 then none else some p
  | none => none

/-- What a `Read(buf)` with `len(buf) = n` at position `pos` may return, per the
    property: the original bytes at `pos`; nothing and no error for an empty
    buffer (or the pending EOF at the end); at least one byte when there is
    one; `io.EOF` only at the end, possibly together with the last bytes. -/
def ReadOK (plain : List UInt8) (pos : Int) (n : Nat) (data : List UInt8) (err : Option Err) : Prop :=
  data = slice plain pos (pos + data.length) ∧
  data.length ≤ n ∧
  (err = none ∨ err = some .eof) ∧
  (n = 0 → data = [] ∧ err = none) ∧
  (n > 0 → pos < plain.length → 1 ≤ data.length ∧ (err = some .eof → pos + data.length = plain.length)) ∧
  (n > 0 → plain.length ≤ pos → data = [] ∧ err = some .eof)

/-- Simulation invariant between a Reader state and the abstract position
    `s.offset`. -/
structure Inv (L : Layout) (s : RState) : Prop where
  segLe    : s.seg ≤ L.recs.length
  riEq     : s.ri = min (s.seg + 1) L.recs.length
  chkEq    : s.chk = ⟨(getRecords L.recs s.seg).2.comp - (getRecords L.recs s.seg).1.comp,
                      (getRecords L.recs s.seg).2.raw - (getRecords L.recs s.seg).1.raw,
                      (getRecords L.recs s.seg).2.typ⟩
  discNonneg : 0 ≤ s.discard
  within   : (s.zout : Int) + s.discard ≤ s.chk.rsize
  offNonneg : 0 ≤ s.offset
  posEq    : min s.offset L.endRaw = (getRecords L.recs s.seg).1.raw + s.zout + s.discard
  errOK    : s.err = none ∨ (s.err = some .eof ∧ s.seg = L.recs.length)
  -- a position past the end always sits on the "unknown" tail segment
  beyond   : L.endRaw < s.offset → s.seg = L.recs.length

inductive ROp where
  | seek (off : Int) (whence : Nat)
  | read (n : Nat) (adv : Adv)
deriving Repr, DecidableEq

/-- Output of one operation, impl side. `none` = the call never returned. -/
inductive ROut where
  | seek (pos : Int) (err : Option Err)
  | read (data : List UInt8) (err : Option Err)
  | hang
deriving Repr, DecidableEq

/-- Run a list of operations on the Reader model. -/
def runOps (v : Variant) (L : Layout) : RState → List ROp → List ROut
  | _, [] => []
  | s, .seek off wh :: ops =>
    let (s', p, e) := seek v L s off wh
    .seek p e :: runOps v L s' ops
  | s, .read n adv :: ops =>
    match read v L s n adv (readFuel L) with
    | none => [.hang]
    | some (s', data, e) => .read data e :: runOps v L s' ops

/-- The trace is one a ReadSeeker over `plain`, currently at `pos`, could have
    produced (reads may be short; a rejected seek leaves the position alone;
    once EOF has been reported, reads keep reporting it until the next
    successful seek). -/
def TraceOK (plain : List UInt8) : Int → List ROp → List ROut → Prop
  | _, [], [] => True
  | pos, .seek off wh :: ops, .seek p e :: outs =>
    match specSeek plain.length pos off wh with
    | some p' => e = none ∧ p = p' ∧ TraceOK plain p' ops outs
    | none => e = some .invalid ∧ TraceOK plain pos ops outs
  | pos, .read n _ :: ops, .read data e :: outs =>
    (ReadOK plain pos n data e ∨ (plain.length ≤ pos ∧ data = [] ∧ e = some .eof)) ∧
      TraceOK plain (pos + data.length) ops outs
  | _, _, _ => False

end Compress.XFlate
