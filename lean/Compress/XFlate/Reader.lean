/-
Model of /repo/xflate/reader.go: `Reader.Read`, `Reader.Seek`, `Reader.Close`
over an already decoded index (`Reader.Reset`'s parsing part is modelled in
`Compress.XFlate.Open`).

What is abstract here
* The DEFLATE inflater (`flateReader` = Go's standard library compress/flate
  behind `chunkReader`) is a parameter: for every segment `j` of the stream
  (the bytes between record `j-1` and record `j`, followed by `endBlock`) the
  layout says what the inflater delivers (`out`), how it stops (`fin`), how
  many input bytes it has consumed when it stops (`inOff`) and the last four
  bytes `chunkReader` saw (`sync`).  How many bytes a single `zr.Read` hands
  out, and whether the final `io.EOF` comes together with the last bytes, is
  chosen by an adversary (`Adv`).
* The underlying `io.ReadSeeker` never fails (C07 is about exact sources;
  failing sources are C09).

`Variant` selects, at the two defect sites D1/D2 (DESIGN.md §2.3), between the
code as it was at the pinned commit (`.orig`) and the repaired code (`.fixed`).
The checks run `.fixed` against /repo and keep `.orig` only for the regression
witnesses in `Compress/Regress`.
Core-only: linked into the native driver.
-/
import Compress.XFlate.Index

namespace Compress.XFlate

inductive Err where
  | eof | unexpectedEOF | corrupted | closed | invalid | internal
  | other (tag : Nat)
deriving Repr, DecidableEq, Inhabited

inductive Variant where
  | orig | fixed
deriving Repr, DecidableEq

structure Chunk where
  csize : Int
  rsize : Int
  typ   : Nat
deriving Repr, DecidableEq, Inhabited

/-- What the inflater does on one segment (chunk bytes ++ endBlock). -/
structure SegInfo where
  out   : List UInt8        -- bytes delivered before it stops
  fin   : Option Err        -- `none`: clean io.EOF; `some e`: the error it stops with
  inOff : Int               -- flateReader.InputOffset when it stops
  sync  : Nat               -- chunkReader.sync when it stops
deriving Repr, Inhabited, DecidableEq

structure Layout where
  recs : List Record
  segs : List SegInfo       -- `segs[j]` for `j ≤ recs.length` (the last one is the "unknown" segment past the footer)
deriving Repr, Inhabited

def Layout.seg (L : Layout) (j : Nat) : SegInfo :=
  (L.segs[j]?).getD { out := [], fin := none, inOff := 5, sync := 0 }

def Layout.endRaw (L : Layout) : Int := (lastRecord L.recs).raw

structure RState where
  ri      : Nat            -- xr.ri
  offset  : Int            -- xr.offset
  discard : Int            -- xr.discard
  chk     : Chunk          -- xr.chk
  seg     : Nat            -- which segment xr.zr / xr.cr are positioned on
  zout    : Nat            -- xr.zr.OutputOffset
  err     : Option Err     -- xr.err
  fetched : Int := 0       -- ghost (C17): compressed bytes requested from the ReadSeeker since open
deriving Repr, Inhabited, DecidableEq

/-- adversary: per `zr.Read` call, how many bytes (clamped to what is legal)
    and whether a final EOF is reported together with the last bytes. -/
abbrev Adv := List (Nat × Bool)

def endBlockLen : Int := 5

/-- One `zr.Read(buf)` with `len(buf) = n`. Returns (count, error?, eof?) where
    `eof? = true` means io.EOF (possibly with data). -/
def zrRead (si : SegInfo) (zout n : Nat) (choice : Nat × Bool) : Nat × Option (Option Err) :=
  let rem := si.out.length - zout
  if rem = 0 then (0, some si.fin)          -- the end: `some none` = io.EOF, `some (some e)` = error e
  else if n = 0 then (0, none)
  else
    let k := max 1 (min choice.1 (min n rem))
    if k = rem && choice.2 then (k, some si.fin) else (k, none)

/-- `Reader.Seek`. Returns the new state, the returned position and error. -/
def seek (v : Variant) (L : Layout) (s : RState) (off : Int) (whence : Nat) :
    RState × Int × Option Err :=
  if s.err ≠ none ∧ s.err ≠ some .eof then (s, 0, s.err)
  else
    let endp := L.endRaw
    let posE : Except Unit Int :=
      match whence with
      | 0 => .ok off
      | 1 => .ok (s.offset + off)
      | 2 => .ok (endp + off)
      | _ => .error ()
    match posE with
    | .error _ => (s, 0, some .invalid)
    | .ok pos =>
      if pos < 0 then (s, 0, some .invalid)
      else
        let discard := pos - s.offset
        let remain : Int :=
          match v with
          | .orig  => s.chk.rsize - s.zout
          | .fixed => s.chk.rsize - s.zout - s.discard
        if discard > 0 ∧ remain > 0 ∧ discard < remain then
          let nd := match v with
            | .orig  => discard
            | .fixed => s.discard + discard
          ({ s with offset := pos, discard := nd }, pos, none)
        else
          let pc := getRecords L.recs s.ri
          -- D7: the shortcut to the subsequent record used the closed test `pos <= curr.RawOffset`
          let inNext : Bool := match v with
            | .orig  => decide (pc.1.raw ≤ pos ∧ pos ≤ pc.2.raw)
            | .fixed => decide (pc.1.raw ≤ pos ∧ (pos < pc.2.raw ∨ pos = pc.1.raw))
          let ri := if ¬ inNext then search L.recs pos else s.ri
          let pc := getRecords L.recs ri
          let segIdx := min ri L.recs.length
          let ri' := min (ri + 1) L.recs.length
          let chk : Chunk := ⟨pc.2.comp - pc.1.comp, pc.2.raw - pc.1.raw, pc.2.typ⟩
          let disc := if pos > endp then endp - pc.1.raw else pos - pc.1.raw
          ({ s with ri := ri', chk := chk, offset := pos, discard := disc,
                    seg := segIdx, zout := 0, err := none }, pos, none)

/-- the discard step at the top of `Reader.Read` (`io.Copy(ioutil.Discard, LimitedReader{zr, discard})`). -/
def discardStep (L : Layout) (s : RState) : RState :=
  if s.discard > 0 then
    let si := L.seg s.seg
    let rem : Int := (si.out.length - s.zout : Nat)
    if s.discard ≤ rem then
      { s with zout := s.zout + s.discard.toNat, discard := 0 }
    else
      match si.fin with
      | none   => { s with zout := si.out.length, err := some .corrupted }   -- n != xr.discard
      | some e => { s with zout := si.out.length, err := some e }
  else s

/-- bytes the inflater hands out: `cnt` bytes of the current segment from `zout`. -/
def segBytes (L : Layout) (s : RState) (cnt : Nat) : List UInt8 :=
  ((L.seg s.seg).out.drop s.zout).take cnt

/-- The `for cnt == 0 && xr.err == nil` loop of `Reader.Read`.  `fuel` bounds
    the iterations; `none` = fuel exhausted (the Go loop would still be
    spinning). -/
def readLoop (v : Variant) (L : Layout) (n : Nat) :
    Nat → RState → Adv → Option (RState × List UInt8)
  | 0, _, _ => none
  | fuel+1, s, adv =>
    let choice := adv.head?.getD (n, true)
    let si := L.seg s.seg
    -- a choice is consumed only when the inflater had something to choose
    let adv' := if si.out.length - s.zout = 0 ∨ n = 0 then adv else adv.tail
    let (cnt, e) := zrRead si s.zout n choice
    let data := segBytes L s cnt
    let s1 := { s with zout := s.zout + cnt, offset := s.offset + cnt }
    match e with
    | none =>
      if cnt = 0 then readLoop v L n fuel s1 adv' else some (s1, data)
    | some (some err) => some ({ s1 with err := some err }, data)
    | some none =>
      -- io.EOF from the inflater: verify the chunk, move to the next one
      if s1.chk.typ = deflateType ∧ si.sync ≠ 0x0000ffff then
        some ({ s1 with err := some .corrupted }, data)
      else
        let csize := if s1.chk.typ ≠ footerType then s1.chk.csize + endBlockLen else s1.chk.csize
        let s2 := { s1 with chk := { s1.chk with csize := csize } }
        if csize ≠ si.inOff ∨ s2.chk.rsize ≠ (s2.zout : Int) then
          some ({ s2 with err := some .corrupted }, data)
        else
          let (s3, _, e3) := seek v L s2 s2.offset 0
          match e3 with
          | some err => some ({ s3 with err := some err }, data)
          | none =>
            let s4 := if s3.chk.typ = unknownType then { s3 with err := some .eof } else s3
            if cnt = 0 ∧ s4.err = none then readLoop v L n fuel s4 adv' else some (s4, data)

/-- `Reader.Read(buf)` with `len(buf) = n`. `none` = does not return within `fuel` loop iterations. -/
def read (v : Variant) (L : Layout) (s : RState) (n : Nat) (adv : Adv) (fuel : Nat) :
    Option (RState × List UInt8 × Option Err) :=
  if s.err ≠ none then some (s, [], s.err)
  else if v = .fixed ∧ n = 0 then some (s, [], none)
  else
    let s1 := discardStep L s
    if s1.err ≠ none then some (s1, [], s1.err)
    else
      match readLoop v L n fuel s1 adv with
      | none => none
      | some (s2, data) => some (s2, data, s2.err)

/-- `Reader.Close`. -/
def close (s : RState) : RState × Option Err :=
  if s.err = some .closed then (s, none)
  else if s.err ≠ none ∧ s.err ≠ some .eof then (s, s.err)
  else ({ s with err := some .closed }, none)

/-- State right after the index has been decoded in `Reset`, before the initial `Seek(0, SeekStart)`. -/
def preOpen : RState :=
  { ri := 0, offset := 0, discard := 0, chk := ⟨0, 0, 0⟩, seg := 0, zout := 0, err := none }

/-- State returned by a successful `NewReader`. -/
def opened (v : Variant) (L : Layout) : RState := (seek v L preOpen 0 0).1

/-- default loop fuel: one iteration per segment plus slack. -/
def readFuel (L : Layout) : Nat := L.recs.length + 3

end Compress.XFlate
