/-
C17: which segments of the compressed stream `xflate.Reader` opens.

`Reader.Seek` (slow path) positions the underlying ReadSeeker at the start of
one segment and limits the inflater's input to that segment's compressed size
(`chunkReader` = `io.LimitedReader{N: csize}`), so the bytes fetched for an
operation are bounded by the sum of the compressed sizes of the segments it
opens. `seekC`/`readLoopC`/`readC` are copies of `seek`/`readLoop`/`read` of
`Compress.XFlate.Reader` that additionally return the list of segments opened;
`Compress.Proofs.XFlateCost` proves that they project onto the originals, so the
cost statements are statements about the validated model.
Core-only.
-/
import Compress.XFlate.ReaderSpec

namespace Compress.XFlate

/-- `seek` plus the segments it opens ([] on the in-chunk fast path and on rejected seeks). -/
def seekC (v : Variant) (L : Layout) (s : RState) (off : Int) (whence : Nat) :
    (RState × Int × Option Err) × List Nat :=
  let r := seek v L s off whence
  -- the slow path is the only one that resets the inflater: it sets zout := 0 and err := none
  -- and records the segment; it is taken iff the seek succeeded and was not the fast path
  let fast : Bool :=
    match v with
    | .orig => decide (r.2.1 - s.offset > 0 ∧ s.chk.rsize - s.zout > 0 ∧ r.2.1 - s.offset < s.chk.rsize - s.zout)
    | .fixed => decide (r.2.1 - s.offset > 0 ∧ s.chk.rsize - s.zout - s.discard > 0 ∧
                        r.2.1 - s.offset < s.chk.rsize - s.zout - s.discard)
  if r.2.2 ≠ none then (r, [])
  else if fast then (r, [])
  else (r, [r.1.seg])

/-- `readLoop` plus the segments opened by the automatic advance to the next chunk. -/
def readLoopC (v : Variant) (L : Layout) (n : Nat) :
    Nat → RState → Adv → List Nat → Option ((RState × List UInt8) × List Nat)
  | 0, _, _, _ => none
  | fuel+1, s, adv, opens =>
    let choice := adv.head?.getD (n, true)
    let si := L.seg s.seg
    let adv' := if si.out.length - s.zout = 0 ∨ n = 0 then adv else adv.tail
    let (cnt, e) := zrRead si s.zout n choice
    let data := segBytes L s cnt
    let s1 := { s with zout := s.zout + cnt, offset := s.offset + cnt }
    match e with
    | none =>
      if cnt = 0 then readLoopC v L n fuel s1 adv' opens else some ((s1, data), opens)
    | some (some err) => some (({ s1 with err := some err }, data), opens)
    | some none =>
      if s1.chk.typ = deflateType ∧ si.sync ≠ 0x0000ffff then
        some (({ s1 with err := some .corrupted }, data), opens)
      else
        let csize := if s1.chk.typ ≠ footerType then s1.chk.csize + endBlockLen else s1.chk.csize
        let s2 := { s1 with chk := { s1.chk with csize := csize } }
        if csize ≠ si.inOff ∨ s2.chk.rsize ≠ (s2.zout : Int) then
          some (({ s2 with err := some .corrupted }, data), opens)
        else
          let ((s3, _, e3), o3) := seekC v L s2 s2.offset 0
          match e3 with
          | some err => some (({ s3 with err := some err }, data), opens ++ o3)
          | none =>
            let s4 := if s3.chk.typ = unknownType then { s3 with err := some .eof } else s3
            if cnt = 0 ∧ s4.err = none then readLoopC v L n fuel s4 adv' (opens ++ o3)
            else some ((s4, data), opens ++ o3)

/-- `read` plus the segments it opens. -/
def readC (v : Variant) (L : Layout) (s : RState) (n : Nat) (adv : Adv) (fuel : Nat) :
    Option ((RState × List UInt8 × Option Err) × List Nat) :=
  if s.err ≠ none then some ((s, [], s.err), [])
  else if v = .fixed ∧ n = 0 then some ((s, [], none), [])
  else
    let s1 := discardStep L s
    if s1.err ≠ none then some ((s1, [], s1.err), [])
    else
      match readLoopC v L n fuel s1 adv [] with
      | none => none
      | some ((s2, data), opens) => some ((s2, data, s2.err), opens)

/-- compressed size of segment `j`. -/
def segCsize (L : Layout) (j : Nat) : Int :=
  (getRecords L.recs j).2.comp - (getRecords L.recs j).1.comp

/-- raw interval of segment `j`: `[lo, hi]`. -/
def segLo (L : Layout) (j : Nat) : Int := (getRecords L.recs j).1.raw
def segHi (L : Layout) (j : Nat) : Int := (getRecords L.recs j).2.raw

/-- bytes fetched are bounded by the compressed sizes of the segments opened. -/
def fetchBound (L : Layout) (opens : List Nat) : Int := (opens.map (segCsize L)).foldl (· + ·) 0

end Compress.XFlate
