/-
Specification side of the xflate.Writer properties (C05, C06, C12, C13, C18):
operation sequences, the contract assumed of the DEFLATE compressor, and the
inflater's view of a segment.
-/
import Compress.XFlate.Writer
import Compress.XFlate.ReaderSpec
import Compress.Flate.Spec

namespace Compress.XFlate
open Compress

inductive WOp where
  | write (d : List UInt8)
  | flush (mode : Nat)
  | close
deriving Repr, Inhabited

inductive WOut where
  | write (n : Nat) (err : Option Err)
  | flush (err : Option Err)
  | close (err : Option Err)
deriving Repr, DecidableEq, Inhabited

def stepW (crc : List UInt8 → Nat) (s : XWState) : WOp → XWState × WOut
  | .write d => let (s', n, e) := write crc s d; (s', .write n e)
  | .flush m => let (s', e) := flush crc s m; (s', .flush e)
  | .close => let (s', e) := closeW crc s; (s', .close e)

def runW (crc : List UInt8 → Nat) : XWState → List WOp → XWState × List WOut
  | s, [] => (s, [])
  | s, op :: ops =>
    let (s1, o) := stepW crc s op
    let (s2, os) := runW crc s1 ops
    (s2, o :: os)

/-- the error an operation returned. -/
def WOut.err : WOut → Option Err
  | .write _ e => e | .flush e => e | .close e => e

/-- reset-delimited groups of the compressor log: (bytes emitted, data accepted). -/
def chunksOf : List (ZEv × List UInt8) → List UInt8 → List UInt8 → List (List UInt8 × List UInt8)
  | [], bytes, data => if bytes.isEmpty ∧ data.isEmpty then [] else [(bytes, data)]
  | (ev, d) :: rest, bytes, data =>
    if ev.kind = .zreset then
      (if bytes.isEmpty ∧ data.isEmpty then [] else [(bytes, data)]) ++ chunksOf rest [] []
    else chunksOf rest (bytes ++ ev.emitted) (data ++ d)

/-- everything the compressor accepted, in order. -/
def dataOf (zlog : List (ZEv × List UInt8)) : List UInt8 := (zlog.map (·.2)).flatten

/-- **ZSpec** — the contract assumed of Go's compress/flate.Writer for one chunk
    (Reset; Write…; Flush): in any DEFLATE context its output is a run of
    complete non-final blocks, ending on a byte boundary, that appends exactly
    the chunk's data to the output. `k` is the number of blocks.
    -- STATEMENT ADJUSTED: the contexts are restricted to those in which the chunk
    -- lies inside the stream (`total` is the bit length of the whole stream) and
    -- starts on a byte boundary.  `Flate.decodeBlocks` aligns stored blocks with
    -- `padTo8 (total - remaining)`, so the unrestricted form (all `total`) was
    -- false for every real chunk (each ends with the stored sync marker
    -- `00 00 ff ff`) and made C06 vacuous.  Non-vacuity witness:
    -- `Compress.Proofs.XFlateStream.zchunkOK_syncMarker`. -/
def ZChunkOK (bytes data : List UInt8) : Prop :=
  ∃ k, 1 ≤ k ∧ k ≤ 8 * bytes.length ∧
    ∀ (total fuel : Nat) (out : Array UInt8) (rest : Bits),
      rest.length + 8 * bytes.length ≤ total → (total - rest.length) % 8 = 0 →
      Flate.decodeBlocks total (fuel + k) out (Bits.ofBytes bytes ++ rest) =
        Flate.decodeBlocks total fuel (out ++ data.toArray) rest

/-- the compressor reports an error whenever the sink refused its bytes. -/
def ZErrSurfaced (oracle : List ZEv) : Prop := ∀ ev ∈ oracle, ev.sinkFailed = true → ev.err ≠ none

/-- a valid configuration (what `NewWriter` accepts). -/
def ValidConfig (level chunk : Int) (hasConf : Bool) : Prop :=
  hasConf = false ∨ (0 ≤ chunk ∧ -2 ≤ level ∧ level ≤ 9)

def endBlockBytes : List UInt8 := [0x01, 0x00, 0x00, 0xff, 0xff]

/-- what an RFC 1951 inflater behind xflate's chunkReader does on a segment
    (the segment's bytes followed by the end block). -/
def specSegInfo (seg : List UInt8) : SegInfo :=
  let r := Flate.decode (seg ++ endBlockBytes)
  { out := r.out.toList,
    fin := match r.verdict with | .ok _ => none | .corrupt => some .corrupted | .unexpectedEOF => some .unexpectedEOF,
    inOff := match r.verdict with | .ok n => (n / 8 : Nat) | _ => 0,
    sync := le32 ((seg.reverse.take 4)) }

end Compress.XFlate
