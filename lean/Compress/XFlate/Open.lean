/-
Model of the index parsing half of /repo/xflate/reader.go `Reader.Reset`:
`decodeFooter` (l.430-483), `decodeIndexes` (l.296-347), `decodeIndex`
(l.354-424), over the whole stream as a byte list (the underlying
`io.ReadSeeker` is exact).  The meta decoder is `Compress.Meta.decode`.

`hash/crc32` is a parameter (`crc`): theorems hold for every function; the
driver instantiates it with the bitwise IEEE CRC-32 below.
Core-only.
-/
import Compress.XFlate.Reader
import Compress.Meta.Codec

namespace Compress.XFlate
open Compress

/-- `binary.Uvarint`: value and Go's `n` (`>0` bytes read, `0` buffer too
    small, `<0` overflow). -/
def uvarintAux : List UInt8 → Nat → Nat → Nat → Nat × Int
  | [], _, _, _ => (0, 0)
  | b :: bs, i, x, s =>
    if i = 10 then (0, -((i : Int) + 1))
    else if b.toNat < 0x80 then
      if i = 9 ∧ b.toNat > 1 then (0, -((i : Int) + 1))
      else (x + b.toNat * 2 ^ s, (i : Int) + 1)
    else uvarintAux bs (i + 1) (x + (b.toNat % 128) * 2 ^ s) (s + 7)

def uvarint (bs : List UInt8) : Nat × Int := uvarintAux bs 0 0 0

/-- `binary.PutUvarint`. -/
def putUvarint : Nat → Nat → List UInt8
  | 0, _ => []
  | fuel+1, x => if x < 0x80 then [UInt8.ofNat x] else UInt8.ofNat (x % 128 + 128) :: putUvarint fuel (x / 128)

def putUvarint64 (x : Nat) : List UInt8 := putUvarint 10 x

/-- bitwise CRC-32 (IEEE, reflected), as `hash/crc32.ChecksumIEEE`. -/
def crc32Byte (crc : Nat) (b : UInt8) : Nat :=
  let rec go (k : Nat) (c : Nat) : Nat :=
    match k with
    | 0 => c
    | k+1 => go k (if c % 2 = 1 then (c / 2) ^^^ 0xEDB88320 else c / 2)
  go 8 (crc ^^^ b.toNat)

def crc32IEEE (bs : List UInt8) : Nat :=
  (bs.foldl crc32Byte 0xFFFFFFFF) ^^^ 0xFFFFFFFF

def le32 (bs : List UInt8) : Nat :=
  match bs with
  | [a, b, c, d] => a.toNat + b.toNat * 256 + c.toNat * 65536 + d.toNat * 16777216
  | _ => 0

def metaErr : Meta.DErr → Err
  | .eof => .eof
  | .unexpectedEOF => .unexpectedEOF
  | .corrupted _ => .corrupted

def maxEncBytes : Nat := 64
def xfMagic : List UInt8 := [0x58, 0x46, 0x00]

/-- int64(x) for a uint64 `x`. -/
def toI64 (x : Nat) : Int := if x ≥ 2 ^ 63 then (x : Int) - 2 ^ 64 else x

/-- `decodeFooter`: (backSize, footSize). The read offset ends at the start of
    the footer, i.e. `stream.length - footSize`. -/
def decodeFooter (stream : List UInt8) : Except Err (Int × Int) :=
  let n := stream.length
  let tailLen := min n maxEncBytes
  let br := stream.drop (n - tailLen)
  let idx := Meta.reverseSearch br
  if idx < 0 then .error .corrupted
  else
    let br' := br.drop idx.toNat
    match Meta.decode br' with
    | .error e => .error (metaErr e)
    | .ok d =>
      if br'.length - d.consumed ≠ 0 ∨ d.blocks ≠ 1 then .error .corrupted
      else if d.final ≠ .fstream then .error .corrupted
      else
        let raw := d.payload
        if raw.length < 3 ∨ raw.take 3 ≠ xfMagic then .error .corrupted
        else
          let (x, cnt) := uvarint (raw.drop 3)
          if cnt ≤ 0 then .error .corrupted
          else if (raw.drop (3 + cnt.toNat)).length > 0 then .error .corrupted
          else .ok (toI64 x, (d.consumed : Int))

structure VLIState where
  buf : List UInt8
  err : Bool := false

/-- `readVLI` closure of decodeIndex. -/
def readVLI (st : VLIState) : Int × VLIState :=
  let (x, n) := uvarint st.buf
  if n ≤ 0 ∨ x > 9223372036854775807 then (0, { st with err := true })
  else ((x : Int), { st with buf := st.buf.drop n.toNat })

/-- the record loop `for i := 0; i < numRecs; i++ { chunks = append(chunks, {readVLI(), readVLI(), 0}) }`.
    `.orig` runs `numRecs` iterations whatever happens (D3); `.fixed` stops at
    the first VLI error.  Returns the chunks (only those read without error —
    the error-padded tail of `.orig` is never looked at because the length/CRC
    test fails) and the ghost count of appended elements. -/
def readChunks (v : Variant) : Nat → VLIState → List (Int × Int) → Nat → (List (Int × Int) × VLIState × Nat)
  | 0, st, acc, alloc => (acc.reverse, st, alloc)
  | k+1, st, acc, alloc =>
    if st.err then
      match v with
      | .orig => (((0, 0) :: acc).reverse, st, alloc + (k + 1))      -- keeps appending zero chunks
      | .fixed => (acc.reverse, st, alloc)
    else
      let (c, st1) := readVLI st
      let (r, st2) := readVLI st1
      readChunks v k st2 ((c, r) :: acc) (alloc + 1)

structure IndexResult where
  recs     : List Record     -- this index's own records (absolute within the index)
  backSize : Int
  alloc    : Nat              -- ghost: elements appended to xr.chunks
deriving Repr

/-- `decodeIndex` for the index starting at byte `pos` with `IndexSize = size`. -/
def decodeIndex (v : Variant) (crc : List UInt8 → Nat) (stream : List UInt8) (pos size : Int) :
    Except Err IndexResult :=
  let br := (stream.drop pos.toNat).take size.toNat
  match Meta.decode br with
  | .error e => .error (metaErr e)
  | .ok d =>
    let bw := d.payload
    let c := if bw.length > 4 then crc (bw.take (bw.length - 4)) else 0
    let st0 : VLIState := { buf := bw }
    let (backSize, st1) := readVLI st0
    let (numRecs, st2) := readVLI st1
    let (totalComp, st3) := readVLI st2
    let (totalRaw, st4) := readVLI st3
    if st4.err then .error .corrupted
    else
      let (chunks, st5, alloc) := readChunks v numRecs.toNat st4 [] 0
      if st5.err ∧ v = .fixed then .error .corrupted
      else if st5.buf.length ≠ 4 ∨ le32 st5.buf ≠ c then .error .corrupted
      else if d.final ≠ .fmeta then .error .corrupted
      else if (d.consumed : Int) ≠ size then .error .corrupted
      else
        let rec build : List (Int × Int) → List Record → Except Err (List Record)
          | [], recs => .ok recs
          | (cs, rs) :: rest, recs =>
            if cs ≤ 4 then .error .corrupted
            else match appendRecord recs cs rs deflateType with
              | none => .error .corrupted
              | some recs' => build rest recs'
        match build chunks [] with
        | .error e => .error e
        | .ok recs =>
          let last := lastRecord recs
          if last.comp ≠ totalComp ∨ last.raw ≠ totalRaw then .error .corrupted
          else .ok { recs := recs, backSize := backSize, alloc := alloc }

structure OpenResult where
  recs  : List Record
  alloc : Nat            -- ghost: total elements appended to xr.chunks over all indexes
  idxBytes : Int         -- ghost (C17): bytes of index blocks read
deriving Repr

/-- the backward walk of `decodeIndexes`; collects (IndexSize, records) of each
    index from last to first. -/
def walkIndexes (v : Variant) (crc : List UInt8 → Nat) (stream : List UInt8) :
    Nat → Int → Int → Int → List (Int × List Record) → Nat → Except Err (List (Int × List Record) × Nat)
  | 0, _, _, _, _, _ => .error .corrupted
  | fuel+1, pos, backSize, compSize, acc, alloc =>
    let newPos := pos - (backSize + compSize)
    if newPos < 0 ∨ newPos > pos then .error .corrupted
    else if backSize = 0 then
      if newPos ≠ 0 then .error .corrupted else .ok (acc, alloc)
    else
      match decodeIndex v crc stream newPos backSize with
      | .error e => .error e
      | .ok ir =>
        walkIndexes v crc stream fuel newPos ir.backSize (lastRecord ir.recs).comp
          ((backSize, ir.recs) :: acc) (alloc + ir.alloc)

/-- "Compact all indexes into one": `acc` is already ordered first index first. -/
def mergeIndexes : List (Int × List Record) → List Record → Except Err (List Record)
  | [], recs => .ok recs
  | (isz, irecs) :: rest, recs =>
    match appendIndex recs irecs with
    | none => .error .corrupted
    | some r1 =>
      match appendRecord r1 isz 0 indexType with
      | none => .error .corrupted
      | some r2 => mergeIndexes rest r2

/-- `Reader.Reset` up to (not including) the initial `Seek(0)`. -/
def openIndex (v : Variant) (crc : List UInt8 → Nat) (stream : List UInt8) : Except Err OpenResult :=
  match decodeFooter stream with
  | .error e => .error e
  | .ok (backSize, footSize) =>
    let pos : Int := (stream.length : Int) - footSize
    match walkIndexes v crc stream (stream.length + 2) pos backSize 0 [] 0 with
    | .error e => .error e
    | .ok (idxs, alloc) =>
      match mergeIndexes idxs [] with
      | .error e => .error e
      | .ok recs =>
        match appendRecord recs footSize 0 footerType with
        | none => .error .corrupted
        | some recs' =>
          .ok { recs := recs', alloc := alloc, idxBytes := (idxs.map (·.1)).foldl (· + ·) 0 }

end Compress.XFlate
