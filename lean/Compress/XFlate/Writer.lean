/-
Model of /repo/xflate/writer.go: `NewWriter`, `Reset`, `Write`, `Flush`
(three modes, with their mutual recursion), `Close`, `encodeIndex`,
`encodeFooter`, over
* an abstract DEFLATE compressor: every call the Writer makes to its
  `flateWriter` (`Write`, `Flush`, `Reset`) is answered by an oracle event saying
  how many bytes were accepted, which bytes reached the sink during the call and
  which error came back (in the correspondence run these events are recorded from
  Go's compress/flate through the `verif` trace hook; in theorems they are
  universally quantified under the contract `ZSpec`);
* the real meta encoder model `Compress.Meta`;
* a fault-injecting sink.
Core-only.
-/
import Compress.XFlate.Open

namespace Compress.XFlate
open Compress

/-! ### sink -/

inductive FaultMode where | hard | short
deriving Repr, DecidableEq, Inhabited

structure Sink where
  got     : List UInt8 := []       -- bytes the underlying writer accepted
  budget  : Option Nat := none     -- bytes until the next failure (`none`: never fails)
  mode    : FaultMode := .hard
  forever : Bool := true           -- does it keep failing afterwards
  tag     : Nat := 7               -- identity of the injected error
  failed  : Bool := false          -- ghost: has this sink ever refused bytes
deriving Repr, Inhabited

/-- one `Write(b)` on the sink: (new sink, count accepted, error). -/
def Sink.write (s : Sink) (b : List UInt8) : Sink × Nat × Option Err :=
  match s.budget with
  | none => ({ s with got := s.got ++ b }, b.length, none)
  | some k =>
    if b.length ≤ k then ({ s with got := s.got ++ b, budget := some (k - b.length) }, b.length, none)
    else
      let acc := match s.mode with | .hard => 0 | .short => k
      let nb := if s.forever then some 0 else none
      ({ s with got := s.got ++ b.take acc, budget := nb, failed := true }, acc, some (.other s.tag))

/-- bookkeeping for bytes the compressor pushed into the sink during one call. -/
def Sink.absorb (s : Sink) (emitted : List UInt8) (failed : Bool) : Sink :=
  let b := match s.budget with
    | none => none
    | some k => if failed then (if s.forever then some 0 else none) else some (k - emitted.length)
  { s with got := s.got ++ emitted, budget := b, failed := s.failed || failed }

/-! ### compressor oracle -/

inductive ZKind where | zwrite | zflush | zreset
deriving Repr, DecidableEq, Inhabited

structure ZEv where
  kind    : ZKind
  n       : Nat := 0                 -- bytes accepted (zwrite)
  emitted : List UInt8 := []         -- bytes that reached the sink during the call
  err     : Option Err := none
  sinkFailed : Bool := false
deriving Repr, Inhabited

/-! ### writer state -/

def defaultChunkSize : Int := 262144
def defaultIndexSize : Int := 4096

structure XWState where
  inOff    : Int := 0
  outOff   : Int := 0
  zwIn     : Int := 0
  zwOut    : Int := 0
  recs     : List Record := []
  backSize : Int := 0          -- xw.idx.BackSize
  nidx     : Int
  nchk     : Int
  err      : Option Err := none
  sink     : Sink := {}
  oracle   : List ZEv := []
  bad      : Bool := false     -- the oracle did not match the calls the model makes
  zlog     : List (ZEv × List UInt8) := []   -- ghost: every compressor call with the data it was given/accepted
  allRecs  : List Record := []   -- ghost: the merged index a reader should reconstruct (absolute offsets)
deriving Repr, Inhabited

/-- take the next oracle event, checking its kind. -/
def popEv (s : XWState) (k : ZKind) : ZEv × XWState :=
  match s.oracle with
  | ev :: rest => if ev.kind = k then (ev, { s with oracle := rest }) else (ev, { s with oracle := rest, bad := true })
  | [] => ({ kind := k }, { s with bad := true })

def zReset (s : XWState) : XWState :=
  let (ev, s) := popEv s .zreset
  { s with zwIn := 0, zwOut := 0, zlog := s.zlog ++ [(ev, [])] }

/-- `xw.Flush(FlushSync)` body. -/
def flushSync (s : XWState) : XWState :=
  let (ev, s) := popEv s .zflush
  { s with zwOut := s.zwOut + ev.emitted.length, outOff := s.outOff + ev.emitted.length,
           sink := s.sink.absorb ev.emitted ev.sinkFailed, err := ev.err, zlog := s.zlog ++ [(ev, [])] }

/-- write a list of meta blocks to the sink, one `Write` per block, stopping at
    the first failure: (sink, bytes accepted, error). -/
def emitBlocks : Sink → List (List UInt8) → Nat → Sink × Nat × Option Err
  | sk, [], acc => (sk, acc, none)
  | sk, b :: bs, acc =>
    let (sk', cnt, e) := sk.write b
    match e with
    | some err => (sk', acc + cnt, some err)
    | none => emitBlocks sk' bs (acc + cnt)

def indexPayload (crc : List UInt8 → Nat) (recs : List Record) (backSize : Int) : List UInt8 :=
  let last := lastRecord recs
  let rec deltas : List Record → Record → List UInt8
    | [], _ => []
    | r :: rs, pre => putUvarint64 (r.comp - pre.comp).toNat ++ putUvarint64 (r.raw - pre.raw).toNat ++ deltas rs r
  let body := putUvarint64 backSize.toNat ++ putUvarint64 recs.length ++ putUvarint64 last.comp.toNat ++
              putUvarint64 last.raw.toNat ++ deltas recs Record.zero
  let c := crc body
  body ++ [UInt8.ofNat (c % 256), UInt8.ofNat (c / 256 % 256), UInt8.ofNat (c / 65536 % 256), UInt8.ofNat (c / 16777216 % 256)]

/-- `encodeIndex` followed by the bookkeeping of `Flush(FlushIndex)`. -/
def encodeIndexStep (crc : List UInt8 → Nat) (s : XWState) : XWState :=
  match Meta.encode (indexPayload crc s.recs s.backSize) .fmeta with
  | none => { s with err := some .invalid, recs := [], backSize := 0 }
  | some blocks =>
    let (sk, acc, e) := emitBlocks s.sink blocks 0
    match e with
    | some err => { s with sink := sk, outOff := s.outOff + acc, err := some err, recs := [], backSize := 0 }
    | none => { s with sink := sk, outOff := s.outOff + acc, err := none, recs := [], backSize := acc,
                       allRecs := (appendRecord s.allRecs acc 0 indexType).getD s.allRecs }

/-- `Flush(FlushFull)` without the error guard. -/
def flushFull (crc : List UInt8 → Nat) (s : XWState) : XWState :=
  let s := flushSync s
  if s.err ≠ none then s
  else
    let recs := (appendRecord s.recs s.zwOut s.zwIn deflateType).getD s.recs
    let s := zReset { s with recs := recs, allRecs := (appendRecord s.allRecs s.zwOut s.zwIn deflateType).getD s.allRecs }
    if (s.recs.length : Int) = s.nidx then encodeIndexStep crc s else s

/-- `Flush(FlushIndex)` without the error guard. -/
def flushIndex (crc : List UInt8 → Nat) (s : XWState) : XWState :=
  if s.zwIn + s.zwOut > 0 then
    let s := flushFull crc s
    if s.err ≠ none then s else encodeIndexStep crc s
  else encodeIndexStep crc s

/-- `Writer.Flush(mode)`: new state and returned error. -/
def flush (crc : List UInt8 → Nat) (s : XWState) (mode : Nat) : XWState × Option Err :=
  if s.err ≠ none then (s, s.err)
  else
    match mode with
    | 0 => let s := flushSync s; (s, s.err)
    | 1 => let s := flushFull crc s; (s, s.err)
    | 2 => let s := flushIndex crc s; (s, s.err)
    | _ => (s, some .invalid)

/-- the loop of `Writer.Write`. -/
def writeLoop (crc : List UInt8 → Nat) : Nat → XWState → List UInt8 → Nat → XWState × Nat
  | 0, s, _, cnt => (s, cnt)
  | fuel+1, s, data, cnt =>
    if data.isEmpty ∨ s.err ≠ none then (s, cnt)
    else
      let remain := s.nchk - s.zwIn
      if remain ≤ 0 then
        writeLoop crc fuel (flushFull crc s) data cnt
      else
        let take := min remain.toNat data.length
        let (ev, s) := popEv s .zwrite
        let s := if ev.n > take then { s with bad := true } else s
        let s := { s with zwIn := s.zwIn + ev.n, zwOut := s.zwOut + ev.emitted.length,
                          outOff := s.outOff + ev.emitted.length,
                          sink := s.sink.absorb ev.emitted ev.sinkFailed, err := ev.err,
                          zlog := s.zlog ++ [(ev, data.take ev.n)] }
        writeLoop crc fuel s (data.drop ev.n) (cnt + ev.n)

/-- `Writer.Write(buf)`: new state, count, error. -/
def write (crc : List UInt8 → Nat) (s : XWState) (data : List UInt8) : XWState × Nat × Option Err :=
  if s.err ≠ none then (s, 0, s.err)
  else
    let (s, cnt) := writeLoop crc (2 * data.length + 2) s data 0
    ({ s with inOff := s.inOff + cnt }, cnt, s.err)

def footerPayload (backSize : Int) : List UInt8 := xfMagic ++ putUvarint64 backSize.toNat

/-- `Writer.Close`. -/
def closeW (crc : List UInt8 → Nat) (s : XWState) : XWState × Option Err :=
  if s.err = some .closed then (s, none)
  else if s.err ≠ none then (s, s.err)
  else
    let s := if s.zwOut + s.zwIn > 0 ∨ s.recs.length > 0 then flushIndex crc s else s
    if s.err ≠ none then (s, s.err)
    else
      match Meta.encode (footerPayload s.backSize) .fstream with
      | none => ({ s with err := some .invalid }, some .invalid)
      | some blocks =>
        let (sk, acc, e) := emitBlocks s.sink blocks 0
        let s := { s with sink := sk, outOff := s.outOff + acc }
        match e with
        | some err => ({ s with err := some err }, some err)
        | none =>
          if blocks.length ≠ 1 then ({ s with err := some .internal }, some .internal)
          else ({ s with err := some .closed,
                         allRecs := (appendRecord s.allRecs acc 0 footerType).getD s.allRecs }, none)

/-- `Writer.Reset(wr)` (also the tail of `NewWriter`). -/
def resetW (s : XWState) (sink : Sink) : XWState :=
  let s' : XWState := { nidx := if s.nidx = 0 then defaultIndexSize else s.nidx,
                        nchk := if s.nchk = 0 then defaultChunkSize else s.nchk,
                        sink := sink, oracle := s.oracle, bad := s.bad, zlog := s.zlog }
  zReset s'

/-- `NewWriter(wr, conf)`; `none` = refused (invalid configuration). Level
    validity is decided by the compressor (`-2..9` in xflate's numbering). -/
def newWriter (level chunk index : Int) (hasConf : Bool) (sink : Sink) (oracle : List ZEv) : Option XWState :=
  if hasConf ∧ chunk < 0 then none
  else if hasConf ∧ (level < -2 ∨ level > 9) then none
  else
    let nchk := if hasConf ∧ chunk > 0 then chunk else 0
    let nidx := if hasConf ∧ index < 0 then -1 else if hasConf ∧ index > 0 then index else 0
    some (resetW { nidx := nidx, nchk := nchk, oracle := oracle } sink)

end Compress.XFlate
