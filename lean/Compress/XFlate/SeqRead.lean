/-
C15: sequential reading of an opened stream to its end, on the Reader model.
Core-only.
-/
import Compress.XFlate.Reader

namespace Compress.XFlate

/-- `Read` with `n`-byte buffers until an error is returned (`io.EOF` included): everything
    delivered and that final error; `none` as error = still going when `fuel` ran out.
    `advs` gives the inflater's behaviour for each call (missing entries: hand out as much
    as fits, report EOF together with the last bytes). -/
def seqRead (L : Layout) (n : Nat) : Nat → RState → List Adv → List UInt8 → List UInt8 × Option Err
  | 0, _, _, acc => (acc, none)
  | fuel+1, s, advs, acc =>
    match read .fixed L s n (advs.headD []) (readFuel L) with
    | none => (acc, none)
    | some (s', d, e) =>
      if e ≠ none then (acc ++ d, e) else seqRead L n fuel s' advs.tail (acc ++ d)

end Compress.XFlate
