/-
Model of /repo/internal/prefix/reader.go `Reader`: the 64-bit bit buffer
(`bufBits`, `numBits`), both source modes (`compress.ByteReader` — one
`ReadByte` per eight bits — and `compress.BufferedReader` — `Buffered`/`Peek`/
`Discard`, which also covers the bytes.Buffer / bytes.Reader / strings.Reader
wrappers of wrap.go and the bufio.Reader fallback), `PullBits`, `Flush`,
`ReadBits`, `TryReadBits`, `ReadPads`, raw `Read`, `BitsRead`.

`bufBits` is a natural number below `2^64` and keeps exactly the bits the Go
variable keeps, including look-ahead bits above `numBits` that a wide refill
leaves behind.  The source is the list of bytes not yet consumed plus an
optional fault position; `Buffered()` answers are adversarial (clamped to what
the contract allows).
Core-only.
-/
import Compress.Prefix.Tables

namespace Compress.Prefix

inductive RErr where
  | eof | unexpectedEOF | invalid | other (tag : Nat) | panic
deriving Repr, DecidableEq, Inhabited

/-- the underlying reader: bytes not yet consumed, an optional injected fault
    after `failAfter` more bytes, and the adversary's `Buffered()` answers. -/
structure Source where
  data      : List UInt8
  failAfter : Option Nat := none
  failTag   : Nat := 7
  bufAdv    : List Nat := []      -- successive Buffered() answers (clamped); empty = everything available
  peeked    : Nat := 0            -- bytes handed out by Peek and not yet discarded (they are buffered for sure)
  buffered? : Bool := true        -- Peek-capable (true) or ReadByte-only (false)
deriving Repr, Inhabited

/-- bytes that can be delivered before the fault. -/
def Source.avail (s : Source) : Nat :=
  match s.failAfter with
  | none => s.data.length
  | some k => min k s.data.length

/-- the error a short operation reports. -/
def Source.shortErr (s : Source) : RErr :=
  match s.failAfter with
  | some k => if k < s.data.length then .other s.failTag else .eof
  | none => .eof

/-- consuming bytes is a state change: the next `Buffered()` answer comes up. -/
def Source.consume (s : Source) (n : Nat) : Source :=
  { s with data := s.data.drop n, failAfter := s.failAfter.map (· - n), peeked := s.peeked - n,
           bufAdv := s.bufAdv.tail }

/-- `Peek(n)` (also a state change for the `Buffered()` adversary). -/
def Source.peek (s : Source) (n : Nat) : Source × List UInt8 × Option RErr :=
  if n ≤ s.avail then ({ s with peeked := max s.peeked n, bufAdv := s.bufAdv.tail }, s.data.take n, none)
  else ({ s with peeked := max s.peeked s.avail, bufAdv := s.bufAdv.tail }, s.data.take s.avail, some s.shortErr)

/-- `Discard(n)`. -/
def Source.discard (s : Source) (n : Nat) : Source × Nat × Option RErr :=
  if n ≤ s.avail then (s.consume n, n, none) else (s.consume s.avail, s.avail, some s.shortErr)

/-- `ReadByte()`. -/
def Source.readByte (s : Source) : Source × Option UInt8 × Option RErr :=
  match s.data with
  | b :: _ => if s.avail ≥ 1 then (s.consume 1, some b, none) else (s, none, some s.shortErr)
  | [] => (s, none, some s.shortErr)

/-- `Read(buf)` with `len(buf) = n`, delivering as much as it can. -/
def Source.read (s : Source) (n : Nat) : Source × List UInt8 × Option RErr :=
  let k := min n s.avail
  if k = 0 ∧ n > 0 then (s, [], some s.shortErr) else (s.consume k, s.data.take k, none)

/-- `Buffered()`: the adversary's current answer, at least what was peeked and
    not discarded, at most what can be delivered; stable until the next
    Peek/Discard/Read. -/
def Source.bufferedAns (s : Source) : Source × Nat :=
  match s.bufAdv with
  | [] => (s, s.avail)
  | a :: _ => (s, min s.avail (max s.peeked a))

structure BR where
  offset      : Int := 0
  bufBits     : Nat := 0          -- < 2^64
  numBits     : Nat := 0
  bigEndian   : Bool := false
  bufPeek     : List UInt8 := []
  discardBits : Int := 0
  fedBits     : Nat := 0
  src         : Source
deriving Repr, Inhabited

def two64 : Nat := 18446744073709551616

def revByte (b : UInt8) : UInt8 := UInt8.ofNat (Bits.toNat (Bits.ofNat b.toNat 8).reverse)

/-- little-endian value of up to 8 bytes (each bit-reversed when big-endian). -/
def le64 (big : Bool) : List UInt8 → Nat
  | [] => 0
  | b :: bs => (if big then revByte b else b).toNat + 256 * le64 big bs

/-- `Reader.Init`. -/
def BR.init (src : Source) (big : Bool) : BR := { src := src, bigEndian := big }

/-- `Reader.BitsRead`. -/
def BR.bitsRead (r : BR) : Int :=
  if r.src.buffered? then 8 * r.offset + (r.discardBits + ((r.fedBits : Int) - r.numBits))
  else 8 * r.offset - r.numBits

/-- `Reader.Flush`: (state, error). -/
def BR.flush (r : BR) : BR × Option RErr :=
  if !r.src.buffered? then (r, none)
  else
    let db := r.discardBits + ((r.fedBits : Int) - r.numBits)
    let nd := ((db + 7) / 8).toNat
    let (src', got, e) := r.src.discard nd
    ({ r with discardBits := db - 8 * got, fedBits := r.numBits, offset := r.offset + got,
              bufPeek := [], src := src' }, e)

/-- the refill loop of `PullBits` for Peek-capable sources. -/
def BR.pullLoop (nb : Nat) : Nat → BR → BR × Option RErr
  | 0, r => (r, some .panic)
  | fuel+1, r =>
    -- if len(pr.bufPeek) == 0 { … }
    let step1 : Except (BR × Option RErr) BR :=
      if r.bufPeek.isEmpty then
        let r := { r with fedBits := r.numBits }
        let (r, e) := r.flush
        match e with
        | some err => .error (r, some err)
        | none =>
          let cnt0 := (nb + 7) / 8
          let (src1, b) := r.src.bufferedAns
          let cntPeek := max cnt0 b
          let (src', pk, perr) := src1.peek cntPeek
          let r := { r with src := src' }
          if pk.length < r.numBits / 8 then .error (r, some .panic)     -- slice bounds out of range
          else
            let bp := pk.drop (r.numBits / 8)
            if bp.isEmpty then
              if r.numBits ≥ nb then .error ({ r with bufPeek := [], fedBits := r.numBits }, none)
              else .error ({ r with bufPeek := [] },
                     some (match perr with | some .eof => .unexpectedEOF | some e => e | none => .unexpectedEOF))
            else .ok { r with bufPeek := bp }
      else .ok r
    match step1 with
    | .error res => res
    | .ok r =>
      let n := (64 - r.numBits) / 8
      if r.bufPeek.length ≥ 8 then
        let u := le64 r.bigEndian (r.bufPeek.take 8)
        let r := { r with bufBits := (r.bufBits ||| (u * 2 ^ r.numBits)) % two64,
                          numBits := r.numBits + n * 8, bufPeek := r.bufPeek.drop n }
        ({ r with fedBits := r.numBits }, none)
      else
        let n := min n r.bufPeek.length
        let u := le64 r.bigEndian (r.bufPeek.take n)
        let r := { r with bufBits := (r.bufBits ||| (u * 2 ^ r.numBits)) % two64,
                          numBits := r.numBits + n * 8, bufPeek := r.bufPeek.drop n }
        if r.numBits > 56 then ({ r with fedBits := r.numBits }, none)
        else BR.pullLoop nb fuel r

/-- the `ReadByte` loop of `PullBits` for byte sources. -/
def BR.pullBytes (nb : Nat) : Nat → BR → BR × Option RErr
  | 0, r => (r, none)
  | fuel+1, r =>
    if r.numBits ≥ nb then (r, none)
    else
      let (src', ob, e) := r.src.readByte
      match ob with
      | none => (r, some (match e with | some .eof => .unexpectedEOF | some err => err | none => .unexpectedEOF))
      | some c =>
        let c := if r.bigEndian then revByte c else c
        let nbits := (r.bufBits ||| (c.toNat * 2 ^ r.numBits)) % two64
        let r' : BR := { r with src := src', bufBits := nbits, numBits := r.numBits + 8, offset := r.offset + 1 }
        BR.pullBytes nb fuel r'

/-- `Reader.PullBits(nb)`. -/
def BR.pullBits (r : BR) (nb : Nat) : BR × Option RErr :=
  if r.src.buffered? then
    let r := { r with discardBits := r.discardBits + ((r.fedBits : Int) - r.numBits) }
    -- Go: discardBits += fedBits - numBits; the loop re-derives fedBits before use
    BR.pullLoop nb 12 { r with fedBits := r.numBits }
  else BR.pullBytes nb 9 r

/-- `ReadBits(nb)`: (state, value) or the error `errors.Panic` carries. -/
def BR.readBits (r : BR) (nb : Nat) : BR × Except RErr Nat :=
  let (r, e) := r.pullBits nb
  match e with
  | some err => (r, .error err)
  | none =>
    let v := r.bufBits % 2 ^ nb
    ({ r with bufBits := r.bufBits / 2 ^ nb, numBits := r.numBits - nb }, .ok v)

/-- `TryReadBits(nb)`. -/
def BR.tryReadBits (r : BR) (nb : Nat) : BR × Option Nat :=
  if r.numBits < nb then (r, none)
  else ({ r with bufBits := r.bufBits / 2 ^ nb, numBits := r.numBits - nb }, some (r.bufBits % 2 ^ nb))

/-- `ReadPads()`. -/
def BR.readPads (r : BR) : BR × Nat :=
  let nb := r.numBits % 8
  ({ r with bufBits := r.bufBits / 2 ^ nb, numBits := r.numBits - nb }, r.bufBits % 2 ^ nb)

/-- the drain loop of the raw `Read`. -/
def BR.drain : Nat → BR → List UInt8 → BR × List UInt8
  | 0, r, acc => (r, acc.reverse)
  | n+1, r, acc =>
    if r.numBits = 0 then (r, acc.reverse)
    else
      let b := UInt8.ofNat (r.bufBits % 256)
      let b := if r.bigEndian then revByte b else b
      BR.drain n { r with bufBits := r.bufBits / 256, numBits := r.numBits - 8 } (b :: acc)

/-- raw `Read(buf)` with `len(buf) = n`: (state, bytes, error).  `fixed = false`
    is the code as it was at the pinned commit (defect D5: look-ahead bits
    survive the direct read). -/
def BR.read (r : BR) (n : Nat) (fixed : Bool := true) : BR × List UInt8 × Option RErr :=
  if r.numBits > 0 then
    if r.numBits % 8 ≠ 0 then (r, [], some .invalid)
    else
      let (r', bs) := BR.drain n r []
      (r', bs, none)
  else
    let (r, e) := r.flush
    match e with
    | some err => (r, [], some err)
    | none =>
      let r := if fixed then { r with bufBits := 0 } else r
      let (src', bs, e2) := r.src.read n
      ({ r with src := src', offset := r.offset + bs.length }, bs, e2)

/-- `ReadSymbol(pd)`. -/
def BR.readSymbol (r : BR) (d : Decoder) : BR × Except RErr Nat :=
  if d.chunks.size = 0 then (r, .error .invalid)
  else
    let rec go (fuel nb : Nat) (r : BR) : BR × Except RErr Nat :=
      match fuel with
      | 0 => (r, .error .panic)
      | fuel+1 =>
        let (r, e) := r.pullBits nb
        match e with
        | some err => (r, .error err)
        | none =>
          let (sym, len) := d.lookup (r.bufBits % 2 ^ 32)
          if len ≤ r.numBits then
            ({ r with bufBits := r.bufBits / 2 ^ len, numBits := r.numBits - len }, .ok sym)
          else go fuel len r
    go 40 d.minBits r

end Compress.Prefix
