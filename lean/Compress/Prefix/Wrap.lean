/-
Concrete model of /repo/internal/prefix/wrap.go: the wrappers that give
*bytes.Reader, *strings.Reader and *bytes.Buffer the compress.BufferedReader
interface (`Buffered`/`Peek`/`Discard`), over models of the standard-library
readers themselves, and of `prefix.Reader` running on such a wrapper
(`Reader.Init` on a used Reader included).

`BitReader.lean` replaces the wrappers by the abstract `Source` (a contract);
here the look-ahead cache of `bytesReader`/`stringReader` is real state:
`pos` (the read offset the cache was last synchronised with), the backing array
`arr [512]byte` and the cache `buf` as a window `arr[bOff, bOff+bLen)`.
`Proofs/Wrap*.lean` prove that the wrappers honour the contract for every
interleaving of wrapper calls, direct reads and external Seeks, and that they
simulate `Source`.  Core-only.
-/
import Compress.Prefix.BitReader

namespace Compress.Prefix.Wrap
open Compress Compress.Prefix

/-- the errors of the standard-library readers and of the wrappers. -/
inductive WErr where
  | eof            -- io.EOF
  | shortBuffer    -- io.ErrShortBuffer (Peek of more than len(arr))
  | negOffset      -- bytes.Reader.ReadAt: negative offset
  | negPosition    -- bytes.Reader.Seek: negative position
  | badWhence      -- bytes.Reader.Seek: invalid whence
deriving Repr, DecidableEq, Inhabited

/-- what the harness's error classifier prints: io.EOF is `eof`, every other
    plain error `other0`. -/
def WErr.toR : WErr → RErr
  | .eof => .eof
  | _ => .other 0

/-! ### bytes.Reader / strings.Reader -/

/-- `bytes.Reader` (`strings.Reader` has the same fields and methods): the
    immutable contents `s` and the read index `i` (an int64 that `Seek` keeps
    non-negative; it may exceed `len(s)`). -/
structure Rd where
  s : List UInt8
  i : Nat := 0
deriving Repr, Inhabited, DecidableEq

/-- `Len()`: bytes of the unread portion. -/
def Rd.len (r : Rd) : Nat := r.s.length - r.i

/-- the unread portion `s[i:]`. -/
def Rd.rest (r : Rd) : List UInt8 := r.s.drop r.i

/-- `Read(b)` with `len(b) = n`. -/
def Rd.read (r : Rd) (n : Nat) : Rd × List UInt8 × Option WErr :=
  if r.i ≥ r.s.length then (r, [], some .eof)
  else
    let bs := (r.s.drop r.i).take n
    ({ r with i := r.i + bs.length }, bs, none)

/-- `ReadByte()`. -/
def Rd.readByte (r : Rd) : Rd × Option UInt8 × Option WErr :=
  match r.s.drop r.i with
  | [] => (r, none, some .eof)
  | b :: _ => ({ r with i := r.i + 1 }, some b, none)

/-- `ReadAt(b, off)` with `len(b) = n`: does not move `i`. -/
def Rd.readAt (r : Rd) (n : Nat) (off : Int) : List UInt8 × Option WErr :=
  if off < 0 then ([], some .negOffset)
  else if off.toNat ≥ r.s.length then ([], some .eof)
  else
    let bs := (r.s.drop off.toNat).take n
    (bs, if bs.length < n then some .eof else none)

/-- `Seek(offset, whence)`: (state, new absolute position, error). -/
def Rd.seek (r : Rd) (offset : Int) (whence : Nat) : Rd × Int × Option WErr :=
  let abs : Option Int :=
    match whence with
    | 0 => some offset                        -- io.SeekStart
    | 1 => some ((r.i : Int) + offset)        -- io.SeekCurrent
    | 2 => some ((r.s.length : Int) + offset) -- io.SeekEnd
    | _ => none
  match abs with
  | none => (r, 0, some .badWhence)
  | some a => if a < 0 then (r, 0, some .negPosition) else ({ r with i := a.toNat }, a, none)

/-- `Reset(b)`: re-target the same object. -/
def Rd.reset (_ : Rd) (b : List UInt8) : Rd := { s := b, i := 0 }

/-! ### bytesReader / stringReader -/

def arrLen : Nat := 512

/-- `bytesReader` (and `stringReader`, which is the same code over
    `*strings.Reader`).  The embedded reader is shared with the owner in Go (a
    pointer); here it is held by value and the owner's calls on it are operations
    on this state (`CRd.ext*`). -/
structure CRd where
  rd   : Rd
  pos  : Int := 0
  arr  : List UInt8 := List.replicate arrLen 0
  bOff : Nat := 0       -- `buf = arr[bOff : bOff+bLen]`; a nil `buf` is `bLen = 0`
  bLen : Nat := 0
deriving Repr, Inhabited, DecidableEq

/-- the cache `r.buf`. -/
def CRd.buf (w : CRd) : List UInt8 := (w.arr.drop w.bOff).take w.bLen

/-- `update()`: reslice the cache to the embedded reader's current offset, or
    drop it when the offset left the cached window. -/
def CRd.update (w : CRd) : CRd :=
  let (rd, p, _) := w.rd.seek 0 1            -- pos, _ := r.Seek(0, io.SeekCurrent)
  let off := p - w.pos
  if 0 ≤ off ∧ off < (w.bLen : Int) then
    { w with rd := rd, bOff := w.bOff + off.toNat, bLen := w.bLen - off.toNat, pos := p }
  else { w with rd := rd, bOff := 0, bLen := 0, pos := p }

/-- `Buffered()`. -/
def CRd.buffered (w : CRd) : CRd × Nat :=
  let w := w.update
  (w, if w.rd.len > w.bLen then w.bLen else w.rd.len)

/-- `Peek(n)`. -/
def CRd.peek (w : CRd) (n : Nat) : CRd × List UInt8 × Option WErr :=
  if n > arrLen then (w, [], some .shortBuffer)
  else
    let w := w.update
    if w.bLen ≥ n then (w, w.buf.take n, none)
    else
      -- cnt, err := r.ReadAt(r.arr[:], r.pos); r.buf = r.arr[:cnt]
      let (bs, err) := w.rd.readAt arrLen w.pos
      let w := { w with arr := bs ++ w.arr.drop bs.length, bOff := 0, bLen := bs.length }
      if bs.length < n then (w, w.arr.take bs.length, err) else (w, w.arr.take n, none)

/-- `Discard(n)` (`n ≥ 0`: prefix.Reader never passes a negative count). -/
def CRd.discard (w : CRd) (n : Nat) : CRd × Nat × Option WErr :=
  let (n, err) := if n > w.rd.len then (w.rd.len, some WErr.eof) else (n, none)
  let (rd, _, _) := w.rd.seek n 1
  ({ w with rd := rd }, n, err)

/-- direct `Read` on the embedded reader (promoted method; `prefix.Reader.Read`
    calls `pr.rd.Read`, which is the *bytes.Reader itself). -/
def CRd.read (w : CRd) (n : Nat) : CRd × List UInt8 × Option WErr :=
  let (rd, bs, e) := w.rd.read n
  ({ w with rd := rd }, bs, e)

/-- direct `ReadByte` on the embedded reader. -/
def CRd.readByte (w : CRd) : CRd × Option UInt8 × Option WErr :=
  let (rd, b, e) := w.rd.readByte
  ({ w with rd := rd }, b, e)

/-- an external `Seek` by the owner of the *bytes.Reader. -/
def CRd.extSeek (w : CRd) (offset : Int) (whence : Nat) : CRd × Int × Option WErr :=
  let (rd, a, e) := w.rd.seek offset whence
  ({ w with rd := rd }, a, e)

/-- `bytesReader{Reader: rr}`: what `Reader.Init` stores into the wrapper slot. -/
def CRd.fresh (rd : Rd) : CRd := { rd := rd }

/-! ### buffer (over bytes.Buffer) -/

/-- `bytes.Buffer`, read side: the unread portion `buf[off:]`. -/
structure Buf where
  unread : List UInt8
deriving Repr, Inhabited, DecidableEq

def Buf.buffered (b : Buf) : Buf × Nat := (b, b.unread.length)

/-- `Peek(n)`: no length limit, the view is the buffer's own storage. -/
def Buf.peek (b : Buf) (n : Nat) : Buf × List UInt8 × Option WErr :=
  if b.unread.length < n then (b, b.unread, some .eof) else (b, b.unread.take n, none)

/-- `Discard(n)` through `Next(n)`. -/
def Buf.discard (b : Buf) (n : Nat) : Buf × Nat × Option WErr :=
  let k := min n b.unread.length
  ({ unread := b.unread.drop k }, k, if k < n then some .eof else none)

/-- `bytes.Buffer.Read`: an empty buffer answers io.EOF unless `len(p) = 0`. -/
def Buf.read (b : Buf) (n : Nat) : Buf × List UInt8 × Option WErr :=
  if b.unread.isEmpty then (b, [], if n = 0 then none else some .eof)
  else ({ unread := b.unread.drop n }, b.unread.take n, none)

def Buf.readByte (b : Buf) : Buf × Option UInt8 × Option WErr :=
  match b.unread with
  | [] => (b, none, some .eof)
  | c :: rest => ({ unread := rest }, some c, none)

/-- the owner appends with `Write`. -/
def Buf.extWrite (b : Buf) (bs : List UInt8) : Buf := { unread := b.unread ++ bs }

/-! ### the three wrappers behind `pr.bufRd` -/

/-- the source handed to `Reader.Init`, by dynamic type. -/
inductive Src where
  | bytes (rd : Rd)       -- *bytes.Reader
  | strings (rd : Rd)     -- *strings.Reader
  | buffer (b : Buf)      -- *bytes.Buffer
deriving Repr, Inhabited, DecidableEq

/-- `*pr.bufRd` for the three wrapped kinds. -/
inductive Wrapper where
  | bytes (w : CRd)       -- pr.br
  | strings (w : CRd)     -- pr.sr
  | buffer (b : Buf)      -- pr.bb
deriving Repr, Inhabited, DecidableEq

/-- the wrapper `Init` builds for a source: every field of the slot is overwritten. -/
def Wrapper.fresh : Src → Wrapper
  | .bytes rd => .bytes (CRd.fresh rd)
  | .strings rd => .strings (CRd.fresh rd)
  | .buffer b => .buffer b

def liftE {α} (x : α × Option WErr) : α × Option RErr := (x.1, x.2.map WErr.toR)

def Wrapper.buffered : Wrapper → Wrapper × Nat
  | .bytes w => let (w, n) := w.buffered; (.bytes w, n)
  | .strings w => let (w, n) := w.buffered; (.strings w, n)
  | .buffer b => let (b, n) := b.buffered; (.buffer b, n)

def Wrapper.peek : Wrapper → Nat → Wrapper × List UInt8 × Option RErr
  | .bytes w, n => let (w, bs, e) := w.peek n; (.bytes w, bs, e.map WErr.toR)
  | .strings w, n => let (w, bs, e) := w.peek n; (.strings w, bs, e.map WErr.toR)
  | .buffer b, n => let (b, bs, e) := b.peek n; (.buffer b, bs, e.map WErr.toR)

def Wrapper.discard : Wrapper → Nat → Wrapper × Nat × Option RErr
  | .bytes w, n => let (w, k, e) := w.discard n; (.bytes w, k, e.map WErr.toR)
  | .strings w, n => let (w, k, e) := w.discard n; (.strings w, k, e.map WErr.toR)
  | .buffer b, n => let (b, k, e) := b.discard n; (.buffer b, k, e.map WErr.toR)

/-- `pr.rd.Read(buf)`: `pr.rd` is the source object itself. -/
def Wrapper.read : Wrapper → Nat → Wrapper × List UInt8 × Option RErr
  | .bytes w, n => let (w, bs, e) := w.read n; (.bytes w, bs, e.map WErr.toR)
  | .strings w, n => let (w, bs, e) := w.read n; (.strings w, bs, e.map WErr.toR)
  | .buffer b, n => let (b, bs, e) := b.read n; (.buffer b, bs, e.map WErr.toR)

/-- bytes left unread in the source object (`Len()`). -/
def Wrapper.left : Wrapper → Nat
  | .bytes w => w.rd.len
  | .strings w => w.rd.len
  | .buffer b => b.unread.length

/-- the source object as its owner sees it. -/
def Wrapper.source : Wrapper → Src
  | .bytes w => .bytes w.rd
  | .strings w => .strings w.rd
  | .buffer b => .buffer b

/-! ### prefix.Reader on a wrapper

The code of `BitReader.lean` (buffered mode) with the abstract `Source` replaced
by the concrete wrapper; `Buffered()` changes the wrapper's state here. -/

structure WR where
  offset      : Int := 0
  bufBits     : Nat := 0
  numBits     : Nat := 0
  bigEndian   : Bool := false
  bufPeek     : List UInt8 := []
  discardBits : Int := 0
  fedBits     : Nat := 0
  w           : Wrapper
deriving Repr, Inhabited

/-- `Reader.Init(r, bigEndian)` on a Reader in ANY state: `*pr = Reader{rd: r,
    bigEndian: bigEndian, bb: pr.bb, br: pr.br, sr: pr.sr, bu: pr.bu}` keeps only
    the slot pointers, and the slot chosen by the dynamic type of `r` is overwritten
    as a whole (`*pr.br = bytesReader{Reader: rr}`): `pos`, `buf` and `arr` start
    from zero. -/
def WR.init (_old : Option WR) (src : Src) (big : Bool) : WR :=
  { bigEndian := big, w := Wrapper.fresh src }

def WR.bitsRead (r : WR) : Int :=
  8 * r.offset + (r.discardBits + ((r.fedBits : Int) - r.numBits))

def WR.flush (r : WR) : WR × Option RErr :=
  let db := r.discardBits + ((r.fedBits : Int) - r.numBits)
  let nd := ((db + 7) / 8).toNat
  let (w', got, e) := r.w.discard nd
  ({ r with discardBits := db - 8 * got, fedBits := r.numBits, offset := r.offset + got,
            bufPeek := [], w := w' }, e)

def WR.pullLoop (nb : Nat) : Nat → WR → WR × Option RErr
  | 0, r => (r, some .panic)
  | fuel+1, r =>
    let step1 : Except (WR × Option RErr) WR :=
      if r.bufPeek.isEmpty then
        let r := { r with fedBits := r.numBits }
        let (r, e) := r.flush
        match e with
        | some err => .error (r, some err)
        | none =>
          let cnt0 := (nb + 7) / 8
          let (w1, b) := r.w.buffered
          let cntPeek := max cnt0 b
          let (w', pk, perr) := w1.peek cntPeek
          let r := { r with w := w' }
          if pk.length < r.numBits / 8 then .error (r, some .panic)
          else
            let bp := pk.drop (r.numBits / 8)
            if bp.isEmpty then
              if r.numBits ≥ nb then .error ({ r with bufPeek := [], fedBits := r.numBits }, none)
              else .error ({ r with bufPeek := [] },
                     some (match perr with | some .eof => .unexpectedEOF | some e => e | none => .unexpectedEOF))
            else .ok { r with bufPeek := bp }
      else .ok r
    match step1 with
    | .error res => res
    | .ok r =>
      let n := (64 - r.numBits) / 8
      if r.bufPeek.length ≥ 8 then
        let u := le64 r.bigEndian (r.bufPeek.take 8)
        let r := { r with bufBits := (r.bufBits ||| (u * 2 ^ r.numBits)) % two64,
                          numBits := r.numBits + n * 8, bufPeek := r.bufPeek.drop n }
        ({ r with fedBits := r.numBits }, none)
      else
        let n := min n r.bufPeek.length
        let u := le64 r.bigEndian (r.bufPeek.take n)
        let r := { r with bufBits := (r.bufBits ||| (u * 2 ^ r.numBits)) % two64,
                          numBits := r.numBits + n * 8, bufPeek := r.bufPeek.drop n }
        if r.numBits > 56 then ({ r with fedBits := r.numBits }, none)
        else WR.pullLoop nb fuel r

def WR.pullBits (r : WR) (nb : Nat) : WR × Option RErr :=
  let r := { r with discardBits := r.discardBits + ((r.fedBits : Int) - r.numBits) }
  WR.pullLoop nb 12 { r with fedBits := r.numBits }

def WR.readBits (r : WR) (nb : Nat) : WR × Except RErr Nat :=
  let (r, e) := r.pullBits nb
  match e with
  | some err => (r, .error err)
  | none =>
    let v := r.bufBits % 2 ^ nb
    ({ r with bufBits := r.bufBits / 2 ^ nb, numBits := r.numBits - nb }, .ok v)

def WR.tryReadBits (r : WR) (nb : Nat) : WR × Option Nat :=
  if r.numBits < nb then (r, none)
  else ({ r with bufBits := r.bufBits / 2 ^ nb, numBits := r.numBits - nb }, some (r.bufBits % 2 ^ nb))

def WR.readPads (r : WR) : WR × Nat :=
  let nb := r.numBits % 8
  ({ r with bufBits := r.bufBits / 2 ^ nb, numBits := r.numBits - nb }, r.bufBits % 2 ^ nb)

def WR.drain : Nat → WR → List UInt8 → WR × List UInt8
  | 0, r, acc => (r, acc.reverse)
  | n+1, r, acc =>
    if r.numBits = 0 then (r, acc.reverse)
    else
      let b := UInt8.ofNat (r.bufBits % 256)
      let b := if r.bigEndian then revByte b else b
      WR.drain n { r with bufBits := r.bufBits / 256, numBits := r.numBits - 8 } (b :: acc)

/-- raw `Read(buf)` (the repaired code: look-ahead bits are dropped before the
    direct read). -/
def WR.read (r : WR) (n : Nat) : WR × List UInt8 × Option RErr :=
  if r.numBits > 0 then
    if r.numBits % 8 ≠ 0 then (r, [], some .invalid)
    else
      let (r', bs) := WR.drain n r []
      (r', bs, none)
  else
    let (r, e) := r.flush
    match e with
    | some err => (r, [], some err)
    | none =>
      let r := { r with bufBits := 0 }
      let (w', bs, e2) := r.w.read n
      ({ r with w := w', offset := r.offset + bs.length }, bs, e2)

def WR.readSymbol (r : WR) (d : Decoder) : WR × Except RErr Nat :=
  if d.chunks.size = 0 then (r, .error .invalid)
  else
    let rec go (fuel nb : Nat) (r : WR) : WR × Except RErr Nat :=
      match fuel with
      | 0 => (r, .error .panic)
      | fuel+1 =>
        let (r, e) := r.pullBits nb
        match e with
        | some err => (r, .error err)
        | none =>
          let (sym, len) := d.lookup (r.bufBits % 2 ^ 32)
          if len ≤ r.numBits then
            ({ r with bufBits := r.bufBits / 2 ^ len, numBits := r.numBits - len }, .ok sym)
          else go fuel len r
    go 40 d.minBits r

/-- run `ReadBits(n)` for each `n`, stopping at the first error (as `readScript`). -/
def wreadScript : WR → List Nat → List (Except RErr Nat)
  | _, [] => []
  | r, n :: ns =>
    match r.readBits n with
    | (_, .error e) => [.error e]
    | (r', .ok v) => .ok v :: wreadScript r' ns

end Compress.Prefix.Wrap
