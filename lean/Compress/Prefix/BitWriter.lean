/-
Model of /repo/internal/prefix/writer.go `Writer`: 64-bit bit buffer, 512-byte
staging buffer, `PushBits`, `Flush`, `WriteBits`, `TryWriteBits`, `WritePads`,
raw `Write`, `WriteSymbol`, over a sink that may fail (hard or short write).
Core-only.
-/
import Compress.Prefix.BitReader

namespace Compress.Prefix

inductive WFault where | hard | short
deriving Repr, DecidableEq, Inhabited

structure WSink where
  got     : List UInt8 := []
  budget  : Option Nat := none      -- bytes until the failure
  mode    : WFault := .hard
  forever : Bool := true
  tag     : Nat := 7
deriving Repr, Inhabited

def WSink.write (s : WSink) (b : List UInt8) : WSink × Nat × Option RErr :=
  match s.budget with
  | none => ({ s with got := s.got ++ b }, b.length, none)
  | some k =>
    if b.length ≤ k then ({ s with got := s.got ++ b, budget := some (k - b.length) }, b.length, none)
    else
      let acc := match s.mode with | .hard => 0 | .short => k
      ({ s with got := s.got ++ b.take acc, budget := if s.forever then some 0 else none }, acc, some (.other s.tag))

structure BW where
  offset    : Int := 0
  bufBits   : Nat := 0
  numBits   : Nat := 0
  bigEndian : Bool := false
  buf       : List UInt8 := []      -- pw.buf[:pw.cntBuf]
  sink      : WSink := {}
deriving Repr, Inhabited

def stageSize : Nat := 512

/-- the 8 bytes of `bufBits` (bit-reversed per byte when big-endian). -/
def bytesOf64 (big : Bool) (u : Nat) : Nat → List UInt8
  | 0 => []
  | k+1 =>
    let b := UInt8.ofNat (u % 256)
    (if big then revByte b else b) :: bytesOf64 big (u / 256) k

/-- `cnt, err := wr.Write(buf[:cntBuf]); cntBuf -= cnt; Offset += cnt` — note the
    staged bytes are not shifted down after a short write. -/
def BW.emitStage (w : BW) : BW × Option RErr :=
  let (sk, cnt, e) := w.sink.write w.buf
  ({ w with sink := sk, buf := w.buf.take (w.buf.length - cnt), offset := w.offset + cnt }, e)

/-- `PushBits`. -/
def BW.pushBits (w : BW) : BW × Option RErr :=
  let (w, e) := if w.buf.length ≥ stageSize - 8 then w.emitStage else (w, none)
  match e with
  | some err => (w, some err)
  | none =>
    let nb := w.numBits / 8
    ({ w with buf := w.buf ++ bytesOf64 w.bigEndian w.bufBits nb,
              bufBits := w.bufBits / 2 ^ (8 * nb), numBits := w.numBits - 8 * nb }, none)

/-- `Flush`. -/
def BW.flush (w : BW) : BW × Option RErr :=
  if w.numBits < 8 ∧ w.buf.isEmpty then (w, none)
  else
    let (w, e) := w.pushBits
    match e with
    | some err => (w, some err)
    | none => w.emitStage

/-- `WriteBits(v, nb)`. -/
def BW.writeBits (w : BW) (v nb : Nat) : BW × Option RErr :=
  let (w, e) := w.pushBits
  match e with
  | some err => (w, some err)
  | none => ({ w with bufBits := (w.bufBits ||| (v * 2 ^ w.numBits)) % two64, numBits := w.numBits + nb }, none)

/-- `TryWriteBits(v, nb)`. -/
def BW.tryWriteBits (w : BW) (v nb : Nat) : BW × Bool :=
  if 64 - w.numBits < nb then (w, false)
  else ({ w with bufBits := (w.bufBits ||| (v * 2 ^ w.numBits)) % two64, numBits := w.numBits + nb }, true)

/-- `WritePads(v)`. -/
def BW.writePads (w : BW) (v : Nat) : BW :=
  let nb := (8 - w.numBits % 8) % 8
  { w with bufBits := (w.bufBits ||| (v * 2 ^ w.numBits)) % two64, numBits := w.numBits + nb }

/-- `WriteSymbol(sym, pe)`. -/
def BW.writeSymbol (w : BW) (e : Encoder) (sym : Nat) : BW × Option RErr :=
  let (v, nb) := e.lookup sym
  w.writeBits v nb

/-- raw `Write(buf)`. -/
def BW.write (w : BW) (b : List UInt8) : BW × Nat × Option RErr :=
  let pre : BW × Option RErr :=
    if w.numBits > 0 ∨ !w.buf.isEmpty then
      if w.numBits % 8 ≠ 0 then (w, some .invalid) else w.flush
    else (w, none)
  match pre with
  | (w, some err) => (w, 0, some err)
  | (w, none) =>
    let (sk, cnt, e) := w.sink.write b
    ({ w with sink := sk, offset := w.offset + cnt }, cnt, e)

/-- `BitsWritten`. -/
def BW.bitsWritten (w : BW) : Int := 8 * w.offset + 8 * w.buf.length + w.numBits

end Compress.Prefix
