/-
Specification side of bit I/O (C20 H4, shared theory S4/S5): what a script of
`ReadBits`/`WriteBits` calls means on a plain bit list.
-/
import Compress.Prefix.BitWriter

namespace Compress.Prefix
open Compress

/-- the bit stream of a byte string in the reader's bit order. -/
def streamBits (big : Bool) (data : List UInt8) : Bits :=
  if big then Bits.ofBytesMSB data else Bits.ofBytes data

/-- run `ReadBits(n)` for each `n`, stopping at the first error. -/
def readScript : BR → List Nat → List (Except RErr Nat)
  | _, [] => []
  | r, n :: ns =>
    match r.readBits n with
    | (_, .error e) => [.error e]
    | (r', .ok v) => .ok v :: readScript r' ns

/-- the same script on a bit list: each field is the next `n` bits, first bit
    least significant; running out of bits is `io.ErrUnexpectedEOF`. -/
def specReadScript : Bits → List Nat → List (Except RErr Nat)
  | _, [] => []
  | bits, n :: ns =>
    if bits.length < n then [.error .unexpectedEOF]
    else .ok (Bits.toNat (bits.take n)) :: specReadScript (bits.drop n) ns

/-- run `WriteBits(v, n)` for each field, then `WritePads(0)` and `Flush`. -/
def writeScript : BW → List (Nat × Nat) → BW × Option RErr
  | w, [] =>
    let w := w.writePads 0
    w.flush
  | w, (v, n) :: fs =>
    match w.writeBits v n with
    | (w', some e) => (w', some e)
    | (w', none) => writeScript w' fs

/-- the bits of a field list, in stream order. -/
def fieldBits : List (Nat × Nat) → Bits
  | [] => []
  | (v, n) :: fs => Bits.ofNat v n ++ fieldBits fs

/-- bytes of a bit list in the writer's bit order, zero padded. -/
def packBits (big : Bool) (bits : Bits) : List UInt8 :=
  if big then Bits.toBytesMSB bits else Bits.toBytes bits

end Compress.Prefix
