/-
Model of /repo/internal/prefix/decoder.go `Decoder.Init` (two-level lookup
table, first level at most 9 bits) and of the lookup that `Reader.ReadSymbol`
performs on it, and of encoder.go `Encoder.Init`.  Core-only.
-/
import Compress.Prefix.Codes

namespace Compress.Prefix

def maxChunkBits : Nat := 9
def countMask : Nat := 31

structure Decoder where
  chunks    : Array Nat := #[]
  links     : Array (Array Nat) := #[]
  chunkMask : Nat := 0
  linkMask  : Nat := 0
  chunkBits : Nat := 0
  minBits   : Nat := 0
  numSyms   : Nat := 0
deriving Repr, Inhabited

/-- `for j := start; j < len(tbl); j += skip { tbl[j] = v }`. -/
def fillStride (tbl : Array Nat) (start skip v : Nat) : Array Nat :=
  let rec go (fuel : Nat) (j : Nat) (t : Array Nat) : Array Nat :=
    match fuel with
    | 0 => t
    | fuel+1 => if j < t.size then go fuel (j + skip) (t.set! j v) else t
  if skip = 0 then tbl else go tbl.size start tbl

/-- first pass over the codes when links are needed: reserve a link table per
    distinct 9-bit prefix of the long codes. -/
def reserveLinks (codes : List Code) (chunkBits chunkMask : Nat) : Array Nat → Nat → Array Nat × Nat
  | chunks, linkIdx =>
    codes.foldl (fun (st : Array Nat × Nat) c =>
      let idx := c.val % (chunkMask + 1)
      if c.len > chunkBits ∧ st.1.getD idx 0 = 0 then
        (st.1.set! idx (st.2 * 32 + (chunkBits + 1)), st.2 + 1)
      else st) (chunks, linkIdx)

/-- `Decoder.Init`. Precondition (as in Go, checked only in debug builds): the
    codes are sorted by symbol, prefix-free and complete. -/
def Decoder.init (codes : List Code) : Decoder :=
  match codes with
  | [] => {}
  | [c] => if c.len = 0 then { chunks := #[c.sym * 32], numSyms := 1 } else {}     -- Go panics("invalid codes") otherwise
  | _ =>
    let minBits := codes.foldl (fun m c => min m c.len) valueBits
    let maxBits := codes.foldl (fun m c => max m c.len) 0
    let chunkBits := min maxBits maxChunkBits
    let numChunks := 2 ^ chunkBits
    let chunkMask := numChunks - 1
    let chunks0 : Array Nat := Array.replicate numChunks 0
    let (chunks1, nLinks, linkMask) :=
      if chunkBits < maxBits then
        let (ch, n) := reserveLinks codes chunkBits chunkMask chunks0 0
        (ch, n, 2 ^ (maxBits - chunkBits) - 1)
      else (chunks0, 0, 0)
    let links0 : Array (Array Nat) := Array.replicate nLinks (Array.replicate (linkMask + 1) 0)
    let (chunks, links) := codes.foldl (fun (st : Array Nat × Array (Array Nat)) c =>
      let chunk := c.sym * 32 + c.len
      if c.len ≤ chunkBits then
        (fillStride st.1 c.val (2 ^ c.len) chunk, st.2)
      else
        let linkIdx := (st.1.getD (c.val % numChunks) 0) / 32
        let lk := fillStride (st.2.getD linkIdx #[]) (c.val / 2 ^ chunkBits) (2 ^ (c.len - chunkBits)) chunk
        (st.1, st.2.set! linkIdx lk)) (chunks1, links0)
    { chunks := chunks, links := links, chunkMask := chunkMask, linkMask := linkMask,
      chunkBits := chunkBits, minBits := minBits, numSyms := codes.length }

/-- the table lookup of `ReadSymbol` on the bit-buffer value `v` (next bits of
    the stream, first bit least significant, zero-extended): (symbol, length). -/
def Decoder.lookup (d : Decoder) (v : Nat) : Nat × Nat :=
  let chunk := d.chunks.getD (v % (d.chunkMask + 1)) 0
  let nb := chunk % 32
  if nb > d.chunkBits then
    let lk := (d.links.getD (chunk / 32) #[]).getD ((v / 2 ^ d.chunkBits) % (d.linkMask + 1)) 0
    (lk / 32, lk % 32)
  else (chunk / 32, nb)

/-- specification of decoding: the unique code whose word is a prefix of the
    stream bits (first bit first). -/
def codeSearch (codes : List Code) (bits : Bits) : Option Code :=
  codes.find? fun c => c.len ≤ bits.length ∧ Bits.ofNat c.val c.len = bits.take c.len

/-- `ReadSymbol` over the remaining bits of the stream, for a source that makes
    every remaining bit available (Peek-capable sources fill the buffer): look
    up the zero-extended bits; unexpected EOF (`none`) when fewer than `minBits`
    bits remain or the code found is longer than what remains.  For byte
    sources the Go loop pulls `minBits`, looks up, and retries with the length
    the table suggests; on complete canonical codes the zero-extension of a
    prefix reaches the shortest code below it, so the result is the same
    (lemma `zeroExt_min`, DESIGN.md §2.3). -/
def Decoder.readSymbol (d : Decoder) (bits : Bits) : Option (Nat × Bits) :=
  if d.chunks.size = 0 then none
  else if bits.length < d.minBits then none
  else
    let (sym, len) := d.lookup (Bits.toNat (bits.take 32))
    if len ≤ bits.length then some (sym, bits.drop len) else none

/-! ### Encoder -/

structure Encoder where
  chunks    : Array Nat := #[]
  chunkMask : Nat := 0
  numSyms   : Nat := 0
deriving Repr, Inhabited

/-- `Encoder.Init`: grow the table until `sym & mask` is collision free.
    `none` = did not terminate within the fuel. -/
def Encoder.init (codes : List Code) : Option Encoder :=
  match codes with
  | [] => some {}
  | [c] => if c.len = 0 then some { chunks := #[c.val * 32], numSyms := 1 } else none
  | _ =>
    let rec numChunksFor (fuel n acc : Nat) : Nat :=
      match fuel with
      | 0 => acc
      | fuel+1 => if n > 0 then numChunksFor fuel (n / 2) (acc * 2) else acc
    let rec attempt (fuel numChunks : Nat) : Option Encoder :=
      match fuel with
      | 0 => none
      | fuel+1 =>
        let mask := numChunks - 1
        let r := codes.foldl (fun (st : Option (Array Nat)) c =>
          match st with
          | none => none
          | some t => if t.getD (c.sym % numChunks) 0 > 0 then none else some (t.set! (c.sym % numChunks) (c.val * 32 + c.len)))
          (some (Array.replicate numChunks 0))
        match r with
        | some t => some { chunks := t, chunkMask := mask, numSyms := codes.length }
        | none => attempt fuel (numChunks * 2)
    attempt 40 (numChunksFor 64 (codes.length - 1) 1)

def Encoder.lookup (e : Encoder) (sym : Nat) : Nat × Nat :=
  let c := e.chunks.getD (sym % (e.chunkMask + 1)) 0
  (c / 32, c % 32)

end Compress.Prefix
