/-
Model of /repo/internal/prefix/prefix.go: `GeneratePrefixes` (canonical code
assignment, l.326-384) and `GenerateLengths` (two-queue Huffman construction
with `treeRotate` length limiting, l.137-315), and of `RangeCodes`
(range.go).  Core-only.
-/
import Compress.Bits

namespace Compress.Prefix

def countBits : Nat := 5
def valueBits : Nat := 27

structure Code where
  sym : Nat
  cnt : Nat := 0
  len : Nat := 0
  val : Nat := 0
deriving Repr, DecidableEq, Inhabited

/-- reverse the low `n` bits of `v` (`internal.ReverseUint32N`). -/
def reverseBits (v n : Nat) : Nat := Bits.toNat (Bits.ofNat v n).reverse

inductive GPErr where
  | degenerateOne | notIncreasing | zeroLength | degenerate | lenTooLarge
deriving Repr, DecidableEq

/-- histogram of code lengths (`bitCnts`). -/
def lenCount (codes : List Code) (l : Nat) : Nat := (codes.filter (·.len == l)).length

/-- `nextCodes`/`code` loop: for `i` from `minBits` to `maxBits`. Returns the
    table of first codes per length (as a function on a list of pairs) and the
    final `code`. -/
def nextCodesLoop (codes : List Code) : Nat → Nat → Nat → List (Nat × Nat) → (List (Nat × Nat) × Nat)
  | 0, _, code, acc => (acc, code)
  | k+1, i, code, acc =>
    let code := 2 * code
    nextCodesLoop codes k (i + 1) (code + lenCount codes i) ((i, code) :: acc)

def symsIncreasing : List Code → Bool
  | [] => true
  | [_] => true
  | a :: b :: rest => decide (a.sym < b.sym) && symsIncreasing (b :: rest)

/-- assign values in order, bumping the per-length counter. -/
def assignVals : List Code → (Nat → Nat) → List Code
  | [], _ => []
  | c :: cs, next =>
    { c with val := reverseBits (next c.len) c.len } ::
      assignVals cs (fun l => if l = c.len then next l + 1 else next l)

/-- `GeneratePrefixes`. -/
def generatePrefixes (codes : List Code) : Except GPErr (List Code) :=
  match codes with
  | [] => .ok []
  | [c] => if c.len ≠ 0 then .error .degenerateOne else .ok [{ c with val := 0 }]
  | _ =>
    if codes.any (fun c => c.len > valueBits) then .error .lenTooLarge   -- Go: index out of range panic
    else if !symsIncreasing codes then .error .notIncreasing
    else
      let minBits := codes.foldl (fun m c => min m c.len) (codes.head!).len
      let maxBits := codes.foldl (fun m c => max m c.len) 0
      if minBits = 0 then .error .zeroLength
      else
        let (tbl, code) := nextCodesLoop codes (maxBits + 1 - minBits) minBits 0 []
        if code ≠ 2 ^ maxBits then .error .degenerate
        else
          let next : Nat → Nat := fun l => ((tbl.find? (·.1 == l)).map (·.2)).getD 0
          .ok (assignVals codes next)

/-- Kraft sum scaled by `2^maxLen`. -/
def kraftScaled (lens : List Nat) (m : Nat) : Nat := (lens.map (fun l => 2 ^ (m - l))).foldl (· + ·) 0

/-- the code word of a code, most significant bit first (i.e. the canonical
    Huffman code word; the stream carries it first bit first). -/
def Code.word (c : Code) : Bits := Bits.ofNat c.val c.len

/-! ### GenerateLengths -/

/-- Huffman tree built by the two-queue algorithm. -/
inductive HTree where
  | leaf (idx : Nat)        -- index into the (count-sorted) code list
  | node (l r : HTree)
deriving Repr, Inhabited

structure QNode where
  cnt : Nat
  tree : HTree
deriving Repr, Inhabited

/-- dequeue the lighter of the two queue heads (`freqs[0].Cnt <= queue[0].cnt` prefers the leaf). -/
def dequeue (freqs : List (Nat × Nat)) (queue : List QNode) : Option (QNode × List (Nat × Nat) × List QNode) :=
  match freqs, queue with
  | [], [] => none
  | (i, c) :: fs, [] => some (⟨c, .leaf i⟩, fs, [])
  | [], q :: qs => some (q, [], qs)
  | (i, c) :: fs, q :: qs =>
    if c ≤ q.cnt then some (⟨c, .leaf i⟩, fs, q :: qs) else some (q, (i, c) :: fs, qs)

/-- the main loop `for len(freqs)+len(queue) > 1`. -/
def buildTree : Nat → List (Nat × Nat) → List QNode → Option HTree
  | 0, _, _ => none
  | fuel+1, freqs, queue =>
    if freqs.length + queue.length ≤ 1 then
      match queue, freqs with
      | q :: _, _ => some q.tree
      | [], (i, _) :: _ => some (.leaf i)
      | [], [] => none
    else
      match dequeue freqs queue with
      | none => none
      | some (n0, f1, q1) =>
        match dequeue f1 q1 with
        | none => none
        | some (n1, f2, q2) => buildTree fuel f2 (q2 ++ [⟨n0.cnt + n1.cnt, .node n0.tree n1.tree⟩])

/-- depth of every leaf (`explore`): list of (index, level). -/
def depths : HTree → Nat → List (Nat × Nat)
  | .leaf i, d => [(i, d)]
  | .node l r, d => depths l (d + 1) ++ depths r (d + 1)

/-- `treeRotate(nb)` on the histogram `symBits` (a list indexed by bit length).
    `none` = the Go code would index below zero / underflow a uint32. -/
def histGet (h : List Int) (i : Nat) : Int := h.getD i 0
def histSet (h : List Int) (i : Nat) (v : Int) : List Int :=
  if i < h.length then h.set i v else h ++ List.replicate (i - h.length) 0 ++ [v]

def treeRotate : Nat → List Int → Nat → Option (List Int)
  | 0, _, _ => none
  | fuel+1, h, nb =>
    if nb = 0 then none
    else
      let h1 := if histGet h (nb - 1) = 0 then treeRotate fuel h (nb - 1) else some h
      match h1 with
      | none => none
      | some h =>
        let h := histSet h (nb - 1) (histGet h (nb - 1) - 1)
        let h := histSet h nb (histGet h nb + 3)
        let h := histSet h (nb + 1) (histGet h (nb + 1) - 2)
        some h        -- Go's uint32 entries may wrap transiently inside the recursion; checked after the loop

/-- `for i := len(symBits)-1; i > maxBits; i-- { for symBits[i] > 0 { treeRotate(i-1) } }`. -/
def fixLevel (maxBits : Nat) : Nat → List Int → Nat → Option (List Int)
  | 0, _, _ => none
  | fuel+1, h, i =>
    if i ≤ maxBits then some h
    else if histGet h i > 0 then
      match treeRotate (i + 2) h (i - 1) with
      | none => none
      | some h' => fixLevel maxBits fuel h' i
    else fixLevel maxBits fuel h (i - 1)

/-- reassign lengths from the histogram: shortest lengths go to the most
    frequent symbols, i.e. to the back of the count-sorted list. -/
def reassign (n : Nat) (h : List Int) : Option (List Nat) :=
  -- result[k] = length of the code at sorted position k
  let rec go : List Int → Nat → Nat → List Nat → Option (List Nat)
    | [], _, remaining, acc => if remaining = 0 then some acc else none
    | c :: cs, nb, remaining, acc =>
      if c > 0 then
        if c.toNat > remaining then none
        else go cs (nb + 1) (remaining - c.toNat) (List.replicate c.toNat nb ++ acc)
      else go cs (nb + 1) remaining acc
  go h 0 n []

/-- `GenerateLengths(codes, maxBits)` on the counts (must be ascending).
    Returns the length per sorted position; `none` = Go would panic or error. -/
def generateLengths (counts : List Nat) (maxBits : Nat) : Option (List Nat) :=
  match counts with
  | [] => some []
  | [_] => some [0]
  | _ =>
    if !(counts.zip counts.tail).all (fun (a, b) => a ≤ b) then none
    else
      let freqs := (List.range counts.length).zip counts
      match buildTree (counts.length + 1) freqs [] with
      | none => none
      | some t =>
        let ds := depths t 0
        let lens := (List.range counts.length).map fun i => ((ds.find? (·.1 == i)).map (·.2)).getD 0
        if lens.all (· ≤ maxBits) then some lens
        else
          let top := lens.foldl max 0
          let hist : List Int := (List.range (max (valueBits + 1) (top + 1))).map fun l => ((lens.filter (· == l)).length : Int)
          match fixLevel maxBits (hist.length + counts.length * (top + 2) + 8) hist (hist.length - 1) with
          | none => none
          | some h => if h.any (· < 0) then none else reassign counts.length h

/-! ### RangeCodes -/

structure RangeCode where
  base : Nat
  len  : Nat
deriving Repr, DecidableEq, Inhabited

def RangeCode.end_ (rc : RangeCode) : Nat := rc.base + 2 ^ rc.len

def makeRangeCodes : Nat → List Nat → List RangeCode
  | _, [] => []
  | b, nb :: rest => ⟨b, nb⟩ :: makeRangeCodes (b + 2 ^ nb) rest

/-- `RangeEncoder.Encode`: the symbol whose range holds `offset` (the last one
    that starts at or below it). -/
def rangeEncode (rcs : List RangeCode) (offset : Nat) : Nat :=
  (rcs.filter (fun rc => rc.base ≤ offset)).length - 1

end Compress.Prefix
