/-
Specification vocabulary for C20: prefix-freeness, completeness (Kraft),
canonicity of an assigned code.
-/
import Compress.Prefix.Tables

namespace Compress.Prefix

/-- no code word is a prefix of another (words in stream order). -/
def PrefixFree (cs : List Code) : Prop :=
  ∀ a ∈ cs, ∀ b ∈ cs, a ≠ b → ¬ (a.word <+: b.word)

/-- Kraft equality: Σ 2^(m - len) = 2^m for any m ≥ every length. -/
def KraftComplete (lens : List Nat) : Prop :=
  ∀ m, (∀ l ∈ lens, l ≤ m) → kraftScaled lens m = 2 ^ m

/-- the canonical (MSB-first) numeric value of a code word. -/
def Code.canon (c : Code) : Nat := reverseBits c.val c.len

/-- canonical Huffman order: codes compare as (length, symbol), numeric values
    of equal length are consecutive, and shorter codes come numerically first
    when left-aligned. -/
def Canonical (cs : List Code) : Prop :=
  ∀ a ∈ cs, ∀ b ∈ cs, (a.len < b.len ∨ (a.len = b.len ∧ a.sym < b.sym)) →
    a.canon * 2 ^ (b.len - a.len) < b.canon + (if a.len = b.len then 0 else 1) ∧
    (a.len = b.len → a.canon < b.canon)

/-- well-formed input to `GeneratePrefixes`: at least two codes, symbols
    strictly increasing, lengths in 1..27. -/
def ValidLens (cs : List Code) : Prop :=
  2 ≤ cs.length ∧ symsIncreasing cs = true ∧ ∀ c ∈ cs, 1 ≤ c.len ∧ c.len ≤ valueBits

end Compress.Prefix
