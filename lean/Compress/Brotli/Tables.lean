/-
Constant tables of RFC 7932 (Brotli): the context lookup tables of section 7.1,
the insert / copy / block-count code tables of sections 5 and 6, the static
dictionary geometry of section 8 (NDBITS; NWORDS and DOFFSET are computed) and
the 121 word transforms of appendix B.  The 122,784 dictionary bytes themselves
(appendix A) are a parameter of the decoder.  Core-only.
-/
namespace Compress.Brotli

/-! ### section 7.1: context lookup tables -/

/-- RFC 7932 section 7.1, `Lut0` (UTF8 context mode, last byte). -/
def lut0 : Array Nat := #[
   0,  0,  0,  0,  0,  0,  0,  0,  0,  4,  4,  0,  0,  4,  0,  0,
   0,  0,  0,  0,  0,  0,  0,  0,  0,  0,  0,  0,  0,  0,  0,  0,
   8, 12, 16, 12, 12, 20, 12, 16, 24, 28, 12, 12, 32, 12, 36, 12,
  44, 44, 44, 44, 44, 44, 44, 44, 44, 44, 32, 32, 24, 40, 28, 12,
  12, 48, 52, 52, 52, 48, 52, 52, 52, 48, 52, 52, 52, 52, 52, 48,
  52, 52, 52, 52, 52, 48, 52, 52, 52, 52, 52, 24, 12, 28, 12, 12,
  12, 56, 60, 60, 60, 56, 60, 60, 60, 56, 60, 60, 60, 60, 60, 56,
  60, 60, 60, 60, 60, 56, 60, 60, 60, 60, 60, 24, 12, 28, 12,  0,
   0,  1,  0,  1,  0,  1,  0,  1,  0,  1,  0,  1,  0,  1,  0,  1,
   0,  1,  0,  1,  0,  1,  0,  1,  0,  1,  0,  1,  0,  1,  0,  1,
   0,  1,  0,  1,  0,  1,  0,  1,  0,  1,  0,  1,  0,  1,  0,  1,
   0,  1,  0,  1,  0,  1,  0,  1,  0,  1,  0,  1,  0,  1,  0,  1,
   2,  3,  2,  3,  2,  3,  2,  3,  2,  3,  2,  3,  2,  3,  2,  3,
   2,  3,  2,  3,  2,  3,  2,  3,  2,  3,  2,  3,  2,  3,  2,  3,
   2,  3,  2,  3,  2,  3,  2,  3,  2,  3,  2,  3,  2,  3,  2,  3,
   2,  3,  2,  3,  2,  3,  2,  3,  2,  3,  2,  3,  2,  3,  2,  3]

/-- RFC 7932 section 7.1, `Lut1` (UTF8 context mode, second-last byte). -/
def lut1 : Array Nat := #[
   0,  0,  0,  0,  0,  0,  0,  0,  0,  0,  0,  0,  0,  0,  0,  0,
   0,  0,  0,  0,  0,  0,  0,  0,  0,  0,  0,  0,  0,  0,  0,  0,
   0,  1,  1,  1,  1,  1,  1,  1,  1,  1,  1,  1,  1,  1,  1,  1,
   2,  2,  2,  2,  2,  2,  2,  2,  2,  2,  1,  1,  1,  1,  1,  1,
   1,  2,  2,  2,  2,  2,  2,  2,  2,  2,  2,  2,  2,  2,  2,  2,
   2,  2,  2,  2,  2,  2,  2,  2,  2,  2,  2,  1,  1,  1,  1,  1,
   1,  3,  3,  3,  3,  3,  3,  3,  3,  3,  3,  3,  3,  3,  3,  3,
   3,  3,  3,  3,  3,  3,  3,  3,  3,  3,  3,  1,  1,  1,  1,  0,
   0,  0,  0,  0,  0,  0,  0,  0,  0,  0,  0,  0,  0,  0,  0,  0,
   0,  0,  0,  0,  0,  0,  0,  0,  0,  0,  0,  0,  0,  0,  0,  0,
   0,  0,  0,  0,  0,  0,  0,  0,  0,  0,  0,  0,  0,  0,  0,  0,
   0,  0,  0,  0,  0,  0,  0,  0,  0,  0,  0,  0,  0,  0,  0,  0,
   0,  0,  0,  0,  0,  0,  0,  0,  0,  0,  0,  0,  0,  0,  0,  0,
   0,  0,  0,  0,  0,  0,  0,  0,  0,  0,  0,  0,  0,  0,  0,  0,
   2,  2,  2,  2,  2,  2,  2,  2,  2,  2,  2,  2,  2,  2,  2,  2,
   2,  2,  2,  2,  2,  2,  2,  2,  2,  2,  2,  2,  2,  2,  2,  2]

/-- RFC 7932 section 7.1, `Lut2` (signed context mode). -/
def lut2 : Array Nat := #[
   0,  1,  1,  1,  1,  1,  1,  1,  1,  1,  1,  1,  1,  1,  1,  1,
   2,  2,  2,  2,  2,  2,  2,  2,  2,  2,  2,  2,  2,  2,  2,  2,
   2,  2,  2,  2,  2,  2,  2,  2,  2,  2,  2,  2,  2,  2,  2,  2,
   2,  2,  2,  2,  2,  2,  2,  2,  2,  2,  2,  2,  2,  2,  2,  2,
   3,  3,  3,  3,  3,  3,  3,  3,  3,  3,  3,  3,  3,  3,  3,  3,
   3,  3,  3,  3,  3,  3,  3,  3,  3,  3,  3,  3,  3,  3,  3,  3,
   3,  3,  3,  3,  3,  3,  3,  3,  3,  3,  3,  3,  3,  3,  3,  3,
   3,  3,  3,  3,  3,  3,  3,  3,  3,  3,  3,  3,  3,  3,  3,  3,
   4,  4,  4,  4,  4,  4,  4,  4,  4,  4,  4,  4,  4,  4,  4,  4,
   4,  4,  4,  4,  4,  4,  4,  4,  4,  4,  4,  4,  4,  4,  4,  4,
   4,  4,  4,  4,  4,  4,  4,  4,  4,  4,  4,  4,  4,  4,  4,  4,
   4,  4,  4,  4,  4,  4,  4,  4,  4,  4,  4,  4,  4,  4,  4,  4,
   5,  5,  5,  5,  5,  5,  5,  5,  5,  5,  5,  5,  5,  5,  5,  5,
   5,  5,  5,  5,  5,  5,  5,  5,  5,  5,  5,  5,  5,  5,  5,  5,
   5,  5,  5,  5,  5,  5,  5,  5,  5,  5,  5,  5,  5,  5,  5,  5,
   6,  6,  6,  6,  6,  6,  6,  6,  6,  6,  6,  6,  6,  6,  6,  7]


/-! ### sections 5 and 6: (base value, extra bits) of the length codes -/

/-- a table row: values `base .. base + 2^extra - 1` are coded by `extra` extra bits. -/
structure Range where
  base  : Nat
  extra : Nat
deriving Repr, DecidableEq, Inhabited

/-- consecutive ranges starting at `base` with the given numbers of extra bits. -/
def mkRanges : Nat → List Nat → List Range
  | _, [] => []
  | base, e :: es => ⟨base, e⟩ :: mkRanges (base + 2 ^ e) es

/-- section 5: insert length codes 0..23 (insert lengths 0..). -/
def insertRanges : Array Range :=
  (mkRanges 0 [0,0,0,0,0,0,1,1,2,2,3,3,4,4,5,5,6,7,8,9,10,12,14,24]).toArray

/-- section 5: copy length codes 0..23 (copy lengths 2..). -/
def copyRanges : Array Range :=
  (mkRanges 2 [0,0,0,0,0,0,0,0,1,1,2,2,3,3,4,4,5,5,6,7,8,9,10,24]).toArray

/-- section 6: block count codes 0..25 (block counts 1..). -/
def blockCountRanges : Array Range :=
  (mkRanges 1 [2,2,2,2,3,3,3,3,4,4,4,4,5,5,5,5,6,6,7,8,9,10,11,12,13,24]).toArray

/-- section 5: for each of the 11 cells of 64 insert-and-copy symbols, the first
    insert length code, the first copy length code, and whether the distance
    is implicitly "last distance" (distance symbol 0). -/
def commandCells : Array (Nat × Nat × Bool) := #[
  (0, 0, true), (0, 8, true), (0, 0, false), (0, 8, false),
  (8, 0, false), (8, 8, false), (0, 16, false), (16, 0, false),
  (8, 16, false), (16, 8, false), (16, 16, false)]

/-- section 3.5: order in which the code length code lengths appear. -/
def codeLengthOrder : List Nat := [1, 2, 3, 4, 0, 5, 17, 6, 16, 7, 8, 9, 10, 11, 12, 13, 14, 15]

/-- section 3.5: the fixed code for the code length code lengths 0..5
    (as code lengths of a canonical prefix code: 0 ↦ 00, 3 ↦ 01, 4 ↦ 10,
    2 ↦ 110, 1 ↦ 1110, 5 ↦ 1111, first bit read leftmost). -/
def codeLengthCodeLengths : Array Nat := #[2, 4, 3, 2, 2, 4]

/-! ### section 8 and appendix A: static dictionary geometry -/

def minDictWordLen : Nat := 4
def maxDictWordLen : Nat := 24

/-- appendix A, `NDBITS`: log2 of the number of words of each length 0..24. -/
def ndbits : Array Nat := #[0, 0, 0, 0, 10, 10, 11, 11, 10, 10, 10, 10, 10, 9, 9, 8, 7, 7, 8, 7, 7, 6, 6, 5, 5]

/-- section 8, `NWORDS[len]`. -/
def nwords (len : Nat) : Nat :=
  if len < minDictWordLen ∨ len > maxDictWordLen then 0 else 2 ^ ndbits.getD len 0

/-- section 8, `DOFFSET[len]`: offset of the first word of length `len`. -/
def doffset : Nat → Nat
  | 0 => 0
  | len+1 => doffset len + len * nwords len

/-- size of the dictionary of appendix A: 122,784 bytes. -/
def dictSize : Nat := doffset (maxDictWordLen + 1)

/-! ### appendix B: word transforms -/

inductive TransformKind where
  | identity
  | uppercaseFirst
  | uppercaseAll
  | omitFirst (n : Nat)
  | omitLast (n : Nat)
deriving Repr, Inhabited, DecidableEq

structure Transform where
  pre  : List UInt8
  kind : TransformKind
  suf  : List UInt8
deriving Repr, Inhabited

/-- appendix B: the 121 transforms (prefix, elementary transform, suffix); bytes in decimal. -/
def transforms : Array Transform := #[
  ⟨[], .identity, []⟩,  -- 0: "" Identity ""
  ⟨[], .identity, [32]⟩,  -- 1: "" Identity " "
  ⟨[32], .identity, [32]⟩,  -- 2: " " Identity " "
  ⟨[], .omitFirst 1, []⟩,  -- 3: "" OmitFirst1 ""
  ⟨[], .uppercaseFirst, [32]⟩,  -- 4: "" UppercaseFirst " "
  ⟨[], .identity, [32, 116, 104, 101, 32]⟩,  -- 5: "" Identity " the "
  ⟨[32], .identity, []⟩,  -- 6: " " Identity ""
  ⟨[115, 32], .identity, [32]⟩,  -- 7: "s " Identity " "
  ⟨[], .identity, [32, 111, 102, 32]⟩,  -- 8: "" Identity " of "
  ⟨[], .uppercaseFirst, []⟩,  -- 9: "" UppercaseFirst ""
  ⟨[], .identity, [32, 97, 110, 100, 32]⟩,  -- 10: "" Identity " and "
  ⟨[], .omitFirst 2, []⟩,  -- 11: "" OmitFirst2 ""
  ⟨[], .omitLast 1, []⟩,  -- 12: "" OmitLast1 ""
  ⟨[44, 32], .identity, [32]⟩,  -- 13: ", " Identity " "
  ⟨[], .identity, [44, 32]⟩,  -- 14: "" Identity ", "
  ⟨[32], .uppercaseFirst, [32]⟩,  -- 15: " " UppercaseFirst " "
  ⟨[], .identity, [32, 105, 110, 32]⟩,  -- 16: "" Identity " in "
  ⟨[], .identity, [32, 116, 111, 32]⟩,  -- 17: "" Identity " to "
  ⟨[101, 32], .identity, [32]⟩,  -- 18: "e " Identity " "
  ⟨[], .identity, [34]⟩,  -- 19: "" Identity "\""
  ⟨[], .identity, [46]⟩,  -- 20: "" Identity "."
  ⟨[], .identity, [34, 62]⟩,  -- 21: "" Identity "\">"
  ⟨[], .identity, [10]⟩,  -- 22: "" Identity "\n"
  ⟨[], .omitLast 3, []⟩,  -- 23: "" OmitLast3 ""
  ⟨[], .identity, [93]⟩,  -- 24: "" Identity "]"
  ⟨[], .identity, [32, 102, 111, 114, 32]⟩,  -- 25: "" Identity " for "
  ⟨[], .omitFirst 3, []⟩,  -- 26: "" OmitFirst3 ""
  ⟨[], .omitLast 2, []⟩,  -- 27: "" OmitLast2 ""
  ⟨[], .identity, [32, 97, 32]⟩,  -- 28: "" Identity " a "
  ⟨[], .identity, [32, 116, 104, 97, 116, 32]⟩,  -- 29: "" Identity " that "
  ⟨[32], .uppercaseFirst, []⟩,  -- 30: " " UppercaseFirst ""
  ⟨[], .identity, [46, 32]⟩,  -- 31: "" Identity ". "
  ⟨[46], .identity, []⟩,  -- 32: "." Identity ""
  ⟨[32], .identity, [44, 32]⟩,  -- 33: " " Identity ", "
  ⟨[], .omitFirst 4, []⟩,  -- 34: "" OmitFirst4 ""
  ⟨[], .identity, [32, 119, 105, 116, 104, 32]⟩,  -- 35: "" Identity " with "
  ⟨[], .identity, [39]⟩,  -- 36: "" Identity "'"
  ⟨[], .identity, [32, 102, 114, 111, 109, 32]⟩,  -- 37: "" Identity " from "
  ⟨[], .identity, [32, 98, 121, 32]⟩,  -- 38: "" Identity " by "
  ⟨[], .omitFirst 5, []⟩,  -- 39: "" OmitFirst5 ""
  ⟨[], .omitFirst 6, []⟩,  -- 40: "" OmitFirst6 ""
  ⟨[32, 116, 104, 101, 32], .identity, []⟩,  -- 41: " the " Identity ""
  ⟨[], .omitLast 4, []⟩,  -- 42: "" OmitLast4 ""
  ⟨[], .identity, [46, 32, 84, 104, 101, 32]⟩,  -- 43: "" Identity ". The "
  ⟨[], .uppercaseAll, []⟩,  -- 44: "" UppercaseAll ""
  ⟨[], .identity, [32, 111, 110, 32]⟩,  -- 45: "" Identity " on "
  ⟨[], .identity, [32, 97, 115, 32]⟩,  -- 46: "" Identity " as "
  ⟨[], .identity, [32, 105, 115, 32]⟩,  -- 47: "" Identity " is "
  ⟨[], .omitLast 7, []⟩,  -- 48: "" OmitLast7 ""
  ⟨[], .omitLast 1, [105, 110, 103, 32]⟩,  -- 49: "" OmitLast1 "ing "
  ⟨[], .identity, [10, 9]⟩,  -- 50: "" Identity "\n\t"
  ⟨[], .identity, [58]⟩,  -- 51: "" Identity ":"
  ⟨[32], .identity, [46, 32]⟩,  -- 52: " " Identity ". "
  ⟨[], .identity, [101, 100, 32]⟩,  -- 53: "" Identity "ed "
  ⟨[], .omitFirst 9, []⟩,  -- 54: "" OmitFirst9 ""
  ⟨[], .omitFirst 7, []⟩,  -- 55: "" OmitFirst7 ""
  ⟨[], .omitLast 6, []⟩,  -- 56: "" OmitLast6 ""
  ⟨[], .identity, [40]⟩,  -- 57: "" Identity "("
  ⟨[], .uppercaseFirst, [44, 32]⟩,  -- 58: "" UppercaseFirst ", "
  ⟨[], .omitLast 8, []⟩,  -- 59: "" OmitLast8 ""
  ⟨[], .identity, [32, 97, 116, 32]⟩,  -- 60: "" Identity " at "
  ⟨[], .identity, [108, 121, 32]⟩,  -- 61: "" Identity "ly "
  ⟨[32, 116, 104, 101, 32], .identity, [32, 111, 102, 32]⟩,  -- 62: " the " Identity " of "
  ⟨[], .omitLast 5, []⟩,  -- 63: "" OmitLast5 ""
  ⟨[], .omitLast 9, []⟩,  -- 64: "" OmitLast9 ""
  ⟨[32], .uppercaseFirst, [44, 32]⟩,  -- 65: " " UppercaseFirst ", "
  ⟨[], .uppercaseFirst, [34]⟩,  -- 66: "" UppercaseFirst "\""
  ⟨[46], .identity, [40]⟩,  -- 67: "." Identity "("
  ⟨[], .uppercaseAll, [32]⟩,  -- 68: "" UppercaseAll " "
  ⟨[], .uppercaseFirst, [34, 62]⟩,  -- 69: "" UppercaseFirst "\">"
  ⟨[], .identity, [61, 34]⟩,  -- 70: "" Identity "=\""
  ⟨[32], .identity, [46]⟩,  -- 71: " " Identity "."
  ⟨[46, 99, 111, 109, 47], .identity, []⟩,  -- 72: ".com/" Identity ""
  ⟨[32, 116, 104, 101, 32], .identity, [32, 111, 102, 32, 116, 104, 101, 32]⟩,  -- 73: " the " Identity " of the "
  ⟨[], .uppercaseFirst, [39]⟩,  -- 74: "" UppercaseFirst "'"
  ⟨[], .identity, [46, 32, 84, 104, 105, 115, 32]⟩,  -- 75: "" Identity ". This "
  ⟨[], .identity, [44]⟩,  -- 76: "" Identity ","
  ⟨[46], .identity, [32]⟩,  -- 77: "." Identity " "
  ⟨[], .uppercaseFirst, [40]⟩,  -- 78: "" UppercaseFirst "("
  ⟨[], .uppercaseFirst, [46]⟩,  -- 79: "" UppercaseFirst "."
  ⟨[], .identity, [32, 110, 111, 116, 32]⟩,  -- 80: "" Identity " not "
  ⟨[32], .identity, [61, 34]⟩,  -- 81: " " Identity "=\""
  ⟨[], .identity, [101, 114, 32]⟩,  -- 82: "" Identity "er "
  ⟨[32], .uppercaseAll, [32]⟩,  -- 83: " " UppercaseAll " "
  ⟨[], .identity, [97, 108, 32]⟩,  -- 84: "" Identity "al "
  ⟨[32], .uppercaseAll, []⟩,  -- 85: " " UppercaseAll ""
  ⟨[], .identity, [61, 39]⟩,  -- 86: "" Identity "='"
  ⟨[], .uppercaseAll, [34]⟩,  -- 87: "" UppercaseAll "\""
  ⟨[], .uppercaseFirst, [46, 32]⟩,  -- 88: "" UppercaseFirst ". "
  ⟨[32], .identity, [40]⟩,  -- 89: " " Identity "("
  ⟨[], .identity, [102, 117, 108, 32]⟩,  -- 90: "" Identity "ful "
  ⟨[32], .uppercaseFirst, [46, 32]⟩,  -- 91: " " UppercaseFirst ". "
  ⟨[], .identity, [105, 118, 101, 32]⟩,  -- 92: "" Identity "ive "
  ⟨[], .identity, [108, 101, 115, 115, 32]⟩,  -- 93: "" Identity "less "
  ⟨[], .uppercaseAll, [39]⟩,  -- 94: "" UppercaseAll "'"
  ⟨[], .identity, [101, 115, 116, 32]⟩,  -- 95: "" Identity "est "
  ⟨[32], .uppercaseFirst, [46]⟩,  -- 96: " " UppercaseFirst "."
  ⟨[], .uppercaseAll, [34, 62]⟩,  -- 97: "" UppercaseAll "\">"
  ⟨[32], .identity, [61, 39]⟩,  -- 98: " " Identity "='"
  ⟨[], .uppercaseFirst, [44]⟩,  -- 99: "" UppercaseFirst ","
  ⟨[], .identity, [105, 122, 101, 32]⟩,  -- 100: "" Identity "ize "
  ⟨[], .uppercaseAll, [46]⟩,  -- 101: "" UppercaseAll "."
  ⟨[194, 160], .identity, []⟩,  -- 102: "\xc2\xa0" Identity ""
  ⟨[32], .identity, [44]⟩,  -- 103: " " Identity ","
  ⟨[], .uppercaseFirst, [61, 34]⟩,  -- 104: "" UppercaseFirst "=\""
  ⟨[], .uppercaseAll, [61, 34]⟩,  -- 105: "" UppercaseAll "=\""
  ⟨[], .identity, [111, 117, 115, 32]⟩,  -- 106: "" Identity "ous "
  ⟨[], .uppercaseAll, [44, 32]⟩,  -- 107: "" UppercaseAll ", "
  ⟨[], .uppercaseFirst, [61, 39]⟩,  -- 108: "" UppercaseFirst "='"
  ⟨[32], .uppercaseFirst, [44]⟩,  -- 109: " " UppercaseFirst ","
  ⟨[32], .uppercaseAll, [61, 34]⟩,  -- 110: " " UppercaseAll "=\""
  ⟨[32], .uppercaseAll, [44, 32]⟩,  -- 111: " " UppercaseAll ", "
  ⟨[], .uppercaseAll, [44]⟩,  -- 112: "" UppercaseAll ","
  ⟨[], .uppercaseAll, [40]⟩,  -- 113: "" UppercaseAll "("
  ⟨[], .uppercaseAll, [46, 32]⟩,  -- 114: "" UppercaseAll ". "
  ⟨[32], .uppercaseAll, [46]⟩,  -- 115: " " UppercaseAll "."
  ⟨[], .uppercaseAll, [61, 39]⟩,  -- 116: "" UppercaseAll "='"
  ⟨[32], .uppercaseAll, [46, 32]⟩,  -- 117: " " UppercaseAll ". "
  ⟨[32], .uppercaseFirst, [61, 34]⟩,  -- 118: " " UppercaseFirst "=\""
  ⟨[32], .uppercaseAll, [61, 39]⟩,  -- 119: " " UppercaseAll "='"
  ⟨[32], .uppercaseFirst, [61, 39]⟩]  -- 120: " " UppercaseFirst "='"

end Compress.Brotli
