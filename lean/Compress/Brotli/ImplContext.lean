/-
Go-shaped model of /repo/brotli/context.go (`getLitContextID` through the two
computed tables `contextP1LUT`/`contextP2LUT`, `getDistContextID`), of
`Reader.readContextMap` (reader.go) and of `internal.MoveToFront.Decode`
(internal/common.go) including its `tail` short cut: only the first
`256 - tail` entries of the dictionary are reset to the identity, the rest is
trusted to be in order from the previous call.
Core-only.
-/
import Compress.Brotli.ImplPrefix

namespace Compress.Brotli.Impl
open Compress Compress.Prefix

/-! ### context.go -/

/-- `contextP1LUT[mode<<8 + i]`. -/
def contextP1 (mode i : Nat) : Nat :=
  match mode with
  | 0 => i % 64                      -- contextLSB6
  | 1 => i / 4                       -- contextMSB6
  | 2 => lut0.getD i 0               -- contextUTF8
  | _ => (lut2.getD i 0) * 8 % 256   -- contextSigned (`<< 3` on a uint8)

/-- `contextP2LUT[mode<<8 + i]`. -/
def contextP2 (mode i : Nat) : Nat :=
  match mode with
  | 0 => 0
  | 1 => 0
  | 2 => lut1.getD i 0
  | _ => lut2.getD i 0

/-- `getLitContextID(p1, p2, mode)`. -/
def getLitContextID (p1 p2 : UInt8) (mode : Nat) : Nat :=
  contextP1 mode p1.toNat ||| contextP2 mode p2.toNat

/-- `getDistContextID(l)`. -/
def getDistContextID (l : Nat) : Nat := if l > 4 then 3 else (l - 2) % 256

/-! ### internal.MoveToFront -/

structure Mtf where
  dict : List Nat := List.replicate 256 0     -- zero value of `[256]uint8`
  tail : Nat := 0
deriving Inhabited

/-- the loop of `Decode`: (dictionary, OR of the indexes, output in reverse). -/
def mtfLoop : List Nat → List Nat → Nat → List Nat → List Nat × Nat × List Nat
  | [], dict, mx, out => (dict, mx, out)
  | idx :: rest, dict, mx, out =>
    let val := dict.getD idx 0
    -- copy(m.dict[1:], m.dict[:idx]); m.dict[0] = val
    mtfLoop rest (val :: dict.eraseIdx idx) (mx ||| idx) (val :: out)

/-- `MoveToFront.Decode(idxs)`. -/
def Mtf.decode (m : Mtf) (idxs : List Nat) : List Nat × Mtf :=
  let n := 256 - m.tail
  let dict0 := List.range n ++ m.dict.drop n       -- copy(m.dict[:], IdentityLUT[:256-m.tail])
  let (dict, mx, out) := mtfLoop idxs dict0 0 []
  (out.reverse, { dict := dict, tail := 256 - mx - 1 })

/-! ### Reader.readContextMap -/

/-- the `for i := 0; i < len(cm);` loop; `cm` grows by appending (`i = cm.size`). -/
def readCMapLoop (pd : Decoder) (maxRLE size : Nat) : Nat → Array Nat → M (Array Nat)
  | 0, _ => panic .corrupted
  | fuel+1, cm =>
    if cm.size < size then do
      let sym ← readSymbol pd
      if sym = 0 ∨ sym > maxRLE then
        let v := if sym > 0 then sym - maxRLE else sym
        readCMapLoop pd maxRLE size fuel (cm.push (v % 256))
      else
        let n ← readOffset (sym - 1) maxRLERanges
        if cm.size + n > size then panic .corrupted
        else readCMapLoop pd maxRLE size fuel (cm ++ Array.replicate n 0)
    else pure cm

/-- `readContextMap(cm, numTrees)` with `len(cm) = size`. -/
def readContextMap (mtf : Mtf) (size numTrees : Nat) : M (Array Nat × Mtf) := do
  let maxRLE ← readSymbol decMaxRLE
  let pd ← readPrefixCode (maxRLE + numTrees)
  let cm ← readCMapLoop pd maxRLE size (size + 1) #[]
  let invert ← readBits 1
  if invert = 1 then
    let (out, mtf') := mtf.decode cm.toList
    pure (out.toArray, mtf')
  else pure (cm, mtf)

end Compress.Brotli.Impl
