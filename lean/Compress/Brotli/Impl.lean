/-
Go-shaped model of /repo/brotli/reader.go: the `Read` loop with the pending
`toRead` slice and the persistent error, the steps `readStreamHeader`,
`readBlockHeader` (with `readMetaData`), `readRawData`, `readPrefixCodes` and
`readCommands` with its labels (`startCommand`, `readLiterals`, `readDistance`,
`copyDynamicDict`, `copyStaticDict`, `finishCommand`) and its re-entry through
`stepState`, `readBlockSwitch`, the ring of last distances, and the window
`dictDecoder` (Compress.Window).

One `step` of the Go code is one call of `stepOnce`: it either completes, or
suspends with the window flushed into `toRead`, or fails; a failure keeps the
state reached (the window is flushed by `Read` afterwards).

Abstractions:
* input = bit list, as in ImplPrefix.lean.  The source is one that hands out
  every byte it has (bytes.Reader; it is a ByteReader, so no bufio layer): a
  raw read takes `min(len(buf), bytes left)` bytes and reports io.EOF only when
  nothing is left.  `InputOffset` is then the number of bytes fetched:
  `ceil(bits consumed / 8)`, and the whole input after an unexpected EOF.
* the transformed dictionary word is `Transform.apply` of the specification's
  table (tied to transform.go by the `btr` correspondence lines).
* Go `int` fields that may go negative (`blkLen`, `typeLen`) are `Int`.
Core-only.
-/
import Compress.Window
import Compress.Brotli.Spec
import Compress.Brotli.ImplContext

namespace Compress.Brotli.Impl
open Compress Compress.Prefix Compress.Window

inductive Step where
  | streamHeader | blockHeader | rawData | commands
deriving Repr, DecidableEq, Inhabited

/-- `stepState` of `readCommands`. -/
inductive Sub where
  | init | literals | dynamicDict | staticDict
deriving Repr, DecidableEq, Inhabited

structure BlockDec where
  numTypes : Nat := 0
  typeLen  : Int := 0
  type0    : Nat := 0              -- types[0]: current
  type1    : Nat := 0              -- types[1]: previous
  decType  : Decoder := {}
  decLen   : Decoder := {}
  prefixes : Array Decoder := #[]
deriving Inhabited

structure State where
  rd         : BR
  totalBytes : Nat                 -- length of the input (for InputOffset after an unexpected EOF)
  inOff      : Nat := 0            -- InputOffset
  outOff     : Nat := 0            -- OutputOffset
  toRead     : List UInt8 := []
  blkLen     : Int := 0
  insLen     : Nat := 0
  cpyLen     : Nat := 0
  last       : Bool := false
  err        : Option BErr := none
  step       : Step := .streamHeader
  stepState  : Sub := .init
  mtf        : Mtf := {}
  dict       : Dict := { size := 0, hist := #[], cap := 0 }     -- zero value; `Init` comes with the stream header
  iacBlk     : BlockDec := {}
  litBlk     : BlockDec := {}
  distBlk    : BlockDec := {}
  litMap     : Array Nat := #[]
  litMapOff  : Nat := 0            -- litMapType = litMap[litMapOff:]
  cmode      : Nat := 0
  cmodes     : Array Nat := #[]
  distMap    : Array Nat := #[]
  distMapOff : Nat := 0            -- distMapType = distMap[distMapOff:]
  dist       : Nat := 0
  dists0     : Nat := 4            -- dists = {4, 11, 15, 16}
  dists1     : Nat := 11
  dists2     : Nat := 15
  dists3     : Nat := 16
  distZero   : Bool := false
  npostfix   : Nat := 0
  ndirect    : Nat := 0
  word       : List UInt8 := []
deriving Inhabited

/-- `NewReader` on the given input. -/
def init (bytes : List UInt8) : State :=
  { rd := { bits := Bits.ofBytes bytes }, totalBytes := bytes.length }

/-- the monad of the step functions: the whole `Reader`, errors keep the state. -/
def S (α : Type) : Type := State → Except BErr α × State

namespace S
@[always_inline, inline] protected def pure (a : α) : S α := fun s => (.ok a, s)
@[always_inline, inline] protected def bind (x : S α) (f : α → S β) : S β := fun s =>
  match x s with
  | (.ok a, s') => f a s'
  | (.error e, s') => (.error e, s')
@[always_inline] instance : Monad S where
  pure := S.pure
  bind := S.bind
end S

@[always_inline, inline] def spanic (e : BErr) : S α := fun s => (.error e, s)
@[always_inline, inline] def getS : S State := fun s => (.ok s, s)
@[always_inline, inline] def modS (f : State → State) : S Unit := fun s => (.ok (), f s)

/-- run a bit-reader action on `br.rd`. -/
@[inline] def liftR (x : M α) : S α := fun s =>
  match x s.rd with
  | (r, rd') => (r, { s with rd := rd' })

/-- `br.toRead = br.dict.ReadFlush()`. -/
def flush : S Unit := fun s =>
  let (d, fl) := s.dict.readFlush
  (.ok (), { s with dict := d, toRead := fl })

/-! ### block switches -/

/-- `readBlockSwitch(bd)`: with a single block type the only block is used up and the meta-block
    defines no code that could announce another one. -/
def readBlockSwitch (bd : BlockDec) : M BlockDec :=
  if bd.numTypes < 2 then panic .corrupted
  else do
    let symType ← readSymbol bd.decType
    let symType :=
      match symType with
      | 0 => bd.type1
      | 1 => if bd.type0 + 1 ≥ bd.numTypes then bd.type0 + 1 - bd.numTypes else bd.type0 + 1
      | t => t - 2
    let symLen ← readSymbol bd.decLen
    let len ← readOffset symLen blkLenRanges
    pure { bd with type0 := symType % 256, type1 := bd.type0, typeLen := len }

/-- the head of `readPrefixCodes` for one block decoder. -/
def readBlockDec (bd : BlockDec) : M BlockDec := do
  let numTypes ← readSymbol decCounts
  let bd := { bd with type0 := 0, type1 := 1, typeLen := 2 ^ 24, numTypes := numTypes }   -- RFC section 10: the count of the only block
  if numTypes ≥ 2 then
    let decType ← readPrefixCode (numTypes + 2)
    let decLen ← readPrefixCode 26
    let sym ← readSymbol decLen
    let len ← readOffset sym blkLenRanges
    pure { bd with decType := decType, decLen := decLen, typeLen := len }
  else pure bd

def readCModes : Nat → Array Nat → M (Array Nat)
  | 0, acc => pure acc
  | n+1, acc => do
    let m ← readBits 2
    readCModes n (acc.push m)

/-! ### the steps -/

/-- the `if br.last` head of `readBlockHeader`: the end of the stream. -/
def finishStream : S Unit := do
  let pads ← liftR readPads
  if pads > 0 then spanic .corrupted
  else spanic .eof

/-- `readMetaData`: `io.CopyBuffer` into `ioutil.Discard` through a LimitedReader of `blkLen` bytes. -/
def readMetaData : S Unit := fun s =>
  let want := s.blkLen.toNat
  let k := min want (s.rd.bits.length / 8)
  let s := { s with rd := { bits := s.rd.bits.drop (8 * k), used := s.rd.used + 8 * k } }
  if k < want then (.error .unexpectedEOF, s)
  else (.ok (), { s with step := .blockHeader })

/-- `readRawData`. -/
def readRawData : S Unit := fun s =>
  let want := min s.dict.availSize s.blkLen.toNat        -- len(buf)
  let availBytes := s.rd.bits.length / 8
  if availBytes = 0 then (.error .unexpectedEOF, s)       -- Read: (0, io.EOF), also for an empty buf
  else
    let k := min want availBytes
    let (d, _) := s.dict.writeBytes (Bits.toBytes (s.rd.bits.take (8 * k)))
    let s : State := { s with dict := d, blkLen := s.blkLen - (k : Int),
                              rd := { bits := s.rd.bits.drop (8 * k), used := s.rd.used + 8 * k } }
    if s.blkLen > 0 then
      let (d, fl) := s.dict.readFlush
      (.ok (), { s with dict := d, toRead := fl, step := .rawData })
    else (.ok (), { s with step := .blockHeader })

/-- `readPrefixCodes`. -/
def readPrefixCodes : S Unit := fun s =>
  let x : M (State) := do
    let litBlk ← readBlockDec s.litBlk
    let iacBlk ← readBlockDec s.iacBlk
    let distBlk ← readBlockDec s.distBlk
    let npostfix ← readBits 2
    let ndirect := (← readBits 4) <<< npostfix
    let numDistSyms := 16 + ndirect + (48 <<< npostfix)
    let cmodes ← readCModes litBlk.numTypes #[]
    let numLitTrees ← readSymbol decCounts
    let (litMap, mtf) ←
      if numLitTrees ≥ 2 then readContextMap s.mtf (64 * litBlk.numTypes) numLitTrees
      else pure (Array.replicate (64 * litBlk.numTypes) 0, s.mtf)
    let numDistTrees ← readSymbol decCounts
    let (distMap, mtf) ←
      if numDistTrees ≥ 2 then readContextMap mtf (4 * distBlk.numTypes) numDistTrees
      else pure (Array.replicate (4 * distBlk.numTypes) 0, mtf)
    let litP ← readPrefixCodesN 256 numLitTrees #[]
    let iacP ← readPrefixCodesN 704 iacBlk.numTypes #[]
    let distP ← readPrefixCodesN numDistSyms numDistTrees #[]
    pure { s with
      litBlk := { litBlk with prefixes := litP }, iacBlk := { iacBlk with prefixes := iacP },
      distBlk := { distBlk with prefixes := distP },
      npostfix := npostfix, ndirect := ndirect, cmodes := cmodes, cmode := cmodes.getD 0 0,
      litMap := litMap, litMapOff := 0, distMap := distMap, distMapOff := 0, mtf := mtf,
      step := .commands }
  match x s.rd with
  | (.ok s', rd') => (.ok (), { s' with rd := rd' })
  | (.error e, rd') => (.error e, { s with rd := rd' })

/-- what `readBlockHeader` reads before it branches. -/
inductive Hdr where
  | lastEmpty                                                -- ISLAST, ISLASTEMPTY
  | metadata (last : Bool) (skipLen : Nat)                   -- MNIBBLES = 3: MSKIPLEN bytes follow the padding
  | data (last : Bool) (blkLen : Nat) (uncompressed : Bool)  -- MLEN, ISUNCOMPRESSED
deriving Repr, DecidableEq, Inhabited

/-- `c && ReadBits(1) == 1` (ISLASTEMPTY is read only after ISLAST, ISUNCOMPRESSED only when not last). -/
def readFlagIf (c : Bool) : M Bool := if c then (· == 1) <$> readBits 1 else pure false

/-- MSKIPLEN from MSKIPBYTES bytes. -/
def readSkipLen (skipBytes : Nat) : M Nat :=
  if skipBytes > 0 then do
    let v ← readBits (skipBytes * 8)
    if skipBytes > 1 ∧ v >>> ((skipBytes - 1) * 8) = 0 then panic .corrupted   -- not the shortest form
    else pure (v + 1)
  else pure 0

/-- MLEN from `nibbles` nibbles. -/
def readMLen (nibbles : Nat) : M Nat := do
  let blkLen ← readBits (nibbles * 4)
  if nibbles > 4 ∧ blkLen >>> ((nibbles - 1) * 4) = 0 then panic .corrupted     -- not the shortest form
  else pure (blkLen + 1)

/-- the reads of `readBlockHeader` (ISLAST .. ISUNCOMPRESSED) with their checks, in the order of the Go code. -/
def readHdr : M Hdr := do
  let last := (← readBits 1) == 1
  let empty ← readFlagIf last
  if empty then pure .lastEmpty
  else do
    let nibbles := (← readBits 2) + 4
    if nibbles = 7 then do
      if (← readBits 1) == 1 then panic .corrupted                      -- reserved bit
      else do
        let skipBytes ← readBits 2
        let skipLen ← readSkipLen skipBytes
        pure (.metadata last skipLen)
    else do
      let blkLen ← readMLen nibbles
      let uncompressed ← readFlagIf (!last)
      pure (.data last blkLen uncompressed)

/-- `readBlockHeader`: the header fields (`readHdr`), then the branch.  The recursive call for
    ISLASTEMPTY is `finishStream`. -/
def readBlockHeader : S Unit := do
  if (← getS).last then finishStream
  else do
    match ← liftR readHdr with
    | .lastEmpty => do
      modS fun s => { s with last := true }
      finishStream
    | .metadata last skipLen => do
      modS fun s => { s with last := last }
      if (← liftR readPads) > 0 then spanic .corrupted
      else do
        modS fun s => { s with blkLen := skipLen }      -- blkLen tracks the metadata bytes
        readMetaData
    | .data last blkLen uncompressed => do
      modS fun s => { s with last := last, blkLen := blkLen }
      if uncompressed then do
        if (← liftR readPads) > 0 then spanic .corrupted
        else readRawData
      else readPrefixCodes

/-- `readStreamHeader`. -/
def readStreamHeader : S Unit := do
  let wbits ← liftR (readSymbol decWinBits)
  if wbits = 0 then spanic .corrupted         -- reserved value
  else do
    modS fun s => { s with dict := Dict.init (2 ^ wbits - 16) s.dict.cap }
    readBlockHeader

/-! ### readCommands -/

/-- the `for i := range buf` loop of `readLiterals`. -/
def litLoop : Nat → UInt8 → UInt8 → S Unit
  | 0, _, _ => pure ()
  | n+1, p1, p2 => do
    if (← getS).litBlk.typeLen = 0 then do
      let bd ← liftR (readBlockSwitch (← getS).litBlk)
      modS fun s => { s with litBlk := bd, litMapOff := 64 * bd.type0, cmode := s.cmodes.getD bd.type0 0 }
    modS fun s => { s with litBlk := { s.litBlk with typeLen := s.litBlk.typeLen - 1 } }
    let s ← getS
    let cid := getLitContextID p1 p2 s.cmode
    let tree := s.litBlk.prefixes.getD (s.litMap.getD (s.litMapOff + cid) 0) {}
    let litSym ← liftR (readSymbol tree)
    let c := UInt8.ofNat litSym
    modS fun s => { s with dict := s.dict.writeByte c }
    litLoop n c p1

/-- `cnt := br.dict.WriteCopy(br.dist, br.cpyLen)`. -/
def dictWriteCopy : S Nat := fun s =>
  let (d, cnt) := s.dict.writeCopy s.dist s.cpyLen
  (.ok cnt, { s with dict := d })

/-- `cnt := copy(br.dict.WriteSlice(), br.word); br.dict.WriteMark(cnt)`. -/
def dictWriteWord : S Nat := fun s =>
  let (d, cnt) := s.dict.writeBytes s.word
  (.ok cnt, { s with dict := d })

/-- the distance a distance symbol stands for (the `distSym < 16` / direct / long-code cases of
    `readDistance`); it may be zero or negative (the caller panics then). -/
def decodeDistance (s : State) (distSym : Nat) : M Int :=
  if distSym < 16 then
    let rec_ := distShortLUT.getD distSym default
    let base := match rec_.1 with | 0 => s.dists0 | 1 => s.dists1 | 2 => s.dists2 | _ => s.dists3
    pure ((base : Int) + rec_.2)
  else if distSym < 16 + s.ndirect then pure ((distSym - 15 : Nat) : Int)
  else do
    let rec_ := (distLongLUTs.getD s.npostfix #[]).getD (distSym - (16 + s.ndirect)) default
    let extra ← readBits rec_.extra
    pure ((s.ndirect + rec_.base + (extra <<< s.npostfix) : Nat) : Int)

/-- the head of `copyStaticDict`: the transformed word for a copy of `cpyLen` bytes from
    `wordIdx = dist - (HistSize + 1)`. -/
def staticWord (sd : ByteArray) (cpyLen wordIdx : Nat) : Except BErr (List UInt8) :=
  if cpyLen < minDictWordLen ∨ cpyLen > maxDictWordLen then .error .corrupted
  else
    let index := wordIdx % nwords cpyLen
    let offset := doffset cpyLen + index * cpyLen
    let baseWord := (List.range cpyLen).map fun i => sd.get! (offset + i)
    let transformIdx := wordIdx >>> ndbits.getD cpyLen 0
    match transforms[transformIdx]? with
    | none => .error .corrupted
    | some t => .ok (t.apply baseWord)

/-- the labels of `readCommands`. -/
inductive Label where
  | startCommand | readLiterals | readDistance | copyDynamicDict | copyStaticDict | finishCommand
deriving Repr, DecidableEq, Inhabited

def suspend (st : Sub) : S Unit := do
  flush
  modS fun s => { s with step := .commands, stepState := st }

/-- where a label of `readCommands` ends: `goto` another label, or return from `readCommands`
    (suspended for more buffer space, or done with the meta-block). -/
inductive Next where
  | goto (l : Label)
  | ret
deriving Repr, DecidableEq, Inhabited

/-- the block of code at one label of `readCommands`. -/
def doLabel (sd : ByteArray) : Label → S Next
  | .startCommand => do
    if (← getS).iacBlk.typeLen = 0 then do
      let bd ← liftR (readBlockSwitch (← getS).iacBlk)
      modS fun s => { s with iacBlk := bd }
    modS fun s => { s with iacBlk := { s.iacBlk with typeLen := s.iacBlk.typeLen - 1 } }
    let s ← getS
    let iacSym ← liftR (readSymbol (s.iacBlk.prefixes.getD s.iacBlk.type0 {}))
    let rec_ := iacLUT.getD iacSym default
    let insExtra ← liftR (readBits rec_.1.extra)
    let cpyExtra ← liftR (readBits rec_.2.extra)
    modS fun s => { s with insLen := rec_.1.base + insExtra, cpyLen := rec_.2.base + cpyExtra,
                             distZero := decide (iacSym < 128) }
    if rec_.1.base + insExtra > 0 then pure (.goto .readLiterals)
    else pure (.goto .readDistance)
  | .readLiterals => do
    let s ← getS
    let n := min s.dict.availSize s.insLen                 -- len(buf)
    let (p1, p2) := s.dict.lastBytes
    litLoop n p1 p2
    modS fun s => { s with insLen := s.insLen - n, blkLen := s.blkLen - n }
    let s ← getS
    if s.insLen > 0 then do
      suspend .literals
      pure .ret
    else if s.blkLen > 0 then pure (.goto .readDistance)
    else pure (.goto .finishCommand)
  | .readDistance => do
    let s ← getS
    if s.distZero then modS fun s => { s with dist := s.dists0 }
    else do
      if s.distBlk.typeLen = 0 then do
        let bd ← liftR (readBlockSwitch s.distBlk)
        modS fun s => { s with distBlk := bd, distMapOff := 4 * bd.type0 }
      modS fun s => { s with distBlk := { s.distBlk with typeLen := s.distBlk.typeLen - 1 } }
      let s ← getS
      let cid := getDistContextID s.cpyLen
      let tree := s.distBlk.prefixes.getD (s.distMap.getD (s.distMapOff + cid) 0) {}
      let distSym ← liftR (readSymbol tree)
      let dist ← liftR (decodeDistance s distSym)
      modS fun s => { s with distZero := decide (distSym = 0), dist := dist.toNat }
      if dist ≤ 0 then spanic .corrupted
    let s ← getS
    if s.dist ≤ s.dict.histSize then do
      if !s.distZero then
        modS fun s => { s with dists3 := s.dists2, dists2 := s.dists1, dists1 := s.dists0, dists0 := s.dist }
      pure (.goto .copyDynamicDict)
    else pure (.goto .copyStaticDict)
  | .copyDynamicDict => do
    let cnt ← dictWriteCopy
    modS fun s => { s with blkLen := s.blkLen - cnt, cpyLen := s.cpyLen - cnt }
    if (← getS).cpyLen > 0 then do
      suspend .dynamicDict
      pure .ret
    else pure (.goto .finishCommand)
  | .copyStaticDict => do
    let s ← getS
    if s.word.isEmpty then do
      match staticWord sd s.cpyLen (s.dist - (s.dict.histSize + 1)) with
      | .error e => spanic e
      | .ok w => modS fun s => { s with word := w }
    let cnt ← dictWriteWord
    modS fun s => { s with word := s.word.drop cnt, blkLen := s.blkLen - cnt }
    if !(← getS).word.isEmpty then do
      suspend .staticDict
      pure .ret
    else pure (.goto .finishCommand)
  | .finishCommand => do
    let s ← getS
    if s.blkLen < 0 then spanic .corrupted
    else if s.blkLen > 0 then pure (.goto .startCommand)      -- more commands in this block
    else do
      flush
      modS fun s => { s with step := .blockHeader, stepState := .init }
      pure .ret

/-- `readCommands` from a label on: follow the gotos (`fuel` bounds their number). -/
def cmdLoop (sd : ByteArray) : Nat → Label → S Unit
  | 0, _ => spanic .corrupted
  | fuel+1, l => do
    match ← doLabel sd l with
    | .goto l' => cmdLoop sd fuel l'
    | .ret => pure ()

/-- `readCommands`: enter at the label `stepState` names. -/
def readCommands (sd : ByteArray) : S Unit := fun s =>
  let fuel := 6 * (s.rd.bits.length + s.blkLen.toNat + s.insLen + 4)
  let label : Label :=
    match s.stepState with
    | .init => .startCommand
    | .literals => .readLiterals
    | .dynamicDict => .copyDynamicDict
    | .staticDict => .copyStaticDict
  cmdLoop sd fuel label s

/-! ### Read -/

/-- one `br.step(br)` under `errors.Recover`, then the bookkeeping of `Read`:
    `InputOffset`, and the flush of the window when an error is pending. -/
def stepOnce (sd : ByteArray) (s : State) : State :=
  let (r, s') :=
    match s.step with
    | .streamHeader => readStreamHeader s
    | .blockHeader => readBlockHeader s
    | .rawData => readRawData s
    | .commands => readCommands sd s
  let s' := match r with
    | .error e => { s' with err := some e }
    | .ok _ => s'
  let s' := { s' with inOff := if s'.err = some .unexpectedEOF then s'.totalBytes else (s'.rd.used + 7) / 8 }
  if s'.err ≠ none then
    let (d, fl) := s'.dict.readFlush
    { s' with dict := d, toRead := fl }
  else s'

/-- `Reader.Read(buf)` with `len(buf) = n`: (state, bytes, error). `fuel` bounds the steps. -/
def read (sd : ByteArray) : Nat → State → Nat → State × List UInt8 × Option BErr
  | 0, s, _ => (s, [], some .corrupted)
  | fuel+1, s, n =>
    if !s.toRead.isEmpty then
      let out := s.toRead.take n
      ({ s with toRead := s.toRead.drop n, outOff := s.outOff + out.length }, out, none)
    else if s.err ≠ none then (s, [], s.err)
    else read sd fuel (stepOnce sd s) n

/-- enough fuel for one `Read`: a step that neither delivers nor fails consumes input. -/
def readFuel (bytes : List UInt8) : Nat := 8 * bytes.length + 16

/-- what one call of `Read` returned and the two counters after it. -/
structure ReadRec where
  out    : List UInt8
  err    : Option BErr
  inOff  : Nat
  outOff : Nat
deriving Inhabited

/-- drive `Read` (each call with step fuel `rfuel`) with a schedule of buffer lengths (the last
    entry repeats) until an error is returned.  The records come in reverse order. -/
def runReads (sd : ByteArray) (rfuel : Nat) : Nat → State → List Nat → List ReadRec → List ReadRec × State
  | 0, s, _, acc => (acc, s)
  | fuel+1, s, sched, acc =>
    let n := sched.headD 4096
    let sched' := if sched.length > 1 then sched.tail else sched
    let (s', out, e) := read sd rfuel s n
    let acc := { out := out, err := e, inOff := s'.inOff, outOff := s'.outOff } :: acc
    match e with
    | some _ => (acc, s')
    | none => runReads sd rfuel fuel s' sched' acc

/-- delivered bytes, final error (`none`: out of fuel) and final state. -/
def run (sd : ByteArray) (fuel : Nat) (bytes : List UInt8) (sched : List Nat) :
    List UInt8 × Option BErr × State :=
  let (recs, s) := runReads sd (readFuel bytes) fuel (init bytes) sched []
  ((recs.reverse.map (·.out)).flatten, (recs.head?.bind (·.err)), s)

end Compress.Brotli.Impl
