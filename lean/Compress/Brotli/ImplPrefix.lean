/-
Go-shaped model of the bit-level part of /repo/brotli: bit_reader.go
(`ReadBits`, `ReadPads`, `ReadSymbol`, `ReadOffset`, `ReadPrefixCode` with
`readSimplePrefixCode` / `readComplexPrefixCode`), prefix_decoder.go
(`prefixDecoder.Init` with both ways of allocating link tables) and the fixed
codes and look-up tables of prefix.go (`decCLens`, `decMaxRLE`, `decWinBits`,
`decCounts`, `iacLUT`, `distShortLUT`, `distLongLUT`, the range tables).

Abstractions (the same as in Flate/Impl.lean):
* the input is the LSB-first bit list of the stream; the 64-bit buffer and
  the two source modes of `bitReader` are the subject of theorem S4 on the
  shared bit reader.  `TryReadBits`/`TryReadSymbol` are the fast paths of
  `ReadBits`/`ReadSymbol` and are not modelled separately.
* `allocUint32s`/`extendSliceUints32s` reuse old storage without clearing it;
  the model starts every table from zeros.  (Init only gets that far when the
  code is complete, and then every entry is overwritten.)
* `prefixDecoder` is the structure `Compress.Prefix.Decoder` (same fields, same
  chunk encoding `sym<<5|len`); the look-up is `Decoder.lookup`.

Errors keep the reader state, as a Go panic leaves the `bitReader` where it was.
Core-only.
-/
import Compress.Prefix.Tables
import Compress.Brotli.Tables

namespace Compress.Brotli.Impl
open Compress Compress.Prefix

inductive BErr where
  | eof             -- io.EOF
  | unexpectedEOF   -- io.ErrUnexpectedEOF
  | corrupted       -- errCorrupted
  | invalid         -- errInvalid ("decode with empty tree"; brotli.Reader does not re-class it)
deriving Repr, DecidableEq, Inhabited

/-- the `bitReader`: unread bits and the number of bits consumed. -/
structure BR where
  bits : Bits
  used : Nat := 0
deriving Inhabited

def M (α : Type) : Type := BR → Except BErr α × BR

namespace M
@[always_inline, inline] protected def pure (a : α) : M α := fun r => (.ok a, r)
@[always_inline, inline] protected def bind (x : M α) (f : α → M β) : M β := fun r =>
  match x r with
  | (.ok a, r') => f a r'
  | (.error e, r') => (.error e, r')
@[always_inline] instance : Monad M where
  pure := M.pure
  bind := M.bind
end M

/-- `errors.Panic(e)`. -/
@[always_inline, inline] def panic (e : BErr) : M α := fun r => (.error e, r)

def liftE (x : Except BErr α) : M α := fun r => (x, r)

/-- `ReadBits(nb)`. -/
def readBits (n : Nat) : M Nat := fun r =>
  let hd := r.bits.take n
  if hd.length < n then (.error .unexpectedEOF, r)
  else (.ok (Bits.toNat hd), { bits := r.bits.drop n, used := r.used + n })

/-- `ReadPads()`: the bits up to the next byte boundary (they are in the buffer). -/
def readPads : M Nat := fun r =>
  let n := (8 - r.used % 8) % 8
  (.ok (Bits.toNat (r.bits.take n)), { bits := r.bits.drop n, used := r.used + n })

/-! ### prefix_decoder.go -/

/-- `reverseBits(v, n)`. -/
def reverseBitsN (v n : Nat) : Nat := Prefix.reverseBits v n

/-- the `for _, c := range codes` loop that fills chunks and links (codes carry their values). -/
def fillTables (codes : List Code) (chunkBits numChunks : Nat)
    (chunks : Array Nat) (links : Array (Array Nat)) : Array Nat × Array (Array Nat) :=
  codes.foldl (fun (st : Array Nat × Array (Array Nat)) c =>
    let chunk := c.sym * 32 + c.len
    if c.len ≤ chunkBits then
      (fillStride st.1 c.val (2 ^ c.len) chunk, st.2)
    else
      let linkIdx := (st.1.getD (c.val % numChunks) 0) / 32
      let lk := fillStride (st.2.getD linkIdx #[]) (c.val / 2 ^ chunkBits) (2 ^ (c.len - chunkBits)) chunk
      (st.1, st.2.set! linkIdx lk)) (chunks, links)

/-- `prefixDecoder.Init(codes, assignCodes)`.  `.error .corrupted` where Go panics
    with errCorrupted.  A code length above 15 would index `bitCnts` out of range
    (a run-time panic in Go); no caller produces one, the model answers `invalid`. -/
def initDecoder (codes : List Code) (assign : Bool) : Except BErr Decoder :=
  match codes with
  | [] => .ok { numSyms := 0 }
  | [c] => .ok { chunks := #[c.sym * 32], numSyms := 1 }
  | c0 :: rest =>
    if codes.any (fun c => c.len > 15) then .error .invalid
    else if !symsIncreasing codes then .error .corrupted       -- non-unique or not increasing
    else
      let minBits := rest.foldl (fun m c => min m c.len) c0.len
      let maxBits := rest.foldl (fun m c => max m c.len) c0.len
      let symLast := (codes.getLast?.getD c0).sym
      if maxBits ≥ 32 ∨ minBits = 0 then .error .corrupted
      else if symLast ≥ 2 ^ 27 then .error .corrupted
      else
        let (tbl, code) := nextCodesLoop codes (maxBits + 1 - minBits) minBits 0 []
        if code ≠ 2 ^ maxBits then .error .corrupted            -- under- or over-subscribed
        else
          let next : Nat → Nat := fun l => ((tbl.find? (·.1 == l)).map (·.2)).getD 0
          let chunkBits := min maxBits maxChunkBits
          let numChunks := 2 ^ chunkBits
          let chunkMask := numChunks - 1
          let chunks0 : Array Nat := Array.replicate numChunks 0
          let cs := if assign then assignVals codes next else codes
          let (chunks1, nLinks, linkMask) :=
            if chunkBits < maxBits then
              let numLinks := 2 ^ (maxBits - chunkBits)
              if assign then
                let baseCode := next (chunkBits + 1) / 2
                let n := numChunks - baseCode
                ((List.range n).foldl (fun (ch : Array Nat) li =>
                    ch.setIfInBounds (reverseBitsN (baseCode + li) chunkBits) (li * 32 + (chunkBits + 1))) chunks0,
                 n, numLinks - 1)
              else
                let (ch, n) := reserveLinks codes chunkBits chunkMask chunks0 0
                (ch, n, numLinks - 1)
            else (chunks0, 0, 0)
          let links0 : Array (Array Nat) := Array.replicate nLinks (Array.replicate (linkMask + 1) 0)
          let (chunks, links) := fillTables cs chunkBits numChunks chunks1 links0
          .ok { chunks := chunks, links := links, chunkMask := chunkMask, linkMask := linkMask,
                chunkBits := chunkBits, minBits := minBits, numSyms := codes.length }

/-- `ReadSymbol(pd)` over the remaining bits (codes are at most 15 bits long, so 32
    bits of look-ahead decide everything): an empty table is errInvalid; fewer than
    `minBits` bits, or a code longer than what is left, is unexpected EOF. -/
def readSymbol (d : Decoder) : M Nat := fun r =>
  if d.chunks.size = 0 then (.error .invalid, r)
  else
    let w := r.bits.take 32
    if w.length < d.minBits then (.error .unexpectedEOF, r)
    else
      let (sym, len) := d.lookup (Bits.toNat w)
      if len ≤ w.length then (.ok sym, { bits := r.bits.drop len, used := r.used + len })
      else (.error .unexpectedEOF, r)

/-- `ReadOffset(sym, rcs)` (an index outside the table is a run-time panic in Go; no caller produces one). -/
def readOffset (sym : Nat) (rcs : Array Range) : M Nat :=
  match rcs[sym]? with
  | none => panic .invalid
  | some rc => do
    let v ← readBits rc.extra
    pure (rc.base + v)

/-! ### prefix.go: fixed codes and tables -/

def insLenRanges : Array Range := insertRanges
def cpyLenRanges : Array Range := copyRanges
def blkLenRanges : Array Range := blockCountRanges
def maxRLERanges : Array Range := (mkRanges 2 [1, 2, 3, 4, 5, 6, 7, 8, 9, 10, 11, 12, 13, 14, 15, 16]).toArray

def orEmpty (x : Except BErr Decoder) : Decoder :=
  match x with
  | .ok d => d
  | .error _ => {}

def codeCLens : List Code :=
  [2, 4, 3, 2, 2, 4].zipIdx.map fun (l, s) => { sym := s, len := l }
def decCLens : Decoder := orEmpty (initDecoder codeCLens true)

def codeMaxRLE : List Code :=
  { sym := 0, val := 0, len := 1 } :: (List.range 16).map fun i => { sym := i + 1, val := i * 2 + 1, len := 5 }
def decMaxRLE : Decoder := orEmpty (initDecoder codeMaxRLE false)

def codeWinBits : List Code :=
  (List.range 16).map fun k =>
    let i := k + 9
    let c : Code :=
      if i = 16 then { sym := i, val := 0, len := 1 }
      else if i > 17 then { sym := i, val := (i - 17) * 2 + 1, len := 4 }
      else if i < 17 then { sym := i, val := (i - 8) * 16 + 1, len := 7 }
      else { sym := i, val := 1, len := 7 }
    if k = 0 then { c with sym := 0 } else c     -- the invalid code 1000100 maps to symbol zero
def decWinBits : Decoder := orEmpty (initDecoder codeWinBits false)

def codeCounts : List Code :=
  { sym := 1, val := 0, len := 1 } ::
    ((List.range 8).map fun i => (List.range (2 ^ i)).map fun j =>
      ({ sym := 2 ^ i + j + 1, val := j * 16 + i * 2 + 1, len := i + 4 } : Code)).flatten
def decCounts : Decoder := orEmpty (initDecoder codeCounts false)

/-- `iacLUT`. -/
def iacLUT : Array (Range × Range) :=
  ((List.range 704).map fun iacSym =>
    let (insSym, cpySym) : Nat × Nat :=
      match iacSym / 64 with
      | 0 | 2 => (0, 0)
      | 1 | 3 => (0, 8)
      | 4 => (8, 0)
      | 5 => (8, 8)
      | 6 => (0, 16)
      | 7 => (16, 0)
      | 8 => (8, 16)
      | 9 => (16, 8)
      | _ => (16, 16)
    let r64 := iacSym % 64
    (insLenRanges.getD (insSym + r64 / 8) default, cpyLenRanges.getD (cpySym + r64 % 8) default)).toArray

/-- `distShortLUT`: (index into `dists`, delta). -/
def distShortLUT : Array (Nat × Int) :=
  ((List.range 16).map fun distSym =>
    let (index, delta) : Nat × Int :=
      if distSym < 4 then (distSym, 0)
      else if distSym < 10 then (0, (distSym / 2 : Nat) - 1)
      else (1, (distSym / 2 : Nat) - 4)
    (index, if distSym % 2 = 0 then -delta else delta)).toArray

/-- `distLongLUT[npostfix]`: (base, bits). -/
def distLongLUT (npostfix : Nat) : Array Range :=
  ((List.range (48 <<< npostfix)).map fun distSym =>
    let hcode := distSym >>> npostfix
    let lcode := distSym % 2 ^ npostfix
    let nbits := 1 + (distSym >>> (npostfix + 1))
    let offset := ((2 + hcode % 2) <<< nbits) - 4
    ({ base := (offset <<< npostfix) + lcode + 1, extra := nbits } : Range)).toArray

def distLongLUTs : Array (Array Range) := #[distLongLUT 0, distLongLUT 1, distLongLUT 2, distLongLUT 3]

/-! ### bit_reader.go: reading prefix code definitions -/

/-- `neededBits(n)`: bits needed to encode `n` elements. -/
def neededBits (n : Nat) : Nat := if n ≤ 1 then 0 else Nat.log2 (n - 1) + 1

def readSyms (clen : Nat) : Nat → M (List Nat)
  | 0 => pure []
  | n+1 => do
    let s ← readBits clen
    let rest ← readSyms clen n
    pure (s :: rest)

/-- `compareSwap(i, j)`. -/
def compareSwap (a : Array Code) (i j : Nat) : Array Code :=
  let x := a.getD i default
  let y := a.getD j default
  if x.sym > y.sym then (a.setIfInBounds i y).setIfInBounds j x else a

/-- `readSimplePrefixCode`. -/
def readSimplePrefixCode (maxSyms : Nat) : M Decoder := do
  let nsym := (← readBits 2) + 1
  let clen := neededBits maxSyms
  let syms ← readSyms clen nsym
  let mk (lens : List Nat) : Array Code :=
    ((syms.zip lens).map fun (s, l) => ({ sym := s, len := l } : Code)).toArray
  let codes : Array Code ←
    match nsym with
    | 1 => pure (mk [0])
    | 2 => pure (compareSwap (mk [1, 1]) 0 1)
    | 3 => pure (compareSwap (compareSwap (compareSwap (mk [1, 2, 2]) 0 1) 0 2) 1 2)
    | _ => do
      let tsel ← readBits 1
      let a := mk (if tsel = 1 then [1, 2, 3, 3] else [2, 2, 2, 2])
      pure (compareSwap (compareSwap (compareSwap (compareSwap (compareSwap a 0 1) 2 3) 0 2) 1 3) 1 2)
  if (codes.getD (nsym - 1) default).sym ≥ maxSyms then panic .corrupted   -- symbol beyond the alphabet
  else liftE (initDecoder codes.toList true)

/-- the first loop of `readComplexPrefixCode`: code lengths of the code-length code,
    in the order `complexLens[hskip:]`, until the space of 32 is used up. -/
def readCLens : List Nat → Int → Array Nat → M (Array Nat)
  | [], _, arr => pure arr
  | sym :: rest, sum, arr => do
    let clen ← readSymbol decCLens
    if clen > 0 then
      let arr := arr.setIfInBounds sym clen
      let sum := sum - (32 >>> clen : Nat)
      if sum ≤ 0 then pure arr else readCLens rest sum arr
    else readCLens rest sum arr

structure CLState where
  sym        : Nat := 0
  sum        : Int := 32768
  repSymLast : Nat := 0
  repCntLast : Nat := 0
  clenLast   : Nat := 8
  codes      : List Code := []     -- in reverse order

/-- the second loop of `readComplexPrefixCode` (`fuel`: every round advances `sym`). -/
def readCodeLens (pd : Decoder) (maxSyms : Nat) : Nat → CLState → M CLState
  | 0, _ => panic .corrupted
  | fuel+1, st =>
    if st.sym < maxSyms ∧ st.sum > 0 then do
      let clen ← readSymbol pd
      if clen < 16 then
        let st := if clen > 0 then
            { st with codes := { sym := st.sym, len := clen } :: st.codes, clenLast := clen,
                      sum := st.sum - (32768 >>> clen : Nat) }
          else st
        readCodeLens pd maxSyms fuel { st with repSymLast := 0, sym := st.sym + 1 }
      else
        let repSym := clen
        let st := if repSym ≠ st.repSymLast then { st with repCntLast := 0, repSymLast := repSym } else st
        let nb := repSym - 14
        let rep := (← readBits nb) + 3
        let rep := if st.repCntLast > 0 then rep + ((st.repCntLast - 2) <<< nb) else rep
        let repDiff := rep - st.repCntLast
        let st := { st with repCntLast := rep }
        if repSym = 16 then
          let clen := st.clenLast
          let codes := (List.range repDiff).foldl (fun (acc : List Code) k => { sym := st.sym + k, len := clen } :: acc) st.codes
          readCodeLens pd maxSyms fuel
            { st with codes := codes, sym := st.sym + repDiff, sum := st.sum - ((repDiff * (32768 >>> clen) : Nat) : Int) }
        else
          readCodeLens pd maxSyms fuel { st with sym := st.sym + repDiff }
    else pure st

def complexLens : List Nat := codeLengthOrder

/-- `readComplexPrefixCode`. -/
def readComplexPrefixCode (maxSyms hskip : Nat) : M Decoder := do
  let arr ← readCLens (complexLens.drop hskip) 32 (Array.replicate 18 0)
  let codeCL : List Code := arr.toList.zipIdx.filterMap fun (l, s) => if l > 0 then some { sym := s, len := l } else none
  if codeCL.length < 1 then panic .corrupted
  else do
    let pd ← liftE (initDecoder codeCL true)
    let st ← readCodeLens pd maxSyms (maxSyms + 1) {}
    if st.codes.length < 2 ∨ st.sym > maxSyms then panic .corrupted
    else liftE (initDecoder st.codes.reverse true)

/-- `ReadPrefixCode(pd, maxSyms)`. -/
def readPrefixCode (maxSyms : Nat) : M Decoder := do
  let hskip ← readBits 2
  if hskip = 1 then readSimplePrefixCode maxSyms
  else readComplexPrefixCode maxSyms hskip

def readPrefixCodesN (maxSyms : Nat) : Nat → Array Decoder → M (Array Decoder)
  | 0, acc => pure acc
  | n+1, acc => do
    let d ← readPrefixCode maxSyms
    readPrefixCodesN maxSyms n (acc.push d)

end Compress.Brotli.Impl
