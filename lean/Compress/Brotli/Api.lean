/-
API-level model of brotli.Reader (/repo/brotli/reader.go): the exported methods
`Read`, `Close`, `Reset` and the counters `InputOffset` / `OutputOffset`, as a
state machine around the Go-shaped decoder model `Compress.Brotli.Impl` (used
unchanged: `Impl.read` is the `for` loop of `Read`, `Impl.init` the state
`Reset` leaves).

What this file adds to `Impl`:

* the `done` flag and the closed marker.  `Close` is
      if br.err == io.EOF || br.done { br.toRead = nil; br.err, br.done = io.ErrClosedPipe, true; return nil }
      return br.err
  `br.done` is set only there and only together with `br.err = io.ErrClosedPipe` and
  `br.toRead = nil`, and cleared only by `Reset`, so `done = true` *is* "br.err holds the
  closed marker and nothing is pending"; `Read` then takes the `br.err != nil` exit and
  returns `(0, io.ErrClosedPipe)`.  `Reader.err` is the value of `br.err`.  Unlike
  flate, a Close that returns the latched error leaves `br.toRead` alone.
* a source that fails.  The input is `data` plus an optional fault `(failAt, tag)`:
  the source delivers `data.take failAt` and answers every request for a byte at or
  beyond `failAt` with the error `tag` (for ever).  `bitReader.FeedBits`, `readRawData`
  and `readMetaData` replace only `io.EOF` by `io.ErrUnexpectedEOF`; `errors.Recover`
  stores what was passed to `errors.Panic` (brotli has no errWrap), so every other
  error reaches `br.err` as it is: `AErr.other tag`.  In `Impl`, `unexpectedEOF` is
  raised exactly where the input runs out, hence `liftErr`.
* `Reset` keeps the window (its backing array) and the three block decoders.

The abstraction of `Impl` is kept (input as a bit list; a raw read takes all the
bytes that are available).  Core-only.
-/
import Compress.Brotli.Impl

namespace Compress.Brotli.Api
open Compress Compress.Brotli.Impl

/-- the errors the API hands out: the classes of `Impl`, the closed marker (`io.ErrClosedPipe`
    set by `Close`), and an error of the underlying reader, identified by a tag. -/
inductive AErr where
  | eof | unexpectedEOF | corrupted | invalid | closed
  | other (tag : Nat)
deriving Repr, DecidableEq, Inhabited

/-- the underlying `io.Reader`: its bytes and, optionally, the position from which it fails and
    the error it fails with. -/
structure Src where
  data  : List UInt8
  fault : Option (Nat × Nat) := none
deriving Repr, Inhabited

/-- the bytes the source delivers before it fails (all of them without a fault). -/
def Src.avail (src : Src) : List UInt8 :=
  match src.fault with
  | some (k, _) => src.data.take k
  | none => src.data

/-- the error that takes the place of "end of input", if the source fails. -/
def Src.tag (src : Src) : Option Nat := src.fault.map (·.2)

/-- `br.err` as the caller sees it: running out of input is the source's error, if it has one. -/
def liftErr (tag : Option Nat) : BErr → AErr
  | .eof => .eof
  | .corrupted => .corrupted
  | .invalid => .invalid
  | .unexpectedEOF => match tag with | some t => .other t | none => .unexpectedEOF

structure Reader where
  core : State
  tag  : Option Nat := none       -- the error of the current source (none: it ends with io.EOF)
  done : Bool := false            -- br.done
deriving Inhabited

/-- `br.err`. -/
def Reader.err (r : Reader) : Option AErr :=
  if r.done then some .closed else r.core.err.map (liftErr r.tag)

/-- `br.InputOffset`. -/
def Reader.inputOffset (r : Reader) : Nat := r.core.inOff

/-- `br.OutputOffset`. -/
def Reader.outputOffset (r : Reader) : Nat := r.core.outOff

/-- `NewReader`. -/
def newReader (src : Src) : Reader := { core := init src.avail, tag := src.tag }

/-- the struct literal of `Reset`: everything is re-initialised but the window (`Dict.init` keeps
    its capacity) and the block decoders. -/
def resetCore (c : State) (bytes : List UInt8) : State :=
  { init bytes with dict := c.dict, iacBlk := c.iacBlk, litBlk := c.litBlk, distBlk := c.distBlk }

/-- `Reset`. -/
def Reader.reset (r : Reader) (src : Src) : Reader :=
  { core := resetCore r.core src.avail, tag := src.tag, done := false }

def readFuel (c : State) : Nat := 8 * c.totalBytes + 16

/-- In Go, an error `Read` returns is `br.err`, and it is returned only when `br.toRead` is empty.
    `Impl.read` has one more exit: it bounds the `for` loop by a fuel and answers `corrupted`,
    without latching it, when the bound is hit (the Go loop has no bound).  The API model latches
    whatever error was returned, so that "a returned error is latched" holds of every state; on
    the exits that exist in Go this changes nothing (`latchBound_id`). -/
def latchBound (c : State) (e : Option BErr) : State :=
  match e with
  | some x => { c with err := some x, toRead := [] }
  | none => c

/-- `Read(buf)`, `len(buf) = n`; `sd` is the static dictionary. -/
def Reader.read (sd : ByteArray) (r : Reader) (n : Nat) : Reader × List UInt8 × Option AErr :=
  if r.done then (r, [], some .closed)     -- toRead == nil, br.err == io.ErrClosedPipe
  else
    let (c, out, e) := Impl.read sd (readFuel r.core) r.core n
    ({ r with core := latchBound c e }, out, e.map (liftErr r.tag))

/-- `Close`. -/
def Reader.close (r : Reader) : Reader × Option AErr :=
  if r.err = some .eof ∨ r.done then ({ r with core := { r.core with toRead := [] }, done := true }, none)
  else (r, r.err)

inductive Op where
  | read (n : Nat) | close | reset (src : Src)
deriving Repr, Inhabited

inductive Res where
  | read (out : List UInt8) (err : Option AErr) | close (err : Option AErr) | reset
deriving Repr, DecidableEq, Inhabited

def Reader.step (sd : ByteArray) (r : Reader) : Op → Reader × Res
  | .read n => let (r', out, e) := r.read sd n; (r', .read out e)
  | .close => let (r', e) := r.close; (r', .close e)
  | .reset src => (r.reset src, .reset)

/-- a call sequence: the final state and what every call returned. -/
def Reader.run (sd : ByteArray) : Reader → List Op → Reader × List Res
  | r, [] => (r, [])
  | r, op :: ops =>
    let (r', x) := r.step sd op
    let (r'', xs) := Reader.run sd r' ops
    (r'', x :: xs)

/-- Read and Close, no Reset. -/
def Op.noReset : Op → Bool
  | .reset _ => false
  | _ => true

/-- the bytes a call handed to the caller. -/
def Res.bytes : Res → List UInt8
  | .read out _ => out
  | _ => []

end Compress.Brotli.Api
