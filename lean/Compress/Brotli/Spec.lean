/-
RFC 7932 (Brotli) as a function on bit lists: an executable specification of
the decoder.

Design: the shortest readable definition that follows the RFC section by
section.  The input is the LSB-first bit list of the bytes (`Compress.Bits`);
a tiny state-and-error monad `Dec` threads the unread bits, the number of bits
consumed and the output produced so far, so that the text below reads like the
RFC's own pseudo-code ("read 2 bits", "read a symbol with the prefix code
...").  Prefix codes are decoded canonically by counting codes per length (no
lookup tables), the output is one append-only array (the sliding window is
"the last `windowSize - 16` bytes of the output"), and every loop that is not
structural carries explicit fuel.

`decode` returns the output produced up to the first point where the bits stop
being a valid stream, and a verdict:
* `ok n`         a last meta-block ended; `n` bits were consumed, including the
                 final padding to a byte boundary (trailing bytes are ignored);
* `unexpectedEOF` the input ended inside a stream that was valid so far;
* `corrupt`      otherwise.
A stream is checked element by element in stream order: an element that cannot
occur in a valid stream is `corrupt` at the point where it has been read.  Where
the order of two checks decides between `corrupt` and `unexpectedEOF` on a
truncated invalid stream, the order of libbrotlidec is used (noted inline), with
one exception: an over-subscribed prefix code is an error at once (libbrotlidec
reads on to the end of the alphabet first).  On acceptance / rejection and on the
output of accepted streams there is no such freedom.

The static dictionary (appendix A, 122,784 bytes) is a parameter.
Core-only.
-/
import Compress.Bits
import Compress.Brotli.Tables

namespace Compress.Brotli
open Compress

inductive Verdict where
  | ok (bitsConsumed : Nat)   -- the last meta-block ended; bits consumed incl. the final padding to a byte
  | corrupt
  | unexpectedEOF
deriving Repr, DecidableEq, Inhabited

structure Result where
  out     : Array UInt8
  verdict : Verdict
deriving Repr, DecidableEq, Inhabited

/-! ### the decoder monad: unread bits, bits consumed, output so far; errors keep the state -/

inductive Err where
  | corrupt
  | unexpectedEOF
deriving Repr, DecidableEq, Inhabited

structure St where
  bits : Bits          -- unread input
  used : Nat           -- number of bits consumed
  out  : Array UInt8   -- uncompressed data produced so far
deriving Inhabited

def Dec (α : Type) : Type := St → Except Err α × St

namespace Dec

@[always_inline, inline] protected def pure (a : α) : Dec α := fun s => (.ok a, s)

@[always_inline, inline] protected def bind (x : Dec α) (f : α → Dec β) : Dec β := fun s =>
  match x s with
  | (.ok a, s') => f a s'
  | (.error e, s') => (.error e, s')

@[always_inline] instance : Monad Dec where
  pure := Dec.pure
  bind := Dec.bind

end Dec

@[always_inline, inline] def fail (e : Err) : Dec α := fun s => (.error e, s)

def corrupt : Dec α := fail .corrupt

/-- run `x` inside a stream already known to be invalid: running out of input is then `corrupt` too. -/
def knownCorrupt (x : Dec α) : Dec α := fun s =>
  match x s with
  | (.error _, s') => (.error .corrupt, s')
  | r => r

/-- one bit of input. -/
def readBit : Dec Bool := fun s =>
  match s.bits with
  | [] => (.error .unexpectedEOF, s)
  | b :: rest => (.ok b, { s with bits := rest, used := s.used + 1 })

/-- an `n`-bit unsigned integer, least significant bit first (section 1.5.2). -/
def readBits : Nat → Dec Nat
  | 0 => pure 0
  | n+1 => do
    let b ← readBit
    let v ← readBits n
    pure ((if b then 1 else 0) + 2 * v)

/-- skip to the next byte boundary; the skipped bits must be zero
    (sections 9.2: "ignored bits ... must be zero"). -/
def alignToByte : Dec Unit := do
  let used ← (fun s => (.ok s.used, s) : Dec Nat)
  let pad ← readBits ((8 - used % 8) % 8)
  if pad ≠ 0 then corrupt

/-- append one byte to the uncompressed data. -/
@[inline] def emit (b : UInt8) : Dec Unit := fun s => (.ok (), { s with out := s.out.push b })

def emitAll : List UInt8 → Dec Unit
  | [] => pure ()
  | b :: bs => do emit b; emitAll bs

/-- number of bytes produced so far. -/
@[inline] def outputSize : Dec Nat := fun s => (.ok s.out.size, s)

/-- the byte `back` positions before the end of the output (0 if there is none). -/
@[inline] def outputByte (back : Nat) : Dec UInt8 := fun s =>
  (.ok (if back ≤ s.out.size then s.out.getD (s.out.size - back) 0 else 0), s)

/-- number of unread bits (only used to bound loops). -/
def remainingBits : Dec Nat := fun s => (.ok s.bits.length, s)

/-! ### section 3: prefix codes -/

def maxCodeLen : Nat := 15

/-- a canonical prefix code (section 3.2), prepared for decoding: the number of
    symbols of each code length 0..15 and the symbols ordered by (length,
    symbol).  A code with exactly one symbol is the code of section 3.4/3.5
    whose only code word has zero bits. -/
structure PrefixCode where
  count : Array Nat
  syms  : Array Nat
deriving Repr, Inhabited

/-- the canonical code with the given code lengths (`lens[s] = 0`: `s` unused). -/
def PrefixCode.ofLengths (lens : Array Nat) : PrefixCode :=
  let symsOfLen (l : Nat) : List Nat :=
    lens.toList.zipIdx.filterMap (fun (len, s) => if len = l then some s else none)
  { count := ((List.range (maxCodeLen + 1)).map (fun l => if l = 0 then 0 else (symsOfLen l).length)).toArray,
    syms := (((List.range maxCodeLen).map (fun i => symsOfLen (i + 1))).flatten).toArray }

/-- the code with the single symbol `s` (zero bits per symbol). -/
def PrefixCode.single (s : Nat) : PrefixCode := { count := Array.replicate (maxCodeLen + 1) 0, syms := #[s] }

/-- read one code word: walk lengths 1..15 keeping the code read so far
    (first bit = most significant), the first code of the current length and
    the number of codes of shorter lengths. -/
def PrefixCode.walk (c : PrefixCode) : Nat → Nat → Nat → Nat → Nat → Dec Nat
  | 0, _, _, _, _ => corrupt
  | fuel+1, len, code, first, index => do
    let b ← readBit
    let code := code + (if b then 1 else 0)
    let cnt := c.count.getD len 0
    if code < first + cnt then
      match c.syms[index + (code - first)]? with
      | some s => pure s
      | none => corrupt
    else
      c.walk fuel (len + 1) (2 * code) (2 * (first + cnt)) (index + cnt)

/-- read one symbol with the prefix code `c`. -/
def readSymbol (c : PrefixCode) : Dec Nat :=
  if c.syms.size = 1 then pure (c.syms.getD 0 0)
  else c.walk maxCodeLen 1 0 0 0

/-- number of bits of `n` (`ALPHABET_BITS` of section 3.4 is `bitWidth (alphabetSize - 1)`). -/
def bitWidth (n : Nat) : Nat := if n = 0 then 0 else Nat.log2 n + 1

def readSymbols (width alphabetSize : Nat) : Nat → Dec (List Nat)
  | 0 => pure []
  | n+1 => do
    let s ← readBits width
    if s ≥ alphabetSize then corrupt     -- libbrotlidec checks each symbol as it is read
    else do
      let rest ← readSymbols width alphabetSize n
      pure (s :: rest)

/-- section 3.4: simple prefix code (after the two bits `1`). -/
def readSimplePrefixCode (alphabetSize : Nat) : Dec PrefixCode := do
  let nsym := (← readBits 2) + 1
  let syms ← readSymbols (bitWidth (alphabetSize - 1)) alphabetSize nsym
  if !syms.Nodup then corrupt            -- the symbols must be distinct (checked before tree-select is read)
  else do
    let lens : List Nat ←
      match nsym with
      | 1 => pure [0]
      | 2 => pure [1, 1]
      | 3 => pure [1, 2, 2]
      | _ => do
        let treeSelect ← readBit
        pure (if treeSelect then [1, 2, 3, 3] else [2, 2, 2, 2])
    match syms with
    | [s] => pure (PrefixCode.single s)
    | _ =>
      -- lengths are assigned in the order the symbols appear; codes of the same
      -- length are assigned in increasing symbol order: the canonical code.
      pure (PrefixCode.ofLengths
        ((syms.zip lens).foldl (fun a (s, l) => a.setIfInBounds s l) (Array.replicate alphabetSize 0)))

/-- the fixed code of section 3.5 for code length code lengths. -/
def codeLengthCodeLengthCode : PrefixCode := PrefixCode.ofLengths codeLengthCodeLengths

/-- section 3.5: the code length code lengths, in the order `codeLengthOrder`
    from position HSKIP; reading stops when the code space (32) is used up. -/
def readCodeLengthCodeLengths : List Nat → Nat → Nat → Array Nat → Dec (Array Nat)
  | [], space, num, acc =>
    if space = 0 ∨ num = 1 then pure acc else corrupt
  | pos :: rest, space, num, acc => do
    let v ← readSymbol codeLengthCodeLengthCode
    if v = 0 then readCodeLengthCodeLengths rest space num acc
    else
      let cost := 32 >>> v
      if cost > space then corrupt                              -- over-subscribed
      else if cost = space then pure (acc.setIfInBounds pos v)  -- complete: no more lengths are present
      else readCodeLengthCodeLengths rest (space - cost) (num + 1) (acc.setIfInBounds pos v)

structure LengthsState where
  sym       : Nat := 0          -- next symbol to receive a length
  space     : Int := 32768      -- unused code space, in units of 2^-15
  prevLen   : Nat := 8          -- last non-zero code length (initially 8)
  repeatCnt : Nat := 0          -- count of the repeat in progress (0: none)
  repeatLen : Nat := 0          -- the length repeated by the repeat in progress
  lens      : Array Nat

def setRange (a : Array Nat) (v : Nat) : Nat → Nat → Array Nat
  | _, 0 => a
  | i, n+1 => setRange (a.setIfInBounds i v) v (i + 1) n

/-- section 3.5: the code lengths of the symbols, coded with the code length
    code `cl`: 0..15 literal lengths, 16 = repeat the previous non-zero length
    3..6 times, 17 = repeat zero 3..10 times; consecutive 16s (17s) modify the
    previous repeat count.  Reading stops when the code space is used up or all
    symbols have a length; the lengths must use up the code space exactly.
    (Over-subscription is an error as soon as it happens; libbrotlidec notices
    it only after it has read lengths for the whole alphabet, which makes a
    difference only for corrupt-versus-end-of-input on truncated streams.) -/
def readCodeLengths (cl : PrefixCode) (alphabetSize : Nat) : Nat → LengthsState → Dec (Array Nat)
  | 0, _ => corrupt
  | fuel+1, st =>
    if st.space < 0 then corrupt
    else if st.sym ≥ alphabetSize ∨ st.space = 0 then
      if st.space = 0 then pure st.lens else corrupt
    else do
      let c ← readSymbol cl
      if c < 16 then
        -- a literal code length
        readCodeLengths cl alphabetSize fuel
          (if c = 0 then { st with repeatCnt := 0, sym := st.sym + 1 }
           else { st with repeatCnt := 0, sym := st.sym + 1, prevLen := c,
                          lens := st.lens.setIfInBounds st.sym c,
                          space := st.space - (32768 >>> c : Nat) })
      else do
        -- a repeat code
        let extraBits := c - 14
        let newLen := if c = 16 then st.prevLen else 0
        let old := if st.repeatLen = newLen then st.repeatCnt else 0
        let extra ← readBits extraBits
        let rep := (if old > 0 then (old - 2) <<< extraBits else 0) + extra + 3
        let delta := rep - old
        let st' : LengthsState :=
          { st with repeatCnt := rep, repeatLen := newLen, sym := st.sym + delta,
                    lens := if newLen = 0 then st.lens else setRange st.lens newLen st.sym delta,
                    space := if newLen = 0 then st.space else st.space - (delta * (32768 >>> newLen) : Nat) }
        if st.sym + delta > alphabetSize then corrupt
        else readCodeLengths cl alphabetSize fuel st'

/-- section 3.5: complex prefix code (after the two bits HSKIP ≠ 1). -/
def readComplexPrefixCode (alphabetSize hskip : Nat) : Dec PrefixCode := do
  let cll ← readCodeLengthCodeLengths (codeLengthOrder.drop hskip) 32 0 (Array.replicate 18 0)
  let lens ← readCodeLengths (PrefixCode.ofLengths cll) alphabetSize (alphabetSize + 2)
    { lens := Array.replicate alphabetSize 0 }
  pure (PrefixCode.ofLengths lens)

/-- section 3.4/3.5: a prefix code over an alphabet of `alphabetSize` symbols. -/
def readPrefixCode (alphabetSize : Nat) : Dec PrefixCode := do
  let hskip ← readBits 2
  if hskip = 1 then readSimplePrefixCode alphabetSize
  else readComplexPrefixCode alphabetSize hskip

def readPrefixCodes (alphabetSize : Nat) : Nat → Array PrefixCode → Dec (Array PrefixCode)
  | 0, acc => pure acc
  | n+1, acc => do
    let c ← readPrefixCode alphabetSize
    readPrefixCodes alphabetSize n (acc.push c)

/-! ### section 9.1: stream header -/

/-- WBITS: the window size is `2^WBITS - 16`.  -/
def readWindowBits : Dec Nat := do
  if !(← readBit) then pure 16
  else
    let n ← readBits 3
    if n ≠ 0 then pure (17 + n)
    else
      let m ← readBits 3
      if m = 0 then pure 17
      else if m = 1 then corrupt      -- 0010001: reserved (large window extension, not RFC 7932)
      else pure (8 + m)

/-! ### section 9.2: variable length codes of the meta-block header -/

/-- the code for NBLTYPESx and NTREESx: values 1..256. -/
def readCount256 : Dec Nat := do
  if !(← readBit) then pure 1
  else
    let n ← readBits 3
    let extra ← readBits n
    pure (2 ^ n + extra + 1)

/-- a value coded by a table row: base plus extra bits. -/
def readRange (tbl : Array Range) (code : Nat) : Dec Nat :=
  match tbl[code]? with
  | none => corrupt
  | some r => do
    let extra ← readBits r.extra
    pure (r.base + extra)

/-! ### section 6: block types and block counts -/

/-- the block-switch state of one category (literals, insert-and-copy, distances). -/
structure Blocks where
  ntypes    : Nat
  typeCode  : PrefixCode
  countCode : PrefixCode
  cur       : Nat := 0   -- current block type
  prev      : Nat := 1   -- block type before the last switch
  count     : Nat        -- symbols left in the current block
deriving Inhabited

/-- section 9.2: NBLTYPESx, and if ≥ 2 the block type code, block count code and first block count. -/
def readBlocksHeader : Dec Blocks := do
  let ntypes ← readCount256
  if ntypes < 2 then
    -- a single block type: the block extends to the end of the meta-block (at most 2^24 symbols)
    pure { ntypes, typeCode := .single 0, countCode := .single 0, count := 2 ^ 24 }
  else
    let typeCode ← readPrefixCode (ntypes + 2)
    let countCode ← readPrefixCode 26
    let count ← readRange blockCountRanges (← readSymbol countCode)
    pure { ntypes, typeCode, countCode, count }

/-- section 6: a block-switch command. -/
def readBlockSwitch (b : Blocks) : Dec Blocks := do
  if b.ntypes < 2 then corrupt
  else
    let t ← readSymbol b.typeCode
    let type := if t = 0 then b.prev else if t = 1 then (b.cur + 1) % b.ntypes else t - 2
    let count ← readRange blockCountRanges (← readSymbol b.countCode)
    pure { b with cur := type, prev := b.cur, count }

/-- account for one symbol of the category, switching blocks first if the current block is used up. -/
def nextInBlock (b : Blocks) : Dec Blocks := do
  let b ← if b.count = 0 then readBlockSwitch b else pure b
  pure { b with count := b.count - 1 }

/-! ### section 7: context modes and context maps -/

/-- section 7.1: context ID of a literal from the last two bytes `p1` (last) and `p2`. -/
def literalContext (mode : Nat) (p1 p2 : UInt8) : Nat :=
  match mode with
  | 0 => p1.toNat % 64                                           -- LSB6
  | 1 => p1.toNat / 4                                            -- MSB6
  | 2 => lut0.getD p1.toNat 0 ||| lut1.getD p2.toNat 0           -- UTF8
  | _ => (lut2.getD p1.toNat 0) * 8 ||| lut2.getD p2.toNat 0     -- SIGNED

/-- section 7.2: context ID of a distance from the copy length. -/
def distanceContext (copyLen : Nat) : Nat := if copyLen > 4 then 3 else copyLen - 2

/-- inverse move-to-front transform of section 7.3. -/
def inverseMoveToFront (vs : List Nat) : List Nat :=
  (vs.foldl (fun (acc : List Nat × List Nat) v =>
      let (mtf, out) := acc
      let x := mtf.getD v 0
      (x :: mtf.eraseIdx v, x :: out)) (List.range 256, [])).2.reverse

/-- section 7.3: the run-length coded entries of a context map of `size` entries. -/
def readContextMapEntries (code : PrefixCode) (rleMax size : Nat) : Nat → List Nat → Nat → Dec (List Nat)
  | 0, _, _ => corrupt
  | fuel+1, acc, n =>
    if n ≥ size then pure acc.reverse
    else do
      let s ← readSymbol code
      if s = 0 then readContextMapEntries code rleMax size fuel (0 :: acc) (n + 1)
      else if s ≤ rleMax then
        let reps := 2 ^ s + (← readBits s)
        if n + reps > size then corrupt
        else readContextMapEntries code rleMax size fuel (List.replicate reps 0 ++ acc) (n + reps)
      else readContextMapEntries code rleMax size fuel ((s - rleMax) :: acc) (n + 1)

/-- section 7.3 / 9.2: NTREESx and the context map CMAPx of `size` entries. -/
def readContextMap (size : Nat) : Dec (Nat × Array Nat) := do
  let ntrees ← readCount256
  if ntrees < 2 then pure (ntrees, Array.replicate size 0)
  else
    let rleMax ← if (← readBit) then (· + 1) <$> readBits 4 else pure 0
    let code ← readPrefixCode (ntrees + rleMax)
    let entries ← readContextMapEntries code rleMax size (size + 1) [] 0
    let imtf ← readBit
    pure (ntrees, (if imtf then inverseMoveToFront entries else entries).toArray)

def readContextModes : Nat → Array Nat → Dec (Array Nat)
  | 0, acc => pure acc
  | n+1, acc => do
    let m ← readBits 2
    readContextModes n (acc.push m)

/-! ### section 8: static dictionary -/

/-- the elementary "uppercase" transforms of section 8 (`once`: only the first character). -/
def uppercase (once : Bool) : Nat → List UInt8 → List UInt8
  | 0, w => w
  | _, [] => []
  | fuel+1, c :: rest =>
    let go (w : List UInt8) : List UInt8 := if once then w else uppercase once fuel w
    if c < 192 then
      (if 97 ≤ c ∧ c ≤ 122 then c ^^^ 32 else c) :: go rest
    else if c < 224 then
      match rest with
      | [] => [c]
      | d :: rest' => c :: (d ^^^ 32) :: go rest'
    else
      match rest with
      | [] => [c]
      | [d] => [c, d]
      | d :: e :: rest' => c :: d :: (e ^^^ 5) :: go rest'

/-- appendix B: prefix ++ T(word) ++ suffix. -/
def Transform.apply (t : Transform) (word : List UInt8) : List UInt8 :=
  let w := match t.kind with
    | .identity => word
    | .uppercaseFirst => uppercase true (word.length + 1) word
    | .uppercaseAll => uppercase false (word.length + 1) word
    | .omitFirst n => word.drop n
    | .omitLast n => word.take (word.length - n)
  t.pre ++ w ++ t.suf

/-- section 8: the word of length `copyLen` selected by `wordId = distance - (max allowed distance + 1)`. -/
def dictionaryWord (dict : ByteArray) (copyLen wordId : Nat) : Option (List UInt8) :=
  if copyLen < minDictWordLen ∨ copyLen > maxDictWordLen then none
  else
    let index := wordId % nwords copyLen
    let offset := doffset copyLen + index * copyLen
    match transforms[wordId / nwords copyLen]? with
    | none => none
    | some t =>
      if offset + copyLen > dict.size then none
      else some (t.apply ((List.range copyLen).map (fun i => dict.get! (offset + i))))

/-! ### sections 4, 5, 9.3: commands -/

/-- everything the meta-block header defines for the commands of a compressed meta-block. -/
structure Header where
  npostfix : Nat
  ndirect  : Nat
  cmodes   : Array Nat          -- context mode per literal block type
  cmapL    : Array Nat          -- literal context map, 64 entries per literal block type
  cmapD    : Array Nat          -- distance context map, 4 entries per distance block type
  treesL   : Array PrefixCode
  treesI   : Array PrefixCode   -- one per insert-and-copy block type
  treesD   : Array PrefixCode
deriving Inhabited

/-- the state that changes from command to command. -/
structure Cmd where
  mlen : Nat                    -- bytes of the meta-block still to be produced
  litB : Blocks
  cmdB : Blocks
  distB : Blocks
  d1 : Nat                      -- last distance
  d2 : Nat                      -- second-to-last distance
  d3 : Nat
  d4 : Nat
deriving Inhabited

/-- section 9.3: `n` literals, each with the prefix code selected by the literal
    block type and the context of the last two uncompressed bytes. -/
def readLiterals (h : Header) : Nat → Blocks → Dec Blocks
  | 0, litB => pure litB
  | n+1, litB => do
    let litB ← nextInBlock litB
    let p1 ← outputByte 1
    let p2 ← outputByte 2
    let cid := literalContext (h.cmodes.getD litB.cur 0) p1 p2
    let tree := h.treesL.getD (h.cmapL.getD (64 * litB.cur + cid) 0) default
    let lit ← readSymbol tree
    emit (UInt8.ofNat lit)
    readLiterals h n litB

/-- section 4: the distance coded by distance symbol `sym` (none: not positive). -/
def readDistance (h : Header) (c : Cmd) (sym : Nat) : Dec (Option Nat) := do
  let minus (a b : Nat) : Option Nat := if a > b then some (a - b) else none
  match sym with
  | 0 => pure (some c.d1)
  | 1 => pure (some c.d2)
  | 2 => pure (some c.d3)
  | 3 => pure (some c.d4)
  | 4 => pure (minus c.d1 1)
  | 5 => pure (some (c.d1 + 1))
  | 6 => pure (minus c.d1 2)
  | 7 => pure (some (c.d1 + 2))
  | 8 => pure (minus c.d1 3)
  | 9 => pure (some (c.d1 + 3))
  | 10 => pure (minus c.d2 1)
  | 11 => pure (some (c.d2 + 1))
  | 12 => pure (minus c.d2 2)
  | 13 => pure (some (c.d2 + 2))
  | 14 => pure (minus c.d2 3)
  | 15 => pure (some (c.d2 + 3))
  | _ =>
    if sym < 16 + h.ndirect then pure (some (sym - 15))
    else
      let x := sym - h.ndirect - 16
      let ndistbits := 1 + (x >>> (h.npostfix + 1))
      let hcode := x >>> h.npostfix
      let lcode := x % 2 ^ h.npostfix
      let offset := ((2 + hcode % 2) <<< ndistbits) - 4
      let dextra ← readBits ndistbits
      pure (some (((offset + dextra) <<< h.npostfix) + lcode + h.ndirect + 1))

/-- append `len` bytes copied from `dist` back (byte at a time, so overlapping copies replicate). -/
def copyBack (dist : Nat) : Nat → Dec Unit
  | 0 => pure ()
  | len+1 => do
    emit (← outputByte dist)
    copyBack dist len

/-- section 9.3: the commands of a compressed meta-block.  One command: insert-and-copy
    symbol and extra bits, the literals, and unless the meta-block ends with the literals,
    the distance and the copy (from the window or from the static dictionary). -/
def readCommands (dict : ByteArray) (windowSize : Nat) (h : Header) : Nat → Cmd → Dec Cmd
  | 0, _ => corrupt
  | fuel+1, c => do
    -- insert-and-copy lengths (section 5)
    let cmdB ← nextInBlock c.cmdB
    let sym ← readSymbol (h.treesI.getD cmdB.cur default)
    let (insBase, copyBase, implicitZero) := commandCells.getD (sym / 64) default
    let insertLen ← readRange insertRanges (insBase + sym % 64 / 8)
    let copyLen ← readRange copyRanges (copyBase + sym % 8)
    -- literals
    if insertLen > c.mlen then do
      -- the literals overrun the meta-block: the stream is corrupt; a streaming
      -- decoder still produces the literals it can decode before it reports that
      let _ ← knownCorrupt (readLiterals h insertLen c.litB)
      corrupt
    else do
    let litB ← readLiterals h insertLen c.litB
    let c := { c with cmdB, litB }
    if insertLen = c.mlen then pure { c with mlen := 0 }   -- the meta-block ends with the literals
    else do
      let c := { c with mlen := c.mlen - insertLen }
      -- distance (section 4)
      let (c, dsym, dist?) ←
        if implicitZero then pure (c, 0, some c.d1)
        else do
          let distB ← nextInBlock c.distB
          let c := { c with distB }
          let tree := h.treesD.getD (h.cmapD.getD (4 * distB.cur + distanceContext copyLen) 0) default
          let dsym ← readSymbol tree
          let d ← readDistance h c dsym
          pure (c, dsym, d)
      match dist? with
      | none => corrupt
      | some dist =>
        let maxDist := min (← outputSize) windowSize
        let produced ←
          if dist ≤ maxDist then do
            copyBack dist copyLen
            pure copyLen
          else
            -- static dictionary reference (section 8)
            match dictionaryWord dict copyLen (dist - maxDist - 1) with
            | none => corrupt
            | some w => do
              emitAll w
              pure w.length
        -- the ring buffer of last distances: not updated by distance symbol 0 nor by dictionary references
        let c := if dsym = 0 ∨ dist > maxDist then c else { c with d1 := dist, d2 := c.d1, d3 := c.d2, d4 := c.d3 }
        if produced ≥ c.mlen then
          if produced > c.mlen then corrupt else pure { c with mlen := 0 }
        else
          readCommands dict windowSize h fuel { c with mlen := c.mlen - produced }

/-! ### section 9.2: meta-blocks -/

/-- the header of a compressed meta-block after MLEN / ISUNCOMPRESSED, in stream order. -/
def readCompressedHeader : Dec (Blocks × Blocks × Blocks × Header) := do
  let litB ← readBlocksHeader
  let cmdB ← readBlocksHeader
  let distB ← readBlocksHeader
  let npostfix ← readBits 2
  let ndirect := (← readBits 4) <<< npostfix
  let cmodes ← readContextModes litB.ntypes #[]
  let (ntreesL, cmapL) ← readContextMap (64 * litB.ntypes)
  let (ntreesD, cmapD) ← readContextMap (4 * distB.ntypes)
  let treesL ← readPrefixCodes 256 ntreesL #[]
  let treesI ← readPrefixCodes 704 cmdB.ntypes #[]
  let treesD ← readPrefixCodes (16 + ndirect + (48 <<< npostfix)) ntreesD #[]
  pure (litB, cmdB, distB, { npostfix, ndirect, cmodes, cmapL, cmapD, treesL, treesI, treesD })

/-- `n` bytes copied from the (byte-aligned) input. -/
def copyBytes : Nat → Dec Unit
  | 0 => pure ()
  | n+1 => do
    let b ← readBits 8
    emit (UInt8.ofNat b)
    copyBytes n

def skipBytes : Nat → Dec Unit
  | 0 => pure ()
  | n+1 => do
    let _ ← readBits 8
    skipBytes n

/-- MLEN - 1 (MSKIPLEN - 1) in `n` nibbles (bytes) of `width` bits; if more than
    the minimal number of them is used, the last one must not be zero.
    (libbrotlidec reads piece by piece and checks on reading the last.) -/
def readLengthPieces (width minPieces total : Nat) : Nat → Dec Nat
  | 0 => pure 0
  | n+1 => do
    let v ← readBits width
    if n = 0 ∧ total > minPieces ∧ v = 0 then corrupt
    else do
      let rest ← readLengthPieces width minPieces total n
      pure (v + 2 ^ width * rest)

/-- the last four distances at the start of the stream (section 4). -/
structure Dists where
  d1 : Nat := 4
  d2 : Nat := 11
  d3 : Nat := 15
  d4 : Nat := 16

/-- section 9.2: the sequence of meta-blocks up to and including the last one. -/
def readMetaBlocks (dict : ByteArray) (windowSize : Nat) : Nat → Dists → Dec Unit
  | 0, _ => corrupt
  | fuel+1, ds => do
    let isLast ← readBit
    let isLastEmpty ← if isLast then readBit else pure false
    if isLastEmpty then alignToByte
    else
      let mnibbles ← readBits 2
      if mnibbles = 3 then do
        -- metadata meta-block: MNIBBLES = 0
        if (← readBit) then corrupt                    -- reserved bit
        else do
          let mskipbytes ← readBits 2
          let mskiplen ← if mskipbytes = 0 then pure 0
            else (· + 1) <$> readLengthPieces 8 1 mskipbytes mskipbytes
          alignToByte
          skipBytes mskiplen
          if isLast then pure () else readMetaBlocks dict windowSize fuel ds
      else do
        let mlen := (← readLengthPieces 4 4 (mnibbles + 4) (mnibbles + 4)) + 1
        let isUncompressed ← if isLast then pure false else readBit
        if isUncompressed then do
          alignToByte
          copyBytes mlen
          readMetaBlocks dict windowSize fuel ds
        else do
          let (litB, cmdB, distB, h) ← readCompressedHeader
          let c ← readCommands dict windowSize h (mlen + (← remainingBits) + 1)
            { mlen, litB, cmdB, distB, d1 := ds.d1, d2 := ds.d2, d3 := ds.d3, d4 := ds.d4 }
          if isLast then alignToByte
          else readMetaBlocks dict windowSize fuel { d1 := c.d1, d2 := c.d2, d3 := c.d3, d4 := c.d4 }

/-- section 9.1: stream header, then the meta-blocks. -/
def readStream (dict : ByteArray) : Dec Unit := do
  let wbits ← readWindowBits
  readMetaBlocks dict (2 ^ wbits - 16) ((← remainingBits) + 1) {}

/-- decode a Brotli stream given as bits (LSB-first packing of the bytes). -/
def decodeBits (dict : ByteArray) (bits : Bits) : Result :=
  match readStream dict { bits, used := 0, out := #[] } with
  | (.ok (), s) => { out := s.out, verdict := .ok s.used }
  | (.error .corrupt, s) => { out := s.out, verdict := .corrupt }
  | (.error .unexpectedEOF, s) => { out := s.out, verdict := .unexpectedEOF }

def decode (dict : ByteArray) (bytes : List UInt8) : Result := decodeBits dict (Bits.ofBytes bytes)

end Compress.Brotli
