/-
Line-protocol front end for the prefix.Reader / prefix.Writer models (kinds `br`, `bw`).
-/
import Compress.Util
import Compress.Prefix.BitWriter
import Compress.Drv.Prefix

namespace Compress.Drv
open Compress.Util Compress.Prefix Compress

def rerrName : RErr → String
  | .eof => "eof" | .unexpectedEOF => "ueof" | .invalid => "invalid" | .other t => s!"other{t}" | .panic => "panic"

def oerr : Option RErr → String
  | none => "nil" | some e => rerrName e

def runBrOps (d : Decoder) : BR → List String → List String → List String
  | _, [], acc => acc.reverse
  | r, op :: ops, acc =>
    match op.splitOn ":" with
    | ["b", n] =>
      let (r', v) := r.readBits ((parseNat n).getD 0)
      match v with
      | .ok x => runBrOps d r' ops (s!"b:{x}" :: acc)
      | .error e => (s!"b:{rerrName e}" :: acc).reverse
    | ["t", n] =>
      -- the callers' idiom: TryReadBits, and ReadBits when the buffer alone does not suffice
      let (r1, v) := r.tryReadBits ((parseNat n).getD 0)
      match v with
      | some x => runBrOps d r1 ops (s!"t:{x}" :: acc)
      | none =>
        let (r', v) := r.readBits ((parseNat n).getD 0)
        match v with
        | .ok x => runBrOps d r' ops (s!"t:{x}" :: acc)
        | .error e => (s!"t:{rerrName e}" :: acc).reverse
    | ["p"] => let (r', v) := r.readPads; runBrOps d r' ops (s!"p:{v}" :: acc)
    | ["r", n] =>
      -- io.ReadFull over the raw Read
      let rec full (fuel want : Nat) (r : BR) (acc : List UInt8) : BR × List UInt8 × Option RErr :=
        match fuel with
        | 0 => (r, acc, none)
        | fuel+1 =>
          if want = 0 then (r, acc, none)
          else
            let (r', bs, e) := r.read want
            match e with
            | some err => (r', acc ++ bs, some err)
            | none => full fuel (want - bs.length) r' (acc ++ bs)
      let (r', bs, e) := full ((parseNat n).getD 0 + 2) ((parseNat n).getD 0) r []
      match e with
      | none => runBrOps d r' ops (s!"r:{hexOfBytes bs}:nil" :: acc)
      | some err => (s!"r:{hexOfBytes bs}:{rerrName err}" :: acc).reverse
    | ["f"] =>
      let (r', e) := r.flush
      match e with
      | none => runBrOps d r' ops (s!"f:{r'.offset}:nil" :: acc)
      | some err => (s!"f:{r'.offset}:{rerrName err}" :: acc).reverse
    | ["y"] =>
      let (r', v) := r.readSymbol d
      match v with
      | .ok x => runBrOps d r' ops (s!"y:{x}" :: acc)
      | .error e => (s!"y:{rerrName e}" :: acc).reverse
    | ["q"] => runBrOps d r ops (s!"q:{r.bitsRead}" :: acc)
    | _ => ("bad-op" :: acc).reverse

def handleBr (kv : List (String × String)) : String :=
  match bytesOfHex (lookupD kv "src" "-") with
  | none => "bad-line"
  | some data =>
    let fail := (parseNat (lookupD kv "fail" "-"))
    let adv := (parseNats (lookupD kv "adv" "-")).getD []
    let src : Source := { data := data, failAfter := fail, failTag := (parseNat (lookupD kv "tag" "7")).getD 7,
                          bufAdv := adv, buffered? := lookupD kv "mode" "buf" != "byte" }
    let d := match parseCodes (lookupD kv "codes" "-") with
      | some cs => Decoder.init cs
      | none => {}
    let r := BR.init src (lookupD kv "big" "0" == "1")
    "|".intercalate (runBrOps d r (splitList (lookupD kv "ops" "") '|') [])

def runBwOps (e : Encoder) : BW → List String → List String → List String
  | w, [], acc => (s!"sink={hexOfBytes w.sink.got}" :: acc).reverse
  | w, op :: ops, acc =>
    let fin (w : BW) (tag : String) (err : Option RErr) : List String :=
      match err with
      | none => runBwOps e w ops (s!"{tag}:nil" :: acc)
      | some x => (s!"sink={hexOfBytes w.sink.got}" :: s!"{tag}:{rerrName x}" :: acc).reverse
    match op.splitOn ":" with
    | ["b", v, n] => let (w', err) := w.writeBits ((parseNat v).getD 0) ((parseNat n).getD 0); fin w' "b" err
    | ["t", v, n] =>
      let (w', ok) := w.tryWriteBits ((parseNat v).getD 0) ((parseNat n).getD 0)
      runBwOps e w' ops ((if ok then "t:1" else "t:0") :: acc)
    | ["p", v] => runBwOps e (w.writePads ((parseNat v).getD 0)) ops ("p" :: acc)
    | ["w", h] =>
      let (w', cnt, err) := w.write ((bytesOfHex h).getD [])
      fin w' s!"w:{cnt}" err
    | ["f"] => let (w', err) := w.flush; fin w' s!"f:{w'.offset}" err
    | ["y", sy] => let (w', err) := w.writeSymbol e ((parseNat sy).getD 0); fin w' "y" err
    | ["q"] => runBwOps e w ops (s!"q:{w.bitsWritten}" :: acc)
    | _ => ("bad-op" :: acc).reverse

def handleBw (kv : List (String × String)) : String :=
  let sink : WSink :=
    match (lookupD kv "sink" "-").splitOn ":" with
    | [b, m, f, t] =>
      { budget := (parseInt b).bind (fun i => if i < 0 then none else some i.toNat),
        mode := if m = "short" then .short else .hard, forever := f == "1", tag := (parseNat t).getD 7 }
    | _ => {}
  let e := match parseCodes (lookupD kv "codes" "-") with
    | some cs => (Encoder.init cs).getD {}
    | none => {}
  let w : BW := { bigEndian := lookupD kv "big" "0" == "1", sink := sink }
  "|".intercalate (runBwOps e w (splitList (lookupD kv "ops" "") '|') [])

end Compress.Drv
