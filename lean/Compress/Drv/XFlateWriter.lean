/-
Line-protocol front end for the `xflate.Writer` model (kind `xw`).
-/
import Compress.Util
import Compress.XFlate.Writer
import Compress.Drv.XFlateReader

namespace Compress.Drv
open Compress.Util Compress.XFlate

def parseErrTag (s : String) : Option Err :=
  if s.startsWith "other" then some (.other ((s.drop 5).toString.toNat?.getD 0))
  else if s = "closed" then some (.other 100)  -- a Closed-coded sink error passed on by the compressor
  else parseErr s

def parseOracle (s : String) : Option (List ZEv) :=
  (splitList s ';').mapM fun t =>
    match t.splitOn ":" with
    | [k, n, em, e, f] => do
      let kind ← match k with
        | "zwrite" => some ZKind.zwrite | "zflush" => some ZKind.zflush | "zreset" => some ZKind.zreset | _ => none
      pure { kind := kind, n := ← parseNat n, emitted := ← bytesOfHex em, err := parseErrTag e, sinkFailed := f == "1" }
    | _ => none

def parseSink (s : String) : Sink :=
  match s.splitOn ":" with
  | [b, m, f, t] =>
    { budget := (parseInt b).bind (fun i => if i < 0 then none else some i.toNat),
      mode := if m = "short" then .short else .hard, forever := f == "1", tag := (parseNat t).getD 7 }
  | _ => {}

def runXwOps : XWState → List String → List String → List String
  | s, [], acc => (s!"sink={hexOfBytes s.sink.got}" :: (if s.bad then ["ORACLE-MISMATCH"] else []) ++ acc).reverse
  | s, op :: ops, acc =>
    match op.splitOn ":" with
    | ["W", h] =>
      match bytesOfHex h with
      | some d =>
        let (s', n, e) := write crc32IEEE s d
        runXwOps s' ops (s!"W:{n}:{errName e}:{s'.inOff}:{s'.outOff}" :: acc)
      | none => ("bad-op" :: acc).reverse
    | ["F", m] =>
      let (s', e) := flush crc32IEEE s ((parseNat m).getD 99)
      runXwOps s' ops (s!"F:{errName e}:{s'.inOff}:{s'.outOff}" :: acc)
    | ["C"] =>
      let (s', e) := closeW crc32IEEE s
      runXwOps s' ops (s!"C:{errName e}:{s'.inOff}:{s'.outOff}" :: acc)
    | ["Z", sk] =>
      let s' := resetW s (parseSink sk)
      runXwOps s' ops (s!"Z:{hexOfBytes s.sink.got}" :: acc)
    | _ => ("bad-op" :: acc).reverse

def handleXw (kv : List (String × String)) : String :=
  match parseOracle (lookupD kv "oracle" "-") with
  | none => "bad-oracle"
  | some orc =>
    let hasConf := lookupD kv "conf" "1" == "1"
    let gi (k : String) : Int := (parseInt (lookupD kv k "0")).getD 0
    match newWriter (gi "level") (gi "chunk") (gi "index") hasConf (parseSink (lookupD kv "sink" "-")) orc with
    | none => "refused"
    | some s => "|".intercalate (runXwOps s (splitList (lookupD kv "ops" "") '|') [])

end Compress.Drv
