/-
Line-protocol front end for the API-level models of bzip2.Writer and
meta.Writer (kind `lwm`): per call the returned count, error class,
InputOffset, OutputOffset (and NumBlocks for meta); at the end the bytes the
last sink received.
-/
import Compress.Util
import Compress.Bzip2.WriterApi
import Compress.Meta.WriterApi
import Compress.Drv.XFlateWriter
import Compress.Drv.Meta

namespace Compress.Drv
open Compress.Util Compress.XFlate

def runBzOps : Bzip2.BzW → List String → List String → List String
  | s, [], acc => (s!"sink={hexOfBytes s.bw.sink.got}" :: acc).reverse
  | s, op :: ops, acc =>
    match op.splitOn ":" with
    | ["W", h] =>
      match bytesOfHex h with
      | some d =>
        let (s', n, e) := s.write d
        runBzOps s' ops (s!"W:{n}:{errName e}:{s'.inOff}:{s'.outOff}" :: acc)
      | none => ("bad-op" :: acc).reverse
    | ["C"] =>
      let (s', e) := s.close
      runBzOps s' ops (s!"C:{errName e}:{s'.inOff}:{s'.outOff}" :: acc)
    | "Z" :: sk =>
      let s' := s.reset (parseSink (":".intercalate sk))
      runBzOps s' ops (s!"Z:{hexOfBytes s.bw.sink.got}:{s'.inOff}:{s'.outOff}" :: acc)
    | _ => ("bad-op" :: acc).reverse

def runMwOps (final : Meta.FinalMode) : Meta.MW → List String → List String → List String
  | s, [], acc => (s!"sink={hexOfBytes s.sink.got}" :: acc).reverse
  | s, op :: ops, acc =>
    match op.splitOn ":" with
    | ["W", h] =>
      match bytesOfHex h with
      | some d =>
        let (s', n, e) := s.write d
        runMwOps final s' ops (s!"W:{n}:{errName e}:{s'.inOff}:{s'.outOff}:{s'.nblk}" :: acc)
      | none => ("bad-op" :: acc).reverse
    | ["C"] =>
      let (s', e) := s.close
      runMwOps final s' ops (s!"C:{errName e}:{s'.inOff}:{s'.outOff}:{s'.nblk}" :: acc)
    | "Z" :: sk =>
      let s' := (s.reset (parseSink (":".intercalate sk))).setFinal final
      runMwOps final s' ops (s!"Z:{hexOfBytes s.sink.got}:{s'.inOff}:{s'.outOff}:{s'.nblk}" :: acc)
    | _ => ("bad-op" :: acc).reverse

def handleLwm (kv : List (String × String)) : String :=
  let ops := splitList (lookupD kv "ops" "") '|'
  let sink := parseSink (lookupD kv "sink" "-")
  match lookupD kv "t" "bzip2" with
  | "bzip2" =>
    match Bzip2.newBzW ((parseInt (lookupD kv "level" "0")).getD 0) sink with
    | none => "refused"
    | some s => "|".intercalate (runBzOps s ops [])
  | "meta" =>
    let final := finalOfNat ((parseNat (lookupD kv "final" "0")).getD 0)
    "|".intercalate (runMwOps final ((({} : Meta.MW).reset sink).setFinal final) ops [])
  | _ => "bad-type"

end Compress.Drv
