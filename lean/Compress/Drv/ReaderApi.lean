/-
Line-protocol front end for the API-level models of flate.Reader and
bzip2.Reader (kind `lrm`): the `lr` scenarios of family life (ops `R:n` Read,
`C` Close, `A` io.ReadAll, `Z:i` Reset onto stream i; a source that fails at byte
`fail` with error `etag`), one record per call:

    R:<bytes>:<class>:<InputOffset|->:<OutputOffset>
    A:<bytes>:<class>:<InputOffset|->:<OutputOffset>
    C:<class>:<InputOffset|->:<OutputOffset>
    Z:<InputOffset>:<OutputOffset>

`R` for bzip2 is one `Read` call.  For flate it is the composite the harness
executes on the Go reader: `Read` until `n` bytes have been delivered or an
error is returned, then - if no error was returned - one `Read` with an empty
buffer, whose error is the error of the record.  (How a stored block's bytes
are spread over consecutive `Read` calls depends on how many of them
`prefix.Reader` had buffered, which `Flate.Impl` abstracts; the composite does
not depend on it.)  InputOffset is printed where the Go value is determined by
the model's abstraction (`inExact`), `-` elsewhere.
-/
import Compress.Util
import Compress.Flate.Api
import Compress.Bzip2.ReaderApi
import Compress.Brotli.Api

namespace Compress.Drv
open Compress.Util Compress

/-- the error classes as `errClass` of the harness prints them: tags 100..103 are Closed-coded
    `errors.Error` values (class `closed`), 104 is `io.ErrClosedPipe` (`other0`). -/
def tagClass (t : Nat) : String :=
  if 100 ≤ t ∧ t ≤ 103 then "closed" else if t = 104 then "other0" else s!"other{t}"

def flApiErr : Option Flate.Api.AErr → String
  | none => "nil" | some .eof => "eof" | some .unexpectedEOF => "ueof" | some .corrupted => "corrupt"
  | some .closed => "closed" | some (.other t) => tagClass t

def bzApiErr : Option Bzip2.ReaderApi.AErr → String
  | none => "nil" | some .eof => "eof" | some .unexpectedEOF => "ueof" | some .corrupted => "corrupt"
  | some .deprecated => "deprecated" | some .closed => "closed" | some (.other t) => tagClass t

/-- the fault of a source of kind `src` over `len` bytes (`mkSource` of the harness): `failend`
    kinds deliver everything and then fail; the scripted kinds fail from byte `fail` on if that
    lies inside the data; bytes.Reader, strings.Reader and bytes.Buffer never fail. -/
def effFault (src : String) (fail : Option Nat) (etag len : Nat) : Option (Nat × Nat) :=
  if src == "failend" || src == "bytefailend" then some (len, etag)
  else if src == "adv" || src == "byte" || src == "readonly" || src == "bufio16" then
    match fail with
    | some k => if k < len then some (k, etag) else none
    | none => none
  else none

/-- sources that hand `prefix.Reader` single bytes on demand (`compress.ByteReader`). -/
def byteKind (src : String) : Bool := src == "byte" || src == "bytefailend"

/-- is InputOffset determined by the model?  At io.EOF always.  For bzip2 over buffered sources
    always (Flush discards exactly the bytes holding consumed bits).  For ByteReader sources (the
    offset is the number of bytes pulled) after a call that returned nil while no error is latched:
    a request that fails has pulled the bytes that were there, which the model does not count - and
    flate.Reader can have latched such a failure while it still returns the pending output with nil.
    Inside a stored block (`blkLen > 0`) counts as latched on both sides: the model's raw read takes
    what is there and latches a short read at once, the Go reader finds it with its next step.  Only
    the kind `byte` hands `Read` everything that is left, as the model's raw read takes it. -/
def inExact (typ src cls : String) (latched : Bool) : Bool :=
  cls == "eof" || (typ == "bzip2" && !byteKind src) || (src == "byte" && cls == "nil" && !latched)
  || (typ == "brotli" && (src == "bytes" || src == "strings" || src == "buffer") && cls == "nil" && !latched)

def inStr (typ src cls : String) (latched : Bool) (v : Nat) : String :=
  if inExact typ src cls latched then toString v else "-"

section flate
open Flate.Api

/-- the composite `R:n` (see the header). -/
def flReadN : Nat → Reader → Nat → List UInt8 → Reader × List UInt8 × Option AErr
  | 0, r, _, acc => (r, acc, some .corrupted)
  | fuel+1, r, n, acc =>
    if acc.length < n then
      let (r', out, e) := r.read (n - acc.length)
      match e with
      | some _ => (r', acc ++ out, e)
      | none => flReadN fuel r' n (acc ++ out)
    else
      let (r', _, e) := r.read 0
      (r', acc, e)

/-- `io.ReadAll`: Read until an error; io.EOF is reported as nil. -/
def flReadAll : Nat → Reader → Array UInt8 → Reader × Array UInt8 × Option AErr
  | 0, r, acc => (r, acc, some .corrupted)
  | fuel+1, r, acc =>
    let (r', out, e) := r.read 512
    match e with
    | some .eof => (r', acc ++ out.toArray, none)
    | some _ => (r', acc ++ out.toArray, e)
    | none => flReadAll fuel r' (acc ++ out.toArray)

def runFlOps (srcK : String) (mk : Nat → Option Src) : Reader → List String → List String → List String
  | _, [], acc => acc.reverse
  | r, op :: ops, acc =>
    match op.splitOn ":" with
    | ["R", ns] =>
      let n := (parseNat ns).getD 0
      let (r', out, e) := flReadN (n + 2) r n []
      let c := flApiErr e
      runFlOps srcK mk r' ops (s!"R:{outSummary out.toArray}:{c}:{inStr "flate" srcK c (r'.err.isSome || r'.core.blkLen > 0) r'.inputOffset}:{r'.outputOffset}" :: acc)
    | ["A"] =>
      let (r', out, e) := flReadAll 100000000 r #[]
      let c := flApiErr e
      -- io.ReadAll swallowed io.EOF: the reader stands at the end of the stream
      let ci := if r'.err = some .eof ∧ e = none then "eof" else c
      runFlOps srcK mk r' ops (s!"A:{outSummary out}:{c}:{inStr "flate" srcK ci (r'.err.isSome || r'.core.blkLen > 0) r'.inputOffset}:{r'.outputOffset}" :: acc)
    | ["C"] =>
      let (r', e) := r.close
      let c := flApiErr e
      runFlOps srcK mk r' ops (s!"C:{c}:-:{r'.outputOffset}" :: acc)
    | ["Z", is] =>
      match mk ((parseNat is).getD 0) with
      | some src =>
        let r' := r.reset src
        runFlOps srcK mk r' ops (s!"Z:{r'.inputOffset}:{r'.outputOffset}" :: acc)
      | none => ("bad-stream" :: acc).reverse
    | _ => ("bad-op" :: acc).reverse

end flate

section bzip2
open Bzip2.ReaderApi

def bzReadAll : Nat → Reader → Array UInt8 → Reader × Array UInt8 × Option AErr
  | 0, r, acc => (r, acc, some .corrupted)
  | fuel+1, r, acc =>
    let (r', out, e) := r.read 512
    match e with
    | some .eof => (r', acc ++ out.toArray, none)
    | some _ => (r', acc ++ out.toArray, e)
    | none => bzReadAll fuel r' (acc ++ out.toArray)

def runBzROps (srcK : String) (mk : Nat → Option Src) : Reader → List String → List String → List String
  | _, [], acc => acc.reverse
  | r, op :: ops, acc =>
    match op.splitOn ":" with
    | ["R", ns] =>
      let n := (parseNat ns).getD 0
      let (r', out, e) := r.read n
      let c := bzApiErr e
      runBzROps srcK mk r' ops (s!"R:{outSummary out.toArray}:{c}:{inStr "bzip2" srcK c r'.err.isSome r'.inputOffset}:{r'.outputOffset}" :: acc)
    | ["A"] =>
      let (r', out, e) := bzReadAll 100000000 r #[]
      let c := bzApiErr e
      let ci := if r'.err = some .eof ∧ e = none then "eof" else c
      runBzROps srcK mk r' ops (s!"A:{outSummary out}:{c}:{inStr "bzip2" srcK ci r'.err.isSome r'.inputOffset}:{r'.outputOffset}" :: acc)
    | ["C"] =>
      let (r', e) := r.close
      let c := bzApiErr e
      runBzROps srcK mk r' ops (s!"C:{c}:-:{r'.outputOffset}" :: acc)
    | ["Z", is] =>
      match mk ((parseNat is).getD 0) with
      | some src =>
        let r' := r.reset src
        runBzROps srcK mk r' ops (s!"Z:{r'.inputOffset}:{r'.outputOffset}" :: acc)
      | none => ("bad-stream" :: acc).reverse
    | _ => ("bad-op" :: acc).reverse

end bzip2

section brotli
open Brotli.Api

/-- brotli's closed marker is `io.ErrClosedPipe`: class `other0`. -/
def brApiErr : Option AErr → String
  | none => "nil" | some .eof => "eof" | some .unexpectedEOF => "ueof" | some .corrupted => "corrupt"
  | some .invalid => "invalid" | some .closed => "other0" | some (.other t) => tagClass t

/-- the composite `R:n` (as for flate, see the header). -/
def brApiReadN (sd : ByteArray) : Nat → Reader → Nat → List UInt8 → Reader × List UInt8 × Option AErr
  | 0, r, _, acc => (r, acc, some .corrupted)
  | fuel+1, r, n, acc =>
    if acc.length < n then
      let (r', out, e) := r.read sd (n - acc.length)
      match e with
      | some _ => (r', acc ++ out, e)
      | none => brApiReadN sd fuel r' n (acc ++ out)
    else
      let (r', _, e) := r.read sd 0
      (r', acc, e)

def brApiReadAll (sd : ByteArray) : Nat → Reader → Array UInt8 → Reader × Array UInt8 × Option AErr
  | 0, r, acc => (r, acc, some .corrupted)
  | fuel+1, r, acc =>
    let (r', out, e) := r.read sd 512
    match e with
    | some .eof => (r', acc ++ out.toArray, none)
    | some _ => (r', acc ++ out.toArray, e)
    | none => brApiReadAll sd fuel r' (acc ++ out.toArray)

def brApiLatched (r : Reader) : Bool := r.err.isSome

def runBrApiOps (sd : ByteArray) (srcK : String) (mk : Nat → Option Src) : Reader → List String → List String → List String
  | _, [], acc => acc.reverse
  | r, op :: ops, acc =>
    match op.splitOn ":" with
    | ["R", ns] =>
      let n := (parseNat ns).getD 0
      let (r', out, e) := brApiReadN sd (n + 2) r n []
      let c := brApiErr e
      runBrApiOps sd srcK mk r' ops (s!"R:{outSummary out.toArray}:{c}:{inStr "brotli" srcK c (brApiLatched r') r'.inputOffset}:{r'.outputOffset}" :: acc)
    | ["A"] =>
      let (r', out, e) := brApiReadAll sd 100000000 r #[]
      let c := brApiErr e
      let ci := if r'.err = some .eof ∧ e = none then "eof" else c
      runBrApiOps sd srcK mk r' ops (s!"A:{outSummary out}:{c}:{inStr "brotli" srcK ci (brApiLatched r') r'.inputOffset}:{r'.outputOffset}" :: acc)
    | ["C"] =>
      let (r', e) := r.close
      let c := brApiErr e
      runBrApiOps sd srcK mk r' ops (s!"C:{c}:-:{r'.outputOffset}" :: acc)
    | ["Z", is] =>
      match mk ((parseNat is).getD 0) with
      | some src =>
        let r' := r.reset src
        runBrApiOps sd srcK mk r' ops (s!"Z:{r'.inputOffset}:{r'.outputOffset}" :: acc)
      | none => ("bad-stream" :: acc).reverse
    | _ => ("bad-op" :: acc).reverse

end brotli

def handleLrm (dict : ByteArray) (kv : List (String × String)) : String :=
  let ops := splitList (lookupD kv "ops" "") '|'
  let srcK := lookupD kv "src" "bytes"
  let fail := parseNat (lookupD kv "fail" "-")
  let etag := (parseNat (lookupD kv "etag" "9")).getD 9
  let streams := (splitList (lookupD kv "streams" "") ',').map bytesOfHex
  match lookupD kv "t" "flate" with
  | "flate" =>
    let mk (i : Nat) : Option Flate.Api.Src :=
      match streams.getD i none with
      | some d => some { data := d, fault := effFault srcK fail etag d.length }
      | none => none
    match mk 0 with
    | some src => "|".intercalate (runFlOps srcK mk (Flate.Api.newReader src) ops [])
    | none => "bad-line"
  | "bzip2" =>
    let mk (i : Nat) : Option Bzip2.ReaderApi.Src :=
      match streams.getD i none with
      | some d => some { data := d, fault := effFault srcK fail etag d.length }
      | none => none
    match mk 0 with
    | some src => "|".intercalate (runBzROps srcK mk (Bzip2.ReaderApi.newReader src) ops [])
    | none => "bad-line"
  | "brotli" =>
    let mk (i : Nat) : Option Brotli.Api.Src :=
      match streams.getD i none with
      | some d => some { data := d, fault := effFault srcK fail etag d.length }
      | none => none
    match mk 0 with
    | some src => "|".intercalate (runBrApiOps dict srcK mk (Brotli.Api.newReader src) ops [])
    | none => "bad-line"
  | _ => "bad-type"

end Compress.Drv
