/-
Line-protocol front end for the internal/prefix models (kinds `gp`, `gl`, `dec`, `enc`, `rng`).
-/
import Compress.Util
import Compress.Prefix.Tables

namespace Compress.Drv
open Compress.Util Compress.Prefix Compress

def parseCodes (s : String) : Option (List Code) :=
  (splitList s ',').mapM fun t =>
    match t.splitOn ":" with
    | [a, b] => do pure { sym := ← parseNat a, len := ← parseNat b }
    | [a, b, c] => do pure { sym := ← parseNat a, len := ← parseNat b, val := ← parseNat c }
    | _ => none

def parseNats (s : String) : Option (List Nat) := (splitList s ',').mapM parseNat

def gpErrName : GPErr → String
  | .degenerateOne => "invalid" | .notIncreasing => "invalid" | .zeroLength => "invalid"
  | .degenerate => "invalid" | .lenTooLarge => "panic"

def handleGp (kv : List (String × String)) : String :=
  match parseCodes (lookupD kv "codes" "-") with
  | some cs =>
    match generatePrefixes cs with
    | .error e => s!"err:{gpErrName e}"
    | .ok r => "ok:" ++ (if r.isEmpty then "-" else ",".intercalate (r.map fun c => s!"{c.sym}:{c.len}:{c.val}"))
  | none => "bad-line"

def handleGl (kv : List (String × String)) : String :=
  match parseNats (lookupD kv "counts" "-"), parseNat (lookupD kv "max" "15") with
  | some cs, some m =>
    match generateLengths cs m with
    | none => "none"
    | some ls => "ok:" ++ (if ls.isEmpty then "-" else ",".intercalate (ls.map toString))
  | _, _ => "bad-line"

def bitsOfString (s : String) : Bits := (s.toList.filter (fun c => c == '0' || c == '1')).map (· == '1')

def handleDec (kv : List (String × String)) : String :=
  match parseCodes (lookupD kv "codes" "-") with
  | some cs =>
    let d := Decoder.init cs
    let rec go (fuel : Nat) (bits : Bits) (acc : List String) : List String :=
      match fuel with
      | 0 => acc.reverse
      | fuel+1 =>
        if bits.isEmpty then ("end" :: acc).reverse
        else match d.readSymbol bits with
          | none => ("ueof" :: acc).reverse
          | some (sym, rest) => go fuel rest (s!"{sym}:{bits.length - rest.length}" :: acc)
    let bits := bitsOfString (lookupD kv "in" "")
    ",".intercalate (go (bits.length + 2) bits [])
  | none => "bad-line"

def handleEnc (kv : List (String × String)) : String :=
  match parseCodes (lookupD kv "codes" "-"), parseNats (lookupD kv "syms" "-") with
  | some cs, some syms =>
    match Encoder.init cs with
    | none => "no-termination"
    | some e => ",".intercalate (syms.map fun s => let (v, l) := e.lookup s; s!"{v}:{l}")
  | _, _ => "bad-line"

def handleRng (kv : List (String × String)) : String :=
  match parseNat (lookupD kv "base" "0"), parseNats (lookupD kv "bits" "-"), parseNats (lookupD kv "ofs" "-") with
  | some b, some bits, some ofs =>
    let rcs := makeRangeCodes b bits
    ",".intercalate (ofs.map fun o => toString (rangeEncode rcs o))
  | _, _, _ => "bad-line"

end Compress.Drv
