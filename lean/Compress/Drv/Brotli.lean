/-
Line-protocol front end for the RFC 7932 specification (kind `brd`).
`brd id=<id> in=<hex>` prints
`<id> <hex of the first 64 output bytes or ->:<len>:<fnv1a64 of the whole output, hex>:<class>`
with class `eof` (accepted), `corrupt`, `ueof`.  With the extra token `used=1`
an accepted stream prints `eof:<input bytes consumed>`.
-/
import Compress.Util
import Compress.Brotli.Spec
import Compress.Brotli.Impl

namespace Compress.Drv
open Compress.Util Compress

def fnv1a64 (bs : Array UInt8) : UInt64 :=
  bs.foldl (fun h b => (h ^^^ b.toUInt64) * 1099511628211) 14695981039346656037

def hex64 (v : UInt64) : String :=
  String.ofList ((List.range 16).map fun i => hexDigit ((v >>> (UInt64.ofNat (4 * (15 - i)))).toNat % 16))

def brotliClass : Brotli.Verdict → String
  | .ok _ => "eof"
  | .corrupt => "corrupt"
  | .unexpectedEOF => "ueof"

def handleBrd (dict : ByteArray) (kv : List (String × String)) : String :=
  match bytesOfHex (lookupD kv "in" "-") with
  | some bs =>
    let r := Brotli.decode dict bs
    let used := match r.verdict, lookup kv "used" with
      | .ok n, some _ => s!":{n / 8}"
      | _, _ => ""
    -- the class of a REJECTED input is compared only on request (`cls=1`: cuts of valid streams);
    -- RFC 7932 does not say which check fires first on an invalid stream
    let cls := match r.verdict, lookup kv "cls" with
      | .ok _, _ => "eof"
      | v, some _ => brotliClass v
      | _, none => "rej"
    -- how much a decoder hands out before it rejects an invalid stream is its own business
    -- (a zero-bit code lets a 100-byte input describe 16 MiB): of a rejected input only the
    -- first 64 KiB of output are compared
    let out := if cls == "rej" then r.out.extract 0 65536 else r.out
    s!"{hexOfBytes (out.extract 0 64).toList}:{out.size}:{hex64 (fnv1a64 out)}:{cls}{used}"
  | none => "bad-line"

/-- kind `btr`: one static-dictionary transform applied to a word. -/
def handleBtr (kv : List (String × String)) : String :=
  match bytesOfHex (lookupD kv "word" "-"), parseNat (lookupD kv "t" "0") with
  | some w, some t =>
    match Brotli.transforms[t]? with
    | some tr => hexOfBytes (tr.apply w)
    | none => "bad-transform"
  | _, _ => "bad-line"

def berrName : Option Brotli.Impl.BErr → String
  | none => "nil" | some .eof => "eof" | some .unexpectedEOF => "ueof"
  | some .corrupted => "corrupt" | some .invalid => "invalid"

/-- kind `brr`: the Go-shaped model of brotli.Reader driven by a schedule of Read sizes. -/
def handleBrr (dict : ByteArray) (kv : List (String × String)) : String :=
  match bytesOfHex (lookupD kv "in" "-") with
  | some bs =>
    let sched := ((splitList (lookupD kv "sched" "4096") ',').filterMap parseNat)
    let (recsRev, _) := Brotli.Impl.runReads dict (Brotli.Impl.readFuel bs) 100000000 (Brotli.Impl.init bs) sched []
    let recs := recsRev.reverse
    let recStrs := recs.map fun r => s!"{r.out.length}/{r.inOff}/{r.outOff}"
    let all := ",".intercalate recStrs
    let out : Array UInt8 := recs.foldl (fun a r => a ++ r.out.toArray) #[]
    let cls := berrName (recsRev.head?.bind (·.err))
    let shown := if recs.length ≤ 48 then all else "-"
    s!"{shown}:{recs.length}:{hex64 (fnv1a64 all.toUTF8.data)}:{hexOfBytes (out.extract 0 64).toList}:{out.size}:{hex64 (fnv1a64 out)}:{cls}"
  | none => "bad-line"

end Compress.Drv
