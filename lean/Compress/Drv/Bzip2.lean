/-
Line-protocol front end for the bzip2 specification and stage models
(kinds `bz`, `bzr`, `rle1e`, `rle1d`, `mtfe`, `mtfd`, `bwtd`, `bwte`, `bzcrc`).
-/
import Compress.Util
import Compress.Bzip2.Spec
import Compress.Bzip2.Writer
import Compress.Bzip2.Impl
import Compress.Drv.Prefix

namespace Compress.Drv
open Compress.Util Compress.Bzip2 Compress

def bzVerdict : Verdict → String
  | .ok => "eof" | .corrupt => "corrupt" | .deprecated => "deprecated" | .unexpectedEOF => "ueof"

def handleBz (kv : List (String × String)) : String :=
  match bytesOfHex (lookupD kv "in" "-") with
  | some bs =>
    let r := Bzip2.decode bs
    -- which check fires first on an INVALID stream is not part of the format (the table-driven Go
    -- reader rejects an unassigned code word as soon as it is determined, this specification after
    -- the longest code length): the class of a rejected input is compared only on request (`cls=1`:
    -- cuts of accepted streams, where `Bzip2Cut.decode_cut` says "unexpected EOF")
    let v := bzVerdict r.verdict
    let cls := if v == "eof" || v == "deprecated" || (lookup kv "cls").isSome then v else "rej"
    s!"{outSummary r.out}:{cls}"
  | none => "bad-line"

def handleRle1e (kv : List (String × String)) : String :=
  match bytesOfHex (lookupD kv "in" "-"), parseNat (lookupD kv "cap" "100") with
  | some bs, some cap => let (o, n) := rle1Encode cap bs; s!"{hexOfBytes o}:{n}"
  | _, _ => "bad-line"

/-- resumable RLE1 decode with a schedule of read sizes. -/
def handleRle1d (kv : List (String × String)) : String :=
  match bytesOfHex (lookupD kv "in" "-"), parseNats (lookupD kv "sched" "-") with
  | some bs, some sched =>
    let rec go (fuel : Nat) (r : RleR) (sched : List Nat) (acc : List String) : List String :=
      match fuel, sched with
      | 0, _ => acc.reverse
      | _, [] => acc.reverse
      | fuel+1, n :: rest =>
        let (r', out, st) := RleR.read n r []
        let tag := match st with | .ok => "ok" | .done => "done" | .corrupted => "corrupt"
        if st = .ok then go fuel r' rest (s!"{hexOfBytes out}:{tag}" :: acc)
        else (s!"{hexOfBytes out}:{tag}" :: acc).reverse
    "|".intercalate (go (sched.length + 1) { buf := bs.toArray } sched [])
  | _, _ => "bad-line"

def handleMtfe (kv : List (String × String)) : String :=
  match bytesOfHex (lookupD kv "dict" "-"), bytesOfHex (lookupD kv "in" "-") with
  | some d, some v => let s := mtfEncode d v 0 []; if s.isEmpty then "-" else ",".intercalate (s.map toString)
  | _, _ => "bad-line"

def handleMtfd (kv : List (String × String)) : String :=
  match bytesOfHex (lookupD kv "dict" "-"), parseNats (lookupD kv "syms" "-"), parseNat (lookupD kv "blk" "100000") with
  | some d, some s, some blk =>
    match mtfDecode blk d s 0 0 #[] with
    | none => "corrupt"
    | some v => hexOfBytes v.toList
  | _, _, _ => "bad-line"

def handleBwtd (kv : List (String × String)) : String :=
  match bytesOfHex (lookupD kv "in" "-"), parseNat (lookupD kv "ptr" "0") with
  | some bs, some p => hexOfBytes (bwtDecode bs.toArray p).toList
  | _, _ => "bad-line"

def handleBwte (kv : List (String × String)) : String :=
  match bytesOfHex (lookupD kv "in" "-") with
  | some bs => let (l, p) := bwtSpec bs; s!"{hexOfBytes l}:{if bs.isEmpty then (-1 : Int) else (p : Int)}"
  | none => "bad-line"

def handleBzcrc (kv : List (String × String)) : String :=
  match bytesOfHex (lookupD kv "in" "-") with
  | some bs => toString (blockCRC bs)
  | none => "bad-line"

end Compress.Drv

namespace Compress.Drv
open Compress.Util Compress.Bzip2 Compress

/-- kind `bzw`: the bzip2.Writer model. -/
def handleBzw (kv : List (String × String)) : String :=
  match bytesOfHex (lookupD kv "in" "-"), parseNat (lookupD kv "level" "6") with
  | some bs, some lvl =>
    match encodeStream lvl bs with
    | none => "model-panic"
    | some out => hexOfBytes out
  | _, _ => "bad-line"

end Compress.Drv

namespace Compress.Drv
open Compress.Util Compress.Bzip2 Compress

def bzrErr : Option Impl.Err → String
  | none => "nil" | some .eof => "eof" | some .unexpectedEOF => "ueof"
  | some .corrupted => "corrupt" | some .deprecated => "deprecated"

/-- FNV-1a (64 bit) of a string's UTF-8 bytes. -/
def fnv64Str (s : String) : UInt64 :=
  s.toUTF8.foldl (fun h b => (h ^^^ b.toUInt64) * 1099511628211) 14695981039346656037

/-- kind `bzr`: the Go-shaped model of bzip2.Reader driven by a schedule of Read sizes.
    One record `bytes:InputOffset:OutputOffset` per Read call, then the error that ended the
    run (`nil` when the schedule ran out first); long transcripts are cut to a prefix, the
    length and a hash. -/
def handleBzr (kv : List (String × String)) : String :=
  match bytesOfHex (lookupD kv "in" "-") with
  | some bs =>
    let sched := ((splitList (lookupD kv "sched" "4096") ',').filterMap parseNat)
    let r := Impl.run bs sched
    let recs := r.reads.map fun x => s!"{outSummary x.out.toArray}:{x.inOff}:{x.outOff}"
    let body := "|".intercalate recs
    let body := if body.length ≤ 3000 then body else s!"{(body.take 200).toString}..{body.length}..{(fnv64Str body).toNat}"
    s!"{body};{bzrErr r.err};{r.reads.length}"
  | none => "bad-line"

end Compress.Drv
