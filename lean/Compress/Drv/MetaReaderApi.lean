/-
Line-protocol front end for the API-level model of meta.Reader (kind `mrm`):
per call the bytes delivered, the error class, InputOffset, OutputOffset,
NumBlocks and FinalMode.

  mrm id=… io=byte|peek streams=<hex>,<hex>,… fail=-|<pos>|end etag=<tag> ops=R:n|C|A|Z:i|Y:i:k|X:i

`fail=<pos>`: every source fails with the error `etag` from byte `pos` on when
`pos` is smaller than its length (otherwise it reports io.EOF); `fail=end`: every
source fails after its last byte instead of reporting io.EOF.  `Y` and `X` are
Resets onto a source that stands at a non-zero offset / onto the re-targeted
old source object: to the reader they are Resets onto the stream.  `A` is
io.ReadAll.  With `io=peek` the InputOffset after an input that ended or failed
inside a block is printed as `~` (see Meta/ReaderApi.lean).
-/
import Compress.Util
import Compress.Meta.ReaderApi

namespace Compress.Drv
open Compress.Util Compress.Meta

def mrErrName : Option RErr → String
  | none => "nil"
  | some .eof => "eof"
  | some .ueof => "ueof"
  | some .corrupt => "corrupt"
  | some .closed => "closed"
  | some (.fault t) => if t ≥ 100 ∧ t ≤ 103 then "closed" else if t = 104 then "other0" else s!"other{t}"
  | some .nilDeref => "panic"

def mrCounters (peek : Bool) (s : MR) : String :=
  let tainted := match s.err with
    | some .ueof => true
    | some (.fault _) => true
    | _ => false
  let i := if peek && tainted then "~" else toString s.inOff
  s!"{i}:{s.outOff}:{s.nblk}:{s.finalMode.toNat}"

def runMrOps (peek : Bool) (srcs : List Src) : MR → List String → List String → List String
  | _, [], acc => acc.reverse
  | s, op :: ops, acc =>
    match op.splitOn ":" with
    | ["R", n] =>
      match parseNat n with
      | some n =>
        let r := s.read n
        runMrOps peek srcs r.1 ops (s!"R:{hexOfBytes r.2.1}:{mrErrName r.2.2}:{mrCounters peek r.1}" :: acc)
      | none => ("bad-op" :: acc).reverse
    | ["C"] =>
      let r := s.close
      runMrOps peek srcs r.1 ops (s!"C:{mrErrName r.2}:{mrCounters peek r.1}" :: acc)
    | ["A"] =>
      let r := MR.readAll (s.rest.length + s.buf.length + 4) s 511 []
      let e := if r.2.2 = some .eof then none else r.2.2
      runMrOps peek srcs r.1 ops (s!"A:{hexOfBytes r.2.1}:{mrErrName e}:{mrCounters peek r.1}" :: acc)
    | k :: i :: _ =>
      if k = "Z" ∨ k = "Y" ∨ k = "X" then
        match parseNat i with
        | some i =>
          let s' := s.reset (srcs.getD i {})
          runMrOps peek srcs s' ops (s!"{k}:{mrCounters peek s'}" :: acc)
        | none => ("bad-op" :: acc).reverse
      else ("bad-op" :: acc).reverse
    | _ => ("bad-op" :: acc).reverse

def handleMrm (kv : List (String × String)) : String :=
  let ops := splitList (lookupD kv "ops" "") '|'
  let tag := (parseNat (lookupD kv "etag" "9")).getD 9
  let fail := lookupD kv "fail" "-"
  let mk (d : List UInt8) : Src :=
    if fail = "end" then { data := d, fault := some (d.length, tag) }
    else match parseNat fail with
      | some p => if p < d.length then { data := d, fault := some (p, tag) } else { data := d }
      | none => { data := d }
  let streams := (lookupD kv "streams" "-").splitOn ","
  match streams.mapM bytesOfHex with
  | none => "bad-line"
  | some ds =>
    let srcs := ds.map mk
    let peek := lookupD kv "io" "byte" != "byte"
    "|".intercalate (runMrOps peek srcs (newMR (srcs.getD 0 {})) ops [])

end Compress.Drv
