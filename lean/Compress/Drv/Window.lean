/-
Line-protocol front end for the dictDecoder model (kind `win`).
-/
import Compress.Util
import Compress.Window

namespace Compress.Drv
open Compress.Util Compress.Window

def runWinOps : Dict → List String → List String → List String
  | _, [], acc => acc.reverse
  | d, op :: ops, acc =>
    match op.splitOn ":" with
    | ["I", sz] =>
      let d' := Dict.init ((parseNat sz).getD 0) d.cap
      runWinOps d' ops ("I" :: acc)
    | ["B", c] => runWinOps (d.writeByte (UInt8.ofNat ((parseNat c).getD 0))) ops ("B" :: acc)
    | ["W", h] =>
      let (d', n) := d.writeBytes ((bytesOfHex h).getD [])
      runWinOps d' ops (s!"W:{n}" :: acc)
    | ["T", a, b] =>
      let (d', n) := d.tryWriteCopy ((parseNat a).getD 0) ((parseNat b).getD 0)
      runWinOps d' ops (s!"T:{n}" :: acc)
    | ["C", a, b] =>
      let (d', n) := d.writeCopy ((parseNat a).getD 0) ((parseNat b).getD 0)
      runWinOps d' ops (s!"C:{n}" :: acc)
    | ["F"] =>
      let (d', bs) := d.readFlush
      runWinOps d' ops (s!"F:{hexOfBytes bs}" :: acc)
    | ["H"] => runWinOps d ops (s!"H:{d.histSize}:{d.availSize}:{d.hist.size}" :: acc)
    | ["L"] =>
      let (a, b) := d.lastBytes
      runWinOps d ops (s!"L:{a.toNat}:{b.toNat}" :: acc)
    | _ => ("bad-op" :: acc).reverse

def handleWin (kv : List (String × String)) : String :=
  let ops := splitList (lookupD kv "ops" "") '|'
  "|".intercalate (runWinOps { size := 0, hist := #[], cap := 0 } ops [])

end Compress.Drv
