/-
Line-protocol front end for `xflate.Reader.Reset`'s index parsing (kind `xo`).
-/
import Compress.Util
import Compress.XFlate.Open
import Compress.Drv.XFlateReader

namespace Compress.Drv
open Compress.Util Compress.XFlate

def showRecs (recs : List Record) : String :=
  if recs.isEmpty then "-" else ";".intercalate (recs.map fun r => s!"{r.comp}:{r.raw}:{r.typ}")

def handleXo (kv : List (String × String)) : String :=
  match bytesOfHex (lookupD kv "stream" "-") with
  | some bs =>
    match openIndex (parseVariant (lookupD kv "v" "fixed")) crc32IEEE bs with
    | .error e => s!"err:{errName (some e)}"
    | .ok r => s!"ok:{showRecs r.recs}"
  | none => "bad-line"

end Compress.Drv
