/-
Line-protocol front end for `xflate.Reader.Reset`'s index parsing (kind `xo`).
-/
import Compress.Util
import Compress.XFlate.Open
import Compress.Drv.XFlateReader
import Compress.XFlate.SeqRead
import Compress.XFlate.WriterSpec

namespace Compress.Drv
open Compress.Util Compress.XFlate

def showRecs (recs : List Record) : String :=
  if recs.isEmpty then "-" else ";".intercalate (recs.map fun r => s!"{r.comp}:{r.raw}:{r.typ}")

def handleXo (kv : List (String × String)) : String :=
  match bytesOfHex (lookupD kv "stream" "-") with
  | some bs =>
    match openIndex (parseVariant (lookupD kv "v" "fixed")) crc32IEEE bs with
    | .error e => s!"err:{errName (some e)}"
    | .ok r => s!"ok:{showRecs r.recs}"
  | none => "bad-line"

/-- the layout an RFC 1951 inflater behind `chunkReader` presents (same as
    `Compress.Proofs.XFlateGlue.layoutOf`; `Compress.Props.C15.drv_layout_eq`). -/
def layoutSpec (stream : List UInt8) (recs : List Record) : Layout :=
  { recs := recs,
    segs := (List.range (recs.length + 1)).map fun j =>
      specSegInfo ((stream.drop (getRecords recs j).1.comp.toNat).take
        ((getRecords recs j).2.comp - (getRecords recs j).1.comp).toNat) }

/-- kind `xa`: open, then read sequentially to the end over the specification inflater. -/
def handleXa (kv : List (String × String)) : String :=
  match bytesOfHex (lookupD kv "stream" "-") with
  | some bs =>
    match openIndex .fixed crc32IEEE bs with
    | .error e => s!"err:{errName (some e)}"
    | .ok r =>
      let L := layoutSpec bs r.recs
      let (d, e) := seqRead L 4096 (r.recs.length + 8) (opened .fixed L) [] []
      match e with
      | some .eof => s!"{hexOfBytes d}:eof"
      | e => s!"rerr:{errName e}"
  | none => "bad-line"

end Compress.Drv
