/-
Line-protocol front end for the meta codec model (kinds `menc`, `mdec`, `mrs`).
-/
import Compress.Util
import Compress.Meta.Codec

namespace Compress.Drv
open Compress.Util Compress.Meta

def finalOfNat : Nat → FinalMode
  | 0 => .fnil | 1 => .fmeta | _ => .fstream

def derrName : DErr → String
  | .eof => "eof"
  | .unexpectedEOF => "ueof"
  | .corrupted _ => "corrupt"

def handleMenc (kv : List (String × String)) : String :=
  match bytesOfHex (lookupD kv "payload" "-"), parseNat (lookupD kv "final" "0") with
  | some p, some f =>
    match encode p (finalOfNat f) with
    | none => "too-large"
    | some blocks => ",".intercalate (blocks.map hexOfBytes)
  | _, _ => "bad-line"

def handleMdec (kv : List (String × String)) : String :=
  match bytesOfHex (lookupD kv "in" "-") with
  | some bs =>
    match decode bs with
    | .error e => s!"err:{derrName e}"
    | .ok d => s!"ok:{hexOfBytes d.payload}:{d.final.toNat}:{d.blocks}:{d.consumed}"
  | none => "bad-line"

def handleMrs (kv : List (String × String)) : String :=
  match bytesOfHex (lookupD kv "in" "-") with
  | some bs => toString (reverseSearch bs)
  | none => "bad-line"

end Compress.Drv
