/-
Line-protocol front end for prefix.Reader on the concrete wrappers of wrap.go
(kind `brw`): the script language of kind `br`, plus the owner's operations
 * `R:<hex>`            re-target the current source object (`Reset(data)`) and `Init` the
                        same Reader on it again
 * `N:<kind>:<hex>:<k>` `Init` the same Reader on another source object of that kind that
                        has already been advanced by `k` bytes
 * `S:<off>:<whence>`   an external `Seek` on the source object (bytes/strings)
and `left=<n>`, the bytes left unread in the source object, at every re-`Init` and at the end.
-/
import Compress.Util
import Compress.Prefix.Wrap
import Compress.Drv.BitIO

namespace Compress.Drv
open Compress.Util Compress.Prefix Compress.Prefix.Wrap Compress

/-- a source object of the named kind over `data`, advanced by `skip` bytes. -/
def mkSrc (kind : String) (data : List UInt8) (skip : Nat) : Src :=
  match kind with
  | "strings" => .strings { s := data, i := skip }
  | "buffer" => .buffer { unread := data.drop skip }
  | _ => .bytes { s := data, i := skip }

/-- `Reset(data)` on the source object the wrapper holds. -/
def retarget (w : Wrapper) (data : List UInt8) : Src :=
  match w.source with
  | .bytes rd => .bytes (rd.reset data)
  | .strings rd => .strings (rd.reset data)
  | .buffer _ => .buffer { unread := data }

/-- the owner's `Seek`; bytes.Buffer has none (no-op, prints `S:-`). -/
def extSeek (w : Wrapper) (off : Int) (whence : Nat) : Wrapper × String :=
  let fmt (a : Int) (e : Option WErr) : String :=
    match e with | none => s!"S:{a}" | some _ => "S:err"
  match w with
  | .bytes c => let (c, a, e) := c.extSeek off whence; (.bytes c, fmt a e)
  | .strings c => let (c, a, e) := c.extSeek off whence; (.strings c, fmt a e)
  | .buffer b => (.buffer b, "S:-")

def runBrwOps (d : Decoder) : WR → List String → List String → List String
  | r, [], acc => (s!"left={r.w.left}" :: acc).reverse
  | r, op :: ops, acc =>
    let stop (r : WR) (s : String) : List String := (s!"left={r.w.left}" :: s :: acc).reverse
    match op.splitOn ":" with
    | ["b", n] =>
      let (r', v) := r.readBits ((parseNat n).getD 0)
      match v with
      | .ok x => runBrwOps d r' ops (s!"b:{x}" :: acc)
      | .error e => stop r' s!"b:{rerrName e}"
    | ["t", n] =>
      let (r1, v) := r.tryReadBits ((parseNat n).getD 0)
      match v with
      | some x => runBrwOps d r1 ops (s!"t:{x}" :: acc)
      | none =>
        let (r', v) := r.readBits ((parseNat n).getD 0)
        match v with
        | .ok x => runBrwOps d r' ops (s!"t:{x}" :: acc)
        | .error e => stop r' s!"t:{rerrName e}"
    | ["p"] => let (r', v) := r.readPads; runBrwOps d r' ops (s!"p:{v}" :: acc)
    | ["r", n] =>
      let rec full (fuel want : Nat) (r : WR) (acc : List UInt8) : WR × List UInt8 × Option RErr :=
        match fuel with
        | 0 => (r, acc, none)
        | fuel+1 =>
          if want = 0 then (r, acc, none)
          else
            let (r', bs, e) := r.read want
            match e with
            | some err => (r', acc ++ bs, some err)
            | none => full fuel (want - bs.length) r' (acc ++ bs)
      let (r', bs, e) := full ((parseNat n).getD 0 + 2) ((parseNat n).getD 0) r []
      match e with
      | none => runBrwOps d r' ops (s!"r:{hexOfBytes bs}:nil" :: acc)
      | some err => stop r' s!"r:{hexOfBytes bs}:{rerrName err}"
    | ["f"] =>
      let (r', e) := r.flush
      match e with
      | none => runBrwOps d r' ops (s!"f:{r'.offset}:nil" :: acc)
      | some err => stop r' s!"f:{r'.offset}:{rerrName err}"
    | ["y"] =>
      let (r', v) := r.readSymbol d
      match v with
      | .ok x => runBrwOps d r' ops (s!"y:{x}" :: acc)
      | .error e => stop r' s!"y:{rerrName e}"
    | ["q"] => runBrwOps d r ops (s!"q:{r.bitsRead}" :: acc)
    | ["R", h] =>
      let r' := WR.init (some r) (retarget r.w ((bytesOfHex h).getD [])) r.bigEndian
      runBrwOps d r' ops (s!"R:{r.w.left}" :: acc)
    | ["N", kind, h, k] =>
      let r' := WR.init (some r) (mkSrc kind ((bytesOfHex h).getD []) ((parseNat k).getD 0)) r.bigEndian
      runBrwOps d r' ops (s!"N:{r.w.left}" :: acc)
    | ["S", off, wh] =>
      let (w', s) := extSeek r.w ((parseInt off).getD 0) ((parseNat wh).getD 0)
      runBrwOps d { r with w := w' } ops (s :: acc)
    | _ => ("bad-op" :: acc).reverse

def handleBrw (kv : List (String × String)) : String :=
  match bytesOfHex (lookupD kv "src" "-") with
  | none => "bad-line"
  | some data =>
    let d := match parseCodes (lookupD kv "codes" "-") with
      | some cs => Decoder.init cs
      | none => {}
    let src := mkSrc (lookupD kv "kind" "bytes") data ((parseNat (lookupD kv "skip" "0")).getD 0)
    let r := WR.init none src (lookupD kv "big" "0" == "1")
    "|".intercalate (runBrwOps d r (splitList (lookupD kv "ops" "") '|') [])

end Compress.Drv
