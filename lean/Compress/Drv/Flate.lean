/-
Line-protocol front end for the RFC 1951 specification (kind `fl`).
-/
import Compress.Util
import Compress.Flate.Spec
import Compress.Flate.Impl

namespace Compress.Drv
open Compress.Util Compress.Flate Compress

def verdictName : Verdict → String
  | .ok n => s!"eof:{n / 8}"
  | .corrupt => "corrupt"
  | .unexpectedEOF => "ueof"

def handleFl (kv : List (String × String)) : String :=
  match bytesOfHex (lookupD kv "in" "-") with
  | some bs =>
    let r := decode bs
    s!"{hexOfBytes r.out.toList}:{verdictName r.verdict}"
  | none => "bad-line"

end Compress.Drv

namespace Compress.Drv
open Compress.Util Compress Compress.Flate.Impl

def ferrName : Option FErr → String
  | none => "nil" | some .eof => "eof" | some .unexpectedEOF => "ueof" | some .corrupted => "corrupt"

/-- kind `flr`: the Go-shaped model of flate.Reader driven by a schedule of Read sizes. -/
def handleFlr (kv : List (String × String)) : String :=
  match bytesOfHex (lookupD kv "in" "-") with
  | some bs =>
    let sched := ((splitList (lookupD kv "sched" "4096") ',').filterMap parseNat)
    let bits := Bits.ofBytes bs
    let (out, e, s) := run (300 * bits.length + sched.length + 16) (init bits) sched
    let inOff := (s.total - s.bits.length + 7) / 8
    s!"{hexOfBytes out}:{ferrName e}:{if e = some .eof then toString inOff else "-"}:{s.outOff}"
  | none => "bad-line"

/-- the earlier streams of the reset scenarios, built by the same recipe as the harness
    (`flCannedPrevs` in fam_fl.go): stored blocks only. -/
def flStored (final : Bool) (d : List UInt8) : List UInt8 :=
  let n := d.length
  [if final then 1 else 0, UInt8.ofNat (n % 256), UInt8.ofNat (n / 256 % 256),
   UInt8.ofNat ((65535 - n) % 256), UInt8.ofNat ((65535 - n) / 256 % 256)] ++ d

def flCannedPrevs : List (List UInt8) :=
  let blk (b : Nat) : List UInt8 := (List.range 20000).map (fun i => UInt8.ofNat ((7 * i + b) % 251))
  [flStored false (blk 0) ++ flStored false (blk 1) ++ flStored true (blk 2),
   flStored true "hello, reset".toUTF8.toList,
   flStored false "abcdefgh".toUTF8.toList ++ [0x07]]

/-- `k` Read calls with buffer lengths taken cyclically from `psched` (stops at the first error). -/
def flReadsK : Nat → FState → List Nat → Nat → FState
  | 0, s, _, _ => s
  | k+1, s, psched, i =>
    let n := psched.getD (i % psched.length) 0
    let (s', _, e) := read (s.total + 8) s n
    match e with
    | some _ => s'
    | none => flReadsK k s' psched (i + 1)

/-- kind `flrr`: a reader that has read `pk` times from canned stream `prev` is Reset onto `in`
    and driven by `sched`; same result format as `flr`. -/
def handleFlrr (kv : List (String × String)) : String :=
  match bytesOfHex (lookupD kv "in" "-"), parseNat (lookupD kv "prev" "0"), parseNat (lookupD kv "pk" "0") with
  | some bs, some pi, some pk =>
    let sched := ((splitList (lookupD kv "sched" "4096") ',').filterMap parseNat)
    let prev := Bits.ofBytes (flCannedPrevs.getD pi [])
    let s0 := flReadsK pk (init prev) [0, 1, 5, 4096, 40000, 100, 3, 40000] 0
    let bits := Bits.ofBytes bs
    let (out, e, s) := run (300 * bits.length + sched.length + 16) (reset s0 bits) sched
    let inOff := (s.total - s.bits.length + 7) / 8
    s!"{hexOfBytes out}:{ferrName e}:{if e = some .eof then toString inOff else "-"}:{s.outOff}"
  | _, _, _ => "bad-line"

end Compress.Drv
