/-
Line-protocol front end for the RFC 1951 specification (kind `fl`).
-/
import Compress.Util
import Compress.Flate.Spec

namespace Compress.Drv
open Compress.Util Compress.Flate Compress

def verdictName : Verdict → String
  | .ok n => s!"eof:{n / 8}"
  | .corrupt => "corrupt"
  | .unexpectedEOF => "ueof"

def handleFl (kv : List (String × String)) : String :=
  match bytesOfHex (lookupD kv "in" "-") with
  | some bs =>
    let r := decode bs
    s!"{hexOfBytes r.out.toList}:{verdictName r.verdict}"
  | none => "bad-line"

end Compress.Drv
