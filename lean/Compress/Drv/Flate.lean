/-
Line-protocol front end for the RFC 1951 specification (kind `fl`).
-/
import Compress.Util
import Compress.Flate.Spec
import Compress.Flate.Impl

namespace Compress.Drv
open Compress.Util Compress.Flate Compress

def verdictName : Verdict → String
  | .ok n => s!"eof:{n / 8}"
  | .corrupt => "corrupt"
  | .unexpectedEOF => "ueof"

def handleFl (kv : List (String × String)) : String :=
  match bytesOfHex (lookupD kv "in" "-") with
  | some bs =>
    let r := decode bs
    s!"{hexOfBytes r.out.toList}:{verdictName r.verdict}"
  | none => "bad-line"

end Compress.Drv

namespace Compress.Drv
open Compress.Util Compress Compress.Flate.Impl

def ferrName : Option FErr → String
  | none => "nil" | some .eof => "eof" | some .unexpectedEOF => "ueof" | some .corrupted => "corrupt"

/-- kind `flr`: the Go-shaped model of flate.Reader driven by a schedule of Read sizes. -/
def handleFlr (kv : List (String × String)) : String :=
  match bytesOfHex (lookupD kv "in" "-") with
  | some bs =>
    let sched := ((splitList (lookupD kv "sched" "4096") ',').filterMap parseNat)
    let bits := Bits.ofBytes bs
    let (out, e, s) := run (300 * bits.length + sched.length + 16) (init bits) sched
    let inOff := (s.total - s.bits.length + 7) / 8
    s!"{hexOfBytes out}:{ferrName e}:{if e = some .eof then toString inOff else "-"}:{s.outOff}"
  | none => "bad-line"

end Compress.Drv
