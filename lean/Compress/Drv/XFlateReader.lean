/-
Line-protocol front end for the `xflate.Reader` model (kind `xr`).
-/
import Compress.Util
import Compress.XFlate.Cost

namespace Compress.Drv
open Compress.Util Compress.XFlate

def errName : Option Err → String
  | none => "nil"
  | some .eof => "eof"
  | some .unexpectedEOF => "ueof"
  | some .corrupted => "corrupt"
  | some .closed => "closed"
  | some .invalid => "invalid"
  | some .internal => "internal"
  -- tags from 100 on stand for a Closed-coded error handed back by the sink or source (which the
  -- harness prints as "closed"); the model keeps it apart from the handler's own closed state
  | some (.other n) => if n ≥ 100 then "closed" else s!"other{n}"

def parseErr (s : String) : Option Err :=
  match s with
  | "nil" => none
  | "eof" => some .eof
  | "ueof" => some .unexpectedEOF
  | "corrupt" => some .corrupted
  | "closed" => some .closed
  | "invalid" => some .invalid
  | "internal" => some .internal
  | s => if s.startsWith "other" then some (.other ((s.drop 5).toString.toNat?.getD 0)) else some (.other 0)

def parseRecs (s : String) : Option (List Record) :=
  (splitList s ';').mapM fun t =>
    match t.splitOn ":" with
    | [c, r, ty] => do pure ⟨← parseInt c, ← parseInt r, ← parseNat ty⟩
    | _ => none

def parseSegs (s : String) : Option (List SegInfo) :=
  (splitList s ';').mapM fun t =>
    match t.splitOn ":" with
    | [o, f, i, sy] => do
      pure { out := ← bytesOfHex o, fin := parseErr f, inOff := ← parseInt i, sync := ← parseNat sy }
    | _ => none

def parseVariant (s : String) : Variant := if s = "orig" then .orig else .fixed

/-- run the ops of one `xr` scenario. -/
def runXrOps (v : Variant) (L : Layout) : RState → List String → List String → List String
  | _, [], acc => acc.reverse
  | s, op :: ops, acc =>
    match op.splitOn ":" with
    | ["S", off, wh] =>
      match parseInt off, parseNat wh with
      | some o, some w =>
        let (s', p, e) := seek v L s o w
        runXrOps v L s' ops (s!"S:{p}:{errName e}:{s'.offset}" :: acc)
      | _, _ => ("bad-op" :: acc).reverse
    | ["R", n, k, e] =>
      match parseNat n, parseNat k, parseNat e with
      | some n, some k, some e =>
        match read v L s n [(k, e == 1)] (readFuel L) with
        | none => ("R:HANG" :: acc).reverse
        | some (s', data, err) =>
          runXrOps v L s' ops (s!"R:{hexOfBytes data}:{errName err}:{s'.offset}" :: acc)
      | _, _, _ => ("bad-op" :: acc).reverse
    | ["C"] =>
      let (s', e) := close s
      runXrOps v L s' ops (s!"C:{errName e}" :: acc)
    | _ => ("bad-op" :: acc).reverse

/-- C17: per op, the compressed start offsets of the segments the op opens (kind `xc`). -/
def showOpens (L : Layout) (os : List Nat) : String :=
  if os.isEmpty then "-" else ",".intercalate (os.map fun j => toString (getRecords L.recs j).1.comp)

def runXcOps (v : Variant) (L : Layout) : RState → List String → List String → List String
  | _, [], acc => acc.reverse
  | s, op :: ops, acc =>
    match op.splitOn ":" with
    | ["S", off, wh] =>
      match parseInt off, parseNat wh with
      | some o, some w =>
        let ((s', _, _), os) := seekC v L s o w
        runXcOps v L s' ops (s!"S:{showOpens L os}" :: acc)
      | _, _ => ("bad-op" :: acc).reverse
    | ["R", n, k, e] =>
      match parseNat n, parseNat k, parseNat e with
      | some n, some k, some e =>
        match readC v L s n [(k, e == 1)] (readFuel L) with
        | none => ("R:HANG" :: acc).reverse
        | some ((s', _, _), os) => runXcOps v L s' ops (s!"R:{showOpens L os}" :: acc)
      | _, _, _ => ("bad-op" :: acc).reverse
    | ["C"] =>
      let (s', _) := close s
      runXcOps v L s' ops ("C:-" :: acc)
    | _ => ("bad-op" :: acc).reverse

def handleXc (kv : List (String × String)) : String :=
  match parseRecs (lookupD kv "recs" ""), parseSegs (lookupD kv "segs" "") with
  | some recs, some segs =>
    let L : Layout := { recs := recs, segs := segs }
    let v := parseVariant (lookupD kv "v" "fixed")
    let ops := splitList (lookupD kv "ops" "") '|'
    "|".intercalate (runXcOps v L (opened v L) ops [])
  | _, _ => "bad-line"

def handleXr (kv : List (String × String)) : String :=
  match parseRecs (lookupD kv "recs" ""), parseSegs (lookupD kv "segs" "") with
  | some recs, some segs =>
    let L : Layout := { recs := recs, segs := segs }
    let v := parseVariant (lookupD kv "v" "fixed")
    let ops := splitList (lookupD kv "ops" "") '|'
    "|".intercalate (runXrOps v L (opened v L) ops [])
  | _, _ => "bad-line"

end Compress.Drv
