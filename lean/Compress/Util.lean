/-
Small helpers shared by the executable models and the line-protocol driver:
hex, decimal lists, key=value tokens.  Core-only.
-/
namespace Compress.Util

def hexDigit (n : Nat) : Char :=
  if n < 10 then Char.ofNat (48 + n) else Char.ofNat (87 + n)

def hexOfBytes (bs : List UInt8) : String :=
  if bs.isEmpty then "-" else
  String.ofList (bs.foldr (fun b acc => hexDigit (b.toNat / 16) :: hexDigit (b.toNat % 16) :: acc) [])

/-- FNV-1a (64 bit) of a byte array, for comparing large outputs. -/
def fnv64 (a : Array UInt8) : UInt64 :=
  a.foldl (fun h b => (h ^^^ b.toUInt64) * 1099511628211) 14695981039346656037

/-- printable summary of an output: the bytes themselves when short, otherwise the
    first 64 bytes, the length and a hash. -/
def outSummary (a : Array UInt8) : String :=
  if a.size ≤ 4096 then hexOfBytes a.toList
  else s!"{hexOfBytes (a.extract 0 64).toList}..{a.size}..{(fnv64 a).toNat}"

def hexVal (c : Char) : Option Nat :=
  if '0' ≤ c ∧ c ≤ '9' then some (c.toNat - 48)
  else if 'a' ≤ c ∧ c ≤ 'f' then some (c.toNat - 87)
  else if 'A' ≤ c ∧ c ≤ 'F' then some (c.toNat - 55)
  else none

def bytesOfHexAux : List Char → List UInt8 → Option (List UInt8)
  | [], acc => some acc.reverse
  | [_], _ => none
  | a :: b :: rest, acc =>
    match hexVal a, hexVal b with
    | some x, some y => bytesOfHexAux rest (UInt8.ofNat (x * 16 + y) :: acc)
    | _, _ => none

def bytesOfHex (s : String) : Option (List UInt8) :=
  if s = "-" then some [] else bytesOfHexAux s.toList []

def parseInt (s : String) : Option Int := s.toInt?

def parseNat (s : String) : Option Nat := s.toNat?

/-- split "a,b,c" (empty string or "-" gives []). -/
def splitList (s : String) (sep : Char) : List String :=
  if s = "" ∨ s = "-" then [] else s.splitOn (String.singleton sep)

/-- key=value tokens of a line (after the kind token). -/
def kvs (toks : List String) : List (String × String) :=
  toks.filterMap fun t =>
    match t.splitOn "=" with
    | k :: rest@(_ :: _) => some (k, "=".intercalate rest)
    | _ => none

def lookup (kv : List (String × String)) (k : String) : Option String :=
  (kv.find? (·.1 == k)).map (·.2)

def lookupD (kv : List (String × String)) (k : String) (d : String) : String :=
  (lookup kv k).getD d

end Compress.Util
