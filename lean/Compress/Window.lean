/-
Model of `dictDecoder` (/repo/flate/dict_decoder.go and the brotli copy in
/repo/brotli/dict_decoder.go): a ring buffer that starts at 4 KiB and grows by
a factor of four up to the window size, with `WriteByte`, `WriteSlice`/
`WriteMark` (modelled as `writeBytes`), `TryWriteCopy`, `WriteCopy`,
`ReadFlush`, `HistSize`, `AvailSize`, `LastBytes`.

The Go slices `hist[a:b]` are index ranges of the model's array; `copy` is the
forward byte copy `copyFwd` (Go's `copy` on overlapping ranges where the
source lies before the destination is only used with disjoint ranges here —
each `copy(hist[wrPos:wrEnd], hist[rdPos:wrPos])` reads below `wrPos` and writes
at or above it).
Core-only.
-/
namespace Compress.Window

def initSize : Nat := 4096
def growFactor : Nat := 4

structure Dict where
  size  : Nat
  hist  : Array UInt8
  cap   : Nat               -- cap(hist): retained across Init
  wrPos : Nat := 0
  rdPos : Nat := 0
  full  : Bool := false
  allocs : List Nat := []   -- ghost: sizes passed to make([]byte, n)
deriving Repr, Inhabited

/-- `Init(size)`; `prevCap` is the capacity left from an earlier use (0 = nil). -/
def Dict.init (size prevCap : Nat) : Dict :=
  let (cap, allocs) := if prevCap = 0 then (initSize, [initSize]) else (prevCap, [])
  let len := min cap size
  { size := size, hist := Array.replicate len 0, cap := cap, allocs := allocs }

/-- `Init` on a decoder that was used before, keeping what Go keeps: the backing array of the
    previous stream (`prevCap` bytes, contents `stale` - whatever the earlier stream left there,
    read as 0 where the model does not know them) is re-sliced, not cleared. -/
def Dict.initOver (size prevCap : Nat) (stale : Array UInt8) : Dict :=
  let (cap, allocs) := if prevCap = 0 then (initSize, [initSize]) else (prevCap, [])
  let len := min cap size
  { size := size, hist := Array.ofFn (n := len) (fun i => if prevCap = 0 then 0 else stale.getD i.val 0),
    cap := cap, allocs := allocs }

def Dict.histSize (d : Dict) : Nat := if d.full then d.size else d.wrPos
def Dict.availSize (d : Dict) : Nat := d.hist.size - d.wrPos

/-- `copy(hist[dst:dstEnd], hist[src:srcEnd])`: forward copy of
    `min (dstEnd-dst) (srcEnd-src)` bytes; returns the array and the count. -/
def copyFwd (h : Array UInt8) (dst dstEnd src srcEnd : Nat) : Array UInt8 × Nat :=
  let n := min (dstEnd - dst) (srcEnd - src)
  let rec go (k : Nat) (i : Nat) (h : Array UInt8) : Array UInt8 :=
    match k with
    | 0 => h
    | k+1 => go k (i + 1) (h.setIfInBounds (dst + i) (h.getD (src + i) 0))
  (go n 0 h, n)

/-- `WriteByte`. Precondition: `0 < AvailSize()`. -/
def Dict.writeByte (d : Dict) (c : UInt8) : Dict :=
  { d with hist := d.hist.setIfInBounds d.wrPos c, wrPos := d.wrPos + 1 }

/-- `copy(WriteSlice(), bs); WriteMark(n)` with `n = min(len bs, AvailSize)`. -/
def Dict.writeBytes (d : Dict) (bs : List UInt8) : Dict × Nat :=
  let n := min bs.length d.availSize
  let rec go (l : List UInt8) (k : Nat) (i : Nat) (h : Array UInt8) : Array UInt8 :=
    match k, l with
    | 0, _ => h
    | _, [] => h
    | k+1, b :: r => go r k (i + 1) (h.setIfInBounds i b)
  ({ d with hist := go bs n d.wrPos d.hist, wrPos := d.wrPos + n }, n)

/-- the `loop:`/`for` of both copy routines: repeat
    `wrPos += copy(hist[wrPos:wrEnd], hist[rdPos:wrPos])` until `wrPos = wrEnd`. -/
def copyLoop : Nat → Array UInt8 → Nat → Nat → Nat → Array UInt8 × Nat
  | 0, h, wrPos, _, _ => (h, wrPos)
  | fuel+1, h, wrPos, wrEnd, rdPos =>
    if wrPos < wrEnd then
      let (h', n) := copyFwd h wrPos wrEnd rdPos wrPos
      if n = 0 then (h', wrPos) else copyLoop fuel h' (wrPos + n) wrEnd rdPos
    else (h, wrPos)

/-- `TryWriteCopy(dist, length)`: count written (0 = refused). -/
def Dict.tryWriteCopy (d : Dict) (dist length : Nat) : Dict × Nat :=
  let wrEnd := d.wrPos + length
  if d.wrPos < dist ∨ wrEnd > d.hist.size then (d, 0)
  else
    -- Go enters the loop at least once
    let (h, wp) := copyLoop (length + 1) d.hist d.wrPos wrEnd (d.wrPos - dist)
    ({ d with hist := h, wrPos := wp }, wp - d.wrPos)

/-- `WriteCopy(dist, length)`. Precondition: `0 < dist ≤ HistSize()`. -/
def Dict.writeCopy (d : Dict) (dist length : Nat) : Dict × Nat :=
  let wrBase := d.wrPos
  let wrEnd := min (d.wrPos + length) d.hist.size
  if d.wrPos < dist then
    -- source wraps around the end of the buffer
    let rdPos := d.wrPos + d.hist.size - dist
    let (h1, n1) := copyFwd d.hist d.wrPos wrEnd rdPos d.hist.size
    let (h2, wp) := copyLoop (length + 1) h1 (d.wrPos + n1) wrEnd 0
    ({ d with hist := h2, wrPos := wp }, wp - wrBase)
  else
    let (h, wp) := copyLoop (length + 1) d.hist d.wrPos wrEnd (d.wrPos - dist)
    ({ d with hist := h, wrPos := wp }, wp - wrBase)

/-- `ReadFlush()`: the bytes handed to the caller and the new state. -/
def Dict.readFlush (d : Dict) : Dict × List UInt8 :=
  let toRead := (d.hist.extract d.rdPos d.wrPos).toList
  let d1 := { d with rdPos := d.wrPos }
  if d1.wrPos = d1.hist.size then
    if d1.hist.size = d1.size then
      ({ d1 with wrPos := 0, rdPos := 0, full := true }, toRead)
    else
      let sz := min (d1.cap * growFactor) d1.size
      let h := (List.range sz).map (fun i => d1.hist.getD i 0) |>.toArray
      ({ d1 with hist := h, cap := sz, allocs := d1.allocs ++ [sz] }, toRead)
  else (d1, toRead)

/-- brotli's `LastBytes()`. -/
def Dict.lastBytes (d : Dict) : UInt8 × UInt8 :=
  let n := d.hist.size
  if d.wrPos > 1 then (d.hist.getD (d.wrPos - 1) 0, d.hist.getD (d.wrPos - 2) 0)
  else if d.wrPos > 0 then (d.hist.getD (d.wrPos - 1) 0, d.hist.getD (n - 1) 0)
  else (d.hist.getD (n - 1) 0, d.hist.getD (n - 2) 0)

/-! ### how the decoders drive it, and the append-only specification -/

inductive Op where
  | byte (c : UInt8)                 -- literal
  | bytes (bs : List UInt8)          -- raw data (stored block / uncompressed meta-block)
  | copy (dist len : Nat)            -- LZ77 copy; the caller guarantees 0 < dist ≤ HistSize
deriving Repr, Inhabited

/-- append `len` bytes copied from `dist` back, one at a time. -/
def specCopy (out : List UInt8) (dist : Nat) : Nat → List UInt8
  | 0 => out
  | len+1 => specCopy (out ++ [out.getD (out.length - dist) 0]) dist len

/-- the append-only output the ops stand for. -/
def specRun : List UInt8 → List Op → List UInt8
  | out, [] => out
  | out, .byte c :: ops => specRun (out ++ [c]) ops
  | out, .bytes bs :: ops => specRun (out ++ bs) ops
  | out, .copy d l :: ops => specRun (specCopy out d l) ops

/-- one op the way `readBlock`/`readRawData` perform it: flush whenever the
    buffer is full, continue a copy that did not fit (`useTry`: try
    `TryWriteCopy` first, as flate does).  Returns the state and the bytes
    flushed meanwhile. -/
def runCopy (useTry : Bool) : Nat → Dict → Nat → Nat → List UInt8 → Dict × List UInt8
  | 0, d, _, _, acc => (d, acc)
  | fuel+1, d, dist, len, acc =>
    if len = 0 then (d, acc)
    else
      let (d1, n) :=
        if useTry then
          let (dt, nt) := d.tryWriteCopy dist len
          if nt = 0 then d.writeCopy dist len else (dt, nt)
        else d.writeCopy dist len
      if len - n > 0 then
        let (d2, fl) := d1.readFlush
        runCopy useTry fuel d2 dist (len - n) (acc ++ fl)
      else (d1, acc)

def runBytes : Nat → Dict → List UInt8 → List UInt8 → Dict × List UInt8
  | 0, d, _, acc => (d, acc)
  | fuel+1, d, bs, acc =>
    if bs.isEmpty then (d, acc)
    else
      let (d0, fl0) := if d.availSize = 0 then d.readFlush else (d, [])
      let (d1, n) := d0.writeBytes bs
      runBytes fuel d1 (bs.drop n) (acc ++ fl0)

def runOp (useTry : Bool) (d : Dict) (op : Op) : Dict × List UInt8 :=
  match op with
  | .byte c =>
    let (d0, fl) := if d.availSize = 0 then d.readFlush else (d, [])
    (d0.writeByte c, fl)
  | .bytes bs => runBytes (bs.length + 2) d bs []
  | .copy dist len => runCopy useTry (len + 2) d dist len []

def runOps (useTry : Bool) : Dict → List Op → List UInt8 → Dict × List UInt8
  | d, [], acc => (d, acc)
  | d, op :: ops, acc =>
    let (d', fl) := runOp useTry d op
    runOps useTry d' ops (acc ++ fl)

/-- everything the window has handed out plus what a final flush hands out. -/
def runAll (useTry : Bool) (size prevCap : Nat) (ops : List Op) : List UInt8 × Dict :=
  let (d, acc) := runOps useTry (Dict.init size prevCap) ops []
  let (d', fl) := d.readFlush
  (acc ++ fl, d')

end Compress.Window
