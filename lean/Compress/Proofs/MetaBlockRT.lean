/-
Block round trip for `encodeBlock` / `decodeBlock` (C16).
-/
import Compress.Proofs.MetaBlock

namespace Compress.Proofs.Meta
open Compress Compress.Meta

theorem encodeBlock_some (buf : List UInt8) (final : FinalMode) (bits : Bits)
    (h : encodeBlock buf final = some bits) :
    ∃ hl inv, 1 ≤ hl ∧ hl ≤ 7 ∧ buf.length ≤ 30 ∧
      2 ^ hl + (Bits.countZeros (Bits.ofBytes (if inv then buf.map (fun b => ~~~ b) else buf)) + 8) ≤ 257 ∧
      Bits.countOnes (Bits.ofBytes (if inv then buf.map (fun b => ~~~ b) else buf)) + 8 ≤ 2 ^ hl ∧
      bits = blockBits buf final hl inv := by
  rw [encodeBlock_eq] at h
  have hs := computeHuffLen_sound_aux (Bits.countZeros (Bits.ofBytes buf)) (Bits.countOnes (Bits.ofBytes buf))
  simp only at hs
  generalize computeHuffLen (Bits.countZeros (Bits.ofBytes buf)) (Bits.countOnes (Bits.ofBytes buf)) = r at h hs
  obtain ⟨hl, inv⟩ := r
  simp only at h hs
  by_cases h0 : hl = 0
  · rw [if_pos h0] at h; cases h
  · rw [if_neg h0] at h
    rcases hs with hs | ⟨a1, a2, ⟨a3, a4⟩, _⟩
    · exact absurd hs h0
    · have hadd := count_add (Bits.ofBytes buf)
      rw [length_ofBytes] at hadd
      refine ⟨hl, inv, a1, a2, ?_, ?_, ?_, (Option.some.inj h).symm⟩
      · cases inv <;> simp at a3 a4 <;> omega
      · cases inv
        · simpa using a3
        · simp only [if_true, ofBytes_map_not, countZeros_map_not]; simpa using a3
      · cases inv
        · simpa using a4
        · simp only [if_true, ofBytes_map_not, countOnes_map_not]; simpa using a4

theorem encodeBlock_isSome (buf : List UInt8) (final : FinalMode)
    (h : (computeHuffLen (Bits.countZeros (Bits.ofBytes buf)) (Bits.countOnes (Bits.ofBytes buf))).1 > 0) :
    ∃ bits, encodeBlock buf final = some bits := by
  rw [encodeBlock_eq, if_neg (by omega)]
  exact ⟨_, rfl⟩

theorem decodeBlock_encodeBlock_aux (buf : List UInt8) (final : FinalMode) (bits rest : Bits)
    (h : encodeBlock buf final = some bits) :
    decodeBlock (bits ++ rest) = .ok { payload := buf, final := final, consumed := bits.length } := by
  obtain ⟨hl, inv, a1, a2, a3, a4, a5, rfl⟩ := encodeBlock_some buf final bits h
  exact decode_blockBits buf final hl inv rest a1 a2 (by omega) a4 a5

theorem encodeBlock_aligned_aux (buf : List UInt8) (final : FinalMode) (bits : Bits)
    (h : encodeBlock buf final = some bits) : bits.length % 8 = 0 := by
  obtain ⟨hl, inv, _, _, _, _, _, rfl⟩ := encodeBlock_some buf final bits h
  exact blockBits_aligned _ _ _ _

end Compress.Proofs.Meta
