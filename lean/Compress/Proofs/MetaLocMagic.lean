/-
The signature occurs in an encoded block at offset 0 only (C16 / M4).
-/
import Compress.Proofs.MetaLocRegions
import Compress.Proofs.MetaLocZeros

namespace Compress.Proofs.MetaLoc
open Compress Compress.Meta Compress.Proofs.Meta

theorem magic_bit (m j : Nat) (hm : m &&& magicMask = magicVals) (hmask : magicMask.testBit j = true) :
    m.testBit j = magicVals.testBit j := by
  have := congrArg (fun x => Nat.testBit x j) hm
  simpa only [Nat.testBit_and, hmask, Bool.and_true] using this

theorem window_lt (B : List UInt8) (i : Nat) : window B i < 2 ^ 32 := by
  have ha := UInt8.toNat_lt (B.getD i 0)
  have hb := UInt8.toNat_lt (B.getD (i + 1) 0)
  have hc := UInt8.toNat_lt (B.getD (i + 2) 0)
  have hd := UInt8.toNat_lt (B.getD (i + 3) 0)
  unfold window; omega

theorem testBit_ge32 (x j : Nat) (hx : x < 2 ^ 32) (hj : 32 ≤ j) : x.testBit j = false := by
  apply Nat.testBit_lt_two_pow
  exact Nat.lt_of_lt_of_le hx (Nat.pow_le_pow_right (by omega) hj)

theorem zeros6_13 : ∀ j, j < 8 → magicMask.testBit (6 + j) = true ∧ magicVals.testBit (6 + j) = false := by
  decide

section
variable (buf : List UInt8) (final : FinalMode) (h : Nat) (inv : Bool)

theorem block_magicAt_zero (h1 : 1 ≤ h) (h7 : h ≤ 7) :
    magicAt (Bits.toBytes (blockBits buf final h inv)) 0 = true := by
  obtain ⟨m1, m2, _, _, _⟩ := magicOf_facts final h (padsOf buf final h inv) h1 h7 (padsOf_lt _ _ _ _)
  have hal := blockBits_aligned buf final h inv
  have hw : window (Bits.toBytes (blockBits buf final h inv)) 0 = magicOf final h (padsOf buf final h inv) := by
    apply Nat.eq_of_testBit_eq
    intro j
    by_cases hj : j < 32
    · rw [window_testBit_bits _ _ _ hj, ofBytes_toBytes _ hal, Nat.mul_zero, Nat.zero_add,
        block_magic _ _ _ _ _ hj]
    · rw [testBit_ge32 _ _ (window_lt _ _) (by omega), testBit_ge32 _ _ m1 (by omega)]
  simp only [magicAt, hw, m2, beq_self_eq_true]

theorem block_no_magic_later (h1 : 1 ≤ h) (h7 : h ≤ 7) (i : Nat) (hi : 0 < i)
    (hm : magicAt (Bits.toBytes (blockBits buf final h inv)) i = true) : False := by
  obtain ⟨_, m2, _, _, _⟩ := magicOf_facts final h (padsOf buf final h inv) h1 h7 (padsOf_lt _ _ _ _)
  have hal := blockBits_aligned buf final h inv
  have g := fun j hj hmask => magicAt_toBytes_bit (blockBits buf final h inv) hal i j hm hj hmask
  have hH := block_hclens buf final h inv
  have hB := block_body buf final h inv
  have hZ := block_fzero buf final h inv
  have hO := block_fone buf final h inv
  have hP := block_past buf final h inv
  have hp8 := padsOf_lt buf final h inv
  -- abbreviations
  generalize hk : 4 + (8 - h) * 2 - 1 - 5 = k at hH hB hZ hO hP
  have hkv : k = 14 - 2 * h := by omega
  generalize hnb : (bodyBits buf final h inv).length = nb at hB hZ hO hP
  generalize padsOf buf final h inv = p at hZ hO hP hp8
  by_cases i1 : i = 1
  · subst i1
    have g17 := g 17 (by omega) (by decide)
    have e : 8 * 1 + 17 = 25 := rfl
    rw [e, block_magic _ _ _ _ _ (by omega)] at g17
    have := magic_bit _ 25 m2 (by decide)
    rw [this] at g17
    revert g17; decide
  by_cases i2 : i = 2
  · subst i2
    have g1 := g 1 (by omega) (by decide)
    have e : 8 * 2 + 1 = 17 := rfl
    rw [e, block_magic _ _ _ _ _ (by omega)] at g1
    have := magic_bit _ 17 m2 (by decide)
    rw [this] at g1
    revert g1; decide
  by_cases i3 : i = 3
  · subst i3
    by_cases hh7 : h = 7
    · have g9 := g 9 (by omega) (by decide)
      have e : 8 * 3 + 9 = 32 + 1 := rfl
      rw [e, hH 1 (by omega)] at g9
      have : (1 : Nat) = 3 * k + 1 := by omega
      rw [decide_eq_true this] at g9
      revert g9; decide
    · have g17 := g 17 (by omega) (by decide)
      have e : 8 * 3 + 17 = 32 + 9 := rfl
      rw [e, hH 9 (by omega)] at g17
      have : ¬ ((9 : Nat) = 3 * k + 1) := by omega
      rw [decide_eq_false this] at g17
      revert g17; decide
  -- from here on the window lies behind the magic word
  have i4 : 4 ≤ i := by omega
  by_cases hA : 8 * i + 6 < 32 + (3 * k + 4)
  · -- the stretch of eight zeros would begin in the header: bit 2 of the window is a zero there
    have g2 := g 2 (by omega) (by decide)
    have e : 8 * i + 2 = 32 + (8 * i + 2 - 32) := by omega
    rw [e, hH _ (by omega)] at g2
    have : ¬ (8 * i + 2 - 32 = 3 * k + 1) := by omega
    rw [decide_eq_false this] at g2
    revert g2; decide
  by_cases hE : 8 * i + 13 < 32 + (3 * k + 4) + nb
  · -- eight zeros inside the symbol section
    apply encodeRuns_no8 (symbolBits buf h (final ≠ .fnil) inv).tail (8 * i + 6 - (32 + (3 * k + 4)))
    · show _ ≤ (bodyBits buf final h inv).length
      rw [hnb]; omega
    · intro j hj
      show (bodyBits buf final h inv).getD _ false = false
      obtain ⟨z1, z2⟩ := zeros6_13 j hj
      have gj := g (6 + j) (by omega) z1
      rw [z2] at gj
      rw [← hB _ (by omega), ← gj]
      congr 1; omega
  · -- the stretch reaches the footer
    have g13 := g 13 (by omega) (by decide)
    have g17 := g 17 (by omega) (by decide)
    have g19 := g 19 (by omega) (by decide)
    have g23 := g 23 (by omega) (by decide)
    have v13 : magicVals.testBit 13 = false := by decide
    have v17 : magicVals.testBit 17 = true := by decide
    have v19 : magicVals.testBit 19 = false := by decide
    have v23 : magicVals.testBit 23 = true := by decide
    rw [v13] at g13; rw [v17] at g17; rw [v19] at g19; rw [v23] at g23
    -- position 13 is a zero: before the ones or past the end
    have c13 : 8 * i + 13 < 32 + (3 * k + 4) + nb + p + 1 ∨ 32 + (3 * k + 4) + nb + p + 1 + h ≤ 8 * i + 13 := by
      by_cases hq : 8 * i + 13 < 32 + (3 * k + 4) + nb + p + 1
      · exact Or.inl hq
      · by_cases ht : 32 + (3 * k + 4) + nb + p + 1 + h ≤ 8 * i + 13
        · exact Or.inr ht
        · exfalso
          have := hO (8 * i + 13 - (32 + (3 * k + 4) + nb + p + 1)) (by omega)
          have e : 32 + (3 * k + 4) + nb + p + 1 + (8 * i + 13 - (32 + (3 * k + 4) + nb + p + 1)) = 8 * i + 13 := by
            omega
          rw [e, g13] at this
          cases this
    rcases c13 with c | c
    · -- position 17 is a one: inside the ones
      have c17 : 32 + (3 * k + 4) + nb + p + 1 ≤ 8 * i + 17 ∧ 8 * i + 17 < 32 + (3 * k + 4) + nb + p + 1 + h := by
        refine ⟨?_, ?_⟩
        · apply Nat.le_of_not_lt
          intro hq
          have := hZ (8 * i + 17 - (32 + (3 * k + 4) + nb)) (by omega)
          have e : 32 + (3 * k + 4) + nb + (8 * i + 17 - (32 + (3 * k + 4) + nb)) = 8 * i + 17 := by omega
          rw [e, g17] at this
          cases this
        · apply Nat.lt_of_not_le
          intro ht
          have := hP (8 * i + 17) ht
          rw [g17] at this
          cases this
      -- position 19 is a zero again: past the end
      have c19 : 32 + (3 * k + 4) + nb + p + 1 + h ≤ 8 * i + 19 := by
        apply Nat.le_of_not_lt
        intro ht
        have := hO (8 * i + 19 - (32 + (3 * k + 4) + nb + p + 1)) (by omega)
        have e : 32 + (3 * k + 4) + nb + p + 1 + (8 * i + 19 - (32 + (3 * k + 4) + nb + p + 1)) = 8 * i + 19 := by
          omega
        rw [e, g19] at this
        cases this
      have := hP (8 * i + 23) (by omega)
      rw [g23] at this
      cases this
    · have := hP (8 * i + 17) (by omega)
      rw [g17] at this
      cases this

end

theorem magic_only_at_start_aux (buf : List UInt8) (final : FinalMode) (bits : Bits)
    (h : encodeBlock buf final = some bits) :
    magicAt (Bits.toBytes bits) 0 = true ∧
    ∀ i, 0 < i → i < (Bits.toBytes bits).length → magicAt (Bits.toBytes bits) i = false := by
  obtain ⟨hl, inv, a1, a2, _, _, _, rfl⟩ := encodeBlock_some buf final bits h
  refine ⟨block_magicAt_zero buf final hl inv a1 a2, ?_⟩
  intro i hi _
  cases hm : magicAt (Bits.toBytes (blockBits buf final hl inv)) i with
  | false => rfl
  | true => exact (block_no_magic_later buf final hl inv a1 a2 i hi hm).elim

end Compress.Proofs.MetaLoc
