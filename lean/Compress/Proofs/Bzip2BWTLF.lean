/-
The abstract "LF mapping" lemma: for a sorted list of rows closed under
rotation, the stable sort of the rows by their last symbol maps every row to
its rotation by one.
-/
import Mathlib.Data.List.Rotate
import Mathlib.Data.List.Lex

namespace Compress.Proofs.Bzip2BWT

theorem cons_le_cons_iff' (a b : ℕ) (l l' : List ℕ) :
    a :: l ≤ b :: l' ↔ a < b ∨ a = b ∧ l ≤ l' := by
  rw [le_iff_lt_or_eq, List.cons_lt_cons_iff, le_iff_lt_or_eq]
  simp only [List.cons.injEq]
  tauto

theorem dropLast_le_dropLast : ∀ (l l' : List ℕ), l.length = l'.length → l ≤ l' →
    l.dropLast ≤ l'.dropLast
  | [], [], _, _ => le_refl _
  | [], _ :: _, h, _ => by simp at h
  | _ :: _, [], h, _ => by simp at h
  | [x], [y], _, _ => by simp
  | [_], _ :: _ :: _, h, _ => by simp at h
  | _ :: _ :: _, [_], h, _ => by simp at h
  | x :: u0 :: us, y :: v0 :: vs, h, hle => by
    rw [List.dropLast_cons_cons, List.dropLast_cons_cons, cons_le_cons_iff']
    rw [cons_le_cons_iff'] at hle
    rcases hle with hle | ⟨e, hle⟩
    · exact Or.inl hle
    · exact Or.inr ⟨e, dropLast_le_dropLast (u0 :: us) (v0 :: vs) (by simpa using h) hle⟩

/-- last element (or `0`). -/
def lastD (l : List ℕ) : ℕ := l.getD (l.length - 1) 0

theorem rotate_pred_eq (l : List ℕ) (h : l ≠ []) :
    l.rotate (l.length - 1) = lastD l :: l.dropLast := by
  rw [List.rotate_eq_drop_append_take (by omega), List.drop_length_sub_one h,
    List.dropLast_eq_take, List.getLast_eq_getElem]
  have : l.length - 1 < l.length := by
    have := List.length_pos_iff.2 h; omega
  simp [lastD, List.getD_eq_getElem?_getD, List.getElem?_eq_getElem this]

theorem rotr_le_rotr (l l' : List ℕ) (hl : l.length = l'.length) (hne : l ≠ [])
    (h : lastD l < lastD l' ∨ (lastD l = lastD l' ∧ l ≤ l')) :
    l.rotate (l.length - 1) ≤ l'.rotate (l'.length - 1) := by
  have hne' : l' ≠ [] := by
    intro e; subst e; simp at hl; exact hne hl
  rw [rotate_pred_eq l hne, rotate_pred_eq l' hne', cons_le_cons_iff']
  rcases h with h | ⟨e, h⟩
  · exact Or.inl h
  · exact Or.inr ⟨e, dropLast_le_dropLast l l' hl h⟩

theorem lf_abstract (n : ℕ) (hn : 0 < n) (S : ℕ → List ℕ) (pm : ℕ → ℕ)
    (hlen : ∀ t, t < n → (S t).length = n)
    (hsorted : ∀ t t', t < t' → t' < n → S t ≤ S t')
    (hclosed : ((List.range n).map (fun t => (S t).rotate (n - 1))).Perm ((List.range n).map S))
    (hpm : ((List.range n).map pm).Perm (List.range n))
    (hstable : ∀ t t', t < t' → t' < n →
      lastD (S (pm t)) < lastD (S (pm t')) ∨
        (lastD (S (pm t)) = lastD (S (pm t')) ∧ pm t < pm t')) :
    ∀ t, t < n → S (pm t) = (S t).rotate 1 := by
  have hpm_lt : ∀ t, t < n → pm t < n := by
    intro t ht
    have : pm t ∈ (List.range n).map pm := List.mem_map.2 ⟨t, List.mem_range.2 ht, rfl⟩
    exact List.mem_range.1 (hpm.mem_iff.1 this)
  have hT_perm : ((List.range n).map (fun t => (S (pm t)).rotate (n - 1))).Perm
      ((List.range n).map S) := by
    have h1 := hpm.map (fun p => (S p).rotate (n - 1))
    rw [List.map_map] at h1
    exact h1.trans hclosed
  have hT_sorted : ((List.range n).map (fun t => (S (pm t)).rotate (n - 1))).Pairwise (· ≤ ·) := by
    rw [List.pairwise_map]
    refine List.Pairwise.imp_of_mem ?_ (List.pairwise_lt_range (n := n))
    intro t t' _ ht' htt'
    have ht' := List.mem_range.1 ht'
    have ht : t < n := by omega
    have l1 := hlen _ (hpm_lt t ht)
    have l2 := hlen _ (hpm_lt t' ht')
    have := rotr_le_rotr (S (pm t)) (S (pm t')) (by rw [l1, l2])
      (by intro e; rw [e] at l1; simp at l1; omega)
      (by
        rcases hstable t t' htt' ht' with h | ⟨e, h⟩
        · exact Or.inl h
        · exact Or.inr ⟨e, hsorted _ _ h (hpm_lt t' ht')⟩)
    rwa [l1, l2] at this
  have hS_sorted : ((List.range n).map S).Pairwise (· ≤ ·) := by
    rw [List.pairwise_map]
    refine List.Pairwise.imp_of_mem ?_ (List.pairwise_lt_range (n := n))
    intro t t' _ ht' htt'
    exact hsorted t t' htt' (List.mem_range.1 ht')
  have heq := List.Perm.eq_of_pairwise (le := (· ≤ ·)) (fun a b _ _ h1 h2 => le_antisymm h1 h2)
    hT_sorted hS_sorted hT_perm
  intro t ht
  have h1 := congrArg (fun l => l[t]?) heq
  simp only [List.getElem?_map, List.getElem?_range ht, Option.map_some, Option.some.injEq] at h1
  rw [← h1, List.rotate_rotate, Nat.sub_add_cancel hn]
  conv_rhs => rw [← hlen _ (hpm_lt t ht)]
  rw [List.rotate_length]

end Compress.Proofs.Bzip2BWT
