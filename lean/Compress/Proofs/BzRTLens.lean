/-
bzip2 round trip: delta-coded code lengths (`lensBits` vs `readLens`/`readTables`).
-/
import Compress.Proofs.BzRTBits

namespace Compress.Proofs.BzRT
open Compress Compress.Bzip2 Compress.Prefix

theorem readLens_step_ok (clen : Nat) (h1 : 1 ≤ clen) (h2 : clen ≤ 20) :
    ¬ (clen < 1 ∨ clen > maxPrefixBits) := by
  simp only [maxPrefixBits]; omega

theorem readLens_down (fuel n d clen : Nat) (acc : List Nat) (rest : Bits)
    (h1 : d < clen) (h2 : clen ≤ 20) :
    readLens (fuel + d) (n + 1) clen acc ((List.replicate d [true, true]).flatten ++ rest)
      = readLens fuel (n + 1) (clen - d) acc rest := by
  induction d generalizing clen with
  | zero => simp
  | succ d ih =>
    have hc := readLens_step_ok clen (by omega) h2
    rw [← Nat.add_assoc]
    simp only [List.replicate_succ, List.flatten_cons, List.cons_append, List.nil_append,
      readLens, if_neg hc]
    rw [ih (clen - 1) (by omega) (by omega)]
    congr 1
    omega

theorem readLens_up (fuel n d clen : Nat) (acc : List Nat) (rest : Bits)
    (h1 : 1 ≤ clen) (h2 : clen + d ≤ 20) :
    readLens (fuel + d) (n + 1) clen acc ((List.replicate d [true, false]).flatten ++ rest)
      = readLens fuel (n + 1) (clen + d) acc rest := by
  induction d generalizing clen with
  | zero => simp
  | succ d ih =>
    have hc := readLens_step_ok clen h1 (by omega)
    rw [← Nat.add_assoc]
    simp only [List.replicate_succ, List.flatten_cons, List.cons_append, List.nil_append,
      readLens, if_neg hc]
    rw [ih (clen + 1) (by omega) (by omega)]
    congr 1
    omega

theorem readLens_go (lens : List Nat) (hl : ∀ l ∈ lens, 1 ≤ l ∧ l ≤ 20)
    (fuel clen : Nat) (hf : 20 * lens.length + 1 ≤ fuel) (h1 : 1 ≤ clen) (h2 : clen ≤ 20)
    (acc : List Nat) (rest : Bits) :
    readLens fuel lens.length clen acc (lensBits.go lens clen ++ rest)
      = .ok (acc.reverse ++ lens, rest) := by
  induction lens generalizing fuel clen acc with
  | nil =>
    obtain ⟨f, rfl⟩ : ∃ f, fuel = f + 1 := ⟨fuel - 1, by omega⟩
    simp [lensBits.go, readLens]
  | cons l ls ih =>
    have hl' := hl l (by simp)
    obtain ⟨f, rfl, hf'⟩ : ∃ f, fuel = ((f + 1) + (l - clen)) + (clen - l) ∧ 20 * ls.length + 1 ≤ f :=
      ⟨fuel - 1 - (l - clen) - (clen - l), by simp only [List.length_cons] at hf; omega,
        by simp only [List.length_cons] at hf; omega⟩
    simp only [lensBits.go, List.length_cons, List.append_assoc]
    rw [readLens_down _ _ _ _ _ _ (by omega) h2,
      readLens_up _ _ _ _ _ _ (by omega) (by omega)]
    have e : clen - (clen - l) + (l - clen) = l := by omega
    rw [e]
    have hc := readLens_step_ok l hl'.1 hl'.2
    simp only [List.cons_append, List.nil_append, readLens, if_neg hc]
    rw [ih (fun x hx => hl x (by simp [hx])) f l hf' hl'.1 hl'.2]
    simp

/-- the tables written by `encodePrefix` are read back by `readTables`. -/
theorem readTables_lensBits (numSyms : Nat) (hn : 1 ≤ numSyms) (allLens : List (List Nat))
    (h : ∀ lens ∈ allLens, lens.length = numSyms ∧ ∀ l ∈ lens, 1 ≤ l ∧ l ≤ maxPrefixBits)
    (acc : List CTab) (rest : Bits) :
    readTables allLens.length numSyms acc ((allLens.map lensBits).flatten ++ rest)
      = .ok (acc.reverse ++ allLens.map mkCTab, rest) := by
  induction allLens generalizing acc with
  | nil => simp [readTables]
  | cons lens ls ih =>
    obtain ⟨hlen, hl⟩ := h lens (by simp)
    simp only [maxPrefixBits] at hl
    have hh : 1 ≤ lens.headD 0 ∧ lens.headD 0 ≤ 20 := by
      cases lens with
      | nil => simp at hlen; omega
      | cons a t => exact hl a (by simp)
    simp only [List.length_cons, List.map_cons, List.flatten_cons, lensBits, List.append_assoc,
      readTables]
    rw [readBE_bitsBE _ _ (by omega)]
    simp only []
    rw [← hlen, readLens_go lens hl _ _ (by omega) hh.1 hh.2]
    simp only [List.reverse_nil, List.nil_append]
    rw [hlen, ih (fun x hx => h x (by simp [hx]))]
    simp

end Compress.Proofs.BzRT
