/-
Prefix-monotonicity of the Brotli specification decoder: the vocabulary.

A computation `x : Dec α` is prefix-monotone at a state `s` with postcondition `Q`
(`PMAt x s Q`) when, whenever it succeeds from `s`,
* the result satisfies `Q`,
* it consumed a prefix `c` of the unread bits, counted them, and only appended output,
* started on `c ++ ys` for any `ys` it gives the same result leaving `ys`,
* started on a proper prefix of `c` it fails with `unexpectedEOF`, having produced a
  prefix of the output of the successful run.
Everything else in the state (`used`, `out`) is kept fixed between the runs compared.
-/
import Compress.Brotli.Spec

namespace Compress.Proofs.BrCut
open Compress Compress.Brotli

/-- what every successful step does to the state: bits are consumed and counted, output grows. -/
structure Mono (s s1 : St) : Prop where
  len_le : s1.bits.length ≤ s.bits.length
  used_eq : s1.used + s1.bits.length = s.used + s.bits.length
  size_le : s.out.size ≤ s1.out.size

theorem Mono.refl (s : St) : Mono s s := ⟨Nat.le_refl _, rfl, Nat.le_refl _⟩

theorem Mono.trans {s s1 s2 : St} (h1 : Mono s s1) (h2 : Mono s1 s2) : Mono s s2 :=
  ⟨Nat.le_trans h2.len_le h1.len_le, by rw [h2.used_eq, h1.used_eq], Nat.le_trans h1.size_le h2.size_le⟩

def PMAt {α : Type} (x : Dec α) (s : St) (Q : α → St → Prop) : Prop :=
  ∀ a s1, x s = (.ok a, s1) → Q a s1 ∧
    ∃ c : Bits, s.bits = c ++ s1.bits ∧ s1.used = s.used + c.length ∧ s.out.toList <+: s1.out.toList ∧
      (∀ ys, x { s with bits := c ++ ys } = (.ok a, { s1 with bits := ys })) ∧
      (∀ zs ys, c = zs ++ ys → ys ≠ [] →
        ∃ s2, x { s with bits := zs } = (.error .unexpectedEOF, s2) ∧ s2.out.toList <+: s1.out.toList)

/-- prefix-monotone everywhere, no particular postcondition. -/
def PM {α : Type} (x : Dec α) : Prop := ∀ s, PMAt x s (fun _ _ => True)

theorem bind_apply {α β : Type} (x : Dec α) (f : α → Dec β) (s : St) :
    (x >>= f) s = match x s with
      | (.ok a, s') => f a s'
      | (.error e, s') => (.error e, s') := rfl

theorem bind_ok_eq {α β : Type} {x : Dec α} {f : α → Dec β} {s s1 : St} {a : α}
    (h : x s = (.ok a, s1)) : (x >>= f) s = f a s1 := by
  rw [bind_apply, h]

theorem bind_err_eq {α β : Type} {x : Dec α} {f : α → Dec β} {s s1 : St} {e : Err}
    (h : x s = (.error e, s1)) : (x >>= f) s = (.error e, s1) := by
  rw [bind_apply, h]

theorem bind_ok {α β : Type} {x : Dec α} {f : α → Dec β} {s s2 : St} {b : β}
    (h : (x >>= f) s = (.ok b, s2)) : ∃ a s1, x s = (.ok a, s1) ∧ f a s1 = (.ok b, s2) := by
  rw [bind_apply] at h
  split at h
  · rename_i a s1 e; exact ⟨a, s1, e, h⟩
  · cases h

theorem PMAt.mono_run {α : Type} {x : Dec α} {s : St} {Q : α → St → Prop} (h : PMAt x s Q)
    {a : α} {s1 : St} (hr : x s = (.ok a, s1)) : Mono s s1 := by
  obtain ⟨_, c, hb, hu, ho, _, _⟩ := h a s1 hr
  refine ⟨by rw [hb]; simp, by rw [hb, hu]; simp; omega, ?_⟩
  have := ho.length_le
  simpa using this

theorem PMAt.post {α : Type} {x : Dec α} {s : St} {Q : α → St → Prop} (h : PMAt x s Q)
    {a : α} {s1 : St} (hr : x s = (.ok a, s1)) : Q a s1 := (h a s1 hr).1

theorem PMAt.weaken {α : Type} {x : Dec α} {s : St} {Q Q' : α → St → Prop} (h : PMAt x s Q)
    (hq : ∀ a s1, x s = (.ok a, s1) → Q a s1 → Mono s s1 → Q' a s1) : PMAt x s Q' := by
  intro a s1 hr
  exact ⟨hq a s1 hr (h a s1 hr).1 (h.mono_run hr), (h a s1 hr).2⟩

theorem PMAt.true {α : Type} {x : Dec α} {s : St} {Q : α → St → Prop} (h : PMAt x s Q) :
    PMAt x s (fun _ _ => True) := h.weaken (fun _ _ _ _ _ => trivial)

theorem PM.at {α : Type} {x : Dec α} (h : PM x) (s : St) : PMAt x s (fun _ _ => True) := h s

/-- sequencing. -/
theorem PMAt.bind {α β : Type} {x : Dec α} {f : α → Dec β} {s : St} {Q1 : α → St → Prop}
    {Q2 : β → St → Prop} (hx : PMAt x s Q1)
    (hf : ∀ a s1, x s = (.ok a, s1) → Q1 a s1 → Mono s s1 → PMAt (f a) s1 Q2) :
    PMAt (x >>= f) s Q2 := by
  intro b s2 h
  obtain ⟨a, s1, e1, e2⟩ := bind_ok h
  obtain ⟨q1, c1, hb1, hu1, ho1, ext1, cut1⟩ := hx a s1 e1
  obtain ⟨q2, c2, hb2, hu2, ho2, ext2, cut2⟩ := hf a s1 e1 q1 (hx.mono_run e1) b s2 e2
  refine ⟨q2, c1 ++ c2, by rw [hb1, hb2, List.append_assoc], by rw [hu2, hu1, List.length_append]; omega,
    ho1.trans ho2, fun ys => ?_, fun zs ys hc hys => ?_⟩
  · rw [List.append_assoc, bind_ok_eq (ext1 (c2 ++ ys))]
    exact ext2 ys
  · rcases List.append_eq_append_iff.1 hc with ⟨a', rfl, rfl⟩ | ⟨a', rfl, rfl⟩
    · -- the cut is inside (or at the start of) the second part
      rw [bind_ok_eq (ext1 a')]
      exact cut2 a' ys rfl hys
    · by_cases ha : a' = []
      · subst ha
        have e0 := ext1 []
        simp only [List.append_nil] at e0
        rw [bind_ok_eq e0]
        exact cut2 [] c2 rfl (by simpa using hys)
      · obtain ⟨s2', e, hp⟩ := cut1 zs a' rfl ha
        exact ⟨s2', bind_err_eq e, hp.trans ho2⟩

theorem nil_cut {α : Type} {P : Prop} {zs ys : List α} (hc : [] = zs ++ ys) (hys : ys ≠ []) : P :=
  absurd (List.nil_eq_append_iff.1 hc).2 hys

theorem PMAt.pure {α : Type} {a : α} {s : St} {Q : α → St → Prop} (h : Q a s) :
    PMAt (pure a : Dec α) s Q := by
  intro a' s1 hr
  have hr' : ((.ok a, s) : Except Err α × St) = (.ok a', s1) := hr
  simp only [Prod.mk.injEq, Except.ok.injEq] at hr'
  obtain ⟨rfl, rfl⟩ := hr'
  exact ⟨h, [], rfl, rfl, List.prefix_refl _, fun ys => rfl, fun zs ys hc hys => nil_cut hc hys⟩

/-- a computation that cannot succeed from `s` whatever the unread bits. -/
theorem PMAt.of_not_ok {α : Type} {x : Dec α} {s : St} {Q : α → St → Prop}
    (h : ∀ a s1, x s ≠ (.ok a, s1)) : PMAt x s Q := by
  intro a s1 hr; exact absurd hr (h a s1)

theorem PMAt.fail {α : Type} {e : Err} {s : St} {Q : α → St → Prop} : PMAt (fail e : Dec α) s Q :=
  PMAt.of_not_ok (fun _ _ h => by cases h)

theorem PMAt.corrupt {α : Type} {s : St} {Q : α → St → Prop} : PMAt (corrupt : Dec α) s Q :=
  PMAt.fail

theorem bind_corrupt_not_ok {α β : Type} (x : Dec α) (s : St) (b : β) (s2 : St) :
    (x >>= fun _ => (corrupt : Dec β)) s ≠ (.ok b, s2) := by
  intro h
  obtain ⟨a, s1, _, e2⟩ := bind_ok h
  cases e2

/-- the two runs compared may use different but pointwise equal computations. -/
theorem PMAt.congr {α : Type} {x y : Dec α} {s : St} {Q : α → St → Prop} (h : PMAt y s Q)
    (e : ∀ b, x { s with bits := b } = y { s with bits := b }) : PMAt x s Q := by
  intro a s1 hr
  have e0 : x s = y s := e s.bits
  rw [e0] at hr
  obtain ⟨q, c, hb, hu, ho, ext, cut⟩ := h a s1 hr
  refine ⟨q, c, hb, hu, ho, fun ys => ?_, fun zs ys hc hys => ?_⟩
  · rw [e]; exact ext ys
  · rw [e]; exact cut zs ys hc hys

theorem PMAt.ite {α : Type} {c : Prop} [Decidable c] {x y : Dec α} {s : St} {Q : α → St → Prop}
    (hx : c → PMAt x s Q) (hy : ¬ c → PMAt y s Q) : PMAt (if c then x else y) s Q := by
  by_cases h : c
  · rw [if_pos h]; exact hx h
  · rw [if_neg h]; exact hy h

theorem PMAt.map {α β : Type} {x : Dec α} {g : α → β} {s : St} {Q : α → St → Prop}
    (hx : PMAt x s Q) : PMAt (g <$> x) s (fun b s1 => ∃ a, b = g a ∧ Q a s1) :=
  PMAt.bind (f := fun a => Pure.pure (g a)) hx (fun a _ _ q _ => PMAt.pure ⟨a, rfl, q⟩)

/-! ### primitives -/

theorem readBit_pm (s : St) : PMAt readBit s (fun _ s1 => s1.bits.length + 1 = s.bits.length) := by
  intro b s1 hr
  unfold readBit at hr
  split at hr
  · cases hr
  · rename_i b' rest hb
    simp only [Prod.mk.injEq, Except.ok.injEq] at hr
    obtain ⟨rfl, rfl⟩ := hr
    refine ⟨by simp [hb], [b'], by simp [hb], rfl, List.prefix_refl _, fun ys => rfl, fun zs ys hc hys => ?_⟩
    cases zs with
    | nil => exact ⟨_, rfl, List.prefix_refl _⟩
    | cons z zs =>
      cases ys with
      | nil => exact absurd rfl hys
      | cons y ys =>
        have := congrArg List.length hc
        simp at this

theorem emit_pm (b : UInt8) (s : St) : PMAt (emit b) s (fun _ s1 => s1.out.size = s.out.size + 1) := by
  intro u s1 hr
  have hr' : ((.ok (), { s with out := s.out.push b }) : Except Err Unit × St) = (.ok u, s1) := hr
  simp only [Prod.mk.injEq] at hr'
  obtain ⟨_, rfl⟩ := hr'
  refine ⟨by simp, [], rfl, rfl, by simp, fun ys => rfl, fun zs ys hc hys => nil_cut hc hys⟩

/-- a computation that only looks at `used` and `out`. -/
theorem PMAt.const {α : Type} (g : St → α) (s : St) (hg : ∀ b, g { s with bits := b } = g s) :
    PMAt (fun s => (.ok (g s), s) : Dec α) s (fun a s1 => a = g s ∧ s1 = s) := by
  intro a s1 hr
  simp only [Prod.mk.injEq, Except.ok.injEq] at hr
  obtain ⟨rfl, rfl⟩ := hr
  refine ⟨⟨rfl, rfl⟩, [], rfl, rfl, List.prefix_refl _, fun ys => ?_, fun zs ys hc hys => ?_⟩
  · simp only [hg]; rfl
  · exact nil_cut hc hys

theorem outputSize_pm (s : St) : PMAt outputSize s (fun a s1 => a = s.out.size ∧ s1 = s) :=
  PMAt.const (fun s => s.out.size) s (fun _ => rfl)

theorem outputByte_pm (back : Nat) (s : St) : PMAt (outputByte back) s (fun _ s1 => s1 = s) :=
  (PMAt.const (fun s => if back ≤ s.out.size then s.out.getD (s.out.size - back) 0 else 0) s
    (fun _ => rfl)).weaken (fun _ _ _ h _ => h.2)

theorem usedNow_pm (s : St) : PMAt (fun s => (.ok s.used, s) : Dec Nat) s (fun a s1 => a = s.used ∧ s1 = s) :=
  PMAt.const (fun s => s.used) s (fun _ => rfl)

end Compress.Proofs.BrCut
