/-
meta.Writer as a state machine (API level): error latch, Close, counters,
"no false success", Reset.  Model: `Compress/Meta/WriterApi.lean`.
-/
import Compress.Meta.WriterApi

namespace Compress.Proofs.MetaWApi
open Compress Compress.Meta Compress.XFlate

/-- sinks attached by Reset have not failed before -/
def _root_.Compress.Meta.MOp.fresh : MOp → Prop
  | .reset sk _ => sk.failed = false
  | _ => True

def _root_.Compress.Meta.MOp.noReset : MOp → Prop
  | .reset _ _ => False
  | _ => True

/-- the latch invariant -/
def Latched (s : MW) : Prop :=
  (s.done = true → s.err = some .closed) ∧ (s.sink.failed = true → s.err ≠ none ∧ s.done = false)

def _root_.Compress.Meta.MRes.isErr : MRes → Prop
  | .write _ e => e ≠ none
  | .close e => e ≠ none
  | .reset => False

/-! ### the sink -/

/-- `Sink.write` returns no error only if it appended all the bytes; an error is
    always an injected `.other` and marks the sink as failed. -/
theorem sink_write_cases (sk : Sink) (b : List UInt8) :
    ((sk.write b).2.2 = none ∧ (sk.write b).2.1 = b.length ∧ (sk.write b).1.got = sk.got ++ b ∧
      (sk.write b).1.failed = sk.failed) ∨
    (∃ t, (sk.write b).2.2 = some (.other t) ∧ (sk.write b).1.failed = true ∧ (sk.write b).2.1 ≤ b.length ∧
      (sk.write b).1.got = sk.got ++ b.take (sk.write b).2.1) := by
  unfold Sink.write
  split
  · left; simp
  · split
    · left; simp
    · right
      refine ⟨sk.tag, ?_⟩
      cases sk.mode <;> simp <;> omega

/-! ### encodeBlock -/

theorem encodeBlock_cases (s : MW) (f : FinalMode) :
    (encodeBlockBytes s.buf f = none ∧ s.encodeBlock f = (s, some .invalid)) ∨
    (∃ blk, encodeBlockBytes s.buf f = some blk ∧
      (((s.sink.write blk).2.2 = none ∧
        s.encodeBlock f = ({ s with sink := (s.sink.write blk).1, outOff := s.outOff + (s.sink.write blk).2.1,
                                    buf := [], buf0s := 0, buf1s := 0, nblk := s.nblk + 1 }, none)) ∨
       (∃ e, (s.sink.write blk).2.2 = some e ∧
        s.encodeBlock f = ({ s with sink := (s.sink.write blk).1, outOff := s.outOff + (s.sink.write blk).2.1 }, some e)))) := by
  unfold MW.encodeBlock
  cases h : encodeBlockBytes s.buf f with
  | none => left; simp
  | some blk =>
    right
    refine ⟨blk, rfl, ?_⟩
    cases h2 : (s.sink.write blk).2.2 with
    | none => left; simp [h2]
    | some e => right; exact ⟨e, rfl, by simp [h2]⟩


/-- what `encodeBlock`/`Write`/`Close` leave alone, and the two counters that move together. -/
structure Frame (s r : MW) : Prop where
  acc : r.acc = s.acc
  base : r.base = s.base
  done : r.done = s.done
  final : r.final = s.final
  inOff : r.inOff = s.inOff
  got : ∃ suf, r.sink.got = s.sink.got ++ suf
  outOff : r.outOff + (s.sink.got.length : Int) = s.outOff + (r.sink.got.length : Int)

theorem Frame.refl (s : MW) : Frame s s :=
  ⟨rfl, rfl, rfl, rfl, rfl, ⟨[], by simp⟩, rfl⟩

theorem Frame.trans {a b c : MW} (h1 : Frame a b) (h2 : Frame b c) : Frame a c := by
  obtain ⟨s1, g1⟩ := h1.got
  obtain ⟨s2, g2⟩ := h2.got
  refine ⟨h2.acc.trans h1.acc, h2.base.trans h1.base, h2.done.trans h1.done, h2.final.trans h1.final,
    h2.inOff.trans h1.inOff, ⟨s1 ++ s2, by rw [g2, g1, List.append_assoc]⟩, ?_⟩
  have := h1.outOff
  have := h2.outOff
  omega

theorem encodeBlock_frame (s : MW) (f : FinalMode) :
    Frame s (s.encodeBlock f).1 ∧ (s.encodeBlock f).1.err = s.err := by
  rcases encodeBlock_cases s f with ⟨-, h⟩ | ⟨blk, -, ⟨-, h⟩ | ⟨e, -, h⟩⟩
  · rw [h]; exact ⟨Frame.refl s, rfl⟩
  all_goals
    rw [h]
    refine ⟨⟨rfl, rfl, rfl, rfl, rfl, ?_, ?_⟩, rfl⟩
    · rcases sink_write_cases s.sink blk with ⟨-, -, hg, -⟩ | ⟨t, -, -, -, hg⟩
      · exact ⟨_, hg⟩
      · exact ⟨_, hg⟩
    · rcases sink_write_cases s.sink blk with ⟨-, hn, hg, -⟩ | ⟨t, -, -, hn, hg⟩
      · simp only [hg, hn, List.length_append]; omega
      · simp only [hg, List.length_append, List.length_take]; omega

/-! ### the loop of `Write` -/

/-- the flush decision in front of one byte. -/
def flushStep (s : MW) (b : UInt8) : MW × Option Err :=
  if (decide (s.buf.length < ensureRawBytes) ||
      decide ((computeHuffLen (s.buf0s + Bits.countZeros (Bits.ofByte b)) (s.buf1s + Bits.countOnes (Bits.ofByte b))).1 > 0))
  then (s, none) else s.encodeBlock .fnil

def pushByte (s : MW) (b : UInt8) : MW :=
  { s with buf := s.buf ++ [b], buf0s := s.buf0s + Bits.countZeros (Bits.ofByte b),
           buf1s := s.buf1s + Bits.countOnes (Bits.ofByte b) }

theorem writeLoop_nil (s : MW) (n : Nat) : MW.writeLoop s [] n = (s, n) := rfl

theorem writeLoop_cons (s : MW) (b : UInt8) (bs : List UInt8) (n : Nat) :
    MW.writeLoop s (b :: bs) n =
      match (flushStep s b).2 with
      | some e => ({ (flushStep s b).1 with err := some e }, n)
      | none => MW.writeLoop (pushByte (flushStep s b).1 b) bs (n + 1) := rfl

theorem flushStep_frame (s : MW) (b : UInt8) : Frame s (flushStep s b).1 ∧ (flushStep s b).1.err = s.err := by
  unfold flushStep
  split
  · exact ⟨Frame.refl s, rfl⟩
  · exact encodeBlock_frame s .fnil

theorem pushByte_frame (s : MW) (b : UInt8) : Frame s (pushByte s b) :=
  ⟨rfl, rfl, rfl, rfl, rfl, ⟨[], by simp [pushByte]⟩, rfl⟩

theorem setErr_frame (s : MW) (e : Option Err) : Frame s { s with err := e } :=
  ⟨rfl, rfl, rfl, rfl, rfl, ⟨[], by simp⟩, rfl⟩

theorem writeLoop_frame : ∀ (d : List UInt8) (s : MW) (n : Nat),
    Frame s (MW.writeLoop s d n).1 ∧ n ≤ (MW.writeLoop s d n).2 ∧ (MW.writeLoop s d n).2 ≤ n + d.length
  | [], s, n => ⟨Frame.refl s, Nat.le_refl _, Nat.le_refl _⟩
  | b :: bs, s, n => by
    rw [writeLoop_cons]
    have hf := (flushStep_frame s b).1
    split
    · exact ⟨hf.trans (setErr_frame _ _), Nat.le_refl _, by simp⟩
    · have ih := writeLoop_frame bs (pushByte (flushStep s b).1 b) (n + 1)
      refine ⟨hf.trans ((pushByte_frame _ b).trans ih.1), by omega, ?_⟩
      have := ih.2.2
      simp only [List.length_cons]; omega


/-! ### `Write` and `Close` without the `let`s -/

theorem close_eq (s : MW) :
    s.close =
      if s.done then (s, none)
      else if s.err ≠ none then (s, s.err)
      else match (s.encodeBlock s.final).2 with
        | some e => ({ (s.encodeBlock s.final).1 with err := some e }, some e)
        | none => ({ (s.encodeBlock s.final).1 with err := some .closed, done := true }, none) := rfl

theorem write_eq (s : MW) (d : List UInt8) :
    s.write d =
      if s.err ≠ none then (s, 0, s.err)
      else ({ (MW.writeLoop s d 0).1 with inOff := (MW.writeLoop s d 0).1.inOff + (MW.writeLoop s d 0).2,
                                          acc := (MW.writeLoop s d 0).1.acc ++ d.take (MW.writeLoop s d 0).2 },
            (MW.writeLoop s d 0).2, (MW.writeLoop s d 0).1.err) := rfl

/-! ### 1. the latch invariant -/

theorem encodeBlock_ok_failed (s : MW) (f : FinalMode) (h : (s.encodeBlock f).2 = none) :
    (s.encodeBlock f).1.sink.failed = s.sink.failed := by
  rcases encodeBlock_cases s f with ⟨-, h1⟩ | ⟨blk, -, ⟨h0, h1⟩ | ⟨e, -, h1⟩⟩
  · rw [h1] at h; simp at h
  · rw [h1]
    rcases sink_write_cases s.sink blk with ⟨-, -, -, hf⟩ | ⟨t, he, -⟩
    · exact hf
    · rw [h0] at he; simp at he
  · rw [h1] at h; simp at h

theorem flushStep_ok_failed (s : MW) (b : UInt8) (h : (flushStep s b).2 = none) :
    (flushStep s b).1.sink.failed = s.sink.failed := by
  unfold flushStep at h ⊢
  split
  · rfl
  · rename_i hk
    rw [if_neg hk] at h
    exact encodeBlock_ok_failed s .fnil h

theorem writeLoop_latched : ∀ (d : List UInt8) (s : MW) (n : Nat), s.sink.failed = false →
    (MW.writeLoop s d n).1.sink.failed = true → (MW.writeLoop s d n).1.err ≠ none
  | [], s, n, h0 => by rw [writeLoop_nil]; intro h; rw [h0] at h; simp at h
  | b :: bs, s, n, h0 => by
    rw [writeLoop_cons]
    split
    · intro _; simp
    · rename_i hn
      apply writeLoop_latched bs
      show (flushStep s b).1.sink.failed = false
      rw [flushStep_ok_failed s b hn, h0]

theorem latched_fresh (sk : Sink) (f : FinalMode) (h : sk.failed = false) :
    Latched ((({} : MW).reset sk).setFinal f) := by
  constructor
  · intro hd; simp [MW.reset, MW.setFinal] at hd
  · intro hf; simp [MW.reset, MW.setFinal, h] at hf

theorem latched_write (s : MW) (h : Latched s) (d : List UInt8) : Latched (s.write d).1 := by
  rw [write_eq]
  split
  · exact h
  · rename_i he
    have he : s.err = none := by simpa using he
    have hd : s.done = false := by
      cases hd : s.done with
      | false => rfl
      | true => have := h.1 hd; rw [he] at this; simp at this
    have hf : s.sink.failed = false := by
      cases hf : s.sink.failed with
      | false => rfl
      | true => exact absurd he (h.2 hf).1
    have fr := (writeLoop_frame d s 0).1
    have hl := writeLoop_latched d s 0 hf
    have hd' : (MW.writeLoop s d 0).1.done = false := fr.done.trans hd
    constructor
    · intro hdone; simp only [hd'] at hdone; simp at hdone
    · intro hfail; exact ⟨hl hfail, hd'⟩

theorem latched_close (s : MW) (h : Latched s) : Latched (s.close).1 := by
  rw [close_eq]
  split
  · exact h
  · rename_i hd
    have hd : s.done = false := by simpa using hd
    split
    · exact h
    · rename_i he
      have he : s.err = none := by simpa using he
      have hf : s.sink.failed = false := by
        cases hf : s.sink.failed with
        | false => rfl
        | true => exact absurd he (h.2 hf).1
      have fr := (encodeBlock_frame s s.final).1
      split
      · constructor
        · intro hdone
          have : (s.encodeBlock s.final).1.done = true := hdone
          rw [fr.done, hd] at this; simp at this
        · intro _
          exact ⟨by simp, fr.done.trans hd⟩
      · rename_i hn
        constructor
        · intro _; rfl
        · intro hfail
          have : (s.encodeBlock s.final).1.sink.failed = true := hfail
          rw [encodeBlock_ok_failed s s.final hn, hf] at this; simp at this

theorem latched_step (s : MW) (h : Latched s) (op : MOp) (hf : op.fresh) : Latched (s.step op).1 := by
  cases op with
  | write d => exact latched_write s h d
  | close => exact latched_close s h
  | reset sk f => exact latched_fresh sk f hf

theorem latched_run : ∀ (ops : List MOp) (s : MW), Latched s → (∀ op ∈ ops, op.fresh) → Latched (MW.run s ops).1
  | [], _, h, _ => h
  | op :: ops, s, h, hf =>
    latched_run ops (s.step op).1 (latched_step s h op (hf op (by simp))) (fun o ho => hf o (by simp [ho]))

/-! ### 2. once failed, always failing (until Reset) -/

theorem keeps_failing (s : MW) (e : Err) (he : s.err = some e) (hd : s.done = false) (d : List UInt8) :
    s.step (.write d) = (s, .write 0 (some e)) ∧ s.step .close = (s, .close (some e)) := by
  simp [MW.step, MW.write, MW.close, he, hd]

theorem stuck_run (s : MW) (e : Err) (he : s.err = some e) (hd : s.done = false) :
    ∀ (ops : List MOp), (∀ op ∈ ops, op.noReset) → (MW.run s ops).1 = s ∧ ∀ r ∈ (MW.run s ops).2, r.isErr
  | [], _ => ⟨rfl, by simp [MW.run]⟩
  | op :: ops, hn => by
    have ih := stuck_run s e he hd ops (fun o ho => hn o (by simp [ho]))
    have h1 := hn op (by simp)
    cases op with
    | reset sk f => exact absurd h1 (by simp [MOp.noReset])
    | write d =>
      simp only [MW.run, (keeps_failing s e he hd d).1]
      refine ⟨ih.1, ?_⟩
      intro r hr
      rcases List.mem_cons.1 hr with rfl | hr
      · simp [MRes.isErr]
      · exact ih.2 r hr
    | close =>
      simp only [MW.run, (keeps_failing s e he hd []).2]
      refine ⟨ih.1, ?_⟩
      intro r hr
      rcases List.mem_cons.1 hr with rfl | hr
      · simp [MRes.isErr]
      · exact ih.2 r hr

/-- once the sink refused bytes every later Write/Close returns an error (in
    particular Close never returns nil) and nothing changes, until Reset. -/
theorem failed_forever (s : MW) (h : Latched s) (hf : s.sink.failed = true) (ops : List MOp)
    (hn : ∀ op ∈ ops, op.noReset) :
    (MW.run s ops).1 = s ∧ ∀ r ∈ (MW.run s ops).2, r.isErr := by
  obtain ⟨he, hd⟩ := h.2 hf
  cases he' : s.err with
  | none => exact absurd he' he
  | some e => exact stuck_run s e he' hd ops hn

/-! ### 3. errors are latched -/

theorem write_err_latched (s : MW) (hs : s.err = none) (d : List UInt8) (e : Err) :
    (s.write d).2.2 = some e → (s.write d).1.err = some e := by
  simp [MW.write, hs]

theorem close_latches (s : MW) (h : s.done = true → s.err = some .closed) :
    ((s.close).2 = none → (s.close).1.done = true ∧ (s.close).1.err = some .closed) ∧
    (∀ e, (s.close).2 = some e → (s.close).1.err = some e ∧ (s.close).1.done = false) := by
  rw [close_eq]
  split
  · rename_i hd
    simp [hd, h hd]
  · rename_i hd
    have hd : s.done = false := by simpa using hd
    split
    · rename_i he
      constructor
      · intro h0; exact absurd h0 he
      · intro e h0; exact ⟨h0, hd⟩
    · have fr := (encodeBlock_frame s s.final).1
      split
      · rename_i e' _
        constructor
        · intro h0; simp at h0
        · intro e h0
          have : e' = e := by simpa using h0
          subst this
          exact ⟨rfl, fr.done.trans hd⟩
      · simp

theorem close_nil_done (s : MW) (h : (s.close).2 = none) : (s.close).1.done = true := by
  rw [close_eq] at h ⊢
  split
  · assumption
  · split
    · rename_i he; rw [if_neg (by assumption), if_pos he] at h; exact absurd h he
    · rename_i hd he
      rw [if_neg hd, if_neg he] at h
      split
      · rename_i hx; simp [hx] at h
      · rfl

/-! ### 7. closed means closed -/

theorem closed_refuses (s : MW) (hd : s.done = true) (he : s.err = some .closed) (d : List UInt8) :
    s.step (.write d) = (s, .write 0 (some .closed)) ∧ s.step .close = (s, .close none) := by
  simp [MW.step, MW.write, MW.close, he, hd]

theorem closed_forever (s : MW) (hd : s.done = true) (he : s.err = some .closed) :
    ∀ (ops : List MOp), (∀ op ∈ ops, op.noReset) → (MW.run s ops).1 = s
  | [], _ => rfl
  | op :: ops, hn => by
    have ih := closed_forever s hd he ops (fun o ho => hn o (by simp [ho]))
    have h1 := hn op (by simp)
    cases op with
    | reset sk f => exact absurd h1 (by simp [MOp.noReset])
    | write d => simp only [MW.run, (closed_refuses s hd he d).1]; exact ih
    | close => simp only [MW.run, (closed_refuses s hd he []).2]; exact ih

/-! ### 8. Reset -/

theorem reset_fresh (s : MW) (sk : Sink) (f : FinalMode) :
    (s.reset sk).setFinal f = (({} : MW).reset sk).setFinal f := rfl


/-! ### `acc` and the counts returned by `Write` -/

theorem write_acc (s : MW) (d : List UInt8) :
    (s.err = none → (s.write d).1.acc = s.acc ++ d.take (s.write d).2.1 ∧ (s.write d).2.1 ≤ d.length) ∧
    (s.err ≠ none → (s.write d).1 = s ∧ (s.write d).2.1 = 0) := by
  rw [write_eq]
  constructor
  · intro he
    rw [if_neg (by simp [he])]
    have fr := writeLoop_frame d s 0
    refine ⟨?_, by simpa using fr.2.2⟩
    show (MW.writeLoop s d 0).1.acc ++ _ = _
    rw [fr.1.acc]
  · intro he
    rw [if_pos he]
    exact ⟨rfl, rfl⟩

/-- what `Write`, `Close` leave alone. -/
theorem write_frame (s : MW) (d : List UInt8) :
    (s.write d).1.base = s.base ∧ (s.write d).1.final = s.final ∧ (s.write d).1.done = s.done ∧
    (∃ suf, (s.write d).1.sink.got = s.sink.got ++ suf) ∧
    (s.write d).1.outOff + (s.sink.got.length : Int) = s.outOff + ((s.write d).1.sink.got.length : Int) := by
  rw [write_eq]
  split
  · exact ⟨rfl, rfl, rfl, ⟨[], by simp⟩, rfl⟩
  · have fr := (writeLoop_frame d s 0).1
    exact ⟨fr.base, fr.final, fr.done, fr.got, fr.outOff⟩

theorem close_frame (s : MW) :
    (s.close).1.base = s.base ∧ (s.close).1.final = s.final ∧ (s.close).1.acc = s.acc ∧
    (s.close).1.inOff = s.inOff ∧
    (∃ suf, (s.close).1.sink.got = s.sink.got ++ suf) ∧
    (s.close).1.outOff + (s.sink.got.length : Int) = s.outOff + ((s.close).1.sink.got.length : Int) := by
  rw [close_eq]
  have fr := (encodeBlock_frame s s.final).1
  split
  · exact ⟨rfl, rfl, rfl, rfl, ⟨[], by simp⟩, rfl⟩
  · split
    · exact ⟨rfl, rfl, rfl, rfl, ⟨[], by simp⟩, rfl⟩
    · split
      · exact ⟨fr.base, fr.final, fr.acc, fr.inOff, fr.got, fr.outOff⟩
      · exact ⟨fr.base, fr.final, fr.acc, fr.inOff, fr.got, fr.outOff⟩

/-! ### 5. counters -/

/-- `InputOffset` is the number of bytes accepted since Reset, `OutputOffset` the
    number of bytes the sink took since Reset. -/
def Counted (s : MW) : Prop :=
  s.inOff = (s.acc.length : Int) ∧ s.outOff + (s.base.length : Int) = (s.sink.got.length : Int)

theorem counted_fresh (sk : Sink) (f : FinalMode) : Counted ((({} : MW).reset sk).setFinal f) := by
  simp [Counted, MW.reset, MW.setFinal]

theorem counted_write (s : MW) (h : Counted s) (d : List UInt8) : Counted (s.write d).1 := by
  obtain ⟨hb, -, -, -, ho⟩ := write_frame s d
  refine ⟨?_, by rw [hb]; have := h.2; omega⟩
  rw [write_eq]
  split
  · exact h.1
  · have fr := writeLoop_frame d s 0
    show (MW.writeLoop s d 0).1.inOff + _ = ((_ ++ _ : List UInt8).length : Int)
    rw [fr.1.inOff, fr.1.acc, h.1, List.length_append, List.length_take]
    have := fr.2.2
    omega

theorem counted_close (s : MW) (h : Counted s) : Counted (s.close).1 := by
  obtain ⟨hb, -, ha, hi, -, ho⟩ := close_frame s
  refine ⟨by rw [hi, ha]; exact h.1, by rw [hb]; have := h.2; omega⟩

theorem counted_step (s : MW) (h : Counted s) (op : MOp) : Counted (s.step op).1 := by
  cases op with
  | write d => exact counted_write s h d
  | close => exact counted_close s h
  | reset sk f => exact counted_fresh sk f

theorem counted_run : ∀ (ops : List MOp) (s : MW), Counted s → Counted (MW.run s ops).1
  | [], _, h => h
  | op :: ops, s, h => counted_run ops (s.step op).1 (counted_step s h op)

/-! ### 6a. the sink is append-only -/

theorem sink_append_only (s : MW) (op : MOp) (h : op.noReset) :
    ∃ suf, (s.step op).1.sink.got = s.sink.got ++ suf := by
  cases op with
  | write d => exact (write_frame s d).2.2.2.1
  | close => exact (close_frame s).2.2.2.2.1
  | reset sk f => exact absurd h (by simp [MOp.noReset])

theorem run_append_only : ∀ (ops : List MOp) (s : MW), (∀ op ∈ ops, op.noReset) →
    ∃ suf, (MW.run s ops).1.sink.got = s.sink.got ++ suf
  | [], s, _ => ⟨[], by simp [MW.run]⟩
  | op :: ops, s, hn => by
    obtain ⟨s1, h1⟩ := sink_append_only s op (hn op (by simp))
    obtain ⟨s2, h2⟩ := run_append_only ops (s.step op).1 (fun o ho => hn o (by simp [ho]))
    exact ⟨s1 ++ s2, by show (MW.run (s.step op).1 ops).1.sink.got = _; rw [h2, h1, List.append_assoc]⟩


/-! ### 4. no false success -/

theorem writeBytes_append : ∀ (a b : List UInt8) (s : WState),
    writeBytes s (a ++ b) = (writeBytes s a).bind (fun s' => writeBytes s' b)
  | [], b, s => by simp [writeBytes]
  | x :: a, b, s => by
    simp only [List.cons_append, writeBytes]
    cases writeByte s x with
    | none => simp
    | some s' => exact writeBytes_append a b s'

/-- the API-level state `s` holds what the specification writer `ws` holds: same
    pending block, and the sink received exactly the blocks `ws` emitted. -/
structure Rep (ws : WState) (s : MW) : Prop where
  buf : ws.buf = s.buf
  buf0s : ws.buf0s = s.buf0s
  buf1s : ws.buf1s = s.buf1s
  got : s.sink.got = s.base ++ ws.out.flatten
  nblk : s.nblk = (ws.out.length : Int)

theorem step_mirror (s : MW) (ws : WState) (b : UInt8) (hr : Rep ws s) (h : (flushStep s b).2 = none) :
    ∃ ws', writeByte ws b = some ws' ∧ Rep ws' (pushByte (flushStep s b).1 b) := by
  unfold flushStep at h ⊢
  unfold writeByte
  simp only [hr.buf, hr.buf0s, hr.buf1s]
  split
  · rename_i hk
    refine ⟨_, rfl, ?_⟩
    exact ⟨by simp [pushByte], by simp [pushByte], by simp [pushByte], hr.got, hr.nblk⟩
  · rename_i hk
    rw [if_neg hk] at h
    rcases encodeBlock_cases s .fnil with ⟨-, h1⟩ | ⟨blk, hb, ⟨h0, h1⟩ | ⟨e, -, h1⟩⟩
    · rw [h1] at h; simp at h
    · rw [h1, hb]
      refine ⟨_, rfl, ?_⟩
      rcases sink_write_cases s.sink blk with ⟨-, -, hg, -⟩ | ⟨t, he, -⟩
      · refine ⟨by simp [pushByte], by simp [pushByte], by simp [pushByte], ?_, ?_⟩
        · show (s.sink.write blk).1.got = s.base ++ _
          rw [hg, hr.got]; simp
        · show s.nblk + 1 = _
          rw [hr.nblk]; simp
      · rw [h0] at he; simp at he
    · rw [h1] at h; simp at h

theorem pushByte_err (s : MW) (b : UInt8) : (pushByte s b).err = s.err := rfl

/-- `MW.writeLoop` mirrors `writeBytes`: if it ends without an error it took all
    the bytes and the state represents the specification writer's state. -/
theorem writeLoop_exact : ∀ (d : List UInt8) (s : MW) (n : Nat) (ws : WState), Rep ws s →
    (MW.writeLoop s d n).1.err = none →
    (MW.writeLoop s d n).2 = n + d.length ∧ ∃ ws', writeBytes ws d = some ws' ∧ Rep ws' (MW.writeLoop s d n).1
  | [], s, n, ws, hr, _ => ⟨rfl, ws, rfl, hr⟩
  | b :: bs, s, n, ws, hr, he => by
    rw [writeLoop_cons] at he ⊢
    cases hfl : (flushStep s b).2 with
    | some e => rw [hfl] at he; simp at he
    | none =>
      rw [hfl] at he
      simp only
      obtain ⟨ws1, hw1, hr1⟩ := step_mirror s ws b hr hfl
      obtain ⟨hn, ws', hw', hr'⟩ := writeLoop_exact bs _ (n + 1) ws1 hr1 he
      refine ⟨by rw [hn]; simp only [List.length_cons]; omega, ws', ?_, hr'⟩
      simp only [writeBytes, hw1]
      exact hw'

/-- the "no false success" invariant: as long as no error is latched the sink
    holds exactly the blocks the specification writer has emitted for the data
    accepted so far; once closed, it holds exactly `Meta.encode` of that data. -/
def Exact (s : MW) : Prop :=
  (s.done = true → s.err = some .closed) ∧
  (s.err = none → ∃ ws : WState, writeBytes {} s.acc = some ws ∧ Rep ws s) ∧
  (s.done = true → ∃ blocks, Meta.encode s.acc s.final = some blocks ∧
      s.sink.got = s.base ++ blocks.flatten ∧ s.nblk = (blocks.length : Int))

theorem exact_fresh (sk : Sink) (f : FinalMode) : Exact ((({} : MW).reset sk).setFinal f) := by
  refine ⟨by simp [MW.reset, MW.setFinal], ?_, by simp [MW.reset, MW.setFinal]⟩
  intro _
  exact ⟨{}, rfl, ⟨rfl, rfl, rfl, by simp [MW.reset, MW.setFinal], rfl⟩⟩

theorem exact_write (s : MW) (h : Exact s) (d : List UInt8) : Exact (s.write d).1 := by
  rw [write_eq]
  split
  · exact h
  · rename_i he
    have he : s.err = none := by simpa using he
    have hd : s.done = false := by
      cases hd : s.done with
      | false => rfl
      | true => have := h.1 hd; rw [he] at this; simp at this
    have fr := (writeLoop_frame d s 0).1
    have hd' : (MW.writeLoop s d 0).1.done = false := fr.done.trans hd
    refine ⟨?_, ?_, ?_⟩
    · intro hdone
      have : (MW.writeLoop s d 0).1.done = true := hdone
      rw [hd'] at this; simp at this
    · intro he'
      have he' : (MW.writeLoop s d 0).1.err = none := he'
      obtain ⟨ws, hw, hr⟩ := h.2.1 he
      obtain ⟨hn, ws', hw', hr'⟩ := writeLoop_exact d s 0 ws hr he'
      refine ⟨ws', ?_, ⟨hr'.buf, hr'.buf0s, hr'.buf1s, hr'.got, hr'.nblk⟩⟩
      show writeBytes {} ((MW.writeLoop s d 0).1.acc ++ d.take (MW.writeLoop s d 0).2) = some ws'
      rw [fr.acc, hn, writeBytes_append, hw]
      simpa using hw'
    · intro hdone
      have : (MW.writeLoop s d 0).1.done = true := hdone
      rw [hd'] at this; simp at this

theorem close_cases (s : MW) (hd : s.done = false) (he : s.err = none) :
    (∃ e, (s.encodeBlock s.final).2 = some e ∧
        s.close = ({ (s.encodeBlock s.final).1 with err := some e }, some e)) ∨
    ((s.encodeBlock s.final).2 = none ∧
        s.close = ({ (s.encodeBlock s.final).1 with err := some .closed, done := true }, none)) := by
  rw [close_eq, if_neg (by simp [hd]), if_neg (by simp [he])]
  cases h : (s.encodeBlock s.final).2 with
  | some e => left; exact ⟨e, rfl, rfl⟩
  | none => right; exact ⟨rfl, rfl⟩

theorem exact_close (s : MW) (h : Exact s) : Exact (s.close).1 := by
  cases hd : s.done with
  | true => rw [close_eq, if_pos hd]; exact h
  | false =>
    cases he : s.err with
    | some e =>
      rw [close_eq, if_neg (by simp [hd]), if_pos (by simp [he])]; exact h
    | none =>
      have fr := (encodeBlock_frame s s.final).1
      rcases close_cases s hd he with ⟨e, -, hc⟩ | ⟨h0, hc⟩
      · rw [hc]
        have hd' : (s.encodeBlock s.final).1.done = false := fr.done.trans hd
        refine ⟨?_, ?_, ?_⟩
        · intro hdone
          have : (s.encodeBlock s.final).1.done = true := hdone
          rw [hd'] at this; simp at this
        · intro hx; simp at hx
        · intro hdone
          have : (s.encodeBlock s.final).1.done = true := hdone
          rw [hd'] at this; simp at this
      · rw [hc]
        refine ⟨fun _ => rfl, fun hx => by simp at hx, fun _ => ?_⟩
        obtain ⟨ws, hw, hr⟩ := h.2.1 he
        rcases encodeBlock_cases s s.final with ⟨-, h1⟩ | ⟨blk, hb, ⟨hs0, h1⟩ | ⟨e, -, h1⟩⟩
        · rw [h1] at h0; simp at h0
        · refine ⟨ws.out ++ [blk], ?_, ?_, ?_⟩
          · show Meta.encode (s.encodeBlock s.final).1.acc (s.encodeBlock s.final).1.final = _
            rw [fr.acc, fr.final]
            simp [Meta.encode, hw, Meta.closeW, hr.buf, hb]
          · show (s.encodeBlock s.final).1.sink.got = (s.encodeBlock s.final).1.base ++ _
            rw [fr.base, h1]
            rcases sink_write_cases s.sink blk with ⟨-, -, hg, -⟩ | ⟨t, he2, -⟩
            · show (s.sink.write blk).1.got = _
              rw [hg, hr.got]; simp
            · rw [hs0] at he2; simp at he2
          · show (s.encodeBlock s.final).1.nblk = _
            rw [h1]
            show s.nblk + 1 = _
            rw [hr.nblk]; simp
        · rw [h1] at h0; simp at h0

theorem exact_step (s : MW) (h : Exact s) (op : MOp) : Exact (s.step op).1 := by
  cases op with
  | write d => exact exact_write s h d
  | close => exact exact_close s h
  | reset sk f => exact exact_fresh sk f

theorem exact_run : ∀ (ops : List MOp) (s : MW), Exact s → Exact (MW.run s ops).1
  | [], _, h => h
  | op :: ops, s, h => exact_run ops (s.step op).1 (exact_step s h op)

/-- No false success, for every sink adversary and every sequence of calls
    (Resets included): whenever the writer is in the closed state, the sink holds
    what it held at the last Reset followed by exactly `Meta.encode` of the data
    accepted since then. -/
theorem no_false_success (sk : Sink) (f : FinalMode) (ops : List MOp) :
    let s := (MW.run ((({} : MW).reset sk).setFinal f) ops).1
    s.done = true → ∃ blocks, Meta.encode s.acc s.final = some blocks ∧ s.sink.got = s.base ++ blocks.flatten := by
  intro s hd
  obtain ⟨blocks, h1, h2, -⟩ := (exact_run ops _ (exact_fresh sk f)).2.2 hd
  exact ⟨blocks, h1, h2⟩


/-! ### 6b. a failing sink receives a prefix of what a never-failing sink receives -/

/-- the same sink, but one that never fails (fault parameters replaced). -/
def calmS (sk : Sink) (m : FaultMode) (fv : Bool) (t : Nat) : Sink :=
  { sk with budget := none, mode := m, forever := fv, tag := t }

/-- the same writer state over the never-failing version of its sink. -/
def calm (s : MW) (m : FaultMode) (fv : Bool) (t : Nat) : MW :=
  { s with sink := calmS s.sink m fv t }

theorem stuck_step (s : MW) (he : s.err ≠ none) (op : MOp) (h : op.noReset) : (s.step op).1 = s := by
  cases op with
  | write d => simp [MW.step, write_eq, he]
  | close =>
    simp only [MW.step, close_eq]
    split
    · rfl
    · rfl
  | reset sk f => exact absurd h (by simp [MOp.noReset])

theorem encodeBlock_calm (s : MW) (f : FinalMode) (m : FaultMode) (fv : Bool) (t : Nat) :
    ((s.encodeBlock f).1.sink.failed = s.sink.failed ∧
      (calm s m fv t).encodeBlock f = (calm (s.encodeBlock f).1 m fv t, (s.encodeBlock f).2)) ∨
    ((s.encodeBlock f).1.sink.failed = true ∧ (s.encodeBlock f).2 ≠ none ∧
      (s.encodeBlock f).1.sink.got <+: ((calm s m fv t).encodeBlock f).1.sink.got) := by
  unfold MW.encodeBlock
  have hb : (calm s m fv t).buf = s.buf := rfl
  rw [hb]
  cases h : encodeBlockBytes s.buf f with
  | none => left; exact ⟨rfl, rfl⟩
  | some blk =>
    simp only
    cases hbud : s.sink.budget with
    | none =>
      left
      simp [calm, calmS, Sink.write, hbud]
    | some k =>
      by_cases hk : blk.length ≤ k
      · left
        simp [calm, calmS, Sink.write, hbud, hk]
      · right
        simp [calm, calmS, Sink.write, hbud, hk, List.take_prefix]


theorem flushStep_calm (s : MW) (b : UInt8) (m : FaultMode) (fv : Bool) (t : Nat) :
    ((flushStep s b).1.sink.failed = s.sink.failed ∧
      flushStep (calm s m fv t) b = (calm (flushStep s b).1 m fv t, (flushStep s b).2)) ∨
    ((flushStep s b).1.sink.failed = true ∧ (flushStep s b).2 ≠ none ∧
      (flushStep s b).1.sink.got <+: (flushStep (calm s m fv t) b).1.sink.got) := by
  unfold flushStep
  have h1 : (calm s m fv t).buf = s.buf := rfl
  have h2 : (calm s m fv t).buf0s = s.buf0s := rfl
  have h3 : (calm s m fv t).buf1s = s.buf1s := rfl
  rw [h1, h2, h3]
  split
  · left; exact ⟨rfl, rfl⟩
  · exact encodeBlock_calm s .fnil m fv t

theorem writeLoop_got_ext (s : MW) (b : UInt8) (bs : List UInt8) (n : Nat) :
    (flushStep s b).1.sink.got <+: (MW.writeLoop s (b :: bs) n).1.sink.got := by
  rw [writeLoop_cons]
  split
  · exact List.prefix_refl _
  · obtain ⟨suf, h⟩ := (writeLoop_frame bs (pushByte (flushStep s b).1 b) (n + 1)).1.got
    exact ⟨suf, h.symm⟩

theorem writeLoop_calm (m : FaultMode) (fv : Bool) (t : Nat) : ∀ (d : List UInt8) (s : MW) (n : Nat),
    ((MW.writeLoop s d n).1.sink.failed = s.sink.failed ∧
      MW.writeLoop (calm s m fv t) d n = (calm (MW.writeLoop s d n).1 m fv t, (MW.writeLoop s d n).2)) ∨
    ((MW.writeLoop s d n).1.sink.failed = true ∧ (MW.writeLoop s d n).1.err ≠ none ∧
      (MW.writeLoop s d n).1.sink.got <+: (MW.writeLoop (calm s m fv t) d n).1.sink.got)
  | [], s, n => Or.inl ⟨rfl, rfl⟩
  | b :: bs, s, n => by
    rcases flushStep_calm s b m fv t with ⟨hf, heq⟩ | ⟨hf, hne, hpre⟩
    · rw [writeLoop_cons s, writeLoop_cons (calm s m fv t), heq]
      cases hfl : (flushStep s b).2 with
      | some e => left; exact ⟨hf, rfl⟩
      | none =>
        simp only
        rcases writeLoop_calm m fv t bs (pushByte (flushStep s b).1 b) (n + 1) with ⟨hf', heq'⟩ | hB
        · left
          exact ⟨hf'.trans hf, heq'⟩
        · right; exact hB
    · right
      have hext := writeLoop_got_ext (calm s m fv t) b bs n
      rw [writeLoop_cons s]
      cases hfl : (flushStep s b).2 with
      | none => exact absurd hfl hne
      | some e =>
        simp only
        exact ⟨hf, by simp, List.IsPrefix.trans hpre hext⟩

/-- the simulation: either the two writers agree except for the fault parameters
    of the sink and the adversarial sink has not failed yet, or it has failed, the
    writer over it holds an error (so it is stuck) and what it received is a prefix
    of what the never-failing sink received. -/
def Sim (m : FaultMode) (fv : Bool) (t : Nat) (s s' : MW) : Prop :=
  (s.sink.failed = false ∧ s' = calm s m fv t) ∨
  (s.sink.failed = true ∧ s.err ≠ none ∧ s.sink.got <+: s'.sink.got)

theorem sim_step (m : FaultMode) (fv : Bool) (t : Nat) (s s' : MW) (h : Sim m fv t s s') (op : MOp)
    (hn : op.noReset) : Sim m fv t (s.step op).1 (s'.step op).1 := by
  rcases h with ⟨hf, rfl⟩ | ⟨hf, he, hp⟩
  · cases op with
    | reset sk f => exact absurd hn (by simp [MOp.noReset])
    | write d =>
      simp only [MW.step, write_eq]
      have he : (calm s m fv t).err = s.err := rfl
      rw [he]
      split
      · left; exact ⟨hf, rfl⟩
      · rcases writeLoop_calm m fv t d s 0 with ⟨hf', heq⟩ | ⟨hf', he', hp'⟩
        · left
          rw [heq]
          exact ⟨hf'.trans hf, rfl⟩
        · right
          exact ⟨hf', he', hp'⟩
    | close =>
      simp only [MW.step, close_eq]
      have he : (calm s m fv t).err = s.err := rfl
      have hd : (calm s m fv t).done = s.done := rfl
      have hfin : (calm s m fv t).final = s.final := rfl
      rw [he, hd, hfin]
      split
      · left; exact ⟨hf, rfl⟩
      · split
        · left; exact ⟨hf, rfl⟩
        · rcases encodeBlock_calm s s.final m fv t with ⟨hf', heq⟩ | ⟨hf', hne, hp'⟩
          · left
            rw [heq]
            cases (s.encodeBlock s.final).2 with
            | some e => exact ⟨hf'.trans hf, rfl⟩
            | none => exact ⟨hf'.trans hf, rfl⟩
          · right
            cases hx : (s.encodeBlock s.final).2 with
            | none => exact absurd hx hne
            | some e =>
              refine ⟨hf', by simp, ?_⟩
              simp only
              cases ((calm s m fv t).encodeBlock s.final).2 with
              | some e' => exact hp'
              | none => exact hp'
  · rw [stuck_step s he op hn]
    right
    obtain ⟨suf, hs⟩ := sink_append_only s' op hn
    exact ⟨hf, he, List.IsPrefix.trans hp ⟨suf, hs.symm⟩⟩

theorem sim_run (m : FaultMode) (fv : Bool) (t : Nat) : ∀ (ops : List MOp) (s s' : MW), Sim m fv t s s' →
    (∀ op ∈ ops, op.noReset) → Sim m fv t (MW.run s ops).1 (MW.run s' ops).1
  | [], _, _, h, _ => h
  | op :: ops, s, s', h, hn =>
    sim_run m fv t ops (s.step op).1 (s'.step op).1 (sim_step m fv t s s' h op (hn op (by simp)))
      (fun o ho => hn o (by simp [ho]))

/-- Prefix theorem. Take any writer state whose sink has not failed, and the same
    state over a sink that never fails (`calm`: budget `none`, any other fault
    parameters). For the same calls (no Reset), what the adversarial sink
    receives is a prefix of what the never-failing sink receives; and if the
    adversarial sink never refused bytes the two runs end in the same state up to
    the fault parameters, in particular the sinks hold the same bytes.
    (No assumption on `forever`: after the first refusal the writer holds an
    error and never writes to the sink again.) -/
theorem sink_prefix (s : MW) (m : FaultMode) (fv : Bool) (t : Nat) (hf : s.sink.failed = false)
    (ops : List MOp) (hn : ∀ op ∈ ops, op.noReset) :
    (MW.run s ops).1.sink.got <+: (MW.run (calm s m fv t) ops).1.sink.got ∧
    ((MW.run s ops).1.sink.failed = false →
      (MW.run (calm s m fv t) ops).1 = calm (MW.run s ops).1 m fv t ∧
      (MW.run s ops).1.sink.got = (MW.run (calm s m fv t) ops).1.sink.got) := by
  rcases sim_run m fv t ops s (calm s m fv t) (Or.inl ⟨hf, rfl⟩) hn with ⟨hf', heq⟩ | ⟨hf', -, hp⟩
  · rw [heq]
    exact ⟨List.prefix_refl _, fun _ => ⟨rfl, rfl⟩⟩
  · refine ⟨hp, fun h0 => ?_⟩
    rw [hf'] at h0; simp at h0

/-- the same, phrased for two given states that differ only in the sink's fault parameters. -/
theorem sink_prefix' (s s' : MW) (hf : s.sink.failed = false) (hb : s'.sink.budget = none)
    (hs : s' = { s with sink := { s.sink with budget := s'.sink.budget, mode := s'.sink.mode,
                                              forever := s'.sink.forever, tag := s'.sink.tag } })
    (ops : List MOp) (hn : ∀ op ∈ ops, op.noReset) :
    (MW.run s ops).1.sink.got <+: (MW.run s' ops).1.sink.got ∧
    ((MW.run s ops).1.sink.failed = false → (MW.run s ops).1.sink.got = (MW.run s' ops).1.sink.got) := by
  have : s' = calm s s'.sink.mode s'.sink.forever s'.sink.tag := by
    rw [hs]; simp [calm, calmS, hb]
  rw [this]
  have h := sink_prefix s s'.sink.mode s'.sink.forever s'.sink.tag hf ops hn
  exact ⟨h.1, fun h0 => (h.2 h0).2⟩


/-! ### Close returning nil, end to end -/

/-- after any history (any sinks, Resets included), a `Close` that returns nil
    leaves in the sink exactly what it held at the last Reset followed by
    `Meta.encode` of everything `Write` accepted since then. -/
theorem close_nil_complete (sk : Sink) (f : FinalMode) (ops : List MOp) :
    let s := (MW.run ((({} : MW).reset sk).setFinal f) ops).1
    (s.close).2 = none →
      ∃ blocks, Meta.encode s.acc s.final = some blocks ∧ (s.close).1.sink.got = s.base ++ blocks.flatten := by
  intro s h
  have hx : Exact s := exact_run ops _ (exact_fresh sk f)
  obtain ⟨blocks, h1, h2, -⟩ := (exact_close s hx).2.2 (close_nil_done s h)
  obtain ⟨hb, hfin, ha, -⟩ := close_frame s
  rw [ha, hfin] at h1
  rw [hb] at h2
  exact ⟨blocks, h1, h2⟩

/-! ### the hypotheses are satisfiable -/

section Examples

/-- a fresh writer over a sink that takes 3 more bytes and then fails short. -/
def exFresh : MW := (({} : MW).reset { budget := some 3, mode := .short }).setFinal .fstream
/-- the same over a sink that never fails. -/
def exFreshCalm : MW := (({} : MW).reset {}).setFinal .fstream
/-- three bytes written, then `Close`, over the failing sink. -/
def exFailed : MW := (MW.run exFresh [.write [1, 2, 3], .close]).1
/-- the same over the sink that never fails. -/
def exClosed : MW := (MW.run exFreshCalm [.write [1, 2, 3], .close]).1

example : Latched exFresh := latched_fresh _ _ rfl
example : Exact exFresh := exact_fresh _ _
example : Counted exFresh := counted_fresh _ _
example : Latched exFailed := latched_run _ _ (latched_fresh _ _ rfl) (by simp [MOp.fresh])
example : Exact exFailed := exact_run _ _ (exact_fresh _ _)
example : Counted exFailed := counted_run _ _ (counted_fresh _ _)

set_option maxRecDepth 1000000 in
theorem exFailed_failed : exFailed.sink.failed = true ∧ exFailed.err = some (.other 7) ∧ exFailed.done = false ∧
    exFailed.sink.got = [61, 0, 135] := by decide

set_option maxRecDepth 1000000 in
theorem exClosed_closed : exClosed.done = true ∧ exClosed.err = some .closed ∧
    exClosed.sink.got = [61, 0, 135, 5, 0, 0, 72, 10, 217, 50, 235, 255, 39, 219, 5, 240] := by decide

/-- `failed_forever` applies to a reachable state. -/
example (ops : List MOp) (hn : ∀ op ∈ ops, op.noReset) :
    (MW.run exFailed ops).1 = exFailed ∧ ∀ r ∈ (MW.run exFailed ops).2, r.isErr :=
  failed_forever exFailed (latched_run _ _ (latched_fresh _ _ rfl) (by simp [MOp.fresh])) exFailed_failed.1 ops hn

/-- `keeps_failing` applies to a reachable state. -/
example (d : List UInt8) : exFailed.step (.write d) = (exFailed, .write 0 (some (.other 7))) :=
  (keeps_failing exFailed _ exFailed_failed.2.1 exFailed_failed.2.2.1 d).1

/-- `closed_forever` applies to a reachable state. -/
example (ops : List MOp) (hn : ∀ op ∈ ops, op.noReset) : (MW.run exClosed ops).1 = exClosed :=
  closed_forever exClosed exClosed_closed.1 exClosed_closed.2.1 ops hn

/-- `write_err_latched`, `close_latches`: a fresh writer has no error and is not done. -/
example : exFresh.err = none ∧ (exFresh.done = true → exFresh.err = some .closed) := ⟨rfl, by simp [exFresh, MW.reset, MW.setFinal]⟩

/-- the hypotheses of `sink_prefix'` hold of the two fresh writers, and the prefix can be strict. -/
example : (MW.run exFresh [.write [1, 2, 3], .close]).1.sink.got <+: (MW.run exFreshCalm [.write [1, 2, 3], .close]).1.sink.got :=
  (sink_prefix' exFresh exFreshCalm rfl rfl rfl _ (by simp [MOp.noReset])).1

example : exFailed.sink.got.length < exClosed.sink.got.length := by
  rw [exFailed_failed.2.2.2, exClosed_closed.2.2]; decide

end Examples

end Compress.Proofs.MetaWApi
