/-
Cuts of accepted streams: the bzip2.Reader model reports "unexpected EOF" (or io.EOF where the
cut is the end of one of the concatenated streams) - never "corrupted", never "deprecated".
From the refinement (`refines_of_tables`), the specification's cut theorem (`decode_cut`) and the
prefix-monotonicity of the model (`beh_ext`).
-/
import Compress.Proofs.BzImplMain
import Compress.Proofs.BzImplMonoRun
import Compress.Proofs.Bzip2Cut
import Compress.Proofs.BzRTBits

namespace Compress.Proofs.BzImpl
open Compress Compress.Bzip2 Compress.Prefix
open Compress.Bzip2.Impl (Err M State)

theorem ofBytesMSB_append' (a b : List UInt8) :
    Bits.ofBytesMSB (a ++ b) = Bits.ofBytesMSB a ++ Bits.ofBytesMSB b := by
  induction a with
  | nil => rfl
  | cons x xs ih => simp [Bits.ofBytesMSB, ih, List.append_assoc]

theorem tables_agree : TablesAgree := tablesAgree_of_degenerate tables_agree_degenerate

/-- the behaviour of the model on a cut of an accepted input does not end with corrupted or
    deprecated. -/
theorem beh_cut_class (bytes : List UInt8) (out : Array UInt8)
    (h : Bzip2.decode bytes = { out := out, verdict := .ok }) (k : Nat) :
    (beh (Impl.init (Bits.ofBytesMSB (bytes.take k)))).2 ≠ .corrupted ∧
    (beh (Impl.init (Bits.ofBytesMSB (bytes.take k)))).2 ≠ .deprecated := by
  have hfull : (beh (Impl.init (Bits.ofBytesMSB bytes))).2 = .eof := by
    obtain ⟨_, heof, _⟩ := beh_init_spec tables_agree bytes
    exact heof.2 (by rw [h])
  have hsplit : Bits.ofBytesMSB bytes = Bits.ofBytesMSB (bytes.take k) ++ Bits.ofBytesMSB (bytes.drop k) := by
    rw [← ofBytesMSB_append', List.take_append_drop]
  have hy : (Bits.ofBytesMSB (bytes.drop k)).length % 8 = 0 := by
    rw [Compress.Proofs.BzRT.ofBytesMSB_length]; omega
  have key : ∀ e, (e = Err.corrupted ∨ e = Err.deprecated) →
      (beh (Impl.init (Bits.ofBytesMSB (bytes.take k)))).2 ≠ e := by
    intro e he hb
    have hx := beh_ext (Bits.ofBytesMSB (bytes.take k)) (Bits.ofBytesMSB (bytes.drop k)) hy
      (by rcases he with he | he <;> subst he <;> simp [hb])
    rw [← hsplit] at hx
    rw [← hx, hfull] at hb
    rcases he with he | he <;> subst he <;> cases hb
  exact ⟨key _ (Or.inl rfl), key _ (Or.inr rfl)⟩

/-- **cut streams, classes.** On any cut of an accepted input, under every Read schedule, the
    model delivers a prefix of the full output, and the only errors it can return are unexpected
    EOF, or io.EOF where the cut is the end of one of the concatenated streams. -/
theorem cut_class (bytes : List UInt8) (out : Array UInt8)
    (h : Bzip2.decode bytes = { out := out, verdict := .ok }) (k : Nat) (hk : k < bytes.length)
    (sched : List Nat) :
    (Impl.run (bytes.take k) sched).delivered <+: out.toList ∧
    ∀ e, (Impl.run (bytes.take k) sched).err = some e →
      e = .unexpectedEOF ∨
      (e = .eof ∧ 0 < k ∧ ∃ out2, Bzip2.decode (bytes.drop k) = { out := out2, verdict := .ok }) := by
  have hr := refines_of_tables tables_agree (bytes.take k) sched
  obtain ⟨hp, hv⟩ := Compress.Proofs.Bzip2Cut.decode_cut bytes out h k hk
  obtain ⟨_, he, _⟩ := run_spec (bytes.take k) sched
  obtain ⟨hc, hd⟩ := beh_cut_class bytes out h k
  refine ⟨hr.pref.trans hp, fun e hx => ?_⟩
  obtain ⟨_, h2, _⟩ := he e hx
  cases e with
  | unexpectedEOF => exact Or.inl rfl
  | corrupted => exact absurd h2.symm hc
  | deprecated => exact absurd h2.symm hd
  | eof =>
    have := hr.eof_sound hx
    rcases hv with hv | ⟨_, h0, h3⟩
    · rw [hv] at this; cases this
    · exact Or.inr ⟨rfl, h0, h3⟩

end Compress.Proofs.BzImpl
