/-
bzip2 cut: the stream loop `decodeStreams` under a cut of the input at a byte
boundary.
-/
import Compress.Proofs.BzCutRB

namespace Compress.Proofs.BzCut
open Compress Compress.Bzip2

/-- the stream header `BZh1`..`BZh9`; returns the level byte. -/
def hdrP : Parser Nat :=
  bindP (beP 16) fun m => fun b1 =>
    if m ≠ hdrMagic then .error .corrupt else
    (bindP (beP 8) fun ver => fun b2 =>
      if ver ≠ 0x68 then .error (if ver = 0x30 then .deprecated else .corrupt) else
      (bindP (beP 8) fun lv => fun b3 =>
        if lv < 0x31 ∨ lv > 0x39 then .error .corrupt else liftE (.ok lv) b3) b2) b1

theorem hdrP_prefixOK : PrefixOK hdrP := by
  unfold hdrP
  refine PrefixOK.bind (beP_prefixOK 16) fun _ m _ _ => ?_
  refine PrefixOK.ite (fun _ => prefixOK_error _) fun _ => ?_
  refine PrefixOK.bind (beP_prefixOK 8) fun _ ver _ _ => ?_
  refine PrefixOK.ite (fun _ => prefixOK_error _) fun _ => ?_
  refine PrefixOK.bind (beP_prefixOK 8) fun _ lv _ _ => ?_
  exact PrefixOK.ite (fun _ => prefixOK_error _) fun _ => liftE_prefixOK _

theorem hdrP_noOk : NoOk hdrP := by
  unfold hdrP
  refine NoOk.bind (beP_noOk 16) fun m => ?_
  refine NoOk.ite (fun _ => noOk_error _ (by decide)) fun _ => ?_
  refine NoOk.bind (beP_noOk 8) fun ver => ?_
  refine NoOk.ite (fun _ => noOk_error _ (by split <;> decide)) fun _ => ?_
  refine NoOk.bind (beP_noOk 8) fun lv => ?_
  exact NoOk.ite (fun _ => noOk_error _ (by decide)) fun _ => liftE_noOk _ (by simp)

/-- one step of `decodeStreams`. -/
def streamsStep (f n : Nat) (out : Array UInt8) (bits : Bits) : Result :=
  if bits.isEmpty then { out := out, verdict := if n > 0 then .ok else .unexpectedEOF }
  else
    match hdrP bits with
    | .error v => { out := out, verdict := v }
    | .ok (lv, b3) =>
      match readBlocks (lv - 0x30) (b3.length + 2) 0 out b3 with
      | (r, none) => r
      | (r, some rest) => decodeStreams f (n + 1) r.out rest

set_option linter.unusedSimpArgs false in
theorem decodeStreams_succ (f n : Nat) (out : Array UInt8) (bits : Bits) :
    decodeStreams (f + 1) n out bits = streamsStep f n out bits := by
  rw [decodeStreams]
  unfold streamsStep hdrP
  split
  · rfl
  · simp only [bindP, beP, liftE, bind, Except.bind, Except.map]
    cases readBE 16 bits with
    | none => rfl
    | some x =>
      obtain ⟨m, b1⟩ := x
      simp only [Option.elim]
      split
      · rfl
      · cases readBE 8 b1 with
        | none => rfl
        | some y =>
          obtain ⟨ver, b2⟩ := y
          simp only [Option.elim]
          split
          · rfl
          · cases readBE 8 b2 with
            | none => rfl
            | some z =>
              obtain ⟨lv, b3⟩ := z
              simp only [Option.elim]
              split
              · rfl
              · rfl

theorem decodeStreams_mono : ∀ (f n : Nat) (out : Array UInt8) (bits : Bits),
    out.toList <+: (decodeStreams f n out bits).out.toList := by
  intro f
  induction f with
  | zero => intro n out bits; rw [decodeStreams]; exact List.prefix_refl _
  | succ f ih =>
    intro n out bits
    rw [decodeStreams_succ]
    unfold streamsStep
    split
    · exact List.prefix_refl _
    · split
      · exact List.prefix_refl _
      · rename_i lv b3 _
        have hm := readBlocks_mono (lv - 0x30) (b3.length + 2) 0 out b3
        split
        · rename_i r hr; rw [hr] at hm; exact hm
        · rename_i r rest hr
          rw [hr] at hm
          exact hm.trans (ih _ _ _)

/-- a stream consumes at least 8 bits. -/
theorem stream_consumes (bits : Bits) (lv : Nat) (b3 : Bits) (out : Array UInt8) (r : Result) (rest : Bits)
    (hh : hdrP bits = .ok (lv, b3))
    (hr : readBlocks (lv - 0x30) (b3.length + 2) 0 out b3 = (r, some rest)) :
    rest.length + 48 ≤ bits.length := by
  have h1 := hdrP_prefixOK.length_le hh
  obtain ⟨c, hc, l1, _⟩ := readBlocks_cut _ _ _ _ _ _ _ hr
  have : b3.length = c.length + rest.length := by rw [hc, List.length_append]
  omega

theorem decodeStreams_fuel : ∀ (f1 f2 n : Nat) (out : Array UInt8) (bits : Bits),
    bits.length < 8 * f1 → bits.length < 8 * f2 →
    decodeStreams f1 n out bits = decodeStreams f2 n out bits := by
  intro f1
  induction f1 with
  | zero => intro f2 n out bits h; omega
  | succ f1 ih =>
    intro f2 n out bits h1 h2
    obtain ⟨g, rfl⟩ : ∃ g, f2 = g + 1 := ⟨f2 - 1, by omega⟩
    rw [decodeStreams_succ, decodeStreams_succ]
    unfold streamsStep
    split
    · rfl
    · cases hh : hdrP bits with
      | error v => rfl
      | ok x =>
        obtain ⟨lv, b3⟩ := x
        simp only []
        cases hr : readBlocks (lv - 0x30) (b3.length + 2) 0 out b3 with
        | mk r o =>
          cases o with
          | none => rfl
          | some rest =>
            simp only []
            have := stream_consumes bits lv b3 out r rest hh hr
            exact ih g _ _ _ (by omega) (by omega)

/-- the stream counter and the output accumulator are parameters (the counter only
    matters for the verdict on an empty input). -/
theorem decodeStreams_param : ∀ (f n n' : Nat) (out out' : Array UInt8) (bits : Bits),
    (bits ≠ [] ∨ (0 < n ∧ 0 < n')) →
    ∃ (delta : Array UInt8) (v : Verdict),
      decodeStreams f n out bits = { out := out ++ delta, verdict := v } ∧
      decodeStreams f n' out' bits = { out := out' ++ delta, verdict := v } := by
  intro f
  induction f with
  | zero =>
    intro n n' out out' bits _
    exact ⟨#[], .corrupt, by simp [decodeStreams], by simp [decodeStreams]⟩
  | succ f ih =>
    intro n n' out out' bits hne
    rw [decodeStreams_succ, decodeStreams_succ]
    unfold streamsStep
    by_cases he : bits.isEmpty = true
    · rw [if_pos he, if_pos he]
      have : bits = [] := List.isEmpty_iff.1 he
      rcases hne with h | ⟨h1, h2⟩
      · exact absurd this h
      · exact ⟨#[], .ok, by simp [h1], by simp [h2]⟩
    · rw [if_neg he, if_neg he]
      cases hh : hdrP bits with
      | error v => exact ⟨#[], v, by simp, by simp⟩
      | ok x =>
        obtain ⟨lv, b3⟩ := x
        simp only []
        rw [readBlocks_param _ _ _ out, readBlocks_param _ _ _ out']
        cases hr : readBlocks (lv - 0x30) (b3.length + 2) 0 #[] b3 with
        | mk r o =>
          cases o with
          | none => exact ⟨r.out, r.verdict, rfl, rfl⟩
          | some rest =>
            simp only []
            obtain ⟨d2, v, e1, e2⟩ := ih (n + 1) (n' + 1) (out ++ r.out) (out' ++ r.out) rest
              (Or.inr ⟨by omega, by omega⟩)
            exact ⟨r.out ++ d2, v, by rw [e1, Array.append_assoc], by rw [e2, Array.append_assoc]⟩

/-- **One stream under a cut.** If the first stream of `full` parses (header, then
    blocks up to the end marker, leaving `rest`), a cut inside it gives "unexpected
    EOF" with a prefix of the stream's output, and a cut at or after its end
    continues exactly like the uncut run. -/
theorem stream_cut (g n : Nat) (out : Array UInt8) (full : Bits) (lv : Nat) (b3 : Bits) (r : Result)
    (rest : Bits) (hh : hdrP full = .ok (lv, b3))
    (hr : readBlocks (lv - 0x30) (b3.length + 2) 0 out b3 = (r, some rest))
    (h8 : full.length % 8 = 0) (m : Nat) (hm8 : m % 8 = 0) (hm0 : 0 < m) (hm : m < full.length) :
    ∃ cl, cl + rest.length = full.length ∧ 48 ≤ cl ∧ rest.length % 8 = 0 ∧
      (m < cl → (decodeStreams (g + 1) n out (full.take m)).verdict = .unexpectedEOF ∧
        (decodeStreams (g + 1) n out (full.take m)).out.toList <+: r.out.toList) ∧
      (cl ≤ m → decodeStreams (g + 1) n out (full.take m)
        = decodeStreams g (n + 1) r.out (rest.take (m - cl))) := by
  obtain ⟨c0, hc0, p0⟩ := hdrP_prefixOK full lv b3 hh
  obtain ⟨c, hc, l1, l2, l3, p1⟩ := readBlocks_cut _ _ _ _ _ _ _ hr
  have hfl : full.length = c0.length + b3.length := by rw [hc0, List.length_append]
  have hbl : b3.length = c.length + rest.length := by rw [hc, List.length_append]
  have hmono := readBlocks_mono (lv - 0x30) (b3.length + 2) 0 out b3
  rw [hr] at hmono
  have hne : (full.take m).isEmpty = false := by
    rw [List.isEmpty_eq_false_iff]
    intro h0
    have := congrArg List.length h0
    rw [List.length_take, Nat.min_eq_left (by omega)] at this
    simp at this
    omega
  -- the cut run once the header is complete
  have hstep : c0.length ≤ m → decodeStreams (g + 1) n out (full.take m) =
      match readBlocks (lv - 0x30) (b3.length + 2) 0 out (b3.take (m - c0.length)) with
      | (r, none) => r
      | (r, some rest) => decodeStreams g (n + 1) r.out rest := by
    intro h
    rw [decodeStreams_succ]
    unfold streamsStep
    rw [hne]
    simp only [Bool.false_eq_true, if_false]
    rw [(p0 m).2 h]
    simp only []
    have hlen : (b3.take (m - c0.length)).length ≤ b3.length := by
      rw [List.length_take]; omega
    rw [readBlocks_fuel _ ((b3.take (m - c0.length)).length + 2) (b3.length - (b3.take (m - c0.length)).length)
      _ _ _ (by omega)]
    rw [show (b3.take (m - c0.length)).length + 2 + (b3.length - (b3.take (m - c0.length)).length)
      = b3.length + 2 by omega]
  refine ⟨c0.length + c.length, by omega, by omega, l2, ?_, ?_⟩
  · intro hlt
    by_cases hm1 : m < c0.length
    · rw [decodeStreams_succ]
      unfold streamsStep
      rw [hne]
      simp only [Bool.false_eq_true, if_false]
      rw [(p0 m).1 hm1]
      exact ⟨rfl, hmono⟩
    · rw [hstep (by omega)]
      obtain ⟨r', e1, e2, e3⟩ := (p1 (m - c0.length) (by omega)).1 (by omega)
      rw [e1]
      exact ⟨e2, e3⟩
  · intro hge
    rw [hstep (by omega), (p1 (m - c0.length) (by omega)).2 (by omega)]
    simp only []
    congr 2
    omega

/-- **The stream loop under a cut at a byte boundary.** -/
theorem decodeStreams_cut : ∀ (f n : Nat) (out : Array UInt8) (full : Bits) (o : Array UInt8),
    full.length % 8 = 0 → full.length < 8 * f →
    decodeStreams f n out full = { out := o, verdict := .ok } →
    ∀ (m : Nat), m % 8 = 0 → m < full.length → ∀ (f' : Nat), m < 8 * f' →
      (decodeStreams f' n out (full.take m)).out.toList <+: o.toList ∧
      ((decodeStreams f' n out (full.take m)).verdict = .unexpectedEOF ∨
        ((decodeStreams f' n out (full.take m)).verdict = .ok ∧ (0 < n ∨ 0 < m) ∧
          ∀ f'', (full.drop m).length < 8 * f'' →
            (decodeStreams f'' 0 #[] (full.drop m)).verdict = .ok)) := by
  intro f
  induction f with
  | zero => intro n out full o _ h; omega
  | succ f ih =>
    intro n out full o h8 hf hd m hm8 hm f' hf'
    obtain ⟨g, rfl⟩ : ∃ g, f' = g + 1 := ⟨f' - 1, by omega⟩
    have hfne : full ≠ [] := by intro h0; rw [h0] at hm; simp at hm
    have hmono := decodeStreams_mono (f + 1) n out full
    rw [hd] at hmono
    by_cases hm0 : m = 0
    · subst hm0
      simp only [List.take_zero, List.drop_zero]
      rw [decodeStreams_succ]
      unfold streamsStep
      simp only [List.isEmpty_nil, if_true]
      refine ⟨hmono, ?_⟩
      by_cases hn : n > 0
      · right
        simp only [if_pos hn]
        refine ⟨trivial, Or.inl hn, fun f'' hf'' => ?_⟩
        obtain ⟨delta, v, e1, e2⟩ := decodeStreams_param (f + 1) n 0 out #[] full (Or.inl hfne)
        rw [hd] at e1
        have hv : v = .ok := by
          have := congrArg Result.verdict e1
          exact this.symm
        rw [decodeStreams_fuel f'' (f + 1) 0 #[] full hf'' hf, e2, hv]
      · left
        simp only [if_neg hn]
    · -- the original run parses a whole first stream
      rw [decodeStreams_succ] at hd
      unfold streamsStep at hd
      have hne : full.isEmpty = false := List.isEmpty_eq_false_iff.2 hfne
      rw [hne] at hd
      simp only [Bool.false_eq_true, if_false] at hd
      cases hh : hdrP full with
      | error v =>
        rw [hh] at hd
        simp only [Result.mk.injEq] at hd
        exact absurd (hd.2 ▸ hh) (hdrP_noOk full)
      | ok x =>
        obtain ⟨lv, b3⟩ := x
        rw [hh] at hd
        simp only [] at hd
        cases hr : readBlocks (lv - 0x30) (b3.length + 2) 0 out b3 with
        | mk r ores =>
          rw [hr] at hd
          cases ores with
          | none =>
            simp only [] at hd
            have := readBlocks_none _ _ _ _ _ _ hr
            rw [hd] at this
            exact absurd rfl this
          | some rest =>
            simp only [] at hd
            obtain ⟨cl, c1, c2, c3, c4, c5⟩ := stream_cut g n out full lv b3 r rest hh hr h8 m hm8
              (by omega) hm
            have hmono2 := decodeStreams_mono f (n + 1) r.out rest
            rw [hd] at hmono2
            by_cases hlt : m < cl
            · obtain ⟨e1, e2⟩ := c4 hlt
              exact ⟨e2.trans hmono2, Or.inl e1⟩
            · have hge : cl ≤ m := by omega
              rw [c5 hge]
              have hdrop : full.drop m = rest.drop (m - cl) := by
                obtain ⟨c0, hc0⟩ := hdrP_prefixOK.suffix hh
                obtain ⟨c, hc, _⟩ := readBlocks_cut _ _ _ _ _ _ _ hr
                have hl : (c0 ++ c).length = cl := by
                  have : full.length = (c0 ++ c).length + rest.length := by
                    rw [hc0, hc]; simp [Nat.add_assoc]
                  omega
                rw [hc0, hc, ← List.append_assoc, List.drop_append,
                  List.drop_eq_nil_of_le (by omega), hl]
                simp
              obtain ⟨i1, i2⟩ := ih (n + 1) r.out rest o c3 (by omega) hd (m - cl) (by omega) (by omega)
                g (by omega)
              refine ⟨i1, ?_⟩
              rcases i2 with i2 | ⟨i2, _, i3⟩
              · exact Or.inl i2
              · exact Or.inr ⟨i2, Or.inr (by omega), by rw [hdrop]; exact i3⟩

end Compress.Proofs.BzCut
