/-
bzip2.Reader, API-level model: InputOffset when a Read returns io.EOF, over a fault-free source,
is the length of the input (`run_inOff_eof` of the Read loop, lifted to `Bzip2.ReaderApi`).
-/
import Compress.Proofs.BzReaderApi
import Compress.Proofs.BzImplCounters

namespace Compress.Proofs.BzReaderApiIn
open Compress Compress.Bzip2 Compress.Bzip2.Impl Compress.Bzip2.ReaderApi
open Compress.Proofs.BzImpl Compress.Proofs.BzReaderApi

theorem liftErr_none_eof (x : Err) (h : liftErr none x = .eof) : x = .eof := by
  cases x <;> simp [liftErr] at h ⊢

/-- the states a fault-free reader goes through under Reads and Closes: running (nothing but
    possibly a non-EOF error latched in the decoder, `total` the input length in bits), failed for
    good with `e` (with the input consumed if `e` is io.EOF), or closed. -/
def Good (r : Reader) (T : Nat) : Prop :=
  (Inv r ∧ r.done = false ∧ r.tag = none ∧ r.core.err ≠ some .eof ∧ r.core.total = T) ∨
  (∃ e, Stuck r e ∧ (e = .eof → r.inputOffset = (T + 7) / 8)) ∨
  r.done = true

theorem good_read (r : Reader) (T : Nat) (h : Good r T) (n : Nat) :
    Good (r.read n).1 T ∧ ((r.read n).2.2 = some .eof → (r.read n).1.inputOffset = (T + 7) / 8) := by
  rcases h with ⟨hi, hd, ht, he, hT⟩ | ⟨e, hs, hio⟩ | hd
  · obtain ⟨q1, q2, q3⟩ := read_inOff (readFuel r.core) n r.core he
    cases hx : (r.read n).2.2 with
    | none =>
      refine ⟨Or.inl ⟨inv_read r hi n, (read_final r hi hd n).2.1, (read_final r hi hd n).2.2.1.trans ht, ?_, ?_⟩,
        fun h => by cases h⟩
      · rw [read_open r hd] at hx ⊢
        simp only [Option.map_eq_none_iff] at hx
        exact q3 hx
      · rw [read_open r hd]; exact q2.trans hT
    | some e =>
      obtain ⟨_, s2, _⟩ := read_sticks r hi hd n e hx
      have key : e = .eof → (r.read n).1.inputOffset = (T + 7) / 8 := by
        intro hee
        subst hee
        rw [read_open r hd] at hx ⊢
        simp only [Option.map_eq_some_iff] at hx
        obtain ⟨x, hx1, hx2⟩ := hx
        rw [ht] at hx2
        have := liftErr_none_eof x hx2
        subst this
        have := (q1 hx1).2
        rw [hT] at this
        exact this
      refine ⟨Or.inr (Or.inl ⟨e, s2, key⟩), fun h => key (by injection h)⟩
  · rw [hs.2.2 n]
    refine ⟨Or.inr (Or.inl ⟨e, hs, hio⟩), fun h => hio (by injection h)⟩
  · rw [read_done r hd n]
    exact ⟨Or.inr (Or.inr hd), fun h => by cases h⟩

theorem good_close (r : Reader) (T : Nat) (h : Good r T) : Good (r.close).1 T := by
  rw [close_eq]
  split
  · exact Or.inr (Or.inr rfl)
  · exact h

theorem good_run (r : Reader) (T : Nat) (h : Good r T) (ops : List Op) (hn : ∀ op ∈ ops, op.noReset = true) :
    Good (Reader.run r ops).1 T := by
  induction ops generalizing r with
  | nil => exact h
  | cons op ops ih =>
    have ih' := fun r' h' => ih r' h' (fun o ho => hn o (List.mem_cons_of_mem _ ho))
    cases op with
    | read n => exact ih' _ (good_read r T h n).1
    | close => exact ih' _ (good_close r T h)
    | reset src => have := hn (.reset src) (List.mem_cons_self ..); simp [Op.noReset] at this

theorem good_new (src : Src) (hf : src.fault = none) : Good (newReader src) (8 * src.data.length) := by
  refine Or.inl ⟨inv_new src, rfl, ?_, ?_, ?_⟩
  · simp [newReader, Src.tag, hf]
  · simp [newReader, Impl.init]
  · show (Bits.ofBytesMSB src.avail).length = _
    rw [BzRT.ofBytesMSB_length]
    simp [Src.avail, hf]

/-- **InputOffset at io.EOF, at the API**: fault-free source, any earlier state Reset onto it, any
    sequence of Reads and Closes; a Read that then returns io.EOF leaves InputOffset at the length
    of the input. -/
theorem inputOffset_at_eof (r0 : Reader) (src : Src) (hf : src.fault = none) (ops : List Op)
    (hn : ∀ op ∈ ops, op.noReset = true) (n : Nat)
    (h : ((Reader.run (r0.reset src) ops).1.read n).2.2 = some .eof) :
    ((Reader.run (r0.reset src) ops).1.read n).1.inputOffset = src.data.length := by
  have := (good_read _ _ (good_run (r0.reset src) _ (good_new src hf) ops hn) n).2 h
  rw [this]; omega

end Compress.Proofs.BzReaderApiIn
