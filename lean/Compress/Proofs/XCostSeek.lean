/-
C17 helpers: `seekC` in closed form, and which segment the slow path of
`Reader.Seek` (repaired shortcut test, D7) settles on.
-/
import Compress.XFlate.Cost
import Compress.Proofs.XRIndex
import Compress.Proofs.XRSeek
import Compress.Proofs.IndexSearch

namespace Compress.Proofs.XCostSeek
open Compress.XFlate Compress.Proofs.XRIndex Compress.Proofs.XRSeek

/-- `seekC .fixed` on a state that `Seek` accepts. -/
def seekToC (L : Layout) (s : RState) (pos : Int) : (RState × Int × Option Err) × List Nat :=
  if fastCond s pos then (seekTo L s pos, [])
  else (seekTo L s pos, [min (pickRi L s pos) L.recs.length])

theorem seekTo_fast (L : Layout) (s : RState) (pos : Int) (h : fastCond s pos) :
    seekTo L s pos = ({ s with offset := pos, discard := s.discard + (pos - s.offset) }, pos, none) := by
  unfold seekTo; rw [if_pos h]

theorem seekTo_slow (L : Layout) (s : RState) (pos : Int) (h : ¬ fastCond s pos) :
    seekTo L s pos = (slowState L s pos (pickRi L s pos), pos, none) := by
  unfold seekTo; rw [if_neg h]

theorem seekTo_pos (L : Layout) (s : RState) (pos : Int) :
    (seekTo L s pos).2.1 = pos ∧ (seekTo L s pos).2.2 = none := by
  unfold seekTo; split <;> exact ⟨rfl, rfl⟩

theorem seekC_eq (L : Layout) (s : RState) (off : Int) (wh : Nat)
    (herr : s.err = none ∨ s.err = some .eof) :
    seekC .fixed L s off wh =
      match specSeek L.endRaw s.offset off wh with
      | none => ((s, 0, some .invalid), [])
      | some pos => seekToC L s pos := by
  unfold seekC
  simp only []
  rw [seek_eq L s off wh herr]
  cases hsp : specSeek L.endRaw s.offset off wh with
  | none => simp
  | some pos =>
    simp only []
    have hp := seekTo_pos L s pos
    rw [hp.1, if_neg (by rw [hp.2]; simp)]
    unfold seekToC
    by_cases hf : fastCond s pos
    · have hf' := hf
      unfold fastCond at hf'
      rw [if_pos hf]
      simp only [decide_eq_true_eq, if_pos hf']
    · have hf' := hf
      unfold fastCond at hf'
      rw [if_neg hf, seekTo_slow L s pos hf]
      simp only [decide_eq_true_eq, if_neg hf']
      rfl


/-! ### both variants: the shape of `seek` and of `seekC` -/

def posOf (L : Layout) (s : RState) (off : Int) : Nat → Option Int
  | 0 => some off
  | 1 => some (s.offset + off)
  | 2 => some (L.endRaw + off)
  | _ => none

def remainOf (v : Variant) (s : RState) : Int :=
  match v with
  | .orig  => s.chk.rsize - s.zout
  | .fixed => s.chk.rsize - s.zout - s.discard

def fastP (v : Variant) (s : RState) (pos : Int) : Prop :=
  pos - s.offset > 0 ∧ remainOf v s > 0 ∧ pos - s.offset < remainOf v s

instance (v : Variant) (s : RState) (pos : Int) : Decidable (fastP v s pos) := by
  unfold fastP; infer_instance

def fastState (v : Variant) (s : RState) (pos : Int) : RState :=
  { s with offset := pos,
           discard := match v with
             | .orig  => pos - s.offset
             | .fixed => s.discard + (pos - s.offset) }

/-- the part of `seek` after the target has been computed and found non-negative. -/
def seekBody (v : Variant) (L : Layout) (s : RState) (pos : Int) : RState × Int × Option Err :=
  if fastP v s pos then (fastState v s pos, pos, none)
  else
    let pc := getRecords L.recs s.ri
    let inNext : Bool := match v with
      | .orig  => decide (pc.1.raw ≤ pos ∧ pos ≤ pc.2.raw)
      | .fixed => decide (pc.1.raw ≤ pos ∧ (pos < pc.2.raw ∨ pos = pc.1.raw))
    let ri := if ¬ inNext then search L.recs pos else s.ri
    let pc := getRecords L.recs ri
    ({ s with ri := min (ri + 1) L.recs.length,
              chk := ⟨pc.2.comp - pc.1.comp, pc.2.raw - pc.1.raw, pc.2.typ⟩,
              offset := pos,
              discard := if pos > L.endRaw then L.endRaw - pc.1.raw else pos - pc.1.raw,
              seg := min ri L.recs.length, zout := 0, err := none }, pos, none)

theorem seek_unfold (v : Variant) (L : Layout) (s : RState) (off : Int) (wh : Nat) :
    seek v L s off wh =
      if s.err ≠ none ∧ s.err ≠ some .eof then (s, 0, s.err)
      else match posOf L s off wh with
        | none => (s, 0, some .invalid)
        | some pos => if pos < 0 then (s, 0, some .invalid) else seekBody v L s pos := by
  unfold seek
  split
  · rfl
  · match wh with
    | 0 => cases v <;> rfl
    | 1 => cases v <;> rfl
    | 2 => cases v <;> rfl
    | _+3 => rfl

theorem seekBody_snd (v : Variant) (L : Layout) (s : RState) (pos : Int) :
    (seekBody v L s pos).2 = (pos, none) := by
  unfold seekBody; split <;> rfl

theorem seekBody_fast (v : Variant) (L : Layout) (s : RState) (pos : Int) (h : fastP v s pos) :
    seekBody v L s pos = (fastState v s pos, pos, none) := by
  unfold seekBody; rw [if_pos h]

theorem seekBody_slow (v : Variant) (L : Layout) (s : RState) (pos : Int) (h : ¬ fastP v s pos) :
    (seekBody v L s pos).1.zout = 0 := by
  unfold seekBody; rw [if_neg h]

/-- the `fast` replica inside `seekC`. -/
def fastB (v : Variant) (s : RState) (p : Int) : Bool :=
  match v with
  | .orig => decide (p - s.offset > 0 ∧ s.chk.rsize - s.zout > 0 ∧ p - s.offset < s.chk.rsize - s.zout)
  | .fixed => decide (p - s.offset > 0 ∧ s.chk.rsize - s.zout - s.discard > 0 ∧
                      p - s.offset < s.chk.rsize - s.zout - s.discard)

theorem fastB_iff (v : Variant) (s : RState) (p : Int) : fastB v s p = true ↔ fastP v s p := by
  cases v <;> simp [fastB, fastP, remainOf]

theorem seekC_def (v : Variant) (L : Layout) (s : RState) (off : Int) (wh : Nat) :
    seekC v L s off wh =
      if (seek v L s off wh).2.2 ≠ none then (seek v L s off wh, [])
      else if fastB v s (seek v L s off wh).2.1 then (seek v L s off wh, [])
      else (seek v L s off wh, [(seek v L s off wh).1.seg]) := rfl

/-- the three ways a `Seek` can go, with what `seekC` reports for each. -/
theorem seekC_cases (v : Variant) (L : Layout) (s : RState) (off : Int) (wh : Nat) :
    ((seek v L s off wh).2.2 ≠ none ∧ (seekC v L s off wh).2 = []) ∨
    (∃ pos, fastP v s pos ∧ seek v L s off wh = (fastState v s pos, pos, none) ∧
        (seekC v L s off wh).2 = []) ∨
    ((seek v L s off wh).2.2 = none ∧ (seek v L s off wh).1.zout = 0 ∧
        (seekC v L s off wh).2 = [(seek v L s off wh).1.seg]) := by
  rw [seekC_def]
  generalize hr : seek v L s off wh = r
  rw [seek_unfold] at hr
  by_cases he : s.err ≠ none ∧ s.err ≠ some .eof
  · rw [if_pos he] at hr
    subst hr
    left
    exact ⟨he.1, by rw [if_pos he.1]⟩
  · rw [if_neg he] at hr
    cases hp : posOf L s off wh with
    | none =>
      rw [hp] at hr
      subst hr
      left
      exact ⟨by simp, by simp⟩
    | some pos =>
      rw [hp] at hr
      simp only [] at hr
      by_cases hneg : pos < 0
      · rw [if_pos hneg] at hr
        subst hr
        left
        exact ⟨by simp, by simp⟩
      · rw [if_neg hneg] at hr
        have hsnd := seekBody_snd v L s pos
        by_cases hf : fastP v s pos
        · right; left
          have hb := seekBody_fast v L s pos hf
          rw [hb] at hr
          subst hr
          refine ⟨pos, hf, rfl, ?_⟩
          have : fastB v s pos = true := (fastB_iff v s pos).2 hf
          simp [this]
        · right; right
          have hz := seekBody_slow v L s pos hf
          subst hr
          rw [hsnd]
          have : ¬ (fastB v s pos = true) := fun h => hf ((fastB_iff v s pos).1 h)
          refine ⟨rfl, hz, ?_⟩
          simp [this]

section
variable {L : Layout} {plain : List UInt8}

/-- the index the slow path settles on holds `pos` in the half-open sense. -/
theorem pickRi_owns (wf : WellFormed L plain) (s : RState) (hri : s.ri ≤ L.recs.length)
    (pos : Int) (hpos : 0 ≤ pos) :
    pickRi L s pos ≤ L.recs.length ∧
    (getRecords L.recs (pickRi L s pos)).1.raw ≤ pos ∧
    (pos < (getRecords L.recs (pickRi L s pos)).2.raw ∨
      pos = (getRecords L.recs (pickRi L s pos)).1.raw ∨ pickRi L s pos = L.recs.length) := by
  unfold pickRi
  split
  · rw [Compress.Proofs.IndexSearch.search_eq_spec L.recs wf.sorted pos]
    have hle := searchSpec_le L.recs pos
    refine ⟨hle, ?_, ?_⟩
    · rw [gr_prev_raw _ _ hle]; exact searchSpec_lower L.recs wf.sorted pos hpos
    · rcases Nat.lt_or_eq_of_le hle with h | h
      · left
        rw [gr_curr_raw_lt _ _ h]
        exact searchSpec_upper L.recs wf.sorted pos h
      · right; right; exact h
  · rename_i h
    have h : (getRecords L.recs s.ri).1.raw ≤ pos ∧
        (pos < (getRecords L.recs s.ri).2.raw ∨ pos = (getRecords L.recs s.ri).1.raw) :=
      Decidable.not_not.1 h
    refine ⟨hri, h.1, ?_⟩
    rcases h.2 with h2 | h2
    · exact Or.inl h2
    · exact Or.inr (Or.inl h2)

end

end Compress.Proofs.XCostSeek
