/-
Shape of the 257 symbol bits (C16).
-/
import Compress.Proofs.MetaBits
import Compress.Proofs.MetaHuff

namespace Compress.Proofs.Meta
open Compress Compress.Meta

theorem shape_aux (d : Bits) (M : Nat) (hd0 : d.head? = some false)
    (hz : M + Bits.countZeros d ≤ 257) (ho : Bits.countOnes d < M) :
    let s := d ++ List.replicate (257 - M - Bits.countZeros d) false ++ List.replicate (M - Bits.countOnes d) true
    s.length = 257 ∧ s.head? = some false ∧ s.getD 256 false = true ∧ Bits.countOnes s = M := by
  intro s
  have hadd := count_add d
  have hlen : s.length = 257 := by
    simp only [s, List.length_append, List.length_replicate]; omega
  refine ⟨hlen, ?_, ?_, ?_⟩
  · cases d with
    | nil => simp at hd0
    | cons b bs => simpa [s] using hd0
  · simp only [s, List.getD_eq_getElem?_getD]
    rw [List.getElem?_append_right (by simp only [List.length_append, List.length_replicate]; omega)]
    rw [List.getElem?_replicate]
    simp only [List.length_append, List.length_replicate]
    rw [if_pos (by omega)]; rfl
  · simp only [s, countOnes_append, countOnes_replicate]
    simp; omega

theorem flags_head (flags : Nat) (h : flags % 2 = 0) (rest : Bits) :
    (Bits.ofNat flags 8 ++ rest).head? = some false := by
  simp [Bits.ofNat, h]

theorem flags_ones (flags : Nat) (h : flags % 2 = 0) : Bits.countOnes (Bits.ofNat flags 8) ≤ 7 := by
  have : Bits.ofNat flags 8 = false :: Bits.ofNat (flags / 2) 7 := by simp [Bits.ofNat, h]
  rw [this, countOnes_cons]
  have h1 := count_add (Bits.ofNat (flags / 2) 7)
  rw [length_ofNat] at h1
  simp; omega

def mkFlags (n : Nat) (final invert : Bool) : Nat :=
  (if final then 2 else 0) + (if invert then 4 else 0) + (n % 32) * 8

theorem mkFlags_even (n : Nat) (final invert : Bool) : mkFlags n final invert % 2 = 0 := by
  unfold mkFlags; cases final <;> cases invert <;> simp <;> omega

theorem symbolBits_eq (buf : List UInt8) (h : Nat) (final invert : Bool) :
    symbolBits buf h final invert =
      (let d := Bits.ofNat (mkFlags buf.length final invert) 8 ++ Bits.ofBytes (if invert then buf.map (fun b => ~~~ b) else buf)
       d ++ List.replicate (257 - 2 ^ h - Bits.countZeros d) false ++ List.replicate (2 ^ h - Bits.countOnes d) true) := by
  rfl

theorem symbolBits_shape_aux (buf : List UInt8) (h : Nat) (final invert : Bool)
    (hlen : buf.length ≤ 31)
    (hz : 2 ^ h + (Bits.countZeros (Bits.ofBytes (if invert then buf.map (fun b => ~~~ b) else buf)) + 8) ≤ 257)
    (ho : Bits.countOnes (Bits.ofBytes (if invert then buf.map (fun b => ~~~ b) else buf)) + 8 ≤ 2 ^ h) :
    let s := symbolBits buf h final invert
    s.length = 257 ∧ s.head? = some false ∧ s.getD 256 false = true ∧ Bits.countOnes s = 2 ^ h := by
  intro s
  have _ := hlen
  have hs : s = symbolBits buf h final invert := rfl
  rw [symbolBits_eq] at hs
  have hev := mkFlags_even buf.length final invert
  have h1 := flags_ones _ hev
  have h2 := count_add (Bits.ofNat (mkFlags buf.length final invert) 8)
  rw [length_ofNat] at h2
  rw [hs]
  apply shape_aux
  · exact flags_head _ hev _
  · rw [countZeros_append]; omega
  · rw [countOnes_append]; omega
end Compress.Proofs.Meta
