/-
The output of the RFC 1951 specification only grows: block bodies, stored
blocks and the sequence of blocks never shrink the output they are given.
-/
import Compress.Proofs.FlateBound

namespace Compress.Proofs.FlateRefine
open Compress Compress.Flate

/-! ### block bodies -/

set_option maxRecDepth 4000 in
theorem inflateBlock_mono (lit dist : HuffTab) : ∀ (fuel : Nat) (out : Array UInt8) (bits : Bits),
    out.size ≤ (inflateBlock lit dist fuel out bits).1.size := by
  intro fuel
  induction fuel with
  | zero => intro out bits; rw [inflateBlock_zero]; exact Nat.le_refl _
  | succ fuel ih =>
    intro out bits
    rw [inflateBlock_succ]
    cases hd : lit.decode bits with
    | eof => exact Nat.le_refl _
    | invalid => exact Nat.le_refl _
    | sym s rest =>
      simp only []
      by_cases c1 : s < 256
      · rw [if_pos c1]
        have := ih (out.push (UInt8.ofNat s)) rest
        simp only [Array.size_push] at this
        omega
      · rw [if_neg c1]
        by_cases c2 : s = 256
        · rw [if_pos c2]; exact Nat.le_refl _
        · rw [if_neg c2]
          by_cases c3 : s ≥ 286
          · rw [if_pos c3]; exact Nat.le_refl _
          · rw [if_neg c3]
            cases ht : takeBits (lenExtra.getD (s - 257) 0) rest with
            | none => exact Nat.le_refl _
            | some p =>
              obtain ⟨le, r1⟩ := p
              simp only []
              cases hdd : dist.decode r1 with
              | eof => exact Nat.le_refl _
              | invalid => exact Nat.le_refl _
              | sym ds r2 =>
                simp only []
                by_cases c4 : ds ≥ 30
                · rw [if_pos c4]; exact Nat.le_refl _
                · rw [if_neg c4]
                  cases ht2 : takeBits (distExtra.getD ds 0) r2 with
                  | none => exact Nat.le_refl _
                  | some q =>
                    obtain ⟨de, r3⟩ := q
                    simp only []
                    split
                    · exact Nat.le_refl _
                    · have := ih (copyBack out (distBase.getD ds 0 + de) (lenBase.getD (s - 257) 0 + le)) r3
                      rw [copyBack_size] at this
                      omega

/-! ### stored blocks -/

theorem takeBytes_mono : ∀ (n : Nat) (out : Array UInt8) (bits : Bits),
    out.size ≤ (takeBytes n out bits).1.size := by
  intro n
  induction n with
  | zero => intro out bits; simp [takeBytes]
  | succ n ih =>
    intro out bits
    rw [takeBytes]
    cases ht : takeBits 8 bits with
    | none => exact Nat.le_refl _
    | some p =>
      obtain ⟨v, rest⟩ := p
      have := ih (out.push (UInt8.ofNat v)) rest
      simp only [Array.size_push] at this
      simp only []
      omega

/-! ### the sequence of blocks -/

theorem decodeBlocks_mono (total : Nat) : ∀ (fuel : Nat) (out : Array UInt8) (bits : Bits),
    out.size ≤ (decodeBlocks total fuel out bits).out.size := by
  intro fuel
  induction fuel with
  | zero => intro out bits; simp [decodeBlocks]
  | succ fuel ih =>
    intro out bits
    rw [decodeBlocks]
    cases h1 : takeBits 1 bits with
    | none => exact Nat.le_refl _
    | some p1 =>
      obtain ⟨bfinal, b1⟩ := p1
      simp only []
      cases h2 : takeBits 2 b1 with
      | none => exact Nat.le_refl _
      | some p2 =>
        obtain ⟨btype, b2⟩ := p2
        simp only []
        have hfin : ∀ (o : Array UInt8) (rest : Bits),
            o.size ≤ (if bfinal = 1 then
                ({ out := o, verdict := .ok (total - rest.length + padTo8 (total - rest.length)) } : Result)
              else decodeBlocks total fuel o rest).out.size := by
          intro o rest
          split
          · exact Nat.le_refl _
          · exact ih o rest
        split
        · -- stored
          cases h3 : takeBits 16 (b2.drop (padTo8 (total - b2.length))) with
          | none => exact Nat.le_refl _
          | some p3 =>
            obtain ⟨len, b4⟩ := p3
            simp only []
            cases h4 : takeBits 16 b4 with
            | none => exact Nat.le_refl _
            | some p4 =>
              obtain ⟨nlen, b5⟩ := p4
              simp only []
              split
              · exact Nat.le_refl _
              · have hb := takeBytes_mono len out b5
                cases h5 : takeBytes len out b5 with
                | mk o' ob =>
                  rw [h5] at hb
                  cases ob with
                  | none => exact hb
                  | some b6 =>
                    have := hfin o' b6
                    simp only [] at hb ⊢
                    omega
        · -- fixed
          have hb := inflateBlock_mono fixedLit.tab fixedDist.tab (b2.length + 1) out b2
          cases h5 : inflateBlock fixedLit.tab fixedDist.tab (b2.length + 1) out b2 with
          | mk o' e =>
            rw [h5] at hb
            cases e with
            | error v => exact hb
            | ok rest =>
              have := hfin o' rest
              simp only [] at hb ⊢
              omega
        · -- dynamic
          cases h3 : readDynamic b2 with
          | error v => exact Nat.le_refl _
          | ok t =>
            obtain ⟨lit, dist, b3⟩ := t
            simp only []
            have hb := inflateBlock_mono lit.tab dist.tab (b3.length + 1) out b3
            cases h5 : inflateBlock lit.tab dist.tab (b3.length + 1) out b3 with
            | mk o' e =>
              rw [h5] at hb
              cases e with
              | error v => exact hb
              | ok rest =>
                have := hfin o' rest
                simp only [] at hb ⊢
                omega
        · exact Nat.le_refl _

end Compress.Proofs.FlateRefine
