/-
The counting sort in `bwtDecode` builds the inverse of `rank`.
-/
import Compress.Bzip2.Stages
import Compress.Proofs.Bzip2BWTRank

namespace Compress.Proofs.Bzip2BWT
open Compress Compress.Bzip2

def countsOf (buf : Array UInt8) : Array Nat :=
  buf.foldl (fun c v => c.modify v.toNat (· + 1)) (Array.replicate 256 0)

def cummOf (buf : Array UInt8) : Array Nat :=
  ((countsOf buf).foldl (fun (st : Array Nat × Nat) v => (st.1.push st.2, st.2 + v)) (#[], 0)).1

def permStep (buf : Array UInt8) (st : Array Nat × Array Nat) (i : Nat) : Array Nat × Array Nat :=
  let b := (buf.getD i 0).toNat
  let pos := st.2.getD b 0
  (st.1.setIfInBounds pos i, st.2.setIfInBounds b (pos + 1))

def permOf (buf : Array UInt8) : Array Nat :=
  ((List.range buf.size).foldl (permStep buf) (Array.replicate buf.size 0, cummOf buf)).1

theorem bwtDecode_eq (buf : Array UInt8) (ptr : Nat) :
    bwtDecode buf ptr =
      if buf.size = 0 then buf
      else bwtDecode.chase buf (permOf buf) buf.size ((permOf buf).getD ptr 0) #[] := by
  unfold bwtDecode
  rfl

/-- keys of a buffer. -/
def keys (buf : Array UInt8) : List Nat := buf.toList.map UInt8.toNat

theorem keys_length (buf : Array UInt8) : (keys buf).length = buf.size := by simp [keys]

theorem keys_getD (buf : Array UInt8) (i : Nat) : (keys buf).getD i 0 = (buf.getD i 0).toNat := by
  simp only [keys, List.getD_eq_getElem?_getD, List.getElem?_map, Array.getD_eq_getD_getElem?,
    Array.getElem?_toList]
  cases buf[i]? <;> simp

theorem keys_lt (buf : Array UInt8) (i : Nat) : (keys buf).getD i 0 < 256 := by
  rw [keys_getD]; exact UInt8.toNat_lt _

/-! ### counts -/

theorem counts_fold_size (L : List UInt8) (c : Array Nat) :
    (L.foldl (fun c v => c.modify v.toNat (· + 1)) c).size = c.size := by
  induction L generalizing c with
  | nil => rfl
  | cons v L ih => simp [ih]

theorem counts_fold_getD (L : List UInt8) (c : Array Nat) (b : Nat) (hb : b < c.size) :
    (L.foldl (fun c v => c.modify v.toNat (· + 1)) c).getD b 0
      = c.getD b 0 + cntEq (L.map UInt8.toNat) b := by
  induction L generalizing c with
  | nil => simp [cntEq]
  | cons v L ih =>
    simp only [List.foldl_cons]
    rw [ih _ (by simpa using hb)]
    simp only [Array.getD_eq_getD_getElem?, Array.getElem?_modify, Array.getElem?_eq_getElem hb,
      cntEq, List.map_cons, List.countP_cons]
    by_cases h : v.toNat = b
    · simp [h]; omega
    · simp [h]

theorem countsOf_size (buf : Array UInt8) : (countsOf buf).size = 256 := by
  unfold countsOf
  rw [← Array.foldl_toList, counts_fold_size]; simp

theorem countsOf_getD (buf : Array UInt8) (b : Nat) (hb : b < 256) :
    (countsOf buf).getD b 0 = cntEq (keys buf) b := by
  unfold countsOf
  rw [← Array.foldl_toList, counts_fold_getD _ _ _ (by simpa using hb)]
  simp [keys, hb]

/-! ### prefix sums -/

theorem psum_fold (l : List Nat) (acc : Array Nat) (s : Nat) :
    (l.foldl (fun (st : Array Nat × Nat) v => (st.1.push st.2, st.2 + v)) (acc, s)).1
      = acc ++ ((List.range l.length).map (fun k => s + (l.take k).sum)).toArray := by
  induction l generalizing acc s with
  | nil => simp
  | cons v l ih =>
    simp only [List.foldl_cons, ih, List.length_cons, List.range_succ_eq_map, List.map_cons,
      List.map_map]
    apply Array.ext'
    simp [Function.comp_def, Nat.add_assoc]

theorem sum_take_counts (K : List Nat) (l : List Nat) (hl : ∀ b, b < l.length → l.getD b 0 = cntEq K b)
    (b : Nat) (hb : b ≤ l.length) : (l.take b).sum = cntLt K b := by
  induction b with
  | zero => simp [cntLt]
  | succ b ih =>
    have hb' : b < l.length := by omega
    rw [List.take_succ_eq_append_getElem hb', List.sum_append, ih (by omega), cntLt_succ]
    have := hl b hb'
    simp only [List.getD_eq_getElem?_getD, List.getElem?_eq_getElem hb', Option.getD_some] at this
    simp [this]

theorem cummOf_size (buf : Array UInt8) : (cummOf buf).size = 256 := by
  unfold cummOf
  rw [← Array.foldl_toList, psum_fold]
  simp [countsOf_size]

theorem cummOf_getD (buf : Array UInt8) (b : Nat) (hb : b < 256) :
    (cummOf buf).getD b 0 = cntLt (keys buf) b := by
  unfold cummOf
  rw [← Array.foldl_toList, psum_fold]
  have hsz : (countsOf buf).toList.length = 256 := by simp [countsOf_size]
  simp only [Array.getD_eq_getD_getElem?, Array.empty_append]
  rw [List.getElem?_toArray, List.getElem?_map, List.getElem?_range (by omega)]
  simp only [Option.map_some, Option.getD_some, Nat.zero_add]
  apply sum_take_counts _ _ _ _ (by omega)
  intro c hc
  rw [← countsOf_getD buf c (by omega)]
  simp [Array.getD_eq_getD_getElem?, List.getD_eq_getElem?_getD]

/-! ### the placement loop -/

structure PermInv (buf : Array UInt8) (i : Nat) (st : Array Nat × Array Nat) : Prop where
  size1 : st.1.size = buf.size
  size2 : st.2.size = 256
  cum : ∀ b, b < 256 → st.2.getD b 0 = cntLt (keys buf) b + cntEq ((keys buf).take i) b
  done : ∀ j, j < i → st.1.getD (rank (keys buf) j) 0 = j

theorem permInv_init (buf : Array UInt8) : PermInv buf 0 (Array.replicate buf.size 0, cummOf buf) where
  size1 := by simp
  size2 := cummOf_size buf
  cum := by intro b hb; simp [cummOf_getD buf b hb, cntEq]
  done := by intro j hj; omega

theorem permInv_step (buf : Array UInt8) (i : Nat) (st : Array Nat × Array Nat)
    (h : PermInv buf i st) (hi : i < buf.size) : PermInv buf (i + 1) (permStep buf st i) := by
  have hiK : i < (keys buf).length := by rw [keys_length]; exact hi
  have hb : (keys buf).getD i 0 < 256 := keys_lt buf i
  have hpos : st.2.getD ((keys buf).getD i 0) 0 = rank (keys buf) i := by
    rw [h.cum _ hb]; rfl
  have hrk : rank (keys buf) i < st.1.size := by
    rw [h.size1, ← keys_length]; exact rank_lt_length _ hiK
  have e : permStep buf st i = (st.1.setIfInBounds (rank (keys buf) i) i,
      st.2.setIfInBounds ((keys buf).getD i 0) (rank (keys buf) i + 1)) := by
    unfold permStep
    simp only [← keys_getD, hpos]
  rw [e]
  refine ⟨by simpa using h.size1, by simpa using h.size2, ?_, ?_⟩
  · intro b' hb'
    rw [cntEq_take_succ _ _ hiK]
    simp only [Array.getD_eq_getD_getElem?, Array.getElem?_setIfInBounds]
    by_cases hbb : (keys buf).getD i 0 = b'
    · subst hbb
      have : (keys buf).getD i 0 < st.2.size := by rw [h.size2]; exact hb
      simp only [if_true, this, Option.getD_some]
      unfold rank; omega
    · simp only [if_neg hbb, Nat.add_zero]
      rw [← Array.getD_eq_getD_getElem?, h.cum _ hb']
  · intro j hj
    simp only [Array.getD_eq_getD_getElem?, Array.getElem?_setIfInBounds]
    by_cases hji : j = i
    · subst hji
      simp [hrk]
    · have hj' : j < i := by omega
      have hne : rank (keys buf) i ≠ rank (keys buf) j := by
        intro heq
        exact hji (rank_inj _ (by omega) hiK heq.symm)
      simp only [if_neg hne]
      rw [← Array.getD_eq_getD_getElem?, h.done j hj']

theorem permInv_fold (buf : Array UInt8) (i : Nat) (hi : i ≤ buf.size) :
    PermInv buf i ((List.range i).foldl (permStep buf) (Array.replicate buf.size 0, cummOf buf)) := by
  induction i with
  | zero => exact permInv_init buf
  | succ i ih =>
    rw [List.range_succ, List.foldl_append]
    exact permInv_step buf i _ (ih (by omega)) (by omega)

theorem permOf_size (buf : Array UInt8) : (permOf buf).size = buf.size :=
  (permInv_fold buf buf.size (Nat.le_refl _)).size1

/-- the array `perm` is the inverse of `rank`. -/
theorem permOf_rank (buf : Array UInt8) (p : Nat) (hp : p < buf.size) :
    (permOf buf).getD (rank (keys buf) p) 0 = p :=
  (permInv_fold buf buf.size (Nat.le_refl _)).done p hp

end Compress.Proofs.Bzip2BWT
