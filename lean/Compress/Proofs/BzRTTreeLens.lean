/-
bzip2 round trip: `treeLens` (sort by count, `GenerateLengths`, back to symbol order)
is total and returns a complete code within the 20-bit limit.
-/
import Compress.Bzip2.Writer
import Compress.Proofs.PrefixLengths

namespace Compress.Proofs.BzRT
open Compress Compress.Bzip2 Compress.Prefix

theorem tl_zip_all_of_pairwise (l : List Nat) (h : l.Pairwise (· ≤ ·)) :
    (l.zip l.tail).all (fun (a, b) => a ≤ b) = true := by
  induction l with
  | nil => rfl
  | cons a t ih =>
    cases t with
    | nil => rfl
    | cons b t' =>
      rw [List.pairwise_cons] at h
      simp only [List.tail_cons, List.zip_cons_cons, List.all_cons, Bool.and_eq_true, decide_eq_true_eq]
      exact ⟨h.1 b (by simp), by simpa using ih h.2⟩

theorem tl_findIdx_nodup (order : List Nat) (hnd : order.Nodup) (i : Nat) (hi : i < order.length) :
    order.findIdx? (· == order[i]) = some i := by
  rw [List.findIdx?_eq_some_iff_getElem]
  refine ⟨hi, by simp, ?_⟩
  intro j hji
  have := List.pairwise_iff_getElem.1 hnd j i (by omega) hi hji
  simpa using this

/-- the comparator used by `treeLens`. -/
def tlLe (cnts : List Nat) (a b : Nat) : Bool :=
  decide (cnts.getD a 0 < cnts.getD b 0) || (cnts.getD a 0 == cnts.getD b 0 && decide (a ≤ b))

theorem tlLe_counts (cnts : List Nat) (a b : Nat) (h : tlLe cnts a b = true) :
    cnts.getD a 0 ≤ cnts.getD b 0 := by
  simp only [tlLe, Bool.or_eq_true, decide_eq_true_eq, Bool.and_eq_true, beq_iff_eq] at h
  omega

theorem tl_order_sorted (cnts : List Nat) :
    (((List.range cnts.length).mergeSort (tlLe cnts)).map fun i => cnts.getD i 0).Pairwise (· ≤ ·) := by
  rw [List.pairwise_map]
  refine (List.pairwise_mergeSort (le := tlLe cnts) ?_ ?_ _).imp (fun h => tlLe_counts cnts _ _ h)
  · intro a b c h1 h2
    simp only [tlLe, Bool.or_eq_true, decide_eq_true_eq, Bool.and_eq_true, beq_iff_eq] at h1 h2 ⊢
    omega
  · intro a b
    simp only [tlLe, Bool.or_eq_true, decide_eq_true_eq, Bool.and_eq_true, beq_iff_eq]
    omega

theorem treeLens_eq (cnts : List Nat) :
    treeLens cnts =
      match generateLengths (((List.range cnts.length).mergeSort (tlLe cnts)).map fun i => cnts.getD i 0)
          maxPrefixBits with
      | none => none
      | some ls => some ((List.range cnts.length).map fun s =>
          ls.getD ((((List.range cnts.length).mergeSort (tlLe cnts)).findIdx? (· == s)).getD 0) 0) := rfl

theorem tl_perm (order gl : List Nat) (n : Nat) (hp : order.Perm (List.range n))
    (hlen : gl.length = order.length) :
    ((List.range n).map fun s => gl.getD ((order.findIdx? (· == s)).getD 0) 0).Perm gl := by
  have hnd : order.Nodup := hp.nodup_iff.2 List.nodup_range
  refine (hp.symm.map _).trans (List.Perm.of_eq ?_)
  apply List.ext_getElem (by simp [hlen])
  intro i h1 h2
  have hi : i < order.length := by simpa using h1
  simp only [List.getElem_map, tl_findIdx_nodup order hnd i hi, Option.getD_some,
    List.getD_eq_getElem?_getD, List.getElem?_eq_getElem h2]

theorem treeLens_ok (cnts : List Nat) (h2 : 2 ≤ cnts.length) (ls : List Nat)
    (h : treeLens cnts = some ls) :
    ls.length = cnts.length ∧ (∀ l ∈ ls, 1 ≤ l ∧ l ≤ maxPrefixBits) ∧
    Compress.Prefix.KraftComplete ls := by
  rw [treeLens_eq] at h
  split at h
  · cases h
  · rename_i gl hgl
    have hp := List.mergeSort_perm (List.range cnts.length) (tlLe cnts)
    have hol : ((List.range cnts.length).mergeSort (tlLe cnts)).length = cnts.length := by
      simp [hp.length_eq]
    have hlen := PrefixLengths.generateLengths_length _ _ _ hgl
    obtain ⟨hK, hb⟩ := PrefixLengths.generateLengths_sound _ _ _ (by simpa [hol] using h2) hgl
    have hperm := tl_perm _ gl cnts.length hp (by simpa using hlen)
    injection h with h
    rw [h] at hperm
    refine ⟨by rw [← h]; simp, fun l hl => hb l (hperm.mem_iff.1 hl), ?_⟩
    intro m hm
    have := hK m (fun l hl => hm l (hperm.mem_iff.2 hl))
    rw [PrefixLengths.kraftScaled_eq_sum] at this ⊢
    rw [← this]
    exact (hperm.map _).sum_nat

theorem treeLens_total (cnts : List Nat) (h : cnts.length ≤ 2 ^ maxPrefixBits) :
    ∃ ls, treeLens cnts = some ls := by
  rw [treeLens_eq]
  have hp := List.mergeSort_perm (List.range cnts.length) (tlLe cnts)
  have hol : ((List.range cnts.length).mergeSort (tlLe cnts)).length = cnts.length := by
    simp [hp.length_eq]
  obtain ⟨gl, hgl⟩ := PrefixLengths.generateLengths_total
    (((List.range cnts.length).mergeSort (tlLe cnts)).map fun i => cnts.getD i 0) maxPrefixBits
    (tl_zip_all_of_pairwise _ (tl_order_sorted cnts)) (by simpa [hol] using h)
    (by decide) (by decide)
  rw [hgl]
  exact ⟨_, rfl⟩

end Compress.Proofs.BzRT
