/-
Bit-list lemmas used by the C16 proofs.
-/
import Compress.Meta.Codec

namespace Compress.Proofs.Meta
open Compress Compress.Meta

theorem length_ofNat : ∀ (n v : Nat), (Bits.ofNat v n).length = n
  | 0, _ => rfl
  | n+1, v => by simp [Bits.ofNat, length_ofNat n]

theorem toNat_ofNat : ∀ (n v : Nat), Bits.toNat (Bits.ofNat v n) = v % 2 ^ n
  | 0, v => by simp [Bits.ofNat, Bits.toNat, Nat.mod_one]
  | n+1, v => by
    simp only [Bits.ofNat, Bits.toNat, toNat_ofNat n]
    have h2 : 2 ^ (n+1) = 2 * 2 ^ n := by rw [Nat.pow_succ, Nat.mul_comm]
    rw [h2, Nat.mod_mul]
    by_cases h : v % 2 = 1 <;> simp [h] <;> omega

theorem toNat_lt : ∀ (l : Bits), Bits.toNat l < 2 ^ l.length
  | [] => by simp [Bits.toNat]
  | b :: bs => by
    have := toNat_lt bs
    simp only [Bits.toNat, List.length_cons, Nat.pow_succ]
    cases b <;> simp <;> omega

theorem ofNat_toNat : ∀ (l : Bits), Bits.ofNat (Bits.toNat l) l.length = l
  | [] => rfl
  | b :: bs => by
    have ih := ofNat_toNat bs
    simp only [Bits.toNat, List.length_cons, Bits.ofNat]
    cases b
    · simp [ih]
    · have h1 : (1 + 2 * Bits.toNat bs) % 2 = 1 := by omega
      have h2 : (1 + 2 * Bits.toNat bs) / 2 = Bits.toNat bs := by omega
      simp [h1, h2, ih]

theorem readBits_append (l rest : Bits) :
    readBits l.length (l ++ rest) = .ok (Bits.toNat l, rest) := by
  simp [readBits]

theorem readBits_ofNat (n v : Nat) (rest : Bits) :
    readBits n (Bits.ofNat v n ++ rest) = .ok (v % 2 ^ n, rest) := by
  have := readBits_append (Bits.ofNat v n) rest
  rw [length_ofNat, toNat_ofNat] at this
  exact this

theorem readBits_ofNat_lt (n v : Nat) (rest : Bits) (h : v < 2 ^ n) :
    readBits n (Bits.ofNat v n ++ rest) = .ok (v, rest) := by
  rw [readBits_ofNat, Nat.mod_eq_of_lt h]

theorem readBits_replicate_false (n : Nat) (rest : Bits) :
    readBits n (List.replicate n false ++ rest) = .ok (0, rest) := by
  have := readBits_append (List.replicate n false) rest
  rw [List.length_replicate] at this
  rw [this]
  congr 2
  clear this
  induction n with
  | zero => rfl
  | succ n ih => simp [List.replicate_succ, Bits.toNat, ih]

/-! counting -/

theorem countOnes_append (a b : Bits) : Bits.countOnes (a ++ b) = Bits.countOnes a + Bits.countOnes b := by
  simp [Bits.countOnes, List.countP_append]

theorem countZeros_append (a b : Bits) : Bits.countZeros (a ++ b) = Bits.countZeros a + Bits.countZeros b := by
  simp [Bits.countZeros, List.countP_append]

theorem countOnes_cons (b : Bool) (bs : Bits) :
    Bits.countOnes (b :: bs) = (if b then 1 else 0) + Bits.countOnes bs := by
  cases b <;> simp [Bits.countOnes] <;> omega

theorem countZeros_cons (b : Bool) (bs : Bits) :
    Bits.countZeros (b :: bs) = (if b then 0 else 1) + Bits.countZeros bs := by
  cases b <;> simp [Bits.countZeros] <;> omega

theorem count_add : ∀ (l : Bits), Bits.countZeros l + Bits.countOnes l = l.length
  | [] => rfl
  | b :: bs => by
    have := count_add bs
    rw [countOnes_cons, countZeros_cons, List.length_cons]
    cases b <;> simp <;> omega

theorem countOnes_replicate (n : Nat) (b : Bool) :
    Bits.countOnes (List.replicate n b) = if b then n else 0 := by
  cases b <;> simp [Bits.countOnes, List.countP_replicate]

theorem countZeros_replicate (n : Nat) (b : Bool) :
    Bits.countZeros (List.replicate n b) = if b then 0 else n := by
  cases b <;> simp [Bits.countZeros, List.countP_replicate]

theorem countOnes_map_not : ∀ (l : Bits), Bits.countOnes (l.map not) = Bits.countZeros l
  | [] => rfl
  | b :: bs => by
    have := countOnes_map_not bs
    rw [List.map_cons, countOnes_cons, countZeros_cons, this]
    cases b <;> rfl

theorem countZeros_map_not : ∀ (l : Bits), Bits.countZeros (l.map not) = Bits.countOnes l
  | [] => rfl
  | b :: bs => by
    have := countZeros_map_not bs
    rw [List.map_cons, countOnes_cons, countZeros_cons, this]
    cases b <;> rfl

theorem ofNat_compl : ∀ (n v : Nat), v < 2 ^ n →
    Bits.ofNat (2 ^ n - 1 - v) n = (Bits.ofNat v n).map not
  | 0, _, _ => rfl
  | n+1, v, h => by
    have h2 : 2 ^ (n+1) = 2 * 2 ^ n := by rw [Nat.pow_succ, Nat.mul_comm]
    have ih := ofNat_compl n (v / 2) (by omega)
    simp only [Bits.ofNat, List.map_cons]
    have hd : (2 ^ (n+1) - 1 - v) / 2 = 2 ^ n - 1 - v / 2 := by omega
    rw [hd, ih]
    congr 1
    by_cases hv : v % 2 = 1
    · have : (2 ^ (n+1) - 1 - v) % 2 = 0 := by omega
      simp [hv, this]
    · have : (2 ^ (n+1) - 1 - v) % 2 = 1 := by omega
      have hv0 : v % 2 = 0 := by omega
      simp [hv0, this]

theorem ofByte_not (b : UInt8) : Bits.ofByte (~~~ b) = (Bits.ofByte b).map not := by
  simp only [Bits.ofByte, UInt8.toNat_not]
  have := ofNat_compl 8 b.toNat (UInt8.toNat_lt b)
  simpa [UInt8.size] using this

theorem ofBytes_map_not : ∀ (l : List UInt8), Bits.ofBytes (l.map (fun b => ~~~ b)) = (Bits.ofBytes l).map not
  | [] => rfl
  | b :: bs => by simp [Bits.ofBytes, ofByte_not, ofBytes_map_not bs]

theorem length_ofByte (b : UInt8) : (Bits.ofByte b).length = 8 := length_ofNat 8 _

theorem length_ofBytes : ∀ (l : List UInt8), (Bits.ofBytes l).length = 8 * l.length
  | [] => rfl
  | b :: bs => by simp [Bits.ofBytes, length_ofByte, length_ofBytes bs]; omega

theorem ofBytes_append : ∀ (a b : List UInt8), Bits.ofBytes (a ++ b) = Bits.ofBytes a ++ Bits.ofBytes b
  | [], _ => rfl
  | x :: xs, b => by simp [Bits.ofBytes, ofBytes_append xs b]

/-! packing -/

theorem toBytes_cons8 (b0 b1 b2 b3 b4 b5 b6 b7 : Bool) (rest : Bits) :
    Bits.toBytes (b0 :: b1 :: b2 :: b3 :: b4 :: b5 :: b6 :: b7 :: rest) =
      UInt8.ofNat (Bits.toNat [b0, b1, b2, b3, b4, b5, b6, b7]) :: Bits.toBytes rest := by
  cases b0 <;> cases b1 <;> cases b2 <;> cases b3 <;> cases b4 <;> cases b5 <;> cases b6 <;> cases b7 <;> rfl

theorem ofByte_ofNat_toNat8 (b0 b1 b2 b3 b4 b5 b6 b7 : Bool) :
    Bits.ofByte (UInt8.ofNat (Bits.toNat [b0, b1, b2, b3, b4, b5, b6, b7])) = [b0, b1, b2, b3, b4, b5, b6, b7] := by
  cases b0 <;> cases b1 <;> cases b2 <;> cases b3 <;> cases b4 <;> cases b5 <;> cases b6 <;> cases b7 <;> rfl

end Compress.Proofs.Meta
