/-
C02 refinement, complex prefix codes (RFC 7932 section 3.5): list and array facts used by
`BrImplComplex` (the compacted code list of a length array, `lensArr`, `kraft15`, `setRange`).
-/
import Compress.Proofs.BrImplDefs
import Compress.Proofs.BrImplPrims

namespace Compress.Proofs.BrImpl.Complex
open Compress Compress.Brotli Compress.Prefix

/-! ### monad laws of the two state monads -/

theorem M_bind_assoc {α β γ : Type} (x : Impl.M α) (f : α → Impl.M β) (g : β → Impl.M γ) :
    (x >>= f) >>= g = x >>= fun a => f a >>= g := by
  funext r
  simp only [M_bind_apply]
  rcases x r with ⟨e | a, r'⟩ <;> rfl

theorem Dec_bind_assoc {α β γ : Type} (x : Dec α) (f : α → Dec β) (g : β → Dec γ) :
    (x >>= f) >>= g = x >>= fun a => f a >>= g := by
  funext r
  simp only [Dec_bind_apply]
  rcases x r with ⟨e | a, r'⟩ <;> rfl

theorem M_pure_bind {α β : Type} (a : α) (f : α → Impl.M β) : (pure a >>= f) = f a := rfl
theorem Dec_pure_bind {α β : Type} (a : α) (f : α → Dec β) : (pure a >>= f) = f a := rfl

theorem symsIncreasing_of_pairwise (l : List Code) (h : l.Pairwise (fun a b => a.sym < b.sym)) :
    symsIncreasing l = true := by
  induction l with
  | nil => rfl
  | cons a l ih =>
    cases l with
    | nil => rfl
    | cons b rest =>
      have h1 := List.pairwise_cons.1 h
      simp only [symsIncreasing, Bool.and_eq_true, decide_eq_true_eq]
      exact ⟨h1.1 b (by simp), ih h1.2⟩

theorem list_snoc_ind {α : Type} {P : List α → Prop} (h0 : P [])
    (h1 : ∀ l x, P l → P (l ++ [x])) (l : List α) : P l := by
  have : ∀ l : List α, P l.reverse := by
    intro l
    induction l with
    | nil => exact h0
    | cons x l ih => rw [List.reverse_cons]; exact h1 _ _ ih
  simpa using this l.reverse

/-! ### `lensArr` and `kraft15` -/

theorem lensArr_append (n : Nat) (cs ds : List Code) :
    lensArr n (cs ++ ds) = ds.foldl (fun a c => a.setIfInBounds c.sym c.len) (lensArr n cs) := by
  simp [lensArr, List.foldl_append]

theorem lensArr_snoc (n : Nat) (cs : List Code) (c : Code) :
    lensArr n (cs ++ [c]) = (lensArr n cs).setIfInBounds c.sym c.len := by
  simp [lensArr_append]

theorem lensArr_size (n : Nat) (cs : List Code) : (lensArr n cs).size = n := by
  induction cs using list_snoc_ind with
  | h0 => simp [lensArr]
  | h1 cs c ih => rw [lensArr_snoc]; simpa using ih

theorem kraft15_nil : kraft15 [] = 0 := rfl

theorem kraft15_cons (c : Code) (cs : List Code) : kraft15 (c :: cs) = 2 ^ (15 - c.len) + kraft15 cs := by
  simp [kraft15]

theorem kraft15_append (cs ds : List Code) : kraft15 (cs ++ ds) = kraft15 cs + kraft15 ds := by
  simp [kraft15]

theorem kraft15_reverse (cs : List Code) : kraft15 cs.reverse = kraft15 cs := by
  simp [kraft15, List.sum_reverse]

/-! ### the compacted code list of a length array -/

/-- the non-zero entries of `l` as codes, symbols counted from `k`. -/
def codeCLFrom (l : List Nat) (k : Nat) : List Code :=
  (l.zipIdx k).filterMap fun (l, s) => if l > 0 then some { sym := s, len := l } else none

/-- `codeCLens` of `readComplexPrefixCode`: the non-zero entries of the array as codes. -/
def codeCL (arr : Array Nat) : List Code := codeCLFrom arr.toList 0

theorem codeCLFrom_nil (k : Nat) : codeCLFrom [] k = [] := rfl

theorem codeCLFrom_cons (x : Nat) (l : List Nat) (k : Nat) :
    codeCLFrom (x :: l) k =
      (if x > 0 then [({ sym := k, len := x } : Code)] else []) ++ codeCLFrom l (k + 1) := by
  simp only [codeCLFrom, List.zipIdx_cons, List.filterMap_cons]
  split <;> simp_all

theorem codeCLFrom_append (l1 l2 : List Nat) (k : Nat) :
    codeCLFrom (l1 ++ l2) k = codeCLFrom l1 k ++ codeCLFrom l2 (k + l1.length) := by
  simp [codeCLFrom, List.zipIdx_append, List.filterMap_append]

theorem codeCLFrom_lens (l : List Nat) (k : Nat) :
    (codeCLFrom l k).map (·.len) = l.filter (· > 0) := by
  induction l generalizing k with
  | nil => rfl
  | cons x l ih =>
    rw [codeCLFrom_cons, List.map_append, ih, List.filter_cons]
    by_cases hx : x > 0 <;> simp [hx]

theorem codeCLFrom_mem (l : List Nat) (k : Nat) (c : Code) (hc : c ∈ codeCLFrom l k) :
    k ≤ c.sym ∧ c.sym < k + l.length ∧ 0 < c.len ∧ c.len ∈ l := by
  induction l generalizing k with
  | nil => simp [codeCLFrom_nil] at hc
  | cons x l ih =>
    rw [codeCLFrom_cons, List.mem_append] at hc
    rcases hc with hc | hc
    · by_cases hx : x > 0
      · simp only [hx, if_true, List.mem_singleton] at hc
        subst hc
        simp [hx]
      · simp [hx] at hc
    · obtain ⟨h1, h2, h3, h4⟩ := ih (k + 1) hc
      refine ⟨by omega, by simp only [List.length_cons]; omega, h3, List.mem_cons_of_mem _ h4⟩

theorem codeCLFrom_increasing (l : List Nat) (k : Nat) :
    (codeCLFrom l k).Pairwise (fun a b => a.sym < b.sym) := by
  induction l generalizing k with
  | nil => simp [codeCLFrom_nil]
  | cons x l ih =>
    rw [codeCLFrom_cons, List.pairwise_append]
    refine ⟨?_, ih (k + 1), ?_⟩
    · split <;> simp
    · intro a ha b hb
      have := (codeCLFrom_mem l (k + 1) b hb).1
      split at ha
      · simp only [List.mem_singleton] at ha; subst ha; simp; omega
      · simp at ha

theorem codeCL_increasing (arr : Array Nat) : symsIncreasing (codeCL arr) = true :=
  symsIncreasing_of_pairwise _ (codeCLFrom_increasing _ _)

theorem lensArr_codeCLFrom (n : Nat) (l : List Nat) (hl : l.length ≤ n) :
    lensArr n (codeCLFrom l 0) = (l ++ List.replicate (n - l.length) 0).toArray := by
  induction l using list_snoc_ind with
  | h0 => simp [codeCLFrom_nil, lensArr]
  | h1 l x ih =>
    simp only [List.length_append, List.length_singleton] at hl
    have ih := ih (by omega)
    obtain ⟨m, hm⟩ : ∃ m, n - l.length = m + 1 := ⟨n - l.length - 1, by omega⟩
    have hm' : n - (l.length + 1) = m := by omega
    rw [codeCLFrom_append, lensArr_append, ih, codeCLFrom_cons, codeCLFrom_nil, hm]
    simp only [List.length_append, List.length_singleton, hm', Nat.zero_add, List.append_nil]
    by_cases hx : x > 0
    · simp [hx, List.replicate_succ]
    · have : x = 0 := by omega
      subst this
      simp [List.replicate_succ]

theorem lensArr_codeCL (arr : Array Nat) : lensArr arr.size (codeCL arr) = arr := by
  have := lensArr_codeCLFrom arr.size arr.toList (by simp)
  simpa [codeCL] using this

/-! ### number and weight of the non-zero code length code lengths -/

/-- number of non-zero entries. -/
def cnt (l : List Nat) : Nat := (l.filter (· > 0)).length

/-- code space (of 32) used by the non-zero entries. -/
def ws (l : List Nat) : Nat := ((l.filter (· > 0)).map fun v => 2 ^ (5 - v)).sum

theorem codeCL_length (arr : Array Nat) : (codeCL arr).length = cnt arr.toList := by
  have := congrArg List.length (codeCLFrom_lens arr.toList 0)
  simpa [codeCL, cnt] using this

theorem sum_pow15 (l : List Nat) (h : ∀ x ∈ l, x ≤ 5) :
    (l.map fun v => 2 ^ (15 - v)).sum = 2 ^ 10 * (l.map fun v => 2 ^ (5 - v)).sum := by
  induction l with
  | nil => rfl
  | cons x l ih =>
    have hx : x ≤ 5 := h x List.mem_cons_self
    have : 2 ^ (15 - x) = 2 ^ 10 * 2 ^ (5 - x) := by rw [← Nat.pow_add]; congr 1; omega
    simp only [List.map_cons, List.sum_cons, this, ih (fun y hy => h y (List.mem_cons_of_mem _ hy))]
    rw [Nat.mul_add]

theorem kraft15_codeCL (arr : Array Nat) (h : ∀ x ∈ arr.toList, x ≤ 5) :
    kraft15 (codeCL arr) = 2 ^ 10 * ws arr.toList := by
  have h1 : kraft15 (codeCL arr) = (((codeCL arr).map (·.len)).map fun v => 2 ^ (15 - v)).sum := by
    simp [kraft15, List.map_map, Function.comp_def]
  rw [h1, codeCL, codeCLFrom_lens, ws]
  exact sum_pow15 _ (fun x hx => h x (List.mem_filter.1 hx).1)

theorem cnt_ws_set (l : List Nat) (i v : Nat) (hi : l[i]? = some 0) (hv : 0 < v) :
    cnt (l.set i v) = cnt l + 1 ∧ ws (l.set i v) = ws l + 2 ^ (5 - v) := by
  induction l generalizing i with
  | nil => simp at hi
  | cons x l ih =>
    cases i with
    | zero =>
      simp only [List.getElem?_cons_zero, Option.some.injEq] at hi
      subst hi
      simp [cnt, ws, hv]
      omega
    | succ i =>
      simp only [List.getElem?_cons_succ] at hi
      obtain ⟨h1, h2⟩ := ih i hi
      simp only [cnt, ws] at h1 h2 ⊢
      simp only [List.set_cons_succ, List.filter_cons]
      by_cases hx : x > 0
      · simp only [hx, decide_true, if_true, List.length_cons, List.map_cons, List.sum_cons, h1, h2]
        constructor <;> first | trivial | omega
      · simp only [hx, decide_false, Bool.false_eq_true, if_false, h1, h2]
        constructor <;> first | trivial | omega

theorem ws_le (l : List Nat) : ws l ≤ 16 * cnt l := by
  induction l with
  | nil => simp [ws, cnt]
  | cons x l ih =>
    simp only [ws, cnt] at ih ⊢
    simp only [List.filter_cons]
    by_cases hx : x > 0
    · have : 2 ^ (5 - x) ≤ 2 ^ 4 := Nat.pow_le_pow_right (by omega) (by omega)
      simp only [hx, decide_true, if_true, List.length_cons, List.map_cons, List.sum_cons]
      omega
    · simp only [hx, decide_false, Bool.false_eq_true, if_false]
      exact ih

theorem shr32 (v : Nat) (h1 : 0 < v) (h5 : v ≤ 5) : 32 >>> v = 2 ^ (5 - v) := by
  have : v = 1 ∨ v = 2 ∨ v = 3 ∨ v = 4 ∨ v = 5 := by omega
  rcases this with rfl | rfl | rfl | rfl | rfl <;> rfl

theorem shr32768 (v : Nat) (h : v ≤ 15) : 32768 >>> v = 2 ^ (15 - v) := by
  have : ∀ v < 16, 32768 >>> v = 2 ^ (15 - v) := by decide
  exact this v (by omega)

/-! ### the codes appended by a repeat of the previous length -/

/-- the `for symEnd := sym + repDiff; sym < symEnd; sym++ { codes = append(...) }` loop (codes in reverse). -/
def codesRep (codes : List Code) (sym len d : Nat) : List Code :=
  (List.range d).foldl (fun (acc : List Code) k => { sym := sym + k, len := len } :: acc) codes

theorem codesRep_zero (codes : List Code) (sym len : Nat) : codesRep codes sym len 0 = codes := rfl

theorem codesRep_succ (codes : List Code) (sym len d : Nat) :
    codesRep codes sym len (d + 1) = { sym := sym + d, len := len } :: codesRep codes sym len d := by
  simp [codesRep, List.range_succ, List.foldl_append]

theorem kraft15_codesRep (codes : List Code) (sym len d : Nat) :
    kraft15 (codesRep codes sym len d) = d * 2 ^ (15 - len) + kraft15 codes := by
  induction d with
  | zero => simp [codesRep_zero]
  | succ d ih => rw [codesRep_succ, kraft15_cons, ih, Nat.succ_mul]; simp only []; omega

theorem codesRep_mem (codes : List Code) (sym len d : Nat) (c : Code) (hc : c ∈ codesRep codes sym len d) :
    c ∈ codes ∨ (sym ≤ c.sym ∧ c.sym < sym + d ∧ c.len = len) := by
  induction d with
  | zero => exact Or.inl hc
  | succ d ih =>
    rw [codesRep_succ, List.mem_cons] at hc
    rcases hc with rfl | hc
    · right; simp
    · rcases ih hc with h | ⟨h1, h2, h3⟩
      · exact Or.inl h
      · exact Or.inr ⟨h1, by omega, h3⟩

theorem codesRep_pairwise (codes : List Code) (sym len d : Nat)
    (hp : codes.Pairwise (fun a b => b.sym < a.sym)) (hb : ∀ c ∈ codes, c.sym < sym) :
    (codesRep codes sym len d).Pairwise (fun a b => b.sym < a.sym) := by
  induction d with
  | zero => exact hp
  | succ d ih =>
    rw [codesRep_succ, List.pairwise_cons]
    refine ⟨fun c hc => ?_, ih⟩
    rcases codesRep_mem _ _ _ _ _ hc with h | ⟨_, h2, _⟩
    · have := hb c h; simp only []; omega
    · exact h2

theorem setRange_succ_right (a : Array Nat) (v i d : Nat) :
    setRange a v i (d + 1) = (setRange a v i d).setIfInBounds (i + d) v := by
  induction d generalizing a i with
  | zero => simp [setRange]
  | succ d ih =>
    rw [setRange, ih, setRange]
    congr 1; omega

theorem lensArr_codesRep (n : Nat) (codes : List Code) (sym len d : Nat) :
    lensArr n (codesRep codes sym len d).reverse = setRange (lensArr n codes.reverse) len sym d := by
  induction d with
  | zero => simp [codesRep_zero, setRange]
  | succ d ih => rw [codesRep_succ, List.reverse_cons, lensArr_snoc, ih, setRange_succ_right]

end Compress.Proofs.BrImpl.Complex
