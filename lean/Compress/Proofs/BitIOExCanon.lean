/-
C11 helper (`zeroExt_min`): for canonical prefix-free codes, zero-extending a
proper prefix of a code word lands on a code that is no longer than that word.
-/
import Compress.Proofs.BitIOExCover
import Compress.Proofs.BitIONat

namespace Compress.Proofs.BitIOExact
open Compress Compress.Prefix Compress.Proofs.PrefixTables

theorem ofNat_zero : ∀ m, Bits.ofNat 0 m = List.replicate m false
  | 0 => rfl
  | m+1 => by simp [Bits.ofNat, ofNat_zero m, List.replicate_succ]

theorem toNat_replicate_false : ∀ m, Bits.toNat (List.replicate m false) = 0
  | 0 => rfl
  | m+1 => by simp [List.replicate_succ, Bits.toNat, toNat_replicate_false m]

theorem reverseBits_zero (m : Nat) : reverseBits 0 m = 0 := by
  rw [reverseBits, ofNat_zero, List.reverse_replicate, toNat_replicate_false]

theorem reverseBits_split (x k m : Nat) :
    reverseBits x (k + m) = reverseBits x k * 2 ^ m + reverseBits (x / 2 ^ k) m := by
  simp only [reverseBits]
  rw [PrefixCodes.ofNat_add, List.reverse_append, BitIO.toNat_append, List.length_reverse,
    BitIO.length_ofNat]
  rw [Nat.mul_comm, Nat.add_comm]

theorem reverseBits_mod (x k : Nat) : reverseBits (x % 2 ^ k) k = reverseBits x k := by
  rw [reverseBits, ofNat_mod, reverseBits]

theorem reverseBits_eq_zero (x m : Nat) (hx : x < 2 ^ m) (h : reverseBits x m = 0) : x = 0 := by
  have := PrefixCodes.reverseBits_reverseBits x m
  rw [h, reverseBits_zero, Nat.mod_eq_of_lt hx] at this
  exact this.symm

/-- `c` prefixes the bit-buffer value `V`; only `k < c.len` bits of it are in the buffer.  The
    code `c'` that the zero-extended buffer selects is longer than `k` and no longer than `c`. -/
theorem zeroExt_len (cs : List Code) (h : GoodCodes cs) (hcan : Canonical cs)
    (c : Code) (hc : c ∈ cs) (c' : Code) (hc' : c' ∈ cs) (V k : Nat)
    (hV : V % 2 ^ c.len = c.val) (hk : k < c.len) (hv : (V % 2 ^ k) % 2 ^ c'.len = c'.val) :
    k < c'.len ∧ c'.len ≤ c.len := by
  have h1 : k < c'.len := by
    apply Classical.byContradiction
    intro hn
    have hle : c'.len ≤ k := by omega
    rw [Nat.mod_mod_of_dvd _ (Nat.pow_dvd_pow 2 hle)] at hv
    have := claim_unique cs h.pf c c' hc hc' V hV hv
    subst this
    omega
  refine ⟨h1, ?_⟩
  apply Classical.byContradiction
  intro hn
  have hlt : c.len < c'.len := by omega
  have hvk : V % 2 ^ k < 2 ^ k := Nat.mod_lt _ (Nat.two_pow_pos k)
  have hkc' : (2:Nat) ^ k ≤ 2 ^ c'.len := Nat.pow_le_pow_right (by omega) (by omega)
  have hkc : (2:Nat) ^ k ≤ 2 ^ c.len := Nat.pow_le_pow_right (by omega) (by omega)
  -- c'.val is the zero-extended buffer
  have hv' : c'.val = V % 2 ^ k := by rw [← hv]; exact Nat.mod_eq_of_lt (by omega)
  have hcv : c.val % 2 ^ k = V % 2 ^ k := by
    rw [← hV, Nat.mod_mod_of_dvd _ (Nat.pow_dvd_pow 2 (Nat.le_of_lt hk))]
  obtain ⟨m, hm⟩ : ∃ m, c.len = k + m := ⟨c.len - k, by omega⟩
  obtain ⟨d, hd⟩ : ∃ d, c'.len = c.len + d := ⟨c'.len - c.len, by omega⟩
  have e1 : c.canon = reverseBits (V % 2 ^ k) k * 2 ^ m + reverseBits (c.val / 2 ^ k) m := by
    rw [Code.canon, hm, reverseBits_split, ← reverseBits_mod c.val k, hcv]
  have e2 : c'.canon = reverseBits (V % 2 ^ k) k * 2 ^ (m + d) := by
    have : c'.len = k + (m + d) := by omega
    rw [Code.canon, this, reverseBits_split, hv', Nat.div_eq_of_lt hvk, reverseBits_zero, Nat.add_zero]
  have hcanon := (hcan c hc c' hc' (Or.inl hlt)).1
  have hne : ¬ c.len = c'.len := by omega
  rw [if_neg hne, e1, e2, hd, Nat.add_sub_cancel_left, Nat.add_mul, Nat.mul_assoc, ← Nat.pow_add] at hcanon
  have hpos : 0 < 2 ^ d := Nat.two_pow_pos d
  have ht : reverseBits (c.val / 2 ^ k) m ≤ reverseBits (c.val / 2 ^ k) m * 2 ^ d :=
    Nat.le_mul_of_pos_right _ hpos
  have ht0 : reverseBits (c.val / 2 ^ k) m = 0 := by omega
  have hdiv : c.val / 2 ^ k < 2 ^ m := by
    rw [Nat.div_lt_iff_lt_mul (Nat.two_pow_pos k), ← Nat.pow_add, Nat.add_comm, ← hm]
    exact h.vals c hc
  have hz := reverseBits_eq_zero _ _ hdiv ht0
  have hcl : c.val < 2 ^ k := (Nat.div_eq_zero_iff_lt (Nat.two_pow_pos k)).mp hz
  have hcval : c.val = V % 2 ^ k := by rw [← hcv]; exact (Nat.mod_eq_of_lt hcl).symm
  have := claim_unique cs h.pf c c' hc hc' (V % 2 ^ k)
    (by rw [← hcval]; exact Nat.mod_eq_of_lt (h.vals c hc)) hv
  subst this
  omega

end Compress.Proofs.BitIOExact
