/-
C01 (flate refinement), component 5: the `Read` loop.  Given the facts `StepSys`
about the step machine, driving `Read` with any schedule of buffer lengths
delivers exactly `full` and ends with the error `ferr`.
-/
import Compress.Proofs.FlateDefs

namespace Compress.Proofs.FlateRefine
open Compress Compress.Flate

/-! ### one-step equations of `read` and `runA` -/

theorem read_zero (s : Impl.FState) (n : Nat) :
    Impl.read 0 s n = (s, [], some .corrupted) := rfl

theorem read_succ (fuel : Nat) (s : Impl.FState) (n : Nat) :
    Impl.read (fuel+1) s n =
      if !s.toRead.isEmpty then
        let out := s.toRead.take n
        let s := { s with toRead := s.toRead.drop n, outOff := s.outOff + out.length }
        if s.toRead.isEmpty then (s, out, s.err) else (s, out, none)
      else if s.err ≠ none then (s, [], s.err)
      else Impl.read fuel (Impl.stepOnce s) n := rfl

theorem runA_succ (fuel : Nat) (s : Impl.FState) (sched : List Nat) (acc : Array UInt8) :
    Impl.runA (fuel+1) s sched acc =
      match Impl.read (s.total + 8) s (sched.headD 4096) with
      | (s', out, some err) => (acc ++ out.toArray, some err, s')
      | (s', out, none) =>
        Impl.runA fuel s' (if sched.length > 1 then sched.tail else sched) (acc ++ out.toArray) := by
  rw [Impl.runA]
  rcases Impl.read (s.total + 8) s (sched.headD 4096) with ⟨s', out, e⟩
  cases e <;> rfl

/-! ### a single `Read` -/

/-- what one `Read(buf)`, `len(buf) = n`, started with `del` delivered, achieves. -/
def ReadOK (J : Impl.FState → List UInt8 → Prop) (full : List UInt8) (ferr : Impl.FErr)
    (del : List UInt8) (n : Nat) (r : Impl.FState × List UInt8 × Option Impl.FErr) : Prop :=
  J r.1 (del ++ r.2.1) ∧
  (∀ err, r.2.2 = some err →
    err = ferr ∧ del ++ r.2.1 = full ∧ r.1.toRead = [] ∧ r.1.err = some ferr) ∧
  (r.2.2 = none → 0 < n → r.2.1 ≠ [])

/-- `Read` returns at once when bytes are pending or an error is latched. -/
theorem read_now (J : Impl.FState → List UInt8 → Prop) (full : List UInt8) (ferr : Impl.FErr)
    (S : StepSys J full ferr) (s : Impl.FState) (del : List UInt8) (hJ : J s del) (n : Nat)
    (h : s.toRead ≠ [] ∨ s.err ≠ none) (fuel : Nat) :
    ReadOK J full ferr del n (Impl.read (fuel+1) s n) := by
  rw [read_succ]
  by_cases hT : s.toRead = []
  · -- nothing pending: the latched error is returned
    have hE : s.err ≠ none := by
      rcases h with h | h
      · exact absurd hT h
      · exact h
    have c1 : (!s.toRead.isEmpty) = false := by simp [hT]
    rw [c1]
    simp only [Bool.false_eq_true, if_false, if_pos hE]
    cases hErr : s.err with
    | none => exact absurd hErr hE
    | some e =>
      obtain ⟨he, hfull⟩ := S.fin s del e hJ hErr
      refine ⟨?_, ?_, ?_⟩
      · simpa using hJ
      · intro err herr
        have : e = err := by simpa using herr
        subst this
        refine ⟨he, ?_, hT, by rw [hErr, he]⟩
        simpa [hT] using hfull
      · intro hn; simp at hn
  · -- pending bytes are handed out
    have c1 : (!s.toRead.isEmpty) = true := by simp [hT]
    rw [c1]
    simp only [if_true]
    have hJ2 := S.deliver s del n hJ
    by_cases hD : s.toRead.drop n = []
    · have c2 : (s.toRead.drop n).isEmpty = true := by simp [hD]
      simp only [c2, if_true]
      refine ⟨hJ2, ?_, ?_⟩
      · intro err herr
        have herr' : s.err = some err := herr
        obtain ⟨he, hfull⟩ := S.fin _ _ err hJ2 herr'
        refine ⟨he, ?_, hD, by show s.err = some ferr; rw [herr', he]⟩
        simpa [hD] using hfull
      · intro _ hn
        show s.toRead.take n ≠ []
        intro hc
        cases hs : s.toRead with
        | nil => exact hT hs
        | cons a t =>
          rw [hs] at hc
          cases n with
          | zero => omega
          | succ m => simp at hc
    · have c2 : (s.toRead.drop n).isEmpty = false := by simp [hD]
      simp only [c2, Bool.false_eq_true, if_false]
      refine ⟨hJ2, ?_, ?_⟩
      · intro err herr; simp at herr
      · intro _ hn
        show s.toRead.take n ≠ []
        intro hc
        cases hs : s.toRead with
        | nil => exact hT hs
        | cons a t =>
          rw [hs] at hc
          cases n with
          | zero => omega
          | succ m => simp at hc

/-- `Read` with enough fuel: never runs out of fuel. -/
theorem read_ok (J : Impl.FState → List UInt8 → Prop) (full : List UInt8) (ferr : Impl.FErr)
    (S : StepSys J full ferr) (n : Nat) :
    ∀ (fuel : Nat) (s : Impl.FState) (del : List UInt8), J s del →
      s.bits.length + 2 ≤ fuel → ReadOK J full ferr del n (Impl.read fuel s n) := by
  intro fuel
  induction fuel with
  | zero => intro s del _ hf; omega
  | succ f ih =>
    intro s del hJ hf
    by_cases h : s.toRead ≠ [] ∨ s.err ≠ none
    · exact read_now J full ferr S s del hJ n h f
    · have hT : s.toRead = [] := by
        apply Classical.byContradiction; intro hc; exact h (Or.inl hc)
      have hE : s.err = none := by
        apply Classical.byContradiction; intro hc; exact h (Or.inr hc)
      rw [read_succ]
      have c1 : (!s.toRead.isEmpty) = false := by simp [hT]
      rw [c1]
      have c2 : ¬ (s.err ≠ none) := by simp [hE]
      simp only [Bool.false_eq_true, if_false, if_neg c2]
      have hJ1 := S.step s del hJ hT hE
      rcases S.progress s del hJ hT hE with hp | hp | hp
      · obtain ⟨g, rfl⟩ : ∃ g, f = g + 1 := ⟨f - 1, by omega⟩
        exact read_now J full ferr S _ del hJ1 n (Or.inl hp) g
      · obtain ⟨g, rfl⟩ : ∃ g, f = g + 1 := ⟨f - 1, by omega⟩
        exact read_now J full ferr S _ del hJ1 n (Or.inr hp) g
      · exact ih _ del hJ1 (by omega)

/-! ### the schedule -/

theorem sched_head_pos_or (sched : List Nat) (hs : ∀ n, sched.getLast? = some n → 0 < n) :
    0 < sched.headD 4096 ∨ 1 < sched.length := by
  match sched, hs with
  | [], _ => left; simp
  | [a], hs => left; simpa using hs a (by simp)
  | _ :: _ :: _, _ => right; simp

theorem sched_next_last (sched : List Nat) (hs : ∀ n, sched.getLast? = some n → 0 < n) :
    ∀ n, (if sched.length > 1 then sched.tail else sched).getLast? = some n → 0 < n := by
  match sched, hs with
  | [], _ => simp
  | [a], hs => simpa using hs
  | a :: b :: l, hs =>
    intro n hn
    apply hs n
    rw [List.getLast?_cons_cons]
    simpa using hn

theorem sched_next_length (sched : List Nat) :
    (if sched.length > 1 then sched.tail else sched).length ≤ sched.length := by
  split <;> simp

theorem sched_next_length_lt (sched : List Nat) (h : 1 < sched.length) :
    (if sched.length > 1 then sched.tail else sched).length < sched.length := by
  rw [if_pos h]; simp; omega

/-! ### the driver -/

theorem runA_correct (J : Impl.FState → List UInt8 → Prop) (full : List UInt8) (ferr : Impl.FErr)
    (S : StepSys J full ferr) :
    ∀ (fuel : Nat) (s : Impl.FState) (del : List UInt8) (sched : List Nat), J s del →
      (∀ n, sched.getLast? = some n → 0 < n) →
      (full.length - del.length) + sched.length + 2 ≤ fuel →
      ∃ s', Impl.runA fuel s sched del.toArray = (full.toArray, some ferr, s') ∧
        J s' full ∧ s'.err = some ferr ∧ s'.toRead = [] := by
  intro fuel
  induction fuel with
  | zero => intro s del sched _ _ hf; omega
  | succ f ih =>
    intro s del sched hJ hs hf
    rw [runA_succ]
    have hR := read_ok J full ferr S (sched.headD 4096) (s.total + 8) s del hJ
      (by have := S.total s del hJ; omega)
    rcases hr : Impl.read (s.total + 8) s (sched.headD 4096) with ⟨s', out, e⟩
    rw [hr] at hR
    obtain ⟨hJ', hErr, hNone⟩ := hR
    cases e with
    | some err =>
      obtain ⟨he, hfull, hT, hE⟩ := hErr err rfl
      refine ⟨s', ?_, ?_, hE, hT⟩
      · show (del.toArray ++ out.toArray, some err, s') = _
        rw [he, List.append_toArray, hfull]
      · have : J s' (del ++ out) := hJ'
        rwa [hfull] at this
    | none =>
      show ∃ s'', Impl.runA f s' _ (del.toArray ++ out.toArray) = _ ∧ _
      rw [List.append_toArray]
      have hJ'' : J s' (del ++ out) := hJ'
      apply ih s' (del ++ out) _ hJ'' (sched_next_last sched hs)
      have hp := S.pref s' _ hJ''
      simp only [List.length_append] at hp ⊢
      rcases sched_head_pos_or sched hs with hpos | hlen
      · have hne : out ≠ [] := hNone rfl hpos
        have : 0 < out.length := List.length_pos_iff.mpr hne
        have := sched_next_length sched
        omega
      · have := sched_next_length_lt sched hlen
        omega

theorem run_correct (J : Impl.FState → List UInt8 → Prop) (full : List UInt8) (ferr : Impl.FErr)
    (S : StepSys J full ferr) (s0 : Impl.FState) (hJ : J s0 [])
    (sched : List Nat) (hs : ∀ n, sched.getLast? = some n → 0 < n)
    (fuel : Nat) (hf : full.length + sched.length + 2 ≤ fuel) :
    ∃ s', Impl.run fuel s0 sched = (full, some ferr, s') ∧ J s' full ∧ s'.err = some ferr ∧
      s'.toRead = [] := by
  obtain ⟨s', hrun, h1, h2, h3⟩ :=
    runA_correct J full ferr S fuel s0 [] sched hJ hs (by simpa using hf)
  refine ⟨s', ?_, h1, h2, h3⟩
  have hrun' : Impl.runA fuel s0 sched #[] = (full.toArray, some ferr, s') := hrun
  simp only [Impl.run, hrun']

end Compress.Proofs.FlateRefine

#print axioms Compress.Proofs.FlateRefine.run_correct
