/-
bzip2 move-to-front + RUNA/RUNB: decoder inverts encoder.
-/
import Compress.Bzip2.Stages

namespace Compress.Proofs.Bzip2Mtf
open Compress Compress.Bzip2

/-! ### accumulator-free encoder -/

def runPart (k : Nat) : List Nat := if k > 0 then runSyms 64 (k + 1) else []

def enc : List UInt8 → List UInt8 → Nat → List Nat
  | _, [], k => runPart k
  | dict, v :: vs, k =>
    let idx := (dict.findIdx? (· == v)).getD 0
    let dict' := moveFront dict idx
    if idx = 0 then enc dict' vs (k + 1)
    else runPart k ++ (idx + 1) :: enc dict' vs 0

theorem mtfEncode_eq : ∀ (vs dict : List UInt8) (k : Nat) (acc : List Nat),
    mtfEncode dict vs k acc = acc.reverse ++ enc dict vs k
  | [], dict, k, acc => by simp [mtfEncode, enc, runPart]
  | v :: vs, dict, k, acc => by
    simp only [mtfEncode, enc]
    split
    · exact mtfEncode_eq vs _ _ _
    · rw [mtfEncode_eq vs]
      unfold runPart
      split <;> simp

/-! ### dictionary -/

theorem findIdx_spec (dict : List UInt8) (v : UInt8) (hv : v ∈ dict) :
    ∃ i, dict.findIdx? (· == v) = some i ∧ i < dict.length ∧ dict[i]? = some v := by
  induction dict with
  | nil => simp at hv
  | cons d ds ih =>
    by_cases h : d = v
    · exact ⟨0, by simp [List.findIdx?_cons, h], by simp, by simp [h]⟩
    · have hv' : v ∈ ds := by
        rcases List.mem_cons.1 hv with h' | h'
        · exact absurd h'.symm h
        · exact h'
      obtain ⟨i, h1, h2, h3⟩ := ih hv'
      refine ⟨i + 1, ?_, by simp; omega, by simpa using h3⟩
      simp [List.findIdx?_cons, h, h1]

theorem moveFront_of_get (dict : List UInt8) (i : Nat) (v : UInt8) (h : dict[i]? = some v) :
    moveFront dict i = v :: (dict.take i ++ dict.drop (i + 1)) := by
  simp [moveFront, h]

theorem split_at (dict : List UInt8) (i : Nat) (v : UInt8) (h : dict[i]? = some v) :
    dict = dict.take i ++ v :: dict.drop (i + 1) := by
  have hi : i < dict.length := by
    rcases Nat.lt_or_ge i dict.length with h' | h'
    · exact h'
    · rw [List.getElem?_eq_none h'] at h; cases h
  have hv : dict[i] = v := by
    rw [List.getElem?_eq_getElem hi] at h; exact Option.some.inj h
  conv => lhs; rw [← List.take_append_drop i dict]
  rw [List.drop_eq_getElem_cons hi, hv]

theorem moveFront_perm (dict : List UInt8) (i : Nat) (v : UInt8) (h : dict[i]? = some v) :
    (moveFront dict i).Perm dict := by
  rw [moveFront_of_get dict i v h]
  conv => rhs; rw [split_at dict i v h]
  exact List.perm_middle.symm

theorem moveFront_zero (dict : List UInt8) (v : UInt8) (h : dict[0]? = some v) : moveFront dict 0 = dict := by
  rw [moveFront_of_get dict 0 v h]
  cases dict with
  | nil => simp at h
  | cons d ds => simp at h; simp [h]

theorem headD_of_get0 (dict : List UInt8) (v : UInt8) (h : dict[0]? = some v) : dict.headD 0 = v := by
  cases dict with
  | nil => simp at h
  | cons d ds => simp at h; simp [h]

/-! ### run symbols -/

theorem runSyms_lt_two : ∀ (fuel rc : Nat), ∀ s ∈ runSyms fuel rc, s < 2
  | 0, _, s, h => by simp [runSyms] at h
  | fuel+1, rc, s, h => by
    unfold runSyms at h
    split at h
    · simp at h
    · rcases List.mem_cons.1 h with h | h
      · omega
      · exact runSyms_lt_two fuel _ s h

theorem or_eq_add (run s cnt : Nat) (h : run < 2 ^ cnt) : run ||| (s * 2 ^ cnt) = s * 2 ^ cnt + run := by
  rw [Nat.or_comm, Nat.mul_comm]
  exact (Nat.two_pow_add_eq_or_of_lt h s).symm

/-- the decoder reads the run symbols of `rc` into `(cnt, run)`. -/
theorem decode_runSyms (blk : Nat) (dict : List UInt8) (rest : List Nat) (out : Array UInt8) :
    ∀ (fuel rc cnt run : Nat), 1 ≤ rc → rc < 2 ^ fuel → run < 2 ^ cnt → rc * 2 ^ cnt + run < 2 ^ 32 →
    ∃ cnt' run', mtfDecode blk dict (runSyms fuel rc ++ rest) cnt run out
        = mtfDecode blk dict rest cnt' run' out ∧ run' < 2 ^ cnt' ∧ 2 ^ cnt' + run' = rc * 2 ^ cnt + run ∧
        cnt ≤ cnt' ∧ (2 ≤ rc → 0 < cnt')
  | 0, rc, cnt, run, h1, h2, _, _ => by simp at h2; omega
  | fuel+1, rc, cnt, run, h1, h2, h3, h4 => by
    unfold runSyms
    by_cases hrc : rc ≤ 1
    · rw [if_pos hrc]
      have : rc = 1 := by omega
      subst this
      exact ⟨cnt, run, rfl, h3, by omega, Nat.le_refl _, by omega⟩
    · rw [if_neg hrc]
      have hs : rc % 2 < 2 := Nat.mod_lt _ (by decide)
      have hp : 0 < 2 ^ cnt := Nat.two_pow_pos _
      have e1 : 2 ^ (cnt + 1) = 2 * 2 ^ cnt := by rw [Nat.pow_succ, Nat.mul_comm]
      have hrcd : rc = 2 * (rc / 2) + rc % 2 := by omega
      have key : rc * 2 ^ cnt = (rc / 2) * (2 * 2 ^ cnt) + (rc % 2) * 2 ^ cnt := by
        conv => lhs; rw [hrcd]
        rw [Nat.add_mul, Nat.mul_comm 2 (rc / 2), Nat.mul_assoc]
      have hsp : rc % 2 * 2 ^ cnt ≤ 1 * 2 ^ cnt := Nat.mul_le_mul_right _ (by omega)
      have hq : 0 ≤ rc / 2 * (2 * 2 ^ cnt) := Nat.zero_le _
      have hlt : rc % 2 * 2 ^ cnt + run < 2 ^ 32 := by omega
      obtain ⟨cnt', run', h5, h6, h7, h8, _⟩ := decode_runSyms blk dict rest out fuel (rc / 2) (cnt + 1)
        (rc % 2 * 2 ^ cnt + run) (by omega) (by rw [Nat.pow_succ] at h2; omega) (by rw [e1]; omega) (by rw [e1]; omega)
      rw [e1] at h7
      refine ⟨cnt', run', ?_, h6, by omega, by omega, by omega⟩
      · rw [List.cons_append, mtfDecode, if_pos hs, or_eq_add _ _ _ h3, Nat.mod_eq_of_lt hlt]
        exact h5

/-! ### flushing a run -/

def flush (blk : Nat) (dict : List UInt8) (lastCnt lastRun : Nat) (vals : Array UInt8) : Option (Array UInt8) :=
  if lastCnt > 0 then
    let cnt := (2 ^ lastCnt % 2 ^ 32 ||| lastRun) - 1
    if lastCnt > 24 ∨ vals.size + cnt > blk then none
    else some (vals ++ Array.replicate cnt (dict.headD 0))
  else some vals

theorem mtfDecode_nil (blk : Nat) (dict : List UInt8) (cnt run : Nat) (out : Array UInt8) :
    mtfDecode blk dict [] cnt run out = flush blk dict cnt run out := by
  simp only [mtfDecode, flush]

theorem mtfDecode_sym (blk : Nat) (dict : List UInt8) (sym : Nat) (syms : List Nat) (cnt run : Nat)
    (out out' : Array UInt8) (v : UInt8) (hs : 2 ≤ sym) (hf : flush blk dict cnt run out = some out')
    (hv : dict[sym - 1]? = some v) (hb : out'.size < blk) :
    mtfDecode blk dict (sym :: syms) cnt run out
      = mtfDecode blk (moveFront dict (sym - 1)) syms 0 0 (out'.push v) := by
  rw [mtfDecode, if_neg (by omega)]
  simp only []
  unfold flush at hf
  simp only [] at hf
  rw [hf]
  simp only [hv]
  rw [if_neg (by omega)]

theorem decode_runPart (blk : Nat) (dict : List UInt8) (rest : List Nat) (out : Array UInt8) (k : Nat)
    (hk : k < 2 ^ 24) (hb : out.size + k ≤ blk) :
    ∃ cnt run, mtfDecode blk dict (runPart k ++ rest) 0 0 out = mtfDecode blk dict rest cnt run out ∧
      flush blk dict cnt run out = some (out ++ (List.replicate k (dict.headD 0)).toArray) := by
  unfold runPart
  by_cases h0 : k > 0
  · rw [if_pos h0]
    obtain ⟨cnt, run, h1, h2, h3, _, h5⟩ := decode_runSyms blk dict rest out 64 (k + 1) 0 0 (by omega)
      (by omega) (by simp) (by omega)
    refine ⟨cnt, run, h1, ?_⟩
    have hc : 0 < cnt := h5 (by omega)
    have hc24 : cnt ≤ 24 := by
      rcases Nat.lt_or_ge 24 cnt with h | h
      · have : 2 ^ 25 ≤ 2 ^ cnt := Nat.pow_le_pow_right (by decide) h
        omega
      · exact h
    have hlt : 2 ^ cnt < 2 ^ 32 := Nat.pow_lt_pow_right (by decide) (by omega)
    have hor : 2 ^ cnt ||| run = 2 ^ cnt + run := by
      have := or_eq_add run 1 cnt h2
      rw [Nat.one_mul] at this
      rw [Nat.or_comm, this]
    unfold flush
    rw [if_pos hc]
    simp only []
    rw [Nat.mod_eq_of_lt hlt, hor, h3]
    have e : (k + 1) * 2 ^ 0 + 0 - 1 = k := by simp
    rw [e, if_neg (by omega)]
    simp
  · have : k = 0 := by omega
    subst this
    refine ⟨0, 0, by simp, ?_⟩
    simp [flush]

/-! ### the round trip -/

theorem decode_enc (blk : Nat) : ∀ (vs dict : List UInt8) (k : Nat) (out : Array UInt8),
    (∀ v ∈ vs, v ∈ dict) → out.size + k + vs.length ≤ blk → k + vs.length < 2 ^ 24 →
    mtfDecode blk dict (enc dict vs k) 0 0 out
      = some (out ++ (List.replicate k (dict.headD 0) ++ vs).toArray)
  | [], dict, k, out, _, hb, hk => by
    obtain ⟨cnt, run, h1, h2⟩ := decode_runPart blk dict [] out k (by simpa using hk) (by simpa using hb)
    rw [List.append_nil] at h1
    rw [enc, h1, mtfDecode_nil, h2]
    simp
  | v :: vs, dict, k, out, hv, hb, hk => by
    obtain ⟨i, h1, h2, h3⟩ := findIdx_spec dict v (hv v (by simp))
    simp only [List.length_cons] at hb hk
    have hv' : ∀ w ∈ vs, w ∈ moveFront dict i := by
      intro w hw
      exact (moveFront_perm dict i v h3).mem_iff.2 (hv w (by simp [hw]))
    rw [enc]
    simp only [h1, Option.getD_some]
    by_cases hi : i = 0
    · subst hi
      rw [if_pos rfl]
      have ih := decode_enc blk vs (moveFront dict 0) (k + 1) out hv' (by omega) (by omega)
      rw [moveFront_zero dict v h3] at ih
      rw [moveFront_zero dict v h3, ih, headD_of_get0 dict v h3]
      congr 2
      rw [List.replicate_succ', List.append_assoc]
      rfl
    · rw [if_neg hi]
      obtain ⟨cnt, run, h4, h5⟩ := decode_runPart blk dict ((i + 1) :: enc (moveFront dict i) vs 0) out k
        (by omega) (by omega)
      rw [h4, mtfDecode_sym blk dict (i + 1) _ cnt run out _ v (by omega) h5 (by simpa using h3)
        (by simp; omega)]
      simp only [Nat.add_sub_cancel]
      rw [decode_enc blk vs (moveFront dict i) 0 _ hv' (by simp; omega) (by omega)]
      congr 1
      apply Array.ext'
      simp

theorem enc_in_range : ∀ (vs dict : List UInt8) (k : Nat),
    (∀ v ∈ vs, v ∈ dict) → (k > 0 → dict ≠ []) → ∀ s ∈ enc dict vs k, s ≤ dict.length
  | [], dict, k, _, hk, s, hs => by
    rw [enc] at hs
    unfold runPart at hs
    split at hs
    · have := runSyms_lt_two _ _ s hs
      have : 0 < dict.length := List.length_pos_iff.2 (hk (by assumption))
      omega
    · simp at hs
  | v :: vs, dict, k, hv, hk, s, hs => by
    obtain ⟨i, h1, h2, h3⟩ := findIdx_spec dict v (hv v (by simp))
    have hp := moveFront_perm dict i v h3
    have hv' : ∀ w ∈ vs, w ∈ moveFront dict i := by
      intro w hw
      exact hp.mem_iff.2 (hv w (by simp [hw]))
    have hne : moveFront dict i ≠ [] := by
      rw [moveFront_of_get dict i v h3]; simp
    rw [enc] at hs
    simp only [h1, Option.getD_some] at hs
    split at hs
    · have := enc_in_range vs (moveFront dict i) (k + 1) hv' (fun _ => hne) s hs
      rwa [hp.length_eq] at this
    · rcases List.mem_append.1 hs with hs | hs
      · unfold runPart at hs
        split at hs
        · have := runSyms_lt_two _ _ s hs
          omega
        · simp at hs
      · rcases List.mem_cons.1 hs with hs | hs
        · omega
        · have := enc_in_range vs (moveFront dict i) 0 hv' (by simp) s hs
          rwa [hp.length_eq] at this

theorem mtf_roundtrip (dict vals : List UInt8) (blk : Nat)
    (hv : ∀ v ∈ vals, v ∈ dict) (hb : vals.length ≤ blk) (hn : vals.length < 2 ^ 24) :
    mtfDecode blk dict (mtfEncode dict vals 0 []) 0 0 #[] = some vals.toArray := by
  rw [mtfEncode_eq, List.reverse_nil, List.nil_append,
    decode_enc blk vals dict 0 #[] hv (by simpa using hb) (by simpa using hn)]
  simp

theorem mtf_syms_in_range (dict vals : List UInt8) (hv : ∀ v ∈ vals, v ∈ dict) :
    ∀ s ∈ mtfEncode dict vals 0 [], s ≤ dict.length := by
  rw [mtfEncode_eq, List.reverse_nil, List.nil_append]
  exact enc_in_range vals dict 0 hv (by simp)

end Compress.Proofs.Bzip2Mtf
