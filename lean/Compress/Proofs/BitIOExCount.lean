/-
C11 helper: `offset + len(remaining source)` is conserved by every reader
operation (the byte offset counts exactly the bytes taken from the source).
-/
import Compress.Proofs.BitIOReaderBuf
import Compress.Proofs.BitIOExSym

namespace Compress.Proofs.BitIOExact
open Compress Compress.Prefix Compress.Proofs.BitIO

/-- bytes accounted for: taken (`offset`) plus still in the source. -/
def K (r : BR) : Int := r.offset + (r.src.data.length : Int)

theorem avail_le (s : Source) : s.avail ≤ s.data.length := by
  unfold Source.avail
  cases s.failAfter with
  | none => exact Nat.le_refl _
  | some k => exact Nat.min_le_right _ _

theorem K_flush (r : BR) : K r.flush.1 = K r := by
  unfold BR.flush
  by_cases hb : r.src.buffered? = true
  · simp only [hb, Bool.not_true, Bool.false_eq_true, if_false]
    have hav := avail_le r.src
    unfold Source.discard
    split
    · rename_i hle
      simp only [K, Source.consume, List.length_drop]; omega
    · simp only [K, Source.consume, List.length_drop]; omega
  · simp only [hb, Bool.not_false, if_true]

theorem bufferedAns_fst (s : Source) : s.bufferedAns.1 = s := by
  unfold Source.bufferedAns
  cases s.bufAdv <;> rfl

theorem peek_data (s : Source) (n : Nat) : (s.peek n).1.data = s.data := by
  unfold Source.peek
  split <;> rfl

/-- the state inside either outcome of the first half of the loop body. -/
def resState : Except (BR × Option RErr) BR → BR
  | .ok r => r
  | .error (r, _) => r

theorem K_step1 (nb : Nat) (r : BR) : K (resState (step1 nb r)) = K r := by
  unfold step1
  by_cases hbp : r.bufPeek.isEmpty
  · rw [if_pos hbp]
    have hf := K_flush { r with fedBits := r.numBits }
    have hK0 : K { r with fedBits := r.numBits } = K r := rfl
    rw [hK0] at hf
    obtain ⟨rf, e, hfl⟩ : ∃ rf e, ({ r with fedBits := r.numBits } : BR).flush = (rf, e) := ⟨_, _, rfl⟩
    rw [hfl] at hf
    simp only at hf
    simp only []
    rw [hfl]
    simp only []
    cases e with
    | some err => exact hf
    | none =>
      simp only []
      have hb := bufferedAns_fst rf.src
      obtain ⟨src1, b, hba⟩ : ∃ src1 b, rf.src.bufferedAns = (src1, b) := ⟨_, _, rfl⟩
      rw [hba] at hb ⊢
      simp only at hb
      subst hb
      simp only []
      have hp := peek_data rf.src (max ((nb + 7) / 8) b)
      obtain ⟨src', pk, perr, hpk⟩ : ∃ src' pk perr, rf.src.peek (max ((nb + 7) / 8) b) = (src', pk, perr) :=
        ⟨_, _, _, rfl⟩
      rw [hpk] at hp ⊢
      simp only at hp
      simp only []
      have hK : ∀ (r' : BR), r'.offset = rf.offset → r'.src = src' → K r' = K r := by
        intro r' h1 h2
        rw [← hf, K, K, h1, h2, hp]
      split
      · exact hK _ rfl rfl
      · split
        · split
          · exact hK _ rfl rfl
          · exact hK _ rfl rfl
        · exact hK _ rfl rfl
  · rw [if_neg hbp]; rfl

theorem K_pullLoop (nb : Nat) : ∀ (fuel : Nat) (r : BR), K (BR.pullLoop nb fuel r).1 = K r
  | 0, r => rfl
  | fuel+1, r => by
    rw [pullLoop_succ]
    have h1 := K_step1 nb r
    rcases hs : step1 nb r with ⟨r2, e⟩ | r2
    · rw [hs] at h1; exact h1
    · rw [hs] at h1
      simp only [resState] at h1 ⊢
      unfold step2
      simp only []
      split
      · exact h1
      · split
        · exact h1
        · rw [K_pullLoop nb fuel]; exact h1

theorem K_pullBits (r : BR) (nb : Nat) : K (r.pullBits nb).1 = K r := by
  unfold BR.pullBits
  split
  · rw [K_pullLoop]; rfl
  · obtain ⟨k, h1, h2, h3, _⟩ := pullBytes_track nb 9 r
    rw [K, h1, h3, K, List.length_drop]; omega

end Compress.Proofs.BitIOExact
