/-
Machine-checked sanity theorems about the Brotli specification
(`Compress.Brotli.Spec`).  Totality of `decode` is by construction (structural
recursion with explicit fuel, no `partial`).  The theorems below pin the
specification to a few facts of RFC 7932 and to a few concrete streams whose
decoding was cross-checked against libbrotlidec.  Statements about all
dictionaries / all trailing bytes are proved by reduction (`rfl`); concrete
streams are evaluated by the kernel (`decide +kernel`, no `native_decide`).
-/
import Compress.Brotli.Spec

namespace Compress.Brotli.Proofs
open Compress Compress.Brotli

/-! ### tables -/

/-- appendix A: the dictionary has 122,784 bytes. -/
theorem dictSize_eq : dictSize = 122784 := by decide

/-- section 8: words of length 24 are the last ones. -/
theorem doffset_last : doffset 24 + 24 * nwords 24 = 122784 := by decide

/-- appendix B: there are 121 transforms. -/
theorem transforms_size : transforms.size = 121 := by decide

/-- section 5: 24 insert length codes, the last one starts at 22594 and has 24 extra bits. -/
theorem insertRanges_last : insertRanges.size = 24 ∧ insertRanges[23]? = some ⟨22594, 24⟩ := by decide

/-- section 5: 24 copy length codes, the last one starts at 2118 and has 24 extra bits. -/
theorem copyRanges_last : copyRanges.size = 24 ∧ copyRanges[23]? = some ⟨2118, 24⟩ := by decide

/-- section 6: 26 block count codes, the last one starts at 16625 and has 24 extra bits. -/
theorem blockCountRanges_last :
    blockCountRanges.size = 26 ∧ blockCountRanges[25]? = some ⟨16625, 24⟩ := by decide

/-- section 7.1: the three context lookup tables have 256 entries. -/
theorem luts_size : lut0.size = 256 ∧ lut1.size = 256 ∧ lut2.size = 256 := by decide +kernel

/-- section 3.5: the fixed code for code length code lengths is complete:
    three 2-bit, one 3-bit and two 4-bit code words. -/
theorem codeLengthCodeLengthCode_shape :
    codeLengthCodeLengthCode.syms = #[0, 3, 4, 2, 1, 5] ∧
    codeLengthCodeLengthCode.count = #[0, 0, 3, 1, 2, 0, 0, 0, 0, 0, 0, 0, 0, 0, 0, 0] := by decide +kernel

/-! ### the empty input and the shortest stream -/

/-- the empty input is a truncated stream. -/
theorem decode_nil (dict : ByteArray) : decode dict [] = ⟨#[], .unexpectedEOF⟩ := by rfl

/-- the one-byte stream `06` (WBITS = 16, ISLAST, ISLASTEMPTY, zero padding) is the
    empty stream; 8 bits are consumed and trailing bytes are ignored. -/
theorem decode_lastEmpty (dict : ByteArray) (trailing : List UInt8) :
    decode dict (0x06 :: trailing) = ⟨#[], .ok 8⟩ := by rfl

/-- the reserved WBITS pattern `0010001` is rejected. -/
theorem decode_reservedWindowBits (dict : ByteArray) (trailing : List UInt8) :
    decode dict (0x11 :: trailing) = ⟨#[], .corrupt⟩ := by rfl

/-- non-zero padding after the last meta-block is rejected. -/
theorem decode_badPadding (dict : ByteArray) (trailing : List UInt8) :
    decode dict (0x16 :: trailing) = ⟨#[], .corrupt⟩ := by rfl

/-- a stream header alone is a truncated stream. -/
theorem decode_headerOnly (dict : ByteArray) : decode dict [0x0b] = ⟨#[], .unexpectedEOF⟩ := by rfl

/-! ### concrete streams (outputs as produced by libbrotlidec) -/

/-- a metadata meta-block (2 skipped bytes) followed by an empty last meta-block. -/
theorem decode_metadata :
    decode .empty [0xac, 0x00, 0xde, 0xad, 0x03] = ⟨#[], .ok 40⟩ := by decide +kernel

/-- libbrotlienc quality 0 on "abc": an uncompressed meta-block and an empty last one. -/
theorem decode_uncompressed :
    decode .empty [0x0b, 0x01, 0x80, 0x61, 0x62, 0x63, 0x03] = ⟨#[0x61, 0x62, 0x63], .ok 56⟩ := by
  decide +kernel

/-- ... and every proper prefix of that stream is a truncated stream delivering the bytes seen so far. -/
theorem decode_uncompressed_truncated :
    decode .empty [0x0b, 0x01, 0x80, 0x61, 0x62] = ⟨#[0x61, 0x62], .unexpectedEOF⟩ ∧
    decode .empty [0x0b, 0x01, 0x80, 0x61, 0x62, 0x63] = ⟨#[0x61, 0x62, 0x63], .unexpectedEOF⟩ := by
  decide +kernel

/-- libbrotlienc quality 5 on "abcabcabcabcabcabc": one compressed meta-block
    (simple prefix codes, three literals and an overlapping copy). -/
theorem decode_compressed_abc :
    decode .empty [0x1b, 0x11, 0x00, 0x00, 0x24, 0xc3, 0xc4, 0xc6, 0x42, 0x9b, 0x20, 0xd2]
      = ⟨#[97, 98, 99, 97, 98, 99, 97, 98, 99, 97, 98, 99, 97, 98, 99, 97, 98, 99], .ok 96⟩ := by
  decide +kernel

/-- libbrotlienc quality 5 on 31 times "a" and one "b". -/
theorem decode_compressed_run :
    decode .empty [0x1b, 0x1f, 0x00, 0x00, 0xa4, 0xc2, 0xc4, 0x4a, 0x91, 0x66, 0x02, 0x09, 0x02]
      = ⟨(Array.replicate 31 97).push 98, .ok 104⟩ := by
  decide +kernel

/-- libbrotlienc quality 11 on the same data (complex prefix codes). -/
theorem decode_compressed_run_q11 :
    decode .empty [0x1b, 0x1f, 0x00, 0xf8, 0xa5, 0xc2, 0xc4, 0x8a, 0x0c, 0x45, 0x02, 0x00, 0x85, 0x01]
      = ⟨(Array.replicate 31 97).push 98, .ok 112⟩ := by
  decide +kernel

/-- a static dictionary reference fails when no dictionary is supplied: libbrotlienc
    quality 11 on "time of the year and the life of the world" starts with a reference
    to the dictionary word "time" (with the real dictionary the stream decodes to that text). -/
theorem decode_needs_dictionary :
    decode .empty [0x1b, 0x29, 0x00, 0xe0, 0x25, 0x00, 0x5a, 0x90, 0x41, 0x0a, 0x01, 0x46, 0x37, 0x48,
                   0xb0, 0x9a, 0xe7, 0x97, 0x25, 0x10, 0xfa, 0x45, 0xb5] = ⟨#[], .corrupt⟩ := by
  decide +kernel

/-- without the dictionary every static dictionary reference is an error. -/
theorem dictionaryWord_empty : dictionaryWord .empty 4 0 = none := by decide +kernel

/-- word lengths outside 4..24 never denote a dictionary word. -/
theorem dictionaryWord_badLength (dict : ByteArray) (wordId : Nat) :
    dictionaryWord dict 3 wordId = none ∧ dictionaryWord dict 25 wordId = none := by
  constructor <;> rfl

end Compress.Brotli.Proofs
