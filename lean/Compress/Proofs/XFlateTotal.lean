/-
C08 — xflate.Reader returns from every call on ANY accepted byte string, not only on
well-formed layouts: the read loop ends within one iteration per segment whatever the
segments contain.  Statements first; helpers in `Compress/Proofs/XT*.lean`.
-/
import Compress.XFlate.ReaderSpec
import Compress.XFlate.Open
import Compress.Proofs.XFlateReader
import Compress.Proofs.XARecs
import Compress.Proofs.XTIndex
import Compress.Proofs.XTSeek
import Compress.Proofs.XTRead

namespace Compress.Proofs.XFlateTotal
open Compress Compress.XFlate

/-- what `openIndex` guarantees of the records it returns, whatever the stream holds. -/
structure RecsOK (recs : List Record) : Prop where
  nonempty : recs ≠ []
  rawSorted : XFlate.rawSorted recs = true
  rawNonneg : ∀ r ∈ recs, 0 ≤ r.raw

theorem open_recsOK (crc : List UInt8 → Nat) (stream : List UInt8) (r : OpenResult)
    (h : openIndex .fixed crc stream = .ok r) : RecsOK r.recs := by
  obtain ⟨recs0, foot, hr, _, _, hg, _⟩ := Compress.Proofs.XFlateAccept.open_recs crc stream r h
  have rk := XTIndex.rk_of_grow r.recs hg
  exact ⟨by rw [hr]; simp, rk.sorted, rk.nonneg⟩

/-- the part of the simulation invariant that does not depend on what the segments decode to.
    (Strengthened by `rel`: while no error is latched, the position is the raw start of the
    current segment plus what the inflater has delivered plus what `Read` still has to discard —
    or it lies beyond the end, on the tail segment.  This is what makes the `Seek(xr.offset)`
    after a verified chunk land on the *next* segment.  No assumption on `L.segs`.) -/
structure SInv (L : Layout) (s : RState) : Prop where
  segLe : s.seg ≤ L.recs.length
  riEq  : s.ri = min (s.seg + 1) L.recs.length
  chkEq : s.chk.rsize = (getRecords L.recs s.seg).2.raw - (getRecords L.recs s.seg).1.raw ∧
          s.chk.typ = (getRecords L.recs s.seg).2.typ
  discNonneg : 0 ≤ s.discard
  rel : s.err = none →
    s.offset = (getRecords L.recs s.seg).1.raw + s.zout + s.discard ∨
    (s.seg = L.recs.length ∧ L.endRaw < s.offset)

theorem RecsOK.rk {recs : List Record} (h : RecsOK recs) : XTIndex.Rk recs := ⟨h.rawSorted, h.rawNonneg⟩

theorem SInv.toT {L : Layout} {s : RState} (i : SInv L s) : XTSeek.TInv L s :=
  ⟨i.segLe, i.riEq, i.chkEq, i.discNonneg, i.rel⟩

theorem SInv.ofT {L : Layout} {s : RState} (i : XTSeek.TInv L s) : SInv L s :=
  ⟨i.segLe, i.riEq, i.chkEq, i.discNonneg, i.rel⟩

theorem opened_sinv (L : Layout) (h : RecsOK L.recs) : SInv L (opened .fixed L) :=
  SInv.ofT (XTSeek.tinv_opened h.rk)

theorem seek_sinv (L : Layout) (h : RecsOK L.recs) (s : RState) (inv : SInv L s) (off : Int) (wh : Nat) :
    SInv L (seek .fixed L s off wh).1 :=
  SInv.ofT (XTSeek.tinv_seek h.rk s inv.toT off wh)

/-- **Read always returns** — for every layout with sorted records (any segment contents: corrupt,
    truncated, wrong sizes, final blocks, …), every reachable state, every buffer length and every
    inflater behaviour, within the model's loop bound (one iteration per segment plus three); and the
    state it leaves is again reachable-shaped. -/
theorem read_returns (L : Layout) (h : RecsOK L.recs) (s : RState) (inv : SInv L s) (n : Nat) (adv : Adv) :
    ∃ s' data e, read .fixed L s n adv (readFuel L) = some (s', data, e) ∧ SInv L s' ∧ data.length ≤ n := by
  unfold Compress.XFlate.read
  by_cases herr : s.err ≠ none
  · rw [if_pos herr]
    exact ⟨s, [], s.err, rfl, inv, Nat.zero_le _⟩
  rw [if_neg herr]
  have herr' : s.err = none := Decidable.not_not.1 herr
  by_cases hn : n = 0
  · rw [if_pos ⟨rfl, hn⟩]
    exact ⟨s, [], none, rfl, inv, Nat.zero_le _⟩
  rw [if_neg (by intro h'; exact hn h'.2)]
  obtain ⟨inv1, hd1⟩ := XTRead.tinv_discard s inv.toT herr'
  simp only []
  by_cases herr1 : (discardStep L s).err ≠ none
  · rw [if_pos herr1]
    exact ⟨_, [], _, rfl, SInv.ofT inv1, Nat.zero_le _⟩
  rw [if_neg herr1]
  have herr1' : (discardStep L s).err = none := Decidable.not_not.1 herr1
  obtain ⟨s', data, h1, h2, h3⟩ :=
    XTRead.readLoop_returns h.rk n (by omega) (readFuel L) (discardStep L s) adv inv1 herr1' (hd1 herr1')
      (by unfold readFuel; omega)
  rw [h1]
  exact ⟨s', data, s'.err, rfl, SInv.ofT h2, h3⟩

/-- hence no sequence of Seek/Read calls on an opened reader ever hangs. -/
theorem never_hangs (L : Layout) (h : RecsOK L.recs) (ops : List ROp) :
    ROut.hang ∉ runOps .fixed L (opened .fixed L) ops := by
  have key : ∀ (ops : List ROp) (s : RState), SInv L s → ROut.hang ∉ runOps .fixed L s ops := by
    intro ops
    induction ops with
    | nil => intro s _; simp [runOps]
    | cons op ops ih =>
      intro s inv
      cases op with
      | seek off wh =>
        have hs := seek_sinv L h s inv off wh
        simp only [runOps, List.mem_cons, not_or]
        exact ⟨(fun hc => by cases hc), ih _ hs⟩
      | read n adv =>
        obtain ⟨s', data, e, h1, h2, _⟩ := read_returns L h s inv n adv
        simp only [runOps, h1, List.mem_cons, not_or]
        exact ⟨(fun hc => by cases hc), ih _ h2⟩
  exact key ops _ (opened_sinv L h)

end Compress.Proofs.XFlateTotal
