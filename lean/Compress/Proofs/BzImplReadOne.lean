/-
Helper theory for `BzImplRead.lean`: one `Read` against `beh`.
-/
import Compress.Proofs.BzImplReadLoop

namespace Compress.Proofs.BzImpl.RdAux
open Compress Compress.Bzip2 Compress.Prefix
open Compress.Bzip2.Impl (Err M State)

theorem crc_lt (v : Nat) (bs : List UInt8) : crcUpdateGo v bs < 2 ^ 32 := Bzip2Crc.rev32_lt _

theorem crc_append (v : Nat) (hv : v < 2 ^ 32) (a b : List UInt8) :
    crcUpdateGo (crcUpdateGo v a) b = crcUpdateGo v (a ++ b) := by
  rw [Bzip2Stages.crc_go_eq _ (crc_lt v a), Bzip2Stages.crc_go_eq v hv a, Bzip2Stages.crc_go_eq v hv (a ++ b),
    List.foldl_append, Nat.xor_assoc _ 0xffffffff 0xffffffff, Nat.xor_self, Nat.xor_zero]

theorem read_succ' (fuel n : Nat) (s : State) : Impl.read (fuel + 1) n s =
    let x := RleR.read n s.rle []
    let s1 := afterRle s x.1 x.2.2
    if x.2.1.length > 0 then
      ({ s1 with crc := crcUpdateGo s1.crc x.2.1, outOff := s1.outOff + x.2.1.length }, x.2.1, none)
    else if s1.err ≠ none ∨ n = 0 then (s1, [], s1.err)
    else
      match Impl.chunk s1 with
      | .ok s' => Impl.read fuel n { s' with inOff := Impl.offsetOf s'.total s'.bits }
      | .error (e, rest) => ({ s1 with err := some e, bits := rest, inOff := Impl.offsetOf s1.total rest }, [], some e) := rfl

/-- the invariant of reachable states: checksum register in range, and a latched error means the
    RLE1 stage has ended. -/
def ReadOK (s : State) : Prop := CrcOK s ∧ ∀ e, s.err = some e → ∃ st, Ended s.rle st

theorem afterRle_latched (s : State) (st : RleStatus) (e : Err) (he : s.err = some e) :
    afterRle s s.rle st = s := by
  obtain ⟨bits, total, err, level, rd, blk, endc, crc, rle, inOff, outOff⟩ := s
  simp only [] at he
  subst he
  simp [afterRle]

theorem stage_latched (s : State) (st : RleStatus) (e : Err) (h : Ended s.rle st) (he : s.err = some e) :
    stage s = s := by
  unfold stage
  rw [h.rleAll]
  simp only [List.length_nil, Nat.lt_irrefl, if_false]
  exact afterRle_latched s st e he

theorem latched (s : State) (st : RleStatus) (e : Err) (h : Ended s.rle st) (he : s.err = some e) :
    beh s = ([], e) ∧ ∀ m f, s.bits.length + 2 ≤ f → Impl.read f m s = (s, [], some e) := by
  constructor
  · unfold beh
    rw [drain_succ, stage_latched s st e h he, he, h.rleAll]
  · intro m f hf
    obtain ⟨f, rfl⟩ : ∃ f', f = f' + 1 := ⟨f - 1, by omega⟩
    rw [read_succ', h.read m]
    simp only [List.length_nil, Nat.lt_irrefl, if_false]
    rw [afterRle_latched s _ e he, he]
    simp

/-- `beh` of two states with the same first stage result (up to the bytes `o` already handed out). -/
theorem beh_of_stage_eq (s t : State) (o : List UInt8) (hb : t.bits = s.bits) (h1 : stage t = stage s)
    (h2 : (rleAll s.rle).2.1 = o ++ (rleAll t.rle).2.1) :
    (beh s).1 = o ++ (beh t).1 ∧ (beh s).2 = (beh t).2 := by
  unfold beh
  rw [hb, drain_succ, drain_succ, h1, h2]
  cases (stage s).err with
  | some e => exact ⟨rfl, rfl⟩
  | none =>
    simp only []
    cases Impl.chunk (stage s) with
    | error e => exact ⟨rfl, rfl⟩
    | ok s3 => simp

/-- the state `Read` leaves when the stage gave `out` with status `st`. -/
def after (s : State) (rle' : RleR) (out : List UInt8) (st : RleStatus) : State :=
  if out.length > 0 then
    { afterRle s rle' st with crc := crcUpdateGo s.crc out, outOff := s.outOff + out.length }
  else afterRle s rle' st

theorem after_rle (s : State) (rle' : RleR) (out : List UInt8) (st : RleStatus) :
    (after s rle' out st).rle = rle' := by
  unfold after afterRle; split <;> rfl

theorem after_bits (s : State) (rle' : RleR) (out : List UInt8) (st : RleStatus) :
    (after s rle' out st).bits = s.bits := by
  unfold after afterRle; split <;> rfl

theorem after_err (s : State) (rle' : RleR) (out : List UInt8) (st : RleStatus) :
    (after s rle' out st).err = if st = .corrupted ∧ s.err = none then some .corrupted else s.err := by
  unfold after afterRle; split <;> rfl

/-- the stage ended during this read. -/
theorem step_ended (s : State) (n : Nat) (rle' : RleR) (out : List UInt8) (st : RleStatus)
    (hx : RleR.read n s.rle [] = (rle', out, st)) (hne : st ≠ .ok) :
    Ended rle' st ∧ stage s = after s rle' out st ∧ stage (after s rle' out st) = after s rle' out st ∧
    (rleAll s.rle).2.1 = out ∧ (rleAll (after s rle' out st).rle).2.1 = [] := by
  have hA := rleAll_of_ended n s.rle (by rw [hx]; exact hne)
  rw [hx] at hA
  have hE : Ended rle' st := by
    have := read_ended n s.rle [] (by rw [hx]; exact hne)
    rw [hx] at this
    exact this
  refine ⟨hE, ?_, ?_, by rw [hA], by rw [after_rle, hE.rleAll]⟩
  · unfold stage after
    rw [hA]
    rfl
  · unfold stage
    rw [after_rle, hE.rleAll]
    simp only [List.length_nil, Nat.lt_irrefl, if_false]
    obtain ⟨bits, total, err, level, rd, blk, endc, crc, rle, inOff, outOff⟩ := s
    unfold after afterRle
    cases st with
    | ok => exact absurd rfl hne
    | done => cases out <;> cases err <;> simp
    | corrupted => cases out <;> cases err <;> simp

/-- the stage did not end and gave `out`. -/
theorem step_ok (s : State) (hc : CrcOK s) (n : Nat) (rle' : RleR) (out : List UInt8)
    (hx : RleR.read n s.rle [] = (rle', out, .ok)) :
    stage (after s rle' out .ok) = stage s ∧
    (rleAll s.rle).2.1 = out ++ (rleAll (after s rle' out .ok).rle).2.1 := by
  have hA := rleAll_of_ok n s.rle (by rw [hx])
  rw [hx] at hA
  simp only [] at hA
  refine ⟨?_, by rw [after_rle, hA]⟩
  unfold stage
  rw [after_rle, hA]
  generalize rleAll rle' = y
  obtain ⟨R, O1, ST⟩ := y
  obtain ⟨bits, total, err, level, rd, blk, endc, crc, rle, inOff, outOff⟩ := s
  unfold CrcOK at hc
  simp only [] at hc
  unfold after afterRle
  simp only []
  cases out with
  | nil => simp
  | cons a out =>
    cases O1 with
    | nil => simp
    | cons b O1 =>
      simp [crc_append _ hc, Nat.add_assoc]
      have : out.length + (1 + (O1.length + 1)) = out.length + (O1.length + 2) := by omega
      rw [this, if_pos (show 0 < out.length + (O1.length + 2) by omega)]

theorem after_noop (s : State) : after s s.rle [] .ok = s := by
  obtain ⟨bits, total, err, level, rd, blk, endc, crc, rle, inOff, outOff⟩ := s
  simp [after, afterRle]

theorem after_crc_nil (s : State) (rle' : RleR) (st : RleStatus) : (after s rle' [] st).crc = s.crc := by
  simp [after, afterRle]

theorem beh_stage_chunk (s s1 : State) (h1 : stage s = s1) (he : s1.err = none) (h0 : (rleAll s.rle).2.1 = []) :
    beh s = match Impl.chunk s1 with
      | .error (e, _) => ([], e)
      | .ok s3 => beh { s3 with inOff := Impl.offsetOf s3.total s3.bits } := by
  unfold beh
  rw [drain_succ, h1, he, h0]
  simp only []
  cases hch : Impl.chunk s1 with
  | error e => rfl
  | ok s3 =>
    simp only []
    have := (chunk_consumes _ _ hch).1
    rw [← h1, stage_bits] at this
    have hd := drain_fuel { s3 with inOff := Impl.offsetOf s3.total s3.bits } (s.bits.length + 1)
      (by simp only []; omega)
    rw [hd]
    simp [beh]

/-- the state `Read` leaves when the closure failed. -/
def errState (s1 : State) (e : Err) (rest : Bits) : State :=
  { s1 with err := some e, bits := rest, inOff := Impl.offsetOf s1.total rest }

theorem after_pos (s : State) (rle' : RleR) (out : List UInt8) (st : RleStatus) (hout : out.length > 0) :
    ({ afterRle s rle' st with crc := crcUpdateGo (afterRle s rle' st).crc out, outOff := (afterRle s rle' st).outOff + out.length } : State) = after s rle' out st := by
  unfold after; rw [if_pos hout]; rfl

/-- **one Read** (the statement of `read_spec` with the invariant `ReadOK` instead of `CrcOK`, and the
    bound on the remaining input only for a Read that did not fail). -/
theorem read_spec_inv (fuel : Nat) : ∀ (s : State) (n : Nat), ReadOK s → s.bits.length + 2 ≤ fuel →
    ReadOK (Impl.read fuel n s).1 ∧
    ((Impl.read fuel n s).2.2 = none → (Impl.read fuel n s).1.bits.length ≤ s.bits.length) ∧
    (beh s).1 = (Impl.read fuel n s).2.1 ++ (beh (Impl.read fuel n s).1).1 ∧
    (beh s).2 = (beh (Impl.read fuel n s).1).2 ∧
    (∀ e, (Impl.read fuel n s).2.2 = some e → (Impl.read fuel n s).2.1 = [] ∧
      beh (Impl.read fuel n s).1 = ([], e) ∧
      ∀ m f, (Impl.read fuel n s).1.bits.length + 2 ≤ f →
        Impl.read f m (Impl.read fuel n s).1 = ((Impl.read fuel n s).1, [], some e)) ∧
    ((Impl.read fuel n s).2.2 = none → 0 < n → (Impl.read fuel n s).2.1 ≠ []) := by
  induction fuel with
  | zero => intro s n _ h; omega
  | succ fuel ih =>
    intro s n hok hf
    obtain ⟨hcrc, hlat⟩ := hok
    rw [read_succ']
    generalize hx : RleR.read n s.rle [] = x
    obtain ⟨rle', out, st⟩ := x
    simp only []
    by_cases hout : out.length > 0
    · rw [if_pos hout]
      have hafter := after_pos s rle' out st hout
      rw [hafter]
      simp only []
      have herr : s.err = none := by
        cases he : s.err with
        | none => rfl
        | some e =>
          obtain ⟨st0, h0⟩ := hlat e he
          rw [h0.read n] at hx
          cases hx
          simp at hout
      have hbeh : (beh s).1 = out ++ (beh (after s rle' out st)).1 ∧ (beh s).2 = (beh (after s rle' out st)).2 := by
        by_cases hst : st = .ok
        · subst hst
          obtain ⟨h1, h2⟩ := step_ok s hcrc n rle' out hx
          exact beh_of_stage_eq s _ out (after_bits _ _ _ _) h1 h2
        · obtain ⟨hE, h1, h2, h3, h4⟩ := step_ended s n rle' out st hx hst
          exact beh_of_stage_eq s _ out (after_bits _ _ _ _) (by rw [h2, h1]) (by rw [h3, h4]; simp)
      refine ⟨⟨?_, ?_⟩, ?_, hbeh.1, hbeh.2, ?_, ?_⟩
      · unfold CrcOK after; rw [if_pos hout]; exact crc_lt _ _
      · intro e he
        rw [after_err, herr] at he
        rw [after_rle]
        by_cases hst : st = .ok
        · subst hst; simp at he
        · exact ⟨st, (step_ended s n rle' out st hx hst).1⟩
      · intro _; rw [after_bits]; exact Nat.le_refl _
      · intro e he; cases he
      · intro _ _ h; subst h; simp at hout
    · rw [if_neg hout]
      have hnil : out = [] := by
        cases out with
        | nil => rfl
        | cons a l => simp at hout
      subst hnil
      have hafter : afterRle s rle' st = after s rle' [] st := by unfold after; simp
      rw [hafter]
      have hn0 : st = .ok → n = 0 := by
        intro hst
        have := read_ok_length n s.rle [] (by rw [hx]; exact hst)
        rw [hx] at this
        simpa using this.symm
      by_cases hst : st = .ok
      · -- nothing was asked for
        have hn := hn0 hst
        subst hn; subst hst
        rw [read_zero] at hx
        cases hx
        rw [after_noop, if_pos (Or.inr rfl)]
        simp only []
        refine ⟨⟨hcrc, hlat⟩, fun _ => Nat.le_refl _, by simp, by trivial, ?_, fun _ h => absurd h (Nat.lt_irrefl 0)⟩
        intro e he
        obtain ⟨st0, h0⟩ := hlat e he
        exact ⟨by trivial, latched s st0 e h0 he⟩
      · obtain ⟨hE, h1, h2, h3, h4⟩ := step_ended s n rle' [] st hx hst
        have hn : n ≠ 0 := by
          intro hn; subst hn
          rw [read_zero] at hx
          cases hx
          exact hst rfl
        have hE' : Ended (after s rle' [] st).rle st := by rw [after_rle]; exact hE
        have hbeh := beh_of_stage_eq s (after s rle' [] st) [] (after_bits _ _ _ _) (by rw [h2, h1])
          (by rw [h3, h4]; simp)
        by_cases hl : (after s rle' [] st).err ≠ none ∨ n = 0
        · rw [if_pos hl]
          simp only []
          obtain ⟨e, he⟩ : ∃ e, (after s rle' [] st).err = some e := by
            rcases hl with hl | hl
            · cases h : (after s rle' [] st).err with
              | none => exact absurd h hl
              | some e => exact ⟨e, rfl⟩
            · exact absurd hl hn
          have hlt := latched _ st e hE' he
          refine ⟨⟨?_, fun _ _ => ⟨st, hE'⟩⟩, ?_, by simpa using hbeh.1, hbeh.2, ?_, ?_⟩
          · unfold CrcOK; rw [after_crc_nil]; exact hcrc
          · intro _; rw [after_bits]; exact Nat.le_refl _
          · intro e' he'
            rw [he] at he'
            cases he'
            exact ⟨by trivial, hlt⟩
          · intro h; rw [he] at h; cases h
        · rw [if_neg hl]
          have he : (after s rle' [] st).err = none := by
            cases h : (after s rle' [] st).err with
            | none => rfl
            | some e => exact absurd (Or.inl (by rw [h]; simp)) hl
          have hb := beh_stage_chunk s _ h1 he h3
          cases hch : Impl.chunk (after s rle' [] st) with
          | error er =>
            obtain ⟨e, rest⟩ := er
            rw [hch] at hb
            simp only [] at hb ⊢
            have hlt := latched (errState (after s rle' [] st) e rest) st e hE' rfl
            refine ⟨⟨?_, fun _ _ => ⟨st, hE'⟩⟩, ?_, ?_, ?_, ?_, ?_⟩
            · unfold CrcOK; simp only []; rw [after_crc_nil]; exact hcrc
            · intro h; cases h
            · rw [hb]
              show ([] : List UInt8) = [] ++ (beh (errState (after s rle' [] st) e rest)).1
              rw [hlt.1]
              rfl
            · rw [hb]
              show e = (beh (errState (after s rle' [] st) e rest)).2
              rw [hlt.1]
            · intro e' he'
              cases he'
              exact ⟨by trivial, hlt⟩
            · intro h; cases h
          | ok s' =>
            rw [hch] at hb
            simp only [] at hb ⊢
            obtain ⟨c1, c2, c3, c4⟩ := chunk_consumes _ _ hch
            rw [after_bits] at c1
            rw [he] at c3
            have hok' : ReadOK ({ s' with inOff := Impl.offsetOf s'.total s'.bits } : State) := by
              refine ⟨?_, ?_⟩
              · unfold CrcOK
                simp only []
                rcases c4 with c4 | c4
                · rw [c4]; decide
                · rw [c4, after_crc_nil]; exact hcrc
              · intro e h
                simp only [] at h
                rw [c3] at h
                cases h
            have := ih ({ s' with inOff := Impl.offsetOf s'.total s'.bits } : State) n hok'
              (by simp only []; omega)
            rw [hb]
            obtain ⟨i1, i2, i3, i4, i5, i6⟩ := this
            refine ⟨i1, ?_, i3, i4, i5, i6⟩
            intro h
            have := i2 h
            simp only [] at this
            omega

end Compress.Proofs.BzImpl.RdAux
