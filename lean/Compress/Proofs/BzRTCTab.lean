/-
bzip2 round trip: the C library's limit/base/perm decoding tables (`mkCTab`,
`CTab.decode`) decode the canonical code words assigned by `GeneratePrefixes`
(`codeWords`).
-/
import Compress.Proofs.BzRTBits
import Compress.Proofs.PrefixCodes
import Compress.Proofs.BzRTCTabTable

namespace Compress.Proofs.BzRT
open Compress Compress.Bzip2 Compress.Prefix
open Compress.Proofs.PrefixCodes

theorem go_succ (t : CTab) (numSyms fuel zn : Nat) (zvec : Int) (rest : Bits) :
    CTab.decode.go t numSyms (fuel + 1) zn zvec rest =
      if zn > maxPrefixBits then .bad
      else if zvec ≤ t.limit.getD zn 0 ∧ zn ≤ t.maxLen then
        if zvec - t.base.getD zn 0 < 0 ∨ zvec - t.base.getD zn 0 ≥ 258 then .bad
        else
          match t.perm[(zvec - t.base.getD zn 0).toNat]? with
          | some s => if s < numSyms then .sym s rest else .bad
          | none => .bad
      else if zn ≥ t.maxLen then .bad
      else
        match rest with
        | [] => .eof
        | b :: rest' =>
          CTab.decode.go t numSyms fuel (zn + 1) (zvec * 2 + (if b then 1 else 0)) rest' := rfl

theorem bitsBE_succ (v j : Nat) :
    bitsBE v (j + 1) = (v / 2 ^ j % 2 == 1) :: bitsBE v j := by
  unfold bitsBE
  rw [ofNat_add j 1 v]
  simp [Bits.ofNat]

theorem bitsBE_add (v d l : Nat) :
    bitsBE v (d + l) = bitsBE (v / 2 ^ d) l ++ bitsBE v d := by
  unfold bitsBE
  rw [ofNat_add d l v, List.reverse_append]

/-- the bit-by-bit extension loop of `GET_MTF_VAL` finds the symbol. -/
theorem go_decodes (t : CTab) (cs : List Code) (numSyms s L c r cnt : Nat) (rest : Bits)
    (hL : L ≤ maxPrefixBits) (hLmax : L ≤ t.maxLen)
    (hlimit : ∀ i, t.minLen ≤ i → i ≤ L → t.limit.getD i 0 = (endCode cs i : Int) - 1)
    (hbase : t.base.getD L 0 = (firstCode cs L : Int) - (cnt : Int))
    (hc : c = firstCode cs L + r) (hlt : c < endCode cs L)
    (hk : cnt + r < 258) (hperm : t.perm[cnt + r]? = some s) (hs : s < numSyms) :
    ∀ j, t.minLen + j ≤ L → ∀ fuel, j < fuel →
      CTab.decode.go t numSyms fuel (L - j) ((c / 2 ^ j : Nat) : Int) (bitsBE c j ++ rest) =
        .sym s rest := by
  intro j
  induction j with
  | zero =>
    intro hj fuel hf
    obtain ⟨f, rfl⟩ : ∃ f, fuel = f + 1 := ⟨fuel - 1, by omega⟩
    rw [go_succ]
    simp only [Nat.sub_zero, Nat.pow_zero, Nat.div_one]
    have hk' : (c : Int) - t.base.getD L 0 = ((cnt + r : Nat) : Int) := by
      rw [hbase, hc]; omega
    rw [if_neg (by omega), if_pos ⟨by rw [hlimit L (by omega) (Nat.le_refl _)]; omega, hLmax⟩, hk',
      if_neg (by omega), Int.toNat_natCast, hperm]
    simp only [if_pos hs]
    simp [bitsBE, Bits.ofNat]
  | succ j ih =>
    intro hj fuel hf
    obtain ⟨f, rfl⟩ : ∃ f, fuel = f + 1 := ⟨fuel - 1, by omega⟩
    rw [go_succ]
    have hge : endCode cs (L - (j + 1)) ≤ c / 2 ^ (j + 1) := by
      rw [Nat.le_div_iff_mul_le (Nat.two_pow_pos _)]
      have := endCode_mul_le_firstCode cs (L - (j + 1)) j
      have e : L - (j + 1) + j + 1 = L := by omega
      rw [e] at this
      omega
    rw [if_neg (by omega), if_neg (by
      rw [hlimit _ (by omega) (by omega)]
      intro h
      have := h.1
      omega), if_neg (by omega), bitsBE_succ]
    simp only [List.cons_append]
    have e1 : L - (j + 1) + 1 = L - j := by omega
    have e2 : ((c / 2 ^ (j + 1) : Nat) : Int) * 2 + (if (c / 2 ^ j % 2 == 1) = true then 1 else 0) =
        ((c / 2 ^ j : Nat) : Int) := by
      have : c / 2 ^ (j + 1) = c / 2 ^ j / 2 := by
        rw [Nat.pow_succ, Nat.div_div_eq_div_mul]
      rw [this]
      generalize c / 2 ^ j = x
      by_cases hx : x % 2 = 1
      · simp [hx]; omega
      · simp [hx]; omega
    rw [e1, e2]
    exact ih (by omega) f (by omega)

/-- every code word has the length the vector says, and the decoder built from
    the same length vector maps it back to its symbol, leaving the rest. -/
theorem decode_codeWord (lens : List Nat) (h2 : 2 ≤ lens.length) (hn : lens.length ≤ 258)
    (hl : ∀ l ∈ lens, 1 ≤ l ∧ l ≤ maxPrefixBits) (hk : KraftComplete lens)
    (s : Nat) (hs : s < lens.length) (rest : Bits) :
    ((codeWords lens).getD s []).length = lens.getD s 0 ∧
    (mkCTab lens).decode lens.length ((codeWords lens).getD s [] ++ rest) = .sym s rest := by
  obtain ⟨hv, hE, hrange, hword⟩ := codeSpec lens h2 hl hk
  rw [hword s hs]
  refine ⟨bitsBE_length _ _, ?_⟩
  -- names
  generalize hcs : codesOf lens = cs at *
  have hlens : cs.map (·.len) = lens := by rw [← hcs]; exact codesOf_lens lens
  generalize hLdef : lens.getD s 0 = L at *
  generalize hrdef : lenCount (cs.take s) L = r at *
  have hmem : L ∈ lens := by
    rw [← hLdef, List.getD_eq_getElem?_getD, List.getElem?_eq_getElem hs]
    exact List.getElem_mem hs
  have hmin := foldl_min_spec lens 20
  have hmax := foldl_max_spec lens 0 20 (by omega) (fun l hl' => (hl l hl').2)
  generalize hminLen : lens.foldl min 20 = minLen at *
  generalize hmaxLen : lens.foldl max 0 = maxLen at *
  have hminL := hmin.2 L hmem
  have hmaxL := hmax.2.2 L hmem
  have hminc : ∀ c ∈ cs, minLen ≤ c.len := by
    intro c hc
    apply hmin.2
    rw [← hlens]
    exact List.mem_map.2 ⟨c, hc, rfl⟩
  have h0 : firstCode cs minLen = 0 := firstCode_eq_zero cs minLen hminc
  have hsome : cs[s]? = some { sym := s, len := L } := by
    rw [← hcs, codesOf_getElem? lens s hs, hLdef]
  have hrlt : r < lenCount cs L := by
    have := lenCount_take_lt cs s _ hsome
    simp only at this
    rw [hrdef] at this
    exact this
  have hLmaxB : L ≤ maxB cs := hrange L hmem
  have hcpow : firstCode cs L + r < 2 ^ L := by
    have := endCode_le_pow cs (maxB cs) L hE hLmaxB
    unfold endCode at this
    omega
  have hcnt : cntLt lens L + r < 258 := by
    have h1 := cntLt_succ lens L
    have h3 := cntLt_le lens (L + 1)
    rw [lenCount_eq_cntEq, hlens] at hrlt
    omega
  have hperm := permOf_getElem? lens minLen maxLen hmin.2 hmax.2.2 s hs
  rw [hcs, hLdef, hrdef] at hperm
  -- the table
  obtain ⟨j0, hj0⟩ : ∃ j0, L = minLen + j0 := ⟨L - minLen, by omega⟩
  have hgo := go_decodes (mkCTab lens) cs lens.length s L (firstCode cs L + r) r (cntLt lens L) rest
    (hl L hmem).2
    (by rw [mkCTab_eq, hminLen, hmaxLen]; exact hmaxL)
    (by
      intro i hi1 hi2
      rw [mkCTab_eq, hminLen, hmaxLen] at hi1 ⊢
      simp only at hi1 ⊢
      rw [← hlens]
      exact limitOf_getD cs minLen maxLen h0 (by omega) hmax.1 i hi1 (by omega))
    (by
      rw [mkCTab_eq, hminLen, hmaxLen]
      simp only
      have := baseOf_getD cs minLen maxLen h0 hminc (by omega) hmax.1 L hminL hmaxL
      rw [hlens] at this
      exact this)
    rfl (by unfold endCode; omega) hcnt
    (by
      rw [mkCTab_eq, hminLen, hmaxLen]
      simp only [List.getElem?_toArray]
      exact hperm)
    hs j0 (by rw [mkCTab_eq, hminLen]; simp only; omega) (maxPrefixBits + 2)
    (by have := (hl L hmem).2; omega)
  unfold CTab.decode
  have hread : readBE (mkCTab lens).minLen (bitsBE (firstCode cs L + r) L ++ rest) =
      some ((firstCode cs L + r) / 2 ^ j0, bitsBE (firstCode cs L + r) j0 ++ rest) := by
    have hm : (mkCTab lens).minLen = minLen := by rw [mkCTab_eq, hminLen]
    rw [hm]
    have hsplit : ∀ c, bitsBE c L = bitsBE (c / 2 ^ j0) minLen ++ bitsBE c j0 := by
      intro c; rw [hj0, Nat.add_comm minLen j0, bitsBE_add]
    rw [hsplit, List.append_assoc]
    apply readBE_bitsBE
    rw [Nat.div_lt_iff_lt_mul (Nat.two_pow_pos _), ← Nat.pow_add, ← hj0]
    exact hcpow
  rw [hread]
  simp only
  have hz : L - j0 = (mkCTab lens).minLen := by rw [mkCTab_eq, hminLen]; simp only; omega
  rw [hz] at hgo
  exact hgo

end Compress.Proofs.BzRT
