/-
Prefix-monotonicity of the Brotli specification decoder: the command loop.  Its fuel is
`MLEN + unread bits + 1`, which differs between the runs compared, so it is shown that
every command either consumes a bit or produces a byte of the meta-block: the fuel never
runs out, and any sufficient amount of it gives the same result.
-/
import Compress.Proofs.BrCutCmdStep
import Compress.Proofs.BrCutDict

namespace Compress.Proofs.BrCut
open Compress Compress.Brotli

/-- the last distances never exceed the largest distance allowed so far by more than 16. -/
def DistInv (ws : Nat) (c : Cmd) (s : St) : Prop :=
  c.d1 ≤ min s.out.size ws + 16 ∧ c.d2 ≤ min s.out.size ws + 16 ∧
  c.d3 ≤ min s.out.size ws + 16 ∧ c.d4 ≤ min s.out.size ws + 16

def CmdPost (ws : Nat) (c : Cmd) (s : St) : Cmd ⊕ Cmd → St → Prop
  | .inl c', s1 => DistInv ws c' s1
  | .inr c', s1 => DistInv ws c' s1 ∧ c'.mlen + s1.bits.length < c.mlen + s.bits.length

theorem cmdStep_pm (dict : ByteArray) (ws : Nat) (h : Header) (c : Cmd) (s : St)
    (hnd : h.ndirect ≤ 120) (hinv : DistInv ws c s) :
    PMAt (cmdStep dict ws h c) s (CmdPost ws c s) := by
  unfold cmdStep
  refine PMAt.bind (nextInBlock_pm _ s) (fun cmdB s1 _ _ m1 => ?_)
  refine PMAt.bind (readSymbol_pm _ s1) (fun sym s2 _ _ m2 => ?_)
  split
  rename_i insBase copyBase iz _
  refine PMAt.bind (readRange_pm _ _ s2) (fun insertLen s3 _ _ m3 => ?_)
  refine PMAt.bind (readRange_pm _ _ s3) (fun copyLen s4 _ hcl m4 => ?_)
  split
  · exact PMAt.of_not_ok (fun a s' => bind_corrupt_not_ok _ _ _ _)
  rename_i hins
  refine PMAt.bind (readLiterals_pm _ _ _ s4) (fun litB s5 _ _ m5 => ?_)
  have m05 : Mono s s5 := m1.trans (m2.trans (m3.trans (m4.trans m5)))
  extract_lets c1 c2 jp
  split
  · refine PMAt.pure ?_
    show DistInv ws _ s5
    have := m05.size_le
    unfold DistInv at hinv ⊢
    simp only [c1]
    omega
  rename_i hins2
  -- the part after the distance has been read
  have hjp : ∀ (x : Cmd × Nat × Option Nat) (s6 : St), Mono s5 s6 →
      (∃ distB, x.1 = { c2 with distB := distB }) →
      (s6.bits.length < s5.bits.length ∨ ∀ d, x.2.2 = some d → ZeroBitDist h x.1 d) →
      PMAt (jp x) s6 (CmdPost ws c s) := by
    intro x s6 m6 hx hz
    obtain ⟨c3, dsym, dist?⟩ := x
    obtain ⟨distB, hc3⟩ := hx
    dsimp only at hc3 hz
    dsimp -zeta only [jp]
    split
    · exact PMAt.corrupt
    rename_i dist
    refine PMAt.bind (outputSize_pm s6) (fun sz s7 _ hsz _ => ?_)
    obtain ⟨hsz1, hsz2⟩ := hsz
    subst s7 sz
    extract_lets maxDist c4 jp2
    have hjp2 : ∀ (produced : Nat) (s8 : St), Mono s6 s8 →
        (1 ≤ produced ∨ s6.bits.length < s5.bits.length) →
        PMAt (jp2 produced) s8 (CmdPost ws c s) := by
      intro produced s8 m8 hp
      dsimp -zeta only [jp2]
      have m08 : Mono s s8 := m05.trans (m6.trans m8)
      have hc4m : c4.mlen = c.mlen - insertLen := by
        simp only [c4]
        split <;> simp [hc3, c2, c1]
      have hc4d : DistInv ws c4 s8 := by
        have h1 := m08.size_le
        have h2 := m8.size_le
        unfold DistInv at hinv ⊢
        simp only [c4]
        split
        · simp only [hc3, c2, c1]
          omega
        · rename_i hd
          simp only [hc3, c2, c1]
          simp only [maxDist] at hd
          omega
      split
      · split
        · exact PMAt.corrupt
        · refine PMAt.pure ?_
          exact hc4d
      · refine PMAt.pure ?_
        refine ⟨hc4d, ?_⟩
        show c4.mlen - produced + s8.bits.length < c.mlen + s.bits.length
        have h1 := m05.len_le
        have h2 := m6.len_le
        have h3 := m8.len_le
        simp only [c1] at hins2
        omega
    split
    · rename_i hle
      refine PMAt.bind (copyBack_pm dist copyLen s6) (fun _ s8 _ _ m8 => ?_)
      refine PMAt.bind (PMAt.pure (Q := fun p s' => p = copyLen ∧ s' = s8) ⟨rfl, rfl⟩)
        (fun p s9 _ hp _ => ?_)
      obtain ⟨rfl, rfl⟩ := hp
      refine hjp2 _ _ m8 (Or.inl ?_)
      obtain ⟨r, hr, hb⟩ := hcl
      have := copyRanges_base_ge hr
      omega
    · rename_i hgt
      split
      · exact PMAt.of_not_ok (fun a s' hr => by
          obtain ⟨_, _, e1, _⟩ := bind_ok hr
          cases e1)
      · rename_i w hw
        refine PMAt.bind (emitAll_pm w s6) (fun _ s8 _ _ m8 => ?_)
        refine PMAt.bind (PMAt.pure (Q := fun p s' => p = w.length ∧ s' = s8) ⟨rfl, rfl⟩)
          (fun p s9 _ hp _ => ?_)
        obtain ⟨rfl, rfl⟩ := hp
        refine hjp2 _ _ m8 ?_
        rcases hz with hz | hz
        · exact Or.inr hz
        · refine Or.inl (dictionaryWord_nonempty hw ?_)
          have hzd := hz dist rfl
          unfold ZeroBitDist at hzd
          have h1 := m05.size_le
          have h2 := m6.size_le
          unfold DistInv at hinv
          simp only [hc3, c2, c1] at hzd
          simp only [maxDist] at hgt ⊢
          omega
  split
  · refine PMAt.bind (PMAt.pure (Q := fun p s' => p = (c2, 0, some c2.d1) ∧ s' = s5) ⟨rfl, rfl⟩)
      (fun p s6 _ hp _ => ?_)
    obtain ⟨rfl, rfl⟩ := hp
    refine hjp (c2, 0, some c2.d1) _ (Mono.refl _) ⟨c2.distB, rfl⟩ (Or.inr (fun d hd => ?_))
    cases hd
    exact Or.inl (Nat.le_add_right _ _)
  · refine PMAt.bind (nextInBlock_pm _ s5) (fun distB s6 _ _ m6 => ?_)
    extract_lets c3 tree
    refine PMAt.bind (readSymbol_pm _ s6) (fun dsym s7 _ _ m7 => ?_)
    refine PMAt.bind (readDistance_pm h c3 dsym s7) (fun d s8 _ hd m8 => ?_)
    refine PMAt.bind (PMAt.pure (Q := fun p s' => p = (c3, dsym, d) ∧ s' = s8) ⟨rfl, rfl⟩)
      (fun p s9 _ hp _ => ?_)
    obtain ⟨rfl, rfl⟩ := hp
    refine hjp (c3, dsym, d) _ (m6.trans (m7.trans m8)) ⟨distB, rfl⟩ ?_
    rcases hd with hd | hd
    · have h1 := m6.len_le
      have h2 := m7.len_le
      exact Or.inl (by omega)
    · exact Or.inr hd

theorem DistInv.setBits {ws : Nat} {c : Cmd} {s : St} (h : DistInv ws c s) (b : Bits) :
    DistInv ws c { s with bits := b } := h

/-- any amount of fuel above `MLEN + unread bits` gives the same result. -/
theorem readCommands_fuel (dict : ByteArray) (ws : Nat) (h : Header) (hnd : h.ndirect ≤ 120) :
    ∀ (f f' : Nat) (c : Cmd) (s : St), DistInv ws c s →
      c.mlen + s.bits.length < f → c.mlen + s.bits.length < f' →
      readCommands dict ws h f c s = readCommands dict ws h f' c s := by
  intro f
  induction f with
  | zero => intro f' c s _ h1 _; omega
  | succ f ih =>
    intro f' c s hinv h1 h2
    cases f' with
    | zero => omega
    | succ f' =>
      rw [readCommands_succ, readCommands_succ, bind_apply, bind_apply]
      cases hr : cmdStep dict ws h c s with
      | mk r s1 =>
        cases r with
        | error e => rfl
        | ok a =>
          have hq := (cmdStep_pm dict ws h c s hnd hinv).post hr
          cases a with
          | inl c' => rfl
          | inr c' =>
            obtain ⟨hi, hp⟩ := hq
            exact ih f' c' s1 hi (by omega) (by omega)

/-- the command loop with the fuel the specification gives it. -/
def readCommandsAuto (dict : ByteArray) (ws : Nat) (h : Header) (c : Cmd) : Dec Cmd :=
  fun s => readCommands dict ws h (c.mlen + s.bits.length + 1) c s

def cmdContAuto (dict : ByteArray) (ws : Nat) (h : Header) : Cmd ⊕ Cmd → Dec Cmd
  | .inl c => pure c
  | .inr c => readCommandsAuto dict ws h c

theorem readCommandsAuto_unfold (dict : ByteArray) (ws : Nat) (h : Header) (hnd : h.ndirect ≤ 120)
    (c : Cmd) (s : St) (hinv : DistInv ws c s) :
    readCommandsAuto dict ws h c s = (cmdStep dict ws h c >>= cmdContAuto dict ws h) s := by
  unfold readCommandsAuto
  rw [readCommands_succ, bind_apply, bind_apply]
  cases hr : cmdStep dict ws h c s with
  | mk r s1 =>
    cases r with
    | error e => rfl
    | ok a =>
      have hq := (cmdStep_pm dict ws h c s hnd hinv).post hr
      cases a with
      | inl c' => rfl
      | inr c' =>
        obtain ⟨hi, hp⟩ := hq
        exact readCommands_fuel dict ws h hnd _ _ c' s1 hi (by omega) (by omega)

theorem readCommandsAuto_pm (dict : ByteArray) (ws : Nat) (h : Header) (hnd : h.ndirect ≤ 120) :
    ∀ (n : Nat) (c : Cmd) (s : St), c.mlen + s.bits.length ≤ n → DistInv ws c s →
      PMAt (readCommandsAuto dict ws h c) s (fun c' s1 => DistInv ws c' s1) := by
  intro n
  induction n with
  | zero =>
    intro c s hn hinv
    refine PMAt.congr (y := cmdStep dict ws h c >>= cmdContAuto dict ws h) ?_
      (fun b => readCommandsAuto_unfold dict ws h hnd c _ (hinv.setBits b))
    refine PMAt.bind (cmdStep_pm dict ws h c s hnd hinv) (fun r s1 _ hq _ => ?_)
    cases r with
    | inl c' => exact PMAt.pure hq
    | inr c' => have := hq.2; omega
  | succ n ih =>
    intro c s hn hinv
    refine PMAt.congr (y := cmdStep dict ws h c >>= cmdContAuto dict ws h) ?_
      (fun b => readCommandsAuto_unfold dict ws h hnd c _ (hinv.setBits b))
    refine PMAt.bind (cmdStep_pm dict ws h c s hnd hinv) (fun r s1 _ hq _ => ?_)
    cases r with
    | inl c' => exact PMAt.pure hq
    | inr c' => exact ih c' s1 (by have := hq.2; omega) hq.1

end Compress.Proofs.BrCut
