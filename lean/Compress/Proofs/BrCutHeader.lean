/-
Prefix-monotonicity of the Brotli specification decoder: stream and meta-block header
elements, block switches, context maps, literals, distances.
-/
import Compress.Proofs.BrCutPrims

namespace Compress.Proofs.BrCut
open Compress Compress.Brotli

theorem readWindowBits_pm (s : St) : PMAt readWindowBits s (fun _ _ => True) := by
  unfold readWindowBits
  pm_walk

macro_rules | `(tactic| pm_leaf) => `(tactic| apply readWindowBits_pm)

theorem readCount256_pm (s : St) : PMAt readCount256 s (fun _ _ => True) := by
  unfold readCount256
  pm_walk

macro_rules | `(tactic| pm_leaf) => `(tactic| apply readCount256_pm)

theorem readRange_pm (tbl : Array Range) (code : Nat) (s : St) :
    PMAt (readRange tbl code) s (fun v _ => ∃ r, tbl[code]? = some r ∧ r.base ≤ v) := by
  unfold readRange
  split
  · exact PMAt.corrupt
  · rename_i r hr
    refine PMAt.bind (readBits_pm _ s) (fun e s1 _ _ _ => ?_)
    exact PMAt.pure ⟨r, hr, Nat.le_add_right _ _⟩

macro_rules | `(tactic| pm_leaf) => `(tactic| apply readRange_pm)

theorem readBlocksHeader_pm (s : St) : PMAt readBlocksHeader s (fun _ _ => True) := by
  unfold readBlocksHeader
  pm_walk

macro_rules | `(tactic| pm_leaf) => `(tactic| apply readBlocksHeader_pm)

theorem readBlockSwitch_pm (b : Blocks) (s : St) : PMAt (readBlockSwitch b) s (fun _ _ => True) := by
  unfold readBlockSwitch
  pm_walk

macro_rules | `(tactic| pm_leaf) => `(tactic| apply readBlockSwitch_pm)

theorem nextInBlock_pm (b : Blocks) (s : St) : PMAt (nextInBlock b) s (fun _ _ => True) := by
  unfold nextInBlock
  pm_walk

macro_rules | `(tactic| pm_leaf) => `(tactic| apply nextInBlock_pm)

theorem readContextMapEntries_pm (code : PrefixCode) (rleMax size fuel : Nat) (acc : List Nat) (n : Nat)
    (s : St) : PMAt (readContextMapEntries code rleMax size fuel acc n) s (fun _ _ => True) := by
  induction fuel generalizing acc n s with
  | zero => exact PMAt.corrupt
  | succ fuel ih =>
    rw [readContextMapEntries]
    pm_walk

macro_rules | `(tactic| pm_leaf) => `(tactic| apply readContextMapEntries_pm)

theorem readContextMap_pm (size : Nat) (s : St) : PMAt (readContextMap size) s (fun _ _ => True) := by
  unfold readContextMap
  pm_walk

macro_rules | `(tactic| pm_leaf) => `(tactic| apply readContextMap_pm)

theorem readContextModes_pm (n : Nat) (acc : Array Nat) (s : St) :
    PMAt (readContextModes n acc) s (fun _ _ => True) := by
  induction n generalizing acc s with
  | zero => exact PMAt.pure trivial
  | succ n ih =>
    rw [readContextModes]
    pm_walk

macro_rules | `(tactic| pm_leaf) => `(tactic| apply readContextModes_pm)

theorem copyBytes_pm (n : Nat) (s : St) : PMAt (copyBytes n) s (fun _ _ => True) := by
  induction n generalizing s with
  | zero => exact PMAt.pure trivial
  | succ n ih =>
    rw [copyBytes]
    pm_walk

macro_rules | `(tactic| pm_leaf) => `(tactic| apply copyBytes_pm)

theorem skipBytes_pm (n : Nat) (s : St) : PMAt (skipBytes n) s (fun _ s1 => s1.used % 8 = s.used % 8) := by
  induction n generalizing s with
  | zero => exact PMAt.pure rfl
  | succ n ih =>
    rw [skipBytes]
    refine PMAt.bind (readBits_pm 8 s) (fun _ s1 _ h1 hm => ?_)
    refine (ih s1).weaken (fun _ s2 _ h2 _ => ?_)
    have := hm.used_eq
    omega

macro_rules | `(tactic| pm_leaf) => `(tactic| apply skipBytes_pm)

theorem readLengthPieces_pm (width minPieces total n : Nat) (s : St) :
    PMAt (readLengthPieces width minPieces total n) s (fun _ _ => True) := by
  induction n generalizing s with
  | zero => exact PMAt.pure trivial
  | succ n ih =>
    rw [readLengthPieces]
    pm_walk

macro_rules | `(tactic| pm_leaf) => `(tactic| apply readLengthPieces_pm)

theorem shiftLeft_le_120 {a b : Nat} (ha : a < 2 ^ 4) (hb : b < 2 ^ 2) : a <<< b ≤ 120 := by
  rw [Nat.shiftLeft_eq]
  have h4 : b = 0 ∨ b = 1 ∨ b = 2 ∨ b = 3 := by omega
  rcases h4 with rfl | rfl | rfl | rfl <;> omega

theorem readCompressedHeader_pm (s : St) :
    PMAt readCompressedHeader s (fun r _ => r.2.2.2.ndirect ≤ 120) := by
  unfold readCompressedHeader
  refine PMAt.bind (readBlocksHeader_pm _) (fun litB s1 _ _ _ => ?_)
  refine PMAt.bind (readBlocksHeader_pm _) (fun cmdB s2 _ _ _ => ?_)
  refine PMAt.bind (readBlocksHeader_pm _) (fun distB s3 _ _ _ => ?_)
  refine PMAt.bind (readBits_pm _ _) (fun np s4 _ hnp _ => ?_)
  refine PMAt.bind (readBits_pm _ _) (fun nd s5 _ hnd _ => ?_)
  pm_walk
  exact shiftLeft_le_120 hnd.1 hnp.1

macro_rules | `(tactic| pm_leaf) => `(tactic| apply readCompressedHeader_pm)

theorem readLiterals_pm (h : Header) (n : Nat) (litB : Blocks) (s : St) :
    PMAt (readLiterals h n litB) s (fun _ _ => True) := by
  induction n generalizing litB s with
  | zero => exact PMAt.pure trivial
  | succ n ih =>
    rw [readLiterals]
    pm_walk

macro_rules | `(tactic| pm_leaf) => `(tactic| apply readLiterals_pm)

/-- a distance that can be coded without reading a bit is one of the last distances, a
    neighbour of one of the last two, or a direct distance. -/
def ZeroBitDist (h : Header) (c : Cmd) (d : Nat) : Prop :=
  d ≤ c.d1 + 3 ∨ d ≤ c.d2 + 3 ∨ d ≤ c.d3 ∨ d ≤ c.d4 ∨ d ≤ h.ndirect

theorem readDistance_pm (h : Header) (c : Cmd) (sym : Nat) (s : St) :
    PMAt (readDistance h c sym) s
      (fun r s1 => s1.bits.length < s.bits.length ∨ ∀ d, r = some d → ZeroBitDist h c d) := by
  unfold readDistance
  dsimp only
  split
  all_goals try (refine PMAt.pure (Or.inr (fun d hd => ?_)); unfold ZeroBitDist; first
    | (cases hd; omega)
    | (split at hd <;> cases hd <;> omega))
  split
  · refine PMAt.pure (Or.inr (fun d hd => ?_))
    unfold ZeroBitDist
    cases hd; omega
  · refine PMAt.bind (readBits_pm _ s) (fun e s1 _ he _ => ?_)
    refine PMAt.pure (Or.inl ?_)
    have h2 := he.2
    generalize ((sym - h.ndirect - 16) >>> (h.npostfix + 1)) = k at h2
    omega

macro_rules | `(tactic| pm_leaf) => `(tactic| apply readDistance_pm)

end Compress.Proofs.BrCut
