/-
Pure list facts about the "rank" of a position in a stable counting sort.
-/
import Mathlib.Data.List.Perm.Subperm
import Mathlib.Data.List.Nodup

namespace Compress.Proofs.Bzip2BWT

/-- number of keys smaller than `b`. -/
def cntLt (K : List Nat) (b : Nat) : Nat := K.countP (fun v => decide (v < b))
/-- number of keys equal to `b`. -/
def cntEq (K : List Nat) (b : Nat) : Nat := K.countP (fun v => decide (v = b))

/-- destination of position `i` in the stable counting sort of `K`. -/
def rank (K : List Nat) (i : Nat) : Nat := cntLt K (K.getD i 0) + cntEq (K.take i) (K.getD i 0)

theorem cntLt_succ (K : List Nat) (b : Nat) : cntLt K (b + 1) = cntLt K b + cntEq K b := by
  induction K with
  | nil => simp [cntLt, cntEq]
  | cons v K ih =>
    simp only [cntLt, cntEq, List.countP_cons] at ih ⊢
    rw [ih]
    by_cases h1 : v < b
    · have : v < b + 1 := by omega
      have : v ≠ b := by omega
      simp [*]; omega
    · by_cases h2 : v = b
      · subst h2; simp; omega
      · have : ¬ v < b + 1 := by omega
        simp [*]

theorem cntLt_mono (K : List Nat) {b c : Nat} (h : b ≤ c) : cntLt K b ≤ cntLt K c := by
  unfold cntLt
  apply List.countP_mono_left
  intro x _ hx
  simp only [decide_eq_true_eq] at hx ⊢
  omega

theorem cntEq_take_mono (K : List Nat) (c : Nat) {i j : Nat} (h : i ≤ j) :
    cntEq (K.take i) c ≤ cntEq (K.take j) c := by
  unfold cntEq
  exact (List.take_sublist_take_left h).countP_le

theorem cntEq_take_le (K : List Nat) (c : Nat) (i : Nat) : cntEq (K.take i) c ≤ cntEq K c := by
  unfold cntEq
  exact (List.take_sublist i K).countP_le

theorem cntEq_take_succ (K : List Nat) (c : Nat) {i : Nat} (h : i < K.length) :
    cntEq (K.take (i + 1)) c = cntEq (K.take i) c + (if K.getD i 0 = c then 1 else 0) := by
  unfold cntEq
  rw [List.take_succ_eq_append_getElem h, List.countP_append]
  simp [List.getD_eq_getElem?_getD, List.getElem?_eq_getElem h, List.countP_cons]

theorem cntEq_take_lt (K : List Nat) {i : Nat} (h : i < K.length) :
    cntEq (K.take i) (K.getD i 0) < cntEq (K.take (i + 1)) (K.getD i 0) := by
  rw [cntEq_take_succ K _ h]; simp

theorem rank_lt_length (K : List Nat) {i : Nat} (h : i < K.length) : rank K i < K.length := by
  unfold rank
  have h1 := cntEq_take_lt K h
  have h2 := cntEq_take_le K (K.getD i 0) (i + 1)
  have h3 := cntLt_succ K (K.getD i 0)
  have h4 : cntLt K (K.getD i 0 + 1) ≤ K.length := List.countP_le_length
  omega

theorem rank_lt_rank (K : List Nat) {i j : Nat} (hi : i < K.length) (_hj : j < K.length)
    (h : K.getD i 0 < K.getD j 0 ∨ (K.getD i 0 = K.getD j 0 ∧ i < j)) : rank K i < rank K j := by
  unfold rank
  rcases h with h | ⟨h, hij⟩
  · have h1 := cntEq_take_lt K hi
    have h2 := cntEq_take_le K (K.getD i 0) (i + 1)
    have h3 := cntLt_succ K (K.getD i 0)
    have h4 : cntLt K (K.getD i 0 + 1) ≤ cntLt K (K.getD j 0) := cntLt_mono K h
    omega
  · rw [← h]
    have h1 := cntEq_take_lt K hi
    have h2 : cntEq (K.take (i + 1)) (K.getD i 0) ≤ cntEq (K.take j) (K.getD i 0) :=
      cntEq_take_mono K _ hij
    omega

theorem rank_inj (K : List Nat) {i j : Nat} (hi : i < K.length) (hj : j < K.length)
    (h : rank K i = rank K j) : i = j := by
  by_contra hne
  rcases Nat.lt_trichotomy (K.getD i 0) (K.getD j 0) with h1 | h1 | h1
  · have := rank_lt_rank K hi hj (Or.inl h1); omega
  · rcases Nat.lt_or_gt_of_ne hne with h2 | h2
    · have := rank_lt_rank K hi hj (Or.inr ⟨h1, h2⟩); omega
    · have := rank_lt_rank K hj hi (Or.inr ⟨h1.symm, h2⟩); omega
  · have := rank_lt_rank K hj hi (Or.inl h1); omega

/-- converse of `rank_lt_rank`. -/
theorem lt_of_rank_lt (K : List Nat) {i j : Nat} (hi : i < K.length) (hj : j < K.length)
    (h : rank K i < rank K j) : K.getD i 0 < K.getD j 0 ∨ (K.getD i 0 = K.getD j 0 ∧ i < j) := by
  rcases Nat.lt_trichotomy (K.getD i 0) (K.getD j 0) with h1 | h1 | h1
  · exact Or.inl h1
  · rcases Nat.lt_trichotomy i j with h2 | h2 | h2
    · exact Or.inr ⟨h1, h2⟩
    · subst h2; omega
    · have := rank_lt_rank K hj hi (Or.inr ⟨h1.symm, h2⟩); omega
  · have := rank_lt_rank K hj hi (Or.inl h1); omega

/-- the ranks are a permutation of `0..n-1`. -/
theorem rank_perm (K : List Nat) : ((List.range K.length).map (rank K)).Perm (List.range K.length) := by
  apply List.Subperm.perm_of_length_le
  · apply List.subperm_of_subset
    · rw [List.nodup_map_iff_inj_on (List.nodup_range)]
      intro x hx y hy hxy
      exact rank_inj K (List.mem_range.1 hx) (List.mem_range.1 hy) hxy
    · intro t ht
      rcases List.mem_map.1 ht with ⟨p, hp, rfl⟩
      exact List.mem_range.2 (rank_lt_length K (List.mem_range.1 hp))
  · simp

theorem rank_surj (K : List Nat) {t : Nat} (ht : t < K.length) : ∃ p, p < K.length ∧ rank K p = t := by
  have : t ∈ (List.range K.length).map (rank K) := (rank_perm K).mem_iff.2 (List.mem_range.2 ht)
  rcases List.mem_map.1 this with ⟨p, hp, rfl⟩
  exact ⟨p, List.mem_range.1 hp, rfl⟩

end Compress.Proofs.Bzip2BWT
