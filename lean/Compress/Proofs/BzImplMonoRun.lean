/-
Prefix-monotonicity of the bzip2.Reader model at the level of chunks and whole behaviours: a
behaviour that ends with "corrupted" or "deprecated" is unchanged by appending whole bytes to the
input.
-/
import Compress.Proofs.BzImplMonoParse
import Compress.Proofs.BzImplRead

namespace Compress.Proofs.BzImpl
open Compress Compress.Bzip2 Compress.Prefix
open Compress.Bzip2.Impl (Err M State)

/-- the stream header is monotone. -/
theorem mono_streamHeader : Mono Impl.streamHeader := by
  intro xs ys
  unfold Impl.streamHeader
  obtain ⟨ok1, er1⟩ := mono_readBitsBE64 16 xs ys
  cases h1 : Impl.readBitsBE64 16 xs with
  | error e =>
    obtain ⟨e, r⟩ := e
    refine ⟨fun v rest h => (by simp [bind, Except.bind] at h), fun e' r' h hne => ?_⟩
    simp only [bind, Except.bind, Except.error.injEq, Prod.mk.injEq] at h
    obtain ⟨rfl, rfl⟩ := h
    obtain ⟨r'', h''⟩ := er1 _ _ h1 hne
    rw [h'']; exact ⟨_, rfl⟩
  | ok x1 =>
    obtain ⟨m, b1⟩ := x1
    rw [ok1 _ _ h1]
    simp only [bind, Except.bind]
    by_cases hm : m ≠ hdrMagic
    · simp only [if_pos hm, throw, throwThe, MonadExceptOf.throw]
      refine ⟨fun v rest h => (by cases h), fun e' r' h hne => ?_⟩
      cases h; exact ⟨_, rfl⟩
    · simp only [if_neg hm, pure, Except.pure]
      obtain ⟨ok2, er2⟩ := mono_readBitsBE64 8 b1 ys
      cases h2 : Impl.readBitsBE64 8 b1 with
      | error e =>
        obtain ⟨e, r⟩ := e
        refine ⟨fun v rest h => (by cases h), fun e' r' h hne => ?_⟩
        cases h
        obtain ⟨r'', h''⟩ := er2 _ _ h2 hne
        rw [h'']; exact ⟨_, rfl⟩
      | ok x2 =>
        obtain ⟨ver, b2⟩ := x2
        rw [ok2 _ _ h2]
        simp only []
        by_cases hv : ver ≠ 0x68
        · simp only [if_pos hv, throw, throwThe, MonadExceptOf.throw]
          refine ⟨fun v rest h => (by cases h), fun e' r' h hne => ?_⟩
          cases h; exact ⟨_, rfl⟩
        · simp only [if_neg hv]
          obtain ⟨ok3, er3⟩ := mono_readBitsBE64 8 b2 ys
          cases h3 : Impl.readBitsBE64 8 b2 with
          | error e =>
            obtain ⟨e, r⟩ := e
            refine ⟨fun v rest h => (by cases h), fun e' r' h hne => ?_⟩
            cases h
            obtain ⟨r'', h''⟩ := er3 _ _ h3 hne
            rw [h'']; exact ⟨_, rfl⟩
          | ok x3 =>
            obtain ⟨lv, b3⟩ := x3
            rw [ok3 _ _ h3]
            simp only []
            by_cases hl : lv < 0x31 ∨ lv > 0x39
            · simp only [if_pos hl, throw, throwThe, MonadExceptOf.throw]
              refine ⟨fun v rest h => (by cases h), fun e' r' h hne => ?_⟩
              cases h; exact ⟨_, rfl⟩
            · simp only [if_neg hl]
              refine ⟨fun v rest h => ?_, fun e' r' h hne => by cases h⟩
              cases h; rfl

theorem ne_ueof_of {e : Err} (h : e = .corrupted ∨ e = .deprecated) : e ≠ .unexpectedEOF := by
  rcases h with rfl | rfl <;> decide

theorem drop_pad (b2 ys : Bits) (hy : ys.length % 8 = 0) :
    (b2 ++ ys).drop ((b2 ++ ys).length % 8) = b2.drop (b2.length % 8) ++ ys := by
  have h1 : (b2 ++ ys).length % 8 = b2.length % 8 := by
    rw [List.length_append, Nat.add_mod, hy, Nat.add_zero, Nat.mod_mod]
  rw [h1, List.drop_append_of_le_length (Nat.mod_le _ _)]

/-- `decodeBlock` over an input extended by whole bytes. -/
theorem decodeBlock_ext (s : State) (b ys : Bits) (hy : ys.length % 8 = 0) (T I : Nat) :
    (∀ s2, Impl.decodeBlock s b = .ok s2 →
      Impl.decodeBlock (extState s ys T I) (b ++ ys) = .ok (extState s2 ys T I)) ∧
    (∀ e r, Impl.decodeBlock s b = .error (e, r) → e = .corrupted ∨ e = .deprecated →
      ∃ r', Impl.decodeBlock (extState s ys T I) (b ++ ys) = .error (e, r')) := by
  unfold Impl.decodeBlock
  obtain ⟨ok1, er1⟩ := mono_readBitsBE64 48 b ys
  cases h1 : Impl.readBitsBE64 48 b with
  | error e =>
    obtain ⟨e, r⟩ := e
    refine ⟨fun s2 h => (by cases h), fun e' r' h hne => ?_⟩
    cases h
    obtain ⟨r'', h''⟩ := er1 _ _ h1 (ne_ueof_of hne)
    rw [h'']; exact ⟨_, rfl⟩
  | ok x1 =>
    obtain ⟨magic, b1⟩ := x1
    rw [ok1 _ _ h1]
    simp only []
    by_cases hm : magic ≠ blkMagic
    · simp only [if_pos hm]
      by_cases hE : magic = endMagic
      · simp only [if_pos hE]
        obtain ⟨ok2, er2⟩ := mono_readBitsBE64 32 b1 ys
        cases h2 : Impl.readBitsBE64 32 b1 with
        | error e =>
          obtain ⟨e, r⟩ := e
          refine ⟨fun s2 h => (by cases h), fun e' r' h hne => ?_⟩
          cases h
          obtain ⟨r'', h''⟩ := er2 _ _ h2 (ne_ueof_of hne)
          rw [h'']; exact ⟨_, rfl⟩
        | ok x2 =>
          obtain ⟨crc, b2⟩ := x2
          rw [ok2 _ _ h2]
          simp only []
          have hE' : (extState s ys T I).endCRC = s.endCRC := rfl
          rw [hE']
          by_cases hc : s.endCRC ≠ crc
          · simp only [if_pos hc]
            refine ⟨fun s2 h => (by cases h), fun e' r' h hne => ?_⟩
            cases h; exact ⟨_, rfl⟩
          · simp only [if_neg hc]
            refine ⟨fun s2 h => ?_, fun e' r' h hne => by cases h⟩
            cases h
            rw [drop_pad _ _ hy]
            rfl
      · simp only [if_neg hE]
        refine ⟨fun s2 h => (by cases h), fun e' r' h hne => ?_⟩
        cases h; exact ⟨_, rfl⟩
    · simp only [if_neg hm]
      have hL : (extState s ys T I).level = s.level := rfl
      rw [hL]
      obtain ⟨ok2, er2⟩ := mono_blockBody s.level b1 ys
      dsimp only at ok2 er2
      cases h2 : Impl.blockBody s.level b1 with
      | error e =>
        obtain ⟨e, r⟩ := e
        refine ⟨fun s2 h => (by cases h), fun e' r' h hne => ?_⟩
        cases h
        obtain ⟨r'', h''⟩ := er2 e r (by simp only [h2]) (ne_ueof_of hne)
        cases h3 : Impl.blockBody s.level (b1 ++ ys) with
        | error e3 =>
          rw [h3] at h''
          cases h''
          exact ⟨_, rfl⟩
        | ok x3 => rw [h3] at h''; obtain ⟨_, _, _⟩ := x3; cases h''
      | ok x2 =>
        obtain ⟨buf, crc, b6⟩ := x2
        have h'' := ok2 (buf, crc) b6 (by simp only [h2])
        cases h3 : Impl.blockBody s.level (b1 ++ ys) with
        | error e3 => rw [h3] at h''; cases h''
        | ok x3 =>
          obtain ⟨buf', crc', b6'⟩ := x3
          rw [h3] at h''
          simp only [Except.ok.injEq, Prod.mk.injEq] at h''
          obtain ⟨⟨rfl, rfl⟩, rfl⟩ := h''
          refine ⟨fun s2 h => ?_, fun e' r' h hne => by cases h⟩
          cases h
          rfl

/-- one chunk over an input extended by whole bytes. -/
theorem chunk_ext (s : State) (ys : Bits) (hy : ys.length % 8 = 0) (T I : Nat) :
    (∀ s2, Impl.chunk s = .ok s2 → Impl.chunk (extState s ys T I) = .ok (extState s2 ys T I)) ∧
    (∀ e r, Impl.chunk s = .error (e, r) → e = .corrupted ∨ e = .deprecated →
      ∃ r', Impl.chunk (extState s ys T I) = .error (e, r')) := by
  unfold Impl.chunk
  have hR : (extState s ys T I).rdHdrFtr = s.rdHdrFtr := rfl
  have hB : (extState s ys T I).bits = s.bits ++ ys := rfl
  have hK : (extState s ys T I).blkCRC = s.blkCRC := rfl
  have hC : (extState s ys T I).crc = s.crc := rfl
  rw [hR, hB, hK, hC]
  by_cases hp : s.rdHdrFtr % 2 = 0
  · simp only [if_pos hp]
    cases hb : s.bits with
    | nil =>
      simp only [List.isEmpty_nil, if_true]
      refine ⟨fun s2 h => (by cases h), fun e' r' h hne => ?_⟩
      exfalso
      cases h
      split at hne <;> rcases hne with h | h <;> cases h
    | cons x xs =>
      rw [← hb]
      have hne1 : s.bits.isEmpty = false := by rw [hb]; rfl
      have hne2 : (s.bits ++ ys).isEmpty = false := by rw [hb]; rfl
      simp only [hne1, hne2, Bool.false_eq_true, if_false]
      obtain ⟨ok1, er1⟩ := mono_streamHeader s.bits ys
      cases h1 : Impl.streamHeader s.bits with
      | error e =>
        obtain ⟨e, r⟩ := e
        refine ⟨fun s2 h => (by cases h), fun e' r' h hne => ?_⟩
        cases h
        obtain ⟨r'', h''⟩ := er1 _ _ h1 (ne_ueof_of hne)
        rw [h'']; exact ⟨_, rfl⟩
      | ok x1 =>
        obtain ⟨lvl, b3⟩ := x1
        rw [ok1 _ _ h1]
        simp only []
        exact decodeBlock_ext { s with level := lvl, rdHdrFtr := s.rdHdrFtr + 1 } b3 ys hy T I
  · simp only [if_neg hp]
    by_cases hc : s.blkCRC ≠ s.crc
    · simp only [if_pos hc]
      refine ⟨fun s2 h => (by cases h), fun e' r' h hne => ?_⟩
      cases h; exact ⟨_, rfl⟩
    · simp only [if_neg hc]
      exact decodeBlock_ext { s with endCRC := combineCRC s.endCRC s.blkCRC } s.bits ys hy T I

theorem stage_ext (s : State) (ys : Bits) (T I : Nat) :
    RdAux.stage (extState s ys T I) = extState (RdAux.stage s) ys T I := by
  unfold RdAux.stage afterRle extState
  simp only []
  split <;> rfl

/-- the whole run from a state over an input extended by whole bytes. -/
theorem drain_ext (D : Nat) : ∀ (s : State) (ys : Bits) (T I D' : Nat), ys.length % 8 = 0 →
    s.bits.length + 2 ≤ D → (s.bits ++ ys).length + 2 ≤ D' →
    ((drain D s).2 = .corrupted ∨ (drain D s).2 = .deprecated) →
    drain D' (extState s ys T I) = drain D s := by
  induction D with
  | zero => intro s ys T I D' hy h; omega
  | succ D ih =>
    intro s ys T I D' hy h1 h2 h
    cases D' with
    | zero => omega
    | succ D' =>
      rw [RdAux.drain_succ] at h ⊢
      rw [RdAux.drain_succ, stage_ext]
      have hr : (extState s ys T I).rle = s.rle := rfl
      have he : (extState (RdAux.stage s) ys T I).err = (RdAux.stage s).err := rfl
      rw [hr, he]
      cases hs : (RdAux.stage s).err with
      | some e => rfl
      | none =>
        rw [hs] at h
        simp only [] at h ⊢
        obtain ⟨cok, cer⟩ := chunk_ext (RdAux.stage s) ys hy T I
        cases hc : Impl.chunk (RdAux.stage s) with
        | error e =>
          obtain ⟨e, r⟩ := e
          rw [hc] at h
          simp only [] at h
          obtain ⟨r', hr'⟩ := cer e r hc h
          rw [hr']
        | ok s3 =>
          rw [hc] at h
          simp only [] at h
          rw [cok s3 hc]
          simp only []
          have hcc := (RdAux.chunk_consumes _ _ hc).1
          rw [RdAux.stage_bits] at hcc
          have hst : ({ extState s3 ys T I with
              inOff := Impl.offsetOf (extState s3 ys T I).total (extState s3 ys T I).bits } : State) =
              extState { s3 with inOff := Impl.offsetOf s3.total s3.bits } ys T
                (Impl.offsetOf (extState s3 ys T I).total (extState s3 ys T I).bits) := rfl
          rw [hst]
          have hl : (s.bits ++ ys).length = s.bits.length + ys.length := List.length_append
          have hl3 : (s3.bits ++ ys).length = s3.bits.length + ys.length := List.length_append
          rw [ih { s3 with inOff := Impl.offsetOf s3.total s3.bits } ys T _ D' hy
            (by simp only []; omega) (by simp only []; omega) h]

theorem init_ext (bits ys : Bits) :
    Impl.init (bits ++ ys) = extState (Impl.init bits) ys (bits ++ ys).length 0 := rfl

/-- **a behaviour that ends with corrupted or deprecated survives any extension of the input by
    whole bytes.** -/
theorem beh_ext (bits ys : Bits) (hy : ys.length % 8 = 0)
    (h : (beh (Impl.init bits)).2 = .corrupted ∨ (beh (Impl.init bits)).2 = .deprecated) :
    beh (Impl.init (bits ++ ys)) = beh (Impl.init bits) := by
  rw [init_ext]
  unfold beh at h ⊢
  exact drain_ext _ (Impl.init bits) ys _ _ _ hy (Nat.le_refl _) (Nat.le_refl _) h

end Compress.Proofs.BzImpl
