/-
The decoder's symbol loop consumes one encoded run exactly (C16).
-/
import Compress.Proofs.MetaStep

namespace Compress.Proofs.Meta
open Compress Compress.Meta

theorem encodeRun_nil (bit : Bool) (fuelE : Nat) (pre : Bool) : encodeRun bit fuelE pre 0 = [] := by
  cases fuelE <;> rfl

theorem encodeRun_false_succ (n : Nat) (pre : Bool) (cnt : Nat) (hc : cnt ≠ 0) :
    encodeRun false (n+1) pre cnt =
      if cnt ≥ 11 then
        true :: true :: true :: (Bits.ofNat (min 138 cnt - 11) 7 ++ encodeRun false n false (cnt - min 138 cnt))
      else if pre = false ∧ cnt ≥ 3 then
        true :: true :: false :: (Bits.ofNat (min 6 cnt - 3) 2 ++ encodeRun false n false (cnt - min 6 cnt))
      else false :: encodeRun false n false (cnt - 1) := by
  cases cnt with
  | zero => exact absurd rfl hc
  | succ c =>
    simp [encodeRun, minRepZero, maxRepZero, minRepLast, maxRepLast, codeRepZero, codeRepLast, codeZero]

theorem encodeRun_true_succ (n : Nat) (pre : Bool) (cnt : Nat) (hc : cnt ≠ 0) :
    encodeRun true (n+1) pre cnt =
      if pre = true ∧ cnt ≥ 3 then
        true :: true :: false :: (Bits.ofNat (min 6 cnt - 3) 2 ++ encodeRun true n true (cnt - min 6 cnt))
      else true :: false :: encodeRun true n true (cnt - 1) := by
  cases cnt with
  | zero => exact absurd rfl hc
  | succ c =>
    simp [encodeRun, minRepLast, maxRepLast, codeRepLast, codeOne]

def RunPost (st st' : SymState) (cnt : Nat) (bit : Bool) : Prop :=
  st'.idx = st.idx + cnt ∧ st'.bit = (if cnt = 0 then st.bit else bit) ∧
  st'.ones = st.ones + (if bit then cnt else 0) ∧ st'.out = st.out ++ List.replicate cnt bit ∧ st'.fifo < 256

theorem RunPost_refl (st : SymState) (bit : Bool) (h : st.fifo < 256) : RunPost st st 0 bit := by
  simp [RunPost, h]

theorem RunPost_step (st st' : SymState) (c1 c2 cnt : Nat) (bit : Bool) (f1 : Nat)
    (hc : c1 + c2 = cnt) (hc1 : 0 < c1) (h : RunPost (stepSt st c1 bit f1) st' c2 bit) : RunPost st st' cnt bit := by
  obtain ⟨h1, h2, h3, h4, h5⟩ := h
  simp only [stepSt] at h1 h2 h3 h4
  refine ⟨by omega, ?_, ?_, ?_, h5⟩
  · have hne : ¬ cnt = 0 := by omega
    rw [h2, if_neg hne]; simp
  · rw [h3]; cases bit <;> simp <;> omega
  · rw [h4, List.append_assoc, List.replicate_append_replicate, hc]

def ZPre (pre : Bool) (cnt f : Nat) : Prop :=
  cnt = 0 ∨ cnt ≥ 11 ∨ (pre = false ∧ cnt ≥ 3) ∨ (pre = true ∧ f ≥ 8) ∨
    (pre = false ∧ cnt = 2 ∧ f ≥ 4) ∨ (pre = false ∧ cnt = 1 ∧ f ≥ 2)

theorem ZPre_false_intro (c f : Nat) (h : c = 0 ∨ c ≥ 3 ∨ (c = 2 ∧ f ≥ 4) ∨ (c = 1 ∧ f ≥ 2)) :
    ZPre false c f := by
  unfold ZPre
  rcases h with h | h | h | h
  · exact Or.inl h
  · exact Or.inr (Or.inr (Or.inl ⟨rfl, h⟩))
  · exact Or.inr (Or.inr (Or.inr (Or.inr (Or.inl ⟨rfl, h⟩))))
  · exact Or.inr (Or.inr (Or.inr (Or.inr (Or.inr ⟨rfl, h⟩))))

theorem run_zero : ∀ (fuelE : Nat) (pre : Bool) (cnt fuel : Nat) (st : SymState) (rest : Bits),
    cnt ≤ fuelE → st.bit = pre → st.idx + cnt ≤ 256 → 256 ≤ fuel + st.idx → st.fifo < 256 →
    ZPre pre cnt st.fifo →
    ∃ fuel' st', symLoop fuel st (encodeRun false fuelE pre cnt ++ rest) = symLoop fuel' st' rest ∧
      RunPost st st' cnt false ∧ 256 ≤ fuel' + st'.idx := by
  intro fuelE
  induction fuelE with
  | zero =>
    intro pre cnt fuel st rest hc hb hi hf hff hz
    have : cnt = 0 := by omega
    subst this
    exact ⟨fuel, st, by rw [encodeRun_nil]; rfl, RunPost_refl st false hff, by omega⟩
  | succ n ih =>
    intro pre cnt fuel st rest hc hb hi hf hff hz
    by_cases hc0 : cnt = 0
    · subst hc0
      exact ⟨fuel, st, by rw [encodeRun_nil]; rfl, RunPost_refl st false hff, by omega⟩
    · obtain ⟨m, rfl⟩ : ∃ m, fuel = m + 1 := ⟨fuel - 1, by omega⟩
      rw [encodeRun_false_succ n pre cnt hc0]
      by_cases h11 : cnt ≥ 11
      · rw [if_pos h11]
        have hv : min 138 cnt - 11 < 128 := by omega
        have hfe := fifo_repZero st.fifo _ hff hv
        simp only [List.cons_append, List.append_assoc]
        rw [symLoop_repZero m st _ _ (by omega) hv (by omega)]
        obtain ⟨fuel', st', he, hp, hfu⟩ := ih false (cnt - min 138 cnt) m
          (stepSt st (min 138 cnt - 11 + 11) false (fifoPush (fifoPush st.fifo 3 7) 7 (min 138 cnt - 11))) rest
          (by omega) rfl (by simp only [stepSt]; omega) (by simp only [stepSt]; omega)
          (by simp only [stepSt]; omega)
          (by apply ZPre_false_intro; simp only [stepSt]; omega)
        exact ⟨fuel', st', he, RunPost_step st st' _ _ cnt false _ (by omega) (by omega) hp, hfu⟩
      · rw [if_neg h11]
        by_cases h3 : pre = false ∧ cnt ≥ 3
        · rw [if_pos h3]
          have hv : min 6 cnt - 3 < 4 := by omega
          have hfe := fifo_repLast st.fifo _ hff hv
          simp only [List.cons_append, List.append_assoc]
          rw [symLoop_repLast m st _ _ (by omega) hv (by omega)]
          have hbit : st.bit = false := by rw [hb]; exact h3.1
          rw [hbit]
          obtain ⟨fuel', st', he, hp, hfu⟩ := ih false (cnt - min 6 cnt) m
            (stepSt st (min 6 cnt - 3 + 3) false (fifoPush (fifoPush st.fifo 3 3) 2 (min 6 cnt - 3))) rest
            (by omega) rfl (by simp only [stepSt]; omega) (by simp only [stepSt]; omega)
            (by simp only [stepSt]; omega)
            (by apply ZPre_false_intro; simp only [stepSt]; omega)
          exact ⟨fuel', st', he, RunPost_step st st' _ _ cnt false _ (by omega) (by omega) hp, hfu⟩
        · rw [if_neg h3]
          have hfe := fifo_zero st.fifo hff
          have hcases : (pre = true ∧ st.fifo ≥ 8) ∨ (pre = false ∧ cnt = 2 ∧ st.fifo ≥ 4) ∨
              (pre = false ∧ cnt = 1 ∧ st.fifo ≥ 2) := by
            unfold ZPre at hz
            rcases hz with h | h | h | h | h | h
            · exact absurd h hc0
            · exact absurd h h11
            · exact absurd h h3
            · exact Or.inl h
            · exact Or.inr (Or.inl h)
            · exact Or.inr (Or.inr h)
          simp only [List.cons_append]
          rw [symLoop_zero m st _ (by omega) (by omega)]
          obtain ⟨fuel', st', he, hp, hfu⟩ := ih false (cnt - 1) m
            (stepSt st 1 false (fifoPush st.fifo 1 0)) rest
            (by omega) rfl (by simp only [stepSt]; omega) (by simp only [stepSt]; omega)
            (by simp only [stepSt]; omega)
            (by apply ZPre_false_intro; simp only [stepSt]; omega)
          exact ⟨fuel', st', he, RunPost_step st st' _ _ cnt false _ (by omega) (by omega) hp, hfu⟩


theorem run_one : ∀ (fuelE : Nat) (pre : Bool) (cnt fuel : Nat) (st : SymState) (rest : Bits),
    cnt ≤ fuelE → st.bit = pre → st.idx + cnt ≤ 256 → 256 ≤ fuel + st.idx → st.fifo < 256 →
    ∃ fuel' st', symLoop fuel st (encodeRun true fuelE pre cnt ++ rest) = symLoop fuel' st' rest ∧
      RunPost st st' cnt true ∧ 256 ≤ fuel' + st'.idx ∧ ((0 < cnt ∨ 24 ≤ st.fifo) → 24 ≤ st'.fifo) := by
  intro fuelE
  induction fuelE with
  | zero =>
    intro pre cnt fuel st rest hc hb hi hf hff
    have : cnt = 0 := by omega
    subst this
    exact ⟨fuel, st, by rw [encodeRun_nil]; rfl, RunPost_refl st true hff, by omega, by omega⟩
  | succ n ih =>
    intro pre cnt fuel st rest hc hb hi hf hff
    by_cases hc0 : cnt = 0
    · subst hc0
      exact ⟨fuel, st, by rw [encodeRun_nil]; rfl, RunPost_refl st true hff, by omega, by omega⟩
    · obtain ⟨m, rfl⟩ : ∃ m, fuel = m + 1 := ⟨fuel - 1, by omega⟩
      rw [encodeRun_true_succ n pre cnt hc0]
      by_cases h3 : pre = true ∧ cnt ≥ 3
      · rw [if_pos h3]
        have hv : min 6 cnt - 3 < 4 := by omega
        have hfe := fifo_repLast st.fifo _ hff hv
        simp only [List.cons_append, List.append_assoc]
        rw [symLoop_repLast m st _ _ (by omega) hv (by omega)]
        have hbit : st.bit = true := by rw [hb]; exact h3.1
        rw [hbit]
        obtain ⟨fuel', st', he, hp, hfu, hfi⟩ := ih true (cnt - min 6 cnt) m
          (stepSt st (min 6 cnt - 3 + 3) true (fifoPush (fifoPush st.fifo 3 3) 2 (min 6 cnt - 3))) rest
          (by omega) rfl (by simp only [stepSt]; omega) (by simp only [stepSt]; omega)
          (by simp only [stepSt]; omega)
        refine ⟨fuel', st', he, RunPost_step st st' _ _ cnt true _ (by omega) (by omega) hp, hfu, ?_⟩
        intro _
        apply hfi
        right; simp only [stepSt]; omega
      · rw [if_neg h3]
        have hfe := fifo_one st.fifo hff
        simp only [List.cons_append]
        rw [symLoop_one m st _ (by omega) (by omega)]
        obtain ⟨fuel', st', he, hp, hfu, hfi⟩ := ih true (cnt - 1) m
          (stepSt st 1 true (fifoPush st.fifo 2 1)) rest
          (by omega) rfl (by simp only [stepSt]; omega) (by simp only [stepSt]; omega)
          (by simp only [stepSt]; omega)
        refine ⟨fuel', st', he, RunPost_step st st' _ _ cnt true _ (by omega) (by omega) hp, hfu, ?_⟩
        intro _
        apply hfi
        right; simp only [stepSt]; omega

end Compress.Proofs.Meta
