/-
C16 (M2), part (b): the code-length code of a meta block, read by RFC 1951.

For every `h ∈ 1..7` the HCLEN fields of a meta block give the code
{0 ↦ 1 bit, h ↦ 2 bits, 16 ↦ 3 bits, 18 ↦ 3 bits}; it is complete and its
canonical code words are exactly Meta's `codeZero/One/RepLast/RepZero`.
-/
import Compress.Flate.Spec
import Compress.Meta.Codec

namespace Compress.Proofs.MetaSilent
open Compress Compress.Flate

/-- the 19 code lengths of the code-length code of a meta block with `huffLen = h`. -/
def clLens (h : Nat) : Array Nat :=
  ((((Array.replicate 19 0).setIfInBounds 0 1).setIfInBounds h 2).setIfInBounds 16 3).setIfInBounds 18 3

def clHuff (h : Nat) : Huff := ⟨clLens h⟩

/-- the counting-decoder table of the code-length code. -/
def clTab (h : Nat) : HuffTab :=
  { count := #[15, 1, 1, 2, 0, 0, 0, 0, 0, 0, 0, 0, 0, 0, 0, 0], sorted := #[0, h, 16, 18] }

theorem range7 (h : Nat) (h1 : 1 ≤ h) (h7 : h ≤ 7) :
    h = 1 ∨ h = 2 ∨ h = 3 ∨ h = 4 ∨ h = 5 ∨ h = 6 ∨ h = 7 := by omega

theorem clHuff_valid (h : Nat) (h1 : 1 ≤ h) (h7 : h ≤ 7) : (clHuff h).valid = true := by
  rcases range7 h h1 h7 with rfl | rfl | rfl | rfl | rfl | rfl | rfl <;> decide

theorem tab_eq (t : HuffTab) (c s : Array Nat) (hc : t.count = c) (hs : t.sorted = s) : t = ⟨c, s⟩ := by
  cases t; simp_all

theorem clHuff_tab (h : Nat) (h1 : 1 ≤ h) (h7 : h ≤ 7) : (clHuff h).tab = clTab h := by
  apply tab_eq
  · rcases range7 h h1 h7 with rfl | rfl | rfl | rfl | rfl | rfl | rfl <;> decide
  · rcases range7 h h1 h7 with rfl | rfl | rfl | rfl | rfl | rfl | rfl <;> decide

theorem clTab_zero (h : Nat) (r : Bits) : (clTab h).decode (false :: r) = .sym 0 r := by
  simp [HuffTab.decode, HuffTab.decodeAux, clTab, maxCodeLen]

theorem clTab_one (h : Nat) (r : Bits) : (clTab h).decode (true :: false :: r) = .sym h r := by
  simp [HuffTab.decode, HuffTab.decodeAux, clTab, maxCodeLen]

theorem clTab_repLast (h : Nat) (r : Bits) : (clTab h).decode (true :: true :: false :: r) = .sym 16 r := by
  simp [HuffTab.decode, HuffTab.decodeAux, clTab, maxCodeLen]

theorem clTab_repZero (h : Nat) (r : Bits) : (clTab h).decode (true :: true :: true :: r) = .sym 18 r := by
  simp [HuffTab.decode, HuffTab.decodeAux, clTab, maxCodeLen]

end Compress.Proofs.MetaSilent
