/-
C16 continued: block sizes (M3) and self-location (M4).
-/
import Compress.Meta.Codec
import Compress.Proofs.Meta

namespace Compress.Proofs.MetaLocate
open Compress Compress.Meta

/-- the 4-byte little-endian window at `i`, zero-extended past the end (what the
    `ReverseSearch` loop holds in `magic` when it stands at index `i`). -/
def window (data : List UInt8) (i : Nat) : Nat :=
  (data.getD i 0).toNat + (data.getD (i + 1) 0).toNat * 2 ^ 8 +
  (data.getD (i + 2) 0).toNat * 2 ^ 16 + (data.getD (i + 3) 0).toNat * 2 ^ 24

def magicAt (data : List UInt8) (i : Nat) : Bool := window data i &&& magicMask == magicVals

/-- `ReverseSearch` returns the last index whose window carries the signature. -/
theorem reverseSearch_spec (data : List UInt8) :
    (reverseSearch data = -1 ∧ ∀ i, i < data.length → magicAt data i = false) ∨
    (∃ k : Nat, reverseSearch data = (k : Int) ∧ k < data.length ∧ magicAt data k = true ∧
       ∀ i, k < i → i < data.length → magicAt data i = false) := by
  sorry

/-- M3: every encoded block is 12 to 64 bytes long. -/
theorem encodeBlock_size (buf : List UInt8) (final : FinalMode) (bits : Bits)
    (h : encodeBlock buf final = some bits) : 12 * 8 ≤ bits.length ∧ bits.length ≤ 64 * 8 := by
  sorry

/-- M4: inside an encoded block the signature matches at the block start only
    (all windows, including the zero-extended ones at the tail). -/
theorem magic_only_at_start (buf : List UInt8) (final : FinalMode) (bits : Bits)
    (h : encodeBlock buf final = some bits) :
    magicAt (Bits.toBytes bits) 0 = true ∧
    ∀ i, 0 < i → i < (Bits.toBytes bits).length → magicAt (Bits.toBytes bits) i = false := by
  sorry

/-- hence a backward search over anything followed by one block finds that block. -/
theorem reverseSearch_finds_last_block (pre : List UInt8) (buf : List UInt8) (final : FinalMode) (bits : Bits)
    (h : encodeBlock buf final = some bits) :
    reverseSearch (pre ++ Bits.toBytes bits) = (pre.length : Int) := by
  sorry

end Compress.Proofs.MetaLocate
