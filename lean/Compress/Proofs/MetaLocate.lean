/-
C16 continued: block sizes (M3) and self-location (M4).
-/
import Compress.Meta.Codec
import Compress.Proofs.Meta
import Compress.Proofs.MetaLocSearch
import Compress.Proofs.MetaLocSize
import Compress.Proofs.MetaLocMagic

namespace Compress.Proofs.MetaLocate
open Compress Compress.Meta

/-- the 4-byte little-endian window at `i`, zero-extended past the end (what the
    `ReverseSearch` loop holds in `magic` when it stands at index `i`). -/
def window (data : List UInt8) (i : Nat) : Nat :=
  (data.getD i 0).toNat + (data.getD (i + 1) 0).toNat * 2 ^ 8 +
  (data.getD (i + 2) 0).toNat * 2 ^ 16 + (data.getD (i + 3) 0).toNat * 2 ^ 24

def magicAt (data : List UInt8) (i : Nat) : Bool := window data i &&& magicMask == magicVals

/-- the helper files work with a copy of these two definitions. -/
theorem window_eq : window = MetaLoc.window := rfl
theorem magicAt_eq : magicAt = MetaLoc.magicAt := rfl

/-- `ReverseSearch` returns the last index whose window carries the signature. -/
theorem reverseSearch_spec (data : List UInt8) :
    (reverseSearch data = -1 ∧ ∀ i, i < data.length → magicAt data i = false) ∨
    (∃ k : Nat, reverseSearch data = (k : Int) ∧ k < data.length ∧ magicAt data k = true ∧
       ∀ i, k < i → i < data.length → magicAt data i = false) := by
  rw [magicAt_eq]
  exact MetaLoc.reverseSearch_spec data

/-- M3: every encoded block is 12 to 64 bytes long. -/
theorem encodeBlock_size (buf : List UInt8) (final : FinalMode) (bits : Bits)
    (h : encodeBlock buf final = some bits) : 12 * 8 ≤ bits.length ∧ bits.length ≤ 64 * 8 := by
  exact MetaLoc.encodeBlock_size_aux buf final bits h

/-- M4: inside an encoded block the signature matches at the block start only
    (all windows, including the zero-extended ones at the tail). -/
theorem magic_only_at_start (buf : List UInt8) (final : FinalMode) (bits : Bits)
    (h : encodeBlock buf final = some bits) :
    magicAt (Bits.toBytes bits) 0 = true ∧
    ∀ i, 0 < i → i < (Bits.toBytes bits).length → magicAt (Bits.toBytes bits) i = false := by
  rw [magicAt_eq]
  exact MetaLoc.magic_only_at_start_aux buf final bits h

theorem magicAt_append (pre s : List UInt8) (j : Nat) :
    magicAt (pre ++ s) (pre.length + j) = magicAt s j := by
  unfold magicAt
  rw [window_eq, MetaLoc.window_append]

/-- hence a backward search over anything followed by one block finds that block. -/
theorem reverseSearch_finds_last_block (pre : List UInt8) (buf : List UInt8) (final : FinalMode) (bits : Bits)
    (h : encodeBlock buf final = some bits) :
    reverseSearch (pre ++ Bits.toBytes bits) = (pre.length : Int) := by
  obtain ⟨h0, hlater⟩ := magic_only_at_start buf final bits h
  have hsz := encodeBlock_size buf final bits h
  have hal := Proofs.Meta.encodeBlock_aligned buf final bits h
  have hlen : (Bits.toBytes bits).length = bits.length / 8 := Proofs.Meta.length_toBytes bits hal
  have hpos : 0 < (Bits.toBytes bits).length := by omega
  have hat : magicAt (pre ++ Bits.toBytes bits) pre.length = true := by
    have := magicAt_append pre (Bits.toBytes bits) 0
    rw [Nat.add_zero] at this
    rw [this]; exact h0
  rcases reverseSearch_spec (pre ++ Bits.toBytes bits) with ⟨_, hall⟩ | ⟨k, e, hk, hm, hall⟩
  · have := hall pre.length (by rw [List.length_append]; omega)
    rw [hat] at this; cases this
  · rw [List.length_append] at hk
    have hkp : k = pre.length := by
      rcases Nat.lt_trichotomy k pre.length with hlt | heq | hgt
      · have := hall pre.length hlt (by rw [List.length_append]; omega)
        rw [hat] at this; cases this
      · exact heq
      · exfalso
        have e2 : k = pre.length + (k - pre.length) := by omega
        rw [e2, magicAt_append] at hm
        have := hlater (k - pre.length) (by omega) (by omega)
        rw [hm] at this; cases this
    rw [e, hkp]

end Compress.Proofs.MetaLocate
