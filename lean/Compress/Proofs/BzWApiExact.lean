/-
bzip2.Writer (API-level model): no false success.  For every sequence of
calls and every sink adversary, when Close returns nil the sink holds exactly
`encodeStream level (all data accepted by Write)`.
-/
import Compress.Proofs.BzWApiLatch
import Compress.Proofs.BzWApiSplit
import Compress.Proofs.BzWApiBits
import Compress.Proofs.Bzip2Rle

namespace Compress.Proofs.BzWApi
open Compress Compress.Bzip2 Compress.XFlate

def hdrBits (level : Nat) : Bits := bitsBE hdrMagic 16 ++ bitsBE 0x68 8 ++ bitsBE (0x30 + level) 8

/-- the fold step of `encodeStream`. -/
def blkStep (st : Option (Bits × Nat)) (blk : List UInt8 × List UInt8) : Option (Bits × Nat) :=
  match st with
  | none => none
  | some (bits, endCRC) =>
    let crc := blockCRC blk.2
    match encodeBlock blk.1 crc with
    | none => none
    | some bb => some (bits ++ bb, combineCRC endCRC crc)

theorem encodeStream_eq (level : Nat) (data : List UInt8) :
    encodeStream level data =
      match (splitBlocks (level * blockSize) (data.length + 1) data).foldl blkStep (some (hdrBits level, 0)) with
      | none => none
      | some (bits, endCRC) => some (Bits.toBytesMSB (bits ++ bitsBE endMagic 48 ++ bitsBE endCRC 32)) := rfl

/-! ### the script -/

theorem script_view (s : BzW) (fs : List Field) (hp : ∀ f ∈ fs, f.2 ≠ FKind.pad) (h : (s.script fs).err = none) :
    view (s.script fs).bw = view s.bw ++ flat fs ∧ (s.script fs).bw.stage = [] ∧ (s.script fs).bw.bits.length < 8 := by
  unfold BzW.script at h ⊢
  simp only [] at h ⊢
  cases h1 : (({ s.bw with off := s.outOff } : BitW).writeFields fs).2 with
  | some e => rw [h1] at h; cases h
  | none =>
    rw [h1] at h
    simp only [] at h
    have := script_ok ({ s.bw with off := s.outOff } : BitW) fs hp h1 h
    rw [view_off] at this
    exact this

theorem script_close (s : BzW) (fs : List Field) (hp : ∀ f ∈ fs, f.2 ≠ FKind.pad) (base : List UInt8) (allbits : Bits)
    (hv : view s.bw = Bits.ofBytesMSB base ++ allbits) (h : (s.script (fs ++ [([], FKind.pad)])).err = none) :
    (s.script (fs ++ [([], FKind.pad)])).bw.sink.got = base ++ Bits.toBytesMSB (allbits ++ flat fs) := by
  unfold BzW.script at h ⊢
  simp only [] at h ⊢
  cases h1 : (({ s.bw with off := s.outOff } : BitW).writeFields (fs ++ [([], FKind.pad)])).2 with
  | some e => rw [h1] at h; cases h
  | none =>
    rw [h1] at h
    simp only [] at h
    exact (close_script ({ s.bw with off := s.outOff } : BitW) fs hp base allbits (by rw [view_off]; exact hv) h1 h).1

/-! ### the invariant -/

/-- where the block cutting stands: `all` is everything accepted so far plus the
    `data` of the Write in progress that the RLE1 stage has not taken yet. -/
structure SplitOK (s : BzW) (all data : List UInt8) (fl : List (List UInt8 × List UInt8)) : Prop where
  cap : s.rle.cap = s.level * blockSize
  lvl : 1 ≤ s.level
  feeds : Feeds s.rle.cap s.raw s.rle
  split : ∀ rest, splitBlocks s.rle.cap ((all ++ rest).length + 1) (all ++ rest) =
            fl ++ splitBlocks s.rle.cap ((s.raw ++ data ++ rest).length + 1) (s.raw ++ data ++ rest)

/-- what the bit writer has been shown: the header and the flushed blocks `fl`. -/
structure BitsOK (s : BzW) (fl : List (List UInt8 × List UInt8)) (B : Bits) : Prop where
  fold : fl.foldl blkStep (some (hdrBits s.level, 0)) = some (B, s.endCRC)
  view : view s.bw = Bits.ofBytesMSB s.base ++ (if s.wrHdr then B else [])
  nohdr : s.wrHdr = false → fl = []
  stage : s.bw.stage = []
  bits : s.bw.bits.length < 8

theorem cap_pos (s : BzW) (all data : List UInt8) (fl) (h : SplitOK s all data fl) : 1 ≤ s.rle.cap := by
  rw [h.cap]
  have := h.lvl
  simp only [blockSize]
  omega

theorem bitsOK_B (s : BzW) (fl) (B : Bits) (h : BitsOK s fl B) (hw : s.wrHdr = false) : B = hdrBits s.level := by
  have := h.fold
  rw [h.nohdr hw] at this
  simp only [List.foldl_nil, Option.some.injEq, Prod.mk.injEq] at this
  exact this.1.symm

/-- the RLE1 buffer is empty exactly when no byte went into the current block. -/
theorem out_empty_iff (cap : Nat) (raw : List UInt8) (r : RleW) (h : Feeds cap raw r) : r.out.size = 0 ↔ raw = [] := by
  constructor
  · intro h0
    obtain ⟨k, k1, k2, k3, _⟩ := Bzip2Rle.write_spec raw { cap := cap } 0 [] (Bzip2Rle.inv_init cap) (by simp)
    unfold Feeds at h
    rw [h] at k1 k3
    simp only [Nat.zero_add, List.nil_append] at k1 k3
    rw [← k1, List.take_length] at k3
    have hd := Bzip2Rle.inv_dec _ _ k3
    have : r.out.toList = [] := by
      apply List.eq_nil_of_length_eq_zero
      simpa using h0
    rw [this] at hd
    simp [Bzip2Rle.dec, Bzip2Rle.dfin, Bzip2Rle.dinit] at hd
    exact hd
  · intro h0
    subst h0
    rw [feeds_nil_eq cap r h]
    rfl

/-- a successful `flush` of a non-empty block: the bit writer has now been shown the block too. -/
theorem flushBlk_emit (s : BzW) (fl) (B : Bits) (hb : BitsOK s fl B) (h0 : s.rle.out.size ≠ 0) (he : (s.flushBlk).err = none) :
    (∃ B', BitsOK s.flushBlk (fl ++ [(s.rle.out.toList, s.raw)]) B') ∧
    (s.flushBlk).raw = [] ∧ (s.flushBlk).rle = { cap := s.rle.cap } ∧ (s.flushBlk).level = s.level ∧
    (s.flushBlk).acc = s.acc ∧ (s.flushBlk).base = s.base ∧ (s.flushBlk).wrHdr = true := by
  unfold BzW.flushBlk at he ⊢
  rw [if_neg h0] at he ⊢
  have hfl := flat_encodeBlockF s.rle.out.toList (blockCRC s.raw)
  cases hbf : encodeBlockF s.rle.out.toList (blockCRC s.raw) with
  | none => rw [hbf] at he; simp at he
  | some bf =>
    rw [hbf] at hfl he
    simp only [Option.map_some] at hfl
    simp only [] at he ⊢
    generalize hfs : ((if s.wrHdr = true then [] else hdrFields s.level) ++ bf) = fs at he ⊢
    by_cases hs : (s.script fs).err ≠ none
    · rw [if_pos hs] at he; exact absurd he hs
    · rw [if_neg hs] at he ⊢
      simp only [ne_eq, Decidable.not_not] at hs
      have hp : ∀ f ∈ fs, f.2 ≠ FKind.pad := by
        rw [← hfs]
        intro f hf
        rcases List.mem_append.1 hf with hf | hf
        · split at hf
          · cases hf
          · exact noPad_hdrFields _ f hf
        · exact noPad_encodeBlockF _ _ _ hbf f hf
      obtain ⟨v1, v2, v3⟩ := script_view s fs hp hs
      refine ⟨⟨B ++ flat bf, ?_⟩, rfl, rfl, rfl, rfl, rfl, rfl⟩
      constructor
      · show (fl ++ [(s.rle.out.toList, s.raw)]).foldl blkStep (some (hdrBits s.level, 0)) = _
        rw [List.foldl_append, hb.fold]
        simp only [List.foldl_cons, List.foldl_nil, blkStep, ← hfl]
      · show view (s.script fs).bw = Bits.ofBytesMSB s.base ++ (if true = true then B ++ flat bf else [])
        rw [v1, hb.view, ← hfs, flat_append]
        cases hw : s.wrHdr with
        | true => simp [flat_nil]
        | false =>
          have := bitsOK_B s fl B hb hw
          simp [flat_hdrFields, this, hdrBits]
      · intro h; cases h
      · exact v2
      · exact v3

theorem splitOK_flush (s : BzW) (all : List UInt8) (b : UInt8) (y : List UInt8) (fl) (h : SplitOK s all (b :: y) fl)
    (hp : s.rle.put b = none) (s' : BzW) (hraw : s'.raw = []) (hrle : s'.rle = { cap := s.rle.cap }) (hl : s'.level = s.level) :
    SplitOK s' all (b :: y) (fl ++ [(s.rle.out.toList, s.raw)]) := by
  have hc := cap_pos s all (b :: y) fl h
  constructor
  · rw [hrle, hl]; exact h.cap
  · rw [hl]; exact h.lvl
  · rw [hrle, hraw]; exact feeds_nil _
  · intro rest
    rw [hrle, hraw]
    simp only []
    rw [h.split rest, List.append_assoc s.raw, List.cons_append,
      splitBlocks_block s.rle.cap hc s.raw s.rle h.feeds b (y ++ rest) hp]
    simp

/-- the Write loop keeps the invariant; when it reports success everything was taken. -/
theorem writeLoop_exact : ∀ (fuel : Nat) (s : BzW) (all data : List UInt8) (fl) (B : Bits),
    SplitOK s all data fl → BitsOK s fl B → (BzW.writeLoop fuel s data).2 = true →
    ∃ fl' B', SplitOK (BzW.writeLoop fuel s data).1 all [] fl' ∧ BitsOK (BzW.writeLoop fuel s data).1 fl' B' ∧
      (BzW.writeLoop fuel s data).1.acc = s.acc ∧ (BzW.writeLoop fuel s data).1.base = s.base
  | 0, s, all, data, fl, B, _, _, h => by simp [BzW.writeLoop] at h
  | fuel+1, s, all, data, fl, B, hs, hb, h => by
    rw [BzW.writeLoop] at h ⊢
    simp only [] at h ⊢
    -- the state after the RLE1 stage took what it could
    have hs1 : SplitOK { s with rle := (RleW.write s.rle data 0).1, raw := s.raw ++ data.take (RleW.write s.rle data 0).2 } all
        (data.drop (RleW.write s.rle data 0).2) fl := by
      have hcap : (RleW.write s.rle data 0).1.cap = s.rle.cap := by
        obtain ⟨k, _, _, _, _, k5, _⟩ := Bzip2Rle.write_spec data s.rle 0 s.raw (by
          obtain ⟨k, k1, k2, k3, _⟩ := Bzip2Rle.write_spec s.raw { cap := s.rle.cap } 0 [] (Bzip2Rle.inv_init _) (by simp)
          have hf := hs.feeds
          unfold Feeds at hf
          rw [hf] at k1 k3
          simp only [Nat.zero_add, List.nil_append] at k1 k3
          rw [← k1, List.take_length] at k3
          exact k3) (by
          obtain ⟨k, k1, k2, k3, k4, _⟩ := Bzip2Rle.write_spec s.raw { cap := s.rle.cap } 0 [] (Bzip2Rle.inv_init _) (by simp)
          have hf := hs.feeds
          unfold Feeds at hf
          rw [hf] at k4
          simpa using k4)
        exact k5
      constructor
      · show (RleW.write s.rle data 0).1.cap = _
        rw [hcap]; exact hs.cap
      · exact hs.lvl
      · show Feeds (RleW.write s.rle data 0).1.cap _ _
        rw [hcap]; exact feeds_step _ _ _ hs.feeds data
      · intro rest
        show splitBlocks (RleW.write s.rle data 0).1.cap _ _ = _
        rw [hcap, hs.split rest]
        simp only [List.append_assoc, List.take_append_drop]
    have hb1 : BitsOK { s with rle := (RleW.write s.rle data 0).1, raw := s.raw ++ data.take (RleW.write s.rle data 0).2 } fl B :=
      ⟨hb.fold, hb.view, hb.nohdr, hb.stage, hb.bits⟩
    generalize hs1d : ({ s with rle := (RleW.write s.rle data 0).1, raw := s.raw ++ data.take (RleW.write s.rle data 0).2 } : BzW) = s1 at *
    have hacc1 : s1.acc = s.acc ∧ s1.base = s.base := by rw [← hs1d]; exact ⟨rfl, rfl⟩
    cases hrest : data.drop (RleW.write s.rle data 0).2 with
    | nil =>
      rw [hrest] at hs1
      simp only [List.isEmpty_nil, if_true]
      exact ⟨fl, B, hs1, hb1, hacc1.1, hacc1.2⟩
    | cons b y =>
      rw [hrest] at hs1 h
      simp only [List.isEmpty_cons, Bool.false_eq_true, if_false] at h ⊢
      have hput : s1.rle.put b = none := by
        have := (write_stop data s.rle).2 b y hrest
        rw [← hs1d]; exact this
      by_cases he : (s1.flushBlk).err ≠ none
      · rw [if_pos he] at h; cases h
      · rw [if_neg he] at h ⊢
        simp only [ne_eq, Decidable.not_not] at he
        have hraw1 : s1.raw ≠ [] := by
          intro h0
          have hc := cap_pos s1 all (b :: y) fl hs1
          have hf := hs1.feeds
          rw [h0] at hf
          have := feeds_nil_eq _ _ hf
          obtain ⟨r', hr'⟩ := put_fresh_some s1.rle.cap hc b
          rw [this] at hput
          rw [hr'] at hput
          cases hput
        have h0 : s1.rle.out.size ≠ 0 := fun hx => hraw1 ((out_empty_iff _ _ _ hs1.feeds).1 hx)
        obtain ⟨⟨B', hb2⟩, e1, e2, e3, e4, e5, _⟩ := flushBlk_emit s1 fl B hb1 h0 he
        have hs2 := splitOK_flush s1 all b y fl hs1 hput s1.flushBlk e1 e2 e3
        obtain ⟨fl', B'', r1, r2, r3, r4⟩ := writeLoop_exact fuel s1.flushBlk all (b :: y) _ B' hs2 hb2 h
        exact ⟨fl', B'', r1, r2, by rw [r3, e4, hacc1.1], by rw [r4, e5, hacc1.2]⟩

end Compress.Proofs.BzWApi
