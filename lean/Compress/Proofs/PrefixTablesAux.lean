/-
Auxiliary lemmas for `PrefixTables`: arrays, `fillStride`, bit lists, folds.
-/
import Compress.Prefix.Spec

namespace Compress.Proofs.PrefixTables
open Compress Compress.Prefix

theorem getD_set! {α} (a : Array α) (i j : Nat) (v d : α) :
    (a.set! i v).getD j d = if i = j ∧ j < a.size then v else a.getD j d := by
  simp only [Array.getD_eq_getD_getElem?, Array.set!_eq_setIfInBounds, Array.getElem?_setIfInBounds]
  by_cases h : i = j
  · subst h
    by_cases h2 : i < a.size <;> simp [h2]
  · simp [h]

theorem size_set! {α} (a : Array α) (i : Nat) (v : α) : (a.set! i v).size = a.size := by
  simp [Array.set!_eq_setIfInBounds]

theorem getD_replicate {α} (n j : Nat) (v d : α) :
    (Array.replicate n v).getD j d = if j < n then v else d := by
  simp only [Array.getD_eq_getD_getElem?, Array.getElem?_replicate]
  split <;> simp

theorem getD_of_size_le {α} (a : Array α) (j : Nat) (d : α) (h : a.size ≤ j) : a.getD j d = d := by
  simp [Array.getD_eq_getD_getElem?, h]

/-! ### fillStride -/

theorem fillStride_go_size (skip v fuel j : Nat) (t : Array Nat) :
    (fillStride.go skip v fuel j t).size = t.size := by
  induction fuel generalizing j t with
  | zero => simp [fillStride.go]
  | succ n ih =>
    simp only [fillStride.go]
    split
    · rw [ih, size_set!]
    · rfl

theorem fillStride_size (t : Array Nat) (s k x : Nat) : (fillStride t s k x).size = t.size := by
  unfold fillStride
  split
  · rfl
  · exact fillStride_go_size ..

theorem fillStride_go_getD (skip v : Nat) (hk : 0 < skip) (fuel j0 : Nat) (t : Array Nat)
    (hf : t.size ≤ fuel + j0) (j d : Nat) :
    (fillStride.go skip v fuel j0 t).getD j d =
      if j < t.size ∧ j0 ≤ j ∧ (j - j0) % skip = 0 then v else t.getD j d := by
  induction fuel generalizing j0 t with
  | zero =>
    simp only [fillStride.go]
    have : ¬ (j < t.size ∧ j0 ≤ j ∧ (j - j0) % skip = 0) := by omega
    simp [this]
  | succ n ih =>
    simp only [fillStride.go]
    split
    · rename_i hlt
      rw [ih (j0 + skip) (t.set! j0 v) (by rw [size_set!]; omega), size_set!, getD_set!]
      by_cases hj : j0 = j
      · subst hj
        simp [hlt]
      · by_cases hjs : j0 + skip ≤ j
        · have e : (j - j0) % skip = (j - (j0 + skip)) % skip := by
            have : j - j0 = (j - (j0 + skip)) + skip := by omega
            rw [this, Nat.add_mod_right]
          have h1 : j0 ≤ j := by omega
          simp [hj, hjs, h1, e]
        · have h1 : ¬ (j < t.size ∧ j0 + skip ≤ j ∧ (j - (j0 + skip)) % skip = 0) := by omega
          have h2 : ¬ (j < t.size ∧ j0 ≤ j ∧ (j - j0) % skip = 0) := by
            intro ⟨_, h3, h4⟩
            have : j - j0 < skip := by omega
            rw [Nat.mod_eq_of_lt this] at h4
            omega
          simp [h1, h2, hj]
    · rename_i hlt
      have : ¬ (j < t.size ∧ j0 ≤ j ∧ (j - j0) % skip = 0) := by omega
      simp [this]

/-- with `start < skip`, `fillStride` writes exactly the indices `≡ start (mod skip)`. -/
theorem fillStride_getD (t : Array Nat) (s k x : Nat) (hs : s < k) (j d : Nat) :
    (fillStride t s k x).getD j d = if j < t.size ∧ j % k = s then x else t.getD j d := by
  unfold fillStride
  have hk : k ≠ 0 := by omega
  simp only [hk, if_false]
  rw [fillStride_go_getD k x (by omega) t.size s t (by omega)]
  have : (s ≤ j ∧ (j - s) % k = 0) ↔ j % k = s := by
    constructor
    · intro ⟨h1, h2⟩
      have : j = (j - s) + s := by omega
      rw [this, Nat.add_mod, h2, Nat.zero_add, Nat.mod_mod, Nat.mod_eq_of_lt hs]
    · intro h
      have h3 := Nat.mod_add_div j k
      have h1 : s ≤ j := by rw [← h]; exact Nat.mod_le _ _
      refine ⟨h1, ?_⟩
      have : j - s = k * (j / k) := by omega
      rw [this, Nat.mul_mod_right]
  simp only [this]

/-! ### bit lists -/

theorem ofNat_length (v n : Nat) : (Bits.ofNat v n).length = n := by
  induction n generalizing v with
  | zero => rfl
  | succ n ih => simp [Bits.ofNat, ih]

theorem toNat_ofNat_append (v n : Nat) (r : Bits) :
    Bits.toNat (Bits.ofNat v n ++ r) = v % 2 ^ n + 2 ^ n * Bits.toNat r := by
  induction n generalizing v with
  | zero => simp [Bits.ofNat, Nat.mod_one]
  | succ n ih =>
    simp only [Bits.ofNat, List.cons_append, Bits.toNat, ih]
    have h1 : v % 2 ^ (n + 1) = v % 2 + 2 * (v / 2 % 2 ^ n) := by
      rw [Nat.pow_succ, Nat.mul_comm, Nat.mod_mul]
    rw [h1, Nat.pow_succ]
    have : (if (v % 2 == 1) = true then 1 else 0) = v % 2 := by
      rcases Nat.mod_two_eq_zero_or_one v with h | h <;> simp [h]
    rw [this, Nat.mul_add, Nat.mul_comm (2 ^ n) 2, Nat.mul_assoc]
    omega

theorem ofNat_mod (v n : Nat) : Bits.ofNat (v % 2 ^ n) n = Bits.ofNat v n := by
  induction n generalizing v with
  | zero => rfl
  | succ n ih =>
    simp only [Bits.ofNat]
    have h1 : v % 2 ^ (n + 1) % 2 = v % 2 := by
      rw [Nat.pow_succ, Nat.mul_comm]; exact Nat.mod_mul_right_mod v 2 (2^n)
    have h2 : v % 2 ^ (n + 1) / 2 = v / 2 % 2 ^ n := by
      rw [Nat.pow_succ, Nat.mul_comm]; exact Nat.mod_mul_right_div_self v 2 (2^n)
    rw [h1, h2, ih]

theorem ofNat_prefix (v n m : Nat) (h : n ≤ m) : Bits.ofNat v n <+: Bits.ofNat v m := by
  induction n generalizing v m with
  | zero => exact List.nil_prefix
  | succ n ih =>
    cases m with
    | zero => omega
    | succ m =>
      simp only [Bits.ofNat]
      rw [List.cons_prefix_cons]
      exact ⟨rfl, ih _ _ (by omega)⟩

/-- two codes of a prefix-free list that both match the same bit-buffer value are equal. -/
theorem claim_unique (cs : List Code) (pf : PrefixFree cs) (a b : Code) (ha : a ∈ cs) (hb : b ∈ cs)
    (J : Nat) (hja : J % 2 ^ a.len = a.val) (hjb : J % 2 ^ b.len = b.val) : a = b := by
  apply Classical.byContradiction
  intro hne
  rcases Nat.le_total a.len b.len with hl | hl
  · apply pf a ha b hb hne
    unfold Code.word
    rw [← hja, ← hjb, ofNat_mod, ofNat_mod]
    exact ofNat_prefix _ _ _ hl
  · apply pf b hb a ha (Ne.symm hne)
    unfold Code.word
    rw [← hja, ← hjb, ofNat_mod, ofNat_mod]
    exact ofNat_prefix _ _ _ hl

/-! ### arithmetic, folds -/

theorem combine_mod (CB len lo j val : Nat) (hl : CB < len) (hlo : lo = val % 2 ^ CB)
    (hj : j % 2 ^ (len - CB) = val / 2 ^ CB) : (lo + 2 ^ CB * j) % 2 ^ len = val := by
  have hpos : 0 < 2 ^ CB := Nat.two_pow_pos CB
  have e : 2 ^ len = 2 ^ CB * 2 ^ (len - CB) := by
    rw [← Nat.pow_add]; congr 1; omega
  have hlt : lo < 2 ^ CB := by rw [hlo]; exact Nat.mod_lt _ hpos
  rw [e, Nat.mod_mul, Nat.add_mul_mod_self_left, Nat.mod_eq_of_lt hlt,
    Nat.add_mul_div_left _ _ hpos, Nat.div_eq_of_lt hlt, Nat.zero_add, hj, hlo]
  exact Nat.mod_add_div _ _

theorem div_lt_pow (CB len val : Nat) (hl : CB < len) (hv : val < 2 ^ len) :
    val / 2 ^ CB < 2 ^ (len - CB) := by
  apply Nat.div_lt_of_lt_mul
  rw [← Nat.pow_add]
  have : CB + (len - CB) = len := by omega
  rw [this]; exact hv

theorem foldl_inv {α β} (f : α → β → α) (P : α → List β → Prop) (l : List β) (init : α)
    (h0 : P init [])
    (hstep : ∀ st done c, c ∈ l → (∀ x ∈ done, x ∈ l) → P st done → P (f st c) (done ++ [c])) :
    P (l.foldl f init) l := by
  have key : ∀ suf pre st, pre ++ suf = l → P st pre → P (suf.foldl f st) l := by
    intro suf
    induction suf with
    | nil => intro pre st h hp; simp at h; subst h; exact hp
    | cons c suf ih =>
      intro pre st h hp
      simp only [List.foldl_cons]
      apply ih (pre ++ [c]) (f st c) (by simp [← h])
      apply hstep st pre c (by simp [← h]) (by intro x hx; simp [← h, hx]) hp
  exact key l [] init rfl h0


theorem foldl_inv' {α β} (f : α → β → α) (P : α → List β → Prop) (l : List β) (init : α)
    (h0 : P init [])
    (hstep : ∀ st done c suf, done ++ c :: suf = l → P st done → P (f st c) (done ++ [c])) :
    P (l.foldl f init) l := by
  have key : ∀ suf pre st, pre ++ suf = l → P st pre → P (suf.foldl f st) l := by
    intro suf
    induction suf with
    | nil => intro pre st h hp; simp at h; subst h; exact hp
    | cons c suf ih =>
      intro pre st h hp
      simp only [List.foldl_cons]
      apply ih (pre ++ [c]) (f st c) (by simp [← h])
      exact hstep st pre c suf h hp
  exact key l [] init rfl h0

end Compress.Proofs.PrefixTables
