/-
Auxiliary lemmas for `Compress.Proofs.XFlateWriterLatch`: every internal step of
the xflate.Writer model (popEv, flushSync, zReset, emitBlocks, encodeIndexStep,
flushFull, flushIndex, writeLoop, write, flush, closeW)
* only appends to the sink and moves `outOff` by the number of appended bytes,
* leaves `inOff` alone and never clears `bad`            (`Rel`),
* keeps "sink.failed → err is an error other than closed" (`OK`).
-/
import Compress.XFlate.WriterSpec

namespace Compress.Proofs.XFlateWriterLatch
open Compress Compress.XFlate

def ZS (o : List ZEv) : Prop := ∀ ev ∈ o, ev.sinkFailed = true → ev.err ≠ none ∧ ev.err ≠ some .closed
def Inv (s : XWState) : Prop := s.sink.failed = true → s.err ≠ none ∧ s.err ≠ some .closed
def OK (s : XWState) : Prop := ZS s.oracle ∧ Inv s

structure Rel (s s' : XWState) : Prop where
  got : ∃ suf, s'.sink.got = s.sink.got ++ suf ∧ s'.outOff = s.outOff + (suf.length : Int)
  inOff : s'.inOff = s.inOff
  bad : s.bad = true → s'.bad = true
  zs : ZS s.oracle → ZS s'.oracle

theorem Rel.refl (s : XWState) : Rel s s := ⟨⟨[], by simp⟩, rfl, id, id⟩

theorem Rel.trans {a b c : XWState} (h1 : Rel a b) (h2 : Rel b c) : Rel a c := by
  obtain ⟨⟨u, hu1, hu2⟩, i1, b1, z1⟩ := h1
  obtain ⟨⟨v, hv1, hv2⟩, i2, b2, z2⟩ := h2
  refine ⟨⟨u ++ v, ?_, ?_⟩, i2.trans i1, fun h => b2 (b1 h), fun h => z2 (z1 h)⟩
  · rw [hv1, hu1, List.append_assoc]
  · rw [hv2, hu2, List.length_append]; omega

/-! popEv -/
section popEv
variable (s : XWState) (k : ZKind)
@[simp] theorem popEv_sink : (popEv s k).2.sink = s.sink := by unfold popEv; split <;> (try split) <;> rfl
@[simp] theorem popEv_err : (popEv s k).2.err = s.err := by unfold popEv; split <;> (try split) <;> rfl
@[simp] theorem popEv_outOff : (popEv s k).2.outOff = s.outOff := by unfold popEv; split <;> (try split) <;> rfl
@[simp] theorem popEv_inOff : (popEv s k).2.inOff = s.inOff := by unfold popEv; split <;> (try split) <;> rfl
@[simp] theorem popEv_zwIn : (popEv s k).2.zwIn = s.zwIn := by unfold popEv; split <;> (try split) <;> rfl
@[simp] theorem popEv_zwOut : (popEv s k).2.zwOut = s.zwOut := by unfold popEv; split <;> (try split) <;> rfl
@[simp] theorem popEv_nchk : (popEv s k).2.nchk = s.nchk := by unfold popEv; split <;> (try split) <;> rfl
theorem popEv_bad (h : s.bad = true) : (popEv s k).2.bad = true := by
  unfold popEv; split <;> (try split) <;> simp [h]
theorem popEv_zs (h : ZS s.oracle) : ZS (popEv s k).2.oracle ∧
    ((popEv s k).fst.sinkFailed = true → (popEv s k).fst.err ≠ none ∧ (popEv s k).fst.err ≠ some .closed) := by
  unfold popEv
  split
  · rename_i ev rest heq
    rw [heq] at h
    have h1 : ZS rest := fun e he => h e (List.mem_cons_of_mem _ he)
    have h2 := h ev (List.mem_cons_self ..)
    split <;> exact ⟨h1, h2⟩
  · exact ⟨h, by simp⟩
end popEv

/-! sink -/
theorem absorb_got (k : Sink) (em : List UInt8) (f : Bool) : (k.absorb em f).got = k.got ++ em := rfl
theorem absorb_failed (k : Sink) (em : List UInt8) (f : Bool) : (k.absorb em f).failed = (k.failed || f) := rfl

theorem sink_write_spec (k : Sink) (b : List UInt8) :
    (∃ suf, (k.write b).1.got = k.got ++ suf ∧ (k.write b).2.1 = suf.length) ∧
    ((k.write b).2.2 = none → (k.write b).1.failed = k.failed) ∧
    (∀ e, (k.write b).2.2 = some e → e ≠ .closed) := by
  unfold Sink.write
  split
  · exact ⟨⟨b, rfl, rfl⟩, by simp⟩
  · rename_i n _
    split
    · exact ⟨⟨b, rfl, rfl⟩, by simp⟩
    · refine ⟨⟨b.take (match k.mode with | .hard => 0 | .short => n), rfl, ?_⟩, by simp, by simp⟩
      simp only [List.length_take]
      cases k.mode <;> simp <;> omega

theorem emitBlocks_spec (bs : List (List UInt8)) : ∀ (k : Sink) (acc : Nat),
    (∃ suf, (emitBlocks k bs acc).1.got = k.got ++ suf ∧ (emitBlocks k bs acc).2.1 = acc + suf.length) ∧
    ((emitBlocks k bs acc).2.2 = none → (emitBlocks k bs acc).1.failed = k.failed) ∧
    (∀ e, (emitBlocks k bs acc).2.2 = some e → e ≠ .closed) := by
  induction bs with
  | nil => intro k acc; exact ⟨⟨[], by simp [emitBlocks]⟩, by simp [emitBlocks]⟩
  | cons b bs ih =>
    intro k acc
    obtain ⟨⟨u, hu1, hu2⟩, hf, he⟩ := sink_write_spec k b
    unfold emitBlocks
    generalize hw : k.write b = w at *
    obtain ⟨k', cnt, e⟩ := w
    dsimp only at *
    cases e with
    | some err =>
      dsimp only
      exact ⟨⟨u, hu1, by omega⟩, by simp, by simpa using he err⟩
    | none =>
      dsimp only
      obtain ⟨⟨v, hv1, hv2⟩, hf', he'⟩ := ih k' (acc + cnt)
      refine ⟨⟨u ++ v, ?_, ?_⟩, ?_, he'⟩
      · rw [hv1, hu1, List.append_assoc]
      · rw [hv2, hu2, List.length_append]; omega
      · intro h; rw [hf' h, hf rfl]

/-! state-level steps -/
theorem flushSync_eq (s : XWState) : flushSync s =
    { (popEv s .zflush).2 with
      zwOut := s.zwOut + (popEv s .zflush).fst.emitted.length,
      outOff := s.outOff + (popEv s .zflush).fst.emitted.length,
      sink := s.sink.absorb (popEv s .zflush).fst.emitted (popEv s .zflush).fst.sinkFailed,
      err := (popEv s .zflush).fst.err,
      zlog := (popEv s .zflush).2.zlog ++ [((popEv s .zflush).1, [])] } := by
  simp [flushSync]

theorem zReset_eq (s : XWState) : zReset s =
    { (popEv s .zreset).2 with
      zwIn := (0 : Int)
      zwOut := (0 : Int)
      zlog := (popEv s .zreset).2.zlog ++ [((popEv s .zreset).1, [])] } := by
  simp [zReset]

theorem flushSync_rel (s : XWState) : Rel s (flushSync s) := by
  rw [flushSync_eq]
  refine ⟨⟨(popEv s .zflush).fst.emitted, ?_, ?_⟩, ?_, ?_, ?_⟩
  · simp [absorb_got]
  · simp
  · simp
  · exact popEv_bad s _
  · exact fun h => (popEv_zs s _ h).1

theorem flushSync_ok (s : XWState) (h : OK s) (he : s.err = none) : OK (flushSync s) := by
  have hf : s.sink.failed = false := by
    cases hh : s.sink.failed with
    | false => rfl
    | true => exact absurd he (h.2 hh).1
  obtain ⟨h1, h2⟩ := popEv_zs s .zflush h.1
  rw [flushSync_eq]
  refine ⟨h1, ?_⟩
  simp only [Inv, absorb_failed, hf, Bool.false_or]
  exact h2

theorem zReset_rel (s : XWState) : Rel s (zReset s) := by
  rw [zReset_eq]
  refine ⟨⟨[], ?_, ?_⟩, ?_, ?_, ?_⟩
  · simp
  · simp
  · simp
  · exact popEv_bad s _
  · exact fun h => (popEv_zs s _ h).1

theorem zReset_ok (s : XWState) (h : OK s) : OK (zReset s) := by
  rw [zReset_eq]
  refine ⟨(popEv_zs s _ h.1).1, ?_⟩
  simpa [Inv] using h.2

@[simp] theorem zReset_err (s : XWState) : (zReset s).err = s.err := by rw [zReset_eq]; simp

theorem failed_false_of_ok {s : XWState} (h : OK s) (he : s.err = none) : s.sink.failed = false := by
  cases hh : s.sink.failed with
  | false => rfl
  | true => exact absurd he (h.2 hh).1

theorem encodeIndexStep_rel (crc : List UInt8 → Nat) (s : XWState) : Rel s (encodeIndexStep crc s) := by
  unfold encodeIndexStep
  split
  · exact ⟨⟨[], by simp⟩, rfl, id, id⟩
  · rename_i blocks _
    obtain ⟨⟨u, hu1, hu2⟩, -, -⟩ := emitBlocks_spec blocks s.sink 0
    generalize emitBlocks s.sink blocks 0 = r at *
    obtain ⟨sk, acc, e⟩ := r
    dsimp only at *
    have hacc : (acc : Int) = (u.length : Int) := by omega
    split
    · exact ⟨⟨u, hu1, by simp [hacc]⟩, rfl, id, id⟩
    · exact ⟨⟨u, hu1, by simp [hacc]⟩, rfl, id, id⟩

theorem encodeIndexStep_ok (crc : List UInt8 → Nat) (s : XWState) (h : OK s) (he : s.err = none) :
    OK (encodeIndexStep crc s) := by
  have hf := failed_false_of_ok h he
  unfold encodeIndexStep
  split
  · exact ⟨h.1, fun _ => by simp⟩
  · rename_i blocks _
    obtain ⟨-, hf', he'⟩ := emitBlocks_spec blocks s.sink 0
    generalize emitBlocks s.sink blocks 0 = r at *
    obtain ⟨sk, acc, e⟩ := r
    dsimp only at *
    split
    · rename_i err
      exact ⟨h.1, fun _ => ⟨by simp, by simpa using he' err⟩⟩
    · refine ⟨h.1, fun hh => ?_⟩
      dsimp only at hh
      rw [hf' rfl, hf] at hh
      exact absurd hh (by simp)

theorem flushFull_rel (crc : List UInt8 → Nat) (s : XWState) : Rel s (flushFull crc s) := by
  unfold flushFull
  dsimp only
  split
  · exact flushSync_rel s
  · refine (flushSync_rel s).trans ?_
    generalize flushSync s = t
    have h1 : Rel t { t with recs := (appendRecord t.recs t.zwOut t.zwIn deflateType).getD t.recs,
                                     allRecs := (appendRecord t.allRecs t.zwOut t.zwIn deflateType).getD t.allRecs } :=
      ⟨⟨[], by simp⟩, rfl, id, id⟩
    refine h1.trans ?_
    refine (zReset_rel _).trans ?_
    split
    · exact encodeIndexStep_rel crc _
    · exact Rel.refl _

theorem flushFull_ok (crc : List UInt8 → Nat) (s : XWState) (h : OK s) (he : s.err = none) :
    OK (flushFull crc s) := by
  have h0 := flushSync_ok s h he
  unfold flushFull
  dsimp only
  split
  · exact h0
  · rename_i hn
    generalize flushSync s = t at *
    have hn' : t.err = none := by simpa using hn
    have h1 : OK { t with recs := (appendRecord t.recs t.zwOut t.zwIn deflateType).getD t.recs,
                                     allRecs := (appendRecord t.allRecs t.zwOut t.zwIn deflateType).getD t.allRecs } := h0
    have h2 := zReset_ok _ h1
    split
    · exact encodeIndexStep_ok crc _ h2 (by simpa using hn')
    · exact h2

theorem flushIndex_rel (crc : List UInt8 → Nat) (s : XWState) : Rel s (flushIndex crc s) := by
  unfold flushIndex
  split
  · dsimp only
    split
    · exact flushFull_rel crc s
    · exact (flushFull_rel crc s).trans (encodeIndexStep_rel crc _)
  · exact encodeIndexStep_rel crc s

theorem flushIndex_ok (crc : List UInt8 → Nat) (s : XWState) (h : OK s) (he : s.err = none) :
    OK (flushIndex crc s) := by
  unfold flushIndex
  split
  · dsimp only
    split
    · exact flushFull_ok crc s h he
    · rename_i hn
      exact encodeIndexStep_ok crc _ (flushFull_ok crc s h he) (by simpa using hn)
  · exact encodeIndexStep_ok crc s h he

/-- the state after one compressor `Write` inside the loop. -/
def wStep (s : XWState) (data : List UInt8) : XWState :=
  let take := min (s.nchk - s.zwIn).toNat data.length
  let p := popEv s .zwrite
  let s1 := if p.1.n > take then { p.2 with bad := true } else p.2
  { s1 with zwIn := s1.zwIn + p.1.n, zwOut := s1.zwOut + p.1.emitted.length,
            outOff := s1.outOff + p.1.emitted.length,
            sink := s1.sink.absorb p.1.emitted p.1.sinkFailed, err := p.1.err,
            zlog := s1.zlog ++ [(p.1, data.take p.1.n)] }

theorem writeLoop_succ (crc : List UInt8 → Nat) (fuel : Nat) (s : XWState) (data : List UInt8) (cnt : Nat) :
    writeLoop crc (fuel+1) s data cnt =
      if data.isEmpty ∨ s.err ≠ none then (s, cnt)
      else if s.nchk - s.zwIn ≤ 0 then writeLoop crc fuel (flushFull crc s) data cnt
      else writeLoop crc fuel (wStep s data) (data.drop (popEv s .zwrite).1.n) (cnt + (popEv s .zwrite).1.n) := by
  rw [writeLoop]
  rfl

theorem wStep_rel (s : XWState) (data : List UInt8) : Rel s (wStep s data) := by
  unfold wStep
  dsimp only
  refine ⟨⟨(popEv s .zwrite).1.emitted, ?_, ?_⟩, ?_, ?_, ?_⟩
  · split <;> simp [absorb_got]
  · split <;> simp
  · split <;> simp
  · intro h; split
    · rfl
    · exact popEv_bad s _ h
  · intro h
    have := (popEv_zs s .zwrite h).1
    split <;> exact this

theorem wStep_ok (s : XWState) (data : List UInt8) (h : OK s) (he : s.err = none) : OK (wStep s data) := by
  have hf := failed_false_of_ok h he
  obtain ⟨h1, h2⟩ := popEv_zs s .zwrite h.1
  unfold wStep
  dsimp only
  refine ⟨by split <;> exact h1, ?_⟩
  simp only [Inv, absorb_failed]
  split <;> simpa [hf] using h2

theorem wStep_bad (s : XWState) (data : List UInt8) :
    (wStep s data).bad = true ∨ (popEv s .zwrite).1.n ≤ data.length := by
  unfold wStep
  dsimp only
  split
  · left; rfl
  · right; omega

theorem writeLoop_rel (crc : List UInt8 → Nat) : ∀ (fuel : Nat) (s : XWState) (data : List UInt8) (cnt : Nat),
    Rel s (writeLoop crc fuel s data cnt).1 := by
  intro fuel
  induction fuel with
  | zero => intro s data cnt; rw [writeLoop]; exact Rel.refl s
  | succ fuel ih =>
    intro s data cnt
    rw [writeLoop_succ]
    split
    · exact Rel.refl s
    · split
      · exact (flushFull_rel crc s).trans (ih _ _ _)
      · exact (wStep_rel s data).trans (ih _ _ _)

theorem writeLoop_ok (crc : List UInt8 → Nat) : ∀ (fuel : Nat) (s : XWState) (data : List UInt8) (cnt : Nat),
    OK s → OK (writeLoop crc fuel s data cnt).1 := by
  intro fuel
  induction fuel with
  | zero => intro s data cnt h; rw [writeLoop]; exact h
  | succ fuel ih =>
    intro s data cnt h
    rw [writeLoop_succ]
    split
    · exact h
    · rename_i hc
      have he : s.err = none := by
        cases hh : s.err with
        | none => rfl
        | some e => exact absurd (Or.inr (by simp [hh])) hc
      split
      · exact ih _ _ _ (flushFull_ok crc s h he)
      · exact ih _ _ _ (wStep_ok s data h he)

theorem writeLoop_cnt (crc : List UInt8 → Nat) : ∀ (fuel : Nat) (s : XWState) (data : List UInt8) (cnt : Nat),
    (writeLoop crc fuel s data cnt).1.bad = true ∨ (writeLoop crc fuel s data cnt).2 ≤ cnt + data.length := by
  intro fuel
  induction fuel with
  | zero => intro s data cnt; rw [writeLoop]; right; simp
  | succ fuel ih =>
    intro s data cnt
    rw [writeLoop_succ]
    split
    · right; simp
    · split
      · exact ih _ _ _
      · rcases wStep_bad s data with hb | hn
        · left; exact (writeLoop_rel crc fuel _ _ _).bad hb
        · rcases ih (wStep s data) (data.drop (popEv s .zwrite).1.n) (cnt + (popEv s .zwrite).1.n) with h | h
          · left; exact h
          · right
            rw [List.length_drop] at h
            omega

/-! whole operations -/
def Out (s s' : XWState) : Prop :=
  ∃ suf, s'.sink.got = s.sink.got ++ suf ∧ s'.outOff = s.outOff + (suf.length : Int)

theorem write_out (crc : List UInt8 → Nat) (s : XWState) (d : List UInt8) : Out s (write crc s d).1 := by
  unfold write
  split
  · exact ⟨[], by simp⟩
  · exact (writeLoop_rel crc _ s d 0).got

theorem write_ok (crc : List UInt8 → Nat) (s : XWState) (d : List UInt8) (h : OK s) : OK (write crc s d).1 := by
  unfold write
  split
  · exact h
  · exact writeLoop_ok crc _ s d 0 h

theorem flush_out (crc : List UInt8 → Nat) (s : XWState) (m : Nat) : Out s (flush crc s m).1 := by
  unfold flush
  split
  · exact ⟨[], by simp⟩
  · split
    · exact (flushSync_rel s).got
    · exact (flushFull_rel crc s).got
    · exact (flushIndex_rel crc s).got
    · exact ⟨[], by simp⟩

theorem flush_ok (crc : List UInt8 → Nat) (s : XWState) (m : Nat) (h : OK s) : OK (flush crc s m).1 := by
  unfold flush
  split
  · exact h
  · rename_i hc
    have he : s.err = none := by simpa using hc
    split
    · exact flushSync_ok s h he
    · exact flushFull_ok crc s h he
    · exact flushIndex_ok crc s h he
    · exact h

theorem close_out (crc : List UInt8 → Nat) (s : XWState) : Out s (closeW crc s).1 := by
  unfold closeW
  split
  · exact ⟨[], by simp⟩
  · split
    · exact ⟨[], by simp⟩
    · have ht : Rel s (if s.zwOut + s.zwIn > 0 ∨ s.recs.length > 0 then flushIndex crc s else s) := by
        split
        · exact flushIndex_rel crc s
        · exact Rel.refl s
      generalize (if s.zwOut + s.zwIn > 0 ∨ s.recs.length > 0 then flushIndex crc s else s) = t at *
      obtain ⟨u, hu1, hu2⟩ := ht.got
      dsimp only
      split
      · exact ⟨u, hu1, hu2⟩
      · split
        · exact ⟨u, hu1, hu2⟩
        · rename_i blocks _
          obtain ⟨⟨v, hv1, hv2⟩, -, -⟩ := emitBlocks_spec blocks t.sink 0
          generalize emitBlocks t.sink blocks 0 = r at *
          obtain ⟨sk, acc, e⟩ := r
          dsimp only at *
          have hout : sk.got = s.sink.got ++ (u ++ v) ∧ t.outOff + (acc : Int) = s.outOff + ((u ++ v).length : Int) := by
            refine ⟨by rw [hv1, hu1, List.append_assoc], ?_⟩
            rw [hu2, List.length_append]; omega
          split
          · exact ⟨u ++ v, hout⟩
          · split
            · exact ⟨u ++ v, hout⟩
            · exact ⟨u ++ v, hout⟩

theorem close_ok (crc : List UInt8 → Nat) (s : XWState) (h : OK s) : OK (closeW crc s).1 := by
  unfold closeW
  split
  · exact h
  · split
    · exact h
    · rename_i _ hc
      have he : s.err = none := by simpa using hc
      have ht : OK (if s.zwOut + s.zwIn > 0 ∨ s.recs.length > 0 then flushIndex crc s else s) := by
        split
        · exact flushIndex_ok crc s h he
        · exact h
      generalize (if s.zwOut + s.zwIn > 0 ∨ s.recs.length > 0 then flushIndex crc s else s) = t at *
      dsimp only
      split
      · exact ht
      · rename_i hc'
        have he' : t.err = none := by simpa using hc'
        have hf := failed_false_of_ok ht he'
        split
        · exact ⟨ht.1, fun _ => by simp⟩
        · rename_i blocks _
          obtain ⟨-, hf', he''⟩ := emitBlocks_spec blocks t.sink 0
          generalize emitBlocks t.sink blocks 0 = r at *
          obtain ⟨sk, acc, e⟩ := r
          dsimp only at *
          split
          · rename_i err
            exact ⟨ht.1, fun _ => ⟨by simp, by simpa using he'' err⟩⟩
          · have hsk : sk.failed = false := by rw [hf' rfl, hf]
            split
            · exact ⟨ht.1, fun hh => by simp [hsk] at hh⟩
            · exact ⟨ht.1, fun hh => by simp [hsk] at hh⟩

theorem step_out (crc : List UInt8 → Nat) (s : XWState) (op : WOp) : Out s (stepW crc s op).1 := by
  cases op with
  | write d => exact write_out crc s d
  | flush m => exact flush_out crc s m
  | close => exact close_out crc s

theorem step_ok (crc : List UInt8 → Nat) (s : XWState) (op : WOp) (h : OK s) : OK (stepW crc s op).1 := by
  cases op with
  | write d => exact write_ok crc s d h
  | flush m => exact flush_ok crc s m h
  | close => exact close_ok crc s h

end Compress.Proofs.XFlateWriterLatch
