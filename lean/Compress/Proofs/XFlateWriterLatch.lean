/-
xflate.Writer as a state machine: error latch, Close, counters, configuration
(C13, C18, parts of C05).
-/
import Compress.XFlate.WriterSpec

namespace Compress.Proofs.XFlateWriterLatch
open Compress Compress.XFlate

/-- `NewWriter` refuses exactly the invalid configurations. -/
theorem newWriter_none_iff (level chunk index : Int) (hasConf : Bool) (sink : Sink) (oracle : List ZEv) :
    newWriter level chunk index hasConf sink oracle = none ↔ ¬ ValidConfig level chunk hasConf := by
  sorry

/-- a latched error (other than "closed") makes every later call fail with that
    same error and change nothing. -/
theorem err_sticky (crc : List UInt8 → Nat) (s : XWState) (e : Err) (h : s.err = some e) (hc : e ≠ .closed) (op : WOp) :
    stepW crc s op = (s, match op with | .write _ => .write 0 (some e) | .flush _ => .flush (some e) | .close => .close (some e)) := by
  sorry

/-- after a successful Close: Write and Flush are refused with the "closed"
    error, Close is idempotent, and nothing changes (so no byte reaches the sink). -/
theorem closed_refuses (crc : List UInt8 → Nat) (s : XWState) (h : s.err = some .closed) (op : WOp) :
    stepW crc s op = (s, match op with | .write _ => .write 0 (some .closed) | .flush _ => .flush (some .closed) | .close => .close none) := by
  sorry

/-- Close latches: `nil` means the writer is now closed, an error means that error is latched. -/
theorem close_latches (crc : List UInt8 → Nat) (s : XWState) :
    ((closeW crc s).2 = none → (closeW crc s).1.err = some .closed) ∧
    (∀ e, (closeW crc s).2 = some e → (closeW crc s).1.err = some e) := by
  sorry

/-- an error returned by Write or a valid Flush is latched. -/
theorem op_error_latched (crc : List UInt8 → Nat) (s : XWState) (hs : s.err = none) :
    (∀ d e, (write crc s d).2.2 = some e → (write crc s d).1.err = some e) ∧
    (∀ m e, m ≤ 2 → (flush crc s m).2 = some e → (flush crc s m).1.err = some e) := by
  sorry

/-- the sink only ever grows: every operation appends to what the underlying
    writer already holds. -/
theorem sink_append_only (crc : List UInt8 → Nat) (s : XWState) (op : WOp) :
    ∃ suffix, (stepW crc s op).1.sink.got = s.sink.got ++ suffix := by
  sorry

/-- C13 counters: `OutputOffset` is the number of bytes the sink accepted. -/
theorem outOff_invariant (crc : List UInt8 → Nat) (s : XWState) (h : s.outOff = s.sink.got.length) (op : WOp) :
    (stepW crc s op).1.outOff = (stepW crc s op).1.sink.got.length := by
  sorry

/-- C13 counters: `InputOffset` grows by exactly the count Write reports. -/
theorem inOff_write (crc : List UInt8 → Nat) (s : XWState) (d : List UInt8) :
    (write crc s d).1.inOff = s.inOff + (write crc s d).2.1 ∧ (write crc s d).2.1 ≤ d.length ∨ (write crc s d).1.bad = true := by
  sorry

/-- C13 surfacing: under the compressor contract "a refused sink write comes
    back as an error", once the sink has refused bytes the writer holds an error
    that is not "closed" — so the failure was returned by the call in progress,
    every later call fails, and Close never returns nil. -/
theorem sink_failure_latched (crc : List UInt8 → Nat) (s : XWState)
    (hz : ZErrSurfaced s.oracle)
    (hinv : s.sink.failed = true → (s.err ≠ none ∧ s.err ≠ some .closed)) (op : WOp) :
    let s' := (stepW crc s op).1
    ZErrSurfaced s'.oracle ∧ (s'.sink.failed = true → (s'.err ≠ none ∧ s'.err ≠ some .closed)) := by
  sorry

/-- lifted to whole histories: Close can only succeed if the sink never refused a byte. -/
theorem no_false_success (crc : List UInt8 → Nat) (s0 : XWState) (h0 : s0.sink.failed = false)
    (hz : ZErrSurfaced s0.oracle) (ops : List WOp) :
    (runW crc s0 ops).1.err = some .closed → (runW crc s0 ops).1.sink.failed = false := by
  sorry

end Compress.Proofs.XFlateWriterLatch
