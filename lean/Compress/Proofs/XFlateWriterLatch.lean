/-
xflate.Writer as a state machine: error latch, Close, counters, configuration
(C13, C18, parts of C05).
-/
import Compress.XFlate.WriterSpec
import Compress.Proofs.XFlateWriterLatchAux

namespace Compress.Proofs.XFlateWriterLatch
open Compress Compress.XFlate

/-- `NewWriter` refuses exactly the invalid configurations. -/
theorem newWriter_none_iff (level chunk index : Int) (hasConf : Bool) (sink : Sink) (oracle : List ZEv) :
    newWriter level chunk index hasConf sink oracle = none ↔ ¬ ValidConfig level chunk hasConf := by
  unfold newWriter ValidConfig
  cases hasConf <;> simp

/-- a latched error (other than "closed") makes every later call fail with that
    same error and change nothing. -/
theorem err_sticky (crc : List UInt8 → Nat) (s : XWState) (e : Err) (h : s.err = some e) (hc : e ≠ .closed) (op : WOp) :
    stepW crc s op = (s, match op with | .write _ => .write 0 (some e) | .flush _ => .flush (some e) | .close => .close (some e)) := by
  cases op <;> simp [stepW, write, flush, closeW, h, hc]

/-- after a successful Close: Write and Flush are refused with the "closed"
    error, Close is idempotent, and nothing changes (so no byte reaches the sink). -/
theorem closed_refuses (crc : List UInt8 → Nat) (s : XWState) (h : s.err = some .closed) (op : WOp) :
    stepW crc s op = (s, match op with | .write _ => .write 0 (some .closed) | .flush _ => .flush (some .closed) | .close => .close none) := by
  cases op <;> simp [stepW, write, flush, closeW, h]

/-- Close latches: `nil` means the writer is now closed, an error means that error is latched. -/
theorem close_latches (crc : List UInt8 → Nat) (s : XWState) :
    ((closeW crc s).2 = none → (closeW crc s).1.err = some .closed) ∧
    (∀ e, (closeW crc s).2 = some e → (closeW crc s).1.err = some e) := by
  unfold closeW
  split
  · simp_all
  · split
    · simp_all
    · generalize (if s.zwOut + s.zwIn > 0 ∨ s.recs.length > 0 then flushIndex crc s else s) = t
      dsimp only
      split
      · simp_all
      · split
        · simp
        · split
          · simp
          · split <;> simp

/-- an error returned by Write or a valid Flush is latched. -/
theorem op_error_latched (crc : List UInt8 → Nat) (s : XWState) (hs : s.err = none) :
    (∀ d e, (write crc s d).2.2 = some e → (write crc s d).1.err = some e) ∧
    (∀ m e, m ≤ 2 → (flush crc s m).2 = some e → (flush crc s m).1.err = some e) := by
  constructor
  · intro d e
    simp [write, hs]
  · intro m e hm
    unfold flush
    simp only [hs]
    match m, hm with
    | 0, _ => simp
    | 1, _ => simp
    | 2, _ => simp

/-- the sink only ever grows: every operation appends to what the underlying
    writer already holds. -/
theorem sink_append_only (crc : List UInt8 → Nat) (s : XWState) (op : WOp) :
    ∃ suffix, (stepW crc s op).1.sink.got = s.sink.got ++ suffix := by
  obtain ⟨suf, h, -⟩ := step_out crc s op
  exact ⟨suf, h⟩

/-- C13 counters: `OutputOffset` is the number of bytes the sink accepted. -/
theorem outOff_invariant (crc : List UInt8 → Nat) (s : XWState) (h : s.outOff = s.sink.got.length) (op : WOp) :
    (stepW crc s op).1.outOff = (stepW crc s op).1.sink.got.length := by
  obtain ⟨suf, h1, h2⟩ := step_out crc s op
  rw [h2, h1, h, List.length_append]
  omega

/-- C13 counters: `InputOffset` grows by exactly the count Write reports. -/
theorem inOff_write (crc : List UInt8 → Nat) (s : XWState) (d : List UInt8) :
    (write crc s d).1.inOff = s.inOff + (write crc s d).2.1 ∧ (write crc s d).2.1 ≤ d.length ∨ (write crc s d).1.bad = true := by
  unfold write
  split
  · left; simp
  · have hi := (writeLoop_rel crc (2 * d.length + 2) s d 0).inOff
    rcases writeLoop_cnt crc (2 * d.length + 2) s d 0 with hb | hc
    · right; exact hb
    · left
      dsimp only
      rw [hi]
      exact ⟨rfl, by omega⟩

/-- the compressor never hands back the writer's own "closed" state for a call
    during which the sink refused bytes. In the model `err = some .closed` IS the
    writer's closed state. This hypothesis was the excluded point at which the real
    code failed (defect D12): Go's `errClosed` is a comparable struct value, a sink
    can return an equal error (a Closed-coded error with an empty message), and
    `Close` then returned nil without a footer. Since the repair (commit 07800e8) the
    closed state is the separate flag `done`, which no sink can set, so the
    hypothesis holds of the Go code by construction; the harness injects such sink
    errors (tag 100, printed "closed") and the model keeps them apart as `.other 100`. -/
def ZErrNotClosed (oracle : List ZEv) : Prop :=
  ∀ ev ∈ oracle, ev.sinkFailed = true → ev.err ≠ some .closed

theorem zs_iff (oracle : List ZEv) : ZS oracle ↔ ZErrSurfaced oracle ∧ ZErrNotClosed oracle :=
  ⟨fun h => ⟨fun ev he hf => (h ev he hf).1, fun ev he hf => (h ev he hf).2⟩,
   fun h ev he hf => ⟨h.1 ev he hf, h.2 ev he hf⟩⟩

/-- C13 surfacing: under the compressor contract "a refused sink write comes
    back as an error", once the sink has refused bytes the writer holds an error
    that is not "closed" — so the failure was returned by the call in progress,
    every later call fails, and Close never returns nil. -/
-- STATEMENT ADJUSTED: as originally written (only `ZErrSurfaced`) the statement is false: the oracle may
-- answer a refused sink write with the error value `Err.closed` itself, e.g.
--   s := { nidx := 4096, nchk := 262144, oracle := [{ kind := .zflush, err := some .closed, sinkFailed := true }] }
--   (stepW crc s (.flush 0)).1  has  err = some .closed  and  sink.failed = true
-- (`ZErrSurfaced s.oracle` holds since `some .closed ≠ none`). The compressor contract therefore also has to
-- say that this error is not xflate's private `errClosed` (hypothesis `hzc`, preserved like `hz`).
theorem sink_failure_latched (crc : List UInt8 → Nat) (s : XWState)
    (hz : ZErrSurfaced s.oracle) (hzc : ZErrNotClosed s.oracle)
    (hinv : s.sink.failed = true → (s.err ≠ none ∧ s.err ≠ some .closed)) (op : WOp) :
    let s' := (stepW crc s op).1
    ZErrSurfaced s'.oracle ∧ ZErrNotClosed s'.oracle ∧
      (s'.sink.failed = true → (s'.err ≠ none ∧ s'.err ≠ some .closed)) := by
  intro s'
  have h : OK s' := step_ok crc s op ⟨(zs_iff _).2 ⟨hz, hzc⟩, hinv⟩
  exact ⟨((zs_iff _).1 h.1).1, ((zs_iff _).1 h.1).2, h.2⟩

/-- kernel-checked counterexample: the statement of `sink_failure_latched` without
    `ZErrNotClosed` (its original form) is refutable. -/
theorem sink_failure_latched_original_false :
    ¬ ∀ (crc : List UInt8 → Nat) (s : XWState), ZErrSurfaced s.oracle →
        (s.sink.failed = true → (s.err ≠ none ∧ s.err ≠ some .closed)) → ∀ op : WOp,
        let s' := (stepW crc s op).1
        ZErrSurfaced s'.oracle ∧ (s'.sink.failed = true → (s'.err ≠ none ∧ s'.err ≠ some .closed)) := by
  intro h
  let cex : XWState :=
    { nidx := 4096, nchk := 262144, oracle := [{ kind := .zflush, err := some .closed, sinkFailed := true }] }
  have h1 := h (fun _ => 0) cex (by intro ev he; simp [cex] at he; subst he; simp) (by simp [cex]) (.flush 0)
  have h2 := h1.2 (by simp [stepW, flush, flushSync, popEv, cex, Sink.absorb])
  exact h2.2 (by simp [stepW, flush, flushSync, popEv, cex])

theorem runW_ok (crc : List UInt8 → Nat) (ops : List WOp) : ∀ s, OK s → OK (runW crc s ops).1 := by
  induction ops with
  | nil => intro s h; exact h
  | cons op ops ih =>
    intro s h
    have := ih _ (step_ok crc s op h)
    simpa [runW] using this

/-- lifted to whole histories: Close can only succeed if the sink never refused a byte. -/
-- STATEMENT ADJUSTED: same counterexample as for `sink_failure_latched` (with `ops := [.flush 0]` the final
-- state has `err = some .closed` and `sink.failed = true`); hypothesis `hzc` added.
theorem no_false_success (crc : List UInt8 → Nat) (s0 : XWState) (h0 : s0.sink.failed = false)
    (hz : ZErrSurfaced s0.oracle) (hzc : ZErrNotClosed s0.oracle) (ops : List WOp) :
    (runW crc s0 ops).1.err = some .closed → (runW crc s0 ops).1.sink.failed = false := by
  intro hc
  have h : OK (runW crc s0 ops).1 :=
    runW_ok crc ops s0 ⟨(zs_iff _).2 ⟨hz, hzc⟩, fun hf => by simp [h0] at hf⟩
  cases hf : (runW crc s0 ops).1.sink.failed with
  | false => rfl
  | true => exact absurd hc (h.2 hf).2

end Compress.Proofs.XFlateWriterLatch
