/-
`InputOffset` of xflate.Writer equals the amount of data the compressor accepted.
-/
import Compress.Proofs.XWRun

namespace Compress.Proofs.XWShape
open Compress Compress.XFlate Compress.Proofs.XWLog

/-- a step that neither touches `inOff` nor feeds data to the compressor. -/
def Keeps (s s' : XWState) : Prop :=
  s'.inOff = s.inOff ∧ dataOf s'.zlog = dataOf s.zlog ∧ (s.bad = true → s'.bad = true)

theorem Keeps.refl (s : XWState) : Keeps s s := ⟨rfl, rfl, id⟩
theorem Keeps.trans {a b c : XWState} (h1 : Keeps a b) (h2 : Keeps b c) : Keeps a c :=
  ⟨h2.1.trans h1.1, h2.2.1.trans h1.2.1, fun h => h2.2.2 (h1.2.2 h)⟩

theorem keeps_flushSync (s : XWState) : Keeps s (flushSync s) := by
  obtain ⟨ev, rest, b, hp, _, _, _, hb⟩ := popEv_spec s .zflush
  simp only [flushSync, hp]
  exact ⟨rfl, by simp [dataOf_append, dataOf_single], hb⟩

theorem keeps_zReset (s : XWState) : Keeps s (zReset s) := by
  obtain ⟨ev, rest, b, hp, _, _, _, hb⟩ := popEv_spec s .zreset
  simp only [zReset, hp]
  exact ⟨rfl, by simp [dataOf_append, dataOf_single], hb⟩

theorem keeps_recState (s : XWState) : Keeps s (recState s) := ⟨rfl, rfl, id⟩

theorem keeps_encodeIndexStep (crc : List UInt8 → Nat) (s : XWState) : Keeps s (encodeIndexStep crc s) := by
  refine ⟨?_, ?_, bad_encodeIndexStep crc s⟩
  · unfold encodeIndexStep
    split
    · rfl
    · split
      split <;> rfl
  · unfold encodeIndexStep
    split
    · rfl
    · split
      split <;> rfl

theorem keeps_flushFull (crc : List UInt8 → Nat) (s : XWState) : Keeps s (flushFull crc s) := by
  rw [flushFull_eq]
  have h1 := keeps_flushSync s
  have h2 := h1.trans ((keeps_recState _).trans (keeps_zReset (recState (flushSync s))))
  split
  · exact h1
  · split
    · exact h2.trans (keeps_encodeIndexStep crc _)
    · exact h2

theorem keeps_flushIndex (crc : List UInt8 → Nat) (s : XWState) : Keeps s (flushIndex crc s) := by
  unfold flushIndex
  split
  · simp only
    split
    · exact keeps_flushFull crc s
    · exact (keeps_flushFull crc s).trans (keeps_encodeIndexStep crc _)
  · exact keeps_encodeIndexStep crc s

theorem keeps_flush (crc : List UInt8 → Nat) (s : XWState) (m : Nat) : Keeps s (flush crc s m).1 := by
  unfold flush
  split
  · exact Keeps.refl s
  · split
    · exact keeps_flushSync s
    · exact keeps_flushFull crc s
    · exact keeps_flushIndex crc s
    · exact Keeps.refl s

theorem keeps_closeTail (s : XWState) : Keeps s (closeTail s).1 := by
  unfold closeTail
  split
  · exact Keeps.refl s
  · split
    · exact ⟨rfl, rfl, id⟩
    · split
      split
      · exact ⟨rfl, rfl, id⟩
      · split <;> exact ⟨rfl, rfl, id⟩

theorem keeps_closeW (crc : List UInt8 → Nat) (s : XWState) : Keeps s (closeW crc s).1 := by
  rw [closeW_eq]
  split
  · exact Keeps.refl s
  · split
    · exact Keeps.refl s
    · split
      · exact (keeps_flushIndex crc s).trans (keeps_closeTail _)
      · exact keeps_closeTail s

/-- accounting invariant with `c` bytes counted by the running `Write` but not yet added to `inOff`. -/
def DA (s : XWState) (c : Nat) : Prop := s.bad = true ∨ s.inOff + (c : Int) = ((dataOf s.zlog).length : Int)

theorem DA.keeps {s s' : XWState} {c : Nat} (h : DA s c) (hk : Keeps s s') : DA s' c := by
  rcases h with h | h
  · exact Or.inl (hk.2.2 h)
  · right; rw [hk.1, hk.2.1]; exact h

theorem da_wstep (s : XWState) (data : List UInt8) (take c : Nat) (ht : take ≤ data.length) (h : DA s c) :
    DA (wstep s data take) (c + (popEv s .zwrite).1.n) := by
  rcases h with h | h
  · exact Or.inl (bad_wstep s data take h)
  · obtain ⟨ev, rest, b, hp, _, _, _, hb⟩ := popEv_spec s .zwrite
    unfold wstep
    simp only [hp]
    by_cases hn : ev.n > take
    · left; simp only [if_pos hn]
    · right
      simp only [if_neg hn, dataOf_append, dataOf_single, List.length_append, List.length_take]
      have : min ev.n data.length = ev.n := by omega
      rw [this]
      show s.inOff + ((c + ev.n : Nat) : Int) = (((dataOf s.zlog).length + ev.n : Nat) : Int)
      omega

theorem da_writeLoop (crc : List UInt8 → Nat) : ∀ (fuel : Nat) (s : XWState) (data : List UInt8) (cnt : Nat),
    DA s cnt → DA (writeLoop crc fuel s data cnt).1 (writeLoop crc fuel s data cnt).2
  | 0, s, data, cnt, h => by simpa [writeLoop] using h
  | fuel+1, s, data, cnt, h => by
    rw [writeLoop_succ]
    split
    · exact h
    · split
      · exact da_writeLoop crc fuel _ data cnt (h.keeps (keeps_flushFull crc s))
      · exact da_writeLoop crc fuel _ _ _ (da_wstep s data _ cnt (Nat.min_le_right _ _) h)

theorem da_write (crc : List UInt8 → Nat) (s : XWState) (data : List UInt8) (h : DA s 0) :
    DA (write crc s data).1 0 := by
  unfold write
  split
  · exact h
  · have := da_writeLoop crc (2 * data.length + 2) s data 0 h
    rcases hw : writeLoop crc (2 * data.length + 2) s data 0 with ⟨s', cnt⟩
    rw [hw] at this
    simp only
    rcases this with hb | hd
    · exact Or.inl hb
    · right
      show s'.inOff + (cnt : Int) + ((0 : Nat) : Int) = ((dataOf s'.zlog).length : Int)
      simp only at hd
      omega

theorem da_stepW (crc : List UInt8 → Nat) (s : XWState) (op : WOp) (h : DA s 0) : DA (stepW crc s op).1 0 := by
  cases op with
  | write d => exact da_write crc s d h
  | flush m => exact h.keeps (keeps_flush crc s m)
  | close => exact h.keeps (keeps_closeW crc s)

theorem da_runW (crc : List UInt8 → Nat) : ∀ (ops : List WOp) (s : XWState), DA s 0 → DA (runW crc s ops).1 0
  | [], s, h => h
  | op :: ops, s, h => by
    have := da_runW crc ops (stepW crc s op).1 (da_stepW crc s op h)
    simpa [runW] using this

theorem da_newWriter (level chunk index : Int) (hasConf : Bool) (sink : Sink) (oracle : List ZEv)
    (s0 : XWState) (h0 : newWriter level chunk index hasConf sink oracle = some s0) : DA s0 0 := by
  unfold newWriter at h0
  split at h0
  · cases h0
  · split at h0
    · cases h0
    · simp only [Option.some.injEq] at h0
      subst h0
      unfold resetW
      simp only
      refine DA.keeps ?_ (keeps_zReset _)
      right
      rfl

end Compress.Proofs.XWShape
