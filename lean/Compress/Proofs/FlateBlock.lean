/-
C01 (flate refinement), component 3: the body of a compressed block.
`Impl.readBlock` (resumable, ring-buffer window) against `Flate.inflateBlock`
(append-only output).
-/
import Compress.Proofs.FlateDefs
import Compress.Proofs.FlateBound

namespace Compress.Proofs.FlateRefine
open Compress Compress.Flate Compress.Prefix Compress.Window
open Compress.Proofs.Window

/-! ### arrays vs lists -/

theorem copyBack_toList (d : Nat) : ∀ (n : Nat) (out : Array UInt8),
    (copyBack out d n).toList = specCopy out.toList d n := by
  intro n
  induction n with
  | zero => intro out; rfl
  | succ n ih =>
    intro out
    simp only [copyBack, specCopy]
    rw [ih]
    congr 1
    simp [Array.getD_eq_getD_getElem?, List.getD_eq_getElem?_getD]

theorem copyBack_add (d : Nat) (a b : Nat) (out : Array UInt8) :
    copyBack out d (a + b) = copyBack (copyBack out d a) d b := by
  apply Array.ext'
  rw [copyBack_toList, copyBack_toList, copyBack_toList, specCopy_add]

theorem copyBack_zero (d : Nat) (out : Array UInt8) : copyBack out d 0 = out := rfl

/-! ### `readBits` is `takeBits` -/

theorem readBits_eq (n : Nat) (bits : Bits) :
    Impl.readBits n bits =
      match takeBits n bits with
      | none => .error .unexpectedEOF
      | some r => .ok r := by
  unfold Impl.readBits takeBits
  simp only
  split <;> rfl

/-! ### one symbol step of either side -/

/-- what the specification does next in a block. -/
inductive SOp where
  | lit (b : Nat) (rest : Bits)
  | eob (rest : Bits)
  | copy (len d : Nat) (rest : Bits)
  | err (v : Verdict)

def nextOpS (lit dist : HuffTab) (outSize : Nat) (bits : Bits) : SOp :=
  match lit.decode bits with
  | .eof => .err .unexpectedEOF
  | .invalid => .err .corrupt
  | .sym s rest =>
    if s < 256 then .lit s rest
    else if s = 256 then .eob rest
    else if s ≥ 286 then .err .corrupt
    else
      match takeBits (lenExtra.getD (s - 257) 0) rest with
      | none => .err .unexpectedEOF
      | some (le, r1) =>
        match dist.decode r1 with
        | .eof => .err .unexpectedEOF
        | .invalid => .err .corrupt
        | .sym ds r2 =>
          if ds ≥ 30 then .err .corrupt
          else
            match takeBits (distExtra.getD ds 0) r2 with
            | none => .err .unexpectedEOF
            | some (de, r3) =>
              if distBase.getD ds 0 + de > min outSize maxHist then .err .corrupt
              else .copy (lenBase.getD (s - 257) 0 + le) (distBase.getD ds 0 + de) r3

set_option maxRecDepth 4000 in
theorem inflateBlock_step (lit dist : HuffTab) (fuel : Nat) (out : Array UInt8) (bits : Bits) :
    inflateBlock lit dist (fuel+1) out bits =
      match nextOpS lit dist out.size bits with
      | .lit b rest => inflateBlock lit dist fuel (out.push (UInt8.ofNat b)) rest
      | .eob rest => (out, .ok rest)
      | .copy len d rest => inflateBlock lit dist fuel (copyBack out d len) rest
      | .err v => (out, .error v) := by
  rw [inflateBlock_succ]
  unfold nextOpS
  cases h : lit.decode bits with
  | eof => rfl
  | invalid => rfl
  | sym s rest =>
    simp only
    by_cases h1 : s < 256
    · simp only [if_pos h1]
    · simp only [if_neg h1]
      by_cases h2 : s = 256
      · simp only [if_pos h2]
      · simp only [if_neg h2]
        by_cases h3 : s ≥ 286
        · simp only [if_pos h3]
        · simp only [if_neg h3]
          cases h4 : takeBits (lenExtra.getD (s - 257) 0) rest with
          | none => rfl
          | some p =>
            obtain ⟨le, r1⟩ := p
            simp only
            cases h5 : dist.decode r1 with
            | eof => rfl
            | invalid => rfl
            | sym ds r2 =>
              simp only
              by_cases h6 : ds ≥ 30
              · simp only [if_pos h6]
              · simp only [if_neg h6]
                cases h7 : takeBits (distExtra.getD ds 0) r2 with
                | none => rfl
                | some q =>
                  obtain ⟨de, r3⟩ := q
                  simp only
                  by_cases h8 : distBase.getD ds 0 + de > min out.size maxHist
                  · simp only [if_pos h8]
                  · simp only [if_neg h8]

/-- what the model does next in a block (literal state, window not full). -/
inductive IOp where
  | lit (b : Nat) (rest : Bits)
  | eob (rest : Bits)
  | copy (len d : Nat) (rest : Bits)
  | err (e : Impl.FErr) (rest : Bits)

def nextOpI (lt dt : Decoder) (hist : Nat) (bits : Bits) : IOp :=
  match Impl.readSymbol lt bits with
  | .error e => .err e bits
  | .ok (sym, b1) =>
    if sym < 256 then .lit sym b1
    else if sym = 256 then .eob b1
    else if sym < 286 then
      match Impl.readBits (Impl.lenExtra.getD (sym - 257) 0) b1 with
      | .error e => .err e b1
      | .ok (le, b2) =>
        match Impl.readSymbol dt b2 with
        | .error e => .err e b2
        | .ok (ds, b3) =>
          if ds ≥ 30 then .err .corrupted b3
          else
            match Impl.readBits (Impl.distExtra.getD ds 0) b3 with
            | .error e => .err e b3
            | .ok (de, b4) =>
              if Impl.distBase.getD ds 0 + de > hist then .err .corrupted b4
              else .copy (Impl.lenBase.getD (sym - 257) 0 + le) (Impl.distBase.getD ds 0 + de) b4
    else .err .corrupted b1

open Compress.Flate.Impl in
set_option maxRecDepth 4000 in
theorem readBlock_lit (fuel : Nat) (s : FState) (hc : s.inCopy = false) (ha : s.dict.availSize ≠ 0) :
    readBlock (fuel+1) s =
      match nextOpI s.litTree s.distTree s.dict.histSize s.bits with
      | .lit b r => readBlock fuel { s with bits := r, dict := s.dict.writeByte (UInt8.ofNat b) }
      | .eob r => (finishBlock { s with bits := r, inCopy := false }, none)
      | .copy len d r => readBlock fuel { s with bits := r, cpyLen := len, dist := d, inCopy := true }
      | .err e r => ({ s with bits := r }, some e) := by
  rw [readBlock_succ, if_neg (by rw [hc]; exact Bool.false_ne_true), if_neg ha]
  unfold nextOpI
  cases h : readSymbol s.litTree s.bits with
  | error e => rfl
  | ok p =>
    obtain ⟨sym, b1⟩ := p
    simp only
    by_cases h1 : sym < 256
    · simp only [if_pos h1]
    · simp only [if_neg h1]
      by_cases h2 : sym = 256
      · simp only [if_pos h2]
      · simp only [if_neg h2]
        by_cases h3 : sym < 286
        · simp only [if_pos h3]
          cases h4 : readBits (Impl.lenExtra.getD (sym - 257) 0) b1 with
          | error e => rfl
          | ok p =>
            obtain ⟨le, b2⟩ := p
            simp only
            cases h5 : readSymbol s.distTree b2 with
            | error e => rfl
            | ok q =>
              obtain ⟨ds, b3⟩ := q
              simp only
              by_cases h6 : ds ≥ 30
              · simp only [if_pos h6]
              · simp only [if_neg h6]
                cases h7 : readBits (Impl.distExtra.getD ds 0) b3 with
                | error e => rfl
                | ok q =>
                  obtain ⟨de, b4⟩ := q
                  simp only
                  by_cases h8 : Impl.distBase.getD ds 0 + de > s.dict.histSize
                  · simp only [if_pos h8]
                  · simp only [if_neg h8]
        · simp only [if_neg h3]

open Compress.Flate.Impl in
theorem readBlock_copy (fuel : Nat) (s : FState) (hc : s.inCopy = true) :
    readBlock (fuel+1) s =
      if s.cpyLen - (s.dict.writeCopy s.dist s.cpyLen).2 > 0 then
        ({ s with dict := (s.dict.writeCopy s.dist s.cpyLen).1.readFlush.1,
                  cpyLen := s.cpyLen - (s.dict.writeCopy s.dist s.cpyLen).2,
                  toRead := (s.dict.writeCopy s.dist s.cpyLen).1.readFlush.2,
                  step := .block, inCopy := true }, none)
      else readBlock fuel { s with dict := (s.dict.writeCopy s.dist s.cpyLen).1,
                                   cpyLen := s.cpyLen - (s.dict.writeCopy s.dist s.cpyLen).2,
                                   inCopy := false } := by
  rw [readBlock_succ, if_pos hc]
  have h := try_eq_writeCopy true s.dict s.dist s.cpyLen
  simp only [if_true] at h
  simp only [h]

/-! ### the two symbol steps agree -/

theorem lenBase_pos : ∀ i, i < 29 → 0 < lenBase.getD i 0 := by decide
theorem distBase_pos : ∀ i, i < 30 → 0 < distBase.getD i 0 := by decide

/-- the relation between the next operation of the specification and of the model. -/
def OpRel (bits : Bits) (outSize : Nat) : SOp → IOp → Prop
  | .lit b r, i => i = .lit b r ∧ b < 256 ∧ r.length < bits.length
  | .eob r, i => i = .eob r ∧ r.length < bits.length
  | .copy len d r, i => i = .copy len d r ∧ r.length + 1 < bits.length ∧ 0 < d ∧
      d ≤ min outSize 32768 ∧ 0 < len
  | .err v, i => ∃ r, i = .err (verr v) r ∧ r.length ≤ bits.length ∧ ∀ n, v ≠ .ok n

theorem readSymbol_length (d : Decoder) (bits : Bits) (s : Nat) (rest : Bits)
    (h : Impl.readSymbol d bits = .ok (s, rest)) : rest.length ≤ bits.length := by
  unfold Impl.readSymbol at h
  split at h
  · cases h
  · split at h
    · rename_i r hr
      cases h
      unfold Decoder.readSymbol at hr
      split at hr
      · cases hr
      · split at hr
        · cases hr
        · simp only at hr
          split at hr
          · cases hr
            rw [List.length_drop]; omega
          · cases hr
    · cases h

theorem nextOp_rel (lit dist : HuffTab) (lt dt : Decoder) (ml md : Nat) (hml : 286 ≤ ml) (hmd : 30 ≤ md)
    (hl : TreeRel ml lt lit) (hd : TreeRel md dt dist) (outSize : Nat) (bits : Bits) :
    OpRel bits outSize (nextOpS lit dist outSize bits) (nextOpI lt dt (min outSize 32768) bits) := by
  have h0 := hl bits
  unfold nextOpS nextOpI
  cases h : lit.decode bits with
  | eof =>
    rw [h] at h0; simp only [SymRel] at h0
    rw [h0]
    exact ⟨bits, rfl, Nat.le_refl _, fun n => by simp⟩
  | invalid =>
    rw [h] at h0; simp only [SymRel] at h0
    rcases h0 with h0 | ⟨s, rest, h0, hs⟩
    · rw [h0]
      exact ⟨bits, rfl, Nat.le_refl _, fun n => by simp⟩
    · rw [h0]
      simp only
      rw [if_neg (by omega), if_neg (by omega), if_neg (by omega)]
      exact ⟨rest, rfl, readSymbol_length _ _ _ _ h0, fun n => by simp⟩
  | sym s rest =>
    rw [h] at h0; simp only [SymRel] at h0
    have hlen := decode_length_lt _ _ _ _ h
    rw [h0.1]
    simp only
    by_cases h1 : s < 256
    · rw [if_pos h1, if_pos h1]
      exact ⟨rfl, h1, hlen⟩
    · rw [if_neg h1, if_neg h1]
      by_cases h2 : s = 256
      · rw [if_pos h2, if_pos h2]
        exact ⟨rfl, hlen⟩
      · rw [if_neg h2, if_neg h2]
        by_cases h3 : s ≥ 286
        · rw [if_pos h3, if_neg (by omega)]
          exact ⟨rest, rfl, Nat.le_of_lt hlen, fun n => by simp⟩
        · rw [if_neg h3, if_pos (by omega), readBits_eq]
          have e1 : Impl.lenExtra = lenExtra := rfl
          have e2 : Impl.lenBase = lenBase := rfl
          have e3 : Impl.distExtra = distExtra := rfl
          have e4 : Impl.distBase = distBase := rfl
          rw [e1, e2, e3, e4]
          cases h4 : takeBits (lenExtra.getD (s - 257) 0) rest with
          | none => exact ⟨rest, rfl, Nat.le_of_lt hlen, fun n => by simp⟩
          | some p =>
            obtain ⟨le, r1⟩ := p
            simp only
            have hl1 := takeBits_length_le h4
            have hd0 := hd r1
            cases h5 : dist.decode r1 with
            | eof =>
              rw [h5] at hd0; simp only [SymRel] at hd0
              rw [hd0]
              exact ⟨r1, rfl, by omega, fun n => by simp⟩
            | invalid =>
              rw [h5] at hd0; simp only [SymRel] at hd0
              rcases hd0 with hd0 | ⟨ds, r2, hd0, hds⟩
              · rw [hd0]
                exact ⟨r1, rfl, by omega, fun n => by simp⟩
              · rw [hd0]
                simp only
                rw [if_pos (by omega)]
                have := readSymbol_length _ _ _ _ hd0
                exact ⟨r2, rfl, by omega, fun n => by simp⟩
            | sym ds r2 =>
              rw [h5] at hd0; simp only [SymRel] at hd0
              have hlen2 := decode_length_lt _ _ _ _ h5
              rw [hd0.1]
              simp only
              by_cases h6 : ds ≥ 30
              · rw [if_pos h6, if_pos h6]
                exact ⟨r2, rfl, by omega, fun n => by simp⟩
              · rw [if_neg h6, if_neg h6, readBits_eq]
                cases h7 : takeBits (distExtra.getD ds 0) r2 with
                | none => exact ⟨r2, rfl, by omega, fun n => by simp⟩
                | some q =>
                  obtain ⟨de, r3⟩ := q
                  simp only
                  have hl3 := takeBits_length_le h7
                  have hm : maxHist = 32768 := rfl
                  rw [hm]
                  by_cases h8 : distBase.getD ds 0 + de > min outSize 32768
                  · rw [if_pos h8, if_pos h8]
                    exact ⟨r3, rfl, by omega, fun n => by simp⟩
                  · rw [if_neg h8, if_neg h8]
                    have p1 := distBase_pos ds (by omega)
                    have p2 := lenBase_pos (s - 257) (by omega)
                    exact ⟨rfl, by omega, by omega, by omega, by omega⟩

/-! ### the refinement relation -/

open Compress.Flate.Impl (FState FErr Step finishBlock readBlock)

/-- the specification after a block that ended with output `out` and `rest` to go. -/
def finishS (total fuel : Nat) (last : Bool) (out : Array UInt8) (rest : Bits) : Result :=
  if last then { out := out, verdict := .ok (total - rest.length + padTo8 (total - rest.length)) }
  else decodeBlocks total fuel out rest

/-- the specification after `inflateBlock` returned. -/
def blockS (total fuel : Nat) (last : Bool) : Array UInt8 × Except Verdict Bits → Result
  | (out', .error v) => { out := out', verdict := v }
  | (out', .ok rest) => finishS total fuel last out' rest

/-- the specification after `takeBytes` returned. -/
def rawS (total fuel : Nat) (last : Bool) : Array UInt8 × Option Bits → Result
  | (out', none) => { out := out', verdict := .unexpectedEOF }
  | (out', some rest) => finishS total fuel last out' rest

/-- the output the specification has after the pending copy of the model. -/
def specOut (s : FState) (out : Array UInt8) : Array UInt8 :=
  if s.inCopy then copyBack out s.dist s.cpyLen else out

def RelErr (total : Nat) (R : Result) (s : FState) (out : Array UInt8) (e : FErr) : Prop :=
  R.out = out ∧ e = verr R.verdict ∧ ∀ n, R.verdict = .ok n → total - s.bits.length = n

def RelHeader (total : Nat) (R : Result) (s : FState) (out : Array UInt8) : Prop :=
  s.inCopy = false ∧ ∃ fuel, s.bits.length + 1 ≤ fuel ∧ R = decodeBlocks total fuel out s.bits

def RelRaw (total : Nat) (R : Result) (s : FState) (out : Array UInt8) : Prop :=
  s.inCopy = false ∧ 0 < s.blkLen ∧ ∃ fuel, s.bits.length + 1 ≤ fuel ∧
    R = rawS total fuel s.last (takeBytes s.blkLen out s.bits)

def RelBlock (total : Nat) (R : Result) (s : FState) (out : Array UInt8) : Prop :=
  ∃ (lit dist : HuffTab) (ml md fuelS fuelD : Nat), 286 ≤ ml ∧ 30 ≤ md ∧
    TreeRel ml s.litTree lit ∧ TreeRel md s.distTree dist ∧
    s.bits.length + 1 ≤ fuelS ∧ s.bits.length + 1 ≤ fuelD ∧
    (s.inCopy = true → 0 < s.dist ∧ s.dist ≤ min 32768 out.size ∧ 0 < s.cpyLen) ∧
    R = blockS total fuelD s.last (inflateBlock lit dist fuelS (specOut s out) s.bits)

/-- the model state `s` (with `out` = everything decoded so far) is at a point from
    which the specification yields the overall result `R`. -/
structure Rel (total : Nat) (R : Result) (s : FState) (out : Array UInt8) : Prop where
  tot : s.total = total
  len : s.bits.length ≤ total
  err : ∀ e, s.err = some e → RelErr total R s out e
  hdr : s.err = none → s.step = .header → RelHeader total R s out
  raw : s.err = none → s.step = .raw → RelRaw total R s out
  blk : s.err = none → s.step = .block → RelBlock total R s out

/-- the window is not both full and completely flushed. -/
def NotStuck (d : Dict) (out : Array UInt8) (acc : List UInt8) : Prop :=
  acc.length < out.size ∨ 0 < d.availSize

/-- what a step establishes: `s0` the state before, `s1` after (error recorded). -/
def Post (total : Nat) (R : Result) (s0 : FState) (del : List UInt8) (s1 : FState) : Prop :=
  ∃ out', Inv 32768 s1.dict out'.toList (del ++ s1.toRead) ∧
    (s1.err = none → NotStuck s1.dict out' (del ++ s1.toRead)) ∧
    Rel total R s1 out' ∧
    (s1.toRead ≠ [] ∨ s1.err ≠ none ∨ s1.bits.length < s0.bits.length) ∧
    (s1.err ≠ none → s1.toRead ≠ [] → s1.dict.rdPos = s1.dict.wrPos)

/-- record the error of a step, as `Read` does. -/
def applyErr (r : FState × Option FErr) : FState :=
  match r.2 with
  | some e => { r.1 with err := some e }
  | none => r.1

theorem Post.mono {total : Nat} {R : Result} {s0 s0' : FState} {del : List UInt8} {s1 : FState}
    (h : Post total R s0 del s1) (hl : s0.bits.length ≤ s0'.bits.length) : Post total R s0' del s1 := by
  obtain ⟨out', h1, h2, h3, h4, h5⟩ := h
  refine ⟨out', h1, h2, h3, ?_, h5⟩
  rcases h4 with h4 | h4 | h4
  · exact Or.inl h4
  · exact Or.inr (Or.inl h4)
  · exact Or.inr (Or.inr (by omega))

/-- `finishBlock` against the specification's `finish`. -/
theorem finish_rel (total : Nat) (R : Result) (h8 : total % 8 = 0) (s : FState) (out : Array UInt8)
    (fuelD : Nat) (hs : s.total = total) (hl : s.bits.length ≤ total) (herr : s.err = none)
    (hic : s.inCopy = false)
    (hf : s.bits.length + 1 ≤ fuelD) (hR : R = finishS total fuelD s.last out s.bits) :
    Rel total R (finishBlock s) out := by
  unfold finishBlock
  unfold finishS at hR
  cases hlast : s.last
  · rw [hlast] at hR
    simp only [Bool.false_eq_true, if_false] at hR ⊢
    refine ⟨hs, hl, ?_, ?_, ?_, ?_⟩
    · intro e he; simp only [herr] at he; cases he
    · intro _ _; exact ⟨hic, fuelD, hf, hR⟩
    · intro _ h; cases h
    · intro _ h; cases h
  · rw [hlast] at hR
    simp only [if_true] at hR ⊢
    refine ⟨hs, ?_, ?_, ?_, ?_, ?_⟩
    · simp only [List.length_drop]; omega
    · intro e he
      simp only [Option.some.injEq] at he
      subst he
      rw [hR]
      refine ⟨rfl, rfl, ?_⟩
      intro n hn
      simp only [Verdict.ok.injEq] at hn
      simp only [List.length_drop]
      rw [← hn, hs]
      unfold padTo8
      omega
    · intro h; simp at h
    · intro h; simp at h
    · intro h; simp at h

theorem Rel.mkBlock {total : Nat} {R : Result} {s : FState} {out : Array UInt8}
    (h1 : s.total = total) (h2 : s.bits.length ≤ total) (h3 : s.err = none) (h4 : s.step = .block)
    (h5 : RelBlock total R s out) : Rel total R s out :=
  ⟨h1, h2, fun e he => (by rw [h3] at he; cases he), fun _ h => (by rw [h4] at h; cases h),
    fun _ h => (by rw [h4] at h; cases h), fun _ _ => h5⟩

theorem Rel.mkErr {total : Nat} {R : Result} {s : FState} {out : Array UInt8} {e : FErr}
    (h1 : s.total = total) (h2 : s.bits.length ≤ total) (h3 : s.err = some e)
    (h5 : RelErr total R s out e) : Rel total R s out :=
  ⟨h1, h2, fun e' he => (by rw [h3] at he; cases he; exact h5),
    fun h => (by rw [h3] at h; cases h), fun h => (by rw [h3] at h; cases h),
    fun h => (by rw [h3] at h; cases h)⟩

theorem finishBlock_dict (s : FState) : (finishBlock s).dict = s.dict := by
  unfold finishBlock; split <;> rfl
theorem finishBlock_toRead (s : FState) : (finishBlock s).toRead = s.toRead := by
  unfold finishBlock; split <;> rfl
theorem finishBlock_bits_le (s : FState) : (finishBlock s).bits.length ≤ s.bits.length := by
  unfold finishBlock; split
  · simp only [List.length_drop]; omega
  · exact Nat.le_refl _

theorem inv_flush {d : Dict} {out acc : List UInt8} (I : Inv 32768 d out acc) :
    Inv 32768 d.readFlush.1 out (acc ++ d.readFlush.2) ∧ 0 < d.readFlush.1.availSize ∧
    acc ++ d.readFlush.2 = out ∧ d.readFlush.1.rdPos = d.readFlush.1.wrPos := by
  obtain ⟨I1, h1, h2⟩ := I.readFlush
  refine ⟨I1, by unfold Dict.availSize; omega, ?_, h2⟩
  have := I1.acc_eq
  rw [h2, Nat.sub_self, Nat.sub_zero, List.take_length] at this
  exact this

theorem inv_acc_le {d : Dict} {out acc : List UInt8} (I : Inv 32768 d out acc) :
    acc.length ≤ out.length := by
  rw [I.acc_eq, List.length_take]; omega

theorem inv_histSize {d : Dict} {out acc : List UInt8} (I : Inv 32768 d out acc) :
    d.histSize = min out.length 32768 := by
  unfold Dict.histSize
  cases hf : d.full
  · have h1 := I.nfull hf
    have h2 := I.wr_le
    have h3 := I.hsz
    simp only [Bool.false_eq_true, if_false]
    omega
  · have h1 := I.full_sz hf
    have h2 := I.dsize
    simp only [if_true]
    omega

open Compress.Flate.Impl in
theorem readBlock_full (fuel : Nat) (s : FState) (hc : s.inCopy = false) (ha : s.dict.availSize = 0) :
    readBlock (fuel+1) s =
      ({ s with dict := s.dict.readFlush.1, toRead := s.dict.readFlush.2, step := .block,
                inCopy := false }, none) := by
  rw [readBlock_succ, if_neg (by rw [hc]; exact Bool.false_ne_true), if_pos ha]

/-- **Component 3.** Running `readBlock` from a state related to the specification
    ends in a related state: paused with a full window (output flushed), at the end
    of the block, or with the error of the specification. -/
theorem readBlock_sim (total : Nat) (R : Result) (h8 : total % 8 = 0) :
    ∀ (fuelI : Nat) (s : FState) (out : Array UInt8) (acc : List UInt8),
    s.toRead = [] → s.err = none → s.step = .block →
    Inv 32768 s.dict out.toList acc → NotStuck s.dict out acc → Rel total R s out →
    s.bits.length + (if s.inCopy then 2 else 1) ≤ fuelI →
    Post total R s acc (applyErr (readBlock fuelI s)) := by
  intro fuelI
  induction fuelI with
  | zero => intro s out acc _ _ _ _ _ _ hf; split at hf <;> omega
  | succ fuel ih =>
    intro s out acc hT hE hS I NS Rl hf
    obtain ⟨lit, dist, ml, md, fuelS, fuelD, hml, hmd, hlt, hdt, hfS, hfD, hcp, hR⟩ := Rl.blk hE hS
    have hacc := inv_acc_le I
    simp only [Array.length_toList] at hacc
    cases hc : s.inCopy
    · -- literal state
      have hso : specOut s out = out := by unfold specOut; rw [hc]; rfl
      rw [hso] at hR
      by_cases ha : s.dict.availSize = 0
      · -- window full: flush and pause
        rw [readBlock_full fuel s hc ha]
        obtain ⟨I1, hav, hall, hrd⟩ := inv_flush I
        simp only [applyErr]
        refine ⟨out, I1, fun _ => Or.inr hav, ?_, Or.inl ?_, ?_⟩
        · refine Rel.mkBlock Rl.tot Rl.len hE rfl ?_
          refine ⟨lit, dist, ml, md, fuelS, fuelD, hml, hmd, hlt, hdt, hfS, hfD, ?_, ?_⟩
          · intro h; cases h
          · exact hR
        · simp only
          intro hfl
          rw [hfl, List.append_nil] at hall
          rcases NS with h | h
          · rw [hall] at h; simp at h
          · omega
        · intro h; exact absurd hE h
      · rw [readBlock_lit fuel s hc ha]
        have hrel := nextOp_rel lit dist s.litTree s.distTree ml md hml hmd hlt hdt out.size s.bits
        have hh := inv_histSize I
        simp only [Array.length_toList] at hh
        rw [← hh] at hrel
        obtain ⟨fS, rfl⟩ : ∃ fS, fuelS = fS + 1 := ⟨fuelS - 1, by omega⟩
        rw [inflateBlock_step] at hR
        have hav : s.dict.wrPos < s.dict.hist.size := by
          unfold Dict.availSize at ha; have := I.wr_le; omega
        rw [if_neg (by rw [hc]; exact Bool.false_ne_true)] at hf
        cases hop : nextOpS lit dist out.size s.bits with
        | lit b r =>
          rw [hop] at hrel hR
          obtain ⟨hi, hb, hl⟩ := hrel
          rw [hi]
          simp only at hR ⊢
          refine (ih { s with bits := r, dict := s.dict.writeByte (UInt8.ofNat b) }
            (out.push (UInt8.ofNat b)) acc hT hE hS ?_ ?_ ?_ ?_).mono (Nat.le_of_lt hl)
          · rw [Array.toList_push]; exact I.writeByte _ hav
          · left; rw [Array.size_push]; omega
          · refine Rel.mkBlock Rl.tot (by have := Rl.len; simp only; omega) hE hS ?_
            refine ⟨lit, dist, ml, md, fS, fuelD, hml, hmd, hlt, hdt, by simp only; omega,
              by simp only; omega, ?_, ?_⟩
            · intro h; rw [hc] at h; cases h
            · have : specOut { s with bits := r, dict := s.dict.writeByte (UInt8.ofNat b) }
                  (out.push (UInt8.ofNat b)) = out.push (UInt8.ofNat b) := by
                unfold specOut; rw [hc]; rfl
              rw [this]; exact hR
          · rw [if_neg (by rw [hc]; exact Bool.false_ne_true)]
            simp only; omega
        | eob r =>
          rw [hop] at hrel hR
          obtain ⟨hi, hl⟩ := hrel
          rw [hi]
          simp only [applyErr] at hR ⊢
          refine ⟨out, ?_, ?_, ?_, ?_, ?_⟩
          · rw [finishBlock_dict, finishBlock_toRead]; simpa [hT] using I
          · intro _; unfold NotStuck; rw [finishBlock_dict]; right; show 0 < s.dict.availSize; omega
          · exact finish_rel total R h8 _ out fuelD Rl.tot (by have := Rl.len; simp only; omega) hE
              rfl (by simp only; omega) hR
          · right; right
            have : (finishBlock { s with bits := r, inCopy := false }).bits.length ≤ r.length :=
              finishBlock_bits_le _
            omega
          · intro _ h; rw [finishBlock_toRead] at h; exact absurd hT h
        | copy len d r =>
          rw [hop] at hrel hR
          obtain ⟨hi, hl, hd0, hdl, hl0⟩ := hrel
          rw [hi]
          simp only at hR ⊢
          refine (ih { s with bits := r, cpyLen := len, dist := d, inCopy := true } out acc hT hE hS I NS ?_ ?_).mono
            (Nat.le_of_lt (Nat.lt_of_succ_lt hl))
          · refine Rel.mkBlock Rl.tot (by have := Rl.len; simp only; omega) hE hS ?_
            refine ⟨lit, dist, ml, md, fS, fuelD, hml, hmd, hlt, hdt, by simp only; omega,
              by simp only; omega, ?_, ?_⟩
            · intro _; exact ⟨hd0, by simp only; omega, hl0⟩
            · exact hR
          · simp only [if_true]; omega
        | err v =>
          rw [hop] at hrel hR
          obtain ⟨r, hi, hl, hv⟩ := hrel
          rw [hi]
          simp only [applyErr] at hR ⊢
          refine ⟨out, by simpa [hT] using I, fun h => by simp at h, ?_, Or.inr (Or.inl (by simp)), ?_⟩
          · refine Rel.mkErr Rl.tot (by have := Rl.len; simp only; omega) rfl ?_
            rw [hR]
            exact ⟨rfl, rfl, fun n hn => absurd hn (hv n)⟩
          · intro _ h; exact absurd hT h
    · -- copy state
      obtain ⟨hd0, hdl, hcl⟩ := hcp hc
      have hso : specOut s out = copyBack out s.dist s.cpyLen := by unfold specOut; rw [hc]; rfl
      rw [hso] at hR
      rw [readBlock_copy fuel s hc]
      obtain ⟨hn, I1⟩ := I.writeCopy s.dist s.cpyLen hd0 (by simpa using hdl)
      rw [if_pos hc] at hf
      generalize s.dict.writeCopy s.dist s.cpyLen = p at hn I1
      obtain ⟨d1, n⟩ := p
      simp only at hn I1 ⊢
      rw [← hn, ← copyBack_toList] at I1
      have hsz : (copyBack out s.dist n).size = out.size + n := copyBack_size _ _ _
      have hsplit : copyBack out s.dist s.cpyLen =
          copyBack (copyBack out s.dist n) s.dist (s.cpyLen - n) := by
        rw [← copyBack_add]; congr 1; omega
      by_cases h1 : s.cpyLen - n > 0
      · rw [if_pos h1]
        obtain ⟨I2, hav, hall, hrd⟩ := inv_flush I1
        simp only [applyErr]
        refine ⟨copyBack out s.dist n, I2, fun _ => Or.inr hav, ?_, Or.inl ?_, ?_⟩
        · refine Rel.mkBlock Rl.tot Rl.len hE rfl ?_
          refine ⟨lit, dist, ml, md, fuelS, fuelD, hml, hmd, hlt, hdt, hfS, hfD, ?_, ?_⟩
          · intro _; exact ⟨hd0, by simp only; omega, h1⟩
          · rw [hR, hsplit]; rfl
        · simp only
          intro hfl
          rw [hfl, List.append_nil] at hall
          have : acc.length = out.size + n := by rw [hall]; simp [hsz]
          rcases NS with h | h
          · omega
          · unfold Dict.availSize at hn h; omega
        · intro h; exact absurd hE h
      · rw [if_neg h1]
        have hn' : n = s.cpyLen := by omega
        refine (ih { s with dict := d1, cpyLen := s.cpyLen - n, inCopy := false }
          (copyBack out s.dist n) acc hT hE hS I1 (Or.inl (by omega)) ?_ ?_).mono (Nat.le_refl _)
        · refine Rel.mkBlock Rl.tot Rl.len hE hS ?_
          refine ⟨lit, dist, ml, md, fuelS, fuelD, hml, hmd, hlt, hdt, hfS, hfD, ?_, ?_⟩
          · intro h; cases h
          · rw [hR, hn']; rfl
        · simp only [Bool.false_eq_true, if_false]; omega

end Compress.Proofs.FlateRefine
