/-
The decoder loop over a sequence of encoded blocks (C16).
-/
import Compress.Proofs.MetaBlockRT
namespace Compress.Proofs.Meta
open Compress Compress.Meta

theorem toBytes_aligned : ∀ (n : Nat) (bs : Bits), bs.length = 8 * n →
    Bits.ofBytes (Bits.toBytes bs) = bs ∧ (Bits.toBytes bs).length = n
  | 0, bs, h => by
    have : bs = [] := List.eq_nil_of_length_eq_zero (by omega)
    subst this; exact ⟨rfl, rfl⟩
  | n+1, bs, h => by
    match bs, h with
    | b0 :: b1 :: b2 :: b3 :: b4 :: b5 :: b6 :: b7 :: rest, h =>
      have hr : rest.length = 8 * n := by simp only [List.length_cons] at h; omega
      obtain ⟨i1, i2⟩ := toBytes_aligned n rest hr
      rw [toBytes_cons8]
      refine ⟨?_, by simp [i2]⟩
      simp only [Bits.ofBytes, ofByte_ofNat_toNat8, i1]
      rfl

theorem ofBytes_toBytes (bs : Bits) (h : bs.length % 8 = 0) : Bits.ofBytes (Bits.toBytes bs) = bs :=
  (toBytes_aligned (bs.length / 8) bs (by omega)).1

theorem length_toBytes (bs : Bits) (h : bs.length % 8 = 0) : (Bits.toBytes bs).length = bs.length / 8 :=
  (toBytes_aligned (bs.length / 8) bs (by omega)).2

theorem decodeAll_nil (fuel : Nat) (acc : Decoded) : decodeAll fuel [] acc = .ok acc := by
  cases fuel with
  | zero => rfl
  | succ n => simp [decodeAll, decodeBlock]

theorem decodeAll_step_fnil (fuel : Nat) (c : List UInt8) (bits rest : Bits) (acc : Decoded)
    (h : encodeBlock c .fnil = some bits) :
    decodeAll (fuel+1) (bits ++ rest) acc =
      decodeAll fuel rest { payload := acc.payload ++ c, final := .fnil, blocks := acc.blocks + 1,
                            consumed := acc.consumed + (Bits.toBytes bits).length } := by
  have hd := decodeBlock_encodeBlock_aux c .fnil bits rest h
  have hal := encodeBlock_aligned_aux c .fnil bits h
  simp only [decodeAll, hd]
  simp [length_toBytes bits hal]

theorem decodeAll_step_last (fuel : Nat) (c : List UInt8) (final : FinalMode) (bits : Bits) (acc : Decoded)
    (h : encodeBlock c final = some bits) :
    decodeAll (fuel+1) bits acc =
      .ok { payload := acc.payload ++ c, final := final, blocks := acc.blocks + 1,
            consumed := acc.consumed + (Bits.toBytes bits).length } := by
  by_cases hf : final = .fnil
  · subst hf
    have := decodeAll_step_fnil fuel c bits [] acc h
    rw [List.append_nil] at this
    rw [this, decodeAll_nil]
  · have hd := decodeBlock_encodeBlock_aux c final bits [] h
    rw [List.append_nil] at hd
    have hal := encodeBlock_aligned_aux c final bits h
    simp only [decodeAll, hd]
    simp [hf, length_toBytes bits hal]

theorem decodeAll_blocks : ∀ (ps : List (List UInt8 × Bits)) (fuel : Nat) (acc : Decoded)
    (cF : List UInt8) (bitsF : Bits) (final : FinalMode),
    (∀ p ∈ ps, encodeBlock p.1 .fnil = some p.2) → encodeBlock cF final = some bitsF →
    ps.length + 1 ≤ fuel →
    decodeAll fuel ((ps.map Prod.snd).flatten ++ bitsF) acc =
      .ok { payload := acc.payload ++ (ps.map Prod.fst).flatten ++ cF, final := final,
            blocks := acc.blocks + ps.length + 1,
            consumed := acc.consumed + ((ps.map (fun p => Bits.toBytes p.2)).flatten).length +
                        (Bits.toBytes bitsF).length } := by
  intro ps
  induction ps with
  | nil =>
    intro fuel acc cF bitsF final _ hF hfu
    obtain ⟨f, rfl⟩ : ∃ f, fuel = f + 1 := ⟨fuel - 1, by simp at hfu; omega⟩
    simp only [List.map_nil, List.flatten_nil, List.nil_append, List.length_nil, Nat.add_zero, List.append_nil]
    exact decodeAll_step_last f cF final bitsF acc hF
  | cons p ps ih =>
    intro fuel acc cF bitsF final hps hF hfu
    obtain ⟨f, rfl⟩ : ∃ f, fuel = f + 1 := ⟨fuel - 1, by simp at hfu; omega⟩
    obtain ⟨c, bits⟩ := p
    have hc : encodeBlock c .fnil = some bits := hps (c, bits) (List.mem_cons_self ..)
    simp only [List.map_cons, List.flatten_cons, List.append_assoc]
    rw [decodeAll_step_fnil f c bits _ acc hc]
    rw [ih f _ cF bitsF final (fun p hp => hps p (List.mem_cons_of_mem _ hp)) hF (by simp at hfu ⊢; omega)]
    simp only [List.length_cons, List.length_append, List.append_assoc]
    congr 2
    · omega
    · omega

end Compress.Proofs.Meta
