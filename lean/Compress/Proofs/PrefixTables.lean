/-
Lemmas behind C20 (H3): the two-level decode table built by `Decoder.Init`
decodes every stream to the unique code that prefixes it; `Encoder.Init`
terminates and maps each symbol to its code.
-/
import Compress.Prefix.Spec
import Compress.Proofs.PrefixTablesDecoder
import Compress.Proofs.PrefixTablesEncoder

namespace Compress.Proofs.PrefixTables
open Compress Compress.Prefix

/-- what `Decoder.Init` requires of its argument (checked only in debug builds
    in Go): at least two codes, values fitting their lengths (1..27), prefix-free
    and complete. -/
structure GoodCodes (cs : List Code) : Prop where
  two : 2 ≤ cs.length
  lens : ∀ c ∈ cs, 1 ≤ c.len ∧ c.len ≤ valueBits
  vals : ∀ c ∈ cs, c.val < 2 ^ c.len
  pf : PrefixFree cs
  complete : KraftComplete (cs.map (·.len))

/-- H3 (decoder): for every code `c` and every continuation of the stream, looking
    up the zero-extended next bits yields `c`'s symbol and length. -/
theorem decoder_lookup (cs : List Code) (h : GoodCodes cs) (c : Code) (hc : c ∈ cs) (rest : Bits) :
    (Decoder.init cs).lookup (Bits.toNat ((c.word ++ rest).take 32)) = (c.sym, c.len) := by
  apply decoder_lookup_val cs h.two (fun c hc => (h.lens c hc).2) h.vals h.pf c hc
  have := (h.lens c hc).2
  simp only [valueBits] at this
  rw [word_take c (by omega), Nat.mod_eq_of_lt (h.vals c hc)]

/-- H3 (decoder, stream form): `readSymbol` on a stream that starts with `c`'s
    word returns `c.sym` and leaves exactly the rest. -/
theorem decoder_readSymbol (cs : List Code) (h : GoodCodes cs) (c : Code) (hc : c ∈ cs) (rest : Bits) :
    (Decoder.init cs).readSymbol (c.word ++ rest) = some (c.sym, rest) := by
  unfold Decoder.readSymbol
  have hl := decoder_lookup cs h c hc rest
  obtain ⟨n, ch1, res, hfold, hcm, hlm, hcb, hmb⟩ := init_fields cs h.two
  have inv := fill_inv cs h.pf h.vals _ n ((Decoder.init cs).linkMask + 1) ch1 res (by omega)
  rw [← hfold] at inv
  have hsz : (Decoder.init cs).chunks.size ≠ 0 := by
    have := inv.size1
    have hpos : 0 < 2 ^ (min (maxLen cs) 9) := Nat.two_pow_pos _
    simp only at this
    omega
  have hwl : c.word.length = c.len := ofNat_length _ _
  have hlen : ¬ (c.word ++ rest).length < (Decoder.init cs).minBits := by
    rw [hmb, List.length_append, hwl]
    have := minLen_le cs c hc
    omega
  rw [if_neg hsz, if_neg hlen, hl]
  simp only
  rw [if_pos (by rw [List.length_append, hwl]; omega)]
  rw [← hwl, List.drop_left]

/-- H3 (encoder): with distinct 32-bit symbols the collision-free table search
    terminates and the table maps every symbol to its (value, length). -/
theorem encoder_lookup (cs : List Code) (h2 : 2 ≤ cs.length)
    (hs : symsIncreasing cs = true) (hb : ∀ c ∈ cs, c.sym < 2 ^ 32 ∧ c.val < 2 ^ 27 ∧ 1 ≤ c.len ∧ c.len < 32) :
    ∃ e, Encoder.init cs = some e ∧ ∀ c ∈ cs, e.lookup c.sym = (c.val, c.len) := by
  have hp := symsIncreasing_pairwise cs hs
  match cs, h2 with
  | a :: b :: rest, _ =>
    simp only [Encoder.init]
    apply attempt_ok _ hp (fun c hc => ⟨(hb c hc).1, (hb c hc).2.2⟩) 39 _ (numChunksFor_pos _ _ _ (by omega))
    have := numChunksFor_pos 64 ((a :: b :: rest).length - 1) 1 (by omega)
    have h39 : (2:Nat) ^ 32 ≤ 2 ^ 39 := by decide
    calc 2 ^ 32 ≤ 1 * 2 ^ 39 := by omega
      _ ≤ _ := Nat.mul_le_mul_right _ this

end Compress.Proofs.PrefixTables
