/-
Lemmas behind C20 (H3): the two-level decode table built by `Decoder.Init`
decodes every stream to the unique code that prefixes it; `Encoder.Init`
terminates and maps each symbol to its code.
-/
import Compress.Prefix.Spec

namespace Compress.Proofs.PrefixTables
open Compress Compress.Prefix

/-- what `Decoder.Init` requires of its argument (checked only in debug builds
    in Go): at least two codes, values fitting their lengths (1..27), prefix-free
    and complete. -/
structure GoodCodes (cs : List Code) : Prop where
  two : 2 ≤ cs.length
  lens : ∀ c ∈ cs, 1 ≤ c.len ∧ c.len ≤ valueBits
  vals : ∀ c ∈ cs, c.val < 2 ^ c.len
  pf : PrefixFree cs
  complete : KraftComplete (cs.map (·.len))

/-- H3 (decoder): for every code `c` and every continuation of the stream, looking
    up the zero-extended next bits yields `c`'s symbol and length. -/
theorem decoder_lookup (cs : List Code) (h : GoodCodes cs) (c : Code) (hc : c ∈ cs) (rest : Bits) :
    (Decoder.init cs).lookup (Bits.toNat ((c.word ++ rest).take 32)) = (c.sym, c.len) := by
  sorry

/-- H3 (decoder, stream form): `readSymbol` on a stream that starts with `c`'s
    word returns `c.sym` and leaves exactly the rest. -/
theorem decoder_readSymbol (cs : List Code) (h : GoodCodes cs) (c : Code) (hc : c ∈ cs) (rest : Bits) :
    (Decoder.init cs).readSymbol (c.word ++ rest) = some (c.sym, rest) := by
  sorry

/-- H3 (encoder): with distinct 32-bit symbols the collision-free table search
    terminates and the table maps every symbol to its (value, length). -/
theorem encoder_lookup (cs : List Code) (h2 : 2 ≤ cs.length)
    (hs : symsIncreasing cs = true) (hb : ∀ c ∈ cs, c.sym < 2 ^ 32 ∧ c.val < 2 ^ 27 ∧ 1 ≤ c.len ∧ c.len < 32) :
    ∃ e, Encoder.init cs = some e ∧ ∀ c ∈ cs, e.lookup c.sym = (c.val, c.len) := by
  sorry

end Compress.Proofs.PrefixTables
