/-
Lemmas about the append-only specification `specCopy` (S6).
-/
import Compress.Proofs.WindowBasic

namespace Compress.Proofs.Window
open Compress.Window

theorem specCopy_length (dist : Nat) : ∀ (n : Nat) (out : List UInt8),
    (specCopy out dist n).length = out.length + n := by
  intro n
  induction n with
  | zero => intro out; rfl
  | succ n ih =>
    intro out
    simp only [specCopy, ih, List.length_append, List.length_singleton]
    omega

theorem specCopy_add (dist : Nat) : ∀ (a b : Nat) (out : List UInt8),
    specCopy out dist (a + b) = specCopy (specCopy out dist a) dist b := by
  intro a
  induction a with
  | zero => intro b out; simp [specCopy]
  | succ a ih =>
    intro b out
    have : a + 1 + b = (a + b) + 1 := by omega
    rw [this]
    simp only [specCopy]
    exact ih b _

theorem specCopy_succ_right (dist n : Nat) (out : List UInt8) :
    specCopy out dist (n + 1) =
      specCopy out dist n ++ [(specCopy out dist n).getD (out.length + n - dist) 0] := by
  rw [specCopy_add]
  simp only [specCopy, specCopy_length]

/-- explicit form of an LZ77 copy: the appended bytes repeat the last `dist` bytes. -/
theorem specCopy_eq (dist : Nat) (out : List UInt8) (hd : 0 < dist) (hle : dist ≤ out.length) :
    ∀ n, specCopy out dist n =
      out ++ (List.range n).map (fun i => out.getD (out.length - dist + i % dist) 0) := by
  intro n
  induction n with
  | zero => simp [specCopy]
  | succ n ih =>
    rw [specCopy_succ_right, ih, List.range_succ, List.map_append, ← List.append_assoc]
    congr 1
    simp only [List.map_cons, List.map_nil, List.cons.injEq, and_true]
    rw [lgetD_append]
    by_cases c : n < dist
    · rw [if_pos (by omega), Nat.mod_eq_of_lt c]
      congr 1; omega
    · rw [if_neg (by omega), lgetD_map_range, if_pos (by omega)]
      have : n = (out.length + n - dist - out.length) + dist := by omega
      conv => rhs; rw [this, Nat.add_mod_right]

end Compress.Proofs.Window
