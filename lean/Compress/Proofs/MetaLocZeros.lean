/-
The symbol section of an encoded block never holds eight consecutive zero bits (C16 / M4).
-/
import Compress.Proofs.MetaBlockRT

namespace Compress.Proofs.MetaLoc
open Compress Compress.Meta Compress.Proofs.Meta

/-- scanner: `k` = number of zero bits just seen; `none` once eight zeros in a row were seen. -/
def zr : Nat → Bits → Option Nat
  | k, [] => some k
  | _, true :: l => zr 0 l
  | k, false :: l => if k ≥ 7 then none else zr (k + 1) l

theorem zr_append : ∀ (a b : Bits) (k : Nat), zr k (a ++ b) = (zr k a).bind (fun k' => zr k' b)
  | [], b, k => rfl
  | true :: a, b, k => by simp only [List.cons_append, zr, zr_append a b 0]
  | false :: a, b, k => by
    simp only [List.cons_append, zr]
    by_cases h : k ≥ 7
    · simp [h]
    · simp only [h, if_false, zr_append a b (k + 1)]

theorem zr_short : ∀ (l : Bits) (k : Nat), k + l.length ≤ 7 → ∃ k', zr k l = some k' ∧ k' ≤ k + l.length
  | [], k, _ => ⟨k, rfl, by simp⟩
  | true :: l, k, h => by
    obtain ⟨k', e, hk⟩ := zr_short l 0 (by simp only [List.length_cons] at h; omega)
    exact ⟨k', e, by simp only [List.length_cons]; omega⟩
  | false :: l, k, h => by
    simp only [List.length_cons] at h
    obtain ⟨k', e, hk⟩ := zr_short l (k + 1) (by omega)
    refine ⟨k', ?_, by simp only [List.length_cons]; omega⟩
    simp only [zr]
    rw [if_neg (by omega)]; exact e

/-- soundness of the scanner: an accepted list has no stretch of more than seven zeros. -/
theorem zr_sound : ∀ (l : Bits) (k k' : Nat), zr k l = some k' → k ≤ 7 →
    ∀ n m, (∀ j, j < m → l.getD (n + j) false = false) → n + m ≤ l.length →
      (m ≤ 7 ∧ (n = 0 → k + m ≤ 7))
  | [], k, k', _, hk => by
    intro n m _ hlen
    simp only [List.length_nil] at hlen
    have : m = 0 := by omega
    subst this
    exact ⟨by omega, fun _ => by omega⟩
  | true :: t, k, k', hz, hk => by
    intro n m hall hlen
    simp only [zr] at hz
    cases n with
    | zero =>
      cases m with
      | zero => exact ⟨by omega, fun _ => by omega⟩
      | succ m' =>
        have := hall 0 (by omega)
        simp at this
    | succ n' =>
      have ih := zr_sound t 0 k' hz (by omega) n' m
        (by intro j hj; have := hall j hj; rw [Nat.add_right_comm] at this; simpa using this)
        (by simp only [List.length_cons] at hlen; omega)
      exact ⟨ih.1, fun h => by omega⟩
  | false :: t, k, k', hz, hk => by
    intro n m hall hlen
    simp only [zr] at hz
    have hk7 : ¬ k ≥ 7 := by
      intro h; rw [if_pos h] at hz; cases hz
    rw [if_neg hk7] at hz
    cases n with
    | zero =>
      cases m with
      | zero => exact ⟨by omega, fun _ => by omega⟩
      | succ m' =>
        have ih := zr_sound t (k + 1) k' hz (by omega) 0 m'
          (by intro j hj; have := hall (j + 1) (by omega); simpa using this)
          (by simp only [List.length_cons] at hlen; omega)
        have := ih.2 rfl
        exact ⟨by omega, fun _ => by omega⟩
    | succ n' =>
      have ih := zr_sound t (k + 1) k' hz (by omega) n' m
        (by intro j hj; have := hall j hj; rw [Nat.add_right_comm] at this; simpa using this)
        (by simp only [List.length_cons] at hlen; omega)
      exact ⟨ih.1, fun h => by omega⟩

theorem zr_no8 (l : Bits) (k' : Nat) (hz : zr 0 l = some k') (n : Nat) (hn : n + 8 ≤ l.length)
    (hall : ∀ j, j < 8 → l.getD (n + j) false = false) : False := by
  have := (zr_sound l 0 k' hz (by omega) n 8 hall hn).1
  omega

/-- what a zero run needs from its context. -/
def ZP (pre : Bool) (k cnt : Nat) : Prop :=
  cnt = 0 ∨ cnt ≥ 11 ∨ (pre = false ∧ cnt ≥ 3) ∨ (pre = true ∧ k ≤ 3) ∨ (pre = false ∧ k + cnt ≤ 7)

theorem ZP_false_intro (k c : Nat) (h : c ≥ 3 ∨ k + c ≤ 7) : ZP false k c := by
  unfold ZP
  rcases h with h | h
  · exact Or.inr (Or.inr (Or.inl ⟨rfl, h⟩))
  · exact Or.inr (Or.inr (Or.inr (Or.inr ⟨rfl, h⟩)))

theorem zr_ofNat_127 (k : Nat) : zr k (Bits.ofNat 127 7) = some 0 := rfl
theorem zr_ofNat_3 (k : Nat) : zr k (Bits.ofNat 3 2) = some 0 := rfl

theorem zr_run_false : ∀ (fuelE : Nat) (pre : Bool) (cnt k : Nat), cnt ≤ fuelE → k ≤ 7 → ZP pre k cnt →
    ∃ k', zr k (encodeRun false fuelE pre cnt) = some k' ∧ k' ≤ 7 := by
  intro fuelE
  induction fuelE with
  | zero =>
    intro pre cnt k hc hk _
    have : cnt = 0 := by omega
    subst this
    exact ⟨k, by rw [encodeRun_nil]; rfl, hk⟩
  | succ n ih =>
    intro pre cnt k hc hk hz
    by_cases hc0 : cnt = 0
    · subst hc0
      exact ⟨k, by rw [encodeRun_nil]; rfl, hk⟩
    · rw [encodeRun_false_succ n pre cnt hc0]
      by_cases h11 : cnt ≥ 11
      · rw [if_pos h11]
        simp only [zr, zr_append]
        by_cases h138 : cnt ≤ 138
        · have e : cnt - min 138 cnt = 0 := by omega
          rw [e, encodeRun_nil]
          obtain ⟨kv, ev, hv⟩ := zr_short (Bits.ofNat (min 138 cnt - 11) 7) 0 (by rw [length_ofNat]; omega)
          rw [length_ofNat] at hv
          rw [ev]
          exact ⟨kv, rfl, by omega⟩
        · have e : min 138 cnt - 11 = 127 := by omega
          rw [e, zr_ofNat_127]
          simp only [Option.bind_some]
          exact ih false (cnt - min 138 cnt) 0 (by omega) (by omega)
            (ZP_false_intro _ _ (by omega))
      · rw [if_neg h11]
        by_cases h3 : pre = false ∧ cnt ≥ 3
        · rw [if_pos h3]
          simp only [zr, zr_append]
          rw [if_neg (by omega)]
          by_cases h6 : cnt ≤ 6
          · have e : cnt - min 6 cnt = 0 := by omega
            rw [e, encodeRun_nil]
            obtain ⟨kv, ev, hv⟩ := zr_short (Bits.ofNat (min 6 cnt - 3) 2) 1 (by rw [length_ofNat]; omega)
            rw [length_ofNat] at hv
            rw [ev]
            exact ⟨kv, rfl, by omega⟩
          · have e : min 6 cnt - 3 = 3 := by omega
            rw [e, zr_ofNat_3]
            simp only [Option.bind_some]
            exact ih false (cnt - min 6 cnt) 0 (by omega) (by omega)
              (ZP_false_intro _ _ (by omega))
        · rw [if_neg h3]
          have hk6 : k ≤ 6 ∧ ZP false (k + 1) (cnt - 1) := by
            unfold ZP at hz ⊢
            rcases hz with h | h | h | h | h
            · exact absurd h hc0
            · exact absurd h h11
            · exact absurd h h3
            · refine ⟨by omega, ?_⟩
              by_cases h4 : cnt - 1 ≥ 3
              · exact Or.inr (Or.inr (Or.inl ⟨rfl, h4⟩))
              · exact Or.inr (Or.inr (Or.inr (Or.inr ⟨rfl, by omega⟩)))
            · refine ⟨by omega, ?_⟩
              exact Or.inr (Or.inr (Or.inr (Or.inr ⟨rfl, by omega⟩)))
          simp only [zr]
          rw [if_neg (by omega)]
          exact ih false (cnt - 1) (k + 1) (by omega) (by omega) hk6.2

theorem zr_run_true : ∀ (fuelE : Nat) (pre : Bool) (cnt k : Nat), cnt ≤ fuelE →
    ∃ k', zr k (encodeRun true fuelE pre cnt) = some k' ∧ (cnt = 0 → k' = k) ∧ (0 < cnt → k' ≤ 3) := by
  intro fuelE
  induction fuelE with
  | zero =>
    intro pre cnt k hc
    have : cnt = 0 := by omega
    subst this
    exact ⟨k, by rw [encodeRun_nil]; rfl, fun _ => rfl, fun h => by omega⟩
  | succ n ih =>
    intro pre cnt k hc
    by_cases hc0 : cnt = 0
    · subst hc0
      exact ⟨k, by rw [encodeRun_nil]; rfl, fun _ => rfl, fun h => by omega⟩
    · rw [encodeRun_true_succ n pre cnt hc0]
      by_cases h3 : pre = true ∧ cnt ≥ 3
      · rw [if_pos h3]
        simp only [zr, zr_append]
        rw [if_neg (by omega)]
        obtain ⟨kv, ev, hv⟩ := zr_short (Bits.ofNat (min 6 cnt - 3) 2) 1 (by rw [length_ofNat]; omega)
        rw [length_ofNat] at hv
        rw [ev]
        simp only [Option.bind_some]
        obtain ⟨k', e, p1, p2⟩ := ih true (cnt - min 6 cnt) kv (by omega)
        refine ⟨k', e, fun h => absurd h hc0, fun _ => ?_⟩
        by_cases hr : cnt - min 6 cnt = 0
        · rw [p1 hr]; omega
        · exact p2 (by omega)
      · rw [if_neg h3]
        simp only [zr]
        rw [if_neg (by omega)]
        obtain ⟨k', e, p1, p2⟩ := ih true (cnt - 1) 1 (by omega)
        refine ⟨k', e, fun h => absurd h hc0, fun _ => ?_⟩
        by_cases hr : cnt - 1 = 0
        · rw [p1 hr]; omega
        · exact p2 (by omega)

def HeadZ (pre : Bool) (k : Nat) (rs : List (Bool × Nat)) : Prop :=
  ∀ cnt rs', rs = (false, cnt) :: rs' → ZP pre k cnt

theorem zr_runs : ∀ (rs : List (Bool × Nat)) (pre : Bool) (k : Nat), Alt rs → k ≤ 7 → HeadZ pre k rs →
    ∃ k', zr k (encodeRuns rs pre) = some k' ∧ k' ≤ 7 := by
  intro rs
  induction rs with
  | nil => intro pre k _ hk _; exact ⟨k, rfl, hk⟩
  | cons p rs ih =>
    obtain ⟨bit, cnt⟩ := p
    intro pre k halt hk hh
    obtain ⟨hpos, hne, halt'⟩ := (Alt_cons _ _ _).1 halt
    have hc0 : ¬ cnt = 0 := by omega
    simp only [encodeRuns, hc0, if_false, zr_append]
    cases bit with
    | false =>
      obtain ⟨k1, e1, hk1⟩ := zr_run_false cnt pre cnt k (Nat.le_refl _) hk (hh cnt rs rfl)
      rw [e1]
      simp only [Option.bind_some]
      apply ih false k1 halt' hk1
      intro c' rs' hrs
      exact absurd rfl (hne false c' rs' hrs)
    | true =>
      obtain ⟨k1, e1, _, hk1⟩ := zr_run_true cnt pre cnt k (Nat.le_refl _)
      rw [e1]
      simp only [Option.bind_some]
      have hk3 := hk1 hpos
      apply ih true k1 halt' (by omega)
      intro c' rs' _
      exact Or.inr (Or.inr (Or.inr (Or.inl ⟨rfl, hk3⟩)))

/-- **B1**: no eight consecutive zero bits inside the run-length coded symbols. -/
theorem encodeRuns_no8 (t : Bits) (n : Nat) (hn : n + 8 ≤ (encodeRuns (runs t) false).length)
    (hall : ∀ j, j < 8 → (encodeRuns (runs t) false).getD (n + j) false = false) : False := by
  obtain ⟨k', e, _⟩ := zr_runs (runs t) false 0 (alt_runs t) (by omega)
    (by intro cnt rs' _; exact ZP_false_intro _ _ (by omega))
  exact zr_no8 _ k' e n hn hall

end Compress.Proofs.MetaLoc
