/-
`index.Search` (xflate/index.go:93-109) is a correct binary search.
-/
import Compress.XFlate.Index

namespace Compress.Proofs.IndexSearch
open Compress.XFlate

/-- The raw offset at index `i` (with the Go-model default for out of range). -/
def rawAt (l : List Record) (i : Nat) : Int := (l[i]?.getD Record.zero).raw

theorem rawAt_cons_zero (a : Record) (rs : List Record) : rawAt (a :: rs) 0 = a.raw := by
  simp [rawAt]

theorem rawAt_cons_succ (a : Record) (rs : List Record) (i : Nat) :
    rawAt (a :: rs) (i + 1) = rawAt rs i := by
  simp [rawAt]

theorem rawAt_mem (l : List Record) (i : Nat) (hi : i < l.length) :
    ∃ r, r ∈ l ∧ rawAt l i = r.raw := by
  refine ⟨l[i], List.getElem_mem hi, ?_⟩
  simp [rawAt, hi]

theorem sorted_tail (a : Record) (rs : List Record) (h : rawSorted (a :: rs) = true) :
    rawSorted rs = true := by
  cases rs with
  | nil => rfl
  | cons b rs =>
    simp [rawSorted] at h
    exact h.2

theorem sorted_head_le : ∀ (rs : List Record) (a : Record), rawSorted (a :: rs) = true →
    ∀ r, r ∈ rs → a.raw ≤ r.raw := by
  intro rs
  induction rs with
  | nil => intro a _ r hr; cases hr
  | cons b rs ih =>
    intro a h r hr
    simp [rawSorted] at h
    obtain ⟨h1, h2⟩ := h
    rcases List.mem_cons.mp hr with hr | hr
    · subst hr; exact h1
    · have := ih b h2 r hr
      omega

theorem spec_char (p : Int) : ∀ (l : List Record), rawSorted l = true →
    (∀ i, i < searchSpec l p → rawAt l i ≤ p) ∧
    (∀ i, searchSpec l p ≤ i → i < l.length → p < rawAt l i) := by
  intro l
  induction l with
  | nil =>
    intro _
    refine ⟨?_, ?_⟩
    · intro i hi; simp [searchSpec] at hi
    · intro i _ hi; simp at hi
  | cons a rs ih =>
    intro h
    have ht := sorted_tail a rs h
    have hh := sorted_head_le rs a h
    obtain ⟨ih1, ih2⟩ := ih ht
    by_cases hap : a.raw ≤ p
    · have hk : searchSpec (a :: rs) p = searchSpec rs p + 1 := by
        simp [searchSpec, hap]
      rw [hk]
      refine ⟨?_, ?_⟩
      · intro i hi
        cases i with
        | zero => rw [rawAt_cons_zero]; exact hap
        | succ i => rw [rawAt_cons_succ]; exact ih1 i (by omega)
      · intro i hi hlen
        cases i with
        | zero => omega
        | succ i =>
          rw [rawAt_cons_succ]
          exact ih2 i (by omega) (by simpa using hlen)
    · have hall : ∀ r, r ∈ rs → p < r.raw := by
        intro r hr
        have := hh r hr
        omega
      have hk : searchSpec (a :: rs) p = 0 := by
        simp only [searchSpec, List.length_eq_zero_iff, List.filter_eq_nil_iff]
        intro r hr
        rcases List.mem_cons.mp hr with hr | hr
        · subst hr; simpa using hap
        · have := hall r hr
          simp only [decide_eq_true_eq]; omega
      rw [hk]
      refine ⟨?_, ?_⟩
      · intro i hi; omega
      · intro i _ hlen
        cases i with
        | zero => rw [rawAt_cons_zero]; omega
        | succ i =>
          rw [rawAt_cons_succ]
          obtain ⟨r, hr, he⟩ := rawAt_mem rs i (by simpa using hlen)
          rw [he]; exact hall r hr

theorem loop_correct (l : List Record) (p : Int) (k : Nat) (hk : k ≤ l.length)
    (hlo : ∀ i, i < k → rawAt l i ≤ p)
    (hhi : ∀ i, k ≤ i → i < l.length → p < rawAt l i) :
    ∀ (fuel : Nat) (imin imax : Int), 0 ≤ imin → imax < (l.length : Int) →
      (k : Int) - 1 ≤ imax → (imin ≤ (k : Int) - 1 ∨ k = 0) →
      imax - imin + 1 < (fuel : Int) →
      searchLoop l.toArray p fuel imin imax = (k : Int) - 1 := by
  intro fuel
  induction fuel with
  | zero =>
    intro imin imax h0 h1 h2 h3 h4
    simp only [searchLoop]
    omega
  | succ fuel ih =>
    intro imin imax h0 h1 h2 h3 h4
    simp only [searchLoop]
    by_cases hlt : imax < imin
    · rw [if_pos hlt]; omega
    · rw [if_neg hlt]
      have hmid0 : imin ≤ (imin + imax) / 2 := by omega
      have hmid1 : (imin + imax) / 2 ≤ imax := by omega
      generalize hm : (imin + imax) / 2 = imid at *
      have hmn : ((imid.toNat : Nat) : Int) = imid := by omega
      generalize hmm : imid.toNat = m at *
      have hml : m < l.length := by omega
      have e1 : (l.toArray[m]?.getD Record.zero).raw = rawAt l m := by
        simp [rawAt]
      have e2 : (l.toArray[m+1]?.getD Record.zero).raw = rawAt l (m+1) := by
        simp [rawAt]
      rw [e1, e2]
      simp only [List.size_toArray]
      by_cases hg : rawAt l m ≤ p
      · have hmk : m < k := by
          by_cases hc : m < k
          · exact hc
          · have := hhi m (by omega) hml; omega
        by_cases hn : (m + 1 ≥ l.length ∨ p < rawAt l (m+1))
        · have hcond : (decide (p ≥ rawAt l m) &&
              (decide (m + 1 ≥ l.length) || decide (p < rawAt l (m+1)))) = true := by
            simp only [Bool.and_eq_true, Bool.or_eq_true, decide_eq_true_eq]
            exact ⟨hg, hn⟩
          rw [if_pos hcond]
          have : ¬ (m + 1 < k) := by
            intro hc
            have := hlo (m+1) hc
            rcases hn with hn | hn <;> omega
          omega
        · have hcond : ¬ (decide (p ≥ rawAt l m) &&
              (decide (m + 1 ≥ l.length) || decide (p < rawAt l (m+1)))) = true := by
            simp only [Bool.and_eq_true, Bool.or_eq_true, decide_eq_true_eq]
            intro hc; exact hn hc.2
          rw [if_neg hcond]
          have hg' : p ≥ rawAt l m := hg
          rw [if_pos hg']
          have hm1k : m + 1 < k := by
            by_cases hc : m + 1 < k
            · exact hc
            · exfalso; apply hn
              by_cases hc2 : m + 1 < l.length
              · right; exact hhi (m+1) (by omega) hc2
              · left; omega
          exact ih (imid + 1) imax (by omega) h1 h2 (by omega) (by omega)
      · have hcond : ¬ (decide (p ≥ rawAt l m) &&
            (decide (m + 1 ≥ l.length) || decide (p < rawAt l (m+1)))) = true := by
          simp only [Bool.and_eq_true, Bool.or_eq_true, decide_eq_true_eq]
          intro hc; exact hg hc.1
        rw [if_neg hcond]
        have hg' : ¬ (p ≥ rawAt l m) := hg
        rw [if_neg hg']
        have hkm : k ≤ m := by
          by_cases hc : k ≤ m
          · exact hc
          · have := hlo m (by omega); omega
        have h3' : imin ≤ (k : Int) - 1 ∨ k = 0 := h3
        exact ih imin (imid - 1) h0 (by omega) (by omega) h3'
          (by omega)

theorem search_eq_spec (recs : List Record) (h : rawSorted recs = true) (p : Int) :
    search recs p = searchSpec recs p := by
  obtain ⟨h1, h2⟩ := spec_char p recs h
  have hk : searchSpec recs p ≤ recs.length := by
    unfold searchSpec; exact List.length_filter_le _ _
  have := loop_correct recs p (searchSpec recs p) hk h1 h2 (recs.length + 1) 0
    ((recs.length : Int) - 1) (by omega) (by omega) (by omega) (by omega)
    (by omega)
  unfold search
  rw [this]
  omega

end Compress.Proofs.IndexSearch
