/-
`index.Search` (xflate/index.go:93-109) is a correct binary search.
-/
import Compress.XFlate.Index

namespace Compress.Proofs.IndexSearch
open Compress.XFlate

theorem search_eq_spec (recs : List Record) (h : rawSorted recs = true) (p : Int) :
    search recs p = searchSpec recs p := by
  sorry

end Compress.Proofs.IndexSearch
