/-
C08 helpers: the read loop of `Reader.Read` ends within one iteration per remaining segment,
whatever the segments contain.
-/
import Compress.XFlate.ReaderSpec
import Compress.Proofs.XRIndex
import Compress.Proofs.XRSeek
import Compress.Proofs.XRRead
import Compress.Proofs.XTIndex
import Compress.Proofs.XTSeek

namespace Compress.Proofs.XTRead
open Compress Compress.XFlate Compress.Proofs.XRIndex Compress.Proofs.XRSeek Compress.Proofs.XRRead
  Compress.Proofs.XTIndex Compress.Proofs.XTSeek

section
variable {L : Layout}

/-! ### small steps that keep the invariant -/

theorem tinv_step (s : RState) (inv : TInv L s) (k : Nat) : TInv L (stepState s k) := by
  obtain ⟨segLe, riEq, chkEq, discNonneg, rel⟩ := inv
  refine ⟨segLe, riEq, chkEq, discNonneg, ?_⟩
  intro he
  show s.offset + (k : Int) = (getRecords L.recs s.seg).1.raw + ((s.zout + k : Nat) : Int) + s.discard ∨
    (s.seg = L.recs.length ∧ L.endRaw < s.offset + (k : Int))
  rcases rel he with h | h
  · left; omega
  · right; exact ⟨h.1, by omega⟩

theorem tinv_csize (s : RState) (inv : TInv L s) (c : Int) :
    TInv L { s with chk := { s.chk with csize := c } } :=
  ⟨inv.segLe, inv.riEq, inv.chkEq, inv.discNonneg, inv.rel⟩

theorem segBytes_len (s : RState) (k : Nat) : (segBytes L s k).length ≤ k := by
  unfold segBytes
  rw [List.length_take]
  omega

theorem tinv_discard (s : RState) (inv : TInv L s) (herr : s.err = none) :
    TInv L (discardStep L s) ∧ ((discardStep L s).err = none → (discardStep L s).discard = 0) := by
  obtain ⟨segLe, riEq, chkEq, discNonneg, rel⟩ := inv
  unfold discardStep
  by_cases hd : s.discard > 0
  · rw [if_pos hd]
    by_cases hle : s.discard ≤ (((L.seg s.seg).out.length - s.zout : Nat) : Int)
    · rw [if_pos hle]
      refine ⟨⟨segLe, riEq, chkEq, Int.le_refl _, ?_⟩, fun _ => rfl⟩
      intro _
      show s.offset = (getRecords L.recs s.seg).1.raw + ((s.zout + s.discard.toNat : Nat) : Int) + 0 ∨
        (s.seg = L.recs.length ∧ L.endRaw < s.offset)
      rcases rel herr with h | h
      · left; omega
      · right; exact h
    · rw [if_neg hle]
      cases hfin : (L.seg s.seg).fin with
      | none =>
        exact ⟨⟨segLe, riEq, chkEq, discNonneg, fun h => by cases h⟩, fun h => by cases h⟩
      | some e =>
        exact ⟨⟨segLe, riEq, chkEq, discNonneg, fun h => by cases h⟩, fun h => by cases h⟩
  · rw [if_neg hd]
    exact ⟨⟨segLe, riEq, chkEq, discNonneg, rel⟩, fun _ => by omega⟩

/-! ### after a verified chunk the reader is at the start of the next segment -/

theorem pick_next (rk : Rk L.recs) (s : RState) (inv : TInv L s) (herr : s.err = none)
    (hd : s.discard = 0) (hfull : s.chk.rsize = (s.zout : Int)) :
    pickRi L s s.offset = min (s.seg + 1) L.recs.length ∧
    (s.seg < L.recs.length →
      s.offset = (getRecords L.recs (s.seg + 1)).1.raw ∧ s.offset ≤ L.endRaw) := by
  obtain ⟨segLe, riEq, chkEq, discNonneg, rel⟩ := inv
  rcases Nat.lt_or_eq_of_le segLe with hlt | heq
  · have hm : min (s.seg + 1) L.recs.length = s.seg + 1 := by omega
    have hn := seg_next L s.seg hlt
    have hb := seg_bounds' rk (s.seg + 1) (by omega)
    have hoff : s.offset = (getRecords L.recs (s.seg + 1)).1.raw := by
      rcases rel herr with h | h
      · omega
      · omega
    refine ⟨?_, fun _ => ⟨hoff, by omega⟩⟩
    unfold pickRi
    rw [riEq, hm, if_neg (by intro h; exact h ⟨by omega, Or.inr hoff⟩)]
  · have hm : min (s.seg + 1) L.recs.length = L.recs.length := by omega
    have ht := seg_tail L
    rw [← heq] at ht
    refine ⟨?_, fun h => by omega⟩
    rcases rel herr with h | h
    · have hoff : s.offset = (getRecords L.recs s.seg).1.raw := by omega
      unfold pickRi
      rw [riEq, hm, ← heq, if_neg (by intro h; exact h ⟨by omega, Or.inr hoff⟩)]
    · have hri : s.ri ≤ L.recs.length := by rw [riEq]; omega
      have hb := seg_bounds' rk s.seg segLe
      rw [hm]
      exact (pickRi_ok' rk s hri s.offset (by omega)).2.2 h.2

/-- the state in which `Read` seeks after the inflater's `io.EOF`. -/
@[reducible] def eofState (s : RState) (k : Nat) : RState :=
  { ri := s.ri, offset := s.offset + ↑k, discard := s.discard,
    chk := { csize := if s.chk.typ ≠ footerType then s.chk.csize + endBlockLen else s.chk.csize,
             rsize := s.chk.rsize, typ := s.chk.typ },
    seg := s.seg, zout := s.zout + k, err := s.err, fetched := s.fetched }

theorem tinv_eofState (s : RState) (inv : TInv L s) (k : Nat) : TInv L (eofState s k) :=
  tinv_csize _ (tinv_step s inv k) _

/-- the inflater reports a clean end of the segment: `Read` returns, or — only when nothing
    was delivered — goes on with the next segment. -/
theorem loop_eof (rk : Rk L.recs) (n fuel : Nat) (s : RState) (adv : Adv) (k : Nat)
    (inv : TInv L s) (herr : s.err = none) (hd : s.discard = 0)
    (hz : zrRead (L.seg s.seg) s.zout n (adv.head?.getD (n, true)) = (k, some none)) :
    (∃ s', readLoop .fixed L n (fuel+1) s adv = some (s', segBytes L s k) ∧ TInv L s') ∨
    (k = 0 ∧ s.seg < L.recs.length ∧ ∃ s3, TInv L s3 ∧ s3.err = none ∧ s3.discard = 0 ∧
      s3.seg = s.seg + 1 ∧
      readLoop .fixed L n (fuel+1) s adv =
        readLoop .fixed L n fuel s3
          (if (L.seg s.seg).out.length - s.zout = 0 ∨ n = 0 then adv else adv.tail)) := by
  have i2 := tinv_eofState s inv k
  rw [readLoop]
  simp only [hz]
  by_cases hc1 : s.chk.typ = deflateType ∧ (L.seg s.seg).sync ≠ 65535
  · rw [if_pos hc1]
    exact Or.inl ⟨_, rfl, tinv_err _ (tinv_step s inv k) _⟩
  rw [if_neg hc1]
  by_cases hc2 : (if s.chk.typ ≠ footerType then s.chk.csize + endBlockLen else s.chk.csize) ≠
      (L.seg s.seg).inOff ∨ s.chk.rsize ≠ ((s.zout + k : Nat) : Int)
  · rw [if_pos hc2]
    exact Or.inl ⟨_, rfl, tinv_err _ i2 _⟩
  rw [if_neg hc2]
  have hfull : (eofState s k).chk.rsize = ((eofState s k).zout : Int) :=
    Decidable.not_not.1 (not_or.1 hc2).2
  have hsk : seek .fixed L (eofState s k) (s.offset + (k : Int)) 0 =
      match specSeek L.endRaw (s.offset + (k : Int)) (s.offset + (k : Int)) 0 with
      | none => (eofState s k, 0, some .invalid)
      | some pos => seekTo L (eofState s k) pos :=
    seek_eq L (eofState s k) (s.offset + (k : Int)) 0 (Or.inl herr)
  by_cases hneg : s.offset + (k : Int) < 0
  · have hsp : specSeek L.endRaw (s.offset + (k : Int)) (s.offset + (k : Int)) 0 = none := by
      simp [specSeek, hneg]
    rw [hsp] at hsk
    generalize hg : seek Variant.fixed L _ (s.offset + (k : Int)) 0 = r
    rw [hg] at hsk
    subst hsk
    exact Or.inl ⟨_, rfl, tinv_err _ i2 _⟩
  · have hsp : specSeek L.endRaw (s.offset + (k : Int)) (s.offset + (k : Int)) 0 =
        some (s.offset + (k : Int)) := by
      simp [specSeek, hneg]
    have hnf : ¬ fastCond (eofState s k) (s.offset + (k : Int)) := by
      unfold fastCond
      intro h
      have := h.1
      simp only [Int.sub_self] at this
      omega
    rw [hsp] at hsk
    simp only [] at hsk
    obtain ⟨hpick, hnext⟩ := pick_next rk (eofState s k) i2 herr hd hfull
    have hst : seekTo L (eofState s k) (s.offset + (k : Int)) =
        (slowState L (eofState s k) (s.offset + (k : Int)) (min (s.seg + 1) L.recs.length),
          s.offset + (k : Int), none) := by
      unfold seekTo
      rw [if_neg hnf]
      have : pickRi L (eofState s k) (s.offset + (k : Int)) = min (s.seg + 1) L.recs.length := hpick
      rw [this]
    rw [hst] at hsk
    have i3 : TInv L (slowState L (eofState s k) (s.offset + (k : Int))
        (min (s.seg + 1) L.recs.length)) := by
      have := tinv_seekTo rk (eofState s k) i2 (s.offset + (k : Int)) (by omega)
      rw [hst] at this
      exact this
    generalize hg : seek Variant.fixed L _ (s.offset + (k : Int)) 0 = r
    rw [hg] at hsk
    subst hsk
    simp only []
    by_cases hty : (slowState L (eofState s k) (s.offset + (k : Int))
        (min (s.seg + 1) L.recs.length)).chk.typ = unknownType
    · rw [if_pos hty]
      rw [if_neg (by intro h; cases h.2)]
      exact Or.inl ⟨_, rfl, tinv_err _ i3 _⟩
    · rw [if_neg hty]
      by_cases hk : k = 0
      · have hlt : s.seg < L.recs.length := by
          rcases Nat.lt_or_eq_of_le inv.segLe with h | h
          · exact h
          · exfalso
            apply hty
            have hm : min (s.seg + 1) L.recs.length = L.recs.length := by omega
            show (chkOf L (min (s.seg + 1) L.recs.length)).typ = unknownType
            rw [hm]
            exact gr_curr_typ_len L.recs
        have hm : min (s.seg + 1) L.recs.length = s.seg + 1 := by omega
        obtain ⟨ho, hle⟩ := hnext hlt
        rw [if_pos ⟨hk, rfl⟩]
        refine Or.inr ⟨hk, hlt, _, i3, rfl, ?_, ?_, rfl⟩
        · show (if s.offset + (k : Int) > L.endRaw then
              L.endRaw - (getRecords L.recs (min (s.seg + 1) L.recs.length)).1.raw
            else s.offset + (k : Int) - (getRecords L.recs (min (s.seg + 1) L.recs.length)).1.raw) = 0
          rw [hm]
          have ho' : s.offset + (k : Int) = (getRecords L.recs (s.seg + 1)).1.raw := ho
          have hle' : s.offset + (k : Int) ≤ L.endRaw := hle
          rw [if_neg (by omega)]
          omega
        · show min (min (s.seg + 1) L.recs.length) L.recs.length = s.seg + 1
          omega
      · rw [if_neg (by intro h; exact hk h.1)]
        exact Or.inl ⟨_, rfl, i3⟩

/-- **The read loop returns** within `#segments left + 1` iterations, on any layout. -/
theorem readLoop_returns (rk : Rk L.recs) (n : Nat) (hn : 0 < n) :
    ∀ (fuel : Nat) (s : RState) (adv : Adv), TInv L s → s.err = none → s.discard = 0 →
      (L.recs.length - s.seg) + 1 ≤ fuel →
      ∃ s' data, readLoop .fixed L n fuel s adv = some (s', data) ∧ TInv L s' ∧ data.length ≤ n := by
  intro fuel
  induction fuel with
  | zero => intro s adv _ _ _ h; omega
  | succ fuel ih =>
    intro s adv inv herr hd hf
    -- the inflater's answer `(k, some fin)` with `k ≤ n`
    have eofCase : ∀ k, k ≤ n → (k = 0 ∨ 0 < k) →
        zrRead (L.seg s.seg) s.zout n (adv.head?.getD (n, true)) = (k, some (L.seg s.seg).fin) →
        ∃ s' data, readLoop .fixed L n (fuel+1) s adv = some (s', data) ∧ TInv L s' ∧
          data.length ≤ n := by
      intro k hkn _ hz
      have hlen := segBytes_len (L := L) s k
      cases hfin : (L.seg s.seg).fin with
      | some e =>
        rw [hfin] at hz
        rw [readLoop]
        simp only [hz]
        exact ⟨_, _, rfl, tinv_err _ (tinv_step s inv k) _, by omega⟩
      | none =>
        rw [hfin] at hz
        rcases loop_eof rk n fuel s adv k inv herr hd hz with ⟨s', h, hi⟩ | ⟨hk, hlt, s3, i3, e3, d3, g3, h⟩
        · exact ⟨s', _, h, hi, by omega⟩
        · rw [h]
          exact ih s3 _ i3 e3 d3 (by omega)
    by_cases hrem : (L.seg s.seg).out.length - s.zout = 0
    · have hz := zr_zero (L.seg s.seg) s.zout n (adv.head?.getD (n, true)) hrem
      exact eofCase 0 (by omega) (Or.inl rfl) hz
    · obtain ⟨k, hk1, hkn, _, hz⟩ :=
        zr_pos (L.seg s.seg) s.zout n (adv.head?.getD (n, true)) hrem (by omega)
      rcases hz with hz | ⟨_, hz⟩
      · rw [readLoop_data n fuel s adv k (by omega) hz]
        have hlen := segBytes_len (L := L) s k
        exact ⟨_, _, rfl, tinv_step s inv k, by omega⟩
      · exact eofCase k hkn (Or.inr (by omega)) hz

end

end Compress.Proofs.XTRead
