/-
Auxiliary lemmas for `Compress.Proofs.PrefixCodes` (C20, H1/H6): bit-list
facts, the closed form of the `nextCodes` loop, and the counter invariant of
`assignVals`.
-/
import Compress.Prefix.Spec

namespace Compress.Proofs.PrefixCodes
open Compress Compress.Prefix

/-! ### bit lists -/

theorem length_ofNat : ∀ (n v : Nat), (Bits.ofNat v n).length = n
  | 0, _ => rfl
  | n+1, v => by simp [Bits.ofNat, length_ofNat n]

theorem toNat_ofNat : ∀ (n v : Nat), Bits.toNat (Bits.ofNat v n) = v % 2 ^ n
  | 0, v => by simp [Bits.ofNat, Bits.toNat, Nat.mod_one]
  | n+1, v => by
    simp only [Bits.ofNat, Bits.toNat, toNat_ofNat n]
    have h2 : 2 ^ (n+1) = 2 * 2 ^ n := by rw [Nat.pow_succ, Nat.mul_comm]
    rw [h2, Nat.mod_mul]
    by_cases h : v % 2 = 1 <;> simp [h] <;> omega

theorem toNat_lt : ∀ (l : Bits), Bits.toNat l < 2 ^ l.length
  | [] => by simp [Bits.toNat]
  | b :: bs => by
    have := toNat_lt bs
    simp only [Bits.toNat, List.length_cons, Nat.pow_succ]
    cases b <;> simp <;> omega

theorem ofNat_toNat : ∀ (l : Bits), Bits.ofNat (Bits.toNat l) l.length = l
  | [] => rfl
  | b :: bs => by
    have ih := ofNat_toNat bs
    simp only [Bits.toNat, List.length_cons, Bits.ofNat]
    cases b
    · simp [ih]
    · have h1 : (1 + 2 * Bits.toNat bs) % 2 = 1 := by omega
      have h2 : (1 + 2 * Bits.toNat bs) / 2 = Bits.toNat bs := by omega
      simp [h1, h2, ih]

theorem ofNat_add : ∀ (d l v : Nat),
    Bits.ofNat v (d + l) = Bits.ofNat v d ++ Bits.ofNat (v / 2 ^ d) l
  | 0, l, v => by simp [Bits.ofNat]
  | d+1, l, v => by
    have e : d + 1 + l = (d + l) + 1 := by omega
    rw [e]
    simp only [Bits.ofNat, List.cons_append, ofNat_add d l (v / 2)]
    rw [Nat.div_div_eq_div_mul, Nat.pow_succ, Nat.mul_comm]

theorem reverseBits_lt (v n : Nat) : reverseBits v n < 2 ^ n := by
  have := toNat_lt (Bits.ofNat v n).reverse
  simpa [reverseBits, length_ofNat] using this

theorem ofNat_reverseBits (v n : Nat) :
    Bits.ofNat (reverseBits v n) n = (Bits.ofNat v n).reverse := by
  have := ofNat_toNat (Bits.ofNat v n).reverse
  simpa [reverseBits, length_ofNat] using this

theorem reverseBits_reverseBits (v n : Nat) :
    reverseBits (reverseBits v n) n = v % 2 ^ n := by
  rw [reverseBits, ofNat_reverseBits, List.reverse_reverse, toNat_ofNat]

theorem canon_lt (c : Code) : c.canon < 2 ^ c.len := reverseBits_lt _ _

/-- the stream-order word is the canonical value written MSB first. -/
theorem word_eq (c : Code) : c.word = (Bits.ofNat c.canon c.len).reverse := by
  rw [Code.canon, ofNat_reverseBits, List.reverse_reverse, Code.word]

/-- prefix of MSB-first words = truncating division. -/
theorem prefix_div (na la nb lb : Nat) (ha : na < 2 ^ la) (hb : nb < 2 ^ lb) (hl : la ≤ lb)
    (h : (Bits.ofNat na la).reverse <+: (Bits.ofNat nb lb).reverse) :
    nb / 2 ^ (lb - la) = na := by
  obtain ⟨d, rfl⟩ : ∃ d, lb = d + la := ⟨lb - la, by omega⟩
  rw [ofNat_add, List.reverse_append] at h
  obtain ⟨t, ht⟩ := h
  have hlen : (Bits.ofNat na la).reverse.length = (Bits.ofNat (nb / 2 ^ d) la).reverse.length := by
    simp [length_ofNat]
  have h1 := (List.append_inj ht hlen).1
  have h2 := congrArg (fun l => Bits.toNat l.reverse) h1
  simp only [List.reverse_reverse, toNat_ofNat] at h2
  have h3 : nb / 2 ^ d < 2 ^ la := by
    rw [Nat.div_lt_iff_lt_mul (Nat.two_pow_pos d), ← Nat.pow_add, Nat.add_comm]; exact hb
  rw [Nat.mod_eq_of_lt ha, Nat.mod_eq_of_lt h3] at h2
  rw [Nat.add_sub_cancel]; exact h2.symm

theorem word_length (c : Code) : c.word.length = c.len := by
  simp [Code.word, length_ofNat]

/-! ### closed form of the `nextCodes` loop -/

/-- first canonical code of length `i`: `Σ_{c.len < i} 2^(i - c.len)`. -/
def firstCode : List Code → Nat → Nat
  | [], _ => 0
  | c :: cs, i => (if c.len < i then 2 ^ (i - c.len) else 0) + firstCode cs i

theorem lenCount_cons (c : Code) (cs : List Code) (l : Nat) :
    lenCount (c :: cs) l = (if c.len = l then 1 else 0) + lenCount cs l := by
  unfold lenCount
  by_cases h : c.len = l <;> simp [h] <;> omega

theorem lenCount_nil (l : Nat) : lenCount [] l = 0 := rfl

theorem firstCode_succ (cs : List Code) (i : Nat) :
    firstCode cs (i + 1) = 2 * (firstCode cs i + lenCount cs i) := by
  induction cs with
  | nil => simp [firstCode, lenCount_nil]
  | cons c cs ih =>
    simp only [firstCode, lenCount_cons, ih]
    rcases Nat.lt_trichotomy c.len i with h | h | h
    · have e : i + 1 - c.len = (i - c.len) + 1 := by omega
      have h1 : c.len < i + 1 := by omega
      have h2 : c.len ≠ i := by omega
      simp only [h, h1, h2, if_true, if_false, e, Nat.pow_succ]
      omega
    · subst h
      simp
      omega
    · have h1 : ¬ c.len < i + 1 := by omega
      have h2 : ¬ c.len < i := by omega
      have h3 : c.len ≠ i := by omega
      simp only [h1, h2, h3, if_false]
      omega

theorem firstCode_eq_zero (cs : List Code) (i : Nat) (h : ∀ c ∈ cs, i ≤ c.len) :
    firstCode cs i = 0 := by
  induction cs with
  | nil => rfl
  | cons c cs ih =>
    have h1 : ¬ c.len < i := by have := h c (by simp); omega
    simp only [firstCode, h1, if_false, Nat.zero_add]
    exact ih (fun c hc => h c (by simp [hc]))

theorem lenCount_eq_zero (cs : List Code) (i : Nat) (h : ∀ c ∈ cs, c.len ≠ i) :
    lenCount cs i = 0 := by
  induction cs with
  | nil => rfl
  | cons c cs ih =>
    rw [lenCount_cons, if_neg (h c (by simp)), ih (fun c hc => h c (by simp [hc]))]

theorem lenCount_pos (cs : List Code) (c : Code) (h : c ∈ cs) : 1 ≤ lenCount cs c.len := by
  induction cs with
  | nil => cases h
  | cons x xs ih =>
    rw [lenCount_cons]
    rcases List.mem_cons.1 h with rfl | h
    · simp
    · have := ih h; omega

/-- `endCode cs i = firstCode cs i + lenCount cs i`, one past the last code of length `i`. -/
def endCode (cs : List Code) (i : Nat) : Nat := firstCode cs i + lenCount cs i

theorem firstCode_succ' (cs : List Code) (i : Nat) : firstCode cs (i + 1) = 2 * endCode cs i :=
  firstCode_succ cs i

theorem endCode_mul_le_firstCode (cs : List Code) (i d : Nat) :
    endCode cs i * 2 ^ (d + 1) ≤ firstCode cs (i + d + 1) := by
  induction d with
  | zero => rw [firstCode_succ']; omega
  | succ d ih =>
    have e : i + (d + 1) + 1 = (i + d + 1) + 1 := by omega
    rw [e, firstCode_succ, Nat.pow_succ, ← Nat.mul_assoc]
    omega

theorem endCode_mul_le_endCode (cs : List Code) (i d : Nat) :
    endCode cs i * 2 ^ d ≤ endCode cs (i + d) := by
  cases d with
  | zero => simp
  | succ d =>
    have := endCode_mul_le_firstCode cs i d
    have e : i + (d + 1) = i + d + 1 := by omega
    rw [e]; unfold endCode at *; omega

theorem endCode_le_pow (cs : List Code) (m i : Nat) (hm : endCode cs m = 2 ^ m) (hi : i ≤ m) :
    endCode cs i ≤ 2 ^ i := by
  obtain ⟨d, rfl⟩ : ∃ d, m = i + d := ⟨m - i, by omega⟩
  have := endCode_mul_le_endCode cs i d
  rw [hm, Nat.pow_add] at this
  exact Nat.le_of_mul_le_mul_right this (Nat.two_pow_pos d)

/-- the `nextCodes` loop, in closed form. -/
theorem nextCodesLoop_spec (cs : List Code) (k i code : Nat) (acc : List (Nat × Nat))
    (h : 2 * code = firstCode cs i) :
    2 * (nextCodesLoop cs k i code acc).2 = firstCode cs (i + k) ∧
    ∀ l, (nextCodesLoop cs k i code acc).1.find? (·.1 == l) =
      if i ≤ l ∧ l < i + k then some (l, firstCode cs l) else acc.find? (·.1 == l) := by
  induction k generalizing i code acc with
  | zero =>
    simp only [nextCodesLoop, Nat.add_zero]
    refine ⟨h, fun l => ?_⟩
    rw [if_neg (by omega)]
  | succ k ih =>
    simp only [nextCodesLoop]
    have h' : 2 * (2 * code + lenCount cs i) = firstCode cs (i + 1) := by
      rw [firstCode_succ]; omega
    obtain ⟨h1, h2⟩ := ih (i + 1) (2 * code + lenCount cs i) ((i, 2 * code) :: acc) h'
    refine ⟨by rw [h1]; congr 1; omega, fun l => ?_⟩
    rw [h2 l]
    by_cases hl : i = l
    · subst hl
      simp [h]
    · have : ¬ (i == l) = true := by simpa using hl
      simp only [List.find?_cons, this]
      by_cases hh : i + 1 ≤ l ∧ l < i + 1 + k
      · rw [if_pos hh, if_pos (by omega)]
      · rw [if_neg hh, if_neg (by omega)]

/-! ### `assignVals` -/

theorem assignVals_shape (cs : List Code) (next : Nat → Nat) :
    (assignVals cs next).map (·.sym) = cs.map (·.sym) ∧
    (assignVals cs next).map (·.len) = cs.map (·.len) := by
  induction cs generalizing next with
  | nil => simp [assignVals]
  | cons c cs ih => simp [assignVals, (ih _).1, (ih _).2]

theorem assignVals_val_lt (cs : List Code) (next : Nat → Nat) :
    ∀ c ∈ assignVals cs next, c.val < 2 ^ c.len := by
  induction cs generalizing next with
  | nil => simp [assignVals]
  | cons c cs ih =>
    intro x hx
    simp only [assignVals, List.mem_cons] at hx
    rcases hx with rfl | hx
    · exact reverseBits_lt _ _
    · exact ih _ x hx

/-- every assigned counter lies in `[next len, E len)`. -/
theorem assignVals_canon (E : Nat → Nat) (cs : List Code) (next : Nat → Nat)
    (h1 : ∀ l, next l + lenCount cs l ≤ E l) (h2 : ∀ c ∈ cs, E c.len ≤ 2 ^ c.len) :
    ∀ c ∈ assignVals cs next, next c.len ≤ c.canon ∧ c.canon < E c.len := by
  induction cs generalizing next with
  | nil => simp [assignVals]
  | cons c cs ih =>
    intro x hx
    simp only [assignVals, List.mem_cons] at hx
    have hc := h1 c.len
    rw [lenCount_cons, if_pos rfl] at hc
    rcases hx with rfl | hx
    · have hlt : next c.len < 2 ^ c.len := by have := h2 c (by simp); omega
      simp only [Code.canon, reverseBits_reverseBits, Nat.mod_eq_of_lt hlt]
      omega
    · have := ih (fun l => if l = c.len then next l + 1 else next l)
        (fun l => by
          have := h1 l
          rw [lenCount_cons] at this
          by_cases hl : l = c.len
          · subst hl; simp at this ⊢; omega
          · have hl' : ¬ c.len = l := fun h => hl h.symm
            simp only [hl, hl', if_false] at this ⊢; omega)
        (fun c hc => h2 c (by simp [hc])) x hx
      refine ⟨?_, this.2⟩
      have h3 := this.1
      by_cases hl : x.len = c.len
      · simp only [hl, if_true] at h3; rw [hl]; omega
      · simp only [hl, if_false] at h3; exact h3

/-- counters of equal length are strictly increasing in list order. -/
theorem assignVals_pairwise (E : Nat → Nat) (cs : List Code) (next : Nat → Nat)
    (h1 : ∀ l, next l + lenCount cs l ≤ E l) (h2 : ∀ c ∈ cs, E c.len ≤ 2 ^ c.len) :
    (assignVals cs next).Pairwise (fun a b => a.len = b.len → a.canon < b.canon) := by
  induction cs generalizing next with
  | nil => simp [assignVals]
  | cons c cs ih =>
    have hc := h1 c.len
    rw [lenCount_cons, if_pos rfl] at hc
    have hstep : ∀ l, (if l = c.len then next l + 1 else next l) + lenCount cs l ≤ E l := fun l => by
      have := h1 l
      rw [lenCount_cons] at this
      by_cases hl : l = c.len
      · subst hl; simp at this ⊢; omega
      · have hl' : ¬ c.len = l := fun h => hl h.symm
        simp only [hl, hl', if_false] at this ⊢; omega
    simp only [assignVals, List.pairwise_cons]
    refine ⟨fun x hx hlen => ?_, ih _ hstep (fun c hc => h2 c (by simp [hc]))⟩
    have := (assignVals_canon E cs _ hstep (fun c hc => h2 c (by simp [hc])) x hx).1
    have hlt : next c.len < 2 ^ c.len := by have := h2 c (by simp); omega
    have hlen' : x.len = c.len := hlen.symm
    simp only [Code.canon, reverseBits_reverseBits, Nat.mod_eq_of_lt hlt]
    rw [if_pos hlen'] at this
    simp only [Code.canon] at this
    have e : next x.len = next c.len := by rw [hlen']
    omega

theorem pairwise_forall {α} {R : α → α → Prop} (hs : ∀ a b, R a b → R b a) {l : List α}
    (h : l.Pairwise R) : ∀ a ∈ l, ∀ b ∈ l, a ≠ b → R a b := by
  induction h with
  | nil => simp
  | cons hx _ ih =>
    intro a ha b hb hne
    rcases List.mem_cons.1 ha with ha | ha <;> rcases List.mem_cons.1 hb with hb | hb
    · exact absurd (ha.trans hb.symm) hne
    · rw [ha]; exact hx _ hb
    · rw [hb]; exact hs _ _ (hx _ ha)
    · exact ih a ha b hb hne

/-- abstract prefix-freeness of the canonical assignment. -/
theorem assignVals_prefixFree (E : Nat → Nat) (cs : List Code) (next : Nat → Nat)
    (h1 : ∀ l, next l + lenCount cs l ≤ E l) (h2 : ∀ c ∈ cs, E c.len ≤ 2 ^ c.len)
    (h3 : ∀ a ∈ cs, ∀ b ∈ cs, ∀ d, b.len = a.len + d + 1 → E a.len * 2 ^ (d + 1) ≤ next b.len) :
    PrefixFree (assignVals cs next) := by
  intro a ha b hb hne hpre
  have hpw := pairwise_forall (R := fun (a b : Code) => a.len = b.len → a.canon ≠ b.canon)
    (fun a b h e => (h e.symm).symm)
    ((assignVals_pairwise E cs next h1 h2).imp (fun h e => Nat.ne_of_lt (h e))) a ha b hb hne
  have hca := assignVals_canon E cs next h1 h2 a ha
  have hcb := assignVals_canon E cs next h1 h2 b hb
  have hle : a.len ≤ b.len := by
    have := hpre.length_le
    rwa [word_length, word_length] at this
  rw [word_eq, word_eq] at hpre
  have hdiv := prefix_div _ _ _ _ (canon_lt a) (canon_lt b) hle hpre
  rcases Nat.eq_or_lt_of_le hle with he | hlt
  · rw [he, Nat.sub_self, Nat.pow_zero, Nat.div_one] at hdiv
    exact hpw he hdiv.symm
  · obtain ⟨d, hd⟩ : ∃ d, b.len = a.len + d + 1 := ⟨b.len - a.len - 1, by omega⟩
    -- lengths of results are lengths of inputs
    have hlens := (assignVals_shape cs next).2
    have hmem : ∀ x ∈ assignVals cs next, ∃ y ∈ cs, y.len = x.len := by
      intro x hx
      have : x.len ∈ (assignVals cs next).map (·.len) := List.mem_map.2 ⟨x, hx, rfl⟩
      rw [hlens] at this
      exact List.mem_map.1 this
    obtain ⟨a', ha', hal⟩ := hmem a ha
    obtain ⟨b', hb', hbl⟩ := hmem b hb
    have := h3 a' ha' b' hb' d (by omega)
    rw [hal, hbl] at this
    have e : b.len - a.len = d + 1 := by omega
    rw [e] at hdiv
    have h5 : (a.canon + 1) * 2 ^ (d + 1) ≤ b.canon :=
      Nat.le_trans (Nat.le_trans (Nat.mul_le_mul_right _ hca.2) this) hcb.1
    have h6 : a.canon + 1 ≤ b.canon / 2 ^ (d + 1) :=
      (Nat.le_div_iff_mul_le (Nat.two_pow_pos _)).2 h5
    omega

/-! ### min/max folds, Kraft sums -/

def minB (cs : List Code) : Nat := cs.foldl (fun m c => min m c.len) (cs.head!).len
def maxB (cs : List Code) : Nat := cs.foldl (fun m c => max m c.len) 0
def nextOf (tbl : List (Nat × Nat)) : Nat → Nat :=
  fun l => ((tbl.find? (·.1 == l)).map (·.2)).getD 0

theorem foldl_min_le (cs : List Code) (init : Nat) :
    cs.foldl (fun m c => min m c.len) init ≤ init ∧
    ∀ c ∈ cs, cs.foldl (fun m c => min m c.len) init ≤ c.len := by
  induction cs generalizing init with
  | nil => simp
  | cons x xs ih =>
    simp only [List.foldl_cons, List.mem_cons]
    have h := ih (min init x.len)
    refine ⟨by omega, fun c hc => ?_⟩
    rcases hc with rfl | hc
    · omega
    · exact h.2 c hc

theorem le_foldl_min (cs : List Code) (init k : Nat) (h0 : k ≤ init) (h : ∀ c ∈ cs, k ≤ c.len) :
    k ≤ cs.foldl (fun m c => min m c.len) init := by
  induction cs generalizing init with
  | nil => simpa
  | cons x xs ih =>
    simp only [List.foldl_cons]
    exact ih _ (by have := h x (by simp); omega) (fun c hc => h c (by simp [hc]))

theorem le_foldl_max (cs : List Code) (init : Nat) :
    init ≤ cs.foldl (fun m c => max m c.len) init ∧
    ∀ c ∈ cs, c.len ≤ cs.foldl (fun m c => max m c.len) init := by
  induction cs generalizing init with
  | nil => simp
  | cons x xs ih =>
    simp only [List.foldl_cons, List.mem_cons]
    have h := ih (max init x.len)
    refine ⟨by omega, fun c hc => ?_⟩
    rcases hc with rfl | hc
    · omega
    · exact h.2 c hc

theorem foldl_max_le (cs : List Code) (init k : Nat) (h0 : init ≤ k) (h : ∀ c ∈ cs, c.len ≤ k) :
    cs.foldl (fun m c => max m c.len) init ≤ k := by
  induction cs generalizing init with
  | nil => simpa
  | cons x xs ih =>
    simp only [List.foldl_cons]
    exact ih _ (by have := h x (by simp); omega) (fun c hc => h c (by simp [hc]))

theorem foldl_add_shift (l : List Nat) (a : Nat) :
    l.foldl (· + ·) a = a + l.foldl (· + ·) 0 := by
  induction l generalizing a with
  | nil => simp
  | cons x xs ih => simp only [List.foldl_cons]; rw [ih (a + x), ih (0 + x)]; omega

theorem kraftScaled_cons (l : Nat) (ls : List Nat) (m : Nat) :
    kraftScaled (l :: ls) m = 2 ^ (m - l) + kraftScaled ls m := by
  simp only [kraftScaled, List.map_cons, List.foldl_cons]
  rw [foldl_add_shift]; omega

theorem kraftScaled_eq_endCode (cs : List Code) (m : Nat) (h : ∀ c ∈ cs, c.len ≤ m) :
    kraftScaled (cs.map (·.len)) m = endCode cs m := by
  induction cs with
  | nil => rfl
  | cons c cs ih =>
    have ih := ih (fun c hc => h c (by simp [hc]))
    have hc := h c (by simp)
    simp only [List.map_cons, kraftScaled_cons, ih, endCode, firstCode, lenCount_cons]
    rcases Nat.eq_or_lt_of_le hc with he | hlt
    · simp [he]; omega
    · have : c.len ≠ m := by omega
      simp [hlt, this]; omega

theorem kraftScaled_scale (ls : List Nat) (M m : Nat) (h : ∀ l ∈ ls, l ≤ M) (hm : M ≤ m) :
    kraftScaled ls m = 2 ^ (m - M) * kraftScaled ls M := by
  induction ls with
  | nil => simp [kraftScaled]
  | cons l ls ih =>
    have ih := ih (fun l hl => h l (by simp [hl]))
    have hl := h l (by simp)
    rw [kraftScaled_cons, kraftScaled_cons, ih, Nat.mul_add, ← Nat.pow_add]
    congr 2; omega

/-! ### unfolding `generatePrefixes` -/

theorem gp_unfold (a b : Code) (rest : List Code) :
    generatePrefixes (a :: b :: rest) =
      let cs := a :: b :: rest
      if cs.any (fun c => c.len > valueBits) then .error .lenTooLarge
      else if !symsIncreasing cs then .error .notIncreasing
      else if minB cs = 0 then .error .zeroLength
      else if (nextCodesLoop cs (maxB cs + 1 - minB cs) (minB cs) 0 []).2 ≠ 2 ^ maxB cs then
        .error .degenerate
      else .ok (assignVals cs
        (nextOf (nextCodesLoop cs (maxB cs + 1 - minB cs) (minB cs) 0 []).1)) := by
  rfl

/-- whenever the general branch succeeds, the result is an `assignVals`. -/
theorem gp_ok_assign (cs r : List Code) (h2 : 2 ≤ cs.length) (h : generatePrefixes cs = .ok r) :
    ∃ next, r = assignVals cs next := by
  match cs, h2 with
  | a :: b :: rest, _ =>
    rw [gp_unfold] at h
    simp only at h
    split at h; · cases h
    split at h; · cases h
    split at h; · cases h
    split at h; · cases h
    exact ⟨_, (Except.ok.inj h).symm⟩

/-- the first-code table used on well-formed input. -/
def nextFn (cs : List Code) : Nat → Nat :=
  fun l => if minB cs ≤ l ∧ l < maxB cs + 1 then firstCode cs l else 0

theorem gp_valid (cs : List Code) (h : ValidLens cs) :
    (∀ c ∈ cs, minB cs ≤ c.len ∧ c.len ≤ maxB cs) ∧
    generatePrefixes cs =
      if endCode cs (maxB cs) ≠ 2 ^ maxB cs then .error .degenerate
      else .ok (assignVals cs (nextFn cs)) := by
  obtain ⟨h2, hinc, hl⟩ := h
  match cs, h2 with
  | a :: b :: rest, _ =>
    have hrange : ∀ c ∈ a :: b :: rest, minB (a :: b :: rest) ≤ c.len ∧ c.len ≤ maxB (a :: b :: rest) :=
      fun c hc => ⟨(foldl_min_le _ _).2 c hc, (le_foldl_max _ _).2 c hc⟩
    refine ⟨hrange, ?_⟩
    rw [gp_unfold]
    simp only
    have h1 : (a :: b :: rest).any (fun c => c.len > valueBits) = false := by
      rw [List.any_eq_false]
      intro c hc
      have := (hl c hc).2
      simp; omega
    have hmin : 1 ≤ minB (a :: b :: rest) :=
      le_foldl_min _ _ 1 (hl _ (by simp [List.head!])).1 (fun c hc => (hl c hc).1)
    have hmm : minB (a :: b :: rest) ≤ maxB (a :: b :: rest) := by
      have := hrange a (by simp); omega
    rw [h1, hinc]
    simp only [Bool.false_eq_true, if_false, Bool.not_true]
    rw [if_neg (by omega)]
    have hz : 2 * 0 = firstCode (a :: b :: rest) (minB (a :: b :: rest)) := by
      rw [firstCode_eq_zero _ _ (fun c hc => (hrange c hc).1)]
    obtain ⟨s1, s2⟩ := nextCodesLoop_spec (a :: b :: rest)
      (maxB (a :: b :: rest) + 1 - minB (a :: b :: rest)) (minB (a :: b :: rest)) 0 [] hz
    have e : minB (a :: b :: rest) + (maxB (a :: b :: rest) + 1 - minB (a :: b :: rest))
        = maxB (a :: b :: rest) + 1 := by omega
    rw [e] at s1 s2
    rw [firstCode_succ'] at s1
    have s1' : (nextCodesLoop (a :: b :: rest)
      (maxB (a :: b :: rest) + 1 - minB (a :: b :: rest)) (minB (a :: b :: rest)) 0 []).2
        = endCode (a :: b :: rest) (maxB (a :: b :: rest)) := by omega
    have s3 : nextOf (nextCodesLoop (a :: b :: rest)
      (maxB (a :: b :: rest) + 1 - minB (a :: b :: rest)) (minB (a :: b :: rest)) 0 []).1
        = nextFn (a :: b :: rest) := by
      funext l
      simp only [nextOf, nextFn, s2 l]
      split <;> simp
    rw [s1', s3]

end Compress.Proofs.PrefixCodes
