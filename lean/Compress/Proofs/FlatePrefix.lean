/-
S1 for DEFLATE: the specification decoder is prefix-monotone — on a cut
stream it can only run out of input, and what it has produced by then is a
prefix of what it produces on the whole stream.
-/
import Compress.Flate.Spec
import Compress.Proofs.FlatePrefixBlock

namespace Compress.Proofs.FlatePrefix
open Compress Compress.Flate

theorem decodeBits_eq (bits : Bits) :
    decodeBits bits = decodeBlocks (0 + bits.length) (bits.length + 1) #[] bits := by
  rw [Nat.zero_add]; rfl

theorem ofNat_length (v : Nat) : ∀ n, (Bits.ofNat v n).length = n := by
  intro n
  induction n generalizing v with
  | zero => rfl
  | succ n ih => simp [Bits.ofNat, ih]

theorem ofBytes_take : ∀ (bytes : List UInt8) (k : Nat),
    Bits.ofBytes (bytes.take k) = (Bits.ofBytes bytes).take (8 * k) := by
  intro bytes
  induction bytes with
  | nil => intro k; simp [Bits.ofBytes]
  | cons b bs ih =>
    intro k
    cases k with
    | zero => simp [Bits.ofBytes]
    | succ k =>
      have hl : (Bits.ofByte b).length = 8 := ofNat_length _ _
      show Bits.ofByte b ++ Bits.ofBytes (bs.take k) =
        (Bits.ofByte b ++ Bits.ofBytes bs).take (8 * (k + 1))
      have e : 8 * (k + 1) - 8 = 8 * k := by omega
      have e2 : (Bits.ofByte b).take (8 * (k + 1)) = Bits.ofByte b :=
        List.take_of_length_le (by omega)
      rw [List.take_append, hl, e2, ih k, e]

/-- **S1 (bits).** If the specification accepts `bits` having consumed `n` bits
    (final padding included), then on every shorter prefix of those `n` bits it
    ends with `unexpectedEOF` — never success, never "corrupt" — and its output is
    a prefix of the full output. -/
theorem decodeBits_cut (bits : Bits) (out : Array UInt8) (n : Nat)
    (h : decodeBits bits = { out := out, verdict := .ok n }) (k : Nat) (hk : k < n) (hk8 : k % 8 = 0) :
    (decodeBits (bits.take k)).verdict = .unexpectedEOF ∧
    (decodeBits (bits.take k)).out.toList <+: out.toList := by
  rw [decodeBits_eq] at h
  obtain ⟨c, rest, rfl, hn, _, g⟩ := decodeBlocks_good _ _ _ _ _ _ h
  have hkc : k < c.length := by
    unfold padTo8 at hn; omega
  have ht : (c ++ rest).take k = c.take k := List.take_append_of_le_length (by omega)
  have hl : (c.take k).length = k := by simp; omega
  rw [ht, decodeBits_eq]
  rcases g (c.take k) ((c.take k).length + 1) (Or.inr (List.take_prefix k c)) (by omega) with
    ⟨ys, e, _⟩ | ⟨_, o, e, ho⟩
  · have := congrArg List.length e
    simp only [List.length_append] at this
    omega
  · rw [e]; exact ⟨rfl, ho⟩

/-- **S1 (bytes): a valid DEFLATE stream cut short at any byte** fails with
    exactly `io.ErrUnexpectedEOF`, having delivered only a prefix of the original. -/
theorem decode_cut (bytes : List UInt8) (out : Array UInt8)
    (h : decode bytes = { out := out, verdict := .ok (8 * bytes.length) }) (k : Nat) (hk : k < bytes.length) :
    (decode (bytes.take k)).verdict = .unexpectedEOF ∧
    (decode (bytes.take k)).out.toList <+: out.toList := by
  unfold decode at h ⊢
  rw [ofBytes_take]
  exact decodeBits_cut _ _ _ h (8 * k) (by omega) (by omega)

/-- extension: whatever follows an accepted stream does not change the result
    (the decoder never looks past the final block). -/
theorem decodeBits_ext (bits ext : Bits) (out : Array UInt8) (n : Nat)
    (h : decodeBits bits = { out := out, verdict := .ok n }) :
    (decodeBits (bits ++ ext)).out = out ∧
    ∃ m, (decodeBits (bits ++ ext)).verdict = .ok m := by
  rw [decodeBits_eq] at h
  obtain ⟨c, rest, rfl, _, _, g⟩ := decodeBlocks_good _ _ _ _ _ _ h
  rw [decodeBits_eq]
  rcases g (c ++ rest ++ ext) ((c ++ rest ++ ext).length + 1)
      (Or.inl ⟨rest ++ ext, by simp⟩) (by omega) with ⟨ys, _, e⟩ | ⟨hl, _⟩
  · rw [e]; exact ⟨rfl, n, rfl⟩
  · simp only [List.length_append] at hl; omega

end Compress.Proofs.FlatePrefix

#print axioms Compress.Proofs.FlatePrefix.decodeBits_cut
#print axioms Compress.Proofs.FlatePrefix.decode_cut
#print axioms Compress.Proofs.FlatePrefix.decodeBits_ext
