/-
S1 for DEFLATE: the specification decoder is prefix-monotone — on a cut
stream it can only run out of input, and what it has produced by then is a
prefix of what it produces on the whole stream.
-/
import Compress.Flate.Spec

namespace Compress.Proofs.FlatePrefix
open Compress Compress.Flate

/-- **S1 (bits).** If the specification accepts `bits` having consumed `n` bits
    (final padding included), then on every shorter prefix of those `n` bits it
    ends with `unexpectedEOF` — never success, never "corrupt" — and its output is
    a prefix of the full output. -/
theorem decodeBits_cut (bits : Bits) (out : Array UInt8) (n : Nat)
    (h : decodeBits bits = { out := out, verdict := .ok n }) (k : Nat) (hk : k < n) (hk8 : k % 8 = 0) :
    (decodeBits (bits.take k)).verdict = .unexpectedEOF ∧
    (decodeBits (bits.take k)).out.toList <+: out.toList := by
  sorry

/-- **S1 (bytes): a valid DEFLATE stream cut short at any byte** fails with
    exactly `io.ErrUnexpectedEOF`, having delivered only a prefix of the original. -/
theorem decode_cut (bytes : List UInt8) (out : Array UInt8)
    (h : decode bytes = { out := out, verdict := .ok (8 * bytes.length) }) (k : Nat) (hk : k < bytes.length) :
    (decode (bytes.take k)).verdict = .unexpectedEOF ∧
    (decode (bytes.take k)).out.toList <+: out.toList := by
  sorry

/-- extension: whatever follows an accepted stream does not change the result
    (the decoder never looks past the final block). -/
theorem decodeBits_ext (bits ext : Bits) (out : Array UInt8) (n : Nat)
    (h : decodeBits bits = { out := out, verdict := .ok n }) :
    (decodeBits (bits ++ ext)).out = out ∧
    ∃ m, (decodeBits (bits ++ ext)).verdict = .ok m := by
  sorry

end Compress.Proofs.FlatePrefix
