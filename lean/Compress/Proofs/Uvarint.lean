/-
`binary.PutUvarint` / `binary.Uvarint` round trip, and the `readVLI` closure of
xflate's index decoder.
-/
import Compress.XFlate.Open

namespace Compress.Proofs.Uvarint
open Compress Compress.XFlate

theorem pow_split (i : Nat) (h : i ≤ 8) : 2 ^ (64 - 7 * i) = 128 * 2 ^ (64 - 7 * (i + 1)) := by
  have e : 64 - 7 * i = (64 - 7 * (i + 1)) + 7 := by omega
  rw [e, Nat.pow_add]; omega

theorem uvarintAux_put : ∀ (fuel i v acc : Nat) (rest : List UInt8), 1 ≤ fuel → i + fuel = 10 →
    v < 2 ^ (64 - 7 * i) →
    uvarintAux (putUvarint fuel v ++ rest) i acc (7 * i) =
      (acc + v * 2 ^ (7 * i), ((i + (putUvarint fuel v).length : Nat) : Int))
  | 0, _, _, _, _, h, _, _ => by omega
  | fuel+1, i, v, acc, rest, _, hi, hv => by
    unfold putUvarint
    by_cases hs : v < 0x80
    · rw [if_pos hs]
      simp only [List.cons_append, List.nil_append, uvarintAux]
      have hb : (UInt8.ofNat v).toNat = v := by rw [UInt8.toNat_ofNat']; omega
      rw [hb, if_neg (by omega), if_pos hs]
      have h9 : ¬ (i = 9 ∧ v > 1) := by
        rintro ⟨rfl, hgt⟩
        have : (2 : Nat) ^ (64 - 7 * 9) = 2 := by decide
        omega
      rw [if_neg h9]
      simp
    · rw [if_neg hs]
      have hi8 : i ≤ 8 := by
        apply Classical.not_not.1
        intro hgt
        have e : i = 9 := by omega
        subst e
        have : (2 : Nat) ^ (64 - 7 * 9) = 2 := by decide
        omega
      simp only [List.cons_append, uvarintAux]
      have hb : (UInt8.ofNat (v % 128 + 128)).toNat = v % 128 + 128 := by rw [UInt8.toNat_ofNat']; omega
      rw [hb, if_neg (by omega), if_neg (by omega)]
      have hv' : v / 128 < 2 ^ (64 - 7 * (i + 1)) := by
        rw [pow_split i hi8] at hv
        exact Nat.div_lt_of_lt_mul hv
      have e7 : 7 * i + 7 = 7 * (i + 1) := by omega
      rw [e7, uvarintAux_put fuel (i + 1) (v / 128) _ rest (by omega) (by omega) hv']
      have hm : (v % 128 + 128) % 128 = v % 128 := by omega
      rw [hm]
      have hp : (2 : Nat) ^ (7 * (i + 1)) = 128 * 2 ^ (7 * i) := by
        rw [← e7, Nat.pow_add]; omega
      have hsum : v % 128 * 2 ^ (7 * i) + v / 128 * 2 ^ (7 * (i + 1)) = v * 2 ^ (7 * i) := by
        rw [hp, ← Nat.mul_assoc, ← Nat.add_mul]
        congr 1
        omega
      refine Prod.ext ?_ ?_
      · simp only; omega
      · simp only [List.length_cons]; omega

theorem putUvarint_pos (fuel v : Nat) : 1 ≤ (putUvarint (fuel + 1) v).length := by
  unfold putUvarint; split <;> simp

/-- **Uvarint round trip.** -/
theorem uvarint_put (x : Nat) (rest : List UInt8) (hx : x < 2 ^ 64) :
    uvarint (putUvarint64 x ++ rest) = (x, ((putUvarint64 x).length : Int)) := by
  have := uvarintAux_put 10 0 x 0 rest (by omega) (by omega) (by simpa using hx)
  simpa [uvarint, putUvarint64] using this

theorem putUvarint64_pos (x : Nat) : 1 ≤ (putUvarint64 x).length := putUvarint_pos 9 x

/-- `readVLI` on a value written by `PutUvarint`. -/
theorem readVLI_put (x : Nat) (rest : List UInt8) (hx : x < 2 ^ 63) :
    readVLI { buf := putUvarint64 x ++ rest, err := false } = ((x : Int), { buf := rest, err := false }) := by
  unfold readVLI
  simp only [uvarint_put x rest (by omega)]
  have hp := putUvarint64_pos x
  rw [if_neg (by omega)]
  simp

end Compress.Proofs.Uvarint
