/-
bzip2.Writer (API-level model): the master invariant over all call sequences
and all sink adversaries, and "no false success".
-/
import Compress.Proofs.BzWApiExact
import Compress.Proofs.Bzip2RoundTrip

namespace Compress.Proofs.BzWApi
open Compress Compress.Bzip2 Compress.XFlate

/-- the invariant of the whole writer. Its last clause is *no false success*:
    a `done` writer's sink holds the complete stream of everything accepted. -/
def ExactInv (s : BzW) : Prop :=
  1 ≤ s.level ∧
  (s.done = true → s.err = some .closed) ∧
  (s.err = none → ∃ fl B, SplitOK s s.acc [] fl ∧ BitsOK s fl B) ∧
  (s.done = true → ∃ out, encodeStream s.level s.acc = some out ∧ s.bw.sink.got = s.base ++ out)

theorem exact_reset (s : BzW) (sk : Sink) (hl : 1 ≤ s.level) : ExactInv (s.reset sk) := by
  refine ⟨hl, by simp [BzW.reset], fun _ => ⟨[], hdrBits s.level, ?_, ?_⟩, by simp [BzW.reset]⟩
  · constructor
    · rfl
    · exact hl
    · exact feeds_nil _
    · intro rest; simp [BzW.reset]
  · constructor
    · rfl
    · show view { sink := sk } = Bits.ofBytesMSB sk.got ++ []
      rw [view_init]; simp
    · intro _; rfl
    · rfl
    · show ([] : Bits).length < 8
      simp

theorem write_ok_eq (s : BzW) (d : List UInt8) (he : s.err = none) (hok : (BzW.writeLoop (d.length + 2) s d).2 = true) :
    s.write d = ({ (BzW.writeLoop (d.length + 2) s d).1 with
        inOff := (BzW.writeLoop (d.length + 2) s d).1.inOff + d.length,
        acc := (BzW.writeLoop (d.length + 2) s d).1.acc ++ d }, d.length, none) := by
  unfold BzW.write
  simp [he, hok]

theorem write_fail_eq (s : BzW) (d : List UInt8) (he : s.err = none) (hok : (BzW.writeLoop (d.length + 2) s d).2 = false) :
    s.write d = ((BzW.writeLoop (d.length + 2) s d).1, 0, (BzW.writeLoop (d.length + 2) s d).1.err) := by
  unfold BzW.write
  simp [he, hok]

theorem exact_write (s : BzW) (h : ExactInv s) (d : List UInt8) : ExactInv (s.write d).1 := by
  obtain ⟨hl, hdc, hex, hdn⟩ := h
  by_cases he : s.err ≠ none
  · unfold BzW.write; rw [if_pos he]; exact ⟨hl, hdc, hex, hdn⟩
  · simp only [ne_eq, Decidable.not_not] at he
    have hd : s.done = false := by
      cases hdd : s.done with
      | false => rfl
      | true => have := hdc hdd; rw [he] at this; cases this
    obtain ⟨fl, B, hs, hb⟩ := hex he
    have hs' : SplitOK s (s.acc ++ d) d fl := by
      refine ⟨hs.cap, hs.lvl, hs.feeds, fun rest => ?_⟩
      have := hs.split (d ++ rest)
      simpa [List.append_assoc] using this
    have hflag := writeLoop_flag (d.length + 2) s d he
    have hdone := writeLoop_done (d.length + 2) s d
    have hlvl := writeLoop_level (d.length + 2) s d
    cases hok : (BzW.writeLoop (d.length + 2) s d).2 with
    | true =>
      rw [write_ok_eq s d he hok]
      obtain ⟨fl', B', r1, r2, r3, r4⟩ := writeLoop_exact (d.length + 2) s (s.acc ++ d) d fl B hs' hb hok
      have hn := hflag.1 hok
      refine ⟨by show 1 ≤ (BzW.writeLoop (d.length + 2) s d).1.level; rw [hlvl]; exact hl, ?_, fun _ => ⟨fl', B', ?_, ?_⟩, ?_⟩
      · intro hx
        have : (BzW.writeLoop (d.length + 2) s d).1.done = true := hx
        rw [hdone, hd] at this; cases this
      · refine ⟨r1.cap, r1.lvl, r1.feeds, fun rest => ?_⟩
        have := r1.split rest
        show splitBlocks _ (((BzW.writeLoop (d.length + 2) s d).1.acc ++ d ++ rest).length + 1) _ = _
        rw [r3]
        exact this
      · exact ⟨r2.fold, r2.view, r2.nohdr, r2.stage, r2.bits⟩
      · intro hx
        have : (BzW.writeLoop (d.length + 2) s d).1.done = true := hx
        rw [hdone, hd] at this; cases this
    | false =>
      rw [write_fail_eq s d he hok]
      have hn := hflag.2 hok
      refine ⟨by rw [hlvl]; exact hl, ?_, fun hx => absurd hx hn, ?_⟩
      · intro hx; rw [hdone, hd] at hx; cases hx
      · intro hx; rw [hdone, hd] at hx; cases hx

/-- the `flush` inside Close: afterwards the bit writer has been shown every block of `splitBlocks`. -/
theorem flushBlk_last (s : BzW) (fl) (B : Bits) (hs : SplitOK s s.acc [] fl) (hb : BitsOK s fl B)
    (he : (s.flushBlk).err = none) :
    ∃ B1, BitsOK s.flushBlk (splitBlocks (s.level * blockSize) (s.acc.length + 1) s.acc) B1 ∧
      (s.flushBlk).level = s.level ∧ (s.flushBlk).acc = s.acc ∧ (s.flushBlk).base = s.base := by
  have hsp := hs.split []
  simp only [List.append_nil] at hsp
  rw [hs.cap] at hsp
  by_cases h0 : s.rle.out.size = 0
  · have hraw := (out_empty_iff _ _ _ hs.feeds).1 h0
    have hf : s.flushBlk = { s with err := none } := by unfold BzW.flushBlk; rw [if_pos h0]
    rw [hf, hsp, hraw]
    refine ⟨B, ?_, rfl, rfl, rfl⟩
    simp only [splitBlocks, List.isEmpty_nil, if_true, List.append_nil, List.length_nil]
    exact ⟨hb.fold, hb.view, hb.nohdr, hb.stage, hb.bits⟩
  · obtain ⟨⟨B', hb2⟩, _, _, e3, e4, e5, _⟩ := flushBlk_emit s fl B hb h0 he
    have hraw : s.raw ≠ [] := fun hx => h0 ((out_empty_iff _ _ _ hs.feeds).2 hx)
    have hlast := splitBlocks_last s.rle.cap s.raw s.rle hs.feeds
    rw [if_neg hraw, hs.cap] at hlast
    rw [hsp, hlast]
    exact ⟨B', hb2, e3, e4, e5⟩

theorem closeFields_eq (s : BzW) :
    closeFields s = ((if s.wrHdr then [] else hdrFields s.level) ++ footBody s.endCRC) ++ [([], FKind.pad)] := by
  unfold closeFields
  rw [footFields_eq, List.append_assoc]

theorem exact_close (s : BzW) (h : ExactInv s) : ExactInv (s.close).1 := by
  obtain ⟨hl, hdc, hex, hdn⟩ := h
  rw [close_eq]
  by_cases hd : s.done = true
  · rw [if_pos hd]; exact ⟨hl, hdc, hex, hdn⟩
  · rw [if_neg hd]
    simp only [Bool.not_eq_true] at hd
    by_cases he : s.err ≠ none
    · rw [if_pos he]; exact ⟨hl, hdc, hex, hdn⟩
    · rw [if_neg he]
      simp only [ne_eq, Decidable.not_not] at he
      obtain ⟨fl, B, hs, hb⟩ := hex he
      by_cases h1 : (s.flushBlk).err ≠ none
      · rw [if_pos h1]
        refine ⟨by rw [flushBlk_level]; exact hl, ?_, fun hx => absurd hx h1, ?_⟩
        · intro hx; rw [flushBlk_done, hd] at hx; cases hx
        · intro hx; rw [flushBlk_done, hd] at hx; cases hx
      · rw [if_neg h1]
        simp only [ne_eq, Decidable.not_not] at h1
        obtain ⟨B1, hb1, e1, e2, e3⟩ := flushBlk_last s fl B hs hb h1
        by_cases h2 : (s.flushBlk.script (closeFields s.flushBlk)).err ≠ none
        · rw [if_pos h2]
          refine ⟨by rw [script_level, flushBlk_level]; exact hl, ?_, fun hx => absurd hx h2, ?_⟩
          · intro hx; rw [script_done, flushBlk_done, hd] at hx; cases hx
          · intro hx; rw [script_done, flushBlk_done, hd] at hx; cases hx
        · rw [if_neg h2]
          simp only [ne_eq, Decidable.not_not] at h2
          refine ⟨by show 1 ≤ (s.flushBlk.script (closeFields s.flushBlk)).level; rw [script_level, flushBlk_level]; exact hl,
            fun _ => rfl, fun hx => (by cases hx), fun _ => ?_⟩
          rw [closeFields_eq] at h2 ⊢
          have hp : ∀ f ∈ (if s.flushBlk.wrHdr = true then [] else hdrFields s.flushBlk.level) ++ footBody s.flushBlk.endCRC,
              f.2 ≠ FKind.pad := by
            intro f hf
            rcases List.mem_append.1 hf with hf | hf
            · split at hf
              · cases hf
              · exact noPad_hdrFields _ f hf
            · exact noPad_footBody _ f hf
          have hgot := script_close s.flushBlk _ hp s.flushBlk.base
            (if s.flushBlk.wrHdr = true then B1 else []) hb1.view h2
          have hbits : (if s.flushBlk.wrHdr = true then B1 else []) ++
              flat ((if s.flushBlk.wrHdr = true then [] else hdrFields s.flushBlk.level) ++ footBody s.flushBlk.endCRC) =
              B1 ++ bitsBE endMagic 48 ++ bitsBE s.flushBlk.endCRC 32 := by
            rw [flat_append, flat_footBody]
            cases hw : s.flushBlk.wrHdr with
            | true => simp [flat_nil]
            | false =>
              have hB := bitsOK_B s.flushBlk _ B1 hb1 hw
              simp [flat_hdrFields, hB, hdrBits]
          rw [hbits] at hgot
          clear hbits hp
          generalize ((if s.flushBlk.wrHdr = true then [] else hdrFields s.flushBlk.level) ++ footBody s.flushBlk.endCRC) = F at h2 hgot ⊢
          refine ⟨Bits.toBytesMSB (B1 ++ bitsBE endMagic 48 ++ bitsBE s.flushBlk.endCRC 32), ?_, ?_⟩
          · show encodeStream s.flushBlk.level s.flushBlk.acc = _
            rw [e1, e2, encodeStream_eq]
            have hf := hb1.fold
            rw [e1] at hf
            rw [hf]
          · show (s.flushBlk.script (F ++ [([], FKind.pad)])).bw.sink.got = s.flushBlk.base ++ _
            exact hgot

/-- the invariant is kept by every call, for every sink adversary. -/
theorem exact_step (s : BzW) (h : ExactInv s) (op : BzOp) : ExactInv (s.step op).1 := by
  cases op with
  | write d => exact exact_write s h d
  | close => exact exact_close s h
  | reset sk => exact exact_reset s sk h.1

theorem exact_run : ∀ (ops : List BzOp) (s : BzW), ExactInv s → ExactInv (BzW.run s ops).1
  | [], _, h => h
  | op :: ops, s, h => by
    rw [BzW.run]
    exact exact_run ops _ (exact_step s h op)

theorem exact_new (lvl : Int) (sk : Sink) (s : BzW) (h : newBzW lvl sk = some s) : ExactInv s ∧ 1 ≤ s.level ∧ s.level ≤ 9 := by
  unfold newBzW at h
  split at h
  · rename_i hv
    simp only [Option.some.injEq] at h
    subst h
    have hlv : 1 ≤ (if lvl = 0 then 6 else lvl.toNat) ∧ (if lvl = 0 then 6 else lvl.toNat) ≤ 9 := by
      simp only [validLevel, decide_eq_true_eq] at hv
      split <;> omega
    exact ⟨exact_reset _ sk hlv.1, hlv.1, hlv.2⟩
  · cases h

/-- **C13, no false success**: a writer made by `NewWriter` and driven through any
    sequence of Write/Close/Reset over any sinks: whenever it is `done` (Close
    returned nil, see `close_latches`), the sink holds exactly
    `encodeStream level (everything Write accepted since the last Reset)`. -/
theorem no_false_success (lvl : Int) (sk : Sink) (s0 : BzW) (h0 : newBzW lvl sk = some s0) (ops : List BzOp) :
    let s := (BzW.run s0 ops).1
    s.done = true → ∃ out, encodeStream s.level s.acc = some out ∧ s.bw.sink.got = s.base ++ out :=
  (exact_run ops s0 (exact_new lvl sk s0 h0).1).2.2.2

/-- Close changes neither the ghost record of accepted data nor the level. -/
theorem close_keeps (s : BzW) : (s.close).1.acc = s.acc ∧ (s.close).1.base = s.base ∧ (s.close).1.level = s.level := by
  rw [close_eq]
  by_cases hd : s.done = true
  · rw [if_pos hd]; exact ⟨rfl, rfl, rfl⟩
  · rw [if_neg hd]
    by_cases he : s.err ≠ none
    · rw [if_pos he]; exact ⟨rfl, rfl, rfl⟩
    · rw [if_neg he]
      have fa : s.flushBlk.acc = s.acc ∧ s.flushBlk.base = s.base := by
        rcases flushBlk_cases s with h | h | ⟨fs, ⟨h, _⟩ | ⟨h, _⟩⟩ <;> rw [h] <;> exact ⟨rfl, rfl⟩
      by_cases h1 : (s.flushBlk).err ≠ none
      · rw [if_pos h1]; exact ⟨fa.1, fa.2, flushBlk_level s⟩
      · rw [if_neg h1]
        by_cases h2 : (s.flushBlk.script (closeFields s.flushBlk)).err ≠ none
        · rw [if_pos h2]; exact ⟨fa.1, fa.2, flushBlk_level s⟩
        · rw [if_neg h2]; exact ⟨fa.1, fa.2, flushBlk_level s⟩

theorem write_level (s : BzW) (d : List UInt8) : (s.write d).1.level = s.level := by
  by_cases he : s.err ≠ none
  · unfold BzW.write; rw [if_pos he]
  · simp only [ne_eq, Decidable.not_not] at he
    cases hok : (BzW.writeLoop (d.length + 2) s d).2 with
    | true => rw [write_ok_eq s d he hok]; exact writeLoop_level _ s d
    | false => rw [write_fail_eq s d he hok]; exact writeLoop_level _ s d

theorem step_level (s : BzW) (op : BzOp) : (s.step op).1.level = s.level := by
  cases op with
  | write d => exact write_level s d
  | close => exact (close_keeps s).2.2
  | reset sk => rfl

theorem run_level : ∀ (ops : List BzOp) (s : BzW), (BzW.run s ops).1.level = s.level
  | [], _ => rfl
  | op :: ops, s => by rw [BzW.run]; simp only []; rw [run_level ops, step_level]

/-- **no false success, lossless form**: when the writer is `done` the sink holds, after
    what it held when attached, a stream that the bzip2 format specification decodes to
    exactly the accepted data. -/
theorem done_decodes (lvl : Int) (sk : Sink) (s0 : BzW) (h0 : newBzW lvl sk = some s0) (ops : List BzOp) :
    let s := (BzW.run s0 ops).1
    s.done = true → ∃ out, s.bw.sink.got = s.base ++ out ∧
      Bzip2.decode out = { out := s.acc.toArray, verdict := .ok } := by
  intro s hd
  obtain ⟨hinv, l1, l9⟩ := exact_new lvl sk s0 h0
  obtain ⟨out, o1, o2⟩ := (exact_run ops s0 hinv).2.2.2 hd
  have hl : s.level = s0.level := run_level ops s0
  exact ⟨out, o2, Compress.Proofs.Bzip2RoundTrip.roundtrip s.level (by rw [hl]; exact ⟨l1, l9⟩) s.acc out o1⟩

/-- the same, phrased on the Close call that returns nil. -/
theorem close_nil_complete (s : BzW) (h : ExactInv s) (hc : (s.close).2 = none) :
    ∃ out, encodeStream s.level s.acc = some out ∧ (s.close).1.bw.sink.got = s.base ++ out := by
  have hdone : (s.close).1.done = true := by
    rw [close_eq] at hc ⊢
    by_cases hd : s.done = true
    · rw [if_pos hd]; exact hd
    · rw [if_neg hd] at hc ⊢
      by_cases he : s.err ≠ none
      · rw [if_pos he] at hc; exact absurd hc he
      · rw [if_neg he] at hc ⊢
        by_cases h1 : (s.flushBlk).err ≠ none
        · rw [if_pos h1] at hc; exact absurd hc h1
        · rw [if_neg h1] at hc ⊢
          by_cases h2 : (s.flushBlk.script (closeFields s.flushBlk)).err ≠ none
          · rw [if_pos h2] at hc; exact absurd hc h2
          · rw [if_neg h2]
  obtain ⟨out, o1, o2⟩ := (exact_close s h).2.2.2 hdone
  have hacc := close_keeps s
  rw [hacc.1, hacc.2.2] at o1
  rw [hacc.2.1] at o2
  exact ⟨out, o1, o2⟩

end Compress.Proofs.BzWApi
