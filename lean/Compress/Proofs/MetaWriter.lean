/-
The writer's buffering rule and the stream round trip (C16).
-/
import Compress.Proofs.MetaStream
namespace Compress.Proofs.Meta
open Compress Compress.Meta

def WInv (s : WState) : Prop :=
  s.buf0s = Bits.countZeros (Bits.ofBytes s.buf) ∧ s.buf1s = Bits.countOnes (Bits.ofBytes s.buf) ∧
  (computeHuffLen s.buf0s s.buf1s).1 > 0

def WRep (s : WState) (pre : List UInt8) : Prop :=
  ∃ ps : List (List UInt8 × Bits), (∀ p ∈ ps, encodeBlock p.1 .fnil = some p.2) ∧
    s.out = ps.map (fun p => Bits.toBytes p.2) ∧ (ps.map Prod.fst).flatten ++ s.buf = pre

theorem ofBytes_single (b : UInt8) : Bits.ofBytes [b] = Bits.ofByte b := by
  simp [Bits.ofBytes]

theorem count_ofByte (b : UInt8) : Bits.countZeros (Bits.ofByte b) + Bits.countOnes (Bits.ofByte b) = 8 := by
  rw [count_add, length_ofByte]

theorem WInv_init : WInv {} := by
  refine ⟨rfl, rfl, ?_⟩
  exact computeHuffLen_fit22_aux 0 0 (by omega)

theorem writeByte_spec (s : WState) (b : UInt8) (pre : List UInt8) (hi : WInv s) (hr : WRep s pre) :
    ∃ s', writeByte s b = some s' ∧ WInv s' ∧ WRep s' (pre ++ [b]) ∧
      (s.buf.length < 22 → s'.out = s.out ∧ s'.buf = s.buf ++ [b]) := by
  obtain ⟨i1, i2, i3⟩ := hi
  obtain ⟨ps, r1, r2, r3⟩ := hr
  have hb := count_ofByte b
  have hadd := count_add (Bits.ofBytes s.buf)
  rw [length_ofBytes] at hadd
  unfold writeByte
  simp only
  by_cases hk : (decide (s.buf.length < ensureRawBytes) ||
      decide ((computeHuffLen (s.buf0s + Bits.countZeros (Bits.ofByte b)) (s.buf1s + Bits.countOnes (Bits.ofByte b))).1 > 0)) = true
  · rw [if_pos hk]
    refine ⟨_, rfl, ⟨?_, ?_, ?_⟩, ⟨ps, r1, r2, ?_⟩, fun _ => ⟨rfl, rfl⟩⟩
    · simp only [ofBytes_append, countZeros_append, ofBytes_single, i1]
    · simp only [ofBytes_append, countOnes_append, ofBytes_single, i2]
    · simp only [Bool.or_eq_true, decide_eq_true_eq] at hk
      rcases hk with hk | hk
      · show (computeHuffLen (s.buf0s + Bits.countZeros (Bits.ofByte b)) (s.buf1s + Bits.countOnes (Bits.ofByte b))).1 > 0
        apply computeHuffLen_fit22_aux
        have hk' : s.buf.length < 22 := hk
        omega
      · exact hk
    · simp only [← List.append_assoc, r3]
  · rw [if_neg hk]
    obtain ⟨bits, hbits⟩ := encodeBlock_isSome s.buf .fnil (by rw [← i1, ← i2]; exact i3)
    simp only [encodeBlockBytes, hbits, Option.map_some]
    refine ⟨_, rfl, ⟨?_, ?_, ?_⟩, ⟨ps ++ [(s.buf, bits)], ?_, ?_, ?_⟩, ?_⟩
    · simp only [ofBytes_single]
    · simp only [ofBytes_single]
    · show (computeHuffLen (Bits.countZeros (Bits.ofByte b)) (Bits.countOnes (Bits.ofByte b))).1 > 0
      apply computeHuffLen_fit22_aux; omega
    · intro p hp
      rcases List.mem_append.1 hp with hp | hp
      · exact r1 p hp
      · simp only [List.mem_singleton] at hp; subst hp; exact hbits
    · simp only [List.map_append, List.map_cons, List.map_nil, r2]
    · simp only [List.map_append, List.map_cons, List.map_nil, List.flatten_append, List.flatten_cons,
        List.flatten_nil, List.append_nil, r3]
    · intro hlt
      simp only [Bool.or_eq_true, decide_eq_true_eq] at hk
      exact absurd (Or.inl hlt) hk

theorem writeBytes_spec : ∀ (payload : List UInt8) (s : WState) (pre : List UInt8), WInv s → WRep s pre →
    ∃ s', writeBytes s payload = some s' ∧ WInv s' ∧ WRep s' (pre ++ payload)
  | [], s, pre, hi, hr => ⟨s, rfl, hi, by simpa using hr⟩
  | b :: bs, s, pre, hi, hr => by
    obtain ⟨s1, e1, i1, r1, _⟩ := writeByte_spec s b pre hi hr
    obtain ⟨s2, e2, i2, r2⟩ := writeBytes_spec bs s1 (pre ++ [b]) i1 r1
    refine ⟨s2, ?_, i2, by simpa using r2⟩
    simp only [writeBytes, e1, e2]

theorem writeBytes_total_aux (payload : List UInt8) : ∃ s, writeBytes {} payload = some s := by
  obtain ⟨s, e, _, _⟩ := writeBytes_spec payload {} [] WInv_init ⟨[], by simp, rfl, rfl⟩
  exact ⟨s, e⟩


theorem writeBytes_small : ∀ (payload : List UInt8) (s : WState) (pre : List UInt8), WInv s → WRep s pre →
    s.out = [] → s.buf.length + payload.length ≤ 22 →
    ∃ s', writeBytes s payload = some s' ∧ WInv s' ∧ s'.out = []
  | [], s, _, hi, _, ho, _ => ⟨s, rfl, hi, ho⟩
  | b :: bs, s, pre, hi, hr, ho, hl => by
    simp only [List.length_cons] at hl
    obtain ⟨s1, e1, i1, r1, k1⟩ := writeByte_spec s b pre hi hr
    obtain ⟨k2, k3⟩ := k1 (by omega)
    obtain ⟨s2, e2, i2, o2⟩ := writeBytes_small bs s1 (pre ++ [b]) i1 r1 (by rw [k2, ho])
      (by rw [k3]; simp only [List.length_append, List.length_cons, List.length_nil]; omega)
    exact ⟨s2, by simp only [writeBytes, e1, e2], i2, o2⟩

theorem closeW_some (s : WState) (final : FinalMode) (hi : WInv s) :
    ∃ bits, encodeBlock s.buf final = some bits ∧ closeW s final = some (s.out ++ [Bits.toBytes bits]) := by
  obtain ⟨i1, i2, i3⟩ := hi
  obtain ⟨bits, hbits⟩ := encodeBlock_isSome s.buf final (by rw [← i1, ← i2]; exact i3)
  exact ⟨bits, hbits, by simp only [closeW, encodeBlockBytes, hbits, Option.map_some]⟩

theorem encode_fit22_aux (payload : List UInt8) (final : FinalMode) (h : payload.length ≤ 22) :
    ∃ b, encode payload final = some [b] := by
  obtain ⟨s, e, i, o⟩ := writeBytes_small payload {} [] WInv_init ⟨[], by simp, rfl, rfl⟩ rfl
    (by simpa using h)
  obtain ⟨bits, _, hc⟩ := closeW_some s final i
  refine ⟨Bits.toBytes bits, ?_⟩
  simp only [encode, e, hc, o, List.nil_append]

theorem toBytes_block_pos (c : List UInt8) (final : FinalMode) (bits : Bits)
    (h : encodeBlock c final = some bits) : 1 ≤ (Bits.toBytes bits).length := by
  have hal := encodeBlock_aligned_aux c final bits h
  rw [length_toBytes bits hal]
  obtain ⟨hl, inv, _, _, _, _, _, rfl⟩ := encodeBlock_some c final bits h
  rw [blockBits_length]
  omega

theorem ofBytes_blocks : ∀ (ps : List (List UInt8 × Bits)), (∀ p ∈ ps, encodeBlock p.1 .fnil = some p.2) →
    Bits.ofBytes ((ps.map (fun p => Bits.toBytes p.2)).flatten) = (ps.map Prod.snd).flatten ∧
    ps.length ≤ ((ps.map (fun p => Bits.toBytes p.2)).flatten).length
  | [], _ => ⟨rfl, Nat.le_refl _⟩
  | p :: ps, h => by
    obtain ⟨i1, i2⟩ := ofBytes_blocks ps (fun q hq => h q (List.mem_cons_of_mem _ hq))
    have hp := h p (List.mem_cons_self ..)
    have hal := encodeBlock_aligned_aux p.1 .fnil p.2 hp
    have hpos := toBytes_block_pos p.1 .fnil p.2 hp
    refine ⟨?_, ?_⟩
    · simp only [List.map_cons, List.flatten_cons, ofBytes_append, ofBytes_toBytes p.2 hal, i1]
    · simp only [List.map_cons, List.flatten_cons, List.length_append, List.length_cons]
      omega

theorem decode_encode_aux (payload : List UInt8) (final : FinalMode) :
    ∃ blocks, encode payload final = some blocks ∧
      decode blocks.flatten = .ok { payload := payload, final := final, blocks := blocks.length,
                                    consumed := blocks.flatten.length } := by
  obtain ⟨s, e, i, ps, r1, r2, r3⟩ := writeBytes_spec payload {} [] WInv_init ⟨[], by simp, rfl, rfl⟩
  obtain ⟨bitsF, hF, hc⟩ := closeW_some s final i
  refine ⟨s.out ++ [Bits.toBytes bitsF], by simp only [encode, e, hc], ?_⟩
  obtain ⟨o1, o2⟩ := ofBytes_blocks ps r1
  have halF := encodeBlock_aligned_aux s.buf final bitsF hF
  have hbits : Bits.ofBytes (s.out ++ [Bits.toBytes bitsF]).flatten = (ps.map Prod.snd).flatten ++ bitsF := by
    simp only [List.flatten_append, List.flatten_cons, List.flatten_nil, List.append_nil, ofBytes_append,
      r2, o1, ofBytes_toBytes bitsF halF]
  unfold decode
  rw [hbits, decodeAll_blocks ps _ _ s.buf bitsF final r1 hF
    (by rw [r2]; simp only [List.flatten_append, List.length_append]; omega)]
  simp only [List.nil_append] at r3
  simp only [List.nil_append, r3, r2, Nat.zero_add, List.length_append, List.length_map, List.length_cons,
    List.length_nil, List.flatten_append, List.flatten_cons, List.flatten_nil, List.append_nil]

end Compress.Proofs.Meta
