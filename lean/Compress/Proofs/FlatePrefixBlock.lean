/-
Prefix-monotonicity of the output-producing components of the DEFLATE
specification decoder: `takeBytes`, `inflateBlock`, one block, `decodeBlocks`.
-/
import Compress.Proofs.FlatePrefixAux

namespace Compress.Proofs.FlatePrefix
open Compress Compress.Flate

/-! ### output only grows -/

theorem toList_prefix_push (out : Array UInt8) (x : UInt8) : out.toList <+: (out.push x).toList := by
  rw [Array.toList_push]; exact List.prefix_append _ _

theorem copyBack_prefix (dist : Nat) : ∀ (len : Nat) (out : Array UInt8),
    out.toList <+: (copyBack out dist len).toList := by
  intro len
  induction len with
  | zero => intro out; exact List.prefix_refl _
  | succ len ih =>
    intro out
    rw [copyBack]
    exact (toList_prefix_push out _).trans (ih _)

/-! ### takeBytes -/

/-- the shape for components that also emit output. -/
def GoodB (P : Bits → Array UInt8 × Except Verdict Bits) (c : Bits) (out' : Array UInt8) : Prop :=
  ∀ zs, Agree c zs →
    (∃ ys, zs = c ++ ys ∧ P zs = (out', .ok ys)) ∨
    (zs.length < c.length ∧ ∃ o, P zs = (o, .error .unexpectedEOF) ∧ o.toList <+: out'.toList)

theorem takeBytes_good : ∀ (n : Nat) (out : Array UInt8) (xs : Bits) (out' : Array UInt8) (rest : Bits),
    takeBytes n out xs = (out', some rest) →
    ∃ c, xs = c ++ rest ∧ out.toList <+: out'.toList ∧
      ∀ zs, Agree c zs →
        (∃ ys, zs = c ++ ys ∧ takeBytes n out zs = (out', some ys)) ∨
        (zs.length < c.length ∧ ∃ o, takeBytes n out zs = (o, none) ∧ o.toList <+: out'.toList) := by
  intro n
  induction n with
  | zero =>
    intro out xs out' rest h
    simp only [takeBytes, Prod.mk.injEq, Option.some.injEq] at h
    obtain ⟨rfl, rfl⟩ := h
    exact ⟨[], rfl, List.prefix_refl _, fun zs _ => Or.inl ⟨zs, rfl, by simp only [takeBytes]⟩⟩
  | succ n ih =>
    intro out xs out' rest h
    rw [takeBytes] at h
    cases h1 : takeBits 8 xs with
    | none => rw [h1] at h; simp at h
    | some vr =>
      obtain ⟨v, r1⟩ := vr
      rw [h1] at h
      dsimp only at h
      obtain ⟨c1, rfl, g1⟩ := takeBits_goodFn 8 _ _ _ h1
      obtain ⟨c2, rfl, hp, g2⟩ := ih _ _ _ _ h
      refine ⟨c1 ++ c2, by simp, (toList_prefix_push out _).trans hp, ?_⟩
      intro zs hz
      rcases g1 zs (agree_left hz) with ⟨ys, rfl, e1⟩ | ⟨hl, e1⟩
      · rcases g2 ys (agree_cancel hz) with ⟨ys2, rfl, e2⟩ | ⟨hl2, o, e2, ho⟩
        · exact Or.inl ⟨ys2, by simp, by rw [takeBytes, e1]; exact e2⟩
        · exact Or.inr ⟨by simp; omega, o, by rw [takeBytes, e1]; exact e2, ho⟩
      · exact Or.inr ⟨by simp; omega, out, by rw [takeBytes, e1],
          (toList_prefix_push out _).trans hp⟩

/-! ### inflateBlock -/

/-- length and distance of a match: extra bits, distance symbol, extra bits. -/
def readMatch (dist : HuffTab) (s : Nat) (rest : Bits) : Except Verdict ((Nat × Nat) × Bits) :=
  match takeBits (lenExtra.getD (s - 257) 0) rest with
  | none => .error .unexpectedEOF
  | some (le, r1) =>
    match dist.decode r1 with
    | .eof => .error .unexpectedEOF
    | .invalid => .error .corrupt
    | .sym ds r2 =>
      if ds ≥ 30 then .error .corrupt
      else
        match takeBits (distExtra.getD ds 0) r2 with
        | none => .error .unexpectedEOF
        | some (de, r3) => .ok ((lenBase.getD (s - 257) 0 + le, distBase.getD ds 0 + de), r3)

theorem readMatch_good (dist : HuffTab) (s : Nat) : GoodFn Prod.mk (readMatch dist s) := by
  have e : readMatch dist s = fun bits => readMatch dist s bits := rfl
  rw [e]
  unfold readMatch
  refine goodFn_bindO' (takeBits_goodFn _) _ (fun bits h => by rw [h]) (fun bits a r h => by rw [h]) (fun le => ?_)
  dsimp only
  refine goodFn_bindS' (decode_goodFn dist) _ (fun bits h => by rw [h]) (fun bits h => by rw [h])
    (fun bits a r h => by rw [h]) (fun ds => ?_)
  dsimp only
  refine goodFn_ite _ ?_
  refine goodFn_bindO' (takeBits_goodFn _) _ (fun bits h => by rw [h]) (fun bits a r h => by rw [h]) (fun de => ?_)
  dsimp only
  exact goodFn_pure Prod.mk prodMk_inj _

theorem inflateBlock_zero (lit dist : HuffTab) (out : Array UInt8) (bits : Bits) :
    inflateBlock lit dist 0 out bits = (out, .error .corrupt) := rfl

/-- one step of `inflateBlock` (its equation lemmas cannot be generated). -/
theorem inflateBlock_succ (lit dist : HuffTab) (fuel : Nat) (out : Array UInt8) (bits : Bits) :
    inflateBlock lit dist (fuel + 1) out bits =
      match lit.decode bits with
      | .eof => (out, .error .unexpectedEOF)
      | .invalid => (out, .error .corrupt)
      | .sym s rest =>
        if s < 256 then inflateBlock lit dist fuel (out.push (UInt8.ofNat s)) rest
        else if s = 256 then (out, .ok rest)
        else if s ≥ 286 then (out, .error .corrupt)
        else
          match readMatch dist s rest with
          | .error e => (out, .error e)
          | .ok ((len, d), r3) =>
            if d > min out.size maxHist then (out, .error .corrupt)
            else inflateBlock lit dist fuel (copyBack out d len) r3 := by
  cases hd : lit.decode bits with
  | eof => conv => lhs; whnf
           rw [hd]
  | invalid => conv => lhs; whnf
               rw [hd]
  | sym s rest =>
    conv => lhs; whnf
    rw [hd]
    dsimp only
    by_cases h1 : s < 256
    · rw [if_pos h1, if_pos h1]
    rw [if_neg h1, if_neg h1]
    by_cases h2 : s = 256
    · rw [if_pos h2, if_pos h2]
    rw [if_neg h2, if_neg h2]
    by_cases h3 : s ≥ 286
    · rw [if_pos h3, if_pos h3]
    rw [if_neg h3, if_neg h3]
    unfold readMatch
    cases takeBits (lenExtra.getD (s - 257) 0) rest with
    | none => rfl
    | some v =>
      obtain ⟨le, r1⟩ := v
      dsimp only
      cases dist.decode r1 with
      | eof => rfl
      | invalid => rfl
      | sym ds r2 =>
        dsimp only
        by_cases h4 : ds ≥ 30
        · rw [if_pos h4, if_pos h4]
        rw [if_neg h4, if_neg h4]
        cases takeBits (distExtra.getD ds 0) r2 with
        | none => rfl
        | some v =>
          obtain ⟨de, r3⟩ := v
          rfl

/-- `inflateBlock` fails only with `corrupt` or `unexpectedEOF`. -/
theorem inflateBlock_err (lit dist : HuffTab) : ∀ (fuel : Nat) (out : Array UInt8) (xs : Bits)
    (o : Array UInt8) (e : Verdict),
    inflateBlock lit dist fuel out xs = (o, .error e) → IsErr e := by
  intro fuel
  induction fuel with
  | zero =>
    intro out xs o e h
    rw [inflateBlock_zero] at h
    cases h; exact Or.inl rfl
  | succ fuel ih =>
    intro out xs o e h
    rw [inflateBlock_succ] at h
    cases hd : lit.decode xs with
    | eof => rw [hd] at h; cases h; exact Or.inr rfl
    | invalid => rw [hd] at h; cases h; exact Or.inl rfl
    | sym s r1 =>
      rw [hd] at h
      dsimp only at h
      by_cases h1 : s < 256
      · rw [if_pos h1] at h; exact ih _ _ _ _ h
      rw [if_neg h1] at h
      by_cases h2 : s = 256
      · rw [if_pos h2] at h; cases h
      rw [if_neg h2] at h
      by_cases h3 : s ≥ 286
      · rw [if_pos h3] at h; cases h; exact Or.inl rfl
      rw [if_neg h3] at h
      cases hm : readMatch dist s r1 with
      | error e' =>
        rw [hm] at h; cases h
        exact (readMatch_good dist s).2 _ _ hm
      | ok v =>
        obtain ⟨⟨len, d⟩, r3⟩ := v
        rw [hm] at h
        dsimp only at h
        by_cases h4 : d > min out.size maxHist
        · rw [if_pos h4] at h; cases h; exact Or.inl rfl
        rw [if_neg h4] at h
        exact ih _ _ _ _ h

/-- locality of `inflateBlock` for every sufficient fuel. -/
def GoodI (lit dist : HuffTab) (out : Array UInt8) (c : Bits) (out' : Array UInt8) : Prop :=
  ∀ zs fuel', Agree c zs → zs.length < fuel' →
    (∃ ys, zs = c ++ ys ∧ inflateBlock lit dist fuel' out zs = (out', .ok ys)) ∨
    (zs.length < c.length ∧ ∃ o, inflateBlock lit dist fuel' out zs = (o, .error .unexpectedEOF) ∧
      o.toList <+: out'.toList)

theorem inflateBlock_good (lit dist : HuffTab) : ∀ (fuel : Nat) (out : Array UInt8) (xs : Bits)
    (out' : Array UInt8) (rest : Bits),
    inflateBlock lit dist fuel out xs = (out', .ok rest) →
    ∃ c, xs = c ++ rest ∧ out.toList <+: out'.toList ∧ GoodI lit dist out c out' := by
  intro fuel
  induction fuel with
  | zero =>
    intro out xs out' rest h
    rw [inflateBlock_zero] at h
    cases h
  | succ fuel ih =>
    intro out xs out' rest h
    rw [inflateBlock_succ] at h
    cases hd : lit.decode xs with
    | eof => rw [hd] at h; cases h
    | invalid => rw [hd] at h; cases h
    | sym s r1 =>
      rw [hd] at h
      dsimp only at h
      obtain ⟨c1, rfl, hc1, g1⟩ := decode_good lit hd
      by_cases h1 : s < 256
      · rw [if_pos h1] at h
        obtain ⟨c2, rfl, hp, g2⟩ := ih _ _ _ _ h
        refine ⟨c1 ++ c2, by simp, (toList_prefix_push out _).trans hp, ?_⟩
        intro zs fuel' hz hf
        cases fuel' with
        | zero => omega
        | succ f =>
          rw [inflateBlock_succ]
          rcases g1 zs (agree_left hz) with ⟨ys, rfl, e1⟩ | ⟨hl, e1⟩
          · rw [e1]; dsimp only; rw [if_pos h1]
            rcases g2 ys f (agree_cancel hz) (by simp at hf; omega) with ⟨ys2, rfl, e2⟩ | ⟨hl2, o, e2, ho⟩
            · exact Or.inl ⟨ys2, by simp, e2⟩
            · exact Or.inr ⟨by simp; omega, o, e2, ho⟩
          · rw [e1]
            exact Or.inr ⟨by simp; omega, out, rfl, (toList_prefix_push out _).trans hp⟩
      rw [if_neg h1] at h
      by_cases h2 : s = 256
      · rw [if_pos h2] at h
        simp only [Prod.mk.injEq, Except.ok.injEq] at h
        obtain ⟨rfl, rfl⟩ := h
        refine ⟨c1, rfl, List.prefix_refl _, ?_⟩
        intro zs fuel' hz hf
        cases fuel' with
        | zero => omega
        | succ f =>
          rw [inflateBlock_succ]
          rcases g1 zs hz with ⟨ys, rfl, e1⟩ | ⟨hl, e1⟩
          · rw [e1]; dsimp only; rw [if_neg h1, if_pos h2]
            exact Or.inl ⟨ys, rfl, rfl⟩
          · rw [e1]
            exact Or.inr ⟨hl, out, rfl, List.prefix_refl _⟩
      rw [if_neg h2] at h
      by_cases h3 : s ≥ 286
      · rw [if_pos h3] at h; cases h
      rw [if_neg h3] at h
      cases hm : readMatch dist s r1 with
      | error e' => rw [hm] at h; cases h
      | ok v =>
        obtain ⟨⟨len, d⟩, r3⟩ := v
        rw [hm] at h
        dsimp only at h
        by_cases h4 : d > min out.size maxHist
        · rw [if_pos h4] at h; cases h
        rw [if_neg h4] at h
        obtain ⟨c2, rfl, g2⟩ := (readMatch_good dist s).1 _ _ _ hm
        obtain ⟨c3, rfl, hp, g3⟩ := ih _ _ _ _ h
        have hp' : out.toList <+: out'.toList := (copyBack_prefix d len out).trans hp
        refine ⟨c1 ++ (c2 ++ c3), by simp, hp', ?_⟩
        intro zs fuel' hz hf
        cases fuel' with
        | zero => omega
        | succ f =>
          rw [inflateBlock_succ]
          rcases g1 zs (agree_left hz) with ⟨ys, rfl, e1⟩ | ⟨hl, e1⟩
          · rw [e1]; dsimp only; rw [if_neg h1, if_neg h2, if_neg h3]
            have hz2 := agree_cancel hz
            rcases g2 ys (agree_left hz2) with ⟨ys2, rfl, e2⟩ | ⟨hl2, e2⟩
            · rw [e2]; dsimp only; rw [if_neg h4]
              rcases g3 ys2 f (agree_cancel hz2) (by simp at hf; omega) with ⟨ys3, rfl, e3⟩ | ⟨hl3, o, e3, ho⟩
              · exact Or.inl ⟨ys3, by simp, e3⟩
              · exact Or.inr ⟨by simp; omega, o, e3, ho⟩
            · rw [e2]
              exact Or.inr ⟨by simp; omega, out, rfl, hp'⟩
          · rw [e1]
            exact Or.inr ⟨by simp; omega, out, rfl, hp'⟩

/-! ### one block -/

/-- skip `m` bits, then read `n`. -/
theorem dropTake_goodFn (m n : Nat) (hn0 : 0 < n) : GoodFnO (fun b => takeBits n (b.drop m)) := by
  intro xs v rest h
  dsimp only at h
  obtain ⟨hn, hv, hr⟩ := takeBits_some h
  rw [List.length_drop] at hn
  rw [List.drop_drop] at hr
  have hcl : (xs.take (m + n)).length = m + n := by simp; omega
  refine ⟨xs.take (m + n), by rw [hr, List.take_append_drop], ?_⟩
  intro zs hz
  rcases agree_cases hz with ⟨ys, rfl⟩ | ⟨hl, _⟩
  · refine Or.inl ⟨ys, rfl, ?_⟩
    dsimp only
    rw [List.drop_append_of_le_length (by omega)]
    rw [takeBits_append _ _ (by simp; omega), hv, List.drop_take]
    simp
  · exact Or.inr ⟨hl, takeBits_short (by simp; omega)⟩

/-- the body of one block after the 3 header bits; `used` = bits consumed so far. -/
def blockBody (used btype : Nat) (out : Array UInt8) (b2 : Bits) : Array UInt8 × Except Verdict Bits :=
  match btype with
  | 0 =>
    match takeBits 16 (b2.drop (padTo8 used)) with
    | none => (out, .error .unexpectedEOF)
    | some (len, b4) =>
      match takeBits 16 b4 with
      | none => (out, .error .unexpectedEOF)
      | some (nlen, b5) =>
        if len + nlen ≠ 65535 then (out, .error .corrupt)
        else
          match takeBytes len out b5 with
          | (out', none) => (out', .error .unexpectedEOF)
          | (out', some b6) => (out', .ok b6)
  | 1 => inflateBlock fixedLit.tab fixedDist.tab (b2.length + 1) out b2
  | 2 =>
    match readDynamic b2 with
    | .error v => (out, .error v)
    | .ok (lit, dist, b3) => inflateBlock lit.tab dist.tab (b3.length + 1) out b3
  | _ => (out, .error .corrupt)

theorem decodeBlocks_zero (total : Nat) (out : Array UInt8) (bits : Bits) :
    decodeBlocks total 0 out bits = { out := out, verdict := .corrupt } := rfl

theorem decodeBlocks_succ (total fuel : Nat) (out : Array UInt8) (bits : Bits) :
    decodeBlocks total (fuel + 1) out bits =
      match takeBits 1 bits with
      | none => { out := out, verdict := .unexpectedEOF }
      | some (bfinal, b1) =>
        match takeBits 2 b1 with
        | none => { out := out, verdict := .unexpectedEOF }
        | some (btype, b2) =>
          match blockBody (total - b2.length) btype out b2 with
          | (out', .error v) => { out := out', verdict := v }
          | (out', .ok rest) =>
            if bfinal = 1 then
              { out := out', verdict := .ok (total - rest.length + padTo8 (total - rest.length)) }
            else decodeBlocks total fuel out' rest := by
  rw [decodeBlocks]
  cases takeBits 1 bits with
  | none => rfl
  | some v =>
    obtain ⟨bfinal, b1⟩ := v
    dsimp only
    cases takeBits 2 b1 with
    | none => rfl
    | some v =>
      obtain ⟨btype, b2⟩ := v
      dsimp only
      match btype with
      | 0 =>
        unfold blockBody
        cases takeBits 16 (List.drop (padTo8 (total - b2.length)) b2) with
        | none => rfl
        | some v =>
          obtain ⟨len, b4⟩ := v
          dsimp only
          cases takeBits 16 b4 with
          | none => rfl
          | some v =>
            obtain ⟨nlen, b5⟩ := v
            dsimp only
            by_cases hl : len + nlen ≠ 65535
            · rw [if_pos hl, if_pos hl]; rfl
            rw [if_neg hl, if_neg hl]
            cases hb : takeBytes len out b5 with
            | mk o r =>
              cases r with
              | none => rfl
              | some b6 => rfl
      | 1 =>
        unfold blockBody
        cases inflateBlock fixedLit.tab fixedDist.tab (b2.length + 1) out b2 with
        | mk o r =>
          cases r with
          | error e => rfl
          | ok b6 => rfl
      | 2 =>
        unfold blockBody
        cases readDynamic b2 with
        | error e => rfl
        | ok v =>
          obtain ⟨lit, dist, b3⟩ := v
          dsimp only
          cases inflateBlock lit.tab dist.tab (b3.length + 1) out b3 with
          | mk o r =>
            cases r with
            | error e => rfl
            | ok b6 => rfl
      | n + 3 => rfl

theorem blockBody_zero (used : Nat) (out : Array UInt8) (b2 : Bits) :
    blockBody used 0 out b2 =
      match takeBits 16 (b2.drop (padTo8 used)) with
      | none => (out, .error .unexpectedEOF)
      | some (len, b4) =>
        match takeBits 16 b4 with
        | none => (out, .error .unexpectedEOF)
        | some (nlen, b5) =>
          if len + nlen ≠ 65535 then (out, .error .corrupt)
          else
            match takeBytes len out b5 with
            | (out', none) => (out', .error .unexpectedEOF)
            | (out', some b6) => (out', .ok b6) := rfl

theorem blockBody_one (used : Nat) (out : Array UInt8) (b2 : Bits) :
    blockBody used 1 out b2 = inflateBlock fixedLit.tab fixedDist.tab (b2.length + 1) out b2 := rfl

theorem blockBody_two (used : Nat) (out : Array UInt8) (b2 : Bits) :
    blockBody used 2 out b2 =
      match readDynamic b2 with
      | .error v => (out, .error v)
      | .ok (lit, dist, b3) => inflateBlock lit.tab dist.tab (b3.length + 1) out b3 := rfl

theorem blockBody_other (used n : Nat) (out : Array UInt8) (b2 : Bits) :
    blockBody used (n + 3) out b2 = (out, .error .corrupt) := rfl

/-- a block fails only with `corrupt` or `unexpectedEOF`. -/
theorem blockBody_err (used btype : Nat) (out : Array UInt8) (xs : Bits) (o : Array UInt8) (e : Verdict)
    (h : blockBody used btype out xs = (o, .error e)) : IsErr e := by
  match btype with
  | 0 =>
    rw [blockBody_zero] at h
    cases h1 : takeBits 16 (xs.drop (padTo8 used)) with
    | none => rw [h1] at h; cases h; exact Or.inr rfl
    | some v =>
      obtain ⟨len, b4⟩ := v
      rw [h1] at h; dsimp only at h
      cases h2 : takeBits 16 b4 with
      | none => rw [h2] at h; cases h; exact Or.inr rfl
      | some v =>
        obtain ⟨nlen, b5⟩ := v
        rw [h2] at h; dsimp only at h
        by_cases hl : len + nlen ≠ 65535
        · rw [if_pos hl] at h; cases h; exact Or.inl rfl
        rw [if_neg hl] at h
        cases h3 : takeBytes len out b5 with
        | mk o' r =>
          rw [h3] at h
          cases r with
          | none => cases h; exact Or.inr rfl
          | some b6 => cases h
  | 1 =>
    rw [blockBody_one] at h
    exact inflateBlock_err _ _ _ _ _ _ _ h
  | 2 =>
    rw [blockBody_two] at h
    cases h1 : readDynamic xs with
    | error e' =>
      rw [h1] at h; cases h
      exact readDynamic_good.2 _ _ h1
    | ok v =>
      obtain ⟨lit, dist, b3⟩ := v
      rw [h1] at h; dsimp only at h
      exact inflateBlock_err _ _ _ _ _ _ _ h
  | n + 3 =>
    rw [blockBody_other] at h
    cases h; exact Or.inl rfl

theorem blockBody_good (used btype : Nat) (out : Array UInt8) (xs : Bits) (out' : Array UInt8) (rest : Bits)
    (h : blockBody used btype out xs = (out', .ok rest)) :
    ∃ c, xs = c ++ rest ∧ out.toList <+: out'.toList ∧ GoodB (blockBody used btype out) c out' := by
  match btype with
  | 0 =>
    rw [blockBody_zero] at h
    cases h1 : takeBits 16 (xs.drop (padTo8 used)) with
    | none => rw [h1] at h; cases h
    | some v =>
      obtain ⟨len, b4⟩ := v
      rw [h1] at h; dsimp only at h
      cases h2 : takeBits 16 b4 with
      | none => rw [h2] at h; cases h
      | some v =>
        obtain ⟨nlen, b5⟩ := v
        rw [h2] at h; dsimp only at h
        by_cases hl : len + nlen ≠ 65535
        · rw [if_pos hl] at h; cases h
        rw [if_neg hl] at h
        cases h3 : takeBytes len out b5 with
        | mk o' r =>
          rw [h3] at h
          cases r with
          | none => cases h
          | some b6 =>
            simp only [Prod.mk.injEq, Except.ok.injEq] at h
            obtain ⟨rfl, rfl⟩ := h
            obtain ⟨c1, rfl, g1⟩ := dropTake_goodFn (padTo8 used) 16 (by omega) _ _ _ h1
            obtain ⟨c2, rfl, g2⟩ := takeBits_goodFn 16 _ _ _ h2
            obtain ⟨c3, rfl, hp, g3⟩ := takeBytes_good _ _ _ _ _ h3
            refine ⟨c1 ++ (c2 ++ c3), by simp, hp, ?_⟩
            intro zs hz
            rw [blockBody_zero]
            rcases g1 zs (agree_left hz) with ⟨ys, rfl, e1⟩ | ⟨hl1, e1⟩
            · dsimp only at e1
              rw [e1]; dsimp only
              have hz2 := agree_cancel hz
              rcases g2 ys (agree_left hz2) with ⟨ys2, rfl, e2⟩ | ⟨hl2, e2⟩
              · rw [e2]; dsimp only; rw [if_neg hl]
                rcases g3 ys2 (agree_cancel hz2) with ⟨ys3, rfl, e3⟩ | ⟨hl3, o, e3, ho⟩
                · rw [e3]
                  exact Or.inl ⟨ys3, by simp, rfl⟩
                · rw [e3]
                  exact Or.inr ⟨by simp; omega, o, rfl, ho⟩
              · rw [e2]
                exact Or.inr ⟨by simp; omega, out, rfl, hp⟩
            · dsimp only at e1
              rw [e1]
              exact Or.inr ⟨by simp; omega, out, rfl, hp⟩
  | 1 =>
    rw [blockBody_one] at h
    obtain ⟨c, rfl, hp, g⟩ := inflateBlock_good _ _ _ _ _ _ _ h
    refine ⟨c, rfl, hp, ?_⟩
    intro zs hz
    rw [blockBody_one]
    exact g zs (zs.length + 1) hz (by omega)
  | 2 =>
    rw [blockBody_two] at h
    cases h1 : readDynamic xs with
    | error e' => rw [h1] at h; cases h
    | ok v =>
      obtain ⟨lit, dist, b3⟩ := v
      rw [h1] at h; dsimp only at h
      obtain ⟨c1, rfl, g1⟩ := readDynamic_good.1 _ (lit, dist) b3 h1
      obtain ⟨c2, rfl, hp, g2⟩ := inflateBlock_good _ _ _ _ _ _ _ h
      refine ⟨c1 ++ c2, by simp, hp, ?_⟩
      intro zs hz
      rw [blockBody_two]
      rcases g1 zs (agree_left hz) with ⟨ys, rfl, e1⟩ | ⟨hl1, e1⟩
      · rw [e1]; dsimp only [mkDyn]
        rcases g2 ys (ys.length + 1) (agree_cancel hz) (by omega) with ⟨ys2, rfl, e2⟩ | ⟨hl2, o, e2, ho⟩
        · exact Or.inl ⟨ys2, by simp, e2⟩
        · exact Or.inr ⟨by simp; omega, o, e2, ho⟩
      · rw [e1]
        exact Or.inr ⟨by simp; omega, out, rfl, hp⟩
  | n + 3 =>
    rw [blockBody_other] at h
    cases h

/-! ### the sequence of blocks -/

/-- locality of `decodeBlocks` with `c0` bits consumed before, for every sufficient fuel. -/
def GoodD (c0 : Nat) (out : Array UInt8) (c : Bits) (out' : Array UInt8) (n : Nat) : Prop :=
  ∀ zs fuel', Agree c zs → zs.length < fuel' →
    (∃ ys, zs = c ++ ys ∧
      decodeBlocks (c0 + zs.length) fuel' out zs = { out := out', verdict := .ok n }) ∨
    (zs.length < c.length ∧ ∃ o,
      decodeBlocks (c0 + zs.length) fuel' out zs = { out := o, verdict := .unexpectedEOF } ∧
      o.toList <+: out'.toList)

theorem decodeBlocks_good : ∀ (fuel c0 : Nat) (out : Array UInt8) (xs : Bits) (out' : Array UInt8) (n : Nat),
    decodeBlocks (c0 + xs.length) fuel out xs = { out := out', verdict := .ok n } →
    ∃ c rest, xs = c ++ rest ∧ n = c0 + c.length + padTo8 (c0 + c.length) ∧
      out.toList <+: out'.toList ∧ GoodD c0 out c out' n := by
  intro fuel
  induction fuel with
  | zero =>
    intro c0 out xs out' n h
    rw [decodeBlocks_zero] at h
    simp at h
  | succ fuel ih =>
    intro c0 out xs out' n h
    rw [decodeBlocks_succ] at h
    cases h1 : takeBits 1 xs with
    | none => rw [h1] at h; simp at h
    | some v =>
      obtain ⟨bfinal, b1⟩ := v
      rw [h1] at h; dsimp only at h
      cases h2 : takeBits 2 b1 with
      | none => rw [h2] at h; simp at h
      | some v =>
        obtain ⟨btype, b2⟩ := v
        rw [h2] at h; dsimp only at h
        obtain ⟨c1, rfl, hc1, g1⟩ := takeBits_good h1
        obtain ⟨c2, rfl, hc2, g2⟩ := takeBits_good h2
        have hu : ∀ ys : Bits, c0 + (c1 ++ (c2 ++ ys)).length - ys.length = c0 + 3 := by
          intro ys; simp only [List.length_append]; omega
        rw [hu] at h
        cases hb : blockBody (c0 + 3) btype out b2 with
        | mk o r =>
          rw [hb] at h
          cases r with
          | error e =>
            dsimp only at h
            simp only [Result.mk.injEq] at h
            obtain ⟨_, rfl⟩ := h
            rcases blockBody_err _ _ _ _ _ _ hb with h' | h' <;> cases h'
          | ok b6 =>
            dsimp only at h
            obtain ⟨c3, rfl, hp3, g3⟩ := blockBody_good _ _ _ _ _ _ hb
            -- the part after this block
            have tail : ∃ c4 rest, b6 = c4 ++ rest ∧
                n = c0 + (3 + c3.length + c4.length) + padTo8 (c0 + (3 + c3.length + c4.length)) ∧
                o.toList <+: out'.toList ∧
                ∀ ys3 f, Agree c4 ys3 → ys3.length < f →
                  (∃ ys4, ys3 = c4 ++ ys4 ∧
                    (if bfinal = 1 then
                      { out := o, verdict := .ok (c0 + (3 + c3.length + ys3.length) - ys3.length +
                          padTo8 (c0 + (3 + c3.length + ys3.length) - ys3.length)) }
                     else decodeBlocks (c0 + (3 + c3.length + ys3.length)) f o ys3) =
                      ({ out := out', verdict := .ok n } : Result)) ∨
                  (ys3.length < c4.length ∧ ∃ o',
                    (if bfinal = 1 then
                      { out := o, verdict := .ok (c0 + (3 + c3.length + ys3.length) - ys3.length +
                          padTo8 (c0 + (3 + c3.length + ys3.length) - ys3.length)) }
                     else decodeBlocks (c0 + (3 + c3.length + ys3.length)) f o ys3) =
                      ({ out := o', verdict := .unexpectedEOF } : Result) ∧
                    o'.toList <+: out'.toList) := by
              by_cases hf : bfinal = 1
              · rw [if_pos hf] at h
                simp only [Result.mk.injEq, Verdict.ok.injEq] at h
                obtain ⟨rfl, hn⟩ := h
                have e : c0 + (c1 ++ (c2 ++ (c3 ++ b6))).length - b6.length = c0 + (3 + c3.length + 0) := by
                  simp only [List.length_append]; omega
                rw [e] at hn
                refine ⟨[], b6, rfl, hn.symm, List.prefix_refl _, ?_⟩
                intro ys3 f _ _
                refine Or.inl ⟨ys3, rfl, ?_⟩
                rw [if_pos hf]
                have e' : c0 + (3 + c3.length + ys3.length) - ys3.length = c0 + (3 + c3.length + 0) := by omega
                rw [e', hn]
              · rw [if_neg hf] at h
                have e : c0 + (c1 ++ (c2 ++ (c3 ++ b6))).length = (c0 + (3 + c3.length)) + b6.length := by
                  simp only [List.length_append]; omega
                rw [e] at h
                obtain ⟨c4, rest, rfl, hn, hp4, g4⟩ := ih _ _ _ _ _ h
                have e4 : c0 + (3 + c3.length) + c4.length = c0 + (3 + c3.length + c4.length) := by omega
                rw [e4] at hn
                refine ⟨c4, rest, rfl, hn, hp4, ?_⟩
                intro ys3 f hz3 hf3
                rw [if_neg hf]
                have e' : c0 + (3 + c3.length + ys3.length) = (c0 + (3 + c3.length)) + ys3.length := by omega
                rw [e']
                exact g4 ys3 f hz3 hf3
            obtain ⟨c4, rest, rfl, hn, hp4, g4⟩ := tail
            have hp : out.toList <+: out'.toList := hp3.trans hp4
            refine ⟨c1 ++ (c2 ++ (c3 ++ c4)), rest, by simp, ?_, hp, ?_⟩
            · have : (c1 ++ (c2 ++ (c3 ++ c4))).length = 3 + c3.length + c4.length := by
                simp only [List.length_append]; omega
              rw [this]; exact hn
            intro zs fuel' hz hfu
            cases fuel' with
            | zero => omega
            | succ f =>
              rw [decodeBlocks_succ]
              rcases g1 zs (agree_left hz) with ⟨ys1, rfl, e1⟩ | ⟨hl1, e1⟩
              · rw [e1]; dsimp only
                have hz1 := agree_cancel hz
                rcases g2 ys1 (agree_left hz1) with ⟨ys2, rfl, e2⟩ | ⟨hl2, e2⟩
                · rw [e2]; dsimp only
                  rw [hu]
                  have hz2 := agree_cancel hz1
                  rcases g3 ys2 (agree_left hz2) with ⟨ys3, rfl, e3⟩ | ⟨hl3, o3, e3, ho3⟩
                  · rw [e3]; dsimp only
                    have et : c0 + (c1 ++ (c2 ++ (c3 ++ ys3))).length = c0 + (3 + c3.length + ys3.length) := by
                      simp only [List.length_append]; omega
                    rw [et]
                    rcases g4 ys3 f (agree_cancel hz2)
                        (by simp only [List.length_append] at hfu; omega) with
                      ⟨ys4, rfl, e4⟩ | ⟨hl4, o4, e4, ho4⟩
                    · exact Or.inl ⟨ys4, by simp, e4⟩
                    · exact Or.inr ⟨by simp only [List.length_append]; omega, o4, e4, ho4⟩
                  · rw [e3]
                    exact Or.inr ⟨by simp only [List.length_append]; omega, o3, rfl, ho3.trans hp4⟩
                · rw [e2]
                  exact Or.inr ⟨by simp only [List.length_append]; omega, out, rfl, hp⟩
              · rw [e1]
                exact Or.inr ⟨by simp only [List.length_append]; omega, out, rfl, hp⟩

end Compress.Proofs.FlatePrefix
