/-
C02 layer (f2): the literal loop of `readLiterals` (Go) against the
specification's `readLiterals`, for a number of literals that fits the window.
-/
import Compress.Proofs.BrImplCmdProg

namespace Compress.Proofs.BrImpl
open Compress Compress.Brotli Compress.Brotli.Impl Compress.Window Compress.Proofs.Window

/-! ### accounting for one symbol of a category -/

/-- the model's "account for one symbol of the category". -/
def nextM (bd : BlockDec) : M BlockDec := do
  let bd ← if bd.typeLen = 0 then Impl.readBlockSwitch bd else pure bd
  pure { bd with typeLen := bd.typeLen - 1 }

theorem blockCount_base_pos : ∀ i, i < 26 → 1 ≤ (blockCountRanges.getD i default).base := by decide

theorem readRange_blockCount_pos (sym : Nat) (st st' : St) (v : Nat)
    (h : readRange blockCountRanges sym st = (.ok v, st')) : 1 ≤ v := by
  unfold readRange at h
  rcases hr : blockCountRanges[sym]? with _ | r
  · rw [hr] at h; cases h
  · rw [hr] at h
    dsimp only at h
    obtain ⟨x, s1, _, e2⟩ := BrCut.bind_ok h
    have hv : v = r.base + x := by
      have : ((.ok (r.base + x), s1) : Except Err Nat × St) = (.ok v, st') := e2
      simp only [Prod.mk.injEq, Except.ok.injEq] at this
      exact this.1.symm
    have hlt : sym < 26 := by
      have := (Array.getElem?_eq_some_iff.mp hr).1
      simpa [blockCountRanges, mkRanges] using this
    have := blockCount_base_pos sym hlt
    have e : blockCountRanges.getD sym default = r := by
      simp [Array.getD_eq_getD_getElem?, hr]
    rw [e] at this
    omega

theorem readBlockSwitch_ok (b : Blocks) (st st' : St) (b' : Blocks)
    (h : Brotli.readBlockSwitch b st = (.ok b', st')) : 1 ≤ b'.count ∧ b'.ntypes = b.ntypes := by
  unfold Brotli.readBlockSwitch at h
  split at h
  · cases h
  · obtain ⟨t, s1, _, h⟩ := BrCut.bind_ok h
    obtain ⟨l, s2, _, h⟩ := BrCut.bind_ok h
    obtain ⟨cnt, s3, e3, h⟩ := BrCut.bind_ok h
    have : ((.ok { b with cur := (if t = 0 then b.prev else if t = 1 then (b.cur + 1) % b.ntypes else t - 2),
                          prev := b.cur, count := cnt }, s3) : Except Err Blocks × St) = (.ok b', st') := h
    simp only [Prod.mk.injEq, Except.ok.injEq] at this
    rw [← this.1]
    exact ⟨readRange_blockCount_pos _ _ _ _ e3, rfl⟩

theorem BlkRel.dec {bd : BlockDec} {b : Blocks} (h : BlkRel bd b) (hc : 1 ≤ b.count) :
    BlkRel { bd with typeLen := bd.typeLen - 1 } { b with count := b.count - 1 } := by
  obtain ⟨h1, h2, h3, h4, h5, h6, h7, h8, h9⟩ := h
  refine ⟨h1, h2, h3, h4, h5, h6, h7, h8, ?_⟩
  show bd.typeLen - 1 = ((b.count - 1 : Nat) : Int)
  omega

/-- the relation `nextM_sim` establishes. -/
def NextRel (bd : BlockDec) (b : Blocks) (bd' : BlockDec) (b' : Blocks) : Prop :=
  BlkRel bd' b' ∧ bd'.prefixes = bd.prefixes ∧ b'.ntypes = b.ntypes ∧
    (b.ntypes < 2 → b'.count + 1 = b.count ∧ b'.cur = b.cur)

/-- a block that is used up switches; with a single block type both sides fail there. -/
theorem nextM_sim (bd : BlockDec) (b : Blocks) (hr : BlkRel bd b) :
    SimRel (NextRel bd b) (nextM bd) (nextInBlock b) := by
  unfold nextM nextInBlock
  have htl : bd.typeLen = (b.count : Int) := hr.2.2.2.2.2.2.2.2
  by_cases hc : b.count = 0
  · rw [if_pos (by omega), if_pos hc]
    by_cases h2 : 2 ≤ b.ntypes
    · have hs := SimRel.strengthen (blockSwitch_sim bd b hr h2) (P := fun b' => 1 ≤ b'.count ∧ b'.ntypes = b.ntypes)
        (fun st b' st' h => readBlockSwitch_ok b st st' b' h)
      refine SimRel.bind hs fun bd1 b1 h1 => ?_
      obtain ⟨⟨hrel, hpref⟩, hpos, hnt⟩ := h1
      exact SimRel.pure ⟨hrel.dec hpos, hpref, hnt, fun hlt => absurd hlt (by omega)⟩
    · exact SimRel.bind (R := fun _ _ => False) (blockSwitch_single bd b hr (by omega)) (fun _ _ hf => hf.elim)
  · rw [if_neg (by omega), if_neg hc]
    refine SimRel.pure ⟨hr.dec (by omega), rfl, rfl, fun _ => ⟨?_, rfl⟩⟩
    show b.count - 1 + 1 = b.count
    omega

/-! ### literal context -/

theorem lut0_lt : ∀ i, i < 256 → lut0.getD i 0 < 64 := by decide +kernel
theorem lut1_lt : ∀ i, i < 256 → lut1.getD i 0 < 64 := by decide +kernel

theorem literalContext_lt (mode : Nat) (p1 p2 : UInt8) (hm : mode < 4) : literalContext mode p1 p2 < 64 := by
  have h1 : p1.toNat < 256 := p1.toNat_lt
  have h2 : p2.toNat < 256 := p2.toNat_lt
  match mode, hm with
  | 0, _ => exact Nat.mod_lt _ (by omega)
  | 1, _ => show p1.toNat / 4 < 64; omega
  | 2, _ =>
    show lut0.getD p1.toNat 0 ||| lut1.getD p2.toNat 0 < 2 ^ 6
    exact Nat.or_lt_two_pow (lut0_lt _ h1) (lut1_lt _ h2)
  | 3, _ =>
    have a := lut2_le p1.toNat h1
    have b := lut2_le p2.toNat h2
    show (lut2.getD p1.toNat 0) * 8 ||| lut2.getD p2.toNat 0 < 2 ^ 6
    exact Nat.or_lt_two_pow (by omega) (by omega)

theorem backByte_snoc1 (o : List UInt8) (c : UInt8) : backByte (o ++ [c]) 1 = c := by
  unfold backByte
  rw [if_pos (by simp), lgetD_append, if_neg (by simp)]
  simp

theorem backByte_snoc2 (o : List UInt8) (c : UInt8) : backByte (o ++ [c]) 2 = backByte o 1 := by
  unfold backByte
  simp only [List.length_append, List.length_singleton]
  by_cases h : 1 ≤ o.length
  · rw [if_pos (by omega), if_pos h, lgetD_append, if_pos (by omega)]
    congr 1
  · rw [if_neg (by omega), if_neg h]

/-! ### one round of the loop -/

/-- the bit reads of one round of the literal loop. -/
def litStepM (s : State) (p1 p2 : UInt8) : M (BlockDec × Nat) := do
  let bd ← nextM s.litBlk
  let cid := getLitContextID p1 p2 (s.cmodes.getD bd.type0 0)
  let tree := bd.prefixes.getD (s.litMap.getD (64 * bd.type0 + cid) 0) {}
  let sym ← Impl.readSymbol tree
  pure (bd, sym)

/-- what the literal loop changes. -/
def litUpd (s : State) (rd : BR) (lb : BlockDec) (off cm : Nat) (d : Dict) : State :=
  { s with rd := rd, litBlk := lb, litMapOff := off, cmode := cm, dict := d }

theorem litLoop_succ (n : Nat) (p1 p2 : UInt8) (s : State)
    (h1 : s.litMapOff = 64 * s.litBlk.type0) (h2 : s.cmode = s.cmodes.getD s.litBlk.type0 0) :
    match litStepM s p1 p2 s.rd with
    | (.ok (bd, sym), r) =>
      litLoop (n+1) p1 p2 s = litLoop n (UInt8.ofNat sym) p1
        (litUpd s r bd (64 * bd.type0) (s.cmodes.getD bd.type0 0) (s.dict.writeByte (UInt8.ofNat sym)))
    | (.error e, _) => ∃ s1, litLoop (n+1) p1 p2 s = (.error e, s1) ∧ s1.dict = s.dict := by
  unfold litStepM nextM litUpd
  by_cases ht : s.litBlk.typeLen = 0
  · simp only [litLoop, ht, if_true, bind, S.bind, getS, modS, liftR, pure, M.bind, M.pure]
    rcases Impl.readBlockSwitch s.litBlk s.rd with ⟨e | bd, r⟩
    · exact ⟨_, rfl, rfl⟩
    · dsimp only
      rcases Impl.readSymbol _ r with ⟨e | sym, r'⟩
      · exact ⟨_, rfl, rfl⟩
      · rfl
  · simp only [litLoop, ht, if_false, bind, S.bind, getS, modS, liftR, pure, M.bind, M.pure]
    rw [← h1, ← h2]
    rcases Impl.readSymbol _ s.rd with ⟨e | sym, r'⟩
    · exact ⟨_, rfl, rfl⟩
    · dsimp only
      rw [h1, h2]

/-- the specification's part of one round that reads bits. -/
def litHeadD (h : Header) (litB : Blocks) (p1 p2 : UInt8) : Dec (Blocks × Nat) := do
  let litB ← nextInBlock litB
  let cid := literalContext (h.cmodes.getD litB.cur 0) p1 p2
  let tree := h.treesL.getD (h.cmapL.getD (64 * litB.cur + cid) 0) default
  let lit ← Brotli.readSymbol tree
  pure (litB, lit)

/-- the literal state of the model against the specification (`ntL` literal block types). -/
structure LitRel (ws : Nat) (h : Header) (ntL : Nat) (s : State) (st : St) (litB : Blocks)
    (del : List UInt8) : Prop where
  rd : s.rd = brOf st
  win : Inv ws s.dict st.out.toList del
  zeros : Zeros s.dict
  blk : BlkRel s.litBlk litB
  nt : litB.ntypes = ntL
  off : s.litMapOff = 64 * litB.cur
  cmode : s.cmode = h.cmodes.getD litB.cur 0
  cmodes : s.cmodes = h.cmodes ∧ h.cmodes.size = ntL ∧ ∀ m ∈ h.cmodes, m < 4
  litMap : s.litMap = h.cmapL ∧ h.cmapL.size = 64 * ntL ∧ ∀ v ∈ h.cmapL, v < h.treesL.size
  trees : ∀ i, i < h.treesL.size → CodeRel 256 (s.litBlk.prefixes.getD i {}) (h.treesL.getD i default)
  psize : s.litBlk.prefixes.size = h.treesL.size

theorem getD_mem_or {a : Array Nat} {i : Nat} (P : Nat → Prop) (h0 : P 0) (h : ∀ m ∈ a, P m) : P (a.getD i 0) := by
  by_cases hi : i < a.size
  · have : a.getD i 0 = a[i] := by simp [Array.getD_eq_getD_getElem?, hi]
    rw [this]
    exact h _ (Array.getElem_mem hi)
  · have : a.getD i 0 = 0 := by
      simp [Array.getD_eq_getD_getElem?, Array.getElem?_eq_none (Nat.le_of_not_lt hi)]
    rw [this]; exact h0

theorem getD_mem_lt {a : Array Nat} {i : Nat} (P : Nat → Prop) (hi : i < a.size) (h : ∀ m ∈ a, P m) :
    P (a.getD i 0) := by
  have : a.getD i 0 = a[i] := by simp [Array.getD_eq_getD_getElem?, hi]
  rw [this]
  exact h _ (Array.getElem_mem hi)

theorem litStep_sim {ws : Nat} {h : Header} {ntL : Nat} {s : State} {st : St} {litB : Blocks}
    {del : List UInt8} (R : LitRel ws h ntL s st litB del) (p1 p2 : UInt8) :
    SimRel (fun a b => NextRel s.litBlk litB a.1 b.1 ∧ a.2 = b.2 ∧ b.2 < 256)
      (litStepM s p1 p2) (litHeadD h litB p1 p2) := by
  unfold litStepM litHeadD
  refine SimRel.bind (nextM_sim _ _ R.blk) fun bd b hb => ?_
  obtain ⟨hrel, hpref, hnt, hcnt⟩ := hb
  have hcur : bd.type0 = b.cur := hrel.2.2.2.1
  have hlt : b.cur < ntL := by rw [← R.nt, ← hnt]; exact hrel.2.2.2.2.2.1
  have hmode : h.cmodes.getD b.cur 0 < 4 := getD_mem_or (· < 4) (by omega) R.cmodes.2.2
  have hcid := literalContext_lt _ p1 p2 hmode
  have hv : h.cmapL.getD (64 * b.cur + literalContext (h.cmodes.getD b.cur 0) p1 p2) 0 < h.treesL.size :=
    getD_mem_lt (· < h.treesL.size) (by rw [R.litMap.2.1]; omega) R.litMap.2.2
  have htree := R.trees _ hv
  rw [← hpref] at htree
  simp only [R.cmodes.1, R.litMap.1, hcur, litContextID_eq p1 p2 _ hmode]
  refine SimRel.bind (Blk.codeRel_sim htree) fun a b' hab => ?_
  exact SimRel.pure ⟨⟨hrel, hpref, hnt, hcnt⟩, hab.1, hab.2⟩

theorem readLiterals_succ_apply (h : Header) (n : Nat) (litB : Blocks) (st : St) :
    readLiterals h (n+1) litB st =
      match nextInBlock litB st with
      | (.error e, st1) => (.error e, st1)
      | (.ok l, st1) =>
        match Brotli.readSymbol (h.treesL.getD (h.cmapL.getD (64 * l.cur +
            literalContext (h.cmodes.getD l.cur 0) (backByte st1.out.toList 1) (backByte st1.out.toList 2)) 0) default) st1 with
        | (.error e, st2) => (.error e, st2)
        | (.ok lit, st2) => readLiterals h n l (stOut st2 (st2.out.toList ++ [UInt8.ofNat lit])) := by
  rw [readLiterals, Dec_bind_apply]
  rcases nextInBlock litB st with ⟨e | l, st1⟩
  · rfl
  · dsimp only
    rw [Dec_bind_apply, outputByte_eq]
    dsimp only
    rw [Dec_bind_apply, outputByte_eq]
    dsimp only
    rw [Dec_bind_apply]
    rcases Brotli.readSymbol _ st1 with ⟨e | lit, st2⟩
    · rfl
    · dsimp only
      rw [Dec_bind_apply, emit_eq]

theorem litHeadD_apply (h : Header) (litB : Blocks) (p1 p2 : UInt8) (st : St) :
    litHeadD h litB p1 p2 st =
      match nextInBlock litB st with
      | (.error e, st1) => (.error e, st1)
      | (.ok l, st1) =>
        match Brotli.readSymbol (h.treesL.getD (h.cmapL.getD (64 * l.cur +
            literalContext (h.cmodes.getD l.cur 0) p1 p2) 0) default) st1 with
        | (.error e, st2) => (.error e, st2)
        | (.ok lit, st2) => (.ok (l, lit), st2) := by
  unfold litHeadD
  rw [Dec_bind_apply]
  rcases nextInBlock litB st with ⟨e | l, st1⟩
  · rfl
  · dsimp only
    rw [Dec_bind_apply]
    rcases Brotli.readSymbol _ st1 with ⟨e | lit, st2⟩ <;> rfl

/-! ### the loop -/

theorem writeByte_availSize (d : Dict) (c : UInt8) : (d.writeByte c).availSize = d.availSize - 1 := by
  simp only [Dict.writeByte, Dict.availSize, Array.size_setIfInBounds]
  omega

/-- `n ≤ AvailSize` literals: both sides read them, or both fail at the same literal. -/
theorem litLoop_sim {ws : Nat} {h : Header} {ntL : Nat} {del : List UInt8} :
    ∀ (n : Nat) (s : State) (st : St) (litB : Blocks), LitRel ws h ntL s st litB del → n ≤ s.dict.availSize →
    match readLiterals h n litB st with
    | (.ok litB', st') =>
      ∃ rd lb off cm d,
        litLoop n (backByte st.out.toList 1) (backByte st.out.toList 2) s = (.ok (), litUpd s rd lb off cm d) ∧
        LitRel ws h ntL (litUpd s rd lb off cm d) st' litB' del ∧
        st'.out.size = st.out.size + n ∧ st'.bits.length ≤ st.bits.length ∧
        st'.used + st'.bits.length = st.used + st.bits.length ∧
        d.rdPos = s.dict.rdPos ∧ d.wrPos = s.dict.wrPos + n ∧ d.hist.size = s.dict.hist.size ∧
        (litB.ntypes < 2 → litB'.count + n = litB.count)
    | (.error _, st') =>
      ∃ e s', litLoop n (backByte st.out.toList 1) (backByte st.out.toList 2) s = (.error e, s') ∧ e ≠ .eof ∧
        Inv ws s'.dict st'.out.toList del := by
  intro n
  induction n with
  | zero =>
    intro s st litB R _
    exact ⟨s.rd, s.litBlk, s.litMapOff, s.cmode, s.dict, rfl, R, rfl, Nat.le_refl _, rfl, rfl, rfl, rfl,
      fun _ => rfl⟩
  | succ n ih =>
    intro s st litB R hav
    have h1 : s.litMapOff = 64 * s.litBlk.type0 := by rw [R.off, R.blk.2.2.2.1]
    have h2 : s.cmode = s.cmodes.getD s.litBlk.type0 0 := by rw [R.cmode, R.cmodes.1, R.blk.2.2.2.1]
    have hstep := litLoop_succ n (backByte st.out.toList 1) (backByte st.out.toList 2) s h1 h2
    rw [R.rd] at hstep
    ·
      have hout1 : ∀ l st1, nextInBlock litB st = (.ok l, st1) → st1.out = st.out := by
        intro l st1 hh
        rcases (nextM_sim _ _ R.blk).cases st with ⟨a, b, k, _, _, hy, _⟩ | ⟨e, r, e', st', _, hy, _, _⟩ <;>
          rw [hh] at hy
        · simp only [Prod.mk.injEq] at hy
          rw [hy.2]; rfl
        · cases hy
      rcases (litStep_sim R (backByte st.out.toList 1) (backByte st.out.toList 2)).cases st with
        ⟨a, b, k, hk, hxm, hym, hR⟩ | ⟨e, r, e', st', hxm, hym, he, ho⟩
      · -- one more literal on both sides
        obtain ⟨bd, sym⟩ := a
        obtain ⟨l, lit⟩ := b
        obtain ⟨⟨hrel, hpref, hnt, hcnt⟩, hsl, hl256⟩ := hR
        dsimp only at hrel hpref hnt hcnt hsl hl256
        subst hsl
        rw [hxm] at hstep
        dsimp only at hstep
        have hEq : readLiterals h (n+1) litB st =
            readLiterals h n l (stOut (stAt st k) (st.out.toList ++ [UInt8.ofNat sym])) := by
          rw [readLiterals_succ_apply]
          rw [litHeadD_apply] at hym
          rcases hnb : nextInBlock litB st with ⟨e1 | l1, st1⟩
          · rw [hnb] at hym; cases hym
          · rw [hnb] at hym
            have ho1 := hout1 _ _ hnb
            dsimp only at hym ⊢
            rw [ho1]
            rcases hrs : Brotli.readSymbol (h.treesL.getD (h.cmapL.getD (64 * l1.cur +
              literalContext (h.cmodes.getD l1.cur 0) (backByte st.out.toList 1) (backByte st.out.toList 2)) 0) default)
              st1 with ⟨e2 | lit2, st2⟩
            · rw [hrs] at hym; cases hym
            · rw [hrs] at hym
              dsimp only at hym ⊢
              simp only [Prod.mk.injEq, Except.ok.injEq] at hym
              obtain ⟨⟨rfl, rfl⟩, rfl⟩ := hym
              rfl
        rw [hEq]
        have hwr : s.dict.wrPos < s.dict.hist.size := by
          simp only [Dict.availSize] at hav; omega
        have R1 : LitRel ws h ntL
            (litUpd s (brOf (stAt st k)) bd (64 * bd.type0) (s.cmodes.getD bd.type0 0)
              (s.dict.writeByte (UInt8.ofNat sym)))
            (stOut (stAt st k) (st.out.toList ++ [UInt8.ofNat sym])) l del := by
          refine ⟨rfl, ?_, R.zeros.writeByte _, hrel, by rw [hnt, R.nt], ?_, ?_, R.cmodes, R.litMap, ?_, ?_⟩
          · rw [stOut_out]
            exact R.win.writeByte _ hwr
          · show 64 * bd.type0 = 64 * l.cur
            rw [hrel.2.2.2.1]
          · show s.cmodes.getD bd.type0 0 = h.cmodes.getD l.cur 0
            rw [hrel.2.2.2.1, R.cmodes.1]
          · intro i hi
            show CodeRel 256 (bd.prefixes.getD i {}) _
            rw [hpref]
            exact R.trees i hi
          · show bd.prefixes.size = _
            rw [hpref]
            exact R.psize
        have hav1 : n ≤ (litUpd s (brOf (stAt st k)) bd (64 * bd.type0) (s.cmodes.getD bd.type0 0)
              (s.dict.writeByte (UInt8.ofNat sym))).dict.availSize := by
          show n ≤ (s.dict.writeByte (UInt8.ofNat sym)).availSize
          rw [writeByte_availSize]; omega
        have ih1 := ih _ _ _ R1 hav1
        rw [stOut_out, backByte_snoc1, backByte_snoc2] at ih1
        rcases hrl : readLiterals h n l (stOut (stAt st k) (st.out.toList ++ [UInt8.ofNat sym])) with ⟨e3 | litB', st'⟩
        · rw [hrl] at ih1
          dsimp only at ih1 ⊢
          obtain ⟨e4, s4, h4, h5, h6⟩ := ih1
          exact ⟨e4, s4, by rw [hstep]; exact h4, h5, h6⟩
        · rw [hrl] at ih1
          dsimp only at ih1 ⊢
          obtain ⟨rd, lb, off, cm, d, h4, h5, h6, h7, h8, h9, h10, h11, h12⟩ := ih1
          refine ⟨rd, lb, off, cm, d, by rw [hstep]; exact h4, h5, ?_, ?_, ?_, h9, ?_, ?_, ?_⟩
          · rw [h6, stOut_size, List.length_append, Array.length_toList, List.length_singleton]; omega
          · rw [stOut_bits, stAt_bits, List.length_drop] at h7; omega
          · rw [h8, stOut_used, stOut_bits, stAt_used, stAt_bits, List.length_drop]; omega
          · rw [h10]; show (s.dict.writeByte _).wrPos + n = _
            simp only [Dict.writeByte]; omega
          · rw [h11]; show (s.dict.writeByte _).hist.size = _
            simp only [Dict.writeByte, Array.size_setIfInBounds]
          · intro hlt
            have := (hcnt hlt).1
            have := h12 (by rw [hnt]; exact hlt)
            omega
      · -- both fail at this literal
        rw [hxm] at hstep
        obtain ⟨s1, hs1, hd1⟩ := hstep
        have hEq : ∃ e'', readLiterals h (n+1) litB st = (.error e'', st') := by
          rw [readLiterals_succ_apply]
          rw [litHeadD_apply] at hym
          rcases hnb : nextInBlock litB st with ⟨e1 | l1, st1⟩
          · rw [hnb] at hym
            simp only [Prod.mk.injEq] at hym
            exact ⟨e1, by rw [hym.2]⟩
          · rw [hnb] at hym
            have ho1 := hout1 _ _ hnb
            dsimp only at hym ⊢
            rw [ho1]
            rcases hrs : Brotli.readSymbol (h.treesL.getD (h.cmapL.getD (64 * l1.cur +
              literalContext (h.cmodes.getD l1.cur 0) (backByte st.out.toList 1) (backByte st.out.toList 2)) 0) default)
              st1 with ⟨e2 | lit2, st2⟩
            · rw [hrs] at hym
              simp only [Prod.mk.injEq] at hym
              exact ⟨e2, by rw [hym.2]⟩
            · rw [hrs] at hym; cases hym
        obtain ⟨e'', hEq⟩ := hEq
        rw [hEq]
        exact ⟨e, s1, hs1, he, by rw [hd1, ho]; exact R.win⟩

end Compress.Proofs.BrImpl
