/-
Helper theory for `BzImplRead.lean`: chunks consume input, the fuel of `drain`, one `Read`.
-/
import Compress.Proofs.BzImplDefs
import Compress.Proofs.BzImplBlock
import Compress.Proofs.Bzip2Stages
import Compress.Proofs.BzImplReadRle

namespace Compress.Proofs.BzImpl.RdAux
open Compress Compress.Bzip2 Compress.Prefix
open Compress.Bzip2.Impl (Err M State)

theorem streamHeader_length (bits : Bits) (lv : Nat) (b3 : Bits) (h : Impl.streamHeader bits = .ok (lv, b3)) :
    b3.length ≤ bits.length := by
  unfold Impl.streamHeader at h
  cases h1 : Impl.readBitsBE64 16 bits with
  | error e => rw [h1] at h; cases h
  | ok x1 =>
    obtain ⟨m, b1⟩ := x1
    rw [h1] at h
    have l1 := readBitsBE64_length _ _ _ _ h1
    simp only [bind, Except.bind] at h
    split at h
    · cases h
    · cases h2 : Impl.readBitsBE64 8 b1 with
      | error e => rw [h2] at h; cases h
      | ok x2 =>
        obtain ⟨v, b2⟩ := x2
        rw [h2] at h
        have l2 := readBitsBE64_length _ _ _ _ h2
        simp only [] at h
        split at h
        · cases h
        · cases h3 : Impl.readBitsBE64 8 b2 with
          | error e => rw [h3] at h; cases h
          | ok x3 =>
            obtain ⟨w, b4⟩ := x3
            rw [h3] at h
            have l3 := readBitsBE64_length _ _ _ _ h3
            simp only [] at h
            split at h
            · cases h
            · simp only [pure, Except.pure] at h
              cases h
              omega

theorem decodeBlock_consumes (s s' : State) (bits : Bits) (h : Impl.decodeBlock s bits = .ok s') :
    s'.bits.length < bits.length ∧ s'.total = s.total ∧ s'.err = s.err ∧ (s'.crc = 0 ∨ s'.crc = s.crc) := by
  unfold Impl.decodeBlock at h
  cases h1 : Impl.readBitsBE64 48 bits with
  | error e => rw [h1] at h; cases h
  | ok x1 =>
    obtain ⟨m, b1⟩ := x1
    rw [h1] at h
    have l1 := readBitsBE64_length _ _ _ _ h1
    simp only [] at h
    split at h
    · split at h
      · cases h2 : Impl.readBitsBE64 32 b1 with
        | error e => rw [h2] at h; cases h
        | ok x2 =>
          obtain ⟨c, b2⟩ := x2
          rw [h2] at h
          have l2 := readBitsBE64_length _ _ _ _ h2
          simp only [] at h
          split at h
          · cases h
          · cases h
            simp only [List.length_drop]
            refine ⟨by omega, by trivial, by trivial, Or.inr (by trivial)⟩
      · cases h
    · cases h2 : Impl.blockBody s.level b1 with
      | error e => rw [h2] at h; cases h
      | ok x2 =>
        obtain ⟨buf, crc, b6⟩ := x2
        rw [h2] at h
        have l2 := blockBody_length _ _ _ _ _ h2
        cases h
        simp only []
        refine ⟨by omega, by trivial, by trivial, Or.inl (by trivial)⟩

theorem chunk_consumes (s s' : State) (h : Impl.chunk s = .ok s') :
    s'.bits.length < s.bits.length ∧ s'.total = s.total ∧ s'.err = s.err ∧ (s'.crc = 0 ∨ s'.crc = s.crc) := by
  unfold Impl.chunk at h
  split at h
  · split at h
    · cases h
    · cases h1 : Impl.streamHeader s.bits with
      | error e => rw [h1] at h; cases h
      | ok x1 =>
        obtain ⟨lvl, b3⟩ := x1
        rw [h1] at h
        have l1 := streamHeader_length _ _ _ h1
        simp only [] at h
        have := decodeBlock_consumes _ _ _ h
        simp only [] at this
        exact ⟨by omega, this.2⟩
  · split at h
    · cases h
    · have := decodeBlock_consumes _ _ _ h
      simpa using this

/-! ### `drain` -/

/-- the first lines of one iteration of `drain`: empty the stage, latch, checksum, count. -/
def stage (s : State) : State :=
  let x := rleAll s.rle
  let s1 := afterRle s x.1 x.2.2
  if x.2.1.length > 0 then { s1 with crc := crcUpdateGo s1.crc x.2.1, outOff := s1.outOff + x.2.1.length } else s1

theorem drain_succ (D : Nat) (s : State) : drain (D + 1) s =
    match (stage s).err with
    | some e => ((rleAll s.rle).2.1, e)
    | none =>
      match Impl.chunk (stage s) with
      | .error (e, _) => ((rleAll s.rle).2.1, e)
      | .ok s3 => ((rleAll s.rle).2.1 ++ (drain D { s3 with inOff := Impl.offsetOf s3.total s3.bits }).1,
                   (drain D { s3 with inOff := Impl.offsetOf s3.total s3.bits }).2) := by
  rfl

theorem stage_bits (s : State) : (stage s).bits = s.bits := by
  unfold stage afterRle; simp only []; split <;> rfl

theorem drain_fuel_gen (D1 : Nat) : ∀ (D2 : Nat) (s : State), s.bits.length + 2 ≤ D1 → s.bits.length + 2 ≤ D2 →
    drain D1 s = drain D2 s := by
  induction D1 with
  | zero => intro D2 s h; omega
  | succ D1 ih =>
    intro D2 s h1 h2
    cases D2 with
    | zero => omega
    | succ D2 =>
      rw [drain_succ, drain_succ]
      cases (stage s).err with
      | some e => rfl
      | none =>
        simp only []
        cases hc : Impl.chunk (stage s) with
        | error e => rfl
        | ok s3 =>
          simp only []
          have := (chunk_consumes _ _ hc).1
          rw [stage_bits] at this
          rw [ih D2 { s3 with inOff := Impl.offsetOf s3.total s3.bits } (by simp only []; omega) (by simp only []; omega)]

theorem drain_fuel (s : State) (D : Nat) (h : s.bits.length + 2 ≤ D) : drain D s = beh s :=
  drain_fuel_gen D _ s h (Nat.le_refl _)

end Compress.Proofs.BzImpl.RdAux
