/-
C02 layer (f2): the vocabulary for walking `readCommands` through its steps.

* `After … r`: the goal (the run / the trace the specification's result asks
  for), for the step whose step function returned `r`.
* `After.susp`: a step that suspended with the window flushed is followed by
  handing out the flushed bytes and the next step.
* `Mid`: the relation between the model state inside a step of `readCommands`
  and the specification state.
* `Track`: how the block counts, MLEN and the output evolve within a command.
-/
import Compress.Proofs.BrImplCmdSim

namespace Compress.Proofs.BrImpl
open Compress Compress.Brotli Compress.Brotli.Impl Compress.Window Compress.Proofs.Window
open Compress.Proofs.BrCut (cmdStep DistInv readCommandsAuto cmdContAuto)

/-! ### between two steps -/

/-- the state in which the next step starts: everything pending has been handed out. -/
def resume (s : State) : State :=
  { s with inOff := (s.rd.used + 7) / 8, toRead := [], outOff := s.outOff + s.toRead.length }

theorem drain_fin_ok (s : State) (h : s.err = none) : drain (fin (.ok (), s)) = resume s := by
  rw [fin_ok s h]
  simp only [drain, deliver, resume, List.drop_length, List.take_length]

/-- the goal for the step whose step function returned `r`; `B`: unread bits when the step began,
    `del`: what had been handed out before. -/
def After (sd : ByteArray) (ws : Nat) (res : Except Err Cmd × St) (lst : Bool) (B0 : Nat)
    (B : Nat) (del : List UInt8) (r : Except BErr Unit × State) : Prop :=
  match res with
  | (.ok c', st') =>
    ∃ s1, r = (.ok (), s1) ∧ s1.err = none ∧ s1.toRead ≠ [] ∧ s1.rd.bits.length ≤ B ∧
      ∃ X s', Run sd (fin (.ok (), s1)) X s' ∧
        Rel ws s' st' { d1 := c'.d1, d2 := c'.d2, d3 := c'.d3, d4 := c'.d4 } (del ++ X) ∧
        Zeros s'.dict ∧ s'.step = .blockHeader ∧ s'.last = lst
  | (.error _, st') =>
      (∃ s1, r = (.ok (), s1) ∧ s1.err = none ∧ s1.toRead ≠ [] ∧ s1.rd.bits.length ≤ B ∧
        ∃ X e, Trace sd (fin (.ok (), s1)) X e ∧ e ≠ .eof ∧ del ++ X = st'.out.toList) ∨
      (∃ e1 s1, r = (.error e1, s1) ∧
        ∃ X e, Trace sd (fin (.error e1, s1)) X e ∧ e ≠ .eof ∧ del ++ X = st'.out.toList)

theorem stepOnce_commands (sd : ByteArray) (s : State) (h : s.step = .commands) :
    stepOnce sd s = fin (readCommands sd s) := by
  rw [stepOnce_eq, h]

theorem progress_ok (s s1 : State) (h1 : s1.err = none) (h2 : s1.toRead ≠ [])
    (h3 : s1.rd.bits.length ≤ s.rd.bits.length) : Progress s (fin (.ok (), s1)) := by
  rw [fin_ok s1 h1]
  exact ⟨fun _ => h3, fun h => absurd h h2⟩

/-- a step that ended successfully with `s1` (suspended: `step = commands`): hand out what it flushed,
    then the next step. -/
theorem After.susp {sd : ByteArray} {ws : Nat} {res : Except Err Cmd × St} {lst : Bool} {B0 B : Nat}
    {del : List UInt8} {s1 : State} (h1 : s1.err = none) (h2 : s1.toRead ≠ []) (h3 : s1.step = .commands)
    (h4 : s1.rd.bits.length ≤ B)
    (H : After sd ws res lst B0 s1.rd.bits.length (del ++ s1.toRead) (readCommands sd (resume s1))) :
    After sd ws res lst B0 B del (.ok (), s1) := by
  have hfin : fin (.ok (), s1) = { s1 with inOff := (s1.rd.used + 7) / 8 } := fin_ok s1 h1
  have hT : (fin (.ok (), s1)).toRead = s1.toRead := by rw [hfin]
  have hdr : deliver (fin (.ok (), s1)) (fin (.ok (), s1)).toRead.length = resume s1 := drain_fin_ok s1 h1
  have hr1 : (resume s1).toRead = [] := rfl
  have hr2 : (resume s1).err = none := h1
  have hr3 : (resume s1).step = .commands := h3
  have hso := stepOnce_commands sd (resume s1) hr3
  unfold After at H ⊢
  rcases res with ⟨e | c', st'⟩
  · dsimp only at H ⊢
    rcases H with ⟨s2, e1, e2, e3, e4, X, e, T, he, hX⟩ | ⟨e1, s2, e2, X, e, T, he, hX⟩
    · refine Or.inl ⟨s1, rfl, h1, h2, h4, s1.toRead ++ X, e, ?_, he, by rw [← List.append_assoc]; exact hX⟩
      have T1 : Trace sd (resume s1) X e :=
        Trace.step hr1 hr2 (by rw [hso, e1]; exact progress_ok _ _ e2 e3 e4) (by rw [hso, e1]; exact T)
      have := Trace.out (sd := sd) (s := fin (.ok (), s1)) (X := X) (e := e) (by rw [hT]; exact h2)
        (by rw [hdr]; exact T1)
      rwa [hT] at this
    · refine Or.inl ⟨s1, rfl, h1, h2, h4, s1.toRead ++ X, e, ?_, he, by rw [← List.append_assoc]; exact hX⟩
      have T1 : Trace sd (resume s1) X e :=
        Trace.step hr1 hr2 (by rw [hso, e2]; exact progress_error _ _ _) (by rw [hso, e2]; exact T)
      have := Trace.out (sd := sd) (s := fin (.ok (), s1)) (X := X) (e := e) (by rw [hT]; exact h2)
        (by rw [hdr]; exact T1)
      rwa [hT] at this
  · dsimp only at H ⊢
    obtain ⟨s2, e1, e2, e3, e4, X, s', R, hRel, hz, hst, hl⟩ := H
    refine ⟨s1, rfl, h1, h2, h4, s1.toRead ++ X, s', ?_, by rw [← List.append_assoc]; exact hRel, hz, hst, hl⟩
    have R1 : Run sd (resume s1) X s' :=
      Run.step hr1 hr2 (by rw [hso, e1]; exact progress_ok _ _ e2 e3 e4) (by rw [hso, e1]; exact R)
    have := Run.out (sd := sd) (s := fin (.ok (), s1)) (X := X) (s' := s') (by rw [hT]; exact h2)
      (by rw [hdr]; exact R1)
    rwa [hT] at this

/-- a step that fails, when the specification's result is a failure with the same output. -/
theorem After.fail {sd : ByteArray} {ws : Nat} {res : Except Err Cmd × St} {lst : Bool} {B0 B : Nat}
    {del : List UInt8} {e1 : BErr} {s1 : State} {e' : Err} {st' : St} (hres : res = (.error e', st'))
    (he : e1 ≠ .eof) (hw : Inv ws s1.dict st'.out.toList del) :
    After sd ws res lst B0 B del (.error e1, s1) := by
  subst hres
  unfold After
  dsimp only
  obtain ⟨X, T, hX⟩ := trace_error sd e1 s1 ws _ del hw
  exact Or.inr ⟨e1, s1, rfl, X, e1, T, he, hX⟩

/-! ### inside a step -/

/-- model state inside a step of `readCommands` against the specification state. -/
structure Mid (ws : Nat) (h : Header) (lst : Bool) (s : State) (st : St) (c : Cmd) (del : List UInt8) : Prop where
  toRead : s.toRead = []
  err : s.err = none
  rd : s.rd = brOf st
  win : Inv ws s.dict st.out.toList del
  zeros : Zeros s.dict
  avail : s.dict.wrPos = s.dict.hist.size → s.dict.rdPos < s.dict.wrPos
  cr : CmdRel s h c
  dpos : 0 < c.d1 ∧ 0 < c.d2 ∧ 0 < c.d3 ∧ 0 < c.d4
  aligned : (st.used + st.bits.length) % 8 = 0
  mtf : MtfOK s.mtf
  last : s.last = lst

theorem HdrOK.transfer {s s' : State} {h : Header} {a b c : Nat} (hc : HdrOK s h a b c)
    (e1 : s'.npostfix = s.npostfix) (e2 : s'.ndirect = s.ndirect) (e3 : s'.cmodes = s.cmodes)
    (e4 : s'.litMap = s.litMap) (e5 : s'.distMap = s.distMap)
    (e6 : s'.litBlk.prefixes = s.litBlk.prefixes) (e7 : s'.iacBlk.prefixes = s.iacBlk.prefixes)
    (e8 : s'.distBlk.prefixes = s.distBlk.prefixes) : HdrOK s' h a b c := by
  obtain ⟨h1, h2, h3, h4, h5, h6, h7, h8⟩ := hc
  exact ⟨by rw [e1]; exact h1, by rw [e2]; exact h2, by rw [e3]; exact h3, by rw [e4]; exact h4,
    by rw [e5]; exact h5, by rw [e6]; exact h6, by rw [e7]; exact h7, by rw [e8]; exact h8⟩

/-- nothing `CmdRel` looks at has changed. -/
theorem CmdRel.transfer {s s' : State} {h : Header} {c : Cmd} (hc : CmdRel s h c)
    (e1 : s'.npostfix = s.npostfix) (e2 : s'.ndirect = s.ndirect) (e3 : s'.cmodes = s.cmodes)
    (e4 : s'.litMap = s.litMap) (e5 : s'.distMap = s.distMap)
    (e6 : s'.litBlk = s.litBlk) (e7 : s'.iacBlk = s.iacBlk) (e8 : s'.distBlk = s.distBlk)
    (e9 : s'.litMapOff = s.litMapOff) (e10 : s'.cmode = s.cmode) (e11 : s'.distMapOff = s.distMapOff)
    (e12 : s'.dists0 = s.dists0) (e13 : s'.dists1 = s.dists1) (e14 : s'.dists2 = s.dists2)
    (e15 : s'.dists3 = s.dists3) : CmdRel s' h c := by
  obtain ⟨h1, h2, h3, h4, h5, h6, h7, h8⟩ := hc
  exact ⟨h1.transfer e1 e2 e3 e4 e5 (by rw [e6]) (by rw [e7]) (by rw [e8]), by rw [e6]; exact h2,
    by rw [e7]; exact h3, by rw [e8]; exact h4, by rw [e9]; exact h5, by rw [e10]; exact h6,
    by rw [e11]; exact h7, by rw [e12, e13, e14, e15]; exact h8⟩

/-- a step boundary inside `readCommands`: the window flushed, the flushed bytes handed out. -/
theorem Mid.resume {ws : Nat} {h : Header} {lst : Bool} {s : State} {st : St} {c : Cmd} {del : List UInt8}
    (m : Mid ws h lst s st c del) (x : Sub) :
    Mid ws h lst (resume (susp x s)) st c (del ++ s.dict.readFlush.2) := by
  obtain ⟨i1, i2, i3⟩ := m.win.readFlush
  exact ⟨rfl, m.err, m.rd, i1, m.zeros.readFlush, fun hh => absurd hh (Nat.ne_of_lt i2),
    m.cr.transfer rfl rfl rfl rfl rfl rfl rfl rfl rfl rfl rfl rfl rfl rfl rfl, m.dpos, m.aligned, m.mtf, m.last⟩

/-- the flush of a full window with unflushed bytes is not empty. -/
theorem readFlush_ne_nil {ws : Nat} {d : Dict} {out del : List UInt8} (I : Inv ws d out del)
    (h : d.rdPos < d.wrPos) : d.readFlush.2 ≠ [] := by
  rw [readFlush_snd]
  intro h0
  have := congrArg List.length h0
  have hw := I.wr_le
  simp at this
  omega

/-! ### counts, MLEN and output within a command -/

/-- from the start `(c0, st0)` of a command to a point `(c, st)` inside it, `M` = Go's `blkLen`. -/
structure Track (c0 : Cmd) (st0 : St) (c : Cmd) (st : St) (M : Int) : Prop where
  len_le : st.bits.length ≤ st0.bits.length
  size_le : st0.out.size ≤ st.out.size
  kI : c.cmdB.ntypes = c0.cmdB.ntypes ∧ (c0.cmdB.ntypes < 2 → c0.cmdB.count ≤ c.cmdB.count + 1)
  kD : c.distB.ntypes = c0.distB.ntypes ∧ (c0.distB.ntypes < 2 → c0.distB.count ≤ c.distB.count + 1)
  kL : c.litB.ntypes = c0.litB.ntypes ∧
    (c0.litB.ntypes < 2 → c0.litB.count + st0.out.size ≤ c.litB.count + st.out.size)
  kM : M + st.out.size = c0.mlen + st0.out.size

theorem Track.refl (c : Cmd) (st : St) : Track c st c st c.mlen :=
  ⟨Nat.le_refl _, Nat.le_refl _, ⟨rfl, fun _ => Nat.le_succ _⟩, ⟨rfl, fun _ => Nat.le_succ _⟩,
    ⟨rfl, fun _ => Nat.le_refl _⟩, rfl⟩

end Compress.Proofs.BrImpl
