import Compress.Proofs.BzImplTabDExploreA

namespace Compress.Proofs.BzImpl.TabD
open Compress Compress.Bzip2 Compress.Prefix
open Compress.Bzip2.Impl (GStatus Explored)

structure ExOK (t : CTab) (ex : Explored) : Prop where
  size : ex.valid.size = 258
  idx : ∀ (i : Nat) a, ex.valid[i]? = some a → 0 < a.len → a.sym = i
  leaf : ∀ a, Mem ex a → LeafOK t a
  inc : ∀ a b, Mem ex a → Mem ex b → a ≠ b → ¬ a.word <+: b.word

structure Post (t : CTab) (w : Bits) (ex : Explored) (r : Bool × Explored) : Prop where
  ok : ExOK t r.2
  mono : ∀ a, Mem ex a → Mem r.2 a
  new : ∀ a, Mem r.2 a → Mem ex a ∨ w <+: a.word
  no : r.1 = false → r.2 = ex ∧ ∀ x, St t (w ++ x) = .needBits ∨ St t (w ++ x) = .maxBits
  yes : r.1 = true → w.length ≤ t.maxLen ∧
    ∀ x, t.maxLen + 1 ≤ (w ++ x).length → ∃ a, Mem r.2 a ∧ a.word <+: w ++ x

theorem add_ok {t : CTab} {ex ex' : Explored} {f : Code} (hex : ExOK t ex)
    (hsize : ex'.valid.size = 258)
    (hidx : ∀ (i : Nat) a, ex'.valid[i]? = some a → 0 < a.len → a.sym = i)
    (hmem : ∀ a, Mem ex' a → Mem ex a ∨ a = f) (hf : LeafOK t f)
    (hincf : ∀ a, Mem ex a → ¬ a.word <+: f.word ∧ ¬ f.word <+: a.word) : ExOK t ex' := by
  refine ⟨hsize, hidx, ?_, ?_⟩
  · intro a ha
    rcases hmem a ha with h1 | h1
    · exact hex.leaf a h1
    · subst h1; exact hf
  · intro a b ha hb hab
    rcases hmem a ha with h1 | h1 <;> rcases hmem b hb with h2 | h2
    · exact hex.inc a b h1 h2 hab
    · subst h2; exact (hincf a h1).1
    · subst h1; exact (hincf b h2).2
    · subst h1; subst h2; exact absurd rfl hab

theorem explore_okay {t : CTab} {n : Nat} (h : StOK t n) (c : Code) (ex : Explored) (s : Nat)
    (hv : c.val < 2 ^ c.len)
    (hpar : ∀ q x, c.word = q ++ x → x ≠ [] → St t q = .needBits)
    (hex : ExOK t ex)
    (hinc : ∀ a, Mem ex a → ¬ a.word <+: c.word ∧ ¬ c.word <+: a.word)
    (hs : St t c.word = .okay s) :
    Post t c.word ex (true, { ex with valid := ex.valid.set! s { c with sym := s } }) := by
  have hsl : s < 258 := Nat.lt_of_lt_of_le (h.sym_lt _ _ hs) h.n_le
  have hlen1 : 1 ≤ c.len := by
    apply Nat.pos_of_ne_zero
    intro h0
    have : c.word = [] := by simp [Code.word, h0, Bits.ofNat]
    rw [this, St_nil h] at hs
    cases hs
  have hlenle : c.len ≤ t.maxLen := by
    apply Nat.le_of_not_lt
    intro hlt
    have h1 := h.okay_len _ _ hs
    have h2 := hpar (c.word.take t.maxLen) (c.word.drop t.maxLen) (List.take_append_drop _ _).symm
      (by
        intro h3
        have := congrArg List.length h3
        simp only [List.length_drop, word_len, List.length_nil] at this
        omega)
    rw [h2] at h1
    cases h1
  have hleaf : LeafOK t { c with sym := s } := ⟨hv, hlen1, hlenle, hpar, Or.inl hs⟩
  have hno : ∀ a, ex.valid[s]? = some a → ¬ 0 < a.len := by
    intro a ha hpos
    have hsym := hex.idx s a ha hpos
    have hm : Mem ex a := ⟨hpos, Or.inl ((mem_valid_iff _ _).2 ⟨s, ha⟩)⟩
    have hl := hex.leaf a hm
    rcases hl.kind with hk | ⟨hk, _⟩
    · rw [hsym] at hk
      obtain ⟨p, hp1, ⟨y, hy⟩, hp3⟩ := h.inj _ _ _ hk hs
      by_cases hy0 : y = []
      · subst hy0
        rw [List.append_nil] at hy
        subst hy
        exact (hinc a hm).2 hp1
      · have := hpar p y hy.symm hy0
        rw [this] at hp3
        cases hp3
    · omega
  rw [Array.set!_eq_setIfInBounds]
  have hmem' : ∀ a, Mem { ex with valid := ex.valid.setIfInBounds s { c with sym := s } } a →
      Mem ex a ∨ a = { c with sym := s } := by
    rintro a ⟨h0, h1 | h1⟩
    · rcases (mem_set_iff _ _ _ _).1 h1 with ⟨_, h2⟩ | ⟨i, _, h2⟩
      · exact Or.inr h2
      · exact Or.inl ⟨h0, Or.inl ((mem_valid_iff _ _).2 ⟨i, h2⟩)⟩
    · exact Or.inl ⟨h0, Or.inr h1⟩
  have hmono : ∀ a, Mem ex a →
      Mem { ex with valid := ex.valid.setIfInBounds s { c with sym := s } } a := by
    rintro a ⟨h0, h1 | h1⟩
    · obtain ⟨i, hi⟩ := (mem_valid_iff _ _).1 h1
      by_cases his : i = s
      · subst his
        exact absurd h0 (hno a hi)
      · exact ⟨h0, Or.inl ((mem_set_iff _ _ _ _).2 (Or.inr ⟨i, his, hi⟩))⟩
    · exact ⟨h0, Or.inr h1⟩
  have hmemc : Mem { ex with valid := ex.valid.setIfInBounds s { c with sym := s } }
      { c with sym := s } :=
    ⟨hlen1, Or.inl ((mem_set_iff _ _ _ _).2 (Or.inl ⟨by rw [hex.size]; exact hsl, rfl⟩))⟩
  have hok : ExOK t { ex with valid := ex.valid.setIfInBounds s { c with sym := s } } := by
    refine add_ok hex ?_ ?_ hmem' hleaf hinc
    · simp only [Array.size_setIfInBounds]; exact hex.size
    · intro i a hi hpos
      simp only [Array.getElem?_setIfInBounds] at hi
      by_cases his : s = i
      · rw [if_pos his] at hi
        split at hi
        · cases hi; exact his
        · cases hi
      · rw [if_neg his] at hi
        exact hex.idx i a hi hpos
  refine ⟨hok, hmono, ?_, ?_, ?_⟩
  · intro a ha
    rcases hmem' a ha with h1 | h1
    · exact Or.inl h1
    · subst h1; exact Or.inr (List.prefix_refl _)
  · intro h1; cases h1
  · intro _
    refine ⟨by rw [word_len]; exact hlenle, fun x _ => ⟨_, hmemc, ?_⟩⟩
    exact List.prefix_append _ _

end Compress.Proofs.BzImpl.TabD
