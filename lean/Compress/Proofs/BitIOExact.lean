/-
C11 — the bit reader of internal/prefix takes no more input than it needs and
its counters are exact.  Statements first; helper lemmas in
`Compress/Proofs/BitIOEx*.lean`.
-/
import Compress.Prefix.BitSpec
import Compress.Proofs.BitIO
import Compress.Proofs.PrefixTables
import Compress.Proofs.BitIOExScript

namespace Compress.Proofs.BitIOExact
open Compress Compress.Prefix Compress.Proofs.PrefixTables Compress.Proofs.BitIO

/-- run `ReadBits(n)` for each `n`, stopping at the first error; the final state. -/
def readScriptSt : BR → List Nat → BR
  | r, [] => r
  | r, n :: ns =>
    match r.readBits n with
    | (r', .error _) => r'
    | (r', .ok _) => readScriptSt r' ns

/-- bytes taken from the source so far. -/
def taken (data : List UInt8) (r : BR) : Nat := data.length - r.src.data.length

/-- the strengthened invariant (`CI`, BitIOExScript.lean) along a script that the data can satisfy. -/
theorem readScriptSt_ci (D : List UInt8) : ∀ (ns : List Nat) (r : BR) (P : Nat), CI D P r →
    (∀ n ∈ ns, n ≤ 56) → P + ns.sum ≤ 8 * D.length → CI D (P + ns.sum) (readScriptSt r ns)
  | [], r, P, h, _, _ => by simpa [readScriptSt] using h
  | n :: ns, r, P, h, hn, hfit => by
    rw [List.sum_cons] at hfit
    obtain ⟨r', v, e, h'⟩ := ci_readBits D P r n h (hn n (by simp)) (by omega)
    rw [readScriptSt, e, List.sum_cons, ← Nat.add_assoc]
    exact readScriptSt_ci D ns r' (P + n) h' (fun m hm => hn m (by simp [hm])) (by omega)

/-- **Counters after every call.** For every source shape, after any script of `ReadBits` calls
    that the data can satisfy: `BitsRead` is exactly the number of bits handed out, the byte
    offset equals the bytes taken from the source (so `InputOffset` never exceeds them), and the
    source has given up no more than the bytes that hold those bits — plus, for a Peek-capable
    source, nothing at all beyond what `Discard` was told (peeking does not consume). -/
theorem counters_exact (data : List UInt8) (big buffered : Bool) (adv : List Nat) (ns : List Nat)
    (hn : ∀ n ∈ ns, n ≤ 56) (hfit : ns.sum ≤ 8 * data.length) :
    let r := readScriptSt (BR.init { data := data, bufAdv := adv, buffered? := buffered } big) ns
    r.bitsRead = (ns.sum : Int) ∧ r.offset = (taken data r : Int) ∧
    r.src.data = data.drop (taken data r) ∧ 8 * taken data r ≤ ns.sum + 7 := by
  have h := readScriptSt_ci data ns _ 0 (ci_init data big buffered adv) hn (by omega)
  rw [Nat.zero_add] at h
  exact ci_counters data ns.sum _ h

/-- **Exact consumption at the end of a stream.** After the script, `ReadPads` and `Flush` (what
    every decoder does when its stream ends), the source has lost exactly the bytes that hold the
    bits read, rounded up to a byte: whatever follows the stream is still unread. -/
theorem exact_consumption (data : List UInt8) (big buffered : Bool) (adv : List Nat) (ns : List Nat)
    (hn : ∀ n ∈ ns, n ≤ 56) (hfit : ns.sum ≤ 8 * data.length) :
    let r := readScriptSt (BR.init { data := data, bufAdv := adv, buffered? := buffered } big) ns
    let r2 := (r.readPads.1).flush
    r2.2 = none ∧ r2.1.src.data = data.drop ((ns.sum + 7) / 8) ∧
    r2.1.offset = (((ns.sum + 7) / 8 : Nat) : Int) ∧ r2.1.bitsRead = ((8 * ((ns.sum + 7) / 8) : Nat) : Int) := by
  have h := readScriptSt_ci data ns _ 0 (ci_init data big buffered adv) hn (by omega)
  rw [Nat.zero_add] at h
  exact ci_finish data ns.sum _ h hfit

-- STATEMENT ADJUSTED: added `hnd : cs.Nodup`.  `GoodCodes` (prefix-free on *distinct* entries, Kraft
-- equality on the list of lengths) allows a list that repeats a code, and then the Kraft sum counts the
-- repeated word twice and the table has a hole.  Counterexample to the statement without `hnd`
-- (`#eval`-checked against the model):
--   cs = [⟨sym 0, len 1, val 0⟩, ⟨sym 1, len 2, val 3⟩, ⟨sym 1, len 2, val 3⟩]   (GoodCodes cs, Canonical cs),
--   c = ⟨sym 1, len 2, val 3⟩, r = { bufBits := 1, numBits := 1, src := { data := [1], buffered? := false } }
--   (stream [1,1,0,0,0,0,0,0,0] = c.word ++ 0^7):  the look-ahead bit `1` zero-extends to `10`, which no
--   code covers, the table entry is 0 = (sym 0, len 0), and `readSymbol` returns `.ok 0` having consumed
--   nothing, instead of `.ok 1`.  With distinct entries Kraft equality + prefix-freeness make the table
--   total (`cover`, BitIOExCover.lean) and the statement holds as written; `Canonical cs` as defined in
--   Spec.lean (shorter codes numerically first when left-aligned) is exactly what `zeroExt_len` needs.
/-- **ReadSymbol does not over-read a ReadByte-only source.**  `ReadSymbol` first pulls the
    table's minimum length, looks the zero-extended bits up and pulls the length that lookup
    suggests.  For a canonical complete code this never asks for more than the true length of the
    next code word: from a state holding fewer than 8 look-ahead bits, on a stream that continues
    with the word of `c`, it returns `c.sym`, consumes exactly `c.len` bits, and again holds fewer
    than 8 look-ahead bits — so the bytes taken from the source are exactly those holding the bits
    read, even when nothing follows the code word. -/
theorem readSymbol_no_overread (cs : List Code) (h : GoodCodes cs) (hnd : cs.Nodup) (hcan : Canonical cs) (c : Code) (hc : c ∈ cs)
    (r : BR) (hmode : r.src.buffered? = false) (hnofault : r.src.failAfter = none)
    (hbuf : r.numBits < 8) (hbb : r.bufBits < 2 ^ r.numBits) (rest : Bits)
    (hstream : Bits.ofNat r.bufBits r.numBits ++ streamBits r.bigEndian r.src.data = c.word ++ rest) :
    let res := r.readSymbol (Decoder.init cs)
    res.2 = .ok c.sym ∧ res.1.numBits < 8 ∧
    Bits.ofNat res.1.bufBits res.1.numBits ++ streamBits res.1.bigEndian res.1.src.data = rest := by
  have hI : ByteInv r := ⟨hmode, hnofault, by omega, hbb⟩
  have hc27 : c.len ≤ 27 := (h.lens c hc).2
  have hwl : c.word.length = c.len := ofNat_length _ _
  have hV : absVal r % 2 ^ c.len = c.val := by
    rw [absVal_eq_toNat r hbb, hstream, Code.word, toNat_ofNat_append, Nat.add_mul_mod_self_left,
      Nat.mod_mod, Nat.mod_eq_of_lt (h.vals c hc)]
  have hL : absLen r = c.len + rest.length := by
    rw [absLen_eq_length, hstream, List.length_append, hwl]
  have hmin : (Decoder.init cs).minBits ≤ c.len := by
    obtain ⟨_, _, _, _, _, _, _, hmb⟩ := init_fields cs h.two
    rw [hmb]; exact minLen_le cs c hc
  obtain ⟨r1, g1, g2, g3, g4, g5, g6⟩ := go_spec cs h hnd hcan c hc (absVal r) (absLen r) hV (by omega)
    40 (Decoder.init cs).minBits r hI rfl rfl hmin (by omega) (by omega)
  simp only [BR.readSymbol, if_neg (chunks_size_ne cs h), g1]
  refine ⟨trivial, g5, ?_⟩
  apply bits_eq_of_toNat
  · rw [← absLen_eq_length, g4, hL]; omega
  · rw [← absVal_eq_toNat r1 g2.lt, g3, absVal_eq_toNat r hbb, hstream]
    have := (toNat_take_drop (c.word ++ rest) c.len (by rw [List.length_append, hwl]; omega)).2
    rw [← this, ← hwl, List.drop_left]

end Compress.Proofs.BitIOExact

