/-
C02 refinement, block layer: the range tables, the insert-and-copy table, the
block-type header and block switch, the distance codes and the static
dictionary word of the model (Brotli/Impl.lean) against RFC 7932 (Brotli/Spec.lean).
Auxiliary lemmas live in the namespace `Blk`.
-/
import Compress.Proofs.BrImplDefs
import Compress.Proofs.BrImplPrims

namespace Compress.Proofs.BrImpl
open Compress Compress.Brotli

/-! ### 1. range tables -/

theorem blkLenRanges_eq : Impl.blkLenRanges = blockCountRanges := rfl

/-- `ReadOffset(sym, rcs)` = "base plus extra bits" of the row `sym`. -/
theorem readOffset_sim (tbl : Array Range) (sym : Nat) (h : sym < tbl.size) :
    Sim (Impl.readOffset sym tbl) (Brotli.readRange tbl sym) := by
  unfold Impl.readOffset Brotli.readRange
  rw [Array.getElem?_eq_getElem h]
  exact SimRel.bind (readBits_sim _) fun a b hab => SimRel.pure (by rw [hab])

/-! ### 2. the insert-and-copy table -/

namespace Blk

theorem getD_map_range {α : Type} (f : Nat → α) (n i : Nat) (d : α) (h : i < n) :
    ((List.range n).map f).toArray.getD i d = f i := by
  simp [Array.getD, h]

/-- one cell of 64 insert-and-copy symbols: Go's `switch iacSym >> 6` = the table of section 5. -/
theorem iacCell (q a b : Nat) : q < 11 →
    (let (insSym, cpySym) : Nat × Nat :=
      match q with
      | 0 | 2 => (0, 0)
      | 1 | 3 => (0, 8)
      | 4 => (8, 0)
      | 5 => (8, 8)
      | 6 => (0, 16)
      | 7 => (16, 0)
      | 8 => (8, 16)
      | 9 => (16, 8)
      | _ => (16, 16)
     (Impl.insLenRanges.getD (insSym + a) default, Impl.cpyLenRanges.getD (cpySym + b) default)) =
    (let (insBase, copyBase, _) := commandCells.getD q default
     (insertRanges.getD (insBase + a) default, copyRanges.getD (copyBase + b) default)) := by
  intro hq
  have : q = 0 ∨ q = 1 ∨ q = 2 ∨ q = 3 ∨ q = 4 ∨ q = 5 ∨ q = 6 ∨ q = 7 ∨ q = 8 ∨ q = 9 ∨ q = 10 := by omega
  rcases this with rfl | rfl | rfl | rfl | rfl | rfl | rfl | rfl | rfl | rfl | rfl <;> rfl

end Blk
open Blk

/-- `iacLUT[sym]` = the rows of the insert and copy length tables section 5 assigns to `sym`. -/
theorem iacLUT_eq (sym : Nat) (h : sym < 704) :
    Impl.iacLUT.getD sym default =
      (let (insBase, copyBase, _) := commandCells.getD (sym / 64) default
       (insertRanges.getD (insBase + sym % 64 / 8) default, copyRanges.getD (copyBase + sym % 8) default)) := by
  unfold Impl.iacLUT
  rw [getD_map_range _ _ _ _ h]
  have h8 : sym % 64 % 8 = sym % 8 := by omega
  have := iacCell (sym / 64) (sym % 64 / 8) (sym % 8) (by omega)
  rw [← h8] at this ⊢
  exact this

/-- the specification's `implicitZero` flag is Go's `distZero = iacSym < 128`. -/
theorem iacZero_eq (sym : Nat) (h : sym < 704) :
    (commandCells.getD (sym / 64) default).2.2 = decide (sym < 128) := by
  have hc : ∀ q, q < 11 → (commandCells.getD q default).2.2 = decide (q < 2) := by decide
  rw [hc _ (by omega), decide_eq_decide]
  omega

/-! ### 6. the static dictionary word -/

namespace Blk

theorem nwords_eq (len : Nat) (h1 : 4 ≤ len) (h2 : len ≤ 24) : nwords len = 2 ^ ndbits.getD len 0 := by
  unfold nwords minDictWordLen maxDictWordLen
  rw [if_neg (by omega)]

theorem doffset_succ_le : ∀ len, len ≤ 24 → doffset (len + 1) ≤ 122784 := by decide

end Blk

/-- `copyStaticDict`: the word Go transforms = the word of section 8, and both refuse alike. -/
theorem staticWord_eq (sd : ByteArray) (hsd : sd.size = 122784) (cpyLen wordIdx : Nat) :
    (match Impl.staticWord sd cpyLen wordIdx with
     | .ok w => Brotli.dictionaryWord sd cpyLen wordIdx = some w
     | .error e => e = .corrupted ∧ Brotli.dictionaryWord sd cpyLen wordIdx = none) := by
  unfold Impl.staticWord Brotli.dictionaryWord
  by_cases hl : cpyLen < minDictWordLen ∨ cpyLen > maxDictWordLen
  · rw [if_pos hl, if_pos hl]; exact ⟨rfl, rfl⟩
  · rw [if_neg hl, if_neg hl]
    have h1 : 4 ≤ cpyLen ∧ cpyLen ≤ 24 := by
      unfold minDictWordLen maxDictWordLen at hl; omega
    have hn := nwords_eq cpyLen h1.1 h1.2
    have hidx : wordIdx >>> ndbits.getD cpyLen 0 = wordIdx / nwords cpyLen := by
      rw [hn, Nat.shiftRight_eq_div_pow]
    have hpos : 0 < nwords cpyLen := by rw [hn]; exact Nat.pow_pos (by decide)
    have hoff : ¬ (doffset cpyLen + wordIdx % nwords cpyLen * cpyLen + cpyLen > sd.size) := by
      have h3 := doffset_succ_le cpyLen h1.2
      have h4 : wordIdx % nwords cpyLen < nwords cpyLen := Nat.mod_lt _ hpos
      have h5 : (wordIdx % nwords cpyLen + 1) * cpyLen ≤ nwords cpyLen * cpyLen :=
        Nat.mul_le_mul_right _ h4
      rw [Nat.add_mul, Nat.one_mul] at h5
      have h6 : doffset (cpyLen + 1) = doffset cpyLen + cpyLen * nwords cpyLen := rfl
      rw [Nat.mul_comm cpyLen] at h6
      omega
    simp only [hidx]
    rcases ht : transforms[wordIdx / nwords cpyLen]? with _ | t
    · exact ⟨rfl, rfl⟩
    · simp only [if_neg hoff]

/-! ### 5. distances -/

namespace Blk

theorem distShortLUT_eq : Impl.distShortLUT =
    #[(0, 0), (1, 0), (2, 0), (3, 0), (0, -1), (0, 1), (0, -2), (0, 2), (0, -3), (0, 3),
      (1, -1), (1, 1), (1, -2), (1, 2), (1, -3), (1, 3)] := by decide

theorem distLongLUTs_getD (p : Nat) (hp : p ≤ 3) : Impl.distLongLUTs.getD p #[] = Impl.distLongLUT p := by
  have : p = 0 ∨ p = 1 ∨ p = 2 ∨ p = 3 := by omega
  rcases this with rfl | rfl | rfl | rfl <;> rfl

theorem readDistance_long (h : Header) (c : Cmd) (sym : Nat) (h16 : 16 ≤ sym) :
    Brotli.readDistance h c sym =
      if sym < 16 + h.ndirect then pure (some (sym - 15))
      else
        let x := sym - h.ndirect - 16
        let ndistbits := 1 + (x >>> (h.npostfix + 1))
        let hcode := x >>> h.npostfix
        let lcode := x % 2 ^ h.npostfix
        let offset := ((2 + hcode % 2) <<< ndistbits) - 4
        (do
          let dextra ← Brotli.readBits ndistbits
          pure (some (((offset + dextra) <<< h.npostfix) + lcode + h.ndirect + 1))) := by
  obtain ⟨k, rfl⟩ : ∃ k, sym = k + 16 := ⟨sym - 16, by omega⟩
  rfl

end Blk

/-- the `distSym < 16` / direct / long-code cases of `readDistance` = section 4.  The last four
    distances must be positive (they always are: 4, 11, 15, 16 at the start, and only positive
    distances enter the ring); see `decodeDistance_sim_needs_pos`. -/
theorem decodeDistance_sim (s : Impl.State) (h : Header) (c : Cmd) (sym : Nat)
    (hnp : s.npostfix = h.npostfix) (hnd : s.ndirect = h.ndirect) (hp : h.npostfix ≤ 3)
    (h0 : s.dists0 = c.d1) (h1 : s.dists1 = c.d2) (h2 : s.dists2 = c.d3) (h3 : s.dists3 = c.d4)
    (hd1 : 0 < c.d1) (hd2 : 0 < c.d2) (hd3 : 0 < c.d3) (hd4 : 0 < c.d4)
    (hsym : sym < 16 + h.ndirect + (48 <<< h.npostfix)) :
    SimRel (fun (a : Int) (b : Option Nat) => (a ≤ 0 ∧ b = none) ∨ (0 < a ∧ b = some a.toNat))
      (Impl.decodeDistance s sym) (Brotli.readDistance h c sym) := by
  unfold Impl.decodeDistance
  by_cases h16 : sym < 16
  · rw [if_pos h16, distShortLUT_eq, h0, h1, h2, h3]
    have : sym = 0 ∨ sym = 1 ∨ sym = 2 ∨ sym = 3 ∨ sym = 4 ∨ sym = 5 ∨ sym = 6 ∨ sym = 7 ∨ sym = 8 ∨
      sym = 9 ∨ sym = 10 ∨ sym = 11 ∨ sym = 12 ∨ sym = 13 ∨ sym = 14 ∨ sym = 15 := by omega
    rcases this with rfl | rfl | rfl | rfl | rfl | rfl | rfl | rfl | rfl | rfl | rfl | rfl | rfl | rfl | rfl | rfl <;>
      refine SimRel.pure ?_ <;> simp <;> omega
  · rw [if_neg h16, readDistance_long h c sym (by omega), hnd, hnp]
    refine SimRel.ite (fun hdir => SimRel.pure ?_) (fun hdir => ?_)
    · right
      refine ⟨by omega, ?_⟩
      simp
    · rw [distLongLUTs_getD _ hp]
      have hx : sym - (16 + h.ndirect) < 48 <<< h.npostfix := by omega
      have hx' : sym - h.ndirect - 16 = sym - (16 + h.ndirect) := by omega
      unfold Impl.distLongLUT
      rw [getD_map_range _ _ _ _ hx]
      simp only [hx']
      refine SimRel.bind (readBits_sim _) fun a b hab => SimRel.pure ?_
      subst hab
      right
      refine ⟨Int.natCast_pos.mpr (Nat.add_pos_left (Nat.add_pos_right _ (Nat.succ_pos _)) _), ?_⟩
      simp only [Int.toNat_natCast, Nat.shiftLeft_eq, Nat.add_mul]
      congr 1
      omega

/-- Without `0 < c.d1` (…`c.d4`) the statement is false: with `dists[0] = d1 = 0`, distance symbol 0
    gives `0` in the model (Go panics with errCorrupted) and `some 0` in the specification. -/
theorem decodeDistance_sim_needs_pos :
    ¬ ∀ (s : Impl.State) (h : Header) (c : Cmd) (sym : Nat), s.npostfix = h.npostfix →
      s.ndirect = h.ndirect → h.npostfix ≤ 3 → s.dists0 = c.d1 → s.dists1 = c.d2 → s.dists2 = c.d3 →
      s.dists3 = c.d4 → sym < 16 + h.ndirect + (48 <<< h.npostfix) →
      SimRel (fun (a : Int) (b : Option Nat) => (a ≤ 0 ∧ b = none) ∨ (0 < a ∧ b = some a.toNat))
        (Impl.decodeDistance s sym) (Brotli.readDistance h c sym) := by
  intro H
  have := H { (Impl.init []) with dists0 := 0 }
    { npostfix := 0, ndirect := 0, cmodes := #[], cmapL := #[], cmapD := #[], treesL := #[], treesI := #[],
      treesD := #[] }
    { mlen := 0, litB := default, cmdB := default, distB := default, d1 := 0, d2 := 11, d3 := 15, d4 := 16 }
    0 rfl rfl (by decide) rfl rfl rfl rfl (by decide) ⟨[], 0, #[]⟩
  obtain ⟨k, _, _, _, hR⟩ := this
  rcases hR with ⟨_, h⟩ | ⟨h, _⟩
  · cases h
  · exact absurd h (by decide)

/-! ### 3./4. block types -/

namespace Blk

/-- a property of every value the specification side yields may be added to the relation. -/
theorem SimRel.strengthen {α β : Type} {R : α → β → Prop} {P : β → Prop} {x : Impl.M α} {y : Dec β}
    (h : SimRel R x y) (hP : ∀ (st st' : St) (b : β), y st = (.ok b, st') → P b) :
    SimRel (fun a b => R a b ∧ P b) x y := by
  intro st
  have h0 := h st
  have hP0 := hP st
  unfold SimAt at h0 ⊢
  rcases hx : x (brOf st) with ⟨_ | a, r⟩ <;> rcases hy : y st with ⟨_ | b, st'⟩ <;>
    rw [hx, hy] at h0 <;> simp only at h0 ⊢
  · exact h0
  · obtain ⟨k, h1, h2, h3, h4⟩ := h0
    exact ⟨k, h1, h2, h3, h4, hP0 st' b hy⟩

/-- reading a symbol of a code over `n` symbols: same symbol, and it is below `n`. -/
theorem codeRel_sim {n : Nat} {d : Prefix.Decoder} {c : PrefixCode} (h : CodeRel n d c) :
    SimRel (fun a b => a = b ∧ b < n) (Impl.readSymbol d) (Brotli.readSymbol c) :=
  SimRel.strengthen h.1 h.2

theorem specReadBits_lt (n : Nat) (st st' : St) (v : Nat) (h : Brotli.readBits n st = (.ok v, st')) :
    v < 2 ^ n := by
  by_cases hn : n ≤ st.bits.length
  · rw [(specReadBits_eq n st).1 hn] at h
    injection h with h1 _
    injection h1 with h1
    subst h1
    have := PrefixCodes.toNat_lt (st.bits.take n)
    rw [List.length_take, Nat.min_eq_left hn] at this
    exact this
  · obtain ⟨s, h1, _⟩ := (specReadBits_eq n st).2 (by omega)
    rw [h1] at h
    injection h with h1 _
    cases h1

theorem readCount256_eq (st : St) :
    Brotli.readCount256 st =
      match Brotli.readBit st with
      | (.ok false, s1) => (.ok 1, s1)
      | (.ok true, s1) =>
        (match Brotli.readBits 3 s1 with
         | (.ok k, s2) =>
           (match Brotli.readBits k s2 with
            | (.ok x, s3) => (.ok (2 ^ k + x + 1), s3)
            | (.error e, s3) => (.error e, s3))
         | (.error e, s2) => (.error e, s2))
      | (.error e, s1) => (.error e, s1) := by
  simp only [Brotli.readCount256, bind, Dec.bind]
  rcases Brotli.readBit st with ⟨e | b, s1⟩
  · rfl
  · cases b
    · rfl
    · dsimp only
      rw [if_neg (by decide)]
      simp only [Dec.bind]
      rcases Brotli.readBits 3 s1 with ⟨e | k, s2⟩
      · rfl
      · dsimp only
        rcases Brotli.readBits k s2 with ⟨e | x, s3⟩ <;> rfl

/-- NBLTYPESx / NTREESx are in 1..256. -/
theorem readCount256_range (st st' : St) (n : Nat) (h : Brotli.readCount256 st = (.ok n, st')) :
    1 ≤ n ∧ n ≤ 256 := by
  rw [readCount256_eq] at h
  rcases hb : Brotli.readBit st with ⟨e | b, s1⟩ <;> rw [hb] at h
  · injection h with h1 _; cases h1
  · cases b <;> dsimp only at h
    · injection h with h1 _
      injection h1 with h1
      omega
    · rcases h3 : Brotli.readBits 3 s1 with ⟨e | k, s2⟩ <;> rw [h3] at h <;> dsimp only at h
      · injection h with h1 _; cases h1
      · rcases hk : Brotli.readBits k s2 with ⟨e | x, s3⟩ <;> rw [hk] at h <;> dsimp only at h
        · injection h with h1 _; cases h1
        · injection h with h1 _
          injection h1 with h1
          have hk8 := specReadBits_lt 3 _ _ _ h3
          have hx := specReadBits_lt k _ _ _ hk
          have : 2 ^ (k + 1) ≤ 2 ^ 8 := Nat.pow_le_pow_right (by decide) (by omega)
          rw [Nat.pow_succ] at this
          omega

theorem blockCountRanges_size : blockCountRanges.size = 26 := by decide

/-- the new block type: Go's `switch symType` (with the subtraction and the `uint8` store) = section 6. -/
theorem switchType_eq (numTypes type0 type1 ntypes cur prev t : Nat) :
    numTypes = ntypes → type0 = cur → type1 = prev → cur < ntypes → prev < ntypes → ntypes ≤ 256 →
    t < ntypes + 2 →
    (match t with
      | 0 => type1
      | 1 => if type0 + 1 ≥ numTypes then type0 + 1 - numTypes else type0 + 1
      | t => t - 2) % 256 = (if t = 0 then prev else if t = 1 then (cur + 1) % ntypes else t - 2) ∧
    (if t = 0 then prev else if t = 1 then (cur + 1) % ntypes else t - 2) < ntypes := by
  intro hn ht0 ht1 hcur hprev h256 hlt
  subst hn ht0 ht1
  rcases t with _ | _ | t
  · exact ⟨show type1 % 256 = type1 from Nat.mod_eq_of_lt (by omega), show type1 < numTypes from hprev⟩
  · by_cases hw : type0 + 1 ≥ numTypes
    · have : type0 + 1 = numTypes := by omega
      simp only [this]
      simp
      omega
    · simp only [if_neg hw]
      rw [Nat.mod_eq_of_lt (show type0 + 1 < numTypes by omega)]
      simp
      omega
  · simp
    omega

end Blk

/-- `readBlockSwitch` = the block-switch command of section 6. -/
theorem blockSwitch_sim (bd : Impl.BlockDec) (b : Blocks) (h : BlkRel bd b) (h2 : 2 ≤ b.ntypes) :
    SimRel (fun bd' b' => BlkRel bd' b' ∧ bd'.prefixes = bd.prefixes)
      (Impl.readBlockSwitch bd) (Brotli.readBlockSwitch b) := by
  obtain ⟨hn, hn1, hn256, ht0, ht1, hcur, hprev, hcodes, _⟩ := h
  obtain ⟨hT, hL⟩ := hcodes h2
  have hprev := hprev h2
  unfold Impl.readBlockSwitch Brotli.readBlockSwitch
  rw [if_neg (show ¬ b.ntypes < 2 by omega), if_neg (show ¬ bd.numTypes < 2 by omega)]
  refine SimRel.bind (codeRel_sim hT) fun t t' htt => ?_
  obtain ⟨htt, hlt⟩ := htt
  subst htt
  refine SimRel.bind (codeRel_sim hL) fun l l' hll => ?_
  obtain ⟨hll, hl26⟩ := hll
  subst hll
  refine SimRel.bind (readOffset_sim blockCountRanges l (by rw [blockCountRanges_size]; exact hl26))
    fun len len' hlen' => ?_
  subst hlen'
  have hty := switchType_eq bd.numTypes bd.type0 bd.type1 b.ntypes b.cur b.prev t hn ht0 ht1 hcur hprev hn256 hlt
  exact SimRel.pure ⟨⟨hn, hn1, hn256, hty.1, ht0, hty.2, fun _ => hcur, fun _ => ⟨hT, hL⟩, rfl⟩, rfl⟩

/-- a block switch in a category with a single block type: both sides refuse at once (Go:
    errCorrupted; the specification: `corrupt`), whatever the relation. -/
theorem blockSwitch_single (bd : Impl.BlockDec) (b : Blocks) (h : BlkRel bd b) (h1 : b.ntypes < 2)
    {R : Impl.BlockDec → Blocks → Prop} :
    SimRel R (Impl.readBlockSwitch bd) (Brotli.readBlockSwitch b) := by
  have hn : bd.numTypes < 2 := by rw [h.1]; exact h1
  unfold Impl.readBlockSwitch Brotli.readBlockSwitch
  rw [if_pos h1, if_pos hn]
  exact SimRel.fail (fun r => ⟨_, r, rfl, by decide⟩) (fun s => ⟨_, s, rfl, rfl⟩)

/-- the head of `readPrefixCodes` for one category = NBLTYPESx, HTREE_BTYPEx, HTREE_BLENx, BLENx of
    section 9.2.

    Elaboration note: a term whose type is a `SimRel` over `Impl.readSymbol Impl.decCounts` (so `hC`
    itself, and `blockDec_sim hP hC bd0`) must be written in explicit mode (`@hC`,
    `@blockDec_sim hP (@hC) bd0`, `@SimRel.bind _ _ _ _ _ _ _ _ _ _ (@…) (fun … => …)`): without the
    `@` the application elaborator reduces the result type to weak head normal form, which unfolds
    `SimRel`/`SimAt` and then evaluates the closed table `Impl.decCounts` ("maximum recursion depth").
    `apply` does the same; `assumption` and `exact @h` are fine. -/
theorem blockDec_sim (hP : PrefixSim) (hC : CountsSim) (bd0 : Impl.BlockDec) :
    SimRel (fun bd b => BlkRel bd b ∧ (b.ntypes < 2 → b.count = 2 ^ 24) ∧ bd.prefixes = bd0.prefixes)
      (Impl.readBlockDec bd0) Brotli.readBlocksHeader := by
  have hC' : SimRel (fun a b => a = b ∧ (1 ≤ b ∧ b ≤ 256)) (Impl.readSymbol Impl.decCounts)
      Brotli.readCount256 :=
    @SimRel.strengthen _ _ _ _ _ _ (@hC) readCount256_range
  unfold Impl.readBlockDec Brotli.readBlocksHeader
  refine @SimRel.bind _ _ _ _ _ _ _ _ _ _ (@hC') (fun n n' hn => ?_)
  obtain ⟨hnn, hn1, hn256⟩ := hn
  subst hnn
  by_cases h2 : n < 2
  · rw [if_pos h2, if_neg (show ¬ n ≥ 2 by omega)]
    refine SimRel.pure ⟨⟨rfl, hn1, hn256, rfl, rfl, ?_, ?_, ?_, ?_⟩, fun _ => rfl, rfl⟩
    · show 0 < n; omega
    · intro h; exact absurd (show 2 ≤ n from h) (by omega)
    · intro h; exact absurd (show 2 ≤ n from h) (by omega)
    · show ((2 : Int) ^ 24) = ((2 ^ 24 : Nat) : Int); rfl
  · rw [if_neg h2, if_pos (show n ≥ 2 by omega)]
    refine SimRel.bind (hP (n + 2) (by omega) (by omega)) fun dT cT hT => ?_
    refine SimRel.bind (hP 26 (by omega) (by omega)) fun dL cL hL => ?_
    refine SimRel.bind (codeRel_sim hL) fun l l' hll => ?_
    obtain ⟨hll, hl26⟩ := hll
    subst hll
    refine SimRel.bind (readOffset_sim blockCountRanges l (by rw [blockCountRanges_size]; exact hl26))
      fun len len' hlen' => ?_
    subst hlen'
    refine SimRel.pure ⟨⟨rfl, hn1, hn256, rfl, rfl, ?_, ?_, ?_, rfl⟩, ?_, rfl⟩
    · show 0 < n; omega
    · intro _; show 1 < n; omega
    · intro _; exact ⟨hT, hL⟩
    · intro h; exact absurd (show n < 2 from h) h2

end Compress.Proofs.BrImpl
