/-
A stream that is a concatenation of segments, with the cumulative records of
their sizes, is a well-formed layout as soon as the inflater does the right thing
on every single segment.
-/
import Compress.XFlate.WriterSpec
import Compress.XFlate.ReaderSpec
import Compress.Proofs.XWRecords

namespace Compress.Proofs.XGLayout
open Compress Compress.XFlate Compress.Proofs.XWShape

structure Seg where
  bytes : List UInt8
  data  : List UInt8
  typ   : Nat

/-- length of the first `j` lists. -/
def pre (ls : List (List UInt8)) (j : Nat) : Nat := (ls.take j).flatten.length

theorem pre_zero (ls : List (List UInt8)) : pre ls 0 = 0 := by simp [pre]
theorem pre_nil (j : Nat) : pre [] j = 0 := by simp [pre]
theorem pre_cons_succ (l : List UInt8) (ls : List (List UInt8)) (j : Nat) :
    pre (l :: ls) (j + 1) = l.length + pre ls j := by simp [pre]
theorem pre_ge (ls : List (List UInt8)) (j : Nat) (h : ls.length ≤ j) : pre ls j = ls.flatten.length := by
  unfold pre; rw [List.take_of_length_le h]
theorem pre_mono (ls : List (List UInt8)) : ∀ (j : Nat), pre ls j ≤ pre ls (j + 1) := by
  induction ls with
  | nil => intro j; simp [pre_nil]
  | cons l ls ih =>
    intro j
    cases j with
    | zero => simp [pre_zero]
    | succ j => rw [pre_cons_succ, pre_cons_succ]; have := ih j; omega

theorem pre_succ : ∀ (ls : List (List UInt8)) (j : Nat) (h : j < ls.length),
    pre ls (j + 1) = pre ls j + (ls[j]).length
  | l :: ls, 0, _ => by simp [pre]
  | l :: ls, j+1, h => by
    rw [pre_cons_succ, pre_cons_succ, pre_succ ls j (by simpa using h)]
    simp only [List.getElem_cons_succ]
    omega

theorem slice_flat : ∀ (ls : List (List UInt8)) (j : Nat),
    (ls.flatten.drop (pre ls j)).take (pre ls (j + 1) - pre ls j) = ls[j]?.getD []
  | [], j => by simp
  | l :: ls, 0 => by simp [pre]
  | l :: ls, j+1 => by
    rw [pre_cons_succ, pre_cons_succ]
    have e : l.length + pre ls (j + 1) - (l.length + pre ls j) = pre ls (j + 1) - pre ls j := by omega
    rw [e, List.flatten_cons, ← List.drop_drop]
    simp only [List.drop_left, List.getElem?_cons_succ]
    exact slice_flat ls j

/-- `slice` at the boundaries of the `j`-th list. -/
theorem slice_pre (ls : List (List UInt8)) (j : Nat) :
    slice ls.flatten (pre ls j : Int) (pre ls (j + 1) : Int) = ls[j]?.getD [] := by
  unfold slice
  have h := pre_mono ls j
  have e1 : ((pre ls j : Nat) : Int).toNat = pre ls j := by omega
  have e2 : ((pre ls (j + 1) : Nat) - (pre ls j : Nat) : Int).toNat = pre ls (j + 1) - pre ls j := by omega
  rw [e1, e2]
  exact slice_flat ls j

/-! ### cumulative records -/

def cumS (c0 r0 : Int) : List Seg → List Record
  | [] => []
  | g :: gs => ⟨c0 + g.bytes.length, r0 + g.data.length, g.typ⟩ ::
      cumS (c0 + g.bytes.length) (r0 + g.data.length) gs

def bytesL (segs : List Seg) : List (List UInt8) := segs.map Seg.bytes
def dataL (segs : List Seg) : List (List UInt8) := segs.map Seg.data

theorem cumS_length : ∀ (segs : List Seg) (c0 r0 : Int), (cumS c0 r0 segs).length = segs.length
  | [], _, _ => rfl
  | g :: gs, c0, r0 => by simp [cumS, cumS_length gs]

theorem cumS_get : ∀ (segs : List Seg) (c0 r0 : Int) (j : Nat),
    (cumS c0 r0 segs)[j]? = segs[j]?.map (fun sg =>
      ⟨c0 + (pre (bytesL segs) (j + 1) : Nat), r0 + (pre (dataL segs) (j + 1) : Nat), sg.typ⟩)
  | [], _, _, j => by simp [cumS]
  | g :: gs, c0, r0, 0 => by simp [cumS, pre, bytesL, dataL]
  | g :: gs, c0, r0, j+1 => by
    simp only [cumS, List.getElem?_cons_succ, bytesL, dataL, List.map_cons, pre_cons_succ]
    rw [cumS_get gs _ _ j]
    cases gs[j]? with
    | none => rfl
    | some sg =>
      simp only [Option.map_some, bytesL, dataL, Option.some.injEq, Record.mk.injEq, and_true]
      constructor <;> omega

theorem cumS_sorted : ∀ (segs : List Seg) (c0 r0 : Int), rawSorted (cumS c0 r0 segs) = true
  | [], _, _ => rfl
  | [g], _, _ => rfl
  | g :: g' :: gs, c0, r0 => by
    have ih := cumS_sorted (g' :: gs) (c0 + g.bytes.length) (r0 + g.data.length)
    simp only [cumS] at ih ⊢
    simp only [rawSorted, Bool.and_eq_true, decide_eq_true_eq]
    exact ⟨by omega, ih⟩

theorem cumS_nonneg : ∀ (segs : List Seg) (c0 r0 : Int), 0 ≤ r0 → ∀ r ∈ cumS c0 r0 segs, 0 ≤ r.raw
  | [], _, _, _, r, h => by simp [cumS] at h
  | g :: gs, c0, r0, h0, r, h => by
    simp only [cumS, List.mem_cons] at h
    rcases h with h | h
    · subst h; simp only; omega
    · exact cumS_nonneg gs _ _ (by omega) r h

theorem cumS_typed : ∀ (segs : List Seg) (c0 r0 : Int), (∀ sg ∈ segs, sg.typ ≠ unknownType) →
    ∀ r ∈ cumS c0 r0 segs, r.typ ≠ unknownType
  | [], _, _, _, r, h => by simp [cumS] at h
  | g :: gs, c0, r0, ht, r, h => by
    simp only [cumS, List.mem_cons] at h
    rcases h with h | h
    · subst h; exact ht g (List.mem_cons_self ..)
    · exact cumS_typed gs _ _ (fun sg hsg => ht sg (List.mem_cons_of_mem _ hsg)) r h

theorem cumS_last : ∀ (segs : List Seg) (c0 r0 : Int),
    (lastRecord (cumS c0 r0 segs ++ [])).raw = if segs = [] then 0 else r0 + ((dataL segs).flatten.length : Nat)
  | [], _, _ => rfl
  | [g], c0, r0 => by simp [cumS, lastRecord, dataL]
  | g :: g' :: gs, c0, r0 => by
    have ih := cumS_last (g' :: gs) (c0 + g.bytes.length) (r0 + g.data.length)
    simp only [List.append_nil, reduceCtorEq, if_false] at ih ⊢
    have : lastRecord (cumS c0 r0 (g :: g' :: gs)) =
        lastRecord (cumS (c0 + g.bytes.length) (r0 + g.data.length) (g' :: gs)) := by
      simp [cumS, lastRecord]
    rw [this, ih]
    simp only [dataL, List.map_cons, List.flatten_cons, List.length_append]
    omega

/-! ### `getRecords` on cumulative records -/

theorem getRecords_cum (segs : List Seg) (j : Nat) (hj : j ≤ segs.length) :
    (getRecords (cumS 0 0 segs) j).1.comp = (pre (bytesL segs) j : Nat) ∧
    (getRecords (cumS 0 0 segs) j).1.raw = (pre (dataL segs) j : Nat) ∧
    (getRecords (cumS 0 0 segs) j).2.comp = (pre (bytesL segs) (j + 1) : Nat) ∧
    (getRecords (cumS 0 0 segs) j).2.raw = (pre (dataL segs) (j + 1) : Nat) ∧
    (getRecords (cumS 0 0 segs) j).2.typ = (segs[j]?.map Seg.typ).getD unknownType := by
  have hprev : (if j ≥ 1 then ((cumS 0 0 segs)[j-1]?).getD Record.zero else Record.zero).comp
        = (pre (bytesL segs) j : Nat) ∧
      (if j ≥ 1 then ((cumS 0 0 segs)[j-1]?).getD Record.zero else Record.zero).raw
        = (pre (dataL segs) j : Nat) := by
    cases j with
    | zero => simp [pre_zero, Record.zero]
    | succ j =>
      rw [if_pos (by omega), Nat.add_sub_cancel, cumS_get]
      have : j < segs.length := by omega
      rw [List.getElem?_eq_getElem this]
      simp
  unfold getRecords
  simp only [cumS_length]
  rw [if_neg (by omega)]
  by_cases hlt : j < segs.length
  · have hg : (cumS 0 0 segs)[j]? = some ⟨0 + (pre (bytesL segs) (j + 1) : Nat),
        0 + (pre (dataL segs) (j + 1) : Nat), (segs[j]).typ⟩ := by
      rw [cumS_get, List.getElem?_eq_getElem hlt]; rfl
    rw [hg]
    simp only [List.getElem?_eq_getElem hlt, Option.map_some, Option.getD_some]
    refine ⟨hprev.1, hprev.2, by omega, by omega, ?_⟩
    first | rfl | trivial
  · have hn : j = segs.length := by omega
    have hg : (cumS 0 0 segs)[j]? = none := by
      rw [List.getElem?_eq_none]; rw [cumS_length]; omega
    rw [hg]
    simp only
    have h1 : pre (bytesL segs) (j + 1) = pre (bytesL segs) j := by
      rw [pre_ge _ _ (by simp [bytesL]; omega), pre_ge _ _ (by simp [bytesL]; omega)]
    have h2 : pre (dataL segs) (j + 1) = pre (dataL segs) j := by
      rw [pre_ge _ _ (by simp [dataL]; omega), pre_ge _ _ (by simp [dataL]; omega)]
    have h3 : segs[j]? = none := by rw [List.getElem?_eq_none]; omega
    rw [h1, h2, h3]
    exact ⟨hprev.1, hprev.2, hprev.1, hprev.2, rfl⟩

/-! ### the layout -/

/-- the layout of `XFlateGlue.layoutOf` (stated with `slice`, which is the same
    function as `bytesBetween`). -/
def layoutS (stream : List UInt8) (recs : List Record) : Layout :=
  { recs := recs,
    segs := (List.range (recs.length + 1)).map fun j =>
      specSegInfo (slice stream (getRecords recs j).1.comp (getRecords recs j).2.comp) }

theorem layoutS_recs (stream : List UInt8) (recs : List Record) : (layoutS stream recs).recs = recs := rfl

theorem layoutS_seg (stream : List UInt8) (recs : List Record) (j : Nat) (hj : j ≤ recs.length) :
    (layoutS stream recs).seg j =
      specSegInfo (slice stream (getRecords recs j).1.comp (getRecords recs j).2.comp) := by
  unfold Layout.seg layoutS
  simp only [List.getElem?_map]
  rw [List.getElem?_range (by omega)]
  rfl

/-- what the inflater must do on one segment. -/
def SegOK (sg : Seg) : Prop :=
  sg.typ ≠ unknownType ∧ (specSegInfo sg.bytes).out = sg.data ∧ (specSegInfo sg.bytes).fin = none ∧
  (specSegInfo sg.bytes).inOff = (sg.bytes.length : Int) + (if sg.typ = footerType then 0 else 5) ∧
  (sg.typ = deflateType → (specSegInfo sg.bytes).sync = 0x0000ffff)

def TailOK : Prop := specSegInfo [] = { out := [], fin := none, inOff := 5, sync := 0 }

theorem seg_bytes (segs : List Seg) (j : Nat) (hj : j ≤ segs.length) :
    slice (bytesL segs).flatten (getRecords (cumS 0 0 segs) j).1.comp (getRecords (cumS 0 0 segs) j).2.comp
      = (segs[j]?.map Seg.bytes).getD [] := by
  obtain ⟨h1, _, h3, _, _⟩ := getRecords_cum segs j hj
  rw [h1, h3, slice_pre]
  simp [bytesL]

theorem seg_data (segs : List Seg) (j : Nat) (hj : j ≤ segs.length) :
    slice (dataL segs).flatten (getRecords (cumS 0 0 segs) j).1.raw (getRecords (cumS 0 0 segs) j).2.raw
      = (segs[j]?.map Seg.data).getD [] := by
  obtain ⟨_, h2, _, h4, _⟩ := getRecords_cum segs j hj
  rw [h2, h4, slice_pre]
  simp [dataL]

theorem layout_wf (segs : List Seg) (hne : segs ≠ []) (hok : ∀ sg ∈ segs, SegOK sg) (htl : TailOK) :
    WellFormed (layoutS (bytesL segs).flatten (cumS 0 0 segs)) (dataL segs).flatten := by
  have hlen := cumS_length segs 0 0
  -- per-segment facts
  have hseg : ∀ j, j ≤ segs.length →
      (layoutS (bytesL segs).flatten (cumS 0 0 segs)).seg j =
        specSegInfo ((segs[j]?.map Seg.bytes).getD []) := by
    intro j hj
    rw [layoutS_seg _ _ _ (by rw [hlen]; exact hj), seg_bytes segs j hj]
  refine ⟨?_, cumS_sorted segs 0 0, cumS_nonneg segs 0 0 (Int.le_refl _),
    cumS_typed segs 0 0 (fun sg h => (hok sg h).1), ?_, ?_, ?_, ?_, ?_⟩
  · intro h
    rw [layoutS_recs] at h
    have := congrArg List.length h
    rw [hlen] at this
    exact hne (List.eq_nil_of_length_eq_zero this)
  · have := cumS_last segs 0 0
    rw [List.append_nil, if_neg hne] at this
    show (lastRecord (cumS 0 0 segs)).raw = _
    rw [this]; omega
  · intro j hj
    simp only [layoutS_recs] at hj ⊢
    rw [hlen] at hj
    have hs := hseg j hj
    rw [hs, seg_data segs j hj]
    by_cases hlt : j < segs.length
    · simp only [List.getElem?_eq_getElem hlt, Option.map_some, Option.getD_some]
      exact (hok _ (List.getElem_mem hlt)).2.1
    · have h3 : segs[j]? = none := by rw [List.getElem?_eq_none]; omega
      rw [h3]
      simp only [Option.map_none, Option.getD_none]
      rw [htl]
  · intro j hj
    simp only [layoutS_recs] at hj ⊢
    rw [hlen] at hj
    have hs := hseg j hj
    rw [hs]
    by_cases hlt : j < segs.length
    · simp only [List.getElem?_eq_getElem hlt, Option.map_some, Option.getD_some]
      exact (hok _ (List.getElem_mem hlt)).2.2.1
    · have h3 : segs[j]? = none := by rw [List.getElem?_eq_none]; omega
      rw [h3]
      simp only [Option.map_none, Option.getD_none]
      rw [htl]
  · intro j hj
    simp only [layoutS_recs] at hj ⊢
    rw [hlen] at hj
    have hs := hseg j hj
    obtain ⟨g1, _, g3, _, g5⟩ := getRecords_cum segs j hj
    rw [hs, g1, g3]
    simp only [g5]
    by_cases hlt : j < segs.length
    · simp only [List.getElem?_eq_getElem hlt, Option.map_some, Option.getD_some]
      rw [(hok _ (List.getElem_mem hlt)).2.2.2.1]
      have : pre (bytesL segs) (j + 1) = pre (bytesL segs) j + (segs[j]).bytes.length := by
        have h2 := pre_succ (bytesL segs) j (by simp only [bytesL, List.length_map]; exact hlt)
        rw [h2]
        simp [bytesL]
      rw [this]
      push_cast
      omega
    · have h3 : segs[j]? = none := by rw [List.getElem?_eq_none]; omega
      rw [h3]
      simp only [Option.map_none, Option.getD_none]
      rw [htl]
      have h1 : pre (bytesL segs) (j + 1) = pre (bytesL segs) j := by
        rw [pre_ge _ _ (by simp [bytesL]; omega), pre_ge _ _ (by simp [bytesL]; omega)]
      rw [h1, if_neg (by decide)]
      simp
  · intro j hj ht
    simp only [layoutS_recs] at hj ht ⊢
    rw [hlen] at hj
    have hs := hseg j hj
    obtain ⟨_, _, _, _, g5⟩ := getRecords_cum segs j hj
    rw [g5] at ht
    rw [hs]
    by_cases hlt : j < segs.length
    · simp only [List.getElem?_eq_getElem hlt, Option.map_some, Option.getD_some] at ht ⊢
      exact (hok _ (List.getElem_mem hlt)).2.2.2.2 ht
    · have h3 : segs[j]? = none := by rw [List.getElem?_eq_none]; omega
      rw [h3] at ht
      simp [unknownType, deflateType] at ht

end Compress.Proofs.XGLayout
