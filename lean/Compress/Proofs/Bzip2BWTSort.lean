/-
`cmpRot` is the lexicographic comparison of rotations; `rotLe` is a total
preorder; the sorted rotation order.
-/
import Compress.Bzip2.Stages
import Mathlib.Data.List.Rotate
import Mathlib.Data.List.Lex

namespace Compress.Proofs.Bzip2BWT
open Compress Compress.Bzip2

/-- first `f` keys of the rotation starting at `i`. -/
def keyF (a : Array UInt8) (n f i : Nat) : List Nat :=
  (List.range f).map (fun k => (a.getD ((i + k) % n) 0).toNat)

theorem keyF_zero (a : Array UInt8) (n i : Nat) : keyF a n 0 i = [] := rfl

theorem keyF_succ (a : Array UInt8) (n f i : Nat) :
    keyF a n (f + 1) i = (a.getD (i % n) 0).toNat :: keyF a n f (i + 1) := by
  simp only [keyF, List.range_succ_eq_map, List.map_cons, List.map_map, Nat.add_zero]
  congr 1
  apply List.map_congr_left
  intro k _
  simp only [Function.comp_apply]
  rw [show i + (k + 1) = i + 1 + k by omega]

theorem cmpRot_spec (a : Array UInt8) (n : Nat) : ∀ f i j,
    (cmpRot a n f i j = .lt → keyF a n f i < keyF a n f j) ∧
    (cmpRot a n f i j = .gt → keyF a n f j < keyF a n f i) ∧
    (cmpRot a n f i j = .eq → keyF a n f i = keyF a n f j) := by
  intro f
  induction f with
  | zero => intro i j; simp [cmpRot, keyF_zero]
  | succ f ih =>
    intro i j
    rw [keyF_succ, keyF_succ]
    simp only [cmpRot]
    obtain ⟨ih1, ih2, ih3⟩ := ih (i + 1) (j + 1)
    by_cases h1 : a.getD (i % n) 0 < a.getD (j % n) 0
    · have h1' := UInt8.lt_iff_toNat_lt.1 h1
      simp only [h1, if_true, true_implies, reduceCtorEq, false_implies, and_true]
      exact List.cons_lt_cons_iff.2 (Or.inl h1')
    · by_cases h2 : a.getD (j % n) 0 < a.getD (i % n) 0
      · have h2' := UInt8.lt_iff_toNat_lt.1 h2
        simp only [h1, h2, if_true, if_false, true_implies, reduceCtorEq, false_implies, and_true,
          true_and]
        exact List.cons_lt_cons_iff.2 (Or.inl h2')
      · have heq : (a.getD (i % n) 0).toNat = (a.getD (j % n) 0).toNat := by
          have e1 : ¬ (a.getD (i % n) 0).toNat < (a.getD (j % n) 0).toNat :=
            fun h => h1 (UInt8.lt_iff_toNat_lt.2 h)
          have e2 : ¬ (a.getD (j % n) 0).toNat < (a.getD (i % n) 0).toNat :=
            fun h => h2 (UInt8.lt_iff_toNat_lt.2 h)
          omega
        simp only [h1, h2, if_false, heq]
        refine ⟨fun h => ?_, fun h => ?_, fun h => ?_⟩
        · exact List.cons_lt_cons_iff.2 (Or.inr ⟨rfl, ih1 h⟩)
        · exact List.cons_lt_cons_iff.2 (Or.inr ⟨rfl, ih2 h⟩)
        · rw [ih3 h]

/-- the sort key of rotation index `i`. -/
def rkey (a : Array UInt8) (i : Nat) : List Nat := keyF a a.size a.size i

theorem rotLe_iff (a : Array UInt8) (i j : Nat) :
    rotLe a i j = true ↔ rkey a i < rkey a j ∨ (rkey a i = rkey a j ∧ j ≤ i) := by
  obtain ⟨h1, h2, h3⟩ := cmpRot_spec a a.size a.size i j
  unfold rotLe rkey
  cases h : cmpRot a a.size a.size i j with
  | lt => simp only [true_iff]; exact Or.inl (h1 h)
  | gt =>
    have := h2 h
    simp only [Bool.false_eq_true, false_iff, not_or, not_and]
    exact ⟨lt_asymm this, fun e => absurd this (by rw [e]; exact lt_irrefl _)⟩
  | eq =>
    have := h3 h
    simp only [decide_eq_true_eq, ge_iff_le]
    constructor
    · intro hij; exact Or.inr ⟨this, hij⟩
    · rintro (hlt | ⟨_, hij⟩)
      · rw [this] at hlt; exact absurd hlt (lt_irrefl _)
      · exact hij

theorem rotLe_trans (a : Array UInt8) (i j k : Nat) (h1 : rotLe a i j = true)
    (h2 : rotLe a j k = true) : rotLe a i k = true := by
  rw [rotLe_iff] at *
  rcases h1 with h1 | ⟨e1, l1⟩ <;> rcases h2 with h2 | ⟨e2, l2⟩
  · exact Or.inl (lt_trans h1 h2)
  · exact Or.inl (e2 ▸ h1)
  · exact Or.inl (e1 ▸ h2)
  · exact Or.inr ⟨e1.trans e2, le_trans l2 l1⟩

theorem rotLe_total (a : Array UInt8) (i j : Nat) : (rotLe a i j || rotLe a j i) = true := by
  rw [Bool.or_eq_true, rotLe_iff, rotLe_iff]
  rcases lt_trichotomy (rkey a i) (rkey a j) with h | h | h
  · exact Or.inl (Or.inl h)
  · rcases Nat.le_total i j with hij | hij
    · exact Or.inr (Or.inr ⟨h.symm, hij⟩)
    · exact Or.inl (Or.inr ⟨h, hij⟩)
  · exact Or.inr (Or.inl h)

theorem rkey_le_of_rotLe (a : Array UInt8) (i j : Nat) (h : rotLe a i j = true) :
    rkey a i ≤ rkey a j := by
  rcases (rotLe_iff a i j).1 h with h | ⟨h, _⟩
  · exact le_of_lt h
  · exact le_of_eq h

/-- rotation `i` of the key list. -/
def rotN (xs : List UInt8) (i : Nat) : List Nat := (xs.map UInt8.toNat).rotate i

theorem rotN_length (xs : List UInt8) (i : Nat) : (rotN xs i).length = xs.length := by
  simp [rotN]

theorem rkey_eq_rotN (xs : List UInt8) (i : Nat) : rkey xs.toArray i = rotN xs i := by
  apply List.ext_getElem
  · simp [rkey, keyF, rotN]
  · intro k h1 h2
    have hk : k < xs.length := by simpa [rkey, keyF] using h1
    have hm : (i + k) % xs.length < xs.length := Nat.mod_lt _ (by omega)
    simp only [rkey, keyF, rotN, List.getElem_map, List.getElem_range, List.size_toArray,
      List.getElem_rotate, List.length_map, Array.getD_eq_getD_getElem?, List.getElem?_toArray,
      List.getElem?_eq_getElem hm, Option.getD_some]
    congr 2
    rw [Nat.add_comm]

/-- the sorted rotation indices. -/
def order (xs : List UInt8) : List Nat :=
  (List.range xs.length).mergeSort (fun i j => rotLe xs.toArray i j)

theorem order_perm (xs : List UInt8) : (order xs).Perm (List.range xs.length) :=
  List.mergeSort_perm _ _

theorem order_length (xs : List UInt8) : (order xs).length = xs.length := by
  rw [(order_perm xs).length_eq, List.length_range]

theorem order_sorted (xs : List UInt8) :
    (order xs).Pairwise (fun i j => rotN xs i ≤ rotN xs j) := by
  have := List.pairwise_mergeSort (le := fun i j => rotLe xs.toArray i j)
    (rotLe_trans xs.toArray) (rotLe_total xs.toArray) (List.range xs.length)
  refine this.imp ?_
  intro i j h
  rw [← rkey_eq_rotN, ← rkey_eq_rotN]
  exact rkey_le_of_rotLe _ _ _ h

theorem bwtSpec_eq (xs : List UInt8) :
    bwtSpec xs = ((order xs).map (fun k => xs.toArray.getD ((k + xs.length - 1) % xs.length) 0),
      ((order xs).findIdx? (· == 0)).getD 0) := rfl

/-- the origin pointer really points at rotation `0`. -/
theorem ptr_spec (xs : List UInt8) (h : xs ≠ []) :
    (bwtSpec xs).2 < xs.length ∧ (order xs).getD (bwtSpec xs).2 0 = 0 := by
  rw [bwtSpec_eq]
  simp only
  have hn : 0 < xs.length := List.length_pos_iff.2 h
  have hmem : 0 ∈ order xs := (order_perm xs).mem_iff.2 (List.mem_range.2 hn)
  cases hf : (order xs).findIdx? (· == 0) with
  | none =>
    rw [List.findIdx?_eq_none_iff] at hf
    have := hf 0 hmem
    simp at this
  | some i =>
    rw [List.findIdx?_eq_some_iff_getElem] at hf
    obtain ⟨hi, hp, _⟩ := hf
    simp only [Option.getD_some]
    refine ⟨by rw [← order_length]; exact hi, ?_⟩
    simp only [List.getD_eq_getElem?_getD, List.getElem?_eq_getElem hi, Option.getD_some]
    simpa using hp

theorem last_eq_rotate (xs : List UInt8) :
    (List.range xs.length).map (fun k => xs.toArray.getD ((k + xs.length - 1) % xs.length) 0)
      = xs.rotate (xs.length - 1) := by
  apply List.ext_getElem
  · simp
  · intro k h1 h2
    have hk : k < xs.length := by simpa using h1
    have hm : (k + xs.length - 1) % xs.length < xs.length := Nat.mod_lt _ (by omega)
    simp only [List.getElem_map, List.getElem_range, List.getElem_rotate,
      Array.getD_eq_getD_getElem?, List.getElem?_toArray, List.getElem?_eq_getElem hm,
      Option.getD_some]
    congr 1
    rw [Nat.add_sub_assoc (by omega)]

theorem bwtSpec_shape' (xs : List UInt8) (h : xs ≠ []) :
    (bwtSpec xs).1.length = xs.length ∧ (bwtSpec xs).2 < xs.length ∧ (bwtSpec xs).1.Perm xs := by
  refine ⟨?_, (ptr_spec xs h).1, ?_⟩
  · simp [bwtSpec_eq, order_length]
  · rw [bwtSpec_eq]
    simp only
    refine ((order_perm xs).map _).trans ?_
    rw [last_eq_rotate]
    exact List.rotate_perm _ _

end Compress.Proofs.Bzip2BWT
