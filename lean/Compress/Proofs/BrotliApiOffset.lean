/-
brotli.Reader, API-level model (`Compress.Brotli.Api`): `OutputOffset` counts exactly the bytes
delivered, after every call sequence, from every state.
-/
import Compress.Proofs.BrotliApi
import Compress.Proofs.BrotliApiCore

namespace Compress.Proofs.BrotliApi
open Compress Compress.Brotli Compress.Brotli.Impl Compress.Brotli.Api

theorem latchBound_outOff (c : State) (e : Option BErr) : (latchBound c e).outOff = c.outOff := by
  unfold latchBound; split <;> rfl

theorem read_outputOffset (sd : ByteArray) (r : Reader) (n : Nat) :
    (r.read sd n).1.outputOffset = r.outputOffset + (r.read sd n).2.1.length := by
  cases hd : r.done with
  | true => rw [read_done sd r hd]; rfl
  | false =>
    rw [read_open sd r hd]
    simp only [Reader.outputOffset, latchBound_outOff]
    exact read_outOff sd _ _ _

theorem close_outputOffset (r : Reader) : (r.close).1.outputOffset = r.outputOffset := by
  rw [close_eq]; split <;> rfl

/-- the bytes delivered by a call sequence. -/
def delivered (xs : List Res) : Nat := (xs.map (fun x => x.bytes.length)).sum

/-- **OutputOffset counts exactly the bytes delivered**: after every call sequence without Reset
    it has grown by the number of bytes the Reads returned. -/
theorem run_outputOffset (sd : ByteArray) (r : Reader) (ops : List Op) (hn : ∀ op ∈ ops, op.noReset = true) :
    (Reader.run sd r ops).1.outputOffset = r.outputOffset + delivered (Reader.run sd r ops).2 := by
  induction ops generalizing r with
  | nil => simp [Reader.run, delivered]
  | cons op ops ih =>
    have ih' := fun r' => ih r' (fun o ho => hn o (List.mem_cons_of_mem _ ho))
    cases op with
    | read n =>
      have ho := read_outputOffset sd r n
      rcases hr : r.read sd n with ⟨r1, out, e⟩
      rw [hr] at ho
      simp only at ho
      simp only [Reader.run, Reader.step, hr]
      rw [ih', ho]
      simp only [delivered, List.map_cons, List.sum_cons, Res.bytes]
      omega
    | close =>
      simp only [Reader.run, Reader.step]
      rw [ih', close_outputOffset]
      simp [delivered, Res.bytes]
    | reset src => have := hn (.reset src) (List.mem_cons_self ..); simp [Op.noReset] at this

/-- Reset starts the counters over. -/
theorem reset_counters (r : Reader) (src : Src) :
    (r.reset src).outputOffset = 0 ∧ (r.reset src).inputOffset = 0 ∧ (r.reset src).done = false ∧
      (r.reset src).err = none := ⟨rfl, rfl, rfl, rfl⟩

end Compress.Proofs.BrotliApi
