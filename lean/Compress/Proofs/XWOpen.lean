/-
C05 (index): `Reader.Reset`'s index parsing on the output of xflate.Writer.
-/
import Compress.Proofs.XWIndexParse
import Compress.Proofs.XWDecode

namespace Compress.Proofs.XWShape
open Compress Compress.XFlate Compress.Proofs.XWLog Compress.Proofs.Uvarint

/-! ### the footer -/

theorem decodeFooter_ok (pre foot : List UInt8) (back : Int)
    (h : Meta.encode (footerPayload back) .fstream = some [foot]) (hb0 : 0 ≤ back) (hb1 : back < 2 ^ 63) :
    decodeFooter (pre ++ foot) = .ok (back, (foot.length : Int)) := by
  obtain ⟨ps, cF, bitsF, p1, p2, p3, _⟩ := encode_blocks _ _ _ h
  have hps : ps = [] := by
    cases ps with
    | nil => rfl
    | cons p ps => simp at p3
  subst hps
  simp only [List.map_nil, List.nil_append, List.cons.injEq, and_true] at p3
  have hal := Proofs.Meta.encodeBlock_aligned cF .fstream bitsF p2
  have hsz := Proofs.MetaLocate.encodeBlock_size cF .fstream bitsF p2
  have hlen := Proofs.Meta.length_toBytes bitsF hal
  have hfl : 12 ≤ foot.length ∧ foot.length ≤ 64 := by rw [p3, hlen]; omega
  obtain ⟨blocks', henc', hdec⟩ := Proofs.Meta.decode_encode (footerPayload back) .fstream
  rw [h] at henc'
  cases henc'
  simp only [List.flatten_cons, List.flatten_nil, List.append_nil, List.length_cons, List.length_nil,
    Nat.zero_add] at hdec
  let k := (pre ++ foot).length - min (pre ++ foot).length XFlate.maxEncBytes
  have hk : k ≤ pre.length := by
    show (pre ++ foot).length - min (pre ++ foot).length XFlate.maxEncBytes ≤ pre.length
    simp only [List.length_append, XFlate.maxEncBytes]; omega
  have hbr : (pre ++ foot).drop k = pre.drop k ++ foot := List.drop_append_of_le_length hk
  have hrs : Meta.reverseSearch (pre.drop k ++ foot) = ((pre.drop k).length : Int) := by
    rw [p3]; exact Proofs.MetaLocate.reverseSearch_finds_last_block _ cF .fstream bitsF p2
  unfold decodeFooter
  simp only
  show (if Meta.reverseSearch ((pre ++ foot).drop k) < 0 then _ else _) = _
  rw [hbr, hrs]
  rw [if_neg (by omega)]
  have hd : (pre.drop k ++ foot).drop ((pre.drop k).length : Int).toNat = foot := by simp
  simp only [hd, hdec]
  have hpl : (footerPayload back).length = 3 + (putUvarint64 back.toNat).length := by
    simp [footerPayload, xfMagic]; omega
  have ht : List.take 3 (footerPayload back) = xfMagic := by simp [footerPayload, xfMagic]
  have hdr : List.drop 3 (footerPayload back) = putUvarint64 back.toNat := by simp [footerPayload, xfMagic]
  have hu : uvarint (putUvarint64 back.toNat) = (back.toNat, ((putUvarint64 back.toNat).length : Int)) := by
    have := uvarint_put back.toNat [] (by omega)
    rwa [List.append_nil] at this
  have hpos := putUvarint64_pos back.toNat
  have hdr2 : List.drop (3 + ((putUvarint64 back.toNat).length : Int).toNat) (footerPayload back) = [] := by
    apply List.drop_eq_nil_of_le
    rw [hpl]; omega
  have hi : toI64 back.toNat = back := by
    unfold toI64
    rw [if_neg (by omega)]
    omega
  rw [hdr, hu]
  simp only [hdr2, ht, hi]
  rw [if_neg (by omega), if_neg (by simp), if_neg (by rw [hpl]; simp), if_neg (by omega), if_neg (by simp)]


/-! ### bounds -/

/-- size bounds (no int64 overflow) and the reader's minimum chunk size. -/
def Bnd (rgs : List IG) : Prop :=
  (bytesR rgs).length < 2 ^ 63 ∧ (cdata (chunksR rgs)).length < 2 ^ 63 ∧ ∀ c ∈ chunksR rgs, 4 < c.1.length

theorem Bnd.tail {g : IG} {rest : List IG} (h : Bnd (g :: rest)) :
    Bnd rest ∧ (cbytes g.chunks).length < 2 ^ 63 ∧ (cdata g.chunks).length < 2 ^ 63 ∧
      (∀ c ∈ g.chunks, 4 < c.1.length) ∧
      (bytesR (g :: rest)).length = (bytesR rest).length + (cbytes g.chunks).length + g.blocks.flatten.length ∧
      (cdata (chunksR (g :: rest))).length = (cdata (chunksR rest)).length + (cdata g.chunks).length := by
  obtain ⟨h1, h2, h3⟩ := h
  simp only [bytesR, chunksR, List.length_append, cdata_append] at h1 h2
  refine ⟨⟨by omega, by omega, fun c hc => h3 c (List.mem_append_left _ hc)⟩, by omega, by omega,
    fun c hc => h3 c (List.mem_append_right _ hc), ?_, ?_⟩
  · simp only [bytesR, List.length_append]; omega
  · simp only [chunksR, cdata_append, List.length_append]

theorem blocks_pos (payload : List UInt8) (fm : Meta.FinalMode) (blocks : List (List UInt8))
    (h : Meta.encode payload fm = some blocks) : 1 ≤ blocks.flatten.length := by
  obtain ⟨ps, cF, bitsF, _, h2, rfl, _⟩ := encode_blocks payload fm blocks h
  have := Proofs.Meta.toBytes_block_pos cF fm bitsF h2
  simp only [List.flatten_append, List.flatten_cons, List.flatten_nil, List.append_nil, List.length_append]
  omega

theorem backOf_le : ∀ (rgs : List IG), backOf rgs ≤ (bytesR rgs).length ∧ 0 ≤ backOf rgs
  | [] => by simp [backOf, bytesR]
  | g :: rest => by
    simp only [backOf, bytesR, List.length_append]
    omega

theorem length_le_bytesR (crc : List UInt8 → Nat) : ∀ (rgs : List IG), WFR crc rgs → rgs.length ≤ (bytesR rgs).length
  | [], _ => by simp
  | g :: rest, h => by
    have h1 := length_le_bytesR crc rest h.2
    have h2 := blocks_pos _ _ _ h.1
    simp only [bytesR, List.length_append, List.length_cons]
    omega

/-! ### the backward walk -/

/-- what `decodeIndexes` collects: (IndexSize, records) per index, first index first. -/
def idxList (rgs : List IG) : List (Int × List Record) :=
  rgs.reverse.map (fun g => ((g.blocks.flatten.length : Int), recsOf g.chunks))

theorem idxList_cons (g : IG) (rest : List IG) :
    idxList (g :: rest) = idxList rest ++ [((g.blocks.flatten.length : Int), recsOf g.chunks)] := by
  simp [idxList]

theorem walk_ok (crc : List UInt8 → Nat) (hcrc : ∀ l, crc l < 2 ^ 32) :
    ∀ (rgs : List IG) (fuel : Nat) (suffix : List UInt8) (pos back comp : Int)
      (acc : List (Int × List Record)) (alloc : Nat),
      WFR crc rgs → Bnd rgs → rgs.length + 1 ≤ fuel → back = backOf rgs → 0 ≤ comp →
      pos - (back + comp) = ((bytesR rgs).length : Int) - backOf rgs →
      ∃ alloc', walkIndexes .fixed crc (bytesR rgs ++ suffix) fuel pos back comp acc alloc =
        .ok (idxList rgs ++ acc, alloc')
  | [], fuel, suffix, pos, back, comp, acc, alloc, _, _, hf, hb, hc, hp => by
    obtain ⟨f, rfl⟩ : ∃ f, fuel = f + 1 := ⟨fuel - 1, by simp at hf; omega⟩
    simp only [backOf] at hb
    subst hb
    simp only [bytesR, List.length_nil, backOf] at hp
    refine ⟨alloc, ?_⟩
    rw [walkIndexes]
    simp only [hp]
    rw [if_neg (by omega)]
    simp [idxList]
  | g :: rest, fuel, suffix, pos, back, comp, acc, alloc, hw, hbd, hf, hb, hc, hp => by
    obtain ⟨f, rfl⟩ : ∃ f, fuel = f + 1 := ⟨fuel - 1, by simp at hf; omega⟩
    obtain ⟨hbr, hcb, hcd, hsz, hlen, _⟩ := hbd.tail
    have hpos := blocks_pos _ _ _ hw.1
    obtain ⟨hbk1, hbk0⟩ := backOf_le rest
    have hbt := hbr.1
    simp only [backOf] at hb
    subst hb
    have hnp : pos - ((g.blocks.flatten.length : Int) + comp) = ((bytesR rest ++ cbytes g.chunks).length : Int) := by
      rw [hp, hlen]; simp only [backOf, List.length_append]; omega
    have hstream : bytesR (g :: rest) ++ suffix =
        (bytesR rest ++ cbytes g.chunks) ++ (g.blocks.flatten ++ suffix) := by
      simp only [bytesR, List.append_assoc]
    have hdi := decodeIndex_group crc hcrc (bytesR rest ++ cbytes g.chunks) suffix g.chunks (backOf rest) g.blocks
      hw.1 hbk0 (by omega) hsz hcb hcd
    obtain ⟨_, r2, _⟩ := recsOf_ok g.chunks (by simp only [maxI64]; omega) (by simp only [maxI64]; omega)
    have r2' : (lastRecord (recsOf g.chunks)).comp = ((cbytes g.chunks).length : Int) := r2
    have hstream2 : bytesR (g :: rest) ++ suffix =
        bytesR rest ++ (cbytes g.chunks ++ (g.blocks.flatten ++ suffix)) := by
      simp only [bytesR, List.append_assoc]
    obtain ⟨alloc', ih⟩ := walk_ok crc hcrc rest f (cbytes g.chunks ++ (g.blocks.flatten ++ suffix))
      ((bytesR rest ++ cbytes g.chunks).length : Int) (backOf rest) ((cbytes g.chunks).length : Int)
      (((g.blocks.flatten.length : Int), recsOf g.chunks) :: acc) (alloc + g.chunks.length)
      hw.2 hbr (by simp only [List.length_cons] at hf; omega) rfl (by omega)
      (by simp only [List.length_append]; omega)
    refine ⟨alloc', ?_⟩
    rw [walkIndexes]
    simp only [hnp]
    rw [if_neg (by simp only [List.length_append] at hnp ⊢; omega), if_neg (by omega)]
    rw [hstream, hdi]
    simp only [r2']
    rw [← hstream, hstream2, ih, idxList_cons, List.append_assoc]
    rfl

/-! ### merging -/

theorem merge_ok : ∀ (rgs : List IG), Bnd rgs →
    mergeIndexes (idxList rgs) [] = .ok (allG rgs) ∧ lastC (allG rgs) = ((bytesR rgs).length : Int) ∧
      lastR (allG rgs) = ((cdata (chunksR rgs)).length : Int)
  | [], _ => by simp [idxList, mergeIndexes, allG, lastC, lastR, lastRecord, Record.zero, bytesR, chunksR, cdata]
  | g :: rest, hbd => by
    obtain ⟨hbr, hcb, hcd, hsz, hlen, hlen2⟩ := hbd.tail
    obtain ⟨i1, i2, i3⟩ := merge_ok rest hbr
    obtain ⟨r1, _, _⟩ := recsOf_ok g.chunks (by simp only [maxI64]; omega) (by simp only [maxI64]; omega)
    have hb1 := hbd.1
    have hb2 := hbd.2.1
    rw [hlen] at hb1
    rw [hlen2] at hb2
    have b1 : lastC (allG rest) + ((cbytes g.chunks).length : Int) ≤ maxI64 := by
      rw [i2]; simp only [maxI64]; omega
    have b2 : lastR (allG rest) + ((cdata g.chunks).length : Int) ≤ maxI64 := by
      rw [i3]; simp only [maxI64]; omega
    obtain ⟨_, f2, f3⟩ := foldl_chunkStep_ok g.chunks (allG rest) b1 b2
    have hai := appendIndex_cum g.chunks (allG rest) b1 b2
    have har := appendRecord_ok (g.chunks.foldl chunkStep (allG rest)) (g.blocks.flatten.length : Int) 0 indexType
      (by omega) (by omega) (by rw [f2, i2]; simp only [maxI64]; omega) (by rw [f3, i3]; simp only [maxI64]; omega)
    have hall : allG (g :: rest) = g.chunks.foldl chunkStep (allG rest) ++
        [⟨lastC (g.chunks.foldl chunkStep (allG rest)) + (g.blocks.flatten.length : Int),
          lastR (g.chunks.foldl chunkStep (allG rest)) + 0, indexType⟩] := by
      simp only [allG, har, Option.getD_some]
    refine ⟨?_, ?_, ?_⟩
    · rw [idxList_cons, mergeIndexes_snoc, i1]
      simp only [mergeIndexes, r1, hai, har, hall]
    · rw [hall]
      show (lastRecord (_ ++ [_])).comp = _
      rw [lastRecord_snoc, f2, i2, hlen]
      simp only; omega
    · rw [hall]
      show (lastRecord (_ ++ [_])).raw = _
      rw [lastRecord_snoc, f3, i3, hlen2]
      simp only; omega


/-! ### `Reader.Reset` on a closed stream -/

theorem tr_nil_of_recs (tr : List Grp) (h : recsOf tr = []) (h1 : (cbytes tr).length < 2 ^ 63)
    (h2 : (cdata tr).length < 2 ^ 63) : tr = [] := by
  obtain ⟨r1, _, _⟩ := recsOf_ok tr (by simp only [maxI64]; omega) (by simp only [maxI64]; omega)
  rw [r1] at h
  cases tr with
  | nil => rfl
  | cons g gs => simp [cum] at h

/-- **C05 (index)** on the structural description of a closed stream. -/
theorem fin_open (crc : List UInt8 → Nat) (hcrc : ∀ l, crc l < 2 ^ 32)
    (s : XWState) (rgs : List IG) (tr : List Grp) (foot : List UInt8)
    (hf : Fin crc s rgs tr foot)
    (hsz : ∀ c ∈ chunksOf s.zlog [] [], 4 < c.1.length)
    (hfl : ∀ p ∈ s.zlog, p.1.kind = .zflush → p.1.emitted ≠ [])
    (hg : s.sink.got.length < 2 ^ 63) (hdl : (dataOf s.zlog).length < 2 ^ 63) :
    ∃ r, openIndex .fixed crc s.sink.got = .ok r ∧ r.recs = s.allRecs := by
  have hgot := hf.got
  have hdata := hf.data
  rw [hgot] at hg
  rw [hdata] at hdl
  simp only [List.length_append, cdata_append] at hg hdl
  have htr : tr = [] := tr_nil_of_recs tr hf.trEmpty (by omega) (by omega)
  subst htr
  simp only [cbytes_nil, List.append_nil, List.length_nil, Nat.add_zero, cdata_nil] at hgot hdata hg hdl
  have hbnd : Bnd rgs := by
    refine ⟨by omega, by omega, ?_⟩
    intro c hc
    have hc' : c ∈ chunksR rgs ++ [] := by simpa using hc
    have hne : c.1 ≠ [] := by
      intro h0
      obtain ⟨p, hp1, hp2, hp3⟩ := hf.flushed c hc' h0
      exact hfl p hp1 hp2 hp3
    apply hsz
    rw [chunksOf_eq, hf.closed, hf.opn, opt_empty, List.append_nil, ne_cons, opt_empty, List.nil_append, mem_ne]
    exact ⟨hc', fun h => hne h.1⟩
  obtain ⟨hbk1, hbk0⟩ := backOf_le rgs
  have hfoot := decodeFooter_ok (bytesR rgs) foot (backOf rgs) hf.footEnc hbk0 (by omega)
  have hpos : (((bytesR rgs ++ foot).length : Nat) : Int) - (foot.length : Int) = ((bytesR rgs).length : Int) := by
    simp only [List.length_append]; omega
  obtain ⟨alloc', hwalk⟩ := walk_ok crc hcrc rgs ((bytesR rgs ++ foot).length + 2) foot
    ((bytesR rgs).length : Int) (backOf rgs) 0 [] 0 hf.wf hbnd
    (by have := length_le_bytesR crc rgs hf.wf
        simp only [List.length_append]; omega)
    rfl (by omega) (by omega)
  obtain ⟨m1, m2, m3⟩ := merge_ok rgs hbnd
  have har := appendRecord_ok (allG rgs) (foot.length : Int) 0 footerType (by omega) (by omega)
    (by rw [m2]; simp only [maxI64]; omega) (by rw [m3]; simp only [maxI64]; omega)
  have hall : s.allRecs = allG rgs ++
      [⟨lastC (allG rgs) + (foot.length : Int), lastR (allG rgs) + 0, footerType⟩] := by
    rw [hf.all]
    show (appendRecord (allG rgs) (foot.length : Int) 0 footerType).getD (allG rgs) = _
    rw [har]
    rfl
  rw [hgot, hall]
  unfold openIndex
  simp only [hfoot, hpos, hwalk, List.append_nil, m1, har]
  exact ⟨_, rfl, rfl⟩

end Compress.Proofs.XWShape
