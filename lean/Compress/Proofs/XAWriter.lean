/-
C15 helpers: every segment in front of the footer of a stream `xflate.Writer` closed is
transparent (non-vacuity of C15's extra hypothesis on the Writer's own streams).
-/
import Compress.Proofs.XGWriter

namespace Compress.Proofs.XFlateAccept
open Compress Compress.XFlate Compress.Proofs.XWLog Compress.Proofs.XWShape Compress.Proofs.XGLayout
  Compress.Proofs.XGDecode Compress.Proofs.XGWriter

theorem segsG_transp (crc : List UInt8 → Nat) : ∀ (rgs : List IG), WFR crc rgs →
    (∀ c ∈ chunksR rgs, ∃ d, Transp c.1 d) → ∀ sg ∈ segsG rgs, ∃ d, Transp sg.bytes d
  | [], _, _, sg, h => by simp [segsG] at h
  | g :: rest, hw, hc, sg, h => by
    simp only [segsG, List.mem_append, List.mem_map, List.mem_singleton] at h
    rcases h with h | ⟨c, hc1, rfl⟩ | rfl
    · exact segsG_transp crc rest hw.2 (fun c hcc => hc c (List.mem_append_left _ hcc)) sg h
    · exact hc c (List.mem_append_right _ hc1)
    · exact ⟨[], transp_meta _ _ _ hw.1 (by decide)⟩

/-- on the structural description of a closed stream: all segments but the last are transparent. -/
theorem fin_transp (crc : List UInt8 → Nat)
    (s : XWState) (rgs : List IG) (tr : List Grp) (foot : List UInt8)
    (hf : Fin crc s rgs tr foot)
    (hch : ∀ c ∈ chunksOf s.zlog [] [], ZChunkOK c.1 c.2 ∧ 4 < c.1.length ∧
        (c.1.reverse.take 4).reverse = [0x00, 0x00, 0xff, 0xff])
    (hfl : ∀ p ∈ s.zlog, p.1.kind = .zflush → p.1.emitted ≠ [])
    (hg : s.sink.got.length < 2 ^ 63) (hdl : (dataOf s.zlog).length < 2 ^ 63) :
    ∀ j, j + 1 < s.allRecs.length →
      ∃ d, Transp (slice s.sink.got (getRecords s.allRecs j).1.comp (getRecords s.allRecs j).2.comp) d := by
  have hgot := hf.got
  have hdata := hf.data
  rw [hgot] at hg
  rw [hdata] at hdl
  simp only [List.length_append, cdata_append] at hg hdl
  have htr : tr = [] := tr_nil_of_recs tr hf.trEmpty (by omega) (by omega)
  subst htr
  simp only [cbytes_nil, List.append_nil, List.length_nil, Nat.add_zero, cdata_nil] at hgot hdata hg hdl
  have hmem : ∀ c ∈ chunksR rgs, c ∈ chunksOf s.zlog [] [] := by
    intro c hc
    have hc' : c ∈ chunksR rgs ++ [] := by simpa using hc
    have hne : c.1 ≠ [] := by
      intro h0
      obtain ⟨p, hp1, hp2, hp3⟩ := hf.flushed c hc' h0
      exact hfl p hp1 hp2 hp3
    rw [chunksOf_eq, hf.closed, hf.opn, opt_empty, List.append_nil, ne_cons, opt_empty, List.nil_append, mem_ne]
    exact ⟨hc', fun h => hne h.1⟩
  have hbnd : Bnd rgs := ⟨by omega, by omega, fun c hc => (hch c (hmem c hc)).2.1⟩
  obtain ⟨_, m2, m3⟩ := merge_ok rgs hbnd
  have har := appendRecord_ok (allG rgs) (foot.length : Int) 0 footerType (by omega) (by omega)
    (by rw [m2]; simp only [maxI64]; omega) (by rw [m3]; simp only [maxI64]; omega)
  have hall : s.allRecs = cumS 0 0 (segsG rgs ++ [footSeg foot]) := by
    rw [hf.all]
    show (appendRecord (allG rgs) (foot.length : Int) 0 footerType).getD (allG rgs) = _
    rw [har, Option.getD_some, cumS_append, ← allG_cum rgs hbnd, bytes_segsG, data_segsG, m2, m3]
    simp only [cumS, footSeg, List.length_nil, List.append_cancel_left_eq, List.cons.injEq, Record.mk.injEq,
      and_true]
    constructor <;> omega
  have hstream : s.sink.got = (bytesL (segsG rgs ++ [footSeg foot])).flatten := by
    rw [hgot, bytesL_append, List.flatten_append, bytes_segsG]
    simp [bytesL, footSeg]
  rw [hall, hstream]
  intro j hj
  rw [cumS_length] at hj
  simp only [List.length_append, List.length_cons, List.length_nil] at hj
  rw [seg_bytes _ j (by simp only [List.length_append, List.length_cons, List.length_nil]; omega)]
  have hjl : j < (segsG rgs).length := by omega
  rw [List.getElem?_append_left hjl, List.getElem?_eq_getElem hjl]
  simp only [Option.map_some, Option.getD_some]
  refine segsG_transp crc rgs hf.wf ?_ _ (List.getElem_mem hjl)
  intro c hc
  exact ⟨c.2, transp_of_chunk (hch c (hmem c hc)).1⟩

end Compress.Proofs.XFlateAccept
