/-
C01 (flate refinement), components 4 and 6: stored blocks, block headers, and
one `step` of the reader against the specification.
-/
import Compress.Proofs.FlateBlock
import Compress.Proofs.MetaBits

namespace Compress.Proofs.FlateRefine
open Compress Compress.Flate Compress.Prefix Compress.Window
open Compress.Proofs.Window
open Compress.Flate.Impl (FState FErr Step finishBlock readBlock readRawData readBlockHeader stepOnce)

/-! ### whole bytes -/

theorem toBytes_append8 (l rest : Bits) (hl : l.length = 8) :
    Bits.toBytes (l ++ rest) = UInt8.ofNat (Bits.toNat l) :: Bits.toBytes rest := by
  match l, hl with
  | [b0, b1, b2, b3, b4, b5, b6, b7], _ => exact Compress.Proofs.Meta.toBytes_cons8 _ _ _ _ _ _ _ _ rest

theorem takeBits_ok (n : Nat) (bits : Bits) (h : n ≤ bits.length) :
    takeBits n bits = some (Bits.toNat (bits.take n), bits.drop n) := by
  unfold takeBits
  simp only
  rw [if_neg (by rw [List.length_take]; omega)]

theorem takeBits_none (n : Nat) (bits : Bits) (h : bits.length < n) : takeBits n bits = none := by
  unfold takeBits
  simp only
  rw [if_pos (by rw [List.length_take]; omega)]

theorem takeBytes_take : ∀ (k n : Nat) (out : Array UInt8) (bits : Bits), 8 * k ≤ bits.length →
    takeBytes (k + n) out bits =
      takeBytes n (out ++ (Bits.toBytes (bits.take (8 * k))).toArray) (bits.drop (8 * k)) := by
  intro k
  induction k with
  | zero =>
    intro n out bits _
    simp [Bits.toBytes, Bits.toBytesAux]
  | succ k ih =>
    intro n out bits h
    have e : k + 1 + n = (k + n) + 1 := by omega
    rw [e, takeBytes, takeBits_ok 8 bits (by omega)]
    simp only
    rw [ih n _ _ (by rw [List.length_drop]; omega)]
    have e2 : 8 * (k + 1) = 8 + 8 * k := by omega
    rw [e2, List.take_add, toBytes_append8 _ _ (by rw [List.length_take]; omega), List.drop_drop]
    congr 1
    apply Array.ext'
    simp

theorem toBytes_take_length : ∀ (k : Nat) (bits : Bits), 8 * k ≤ bits.length →
    (Bits.toBytes (bits.take (8 * k))).length = k := by
  intro k
  induction k with
  | zero => intro bits _; rfl
  | succ k ih =>
    intro bits h
    have e2 : 8 * (k + 1) = 8 + 8 * k := by omega
    rw [e2, List.take_add, toBytes_append8 _ _ (by rw [List.length_take]; omega), List.length_cons,
      ih _ (by rw [List.length_drop]; omega)]

theorem takeBytes_short (n : Nat) (out : Array UInt8) (bits : Bits) (h : bits.length / 8 < n) :
    takeBytes n out bits =
      (out ++ (Bits.toBytes (bits.take (8 * (bits.length / 8)))).toArray, none) := by
  obtain ⟨m, rfl⟩ : ∃ m, n = bits.length / 8 + (m + 1) := ⟨n - bits.length / 8 - 1, by omega⟩
  rw [takeBytes_take _ _ _ _ (by omega), takeBytes, takeBits_none 8 _ (by rw [List.length_drop]; omega)]

/-! ### `stepOnce` in pieces -/

/-- the step function proper: new state and the error it raised. -/
def stepCore (s : FState) : FState × Option FErr :=
  match s.step with
  | .header => match readBlockHeader s with | .ok s' => (s', none) | .error e => (s, some e)
  | .raw => match readRawData s with
    | .ok s' => (s', none)
    | .error e =>
      let want := min s.dict.availSize s.blkLen
      let k := min want (s.bits.length / 8)
      let (d, _) := s.dict.writeBytes (Bits.toBytes (s.bits.take (8 * k)))
      ({ s with dict := d, bits := s.bits.drop (8 * k) }, some e)
  | .block => readBlock (s.bits.length + s.cpyLen + 40000) s

/-- the flush `Read` performs once an error is recorded and nothing is pending. -/
def finalFlush (s' : FState) : FState :=
  if s'.err ≠ none ∧ s'.toRead.isEmpty then
    { s' with dict := s'.dict.readFlush.1, toRead := s'.dict.readFlush.2 }
  else s'

theorem stepOnce_eq (s : FState) : stepOnce s = finalFlush (applyErr (stepCore s)) := by
  unfold stepOnce finalFlush applyErr stepCore
  rfl

open Compress.Flate.Impl in
theorem readRawData_eq (s : FState) :
    readRawData s =
      let want := min s.dict.availSize s.blkLen
      let k := min want (s.bits.length / 8)
      let d := (s.dict.writeBytes (Bits.toBytes (s.bits.take (8 * k)))).1
      if k < want then .error .unexpectedEOF
      else if s.blkLen - k > 0 then
        .ok { s with dict := d.readFlush.1, bits := s.bits.drop (8 * k), blkLen := s.blkLen - k,
                     toRead := d.readFlush.2, step := .raw }
      else .ok (finishBlock { s with dict := d, bits := s.bits.drop (8 * k), blkLen := s.blkLen - k }) := by
  unfold readRawData
  simp only [bind, Except.bind, pure, Except.pure, throw, throwThe, MonadExceptOf.throw]

/-- **Component 4.** One `readRawData` step of a stored block. -/
theorem raw_sim (total : Nat) (R : Result) (h8 : total % 8 = 0) (s : FState) (out : Array UInt8)
    (del : List UInt8) (hT : s.toRead = []) (hE : s.err = none) (hS : s.step = .raw)
    (I : Inv 32768 s.dict out.toList del) (NS : NotStuck s.dict out del) (Rl : Rel total R s out) :
    Post total R s del (applyErr (stepCore s)) := by
  obtain ⟨hic, hbl, fuel, hf, hR⟩ := Rl.raw hE hS
  have hacc := inv_acc_le I
  simp only [Array.length_toList] at hacc
  unfold stepCore
  rw [hS]
  simp only
  rw [readRawData_eq]
  simp only
  generalize hk : min (min s.dict.availSize s.blkLen) (s.bits.length / 8) = k
  have hk8 : 8 * k ≤ s.bits.length := by omega
  have hbytes := toBytes_take_length k s.bits hk8
  obtain ⟨hn, I1⟩ := I.writeBytes (Bits.toBytes (s.bits.take (8 * k)))
  have hmin : min (Bits.toBytes (s.bits.take (8 * k))).length s.dict.availSize = k := by
    rw [hbytes]; omega
  rw [hmin] at I1
  generalize hby : Bits.toBytes (s.bits.take (8 * k)) = bytes at hbytes I1
  have htk : bytes.take k = bytes := by rw [← hbytes]; exact List.take_length
  rw [htk] at I1
  have hout : (out ++ bytes.toArray).toList = out.toList ++ bytes := by simp
  have hsz : (out ++ bytes.toArray).size = out.size + k := by simp [hbytes]
  rw [← hout] at I1
  have hdl : (s.bits.drop (8 * k)).length + 8 * k = s.bits.length := by
    rw [List.length_drop]; omega
  by_cases h1 : k < min s.dict.availSize s.blkLen
  · -- truncated input
    rw [if_pos h1]
    simp only [applyErr]
    have hshort := takeBytes_short s.blkLen out s.bits (by omega)
    have hk' : s.bits.length / 8 = k := by omega
    rw [hk', hby] at hshort
    rw [hshort] at hR
    refine ⟨out ++ bytes.toArray, by simpa [hT] using I1, fun h => by simp at h, ?_,
      Or.inr (Or.inl (by simp)), ?_⟩
    · refine Rel.mkErr Rl.tot (by have := Rl.len; simp only; omega) rfl ?_
      rw [hR]
      exact ⟨rfl, rfl, fun n hn => by simp [rawS] at hn⟩
    · intro _ h; exact absurd hT h
  · rw [if_neg h1]
    have hsplit : takeBytes s.blkLen out s.bits =
        takeBytes (s.blkLen - k) (out ++ bytes.toArray) (s.bits.drop (8 * k)) := by
      have : s.blkLen = k + (s.blkLen - k) := by omega
      rw [this, takeBytes_take k _ out s.bits hk8, hby]
      congr 1; omega
    rw [hsplit] at hR
    by_cases h2 : s.blkLen - k > 0
    · -- window full: flush, stay in the raw state
      rw [if_pos h2]
      simp only [applyErr]
      obtain ⟨I2, hav, hall, hrd⟩ := inv_flush I1
      refine ⟨out ++ bytes.toArray, I2, fun _ => Or.inr hav, ?_, Or.inl ?_, ?_⟩
      · refine ⟨Rl.tot, by have := Rl.len; simp only; omega, ?_, ?_, ?_, ?_⟩
        · intro e he; simp only [hE] at he; cases he
        · intro _ h; cases h
        · intro _ _; exact ⟨hic, h2, fuel, by simp only; omega, hR⟩
        · intro _ h; cases h
      · simp only
        intro hfl
        rw [hfl, List.append_nil] at hall
        have : del.length = out.size + k := by rw [hall]; simp [hbytes]
        rcases NS with h | h
        · omega
        · unfold Dict.availSize at hk h1 h; omega
      · intro h; exact absurd hE h
    · -- the stored block is complete
      rw [if_neg h2]
      simp only [applyErr]
      have hk0 : s.blkLen - k = 0 := by omega
      rw [hk0, takeBytes] at hR
      refine ⟨out ++ bytes.toArray, ?_, ?_, ?_, ?_, ?_⟩
      · rw [finishBlock_dict, finishBlock_toRead]; simpa [hT] using I1
      · intro _; left; rw [finishBlock_toRead]; simp only [hT, List.append_nil]; omega
      · exact finish_rel total R h8 _ _ fuel Rl.tot (by have := Rl.len; simp only; omega) hE hic
          (by simp only; omega) hR
      · right; right
        refine Nat.lt_of_le_of_lt (finishBlock_bits_le _) ?_
        show (s.bits.drop (8 * k)).length < s.bits.length
        omega
      · intro _ h; rw [finishBlock_toRead] at h; exact absurd hT h

open Compress.Flate.Impl in
theorem readBlockHeader_eq (s : FState) :
    readBlockHeader s =
      match takeBits 1 s.bits with
      | none => .error .unexpectedEOF
      | some (f, b1) =>
        match takeBits 2 b1 with
        | none => .error .unexpectedEOF
        | some (t, b2) =>
          match t with
          | 0 =>
            match takeBits 16 (b2.drop (padTo8 (s.total - b2.length))) with
            | none => .error .unexpectedEOF
            | some (n, b4) =>
              match takeBits 16 b4 with
              | none => .error .unexpectedEOF
              | some (nn, b5) =>
                if n + nn ≠ 65535 then .error .corrupted
                else if n = 0 then
                  .ok (finishBlock { s with last := f == 1, bits := b5, blkLen := n,
                                            dict := s.dict.readFlush.1, toRead := s.dict.readFlush.2 })
                else .ok { s with last := f == 1, bits := b5, blkLen := n, step := .raw }
          | 1 => .ok { s with last := f == 1, bits := b2, litTree := fixedLit, distTree := fixedDist,
                              step := .block }
          | 2 =>
            match readPrefixCodes b2 with
            | .error e => .error e
            | .ok (lt, dt, b3) =>
              .ok { s with last := f == 1, bits := b3, litTree := lt, distTree := dt, step := .block }
          | _ => .error .corrupted := by
  unfold readBlockHeader
  simp only [bind, Except.bind, pure, Except.pure, throw, throwThe, MonadExceptOf.throw, readBits_eq]
  cases h1 : takeBits 1 s.bits with
  | none => rfl
  | some p =>
    obtain ⟨f, b1⟩ := p
    simp only
    cases h2 : takeBits 2 b1 with
    | none => rfl
    | some q =>
      obtain ⟨t, b2⟩ := q
      simp only
      match t with
      | 0 =>
        simp only [padTo8]
        cases h3 : takeBits 16 (List.drop ((8 - (s.total - List.length b2) % 8) % 8) b2) with
        | none => rfl
        | some r =>
          obtain ⟨n, b4⟩ := r
          simp only
          cases h4 : takeBits 16 b4 with
          | none => rfl
          | some r2 => rfl
      | 1 => rfl
      | 2 =>
        simp only
        cases h3 : readPrefixCodes b2 with
        | error e => rfl
        | ok r => rfl
      | t + 3 => rfl

theorem finishS_beq (total fuel bfinal : Nat) (out : Array UInt8) (rest : Bits) :
    finishS total fuel (bfinal == 1) out rest =
      if bfinal = 1 then
        { out := out, verdict := .ok (total - rest.length + padTo8 (total - rest.length)) }
      else decodeBlocks total fuel out rest := by
  unfold finishS
  by_cases h : bfinal = 1
  · simp [h]
  · simp [h]

theorem decodeBlocks_eq (total f : Nat) (out : Array UInt8) (bits : Bits) :
    decodeBlocks total (f + 1) out bits =
      match takeBits 1 bits with
      | none => { out := out, verdict := .unexpectedEOF }
      | some (bfinal, b1) =>
        match takeBits 2 b1 with
        | none => { out := out, verdict := .unexpectedEOF }
        | some (t, b2) =>
          match t with
          | 0 =>
            match takeBits 16 (b2.drop (padTo8 (total - b2.length))) with
            | none => { out := out, verdict := .unexpectedEOF }
            | some (len, b4) =>
              match takeBits 16 b4 with
              | none => { out := out, verdict := .unexpectedEOF }
              | some (nlen, b5) =>
                if len + nlen ≠ 65535 then { out := out, verdict := .corrupt }
                else rawS total f (bfinal == 1) (takeBytes len out b5)
          | 1 => blockS total f (bfinal == 1)
                  (inflateBlock Flate.fixedLit.tab Flate.fixedDist.tab (b2.length + 1) out b2)
          | 2 =>
            match readDynamic b2 with
            | .error v => { out := out, verdict := v }
            | .ok (lit, dist, b3) =>
              blockS total f (bfinal == 1) (inflateBlock lit.tab dist.tab (b3.length + 1) out b3)
          | _ => { out := out, verdict := .corrupt } := by
  rw [decodeBlocks]
  cases h1 : takeBits 1 bits with
  | none => rfl
  | some p =>
    obtain ⟨bfinal, b1⟩ := p
    simp only
    cases h2 : takeBits 2 b1 with
    | none => rfl
    | some q =>
      obtain ⟨t, b2⟩ := q
      simp only
      match t with
      | 0 =>
        simp only
        cases h3 : takeBits 16 (List.drop (padTo8 (total - List.length b2)) b2) with
        | none => rfl
        | some r =>
          obtain ⟨n, b4⟩ := r
          simp only
          cases h4 : takeBits 16 b4 with
          | none => rfl
          | some r2 =>
            obtain ⟨nn, b5⟩ := r2
            simp only
            by_cases h5 : n + nn ≠ 65535
            · rw [if_pos h5, if_pos h5]
            · rw [if_neg h5, if_neg h5]
              generalize takeBytes n out b5 = p
              obtain ⟨o, r⟩ := p
              cases r <;> simp only [rawS, finishS_beq]
      | 1 =>
        simp only
        generalize inflateBlock Flate.fixedLit.tab Flate.fixedDist.tab (b2.length + 1) out b2 = p
        obtain ⟨o, r⟩ := p
        cases r <;> simp only [blockS, finishS_beq]
      | 2 =>
        simp only
        cases h3 : readDynamic b2 with
        | error e => rfl
        | ok r =>
          obtain ⟨lit, dist, b3⟩ := r
          simp only
          generalize inflateBlock lit.tab dist.tab (b3.length + 1) out b3 = p
          obtain ⟨o, r⟩ := p
          cases r <;> simp only [blockS, finishS_beq]
      | t + 3 => rfl

/-! ### the dynamic header never fails with an `ok` verdict -/

theorem readLengths_err (cl : HuffTab) : ∀ (fuel n : Nat) (acc : List Nat) (bits : Bits) (v : Verdict),
    readLengths cl fuel n acc bits = .error v → v = .corrupt ∨ v = .unexpectedEOF := by
  intro fuel
  induction fuel with
  | zero => intro n acc bits v h; simp [readLengths] at h
  | succ fuel ih =>
    intro n acc bits v h
    rw [readLengths] at h
    repeat' (split at h)
    all_goals first
      | (cases h; simp; done)
      | exact ih _ _ _ _ h
      | (cases h; done)

theorem readDynamic_err (bits : Bits) (v : Verdict) (h : readDynamic bits = .error v) :
    v = .corrupt ∨ v = .unexpectedEOF := by
  unfold readDynamic at h
  split at h
  · cases h; simp
  split at h
  · cases h; simp
  split at h
  · cases h; simp
  simp only at h
  split at h
  · cases h; simp
  split at h
  · cases h; simp
  split at h
  · cases h; simp
  split at h
  · rename_i h'; cases h; exact readLengths_err _ _ _ _ _ _ h'
  split at h
  · cases h; simp
  · cases h

/-! ### the block header step -/

theorem specOut_of_not_copy (s : FState) (out : Array UInt8) (h : s.inCopy = false) :
    specOut s out = out := by
  unfold specOut; rw [h]; rfl

/-- a step that fails where the specification stops with verdict `v`. -/
theorem post_err (total : Nat) (R : Result) (s : FState) (out : Array UInt8) (del : List UInt8)
    (v : Verdict) (hv : v = .corrupt ∨ v = .unexpectedEOF) (hR : R = { out := out, verdict := v })
    (hT : s.toRead = []) (I : Inv 32768 s.dict out.toList del) (Rl : Rel total R s out) :
    Post total R s del (applyErr (s, some (verr v))) := by
  simp only [applyErr]
  refine ⟨out, by simpa [hT] using I, fun h => by simp at h, ?_, Or.inr (Or.inl (by simp)), ?_⟩
  · refine Rel.mkErr Rl.tot Rl.len rfl ?_
    rw [hR]
    refine ⟨rfl, rfl, fun n hn => ?_⟩
    simp only at hn
    rcases hv with hv | hv <;> rw [hv] at hn <;> cases hn
  · intro _ h; exact absurd hT h

attribute [local irreducible] Impl.fixedLit Impl.fixedDist Flate.fixedLit Flate.fixedDist in
theorem header_sim (HE : HeaderEquiv) (FE : FixedEquiv) (total : Nat) (R : Result) (h8 : total % 8 = 0)
    (s : FState) (out : Array UInt8) (del : List UInt8) (hT : s.toRead = []) (hE : s.err = none)
    (hS : s.step = .header) (I : Inv 32768 s.dict out.toList del) (NS : NotStuck s.dict out del)
    (Rl : Rel total R s out) :
    Post total R s del (applyErr (stepCore s)) := by
  obtain ⟨hic, fuel, hf, hR⟩ := Rl.hdr hE hS
  obtain ⟨f, rfl⟩ : ∃ f, fuel = f + 1 := ⟨fuel - 1, by omega⟩
  rw [decodeBlocks_eq] at hR
  have hlen := Rl.len
  have htot := Rl.tot
  subst htot
  have htot : s.total = s.total := rfl
  unfold stepCore
  rw [hS]
  simp only
  rw [readBlockHeader_eq]
  cases h1 : takeBits 1 s.bits with
  | none =>
    rw [h1] at hR
    exact post_err s.total R s out del _ (Or.inr rfl) hR hT I Rl
  | some p =>
    obtain ⟨bfinal, b1⟩ := p
    rw [h1] at hR
    simp only at hR ⊢
    have l1 := takeBits_length h1
    cases h2 : takeBits 2 b1 with
    | none =>
      rw [h2] at hR
      exact post_err s.total R s out del _ (Or.inr rfl) hR hT I Rl
    | some q =>
      obtain ⟨t, b2⟩ := q
      rw [h2] at hR
      simp only at hR ⊢
      have l2 := takeBits_length h2
      match t with
      | 0 =>
        simp only at hR ⊢
        cases h3 : takeBits 16 (List.drop (padTo8 (s.total - List.length b2)) b2) with
        | none =>
          rw [h3] at hR
          exact post_err s.total R s out del _ (Or.inr rfl) hR hT I Rl
        | some r =>
          obtain ⟨n, b4⟩ := r
          rw [h3] at hR
          simp only at hR ⊢
          have l3 := takeBits_length h3
          rw [List.length_drop] at l3
          cases h4 : takeBits 16 b4 with
          | none =>
            rw [h4] at hR
            exact post_err s.total R s out del _ (Or.inr rfl) hR hT I Rl
          | some r2 =>
            obtain ⟨nn, b5⟩ := r2
            rw [h4] at hR
            simp only at hR ⊢
            have l4 := takeBits_length h4
            by_cases h5 : n + nn ≠ 65535
            · rw [if_pos h5] at hR ⊢
              exact post_err s.total R s out del _ (Or.inl rfl) hR hT I Rl
            · rw [if_neg h5] at hR ⊢
              by_cases h6 : n = 0
              · -- empty stored block
                rw [if_pos h6]
                subst h6
                simp only [applyErr]
                obtain ⟨I1, hav, hall, hrd⟩ := inv_flush I
                refine ⟨out, ?_, ?_, ?_, ?_, ?_⟩
                · rw [finishBlock_dict, finishBlock_toRead]; exact I1
                · intro _; right; rw [finishBlock_dict]; exact hav
                · exact finish_rel s.total R h8 _ out f htot (by simp only; omega) hE hic
                    (by simp only; omega) hR
                · right; right
                  refine Nat.lt_of_le_of_lt (finishBlock_bits_le _) ?_
                  show b5.length < s.bits.length
                  omega
                · intro _ _; rw [finishBlock_dict]; exact hrd
              · rw [if_neg h6]
                simp only [applyErr]
                refine ⟨out, by simpa [hT] using I, fun _ => by simpa [hT] using NS, ?_,
                  Or.inr (Or.inr (by simp only; omega)), ?_⟩
                · refine ⟨htot, by simp only; omega, ?_, ?_, ?_, ?_⟩
                  · intro e he; simp only [hE] at he; cases he
                  · intro _ h; cases h
                  · intro _ _; exact ⟨hic, by simp only; omega, f, by simp only; omega, hR⟩
                  · intro _ h; cases h
                · intro h; exact absurd hE h
      | 1 =>
        simp only [applyErr] at hR ⊢
        refine ⟨out, by simpa [hT] using I, fun _ => by simpa [hT] using NS, ?_,
          Or.inr (Or.inr (by simp only; omega)), ?_⟩
        · refine Rel.mkBlock htot (by simp only; omega) hE rfl ?_
          refine ⟨Flate.fixedLit.tab, Flate.fixedDist.tab, 288, 32, b2.length + 1, f, by omega, by omega,
            FE.1, FE.2, Nat.le_refl _, by simp only; omega, ?_, ?_⟩
          · intro h; rw [hic] at h; cases h
          · simp only [specOut, hic, Bool.false_eq_true, if_false]; exact hR
        · intro h; exact absurd hE h
      | 2 =>
        simp only at hR ⊢
        have hH := HE b2
        cases h3 : readDynamic b2 with
        | error v =>
          rw [h3] at hR hH
          simp only at hR hH
          rw [hH]
          exact post_err s.total R s out del _ (readDynamic_err _ _ h3) hR hT I Rl
        | ok r =>
          obtain ⟨lit, dist, b3⟩ := r
          rw [h3] at hR hH
          simp only at hR hH
          obtain ⟨l3, lt, dt, hI, hlt, hdt⟩ := hH
          rw [hI]
          simp only [applyErr]
          refine ⟨out, by simpa [hT] using I, fun _ => by simpa [hT] using NS, ?_,
            Or.inr (Or.inr (by simp only; omega)), ?_⟩
          · refine Rel.mkBlock htot (by simp only; omega) hE rfl ?_
            refine ⟨lit.tab, dist.tab, 286, 30, b3.length + 1, f, by omega, by omega, hlt, hdt,
              Nat.le_refl _, by simp only; omega, ?_, ?_⟩
            · intro h; rw [hic] at h; cases h
            · simp only [specOut, hic, Bool.false_eq_true, if_false]; exact hR
          · intro h; exact absurd hE h
      | t + 3 =>
        simp only at hR ⊢
        exact post_err s.total R s out del _ (Or.inl rfl) hR hT I Rl

/-! ### the invariant of the reader at `Read` boundaries -/

/-- `del` = bytes delivered so far; the window holds `out` (the specification's output
    so far) of which `del ++ s.toRead` has been flushed. -/
def J (total : Nat) (R : Result) (s : FState) (del : List UInt8) : Prop :=
  ∃ out : Array UInt8, Inv 32768 s.dict out.toList (del ++ s.toRead) ∧
    (s.err = none → NotStuck s.dict out (del ++ s.toRead)) ∧ Rel total R s out ∧
    (s.err ≠ none → s.dict.rdPos = s.dict.wrPos)

/-- one step (before the final flush) from a state satisfying the invariant. -/
theorem step_post (HE : HeaderEquiv) (FE : FixedEquiv) (total : Nat) (R : Result) (h8 : total % 8 = 0)
    (s : FState) (del : List UInt8) (hJ : J total R s del) (hT : s.toRead = []) (hE : s.err = none) :
    Post total R s del (applyErr (stepCore s)) := by
  obtain ⟨out, I, NS, Rl, _⟩ := hJ
  rw [hT, List.append_nil] at I NS
  have NS := NS hE
  cases hS : s.step with
  | header => exact header_sim HE FE total R h8 s out del hT hE hS I NS Rl
  | raw => exact raw_sim total R h8 s out del hT hE hS I NS Rl
  | block =>
    have : stepCore s = readBlock (s.bits.length + s.cpyLen + 40000) s := by
      unfold stepCore; rw [hS]
    rw [this]
    exact readBlock_sim total R h8 _ s out del hT hE hS I NS Rl (by split <;> omega)

theorem post_J (total : Nat) (R : Result) (s0 s1 : FState) (del : List UInt8)
    (h : Post total R s0 del s1) :
    J total R (finalFlush s1) del ∧
    ((finalFlush s1).toRead ≠ [] ∨ (finalFlush s1).err ≠ none ∨
      (finalFlush s1).bits.length < s0.bits.length) := by
  obtain ⟨out, I, NS, Rl, hp, hrd⟩ := h
  unfold finalFlush
  by_cases hc : s1.err ≠ none ∧ s1.toRead.isEmpty = true
  · rw [if_pos hc]
    obtain ⟨he, ht⟩ := hc
    have ht' : s1.toRead = [] := by simpa using ht
    rw [ht', List.append_nil] at I
    obtain ⟨I1, hav, hall, hrd1⟩ := inv_flush I
    refine ⟨⟨out, I1, fun _ => Or.inr hav, ?_, fun _ => hrd1⟩, Or.inr (Or.inl he)⟩
    exact ⟨Rl.tot, Rl.len, Rl.err, Rl.hdr, Rl.raw, Rl.blk⟩
  · rw [if_neg hc]
    refine ⟨⟨out, I, NS, Rl, ?_⟩, hp⟩
    intro he
    refine hrd he ?_
    intro ht
    exact hc ⟨he, by simp [ht]⟩

end Compress.Proofs.FlateRefine
