/-
Stage lemma (d), slow path: for a length vector that is not Kraft-equal `ReadPrefixCodes` calls
`handleDegenerateCodes` (libbzip2's tables + exploration of the code tree, unassigned code words
completed by invalid symbols >= 258) and Decoder.Init; the resulting table decodes every bit
string as libbzip2's tables do, up to `ErrRel` (an unassigned code word is rejected as soon as it
is determined).

Layers: `BzImplTabDDefs` (the walk as a function `St` on words, interfaces), `BzImplTabDBits`
(getSymbol = St of the word), `BzImplTabDWalk` + `BzImplTabDTables` + `BzImplTabDStOK` (what the
tables of `mkCTab` make of `St`, and `CTab.decode` in terms of `St`), `BzImplTabDExplore` (the
invariant of `exploreCode`), `BzImplTabDRead` (the two-level table of a prefix-free code list).
-/
import Compress.Proofs.BzImplDefs
import Compress.Proofs.BzImplTabDStOK
import Compress.Proofs.BzImplTabDExplore
import Compress.Proofs.BzImplTabDRead

namespace Compress.Proofs.BzImpl
open Compress Compress.Bzip2 Compress.Prefix
open Compress.Bzip2.Impl (Err M State)
open Compress.Proofs.BzImpl.TabD
open Compress.Proofs.PrefixTables (ofNat_length)

namespace TabD

/-- the exploration state `handleDegenerateCodes` ends with. -/
def finalEx (lens : List Nat) : Impl.Explored :=
  (Impl.exploreCode (mkCTab lens) 23 { sym := 0 } { valid := Array.replicate 258 { sym := 0 } }).2

theorem mem_handle (lens : List Nat) (c : Code) :
    c ∈ Impl.handleDegenerateCodes lens ↔ Mem (finalEx lens) c := by
  show c ∈ ((finalEx lens).valid.toList ++ (finalEx lens).extra.toList).filter
    (fun c => c.len > 0) ↔ _
  unfold Mem
  rw [List.mem_filter, List.mem_append]
  simp only [gt_iff_lt, decide_eq_true_eq]
  exact ⟨fun h => ⟨h.2, h.1⟩, fun h => ⟨h.2, h.1⟩⟩

theorem word_length (c : Code) : c.word.length = c.len := ofNat_length _ _

theorem two_le_of_mem {α} (l : List α) (a b : α) (ha : a ∈ l) (hb : b ∈ l) (hne : a ≠ b) :
    2 ≤ l.length := by
  match l, ha, hb with
  | [x], ha, hb =>
    rw [List.mem_singleton] at ha hb
    exact absurd (ha.trans hb.symm) hne
  | _ :: _ :: _, _, _ => simp

theorem tabRel_deg (lens : List Nat) (n : Nat) (hok : LensOK lens n) :
    TabRel (Decoder.init (Impl.handleDegenerateCodes lens)) (mkCTab lens) n := by
  have h := stOK lens n hok
  obtain ⟨hleaf, hpf, hcov⟩ := explore_root (mkCTab lens) n h
  generalize hcs : Impl.handleDegenerateCodes lens = cs
  generalize ht : mkCTab lens = t at h hleaf hpf hcov
  have mem : ∀ c, c ∈ cs → Mem (Impl.exploreCode t 23 { sym := 0 }
      { valid := Array.replicate 258 { sym := 0 } }).2 c := by
    intro c hc
    rw [← hcs, mem_handle] at hc
    unfold finalEx at hc
    rw [ht] at hc
    exact hc
  have mem' : ∀ c, Mem (Impl.exploreCode t 23 { sym := 0 }
      { valid := Array.replicate 258 { sym := 0 } }).2 c → c ∈ cs := by
    intro c hc
    rw [← hcs, mem_handle]
    unfold finalEx
    rw [ht]
    exact hc
  have hM := h.max_le
  have hl : ∀ c ∈ cs, 1 ≤ c.len ∧ c.len ≤ 27 := fun c hc => by
    have := hleaf c (mem c hc)
    exact ⟨this.len_pos, by have := this.len_le; omega⟩
  have hv : ∀ c ∈ cs, c.val < 2 ^ c.len := fun c hc => (hleaf c (mem c hc)).val_lt
  have pf : PrefixFree cs := fun a ha b hb hne => hpf a b (mem a ha) (mem b hb) hne
  have h2 : 2 ≤ cs.length := by
    obtain ⟨a, ha, hap⟩ := hcov (List.replicate 21 false) (by simp)
    obtain ⟨b, hb, hbp⟩ := hcov (List.replicate 21 true) (by simp)
    apply two_le_of_mem cs a b (mem' a ha) (mem' b hb)
    intro hab
    subst hab
    have hpos := (hleaf a ha).len_pos
    have hwl := word_length a
    obtain ⟨r1, hr1⟩ := hap
    obtain ⟨r2, hr2⟩ := hbp
    cases hw : a.word with
    | nil => rw [hw] at hwl; simp at hwl; omega
    | cons x xs =>
      rw [hw] at hr1 hr2
      have e1 : x = false := by
        have := congrArg List.head? hr1
        simpa [List.replicate_succ] using this
      have e2 : x = true := by
        have := congrArg List.head? hr2
        simpa [List.replicate_succ] using this
      rw [e1] at e2
      cases e2
  intro bits
  obtain ⟨c, hcm, hcp⟩ := hcov (bits ++ List.replicate 21 false) (by simp)
  obtain ⟨hsz, hrs⟩ := readSymbol_of_prefix cs h2 hl hv pf c (mem' c hcm) bits 21 hcp
  have lc := hleaf c hcm
  have hspec := h.spec bits
  have hwl := word_length c
  unfold goSym specSym Impl.readSymbol
  rw [if_neg hsz, hrs]
  by_cases hlen : c.len ≤ bits.length
  · rw [if_pos hlen]
    have hwp : c.word <+: bits :=
      List.prefix_of_prefix_length_le hcp (List.prefix_append _ _) (by rw [hwl]; exact hlen)
    obtain ⟨r, hr⟩ := hwp
    have hdrop : bits.drop c.len = r := by
      rw [← hr, ← hwl, List.drop_left]
    rw [hdrop]
    -- a successful decode of the specification consumes a first accepted prefix of `bits`
    rcases lc.kind with hk | ⟨hsym, hnt⟩
    · have hsn := h.sym_lt _ _ hk
      have hstb : St t bits = .okay c.sym := by
        rw [← hr, h.stable _ _ (by rw [hk]; exact fun h => nomatch h), hk]
      simp only [ge_iff_le]
      rw [if_neg (by omega)]
      cases hd : t.decode n bits with
      | sym s rest =>
        rw [hd] at hspec
        obtain ⟨p, hp, hps, hmin⟩ := hspec
        have hs : s = c.sym := by
          have : St t bits = .okay s := by
            rw [hp, h.stable _ _ (by rw [hps]; exact fun h => nomatch h), hps]
          rw [hstb] at this
          injection this with this
          exact this.symm
        have hpe : p = c.word := by
          have hp1 : p <+: bits := ⟨rest, hp.symm⟩
          have hp2 : c.word <+: bits := ⟨r, hr⟩
          rcases List.prefix_or_prefix_of_prefix hp1 hp2 with ⟨x, hx⟩ | ⟨x, hx⟩
          · by_cases hxe : x = []
            · rw [hxe, List.append_nil] at hx; exact hx
            · have := lc.parents p x hx.symm hxe
              rw [hps] at this; cases this
          · by_cases hxe : x = []
            · rw [hxe, List.append_nil] at hx; exact hx.symm
            · have := hmin c.word x hx.symm hxe
              rw [hk] at this; cases this
        have hre : rest = r := by
          rw [hpe, ← hr] at hp
          exact (List.append_cancel_left hp).symm
        show (c.sym, r) = (s, rest)
        rw [hs, hre]
      | eof =>
        rw [hd] at hspec
        rw [hstb] at hspec
        cases hspec.1
      | bad =>
        rw [hd] at hspec
        rw [hstb] at hspec
        rcases hspec with h1 | ⟨h1, _⟩ <;> cases h1
    · have hn := h.n_le
      simp only [ge_iff_le]
      rw [if_pos (by omega)]
      cases hd : t.decode n bits with
      | sym s rest =>
        exfalso
        rw [hd] at hspec
        obtain ⟨p, hp, hps, hmin⟩ := hspec
        have hp1 : p <+: bits := ⟨rest, hp.symm⟩
        have hp2 : c.word <+: bits := ⟨r, hr⟩
        rcases List.prefix_or_prefix_of_prefix hp1 hp2 with ⟨x, hx⟩ | ⟨x, hx⟩
        · by_cases hxe : x = []
          · rw [hxe, List.append_nil] at hx
            have := hnt []
            rw [List.append_nil, ← hx, hps] at this
            rcases this with h1 | h1 <;> cases h1
          · have := lc.parents p x hx.symm hxe
            rw [hps] at this; cases this
        · have := hnt x
          rw [hx, hps] at this
          rcases this with h1 | h1 <;> cases h1
      | eof => exact ErrRel.early
      | bad => exact ErrRel.corrupt
  · rw [if_neg hlen]
    have hbp : bits <+: c.word :=
      List.prefix_of_prefix_length_le (List.prefix_append _ _) hcp (by rw [hwl]; omega)
    obtain ⟨x, hx⟩ := hbp
    have hxe : x ≠ [] := by
      intro hxe
      rw [hxe, List.append_nil] at hx
      rw [← hx] at hwl
      omega
    have hnb : St t bits = .needBits := lc.parents bits x hx.symm hxe
    have hlt : bits.length < t.maxLen := by have := lc.len_le; omega
    cases hd : t.decode n bits with
    | sym s rest =>
      exfalso
      rw [hd] at hspec
      obtain ⟨p, hp, hps, hmin⟩ := hspec
      have : St t bits = .okay s := by
        rw [hp, h.stable _ _ (by rw [hps]; exact fun h => nomatch h), hps]
      rw [hnb] at this; cases this
    | eof => exact ErrRel.ueof
    | bad =>
      exfalso
      rw [hd] at hspec
      rcases hspec with h1 | ⟨_, h1⟩
      · rw [hnb] at h1; cases h1
      · omega

end TabD

theorem tables_agree_degenerate : TablesAgreeOn (fun lens => ¬ Complete lens) := by
  intro lens n hok hnc
  refine ⟨Decoder.init (Impl.handleDegenerateCodes lens), ?_, TabD.tabRel_deg lens n hok⟩
  unfold Impl.treeOfLens
  rw [if_neg (show ¬ Impl.kraftSum lens = 2 ^ maxPrefixBits from hnc)]

end Compress.Proofs.BzImpl
