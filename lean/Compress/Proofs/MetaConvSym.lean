/-
C16 (converse of M2), part (a): the symbol loop of the meta DECODER.

Whatever bits `symLoop` accepts, it reads them one code word at a time, it
looks at nothing beyond what it consumes, and RFC 1951's `readLengths` (with
the code-length code of a meta block) reads the same bits as the same run of
code lengths: `0` for a zero symbol bit, `h` for a one.
-/
import Compress.Proofs.MetaStep
import Compress.Proofs.MetaSilentLens

namespace Compress.Proofs.MetaConv
open Compress Compress.Meta Compress.Flate Compress.Proofs.Meta Compress.Proofs.MetaSilent

/-- an accepted `readBits` names the bits it took. -/
theorem readBits_inv (n : Nat) (bs : Bits) (v : Nat) (r : Bits) (h : readBits n bs = .ok (v, r)) :
    v < 2 ^ n ∧ bs = Bits.ofNat v n ++ r := by
  simp only [readBits] at h
  by_cases hl : (bs.take n).length < n
  · rw [if_pos hl] at h; cases h
  · rw [if_neg hl] at h
    simp only [Except.ok.injEq, Prod.mk.injEq] at h
    obtain ⟨rfl, rfl⟩ := h
    have hlen : (bs.take n).length = n := by
      have := List.length_take_le n bs
      omega
    constructor
    · have := toNat_lt (bs.take n)
      rwa [hlen] at this
    · have := ofNat_toNat (bs.take n)
      rw [hlen] at this
      rw [this, List.take_append_drop]

/-- what one accepted iteration of the symbol loop read: a code word `code`
    standing for `cnt ≥ 1` copies of `bit`, which `readLengths` reads as `cnt`
    code lengths. -/
structure StepOK (st : SymState) (code : Bits) (cnt : Nat) (bit : Bool) : Prop where
  pos : 1 ≤ cnt
  rl : ∀ {cl : HuffTab} {h : Nat} (_ : ClOK cl h) (n fuelR : Nat) (acc : List Nat) (r : Bits),
    acc.head? = some (L h st.bit) → acc.length + cnt ≤ n →
    readLengths cl (fuelR + 1) n acc (code ++ r) =
      readLengths cl fuelR n (List.replicate cnt (L h bit) ++ acc) r

theorem stepOK_zero (st : SymState) : StepOK st [false] 1 false :=
  ⟨by omega, fun ok n fuelR acc r _ hn => by
    simpa [L] using rl_zero ok n fuelR acc r (by omega)⟩

theorem stepOK_one (st : SymState) : StepOK st [true, false] 1 true :=
  ⟨by omega, fun ok n fuelR acc r _ hn => by
    simpa [L] using rl_one ok n fuelR acc r (by omega)⟩

theorem stepOK_repLast (st : SymState) (v : Nat) (hv : v < 4) :
    StepOK st (true :: true :: false :: Bits.ofNat v 2) (v + 3) st.bit :=
  ⟨by omega, fun {cl h} ok n fuelR acc r hhd hn => by
    cases acc with
    | nil => simp at hhd
    | cons x a =>
      simp only [List.head?_cons, Option.some.injEq] at hhd
      subst hhd
      have := rl_repLast ok n fuelR (L h st.bit) a v r hv (by omega)
      rw [show 3 + v = v + 3 by omega] at this
      simpa using this⟩

theorem stepOK_repZero (st : SymState) (v : Nat) (hv : v < 128) :
    StepOK st (true :: true :: true :: Bits.ofNat v 7) (v + 11) false :=
  ⟨by omega, fun {cl h} ok n fuelR acc r _ hn => by
    have := rl_repZero ok n fuelR acc v r hv (by omega)
    rw [show 11 + v = v + 11 by omega] at this
    simpa [L] using this⟩

/-- **one iteration, inverted.** An accepting run of the loop that is not yet at
    the end read one of the four code words; on the same code word followed by
    anything it makes the same step. -/
theorem symLoop_inv (fuel : Nat) (st : SymState) (bs : Bits) (st' : SymState) (bs' : Bits)
    (h : symLoop (fuel + 1) st bs = .ok (st', bs')) (hidx : st.idx < 256) :
    ∃ (code : Bits) (cnt : Nat) (bit : Bool) (fifo : Nat) (r : Bits),
      bs = code ++ r ∧ StepOK st code cnt bit ∧
      ∀ r', symLoop (fuel + 1) st (code ++ r') = symLoop fuel (stepSt st cnt bit fifo) r' := by
  have h1 : ¬ (st.idx ≥ maxSyms - 1) := by simp [maxSyms]; omega
  match bs, h with
  | [], h => simp [symLoop, h1, readSym] at h
  | false :: r, h =>
    by_cases hf : fifoPush st.fifo 1 0 = 0
    · simp [symLoop, h1, readSym, hf] at h
    · exact ⟨[false], 1, false, _, r, rfl, stepOK_zero st, fun r' => symLoop_zero fuel st r' hidx hf⟩
  | [true], h => simp [symLoop, h1, readSym] at h
  | true :: false :: r, h =>
    by_cases hf : fifoPush st.fifo 2 1 = 0
    · simp [symLoop, h1, readSym, hf] at h
    · exact ⟨[true, false], 1, true, _, r, rfl, stepOK_one st, fun r' => symLoop_one fuel st r' hidx hf⟩
  | [true, true], h => simp [symLoop, h1, readSym] at h
  | true :: true :: false :: r, h =>
    cases hrb : readBits 2 r with
    | error e => simp [symLoop, h1, readSym, hrb] at h
    | ok p =>
      obtain ⟨v, r2⟩ := p
      obtain ⟨hv, rfl⟩ := readBits_inv 2 r v r2 hrb
      by_cases hf : fifoPush (fifoPush st.fifo 3 3) 2 v = 0
      · simp [symLoop, h1, readSym, hrb, hf] at h
      · exact ⟨true :: true :: false :: Bits.ofNat v 2, v + 3, st.bit, _, r2, by simp,
          stepOK_repLast st v (by omega), fun r' => by
            have := symLoop_repLast fuel st v r' hidx (by omega) hf
            simpa using this⟩
  | true :: true :: true :: r, h =>
    cases hrb : readBits 7 r with
    | error e => simp [symLoop, h1, readSym, hrb] at h
    | ok p =>
      obtain ⟨v, r2⟩ := p
      obtain ⟨hv, rfl⟩ := readBits_inv 7 r v r2 hrb
      by_cases hf : fifoPush (fifoPush st.fifo 3 7) 7 v = 0
      · simp [symLoop, h1, readSym, hrb, hf] at h
      · exact ⟨true :: true :: true :: Bits.ofNat v 7, v + 11, false, _, r2, by simp,
          stepOK_repZero st v (by omega), fun r' => by
            have := symLoop_repZero fuel st v r' hidx (by omega) hf
            simpa using this⟩

/-- **locality.** The loop consumed a prefix `body` of its input and would do
    the same whatever follows `body`. -/
theorem symLoop_local : ∀ (fuel : Nat) (st : SymState) (bs : Bits) (st' : SymState) (bs' : Bits),
    symLoop fuel st bs = .ok (st', bs') →
    ∃ body, bs = body ++ bs' ∧ ∀ r', symLoop fuel st (body ++ r') = .ok (st', r') := by
  intro fuel
  induction fuel with
  | zero =>
    intro st bs st' bs' h
    simp only [symLoop, Except.ok.injEq, Prod.mk.injEq] at h
    obtain ⟨rfl, rfl⟩ := h
    exact ⟨[], rfl, fun r' => rfl⟩
  | succ f ih =>
    intro st bs st' bs' h
    by_cases hidx : 256 ≤ st.idx
    · rw [symLoop_done _ _ _ hidx] at h
      simp only [Except.ok.injEq, Prod.mk.injEq] at h
      obtain ⟨rfl, rfl⟩ := h
      exact ⟨[], rfl, fun r' => symLoop_done _ _ _ hidx⟩
    · obtain ⟨code, cnt, bit, fifo, r, rfl, _, hstep⟩ := symLoop_inv f st bs st' bs' h (by omega)
      rw [hstep] at h
      obtain ⟨body, rfl, hb⟩ := ih _ _ _ _ h
      refine ⟨code ++ body, by simp, fun r' => ?_⟩
      rw [List.append_assoc, hstep, hb]

/-- the decoder's counters describe the symbol bits it wrote. -/
theorem symLoop_inv_out : ∀ (fuel : Nat) (st : SymState) (bs : Bits) (st' : SymState) (bs' : Bits),
    symLoop fuel st bs = .ok (st', bs') →
    st.out.length ≤ st'.out.length ∧
    (st.ones = Bits.countOnes st.out → st'.ones = Bits.countOnes st'.out) := by
  intro fuel
  induction fuel with
  | zero =>
    intro st bs st' bs' h
    simp only [symLoop, Except.ok.injEq, Prod.mk.injEq] at h
    obtain ⟨rfl, rfl⟩ := h
    exact ⟨Nat.le_refl _, id⟩
  | succ f ih =>
    intro st bs st' bs' h
    by_cases hidx : 256 ≤ st.idx
    · rw [symLoop_done _ _ _ hidx] at h
      simp only [Except.ok.injEq, Prod.mk.injEq] at h
      obtain ⟨rfl, rfl⟩ := h
      exact ⟨Nat.le_refl _, id⟩
    · obtain ⟨code, cnt, bit, fifo, r, rfl, _, hstep⟩ := symLoop_inv f st bs st' bs' h (by omega)
      rw [hstep] at h
      obtain ⟨a, b⟩ := ih _ _ _ _ h
      constructor
      · simp only [stepSt, List.length_append, List.length_replicate] at a; omega
      · intro ho
        apply b
        simp only [stepSt, countOnes_append, countOnes_replicate, ho]

/-- **simulation.** `readLengths` on the bits the loop accepted reads the code
    lengths of the symbol bits the loop wrote. -/
theorem symLoop_rl {cl : HuffTab} {h : Nat} (ok : ClOK cl h) (n : Nat) :
    ∀ (fuel : Nat) (st : SymState) (bs : Bits) (st' : SymState) (bs' : Bits) (fuelR : Nat),
    symLoop fuel st bs = .ok (st', bs') → st'.out.length ≤ n →
    st.out.getLast? = some st.bit → n ≤ fuelR + st.out.length →
    ∃ fuel', readLengths cl fuelR n (st.out.map (L h)).reverse bs =
        readLengths cl fuel' n (st'.out.map (L h)).reverse bs' ∧
      n ≤ fuel' + st'.out.length := by
  intro fuel
  induction fuel with
  | zero =>
    intro st bs st' bs' fuelR hs _ _ hf
    simp only [symLoop, Except.ok.injEq, Prod.mk.injEq] at hs
    obtain ⟨rfl, rfl⟩ := hs
    exact ⟨fuelR, rfl, hf⟩
  | succ f ih =>
    intro st bs st' bs' fuelR hs hn hlast hf
    by_cases hidx : 256 ≤ st.idx
    · rw [symLoop_done _ _ _ hidx] at hs
      simp only [Except.ok.injEq, Prod.mk.injEq] at hs
      obtain ⟨rfl, rfl⟩ := hs
      exact ⟨fuelR, rfl, hf⟩
    · obtain ⟨code, cnt, bit, fifo, r, rfl, sok, hstep⟩ := symLoop_inv f st bs st' bs' hs (by omega)
      rw [hstep] at hs
      have hmono := (symLoop_inv_out _ _ _ _ _ hs).1
      simp only [stepSt, List.length_append, List.length_replicate] at hmono
      have hpos := sok.pos
      obtain ⟨fR, rfl⟩ : ∃ fR, fuelR = fR + 1 := ⟨fuelR - 1, by omega⟩
      have hhd : ((st.out.map (L h)).reverse).head? = some (L h st.bit) := by
        rw [List.head?_reverse, List.getLast?_map, hlast]; rfl
      rw [sok.rl ok n fR _ r hhd (by simp; omega)]
      have hout : (List.replicate cnt (L h bit) ++ (st.out.map (L h)).reverse) =
          ((stepSt st cnt bit fifo).out.map (L h)).reverse := by
        simp [stepSt, List.map_append, List.reverse_append, List.map_replicate]
      rw [hout]
      apply ih _ _ _ _ fR hs hn
      · obtain ⟨j, rfl⟩ : ∃ j, cnt = j + 1 := ⟨cnt - 1, by omega⟩
        simp [stepSt, List.replicate_succ']
      · simp only [stepSt, List.length_append, List.length_replicate]; omega

end Compress.Proofs.MetaConv
